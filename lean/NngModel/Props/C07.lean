/-
  C07 — SURVEYOR / RESPONDENT.  Property theorems about the executable models
  (Model/Survey.lean, Model/Respond.lean); helper lemmas are in Proofs/Survey*.lean.
  All statements quantify over every state / every event sequence.
-/
import NngModel.Proofs.SurveyLocal
import NngModel.Proofs.SurveyOut
import NngModel.Proofs.SurveyPoll
import NngModel.Proofs.SurveyRespPoll
import NngModel.Proofs.SurveyRespQueue
import NngModel.Proofs.SurveyRespWritable
import NngModel.Proofs.RawSurvPoll
import NngModel.Proofs.RespJudgeMain
import NngModel.Proofs.SurvJudgeMain
import NngModel.Proofs.RawJudgeMain
import NngModel.Props.C13
import NngModel.Spec.Survey
import NngModel.Spec.RawSurvey
import NngModel.Generated.C07
import NngModel.Generated.C07X
namespace Nng.C07
open Nng Nng.Proto

/-- the protocol numbers used by the models are those of the C source -/
theorem proto_ids : Nng.Survey.peerResp = Nng.Proto.protoId 6 3 ∧ Nng.Respond.peerSurv = Nng.Proto.protoId 6 2 := by decide

/-- the source has the shapes the models mirror: only negative timeouts are clamped to the survey
    deadline (F9 repaired); resp0_ctx_send clears the socket's send pollable, then calls
    nni_aio_start, and only then looks at its state (F8 is open: the repository's own test pins that
    order), refuses a second send while one is parked (R1), pipe loss clears a stale receive
    pollable (R2), the send pollable follows the pipe of the socket's pending survey (R3) -/
theorem code_shapes : Nng.Generated.survRecvClampBelow = 0 ∧ Nng.Generated.respSendStartsFirst = 1 ∧
    Nng.Generated.respSendClearsFirst = 1 ∧
    Nng.Generated.respSendRefusesSecond = 1 ∧ Nng.Generated.respCloseClearsReadable = 1 ∧
    Nng.Generated.respWritableTracksPipe = 1 := by decide

/-! ### SURVEYOR -/

/-- S1: along every event sequence, a message handed to the application carries the id the
    context is registered under at that moment (its current survey), that id is a real one,
    and the survey deadline has not passed (`<` when the receive call takes it from the queue;
    `≤` when it is handed to a receive parked earlier: the aio expiry fires only *after* the
    deadline instant, the one point where the C code still delivers) -/
theorem S1_delivery_sound (evs : List Ev) :
    ∀ d ∈ (Survey.run {} evs).1.delivered,
      d.msgId = d.curId ∧ d.curId ≠ 0 ∧ (d.now : Int) ≤ d.expire ∧ (d.direct = true → (d.now : Int) < d.expire) :=
  (Survey.run_inv {} evs Survey.inv_init).delOK

/-- S1: the ghost list misses nothing: in every state, a completion that hands a message to the
    application is a success and appends exactly one record (for that aio) to `delivered`; no
    other step touches the list in a way that hides a delivery -/
theorem S1_every_message_recorded (s : Survey.State) (ev : Ev) :
    ∀ a rv m b, Out.done a rv (some m) b ∈ (Survey.step s ev).2 →
      ∃ d, (Survey.step s ev).1.delivered = s.delivered ++ [d] ∧ d.aio = a ∧ rv = 0 :=
  Survey.step_recorded s ev

/-- S1/S5: in every reachable state everything queued in a context is a response to the survey
    it is registered under; receivers wait only with an empty queue; a parked receive expires
    between now and the survey deadline -/
theorem S1_state (evs : List Ev) :
    ∀ c ∈ (Survey.run {} evs).1.ctxs,
      (∀ m ∈ c.recvQ, m.id = c.surveyId) ∧ (c.rq ≠ [] → c.recvQ = []) ∧
      (∀ pk ∈ c.rq, (((Survey.run {} evs).1.now : Nat) : Int) ≤ pk.deadline ∧ pk.deadline ≤ c.expire) := by
  intro c hc
  have h := (Survey.run_inv {} evs Survey.inv_init).ctxsOK c hc
  exact ⟨h.qid, h.excl, h.dl⟩

/-- S2: when time passes, every parked receive whose expiry (≤ the survey deadline by
    `S1_state`) is now behind completes with NNG_ETIMEDOUT in that step -/
theorem S2_timeout (s : Survey.State) (ms : Nat) (c : Survey.Ctx) (pk : Survey.Parked) (hc : c ∈ s.ctxs) (hpk : pk ∈ c.rq)
    (hd : pk.deadline < ((s.now + ms : Nat) : Int)) :
    Out.done pk.aio Err.etimedout none false ∈ (Survey.expire { s with now := s.now + ms }).2 :=
  Survey.advance_times_out s ms c pk hc hpk hd

/-- S3: receive with no live survey (none registered, or deadline reached) fails with NNG_ESTATE
    and changes nothing -/
theorem S3_estate (s : Survey.State) (c : Survey.Ctx) (a : Nat) (mode : Mode)
    (h : c.surveyId = 0 ∨ (s.now : Int) ≥ c.expire) :
    Survey.ctxRecv s c a mode = (s, [Out.done a Err.estate none false]) :=
  Survey.recv_estate s c a mode h

/-- S4: a new survey completes every receive parked on the context with NNG_ECANCELED … -/
theorem S4_cancels (s : Survey.State) (c : Survey.Ctx) (a : Nat) (m : WMsg) :
    ∀ pk ∈ c.rq, Out.done pk.aio Err.ecanceled none false ∈ (Survey.ctxSend s c a m).2 :=
  Survey.send_cancels s c a m

/-- … leaves the context with nothing parked and nothing queued, registered (if at all) under
    the id issued last … -/
theorem S4_resets (s : Survey.State) (c : Survey.Ctx) (a : Nat) (m : WMsg) :
    ∀ q ∈ (Survey.ctxSend s c a m).1.ctxs, q.key = c.key → q.rq = [] ∧ q.recvQ = [] ∧
      (q.surveyId = 0 ∨ (Survey.ctxSend s c a m).1.issued.getLast? = some q.surveyId) :=
  Survey.send_resets s c a m

/-- … and that id is registered to no context at the moment it is chosen -/
theorem S4_fresh (s : Survey.State) (f v id dv : Nat) (h : Survey.idScan s f v = some (id, dv)) :
    Survey.idInUse s id = false :=
  Survey.idScan_fresh s f v id dv h

/-- S5: an arriving response changes at most contexts registered under exactly its id … -/
theorem S5_frame (s : Survey.State) (p : Nat) (b : Bytes) :
    ∀ q ∈ (Survey.pipeRecv s p b).1.ctxs, q ∈ s.ctxs ∨
      (4 ≤ b.length ∧ q.surveyId ≠ 0 ∧ q.surveyId = beDecode (b.take 4)) :=
  Survey.response_frame s p b

/-- … a short one changes no context, an id nobody is registered under changes nothing at all
    (stale ids, other sockets' ids, ids without the high bit are all of this kind) -/
theorem S5_ignored (s : Survey.State) (p : Nat) (b : Bytes) :
    (b.length < 4 → (Survey.pipeRecv s p b).1.ctxs = s.ctxs) ∧
    (¬ b.length < 4 → Survey.lookup s (beDecode (b.take 4)) = none →
      (Survey.pipeRecv s p b).1 = { s with narrive := s.narrive + 1 }) :=
  ⟨Survey.short_response_ignored s p b, Survey.unknown_response_ignored s p b⟩

/-- S7: a non-blocking (or zero-timeout) receive completes in the call, it is never parked -/
theorem S7_surveyor_nonblocking (s : Survey.State) (c : Survey.Ctx) (a : Nat) (mode : Mode)
    (hz : Survey.timeoutOf mode = 0) : ∃ rv m, (Survey.ctxRecv s c a mode).2 = [Out.done a rv m false] :=
  Survey.recv_zero_completes s c a mode hz

/-- S7 (pollable): along every event sequence the receive pollable is raised exactly when the
    socket's own context has a queued response, and there is at most one such context -/
theorem S7_surveyor_readable (evs : List Ev) :
    let s := (Survey.run {} evs).1
    (s.readable = true ↔ ∃ c ∈ s.ctxs, c.key = none ∧ c.recvQ ≠ []) ∧
    (∀ c1 ∈ s.ctxs, ∀ c2 ∈ s.ctxs, c1.key = none → c2.key = none → c1 = c2) := by
  have h := Survey.run_pinv {} evs Survey.pinv_init Survey.inv_init
  exact ⟨h.rd, h.uniq⟩

/-- S7: what a non-blocking receive does with that queue.  Together with `S7_surveyor_readable`:
    readable ⇒ the call does not return NNG_EAGAIN (a response, or NNG_ESTATE once the survey is
    over — the queue of an expired survey is only flushed by the next survey, so the descriptor
    stays readable meanwhile: that is the one case where "readable" does not mean "would succeed");
    would succeed ⇒ queue non-empty ⇒ readable -/
theorem S7_surveyor_nb_outcomes (s : Survey.State) (c : Survey.Ctx) (a : Nat) :
    ((c.surveyId = 0 ∨ (s.now : Int) ≥ c.expire) ∧ (Survey.ctxRecv s c a .nb).2 = [Out.done a Err.estate none false]) ∨
    (¬(c.surveyId = 0 ∨ (s.now : Int) ≥ c.expire) ∧ c.recvQ = [] ∧ (Survey.ctxRecv s c a .nb).2 = [Out.done a Err.eagain none false]) ∨
    (¬(c.surveyId = 0 ∨ (s.now : Int) ≥ c.expire) ∧ ∃ gm rest, c.recvQ = gm :: rest ∧
      (Survey.ctxRecv s c a .nb).2 = [Out.done a 0 (some gm.m) false]) :=
  Survey.recv_nb_cases s c a

/-! ### RESPONDENT -/

/-- S6, full statement: every response handed to a pipe carries the backtrace of, and goes to
    the pipe of, the survey its context had received last when the send was submitted -/
def S6_wire_statement : Prop :=
  ∀ evs : List Ev, ∀ w ∈ (Respond.run {} evs).1.wire, w.expected = some (w.pipe, w.m.hdr)

/-- S6 — proved in full (C07X): also a response that had to wait behind a busy pipe goes out on the
    pipe it was queued for, with the saved backtrace.  Invariant (Proofs/SurveyRespQueue.lean,
    `QInv`): every key on a pipe's wait list belongs to a context whose parked send was computed for
    exactly that pipe (`exp = some (pipe, hdr)`), wait lists have no duplicates; kept by send, receive,
    pipe receive, send completion, cancel / abort / expiry, pipe loss, context close, socket close. -/
theorem S6_wire : S6_wire_statement := Respond.wire_full

/-- the former partial statement, now a corollary -/
theorem S6_wire_partial (evs : List Ev) :
    ∀ w ∈ (Respond.run {} evs).1.wire,
      ∃ p, w.expected = some (p, w.m.hdr) ∧ (w.direct = true → p = w.pipe) :=
  fun w hw => ⟨w.pipe, Respond.wire_full evs w hw, fun _ => rfl⟩

/-- S6: in every reachable state a context's saved backtrace and pipe are those of the survey
    it received last -/
theorem S6_state (evs : List Ev) :
    ∀ c ∈ (Respond.run {} evs).1.ctxs, c.btrace ≠ [] → ∃ p, c.pipeId = some p ∧ c.last = some (p, c.btrace) :=
  fun c hc => ((Respond.run_rinv {} evs Respond.rinv_init).ctxsOK c hc).bt

/-- S6: sending (with a timeout that lets the send wait) with no pending survey fails with
    NNG_ESTATE; contexts, pipes and wire unchanged.  (A zero-timeout send never gets as far as
    this test: `S7_respondent_zero_timeout`.) -/
theorem S6_estate (s : Respond.State) (c : Respond.Ctx) (a : Nat) (m : WMsg) (mode : Mode)
    (hz : Respond.zeroRv mode = none) (h : c.btrace = []) :
    (Respond.ctxSend s c a m mode).2 = [Out.done a Err.estate none true] ∧
    (Respond.ctxSend s c a m mode).1.ctxs = s.ctxs ∧ (Respond.ctxSend s c a m mode).1.pipes = s.pipes ∧
    (Respond.ctxSend s c a m mode).1.wire = s.wire :=
  Respond.send_estate s c a m mode hz h

/-- S6: an accepted send consumes the pending survey (one response per survey) -/
theorem S6_consumes (s : Respond.State) (c : Respond.Ctx) (a : Nat) (m : WMsg) (mode : Mode)
    (hz : Respond.zeroRv mode = none) (hb : c.btrace ≠ []) (hs : c.saio = none) :
    ∀ q ∈ (Respond.ctxSend s c a m mode).1.ctxs, q.key = c.key → q.btrace = [] ∧ q.pipeId = none :=
  Respond.send_consumes s c a m mode hz hb hs

/-- S7 as the code is (F8 open, reported under C15): a zero-timeout send — NNG_FLAG_NONBLOCK, or an
    aio with timeout 0 — never parks and never sends.  It fails at once, NNG_EAGAIN resp.
    NNG_ETIMEDOUT, with the message left to the caller, in every state (also when it could have
    sent); contexts (so a pending survey is *not* consumed), pipes and wire are untouched, only the
    socket context's send pollable has already been cleared.  A zero-timeout receive completes in
    the call. -/
theorem S7_respondent_zero_timeout (s : Respond.State) (c : Respond.Ctx) (a : Nat) (m : WMsg) (mode : Mode) (rv : Nat)
    (hz : Respond.zeroRv mode = some rv) :
    ((Respond.ctxSend s c a m mode).2 = [Out.done a rv none true] ∧
     (Respond.ctxSend s c a m mode).1.ctxs = s.ctxs ∧ (Respond.ctxSend s c a m mode).1.pipes = s.pipes ∧
     (Respond.ctxSend s c a m mode).1.wire = s.wire ∧
     (Respond.ctxSend s c a m mode).1.writable = (if c.key == none then false else s.writable)) ∧
    (Respond.ctxRecv s c a mode).2 ≠ [] :=
  ⟨Respond.send_zero_fails s c a m mode rv hz, Respond.recv_zero_completes s c a mode rv hz⟩

/-- S7 (send pollable): every send attempt on the socket's own context leaves the send pollable
    down — accepted, parked, refused, or failed on a zero timeout (the clear sits at the top of
    resp0_ctx_send, before nni_aio_start).  Consequence with F8 open: a poll loop that reacts to
    "writable" with a non-blocking send gets NNG_EAGAIN and then sees the descriptor *not* writable
    although the survey is still pending and its pipe idle: the flag is stale in the other
    direction until the next survey is received or the pipe completes a send or closes. -/
theorem S7_respondent_send_clears_writable (s : Respond.State) (c : Respond.Ctx) (a : Nat) (m : WMsg) (mode : Mode)
    (hk : c.key = none) : (Respond.ctxSend s c a m mode).1.writable = false :=
  Respond.send_clears_writable s c a m mode hk

/-- S7 (pollable): along every event sequence the respondent's receive pollable is raised exactly
    when some pipe holds a survey nobody has taken; with none a non-blocking receive returns
    NNG_EAGAIN, with one it succeeds -/
theorem S7_respondent_readable (evs : List Ev) :
    ((Respond.run {} evs).1.readable = true ↔ (Respond.run {} evs).1.recvpipes ≠ []) :=
  Respond.run_rd {} evs Respond.rd_init

theorem S7_respondent_nb_recv (s : Respond.State) (c : Respond.Ctx) (a : Nat) :
    (s.recvpipes = [] → (Respond.ctxRecv s c a .nb).2 = [Out.done a Err.eagain none false]) ∧
    (∀ p rest pp wm, s.recvpipes = p :: rest → Respond.getPipe s p = some pp → pp.held = some wm →
      Out.done a 0 (some ⟨[], wm.body⟩) false ∈ (Respond.ctxRecv s c a .nb).2) :=
  ⟨Respond.recv_empty_gives_up s c a, fun p rest pp wm h1 h2 h3 => Respond.recv_succeeds_iff s c a p rest pp wm .nb h1 h2 h3⟩

/-- S7 (send pollable of the respondent): "raised ⇒ a non-blocking send does not return
    NNG_EAGAIN" is FALSE for the code as it is (F8): the reachable state after one received survey
    polls writable and the non-blocking send returns NNG_EAGAIN (and leaves the flag down). -/
theorem S7_respondent_writable_nb_counterexample :
    let evs : List Ev := [.openSock "respondent" false, .pipeAdd 98,
      .recvDone 0 (.ok [0x80, 0, 0, 2, 9]), .recv none 0 .inf]
    let s := (Respond.run {} evs).1
    s.writable = true ∧
    (Respond.step s (.send none 1 ⟨[], [5]⟩ .nb)).2 = [Out.done 1 Err.eagain none true] ∧
    (Respond.step s (.send none 1 ⟨[], [5]⟩ .nb)).1.writable = false := by decide

/-- what remains true of the send pollable: raised ⇒ a send that may wait completes in the call
    (the pending survey's pipe is idle or gone) -/
def S7_respondent_writable_statement : Prop :=
  ∀ evs : List Ev, let s := (Respond.run {} evs).1
    s.writable = true → ∀ c ∈ s.ctxs, c.key = none → ∀ a m, (Respond.ctxSend s c a m .inf).2 ≠ []

/-- proved (C07X), invariant `WInv` of Proofs/SurveyRespWritable.lean: writable ⇒ the socket context has
    a pending survey whose pipe is gone or not busy -/
theorem S7_respondent_writable : S7_respondent_writable_statement := Respond.writable_send_completes

/-- … and the completion is a success, provided no earlier response of the socket context is still
    parked behind a busy pipe -/
theorem S7_respondent_writable_succeeds (evs : List Ev) :
    let s := (Respond.run {} evs).1
    s.writable = true → ∀ c ∈ s.ctxs, c.key = none → c.saio = none →
      ∀ a m, Out.done a 0 none false ∈ (Respond.ctxSend s c a m .inf).2 :=
  Respond.writable_send_succeeds evs

/-- the proviso is needed (observation, reproduced on the real code, corpus/C07/w1_*.ops): while the socket
    context's previous response is parked behind busy pipe 0 it takes the next survey from idle pipe 1;
    resp0_ctx_recv raises the send pollable from `p->busy` alone, and the send is then refused with
    NNG_ESTATE by the "previous response still parked" test — in the call, so the statement above holds -/
theorem S7_respondent_writable_estate_example :
    let sv : Bytes := [0x80, 0, 0, 2, 9]
    let evs : List Ev := [.openSock "respondent" false, .pipeAdd 98, .ctxOpen 1,
      .recvDone 0 (.ok sv), .recv (some 1) 0 .inf, .send (some 1) 1 ⟨[], [5]⟩ .inf,
      .recvDone 0 (.ok sv), .recv none 2 .inf, .send none 3 ⟨[], [6]⟩ .inf,
      .pipeAdd 98, .recvDone 1 (.ok sv), .recv none 4 .inf]
    let s := (Respond.run {} evs).1
    s.writable = true ∧
    (Respond.step s (.send none 5 ⟨[], [7]⟩ .inf)).2 = [Out.done 5 Err.estate none true] :=
  Respond.writable_estate_example

/-! ### non-vacuity: the hypotheses are met by concrete runs -/

def surveyDemo : List Ev :=
  [.openSock "surveyor" false, .pipeAdd 99, .send none 0 ⟨[], [1]⟩ .inf, .recv none 1 .inf,
   .recvDone 0 (.ok [0x80, 0, 0, 0, 7]), .recvDone 0 (.ok [0x80, 0, 0, 0, 8]), .recv none 2 .nb]

example : ((Survey.run {} surveyDemo).1.delivered.map fun d => (d.aio, d.direct)) = [(1, false), (2, true)] := by decide

def respondDemo : List Ev :=
  [.openSock "respondent" false, .pipeAdd 98, .recvDone 0 (.ok [0, 0, 0, 1, 0x80, 0, 0, 2, 9]), .recv none 0 .inf,
   .send none 1 ⟨[], [5]⟩ .inf, .send none 2 ⟨[], [6]⟩ .inf]

example : ((Respond.run {} respondDemo).1.wire.map fun w => (w.pipe, w.m.hdr.length, w.direct)) = [(0, 8, true)] := by decide

example : (Respond.run {} respondDemo).2.getLast? = some [Out.done 2 Err.estate none true] := by decide

/-! ## raw mode: raw SURVEYOR (xsurvey.c) and raw RESPONDENT (xrespond.c)

  Models: Model/RawSurv.lean (the text the two C files share) instantiated by Model/Xsurvey.lean and
  Model/Xrespond.lean, header functions from Model/Backtrace.lean (C13).  `reach` = state after any
  event list.  Ghost lists: `accepted` (arrivals that passed the header processing), `delivered`,
  `lost`, `sent` (messages the socket took from the upper write queue), per pipe `offered wired dropped`. -/

open Nng.RawMq Nng.RawSurv

/-- constants and code shapes the raw models mirror: protocol numbers, per-pipe send queue depths
    16 / 2, default TTL 8, socket queue depths 0 / 1, and nni_msgq_aio_get/put examine the queue
    before starting the aio (F13 repaired, c50b100) -/
theorem raw_code_shapes :
    Xsurvey.kind.peer = Nng.Proto.protoId 6 3 ∧ Xrespond.kind.peer = Nng.Proto.protoId 6 2 ∧
    Xsurvey.kind.sqCap = 16 ∧ Xrespond.kind.sqCap = 2 ∧ Xsurvey.kind.ttlInit = 8 ∧ Xrespond.kind.ttlInit = 8 ∧
    Nng.Generated.xsvSockSendq = 0 ∧ Nng.Generated.xsvSockRecvq = 1 ∧ Nng.Generated.xsvMsgqQueueFirst = 1 ∧
    RawSurveySpec.depth false = Xsurvey.kind.sqCap ∧ RawSurveySpec.depth true = Xrespond.kind.sqCap ∧
    RawSurveySpec.capWords * 4 = Nng.Generated.headerCap := by decide

/-- X1/Y1 (delivery accounting, both raw sockets, all event sequences): every arrival that passed the
    header processing is, exactly once, delivered, still owed by the upper read queue (stored, or
    with its pipe's parked put) or lost (its pipe or the socket closed first); what was delivered and
    what is owed, in that order, is a subsequence of the arrivals: delivery in arrival order (hence
    per pipe), at most once; the queue stores at most its depth and no receiver waits while
    anything is owed -/
theorem raw_delivery_accounting (evs : List Ev) :
    (∀ s, s = (Xsurvey.run {} evs).1 ∨ s = (Xrespond.run {} evs).1 →
      (s.delivered ++ pending s.urq ++ s.lost).Perm (s.accepted.map (·.m)) ∧
      (s.delivered ++ pending s.urq).Sublist (s.accepted.map (·.m)) ∧
      s.urq.items.length ≤ Nng.Generated.xsvSockRecvq ∧ (s.urq.getq ≠ [] → pending s.urq = [])) := by
  intro s hs
  have key : ∀ k sel, Inv k sel s → _ := fun k sel (h : Inv k sel s) =>
    (⟨h.core.urq.acct, h.core.urq.order, h.core.urq.capk ▸ h.core.urq.occ,
      fun hne => pending_nil _ (h.core.urq.rd hne).1 (h.core.urq.rd hne).2⟩ :
      (s.delivered ++ pending s.urq ++ s.lost).Perm (s.accepted.map (·.m)) ∧
      (s.delivered ++ pending s.urq).Sublist (s.accepted.map (·.m)) ∧
      s.urq.items.length ≤ Nng.Generated.xsvSockRecvq ∧ (s.urq.getq ≠ [] → pending s.urq = []))
  rcases hs with rfl | rfl
  · exact key _ _ (Xsurvey.reach_inv evs)
  · exact key _ _ (Xrespond.reach_inv evs)

/-- X2 (raw SURVEYOR, header of a delivered response): every accepted arrival is one that C13's
    specification accepts with no hop limit (header capacity 16 words); the header handed up is exactly
    its backtrace (the words up to and including the first one with the high bit, moved from the body),
    the body the payload.  (Anything else closes the pipe: `D5_classification`.) -/
theorem xsurveyor_response_header (evs : List Ev) :
    ∀ a ∈ (Xsurvey.run {} evs).1.accepted,
      BtSpec.classifyNoTtl (Nng.Generated.maxMaxTtl + 1) a.bytes = .accept a.m.hdr a.m.body := by
  intro a ha
  have h := ((Xsurvey.reach_inv evs).core.urq.hdr a ha).1
  have hc := (Nng.C13.D5_classification 1 0 a.bytes (by decide)).2.2.2.2.2
  change Bt.xsurveyRecv a.bytes = _ at h
  rw [hc] at h
  cases hv : BtSpec.classifyNoTtl (Nng.Generated.maxMaxTtl + 1) a.bytes with
  | accept bt p => rw [hv] at h; simp only [Bt.ofVerdict, List.nil_append, Bt.Outcome.deliver.injEq] at h; rw [h.1, h.2]
  | drop => rw [hv] at h; cases h
  | malformed => rw [hv] at h; cases h

/-- Y2 (raw RESPONDENT, header of a delivered survey): every accepted arrival is one that C13's
    specification accepts under the hop limit in force when it arrived; the header handed up is the id
    of the arrival pipe followed by exactly its backtrace, the body the payload -/
theorem xrespondent_survey_header (evs : List Ev) :
    ∀ a ∈ (Xrespond.run {} evs).1.accepted, ∃ bt,
      BtSpec.classify a.ttl a.bytes = .accept bt a.m.body ∧ a.m.hdr = beEncode 4 (Xrespond.pipeId a.pipe) ++ bt := by
  intro a ha
  obtain ⟨h, ht⟩ := (Xrespond.reach_inv evs).core.urq.hdr a ha
  have hc := (Nng.C13.D5_classification a.ttl (Xrespond.pipeId a.pipe) a.bytes ht).2.2.1
  change Bt.xrespondRecv a.ttl (Xrespond.pipeId a.pipe) a.bytes = _ at h
  rw [hc] at h
  cases hv : BtSpec.classify a.ttl a.bytes with
  | accept bt p =>
    rw [hv] at h; simp only [Bt.ofVerdict, Bt.Outcome.deliver.injEq] at h
    exact ⟨bt, by rw [h.2], by rw [← h.1]; rfl⟩
  | drop => rw [hv] at h; cases h
  | malformed => rw [hv] at h; cases h

/-- X3 (raw SURVEYOR, fan-out accounting, all event sequences): for every pipe, what it was offered is
    — exactly once — on its wire, in its send queue, or discarded (queue full at the offer, or still
    queued when the pipe closed); wire ++ queue is a subsequence of the offers (per-pipe order, at most
    once); the queue never holds more than 16; and while the pipe is attached its offers are exactly
    the messages the socket has taken since some point (its attachment): every send, once, unchanged -/
theorem xsurveyor_fanout_accounting (evs : List Ev) :
    let s := (Xsurvey.run {} evs).1
    ∀ (i : Nat) (pp : Pipe), s.pipes[i]? = some pp →
      (pp.wired ++ pp.sq.items ++ pp.dropped).Perm pp.offered ∧ (pp.wired ++ pp.sq.items).Sublist pp.offered ∧
      pp.sq.items.length ≤ 16 ∧
      (pp.closed = false → ∃ n, n ≤ s.sent.length ∧ pp.offered = s.sent.drop n) := by
  intro s i pp hi
  have h := (Xsurvey.reach_inv evs).core.pipes i pp hi
  refine ⟨h.perm, h.sub, ?_, ?_⟩
  · have := h.occ; rw [h.capk] at this; exact this
  · intro hc
    obtain ⟨n, hn, ho⟩ := h.fan hc
    exact ⟨n, hn, by rw [ho]; exact List.filterMap_some⟩

/-- Y3 (raw RESPONDENT, routing accounting, all event sequences): the same per-pipe accounting with
    depth 2, and while pipe `i` is attached its offers are exactly those messages the socket has taken
    since its attachment whose first header word is the id of pipe `i`, each with that word popped and
    the rest of the header and the body unchanged -/
theorem xrespondent_routing_accounting (evs : List Ev) :
    let s := (Xrespond.run {} evs).1
    ∀ (i : Nat) (pp : Pipe), s.pipes[i]? = some pp →
      (pp.wired ++ pp.sq.items ++ pp.dropped).Perm pp.offered ∧ (pp.wired ++ pp.sq.items).Sublist pp.offered ∧
      pp.sq.items.length ≤ 2 ∧
      (pp.closed = false → ∃ n, n ≤ s.sent.length ∧ pp.offered = (s.sent.drop n).filterMap (fun m =>
        if 4 ≤ m.hdr.length ∧ beDecode (m.hdr.take 4) = Xrespond.pipeId i then some ⟨m.hdr.drop 4, m.body⟩ else none)) := by
  intro s i pp hi
  have h := (Xrespond.reach_inv evs).core.pipes i pp hi
  refine ⟨h.perm, h.sub, ?_, ?_⟩
  · have := h.occ; rw [h.capk] at this; exact this
  · intro hc
    obtain ⟨n, hn, ho⟩ := h.fan hc
    refine ⟨n, hn, ?_⟩
    rw [ho]
    congr 1
    funext m
    simp only [Xrespond.sel, Bt.xrespondSend]
    by_cases hl : m.hdr.length < 4
    · rw [if_pos hl, if_neg (by omega)]
    · rw [if_neg hl]
      simp only []
      by_cases e : beDecode (m.hdr.take 4) = Xrespond.pipeId i
      · rw [if_pos e, if_pos ⟨by omega, e⟩]
      · rw [if_neg e, if_neg (fun x => e x.2)]

/-- X4/Y4 (one offer = nni_msgq_tryput on an attached pipe's send queue): idle pipe ⇒ the message goes
    on the wire at once; else room ⇒ queued last; else the offered message — whole — is discarded and
    queue and wire are untouched ("drops only whole messages, only when the pipe queue is full") -/
theorem raw_offer_rule (i : Nat) (pp : Pipe) (m : WMsg) (hc : pp.closed = false) (hs : pp.sq.closed = false) :
    (pp.sq.getq ≠ [] → (offer i pp m).2 = [Out.psend i m] ∧ (offer i pp m).1.wired = pp.wired ++ [m] ∧
        (offer i pp m).1.sq.items = pp.sq.items ∧ (offer i pp m).1.dropped = pp.dropped) ∧
    (pp.sq.getq = [] → pp.sq.items.length < pp.sq.cap → (offer i pp m).2 = [] ∧ (offer i pp m).1.wired = pp.wired ∧
        (offer i pp m).1.sq.items = pp.sq.items ++ [m] ∧ (offer i pp m).1.dropped = pp.dropped) ∧
    (pp.sq.getq = [] → ¬ pp.sq.items.length < pp.sq.cap → (offer i pp m).2 = [] ∧ (offer i pp m).1.wired = pp.wired ∧
        (offer i pp m).1.sq.items = pp.sq.items ∧ (offer i pp m).1.dropped = pp.dropped ++ [m]) := by
  unfold offer tryput
  rw [if_neg (by simp [hc]), if_neg (by simp [hs])]
  refine ⟨?_, ?_, ?_⟩
  · intro hg
    cases hq : pp.sq.getq with
    | nil => exact absurd hq hg
    | cons r rs => exact ⟨rfl, rfl, rfl, rfl⟩
  · intro hg hl; rw [hg]; simp only []; rw [if_pos hl]; exact ⟨rfl, rfl, rfl, rfl⟩
  · intro hg hl; rw [hg]; simp only []; rw [if_neg hl]; exact ⟨rfl, rfl, rfl, rfl⟩

/-- X5 (raw SURVEYOR, one send in any reachable open state, any mode): it completes in the call with
    success; every listed pipe `j` becomes `offer j pp m` — the message itself, header untouched —,
    and whatever reaches a wire in that step is that message on an attached pipe -/
theorem xsurveyor_send_fans_out (evs : List Ev) (a : Nat) (m : WMsg) (mode : Mode) :
    let s := (Xsurvey.run {} evs).1
    s.opened = true → s.closed = false →
    (∃ o, (sockSend Xsurvey.kind s a m mode).2 = Out.done a 0 none false :: o ∧
      ∀ x ∈ o, ∃ j pp, s.pipes[j]? = some pp ∧ pp.closed = false ∧ x = Out.psend j m) ∧
    (∀ (j : Nat) (pp : Pipe), s.pipes[j]? = some pp → (sockSend Xsurvey.kind s a m mode).1.pipes[j]? = some (offer j pp m).1) := by
  intro s ho hc
  obtain ⟨_, h2, h3, _⟩ := send_completes s a m mode (Xsurvey.reach_inv evs) ho hc
  refine ⟨⟨_, h2, ?_⟩, ?_⟩
  · intro x hx
    obtain ⟨j, pp, hj, hcl, e⟩ := Xsurvey.fanout_out m s.pipes 0 x hx
    exact ⟨j, pp, hj, hcl, by simpa using e⟩
  · intro j pp hj
    rw [h3]
    have := Xsurvey.fanout_at m s.pipes 0 j pp hj
    rw [Nat.zero_add] at this
    exact this

/-- Y5 (raw RESPONDENT, routing of one send in any reachable open state, any mode): it completes in
    the call with success; a header shorter than one word, the id 0, an id of no attached pipe ⇒ no
    pipe changes and nothing reaches a wire (discarded); otherwise only the pipe named by the first
    header word changes (`offer` of the message with that word popped), and whatever reaches a wire
    in that step is that message on that pipe -/
theorem xrespondent_send_routes (evs : List Ev) (a : Nat) (m : WMsg) (mode : Mode) :
    let s := (Xrespond.run {} evs).1
    s.opened = true → s.closed = false →
    (sockSend Xrespond.kind s a m mode).2 = Out.done a 0 none false :: (Xrespond.route s.pipes m).2 ∧
    (sockSend Xrespond.kind s a m mode).1.pipes = (Xrespond.route s.pipes m).1 ∧
    ((m.hdr.length < 4 ∨ beDecode (m.hdr.take 4) = 0 ∨ s.pipes[beDecode (m.hdr.take 4) - 1]? = none ∨
        ∃ pp, s.pipes[beDecode (m.hdr.take 4) - 1]? = some pp ∧ pp.closed = true) →
      Xrespond.route s.pipes m = (s.pipes, [])) ∧
    (∀ x ∈ (Xrespond.route s.pipes m).2, ¬ m.hdr.length < 4 ∧
      x = Out.psend (beDecode (m.hdr.take 4) - 1) ⟨m.hdr.drop 4, m.body⟩ ∧
      Xrespond.pipeId (beDecode (m.hdr.take 4) - 1) = beDecode (m.hdr.take 4)) ∧
    (∀ pp, ¬ m.hdr.length < 4 → beDecode (m.hdr.take 4) ≠ 0 → s.pipes[beDecode (m.hdr.take 4) - 1]? = some pp → pp.closed = false →
      (Xrespond.route s.pipes m).1 = s.pipes.set (beDecode (m.hdr.take 4) - 1)
        (offer (beDecode (m.hdr.take 4) - 1) pp ⟨m.hdr.drop 4, m.body⟩).1) := by
  intro s ho hc
  obtain ⟨_, h2, h3, _⟩ := send_completes s a m mode (Xrespond.reach_inv evs) ho hc
  refine ⟨h2, h3, Xrespond.route_discards s.pipes m, Xrespond.route_out s.pipes m, ?_⟩
  intro pp hl h0 hg hcl
  rw [Xrespond.route_named s.pipes m pp hl h0 hg hcl]

/-- X6/Y6 (poll flags = readiness of the socket-level queues, both raw sockets, every reachable state):
    the receive flag (`recvable` of the upper read queue, as nni_msgq_run_notify leaves it) is raised
    iff a non-blocking receive returns a message — the oldest one owed —, and is down iff it returns
    NNG_EAGAIN; while the socket is open the send flag is raised and a send completes at once -/
theorem raw_poll_flags (evs : List Ev) (a : Nat) :
    ∀ s, s = (Xsurvey.run {} evs).1 ∨ s = (Xrespond.run {} evs).1 →
      ((recvable s.urq = false ∧ (sockRecv s a .nb).2 = [Out.done a Err.eagain none false]) ∨
       (recvable s.urq = true ∧ ∃ m rest, pending s.urq = m :: rest ∧
         ((sockRecv s a .nb).2 = [Out.done a 0 (some m) false] ∨ ∃ p, (sockRecv s a .nb).2 = [Out.done a 0 (some m) false, Out.parm p]))) ∧
      (s.opened = true → s.closed = false → sendable s.uwq = true) := by
  intro s hs
  rcases hs with rfl | rfl
  · exact ⟨nb_recv_cases _ a (Xsurvey.reach_inv evs),
      fun ho hc => (send_completes (k := Xsurvey.kind) _ 0 ⟨[], []⟩ .nb (Xsurvey.reach_inv evs) ho hc).1⟩
  · exact ⟨nb_recv_cases _ a (Xrespond.reach_inv evs),
      fun ho hc => (send_completes (k := Xrespond.kind) _ 0 ⟨[], []⟩ .nb (Xrespond.reach_inv evs) ho hc).1⟩

/-- the ghost outcomes of the header functions (`panic`: nni_msg_header_append_u32 overflow; `dropEinval`:
    header buffer full inside the TTL loop) and the models' "invariant broken" exits are unreachable:
    under any hop limit the option accepts, recv_cb ends in deliver / drop / close; a send on an open
    socket in a reachable state puts out its completion and `psend`s, nothing else -/
theorem raw_models_total (ttl p : Nat) (w : Bytes) (ht : ttl ≤ Nng.Generated.maxMaxTtl) :
    (Xrespond.recvFn ttl p w ≠ .panic ∧ Xrespond.recvFn ttl p w ≠ .dropEinval) ∧
    (Xsurvey.recvFn ttl p w ≠ .panic ∧ Xsurvey.recvFn ttl p w ≠ .dropEinval ∧ Xsurvey.recvFn ttl p w ≠ .drop) ∧
    (∀ evs a m mode, (Xsurvey.run {} evs).1.opened = true → (Xsurvey.run {} evs).1.closed = false →
      ∀ x ∈ (sockSend Xsurvey.kind (Xsurvey.run {} evs).1 a m mode).2, ∀ t, x ≠ Out.other t) ∧
    (∀ evs a m mode, (Xrespond.run {} evs).1.opened = true → (Xrespond.run {} evs).1.closed = false →
      ∀ x ∈ (sockSend Xrespond.kind (Xrespond.run {} evs).1 a m mode).2, ∀ t, x ≠ Out.other t) := by
  have hc := Nng.C13.D5_classification ttl (Xrespond.pipeId p) w ht
  refine ⟨?_, ?_, ?_, ?_⟩
  · show Bt.xrespondRecv ttl (Xrespond.pipeId p) w ≠ _ ∧ Bt.xrespondRecv ttl (Xrespond.pipeId p) w ≠ _
    rw [hc.2.2.1]
    cases BtSpec.classify ttl w <;> simp [Bt.ofVerdict]
  · show Bt.xsurveyRecv w ≠ _ ∧ Bt.xsurveyRecv w ≠ _ ∧ Bt.xsurveyRecv w ≠ _
    rw [hc.2.2.2.2.2]
    unfold BtSpec.classifyNoTtl
    cases BtSpec.classify (Nng.Generated.maxMaxTtl + 1) w <;> simp [Bt.ofVerdict]
  · intro evs a m mode ho hcl x hx t
    obtain ⟨_, h2, _, _⟩ := send_completes _ a m mode (Xsurvey.reach_inv evs) ho hcl
    rw [h2] at hx
    simp only [List.singleton_append, List.mem_cons] at hx
    rcases hx with rfl | hx
    · exact fun h => by cases h
    · obtain ⟨j, pp, _, _, e⟩ := Xsurvey.fanout_out m _ 0 x hx
      rw [e]; exact fun h => by cases h
  · intro evs a m mode ho hcl x hx t
    obtain ⟨_, h2, _, _⟩ := send_completes _ a m mode (Xrespond.reach_inv evs) ho hcl
    rw [h2] at hx
    simp only [List.singleton_append, List.mem_cons] at hx
    rcases hx with rfl | hx
    · exact fun h => by cases h
    · obtain ⟨_, e, _⟩ := Xrespond.route_out _ m x hx
      rw [e]; exact fun h => by cases h

/-! ### non-vacuity (raw) -/

def xsurveyDemo : List Ev :=
  [.openSock "surveyor" true, .pipeAdd 99, .pipeAdd 99, .send none 0 ⟨[0x80, 0, 0, 1], [1]⟩ .inf,
   .send none 1 ⟨[0x80, 0, 0, 2], [2]⟩ .nb, .sendDone 0 0, .recvDone 1 (.ok [0, 0, 0, 5, 0x80, 0, 0, 1, 7]), .recv none 2 .nb]

example : ((Xsurvey.run {} xsurveyDemo).1.pipes.map fun p => (p.wired.map (·.body), p.sq.items.map (·.body))) =
    [([[1], [2]], []), ([[1]], [[2]])] := by decide
example : (Xsurvey.run {} xsurveyDemo).1.delivered = [⟨[0, 0, 0, 5, 0x80, 0, 0, 1], [7]⟩] := by decide

def xrespondDemo : List Ev :=
  [.openSock "respondent" true, .pipeAdd 98, .pipeAdd 98, .recvDone 1 (.ok [0x80, 0, 0, 1, 7]), .recv none 0 .inf,
   .send none 1 ⟨[0, 0, 0, 2, 0x80, 0, 0, 1], [8]⟩ .inf, .send none 2 ⟨[0, 0, 0, 9, 0x80, 0, 0, 1], [9]⟩ .nb]

example : (Xrespond.run {} xrespondDemo).1.delivered = [⟨[0, 0, 0, 2, 0x80, 0, 0, 1], [7]⟩] := by decide
example : ((Xrespond.run {} xrespondDemo).1.pipes.map fun p => p.wired) = [[], [⟨[0x80, 0, 0, 1], [8]⟩]] := by decide

/-! ## the judges accept every trace of the models

  The C07 trace predicates (Spec/Survey.lean, Spec/RawSurvey.lean) are run on every implementation trace; here
  they are proved to accept everything the models can do, so that a judge alarm on a trace that the model also
  produces can only come from an event list outside the stated hypotheses.  Method: a relation between the
  model's state and the judge's state, kept by one model step followed by the judge's step on the model's outputs
  (Proofs/RespJudge*.lean), induction over the event list. -/

/-- RESPONDENT: `respJudge` accepts the trace of `Respond.run` on every event list whose `send` bodies are
    pairwise distinct (the judge identifies a response on the wire by its body) and which contains no
    `abort <aio> 0` (a harness-only completion "success" of a parked operation).  Nothing else is assumed:
    any interleaving of contexts, timers, cancels, malformed / over-long surveys, pipe loss, `poll` followed by
    non-blocking calls, re-opened context slots (the model refuses an occupied slot), zero-timeout sends (F8),
    and the recorded "polls writable, send refused with NNG_ESTATE" situation are covered. -/
theorem respondent_judge_accepts_model (evs : List Ev) (hb : (RespJudge.sendBodies evs).Nodup)
    (hab : RespJudge.NoAbort0 evs) :
    SurveySpec.respJudge (evs.zip (Respond.run {} evs).2) = none :=
  RespJudge.resp_judge_accepts_model evs hb hab

/-- the unconditional form — kept as a definition because it is false -/
def respondent_judge_accepts_model_statement : Prop :=
  ∀ evs : List Ev, SurveySpec.respJudge (evs.zip (Respond.run {} evs).2) = none

/-- hypothesis 1 is needed: with `abort 0 0` on a parked receive (distinct bodies hold trivially) the judge says
    "receive 0 succeeded without a message" -/
theorem respondent_judge_needs_no_abort0 :
    (RespJudge.sendBodies RespJudge.abort0Evs).Nodup ∧
    SurveySpec.respJudge (RespJudge.abort0Evs.zip (Respond.run {} RespJudge.abort0Evs).2) ≠ none :=
  RespJudge.needs_no_abort0

/-- hypothesis 2 is needed: two responses with the same body, the first parked behind a busy pipe, the second handed
    to another pipe at once (no `abort` at all): "response of send 3 went to pipe 1, but the survey last received
    came from pipe 0" -/
theorem respondent_judge_needs_distinct_bodies :
    RespJudge.NoAbort0 RespJudge.dupBodyEvs ∧
    SurveySpec.respJudge (RespJudge.dupBodyEvs.zip (Respond.run {} RespJudge.dupBodyEvs).2) ≠ none :=
  RespJudge.needs_distinct_bodies

theorem respondent_judge_needs_hypotheses : ¬ respondent_judge_accepts_model_statement :=
  fun h => RespJudge.needs_no_abort0.2 (h _)

/-- non-vacuity: a 28-event run (two pipes, a context, direct and parked responses, the writable-but-ESTATE
    observation, timeout, cancel, malformed and over-long surveys, ttl change, F8, context close, pipe loss,
    close) meets the hypotheses and is accepted through the theorem -/
example : (RespJudge.sendBodies RespJudge.demoEvs).Nodup ∧ RespJudge.NoAbort0 RespJudge.demoEvs ∧
    SurveySpec.respJudge (RespJudge.demoEvs.zip (Respond.run {} RespJudge.demoEvs).2) = none :=
  ⟨by decide, by decide, RespJudge.demo_accepted⟩

/-! ### JUDGE (SURVEYOR) — the executable specification accepts every trace of the cooked SURVEYOR model
    (proof: Proofs/SurvJudge*.lean; needs `import NngModel.Proofs.SurvJudgeMain` among the imports of this file).
    The judge is the corrected one: a delivery to a parked receive is accepted at the deadline instant itself, and a
    response that arrives while 128 responses to its (known) survey are waiting is not counted. -/

/-- JUDGE (SURVEYOR): for every event sequence the trace of the model `Model/Survey.lean` is accepted by the executable
    trace predicate `survJudge` (Spec/Survey.lean) — the predicate the check runs on every trace of the implementation.
    Hypotheses, each needed (`surv_judge_needs_*` below; the bound on the number of surveys cannot be shown by `decide`):
    * survey bodies pairwise distinct (the judge identifies surveys by their bodies);
    * at most 2^31 surveys (`idSpan` = size of the id range): then `nni_id_alloc` wraps, ids repeat, the judge wants fresh ids;
    * no `abort aio 0` (harness-only: a parked receive "succeeds" without a message);
    * `NoBlindOverflow`: when a response is dropped on a full receive queue (depth 128), the judge knows the id of that
      survey — the survey has been handed to a pipe or a response to it has been delivered (implied by `NoOverflow`,
      which holds e.g. when the transport delivers at most 128 messages). -/
theorem surv_judge_accepts_model (evs : List Ev)
    (hb : (Nng.SurvProofs.sendBodies evs).Nodup) (hn : (Nng.SurvProofs.sendBodies evs).length ≤ Nng.Survey.idSpan)
    (ha : Nng.SurvProofs.NoAbort0 evs) (ho : Nng.SurvProofs.NoBlindOverflow evs) :
    Nng.SurveySpec.survJudge (evs.zip (Nng.Survey.run {} evs).2) = none :=
  Nng.SurvProofs.surv_judge_accepts_model evs hb hn ha ho

/-- the same with the number of events bounded instead of the number of surveys -/
theorem surv_judge_accepts_model_short (evs : List Ev) (hb : (Nng.SurvProofs.sendBodies evs).Nodup)
    (hn : evs.length ≤ 2147483648) (ha : Nng.SurvProofs.NoAbort0 evs) (ho : Nng.SurvProofs.NoBlindOverflow evs) :
    Nng.SurveySpec.survJudge (evs.zip (Nng.Survey.run {} evs).2) = none :=
  Nng.SurvProofs.surv_judge_accepts_model_short evs hb hn ha ho

/-- no overflow at all implies `NoBlindOverflow`; at most 128 messages from the transport imply no overflow -/
theorem surv_judge_no_blind_overflow_of_few_arrivals (evs : List Ev) (h : Nng.SurvProofs.arrivalCount evs ≤ 128) :
    Nng.SurvProofs.NoBlindOverflow evs :=
  Nng.SurvProofs.noBlindOverflow_of_noOverflow evs (Nng.SurvProofs.noOverflow_of_few_arrivals evs h)

/-- the judge's queue depth is the one extracted from survey.c -/
theorem surv_judge_depth : Nng.SurveySpec.survRecvDepth = Nng.Generated.survRecvBufInit :=
  Nng.SurvProofs.surv_judge_depth

/-- two surveys with the same body: "one survey went out with two different ids" -/
theorem surv_judge_needs_distinct_bodies :
    (Nng.SurvProofs.sendBodies Nng.SurvProofs.cexSameBody).length ≤ Nng.Survey.idSpan ∧
    Nng.SurvProofs.NoAbort0 Nng.SurvProofs.cexSameBody ∧ Nng.SurvProofs.NoBlindOverflow Nng.SurvProofs.cexSameBody ∧
    (Nng.SurveySpec.survJudge (Nng.SurvProofs.cexSameBody.zip (Nng.Survey.run {} Nng.SurvProofs.cexSameBody).2)).isSome = true :=
  Nng.SurvProofs.surv_judge_needs_distinct_bodies

/-- `abort aio 0`: "receive succeeded without a message" -/
theorem surv_judge_needs_no_abort0 :
    (Nng.SurvProofs.sendBodies Nng.SurvProofs.cexAbort0).Nodup ∧
    (Nng.SurvProofs.sendBodies Nng.SurvProofs.cexAbort0).length ≤ Nng.Survey.idSpan ∧
    Nng.SurvProofs.NoBlindOverflow Nng.SurvProofs.cexAbort0 ∧
    (Nng.SurveySpec.survJudge (Nng.SurvProofs.cexAbort0.zip (Nng.Survey.run {} Nng.SurvProofs.cexAbort0).2)).isSome = true :=
  Nng.SurvProofs.surv_judge_needs_no_abort0

/-- the remaining corner of the queue-depth clause: a survey sent before any pipe existed (so never on a wire) is
    answered 129 times with its exact id; 128 are kept, one dropped; 129 receives — the judge, which learns ids only from
    wires and deliveries, still reports "kept waiting although a response to its survey has arrived" -/
theorem surv_judge_needs_no_blind_overflow :
    (Nng.SurvProofs.sendBodies Nng.SurvProofs.cexBlind).Nodup ∧
    (Nng.SurvProofs.sendBodies Nng.SurvProofs.cexBlind).length ≤ Nng.Survey.idSpan ∧
    Nng.SurvProofs.NoAbort0 Nng.SurvProofs.cexBlind ∧
    (Nng.SurveySpec.survJudge (Nng.SurvProofs.cexBlind.zip (Nng.Survey.run {} Nng.SurvProofs.cexBlind).2)).isSome = true :=
  Nng.SurvProofs.surv_judge_needs_no_blind_overflow

/-- former finding 1, now accepted: open; pipe_add; send (survey time 1000); recv inf (parked); advance 1000; a response
    arrives exactly at the deadline and is handed to the parked receive (as survey.c does) -/
theorem surv_judge_accepts_deadline_instant_example :
    (Nng.Survey.run {} Nng.SurvProofs.cexDeadlineInstant).2.getLast? =
      some [.rv 0, .done 1 0 (some ⟨[0x80, 0, 0, 0], [9]⟩) false, .parm 0] ∧
    Nng.SurveySpec.survJudge (Nng.SurvProofs.cexDeadlineInstant.zip (Nng.Survey.run {} Nng.SurvProofs.cexDeadlineInstant).2) = none :=
  Nng.SurvProofs.surv_judge_accepts_deadline_instant_example

/-- … while a NEW receive at the deadline instant must still fail with NNG_ESTATE: the model does, the judge accepts that
    and rejects the same trace with a delivery instead -/
theorem surv_judge_estate_at_deadline_example :
    (Nng.Survey.run {} Nng.SurvProofs.exEstateAtDeadline).2.getLast? = some [.done 1 Err.estate none false] ∧
    Nng.SurveySpec.survJudge (Nng.SurvProofs.exEstateAtDeadline.zip (Nng.Survey.run {} Nng.SurvProofs.exEstateAtDeadline).2) = none ∧
    (Nng.SurveySpec.survJudge (Nng.SurvProofs.exEstateAtDeadline.zip
      ((Nng.Survey.run {} Nng.SurvProofs.exEstateAtDeadline).2.dropLast ++ [[.done 1 0 (some ⟨[0x80, 0, 0, 0], [9]⟩) false]]))).isSome = true :=
  Nng.SurvProofs.surv_judge_estate_at_deadline_example

/-- former finding 2, now accepted: 129 responses to a (wired) survey before any receive, then 129 receives: a response is
    dropped (`¬ NoOverflow`), the judge knows the survey (`NoBlindOverflow`) and accepts the trace -/
theorem surv_judge_accepts_overflow_example :
    ¬ Nng.SurvProofs.NoOverflow Nng.SurvProofs.cexOverflow ∧ Nng.SurvProofs.NoBlindOverflow Nng.SurvProofs.cexOverflow ∧
    Nng.SurveySpec.survJudge (Nng.SurvProofs.cexOverflow.zip (Nng.Survey.run {} Nng.SurvProofs.cexOverflow).2) = none :=
  Nng.SurvProofs.surv_judge_accepts_overflow_example

/-- non-vacuity: the hypotheses hold for `SurvProofs.demo` (24 events: two contexts, two pipes, a survey queued behind a busy
    pipe, delivery to a parked receive and from the queue, poll, cancel, abort, a timeout when `advance` passes the deadline, ESTATE,
    ctx_close, close) and its trace is accepted through the theorem -/
theorem surv_judge_demo :
    ((Nng.SurvProofs.sendBodies Nng.SurvProofs.demo).Nodup ∧
     (Nng.SurvProofs.sendBodies Nng.SurvProofs.demo).length ≤ Nng.Survey.idSpan ∧ Nng.SurvProofs.NoAbort0 Nng.SurvProofs.demo ∧
     Nng.SurvProofs.NoBlindOverflow Nng.SurvProofs.demo) ∧
    (((Nng.Survey.run {} Nng.SurvProofs.demo).1.delivered.map fun d => (d.aio, d.direct)) = [(2, false), (4, true)]) ∧
    Nng.SurveySpec.survJudge (Nng.SurvProofs.demo.zip (Nng.Survey.run {} Nng.SurvProofs.demo).2) = none :=
  ⟨Nng.SurvProofs.demo_hyps, Nng.SurvProofs.demo_run.1, Nng.SurvProofs.demo_accepted⟩

/-! ### raw mode: the raw judges accept every trace of the raw models (Proofs/RawJudge*.lean) -/

/-- JX: the raw SURVEYOR judge (`Spec/RawSurvey.lean`, clauses X1–X2, Z1–Z4) accepts every trace of the raw
    SURVEYOR model, for all event lists with no harness-only `abort a 0`, pairwise distinct bodies of the
    messages taken from senders and pairwise distinct payloads of the well-formed arrivals -/
theorem xsurvey_judge_accepts_model (evs : List Ev) (hn : NoAbort0 evs) (hs : SentDistinct Xsurvey.kind evs)
    (ha : ArrivalsDistinct Xsurvey.kind evs) :
    Nng.RawSurveySpec.xsurveyJudge (evs.zip (Xsurvey.run {} evs).2) = none :=
  Xsurvey.xsurvey_judge_accepts_model evs hn hs ha

/-- JY: the same for the raw RESPONDENT judge (Y1–Y2, Z1–Z4) and model -/
theorem xrespond_judge_accepts_model (evs : List Ev) (hn : NoAbort0 evs) (hs : SentDistinct Xrespond.kind evs)
    (ha : ArrivalsDistinct Xrespond.kind evs) :
    Nng.RawSurveySpec.xrespondJudge (evs.zip (Xrespond.run {} evs).2) = none :=
  Xrespond.xrespond_judge_accepts_model evs hn hs ha

/-- both, with event-level hypotheses only: no `abort a 0`, the bodies of all `send -` events pairwise distinct, the
    payloads of all `recv_done` events (what follows the first word with the high bit) pairwise distinct -/
theorem raw_judges_accept_models_events (evs : List Ev) (hn : NoAbort0 evs) (hs : (sendBodies evs).Nodup)
    (ha : (arrivalPayloads evs).Nodup) :
    Nng.RawSurveySpec.xsurveyJudge (evs.zip (Xsurvey.run {} evs).2) = none ∧
    Nng.RawSurveySpec.xrespondJudge (evs.zip (Xrespond.run {} evs).2) = none :=
  ⟨Xsurvey.xsurvey_judge_accepts_model_events evs hn hs ha, Xrespond.xrespond_judge_accepts_model_events evs hn hs ha⟩

/-- each hypothesis is needed (an event list violating only that one, rejected by the judge), so the
    unconditional statements are false -/
theorem raw_judges_need_hypotheses :
    (¬ NoAbort0 Xsurvey.needAbort ∧ SentDistinct Xsurvey.kind Xsurvey.needAbort ∧ ArrivalsDistinct Xsurvey.kind Xsurvey.needAbort ∧
      Nng.RawSurveySpec.xsurveyJudge (Xsurvey.needAbort.zip (Xsurvey.run {} Xsurvey.needAbort).2) ≠ none) ∧
    (NoAbort0 Xsurvey.needBodies ∧ ¬ SentDistinct Xsurvey.kind Xsurvey.needBodies ∧ ArrivalsDistinct Xsurvey.kind Xsurvey.needBodies ∧
      Nng.RawSurveySpec.xsurveyJudge (Xsurvey.needBodies.zip (Xsurvey.run {} Xsurvey.needBodies).2) ≠ none) ∧
    (NoAbort0 Xsurvey.needArrivals ∧ SentDistinct Xsurvey.kind Xsurvey.needArrivals ∧ ¬ ArrivalsDistinct Xsurvey.kind Xsurvey.needArrivals ∧
      Nng.RawSurveySpec.xsurveyJudge (Xsurvey.needArrivals.zip (Xsurvey.run {} Xsurvey.needArrivals).2) ≠ none) ∧
    (¬ NoAbort0 Xrespond.needAbort ∧ SentDistinct Xrespond.kind Xrespond.needAbort ∧ ArrivalsDistinct Xrespond.kind Xrespond.needAbort ∧
      Nng.RawSurveySpec.xrespondJudge (Xrespond.needAbort.zip (Xrespond.run {} Xrespond.needAbort).2) ≠ none) ∧
    (NoAbort0 Xrespond.needBodies ∧ ¬ SentDistinct Xrespond.kind Xrespond.needBodies ∧ ArrivalsDistinct Xrespond.kind Xrespond.needBodies ∧
      Nng.RawSurveySpec.xrespondJudge (Xrespond.needBodies.zip (Xrespond.run {} Xrespond.needBodies).2) ≠ none) ∧
    (NoAbort0 Xrespond.needArrivals ∧ SentDistinct Xrespond.kind Xrespond.needArrivals ∧ ¬ ArrivalsDistinct Xrespond.kind Xrespond.needArrivals ∧
      Nng.RawSurveySpec.xrespondJudge (Xrespond.needArrivals.zip (Xrespond.run {} Xrespond.needArrivals).2) ≠ none) ∧
    ¬ Xsurvey.xsurvey_judge_accepts_model_statement ∧ ¬ Xrespond.xrespond_judge_accepts_model_statement :=
  ⟨Xsurvey.xsurvey_judge_needs_no_abort0, Xsurvey.xsurvey_judge_needs_distinct_bodies, Xsurvey.xsurvey_judge_needs_distinct_arrivals,
   Xrespond.xrespond_judge_needs_no_abort0, Xrespond.xrespond_judge_needs_distinct_bodies, Xrespond.xrespond_judge_needs_distinct_arrivals,
   Xsurvey.xsurvey_judge_needs_hypotheses, Xrespond.xrespond_judge_needs_hypotheses⟩

/-- the judges' acceptance set is the models' (`takes` ⇔ `offer` keeps the message: idle → wire, room → queue,
    full → dropped), in every reachable open state, for every connected pipe -/
theorem raw_judge_takes_iff_offer_keeps (evs : List Ev) (hn : NoAbort0 evs) (q : Nat) (pp : Pipe) (m : WMsg) (hc : pp.closed = false) :
    (SentDistinct Xsurvey.kind evs → ArrivalsDistinct Xsurvey.kind evs → (Xsurvey.run {} evs).1.closed = false →
      (Xsurvey.run {} evs).1.pipes[q]? = some pp →
      (Nng.RawSurveySpec.takes false (judgeAfter false Xsurvey.kind evs) q = true ↔ (offer q pp m).1.dropped = pp.dropped)) ∧
    (SentDistinct Xrespond.kind evs → ArrivalsDistinct Xrespond.kind evs → (Xrespond.run {} evs).1.closed = false →
      (Xrespond.run {} evs).1.pipes[q]? = some pp →
      (Nng.RawSurveySpec.takes true (judgeAfter true Xrespond.kind evs) q = true ↔ (offer q pp m).1.dropped = pp.dropped)) :=
  ⟨fun hs ha hcl hg => raw_takes_iff_kept Xsurvey.jk evs hn hs ha hcl q pp m hg hc,
   fun hs ha hcl hg => raw_takes_iff_kept Xrespond.jk evs hn hs ha hcl q pp m hg hc⟩

/-- non-vacuity: the demo runs of Proofs/RawJudgeMain.lean (3 pipes, flood with queue-full drops, parked and
    timed receives, malformed / over-limit arrivals, cancel, abort, pipe drop, poll, close) meet the hypotheses -/
example : NoAbort0 Xsurvey.demo ∧ (sendBodies Xsurvey.demo).Nodup ∧ (arrivalPayloads Xsurvey.demo).Nodup ∧
    NoAbort0 Xrespond.demo ∧ (sendBodies Xrespond.demo).Nodup ∧ (arrivalPayloads Xrespond.demo).Nodup := by decide


end Nng.C07
