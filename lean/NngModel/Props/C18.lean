/-
  C18 — socket buffers are bounded FIFO queues; identifiers are unique, in range, not reissued
  before the range wraps; nng_id_map is a finite map.

  Property theorems only (lemmas: Proofs/{Ring,Lmq,Msgq,IdHash,Probe,IdTable,IdTableOps,IdResize,IdOps,
  IdSpecLemmas,IdRefine,IdVisit,ProbeAll}.lean).
  `Nng.Lmq`, `Nng.Msgq`, `Nng.IdHash` are the executable models of lmq.c, msgqueue.c, idhash.c (tied
  to the C code by the correspondence check); `Nng.QSpec` is the specification.
-/
import NngModel.Proofs.Lmq
import NngModel.Proofs.Msgq
import NngModel.Proofs.IdHash
import NngModel.Proofs.Probe
import NngModel.Proofs.IdVisit
import NngModel.Proofs.ProbeAll
import NngModel.Proofs.IdFini
import NngModel.Generated.Base
import NngModel.Generated.C18
namespace Nng.C18
open Nng Nng.QSpec

/-! ## nni_lmq: bounded FIFO -/

/-- run an operation sequence on the lmq model; each operation carries the allocator's answer -/
def lmqRun (q : Lmq.Lmq) : List (FOp × Bool) → List Lmq.Res
  | [] => []
  | (op, ok) :: rest => Lmq.step q op ok :: lmqRun (Lmq.step q op ok).q rest

/-- `outs` is what the bounded-FIFO specification produces for `ops` from `a`: every step is safe
    (all slot indices inside the array, loops within fuel), never holds more than `cap` messages,
    and either equals the specification's step or is a resize that reported NNG_ENOMEM under a
    failing allocator and changed nothing. -/
def LmqExplains (a : Fifo) : List (FOp × Bool) → List Lmq.Res → Prop
  | [], [] => True
  | (op, ok) :: ops, r :: outs =>
    r.safe = true ∧ r.q.len ≤ r.q.cap ∧
    ∃ l, Lmq.Rep r.q l ∧
      ((ok = false ∧ (∃ c, op = .resize c) ∧ r.rv = Err.enomem ∧ r.out = none ∧ r.freed = [] ∧ (⟨r.q.cap, l⟩ : Fifo) = a) ∨
       a.step op = ⟨⟨r.q.cap, l⟩, r.rv, r.out, r.freed⟩) ∧
      LmqExplains ⟨r.q.cap, l⟩ ops outs
  | _, _ => False

/-- L1. nni_lmq_init(cap) yields an empty queue of capacity `cap` (every `cap`, including the
    inline cases 0,1,2 and the rounding to a power of two above). -/
theorem lmq_init_empty (cap : Nat) :
    (Lmq.init cap true).2 = true ∧ Lmq.Rep (Lmq.init cap true).1 [] ∧ (Lmq.init cap true).1.cap = cap :=
  Lmq.init_rep cap

theorem lmq_step_sim {q : Lmq.Lmq} {l : List Msg} (h : Lmq.Rep q l) (op : FOp) :
    Lmq.Sim (Lmq.step q op true) ((⟨q.cap, l⟩ : Fifo).step op) := by
  cases op with
  | put m => exact Lmq.put_sim h m
  | get => exact Lmq.get_sim h
  | flush => exact Lmq.flush_sim h
  | resize c => exact Lmq.resize_sim h c

/-- L2. Refinement, lifted to all operation sequences (put/get/flush/resize at any time, any
    allocator behaviour) from any represented state: the lmq model is explained step by step by the
    bounded FIFO; no step touches a slot outside the array; occupancy never exceeds the capacity. -/
theorem lmq_refines_bounded_fifo : ∀ (ops : List (FOp × Bool)) (q : Lmq.Lmq) (l : List Msg),
    Lmq.Rep q l → LmqExplains ⟨q.cap, l⟩ ops (lmqRun q ops) := by
  intro ops
  induction ops with
  | nil => intro q l _; exact trivial
  | cons p rest ih =>
    intro q l h
    obtain ⟨op, ok⟩ := p
    have hs := lmq_step_sim h op
    by_cases hok : ok = true ∨ ∀ c, op ≠ .resize c
    · have heq : Lmq.step q op ok = Lmq.step q op true := by
        rcases hok with hok | hok
        · rw [hok]
        · cases op with
          | resize c => exact absurd rfl (hok c)
          | put m => rfl
          | get => rfl
          | flush => rfl
      simp only [lmqRun, heq]
      refine ⟨hs.safe, hs.rep.len_cap, _, hs.rep, Or.inr ?_, ?_⟩
      · rw [hs.cap, hs.rv, hs.out, hs.freed]
      · rw [hs.cap]; rw [← hs.cap]; exact ih _ _ hs.rep
    · have hok' : ok = false := by cases ok <;> simp_all
      have ⟨c, hc⟩ : ∃ c, op = .resize c := by
        cases op with
        | resize c => exact ⟨c, rfl⟩
        | put m => exact absurd (Or.inr (by intro c hh; cases hh)) hok
        | get => exact absurd (Or.inr (by intro c hh; cases hh)) hok
        | flush => exact absurd (Or.inr (by intro c hh; cases hh)) hok
      subst hc; subst hok'
      obtain ⟨e1, e2, e3, e4⟩ := Lmq.resize_enomem q c
      have e5 : (Lmq.resize q c false).out = none := by simp [Lmq.resize, (Lmq.roundAlloc_spec c).1]
      simp only [lmqRun, Lmq.step]
      refine ⟨e4, by rw [e1]; exact h.len_cap, l, by rw [e1]; exact h, Or.inl ⟨rfl, ⟨c, rfl⟩, e2, e5, e3, by rw [e1]⟩, ?_⟩
      rw [e1]; exact ih q l h

/-- L3. Resizing at any time keeps the oldest `min len cap` messages in their order, discards the
    rest (whole messages, from the tail) exactly once each, and stays inside both arrays. -/
theorem lmq_resize_keeps_order {q : Lmq.Lmq} {l : List Msg} (h : Lmq.Rep q l) (cap : Nat) :
    (Lmq.resize q cap true).safe = true ∧ (Lmq.resize q cap true).rv = 0 ∧
    Lmq.Rep (Lmq.resize q cap true).q (l.take cap) ∧ (Lmq.resize q cap true).freed = l.drop cap ∧
    (Lmq.resize q cap true).q.cap = cap := by
  have hs := Lmq.resize_sim h cap
  exact ⟨hs.safe, hs.rv, hs.rep, hs.freed, hs.cap⟩

/-! ## nni_msgq: FIFO channel with blocked writers and readers -/

def msgqRun (q : Msgq.Msgq) : List (COp × Bool) → List Msgq.Res
  | [] => []
  | (op, ok) :: rest => Msgq.step q op ok :: msgqRun (Msgq.step q op ok).q rest

/-- as `LmqExplains`, for the channel specification; occupancy bound is `cap + 1` (the documented
    in-flight slot) -/
def MsgqExplains (c : Chan) : List (COp × Bool) → List Msgq.Res → Prop
  | [], [] => True
  | (op, ok) :: ops, r :: outs =>
    r.safe = true ∧ r.q.len ≤ r.q.cap + 1 ∧
    ∃ l, Msgq.RingRep r.q l ∧
      ((ok = false ∧ (∃ n, op = .resize n) ∧ r.rv = Err.enomem ∧ r.evs = [] ∧ r.freed = [] ∧ Msgq.chanOf r.q l = c) ∨
       c.step op = ⟨Msgq.chanOf r.q l, r.rv, r.evs, r.freed⟩) ∧
      MsgqExplains (Msgq.chanOf r.q l) ops outs
  | _, _ => False

/-- M1. nni_msgq_init(cap) is the empty open channel of capacity `cap`. -/
theorem msgq_init_empty (cap : Nat) :
    Msgq.RingRep (Msgq.init cap) [] ∧ Msgq.chanOf (Msgq.init cap) [] = Chan.init cap := Msgq.init_rep cap

theorem msgq_step_sim {q : Msgq.Msgq} {l : List Msg} (h : Msgq.RingRep q l) (op : COp) :
    Msgq.Sim (Msgq.step q op true) ((Msgq.chanOf q l).step op) := by
  cases op with
  | tryput m => exact Msgq.tryput_sim h m
  | aioPut a m => exact Msgq.aioPut_sim h a m
  | aioGet a => exact Msgq.aioGet_sim h a
  | cancel a rv => exact Msgq.cancel_sim h a rv
  | close => exact Msgq.close_sim h
  | resize n => exact Msgq.resize_sim h n

/-- M2. Refinement for all sequences of tryput / aio_put / aio_get / cancel / close / resize:
    messages come out in the order they went in, completions are those of the channel
    specification, occupancy ≤ cap + 1, and every slot index touched is < alloc (the obligation
    that fails for the pinned tree's `mq_get > mq_alloc`, finding F1). -/
theorem msgq_refines_fifo_channel : ∀ (ops : List (COp × Bool)) (q : Msgq.Msgq) (l : List Msg),
    Msgq.RingRep q l → MsgqExplains (Msgq.chanOf q l) ops (msgqRun q ops) := by
  intro ops
  induction ops with
  | nil => intro q l _; exact trivial
  | cons p rest ih =>
    intro q l h
    obtain ⟨op, ok⟩ := p
    have hs := msgq_step_sim h op
    by_cases hsame : Msgq.step q op ok = Msgq.step q op true
    · obtain ⟨l', hr, hc⟩ := hs.rep
      simp only [msgqRun, hsame]
      refine ⟨hs.safe, hr.len_cap, l', hr, Or.inr ?_, ih _ _ hr⟩
      rw [hs.rv, hs.evs, hs.freed, ← hc]
    · have hok : ok = false := by cases ok <;> simp_all
      subst hok
      cases op with
      | resize n =>
        obtain ⟨e1, e2⟩ := Msgq.resize_enomem q n
        by_cases hg : n + Msgq.spare > q.alloc
        · have e := e1 hg
          simp only [msgqRun, Msgq.step, e]
          exact ⟨rfl, h.len_cap, l, h, Or.inl ⟨rfl, ⟨n, rfl⟩, rfl, rfl, rfl, rfl⟩, ih q l h⟩
        · exact absurd (e2 hg) hsame
      | tryput m => exact absurd rfl hsame
      | aioPut a m => exact absurd rfl hsame
      | aioGet a => exact absurd rfl hsame
      | cancel a rv => exact absurd rfl hsame
      | close => exact absurd rfl hsame

/-- M3. nni_msgq_resize at any time (any fill level and ring offset): keeps the newest
    `min len (cap+1)` messages in order, discards only the oldest ones, each once, and every array
    access is in bounds. -/
theorem msgq_resize_keeps_order {q : Msgq.Msgq} {l : List Msg} (h : Msgq.RingRep q l) (cap : Nat) :
    (Msgq.resize q cap true).safe = true ∧ (Msgq.resize q cap true).rv = 0 ∧
    Msgq.RingRep (Msgq.resize q cap true).q (l.drop (l.length - (cap + 1))) ∧
    (Msgq.resize q cap true).freed = l.take (l.length - (cap + 1)) ∧ (Msgq.resize q cap true).q.cap = cap := by
  have hs := Msgq.resize_sim h cap
  obtain ⟨l', hr, hc⟩ := hs.rep
  have h1 : l' = l.drop (l.length - (cap + 1)) := by
    have := congrArg Chan.items hc; simpa [Chan.resize, Msgq.chanOf] using this.symm
  have h2 : (Msgq.resize q cap true).q.cap = cap := by
    have := congrArg Chan.cap hc; simpa [Chan.resize, Msgq.chanOf] using this.symm
  exact ⟨hs.safe, hs.rv, h1 ▸ hr, hs.freed, h2⟩

/-! ## nni_id_map: identifiers -/

/-- I1. nni_id_map_init establishes the cursor invariant for every range with lo ≤ hi < 2^64
    (after the substitutions lo=0 ↦ 1, hi=0 ↦ 0xffffffff). -/
theorem idmap_init_wf (lo hi : Nat) (random : Bool) (hhi : hi < IdHash.u64)
    (hlh : (if lo = 0 then Nng.Generated.c18IdDefaultLo else lo) ≤ (if hi = 0 then Nng.Generated.c18IdDefaultHi else hi)) :
    IdHash.CurWF (IdHash.mapInit lo hi random) := IdHash.mapInit_curWF lo hi random hhi hlh

/-- I2. One nni_id_alloc call, in any state with a well-formed cursor whose `count` is at least the
    number of occupied slots, for every allocator answer and every random number: the cursor stays
    well formed; a returned identifier lies in [lo, hi] and was not findable (id_find) in the map
    before the call; a failure is NNG_ENOMEM and happens only when more than hi − lo entries are
    stored, or the allocator failed.  (The search loop always ends within `count + 1` iterations:
    pigeonhole over the identifiers after the cursor.) -/
theorem idmap_alloc_in_range_and_fresh {m : IdHash.IdMap} (h : IdHash.CurWF m)
    (hcnt : IdHash.liveCnt m.entries ≤ m.count) (v rnd : Nat) (ok : Bool) :
    IdHash.CurWF (IdHash.idAlloc m v rnd ok).m ∧
    ((IdHash.idAlloc m v rnd ok).rv = 0 →
        m.minVal ≤ (IdHash.idAlloc m v rnd ok).id ∧ (IdHash.idAlloc m v rnd ok).id ≤ m.maxVal ∧
        (IdHash.idFind m (IdHash.idAlloc m v rnd ok).id).1 = none) ∧
    ((IdHash.idAlloc m v rnd ok).rv ≠ 0 →
        (IdHash.idAlloc m v rnd ok).rv = Err.enomem ∧
        (m.count > m.maxVal - m.minVal ∨ ok = false)) := by
  obtain ⟨a, b, _, _⟩ := IdHash.idAlloc_spec h v rnd ok
  exact ⟨a, b, IdHash.idAlloc_fail_only h hcnt v rnd ok⟩

/-- I3. Not reissued before the range wraps: in every run of set/remove/alloc operations (any
    interleaving, any allocator behaviour) during which the cursor is never reset to the lower
    bound, the identifiers handed out are strictly increasing — in particular pairwise distinct,
    whether or not they were removed in between. -/
theorem idmap_not_reissued_before_wrap (ops : List (IdHash.IOp × Bool)) (m : IdHash.IdMap) (h : IdHash.CurWF m)
    (hw : ∀ r, r ∈ IdHash.allocRuns m ops → r.wrapped = false) :
    (IdHash.issued (IdHash.allocRuns m ops)).Pairwise (· < ·) :=
  (IdHash.issued_increasing ops m h hw).2

/-- I5. The probe `j ↦ (5j+1) & (cap-1)` visits every cell and returns to its start after `cap`
    steps, for every power-of-two capacity (2-adic lifting; Hull–Dobell for a = 5, c = 1). -/
theorem idmap_probe_covers_all (n : Nat) : IdHash.ProbeCovers (2 ^ n) := IdHash.probeCovers_two_pow n

/-- the same for the capacities 8 … 4096 by a kernel-checked computation (independent of the proof above) -/
theorem idmap_probe_covers_upto_4096 : ∀ n, n ∈ [3, 4, 5, 6, 7, 8, 9, 10, 11, 12] → IdHash.ProbeCovers (2 ^ n) :=
  IdHash.probeCovers_small

private theorem allPow : ∀ n, 3 ≤ n → IdHash.ProbeCovers (2 ^ n) := fun n _ => IdHash.probeCovers_two_pow n

/-- I4. id_find / nni_id_get never index outside the table and their loop ends within `cap` steps,
    for an entry array of `cap` cells, `cap` zero (empty map) or a power of two. -/
theorem idmap_find_in_bounds {m : IdHash.IdMap} (hlen : m.entries.length = m.cap)
    (hcap : m.count ≠ 0 → 0 < m.cap) (hpow : m.cap = 0 ∨ ∃ n, m.cap = 2 ^ n) (id : Nat) :
    (IdHash.idFind m id).2 = true ∧ (IdHash.idGet m id).2 = true ∧
    ∀ i, (IdHash.idFind m id).1 = some i → i < m.cap := by
  have hcyc : IdHash.ProbeCycle m.cap := by
    rcases hpow with h0 | ⟨n, hn⟩
    · intro s hs; omega
    · rw [hn]; exact (IdHash.probeCovers_two_pow n).cycle
  exact ⟨(IdHash.idFind_safe hlen hcap hcyc id).1, IdHash.idGet_safe hlen hcap hcyc id,
    (IdHash.idFind_safe hlen hcap hcyc id).2⟩

/-! ### the hash table is a finite map -/

/-- I6. nni_id_map_init establishes the representation invariant `Rep` (open-addressing invariant of
    the table: every stored key is reached from its home cell along the probe sequence, `skips[t]`
    = number of stored keys whose probe path crosses `t`, `load` = number of probes spent, `count`
    = number of occupied cells, occupied cells hold pairwise distinct keys; capacity 0 or a power
    of two ≥ 8 with a free cell; well-formed cursor) against the empty finite map. -/
theorem idmap_init_rep (lo hi : Nat) (random : Bool) (hhi : hi < IdHash.u64)
    (hlh : (if lo = 0 then Nng.Generated.c18IdDefaultLo else lo) ≤ (if hi = 0 then Nng.Generated.c18IdDefaultHi else hi)) :
    IdHash.Rep (IdHash.mapInit lo hi random) (IdSpec.init lo hi random) := IdHash.mapInit_rep lo hi random hhi hlh

/-- I7. In every state that represents a finite map `s`: nni_id_get returns the value last set and
    not removed (NULL for an absent key) without leaving the table; `nni_id_count` is the number of
    keys; a full nni_id_visit enumeration yields exactly the pairs of `s`, each once, and ends (sorted
    by key it is the specification's `visit`); the keys are pairwise distinct. -/
theorem idmap_get_count_visit {m : IdHash.IdMap} {s : IdSpec} (h : IdHash.Rep m s) :
    (∀ k, IdHash.idGet m k = (s.get k, true)) ∧ IdHash.idCount m = s.count ∧
    IdHash.visitAll m (m.cap + 1) 0 [] true = (IdHash.livePairs m.entries 0 m.cap, true) ∧
    (IdHash.livePairs m.entries 0 m.cap).Perm s.m ∧
    sortPairs (IdHash.livePairs m.entries 0 m.cap) = s.visit ∧ KeysNodup s.m :=
  ⟨h.get allPow, h.count, h.visit.1, h.visit.2.1, h.visit.2.2.2, h.nodup⟩

/-- I8. nni_id_set with a non-NULL value, any allocator answer: in bounds; either it is the finite
    map's set (an existing key is overwritten, a new key is added; resizes keep the content) or —
    only if the allocator failed — NNG_ENOMEM and nothing changed. -/
theorem idmap_set_refines {m : IdHash.IdMap} {s : IdSpec} (h : IdHash.Rep m s)
    (k v : Nat) (hv : v ≠ 0) (ok : Bool) :
    (IdHash.idSet m k v ok).2.2 = true ∧
    (((IdHash.idSet m k v ok).2.1 = 0 ∧ IdHash.Rep (IdHash.idSet m k v ok).1 (s.set k v)) ∨
     (ok = false ∧ (IdHash.idSet m k v ok).2.1 = Err.enomem ∧ (IdHash.idSet m k v ok).1 = m)) :=
  IdHash.idSet_rep h allPow k v hv ok

/-- I9. nni_id_remove, any allocator answer (a failed shrink is ignored): in bounds; same return code
    as the finite map (NNG_ENOENT for an absent key) and the same resulting map. -/
theorem idmap_remove_refines {m : IdHash.IdMap} {s : IdSpec} (h : IdHash.Rep m s)
    (k : Nat) (ok : Bool) :
    (IdHash.idRemove m k ok).2.2 = true ∧ (IdHash.idRemove m k ok).2.1 = (s.remove k).2 ∧
    IdHash.Rep (IdHash.idRemove m k ok).1 (s.remove k).1 :=
  IdHash.idRemove_rep h allPow k ok

/-- I10. nni_id_alloc with a non-NULL value, any allocator answer and random number: in bounds, the
    loop ends; same return code, identifier and cursor as the finite map's alloc (first unused id at
    or after the cursor, cyclically; NNG_ENOMEM exactly when more than hi − lo keys are stored), or —
    only if the allocator failed — NNG_ENOMEM with the chosen identifier skipped. -/
theorem idmap_alloc_refines {m : IdHash.IdMap} {s : IdSpec} (h : IdHash.Rep m s)
    (v rnd : Nat) (hv : v ≠ 0) (ok : Bool) :
    (IdHash.idAlloc m v rnd ok).safe = true ∧
    (((IdHash.idAlloc m v rnd ok).rv = (s.alloc v rnd).2.1 ∧ (IdHash.idAlloc m v rnd ok).id = (s.alloc v rnd).2.2 ∧
        IdHash.Rep (IdHash.idAlloc m v rnd ok).m (s.alloc v rnd).1) ∨
     (ok = false ∧ (IdHash.idAlloc m v rnd ok).rv = Err.enomem ∧
        IdHash.Rep (IdHash.idAlloc m v rnd ok).m (s.allocFail rnd))) :=
  IdHash.idAlloc_rep h allPow v rnd hv ok

/-- I11. Specification level: the keys of the finite map stay pairwise distinct under every
    operation. -/
theorem idspec_keys_distinct (s : IdSpec) (hn : KeysNodup s.m) :
    (∀ k v, KeysNodup (s.set k v).m) ∧ (∀ k, KeysNodup (s.remove k).1.m) ∧
    (∀ v rnd, KeysNodup (s.alloc v rnd).1.m) ∧ (∀ rnd, KeysNodup (s.allocFail rnd).m) :=
  ⟨s.keysNodup_set hn, s.keysNodup_remove hn, s.keysNodup_alloc hn, s.keysNodup_allocFail hn⟩

/-- observation of one map operation: (return code, identifier or value) -/
def idModelObs (m : IdHash.IdMap) : List (IdHash.IOp × Bool) → List (Nat × Nat)
  | [] => []
  | (.set k v, ok) :: rest => ((IdHash.idSet m k v ok).2.1, (IdHash.idGet (IdHash.idSet m k v ok).1 k).1) ::
      idModelObs (IdHash.idSet m k v ok).1 rest
  | (.remove k, ok) :: rest => ((IdHash.idRemove m k ok).2.1, 0) :: idModelObs (IdHash.idRemove m k ok).1 rest
  | (.alloc v rnd, ok) :: rest => ((IdHash.idAlloc m v rnd ok).rv, (IdHash.idAlloc m v rnd ok).id) ::
      idModelObs (IdHash.idAlloc m v rnd ok).m rest

def idSpecObs (s : IdSpec) : List (IdHash.IOp × Bool) → List (Nat × Nat)
  | [] => []
  | (.set k v, _) :: rest => (0, (s.set k v).get k) :: idSpecObs (s.set k v) rest
  | (.remove k, _) :: rest => ((s.remove k).2, 0) :: idSpecObs (s.remove k).1 rest
  | (.alloc v rnd, _) :: rest => ((s.alloc v rnd).2.1, (s.alloc v rnd).2.2) :: idSpecObs (s.alloc v rnd).1 rest

/-- the model state / the specification state after a run, and "every table access of the run was
    in bounds and every loop ended" -/
def idModelRun (m : IdHash.IdMap) : List (IdHash.IOp × Bool) → IdHash.IdMap
  | [] => m
  | (.set k v, ok) :: rest => idModelRun (IdHash.idSet m k v ok).1 rest
  | (.remove k, ok) :: rest => idModelRun (IdHash.idRemove m k ok).1 rest
  | (.alloc v rnd, ok) :: rest => idModelRun (IdHash.idAlloc m v rnd ok).m rest

def idSpecRun (s : IdSpec) : List (IdHash.IOp × Bool) → IdSpec
  | [] => s
  | (.set k v, _) :: rest => idSpecRun (s.set k v) rest
  | (.remove k, _) :: rest => idSpecRun (s.remove k).1 rest
  | (.alloc v rnd, _) :: rest => idSpecRun (s.alloc v rnd).1 rest

def idModelSafe (m : IdHash.IdMap) : List (IdHash.IOp × Bool) → Bool
  | [] => true
  | (.set k v, ok) :: rest => (IdHash.idSet m k v ok).2.2 && idModelSafe (IdHash.idSet m k v ok).1 rest
  | (.remove k, ok) :: rest => (IdHash.idRemove m k ok).2.2 && idModelSafe (IdHash.idRemove m k ok).1 rest
  | (.alloc v rnd, ok) :: rest => (IdHash.idAlloc m v rnd ok).safe && idModelSafe (IdHash.idAlloc m v rnd ok).m rest

/-- operations of a run with a succeeding allocator and non-NULL values -/
def IdOpsOk (ops : List (IdHash.IOp × Bool)) : Prop :=
  ∀ p, p ∈ ops → p.2 = true ∧ (∀ k v, p.1 = .set k v → v ≠ 0) ∧ (∀ v rnd, p.1 = .alloc v rnd → v ≠ 0)

/-- I12. Every run of set/remove/alloc operations (succeeding allocator, non-NULL values) from a state
    that represents a finite map is observationally equal to the finite-map specification, is in
    bounds with all loops ending, and ends in a state that again represents the specification's
    state — so I7 (get, count, visit, distinct keys) holds after every prefix of every run. -/
theorem idmap_run_refines :
    ∀ (ops : List (IdHash.IOp × Bool)) (m : IdHash.IdMap) (s : IdSpec), IdHash.Rep m s → IdOpsOk ops →
      idModelObs m ops = idSpecObs s ops ∧ idModelSafe m ops = true ∧
      IdHash.Rep (idModelRun m ops) (idSpecRun s ops) := by
  intro ops
  induction ops with
  | nil => intro m s h _; exact ⟨rfl, rfl, h⟩
  | cons p rest ih =>
    intro m s h hops
    have hp := allPow
    obtain ⟨op, ok⟩ := p
    obtain ⟨hok, hset, halloc⟩ := hops (op, ok) (by simp)
    have hrest : IdOpsOk rest := fun q hq => hops q (by simp [hq])
    have hok' : ok = true := hok
    subst hok'
    cases op with
    | set k v =>
      obtain ⟨ss, sr⟩ := IdHash.idSet_rep h hp k v (hset k v rfl) true
      rcases sr with ⟨rv0, hr⟩ | ⟨hf, _⟩
      · obtain ⟨a, b, c⟩ := ih _ _ hr hrest
        have hg := hr.get hp k
        simp only [idModelObs, idSpecObs, idModelSafe, idModelRun, idSpecRun, a, b, ss, rv0, hg, Bool.and_self]
        exact ⟨trivial, trivial, c⟩
      · exact absurd hf (by simp)
    | remove k =>
      obtain ⟨rs, rv, hr⟩ := IdHash.idRemove_rep h hp k true
      obtain ⟨a, b, c⟩ := ih _ _ hr hrest
      simp only [idModelObs, idSpecObs, idModelSafe, idModelRun, idSpecRun, a, b, rs, rv, Bool.and_self]
      exact ⟨trivial, trivial, c⟩
    | alloc v rnd =>
      obtain ⟨ss, sr⟩ := IdHash.idAlloc_rep h hp v rnd (halloc v rnd rfl) true
      rcases sr with ⟨rv, hid, hr⟩ | ⟨hf, _⟩
      · obtain ⟨a, b, c⟩ := ih _ _ hr hrest
        simp only [idModelObs, idSpecObs, idModelSafe, idModelRun, idSpecRun, a, b, ss, rv, hid, Bool.and_self]
        exact ⟨trivial, trivial, c⟩
      · exact absurd hf (by simp)

/-- `ops` (any allocator answers) run on the model from `m` is explained by the finite map from `s`:
    every step is in bounds and either is the specification's step (same return code, value,
    identifier) or — only under a failing allocator — reports NNG_ENOMEM and stores nothing (set:
    no change at all; alloc: the chosen identifier is skipped) -/
def IdExplains : IdHash.IdMap → IdSpec → List (IdHash.IOp × Bool) → Prop
  | _, _, [] => True
  | m, s, (.set k v, ok) :: rest =>
    (IdHash.idSet m k v ok).2.2 = true ∧
    (((IdHash.idSet m k v ok).2.1 = 0 ∧ (IdHash.idGet (IdHash.idSet m k v ok).1 k).1 = (s.set k v).get k ∧
        IdExplains (IdHash.idSet m k v ok).1 (s.set k v) rest) ∨
     (ok = false ∧ (IdHash.idSet m k v ok).2.1 = Err.enomem ∧ (IdHash.idSet m k v ok).1 = m ∧ IdExplains m s rest))
  | m, s, (.remove k, ok) :: rest =>
    (IdHash.idRemove m k ok).2.2 = true ∧ (IdHash.idRemove m k ok).2.1 = (s.remove k).2 ∧
    IdExplains (IdHash.idRemove m k ok).1 (s.remove k).1 rest
  | m, s, (.alloc v rnd, ok) :: rest =>
    (IdHash.idAlloc m v rnd ok).safe = true ∧
    (((IdHash.idAlloc m v rnd ok).rv = (s.alloc v rnd).2.1 ∧ (IdHash.idAlloc m v rnd ok).id = (s.alloc v rnd).2.2 ∧
        IdExplains (IdHash.idAlloc m v rnd ok).m (s.alloc v rnd).1 rest) ∨
     (ok = false ∧ (IdHash.idAlloc m v rnd ok).rv = Err.enomem ∧
        IdExplains (IdHash.idAlloc m v rnd ok).m (s.allocFail rnd) rest))

/-- I14. Every run with arbitrary allocator answers (non-NULL values) from a state that represents a
    finite map is explained by the finite-map specification in the sense of `IdExplains`. -/
theorem idmap_run_refines_any_allocator : ∀ (ops : List (IdHash.IOp × Bool)) (m : IdHash.IdMap) (s : IdSpec),
    IdHash.Rep m s →
    (∀ p, p ∈ ops → (∀ k v, p.1 = .set k v → v ≠ 0) ∧ (∀ v rnd, p.1 = .alloc v rnd → v ≠ 0)) →
    IdExplains m s ops := by
  intro ops
  induction ops with
  | nil => intro m s _ _; trivial
  | cons p rest ih =>
    intro m s h hops
    have hp := allPow
    obtain ⟨op, ok⟩ := p
    obtain ⟨hset, halloc⟩ := hops (op, ok) (by simp)
    have hrest : ∀ q, q ∈ rest → _ := fun q hq => hops q (by simp [hq])
    cases op with
    | set k v =>
      obtain ⟨ss, sr⟩ := IdHash.idSet_rep h hp k v (hset k v rfl) ok
      refine ⟨ss, ?_⟩
      rcases sr with ⟨rv0, hr⟩ | ⟨hf, rve, rm⟩
      · exact Or.inl ⟨rv0, by rw [hr.get hp k], ih _ _ hr hrest⟩
      · exact Or.inr ⟨hf, rve, rm, ih _ _ h hrest⟩
    | remove k =>
      obtain ⟨rs, rv, hr⟩ := IdHash.idRemove_rep h hp k ok
      exact ⟨rs, rv, ih _ _ hr hrest⟩
    | alloc v rnd =>
      obtain ⟨ss, sr⟩ := IdHash.idAlloc_rep h hp v rnd (halloc v rnd rfl) ok
      refine ⟨ss, ?_⟩
      rcases sr with ⟨rv, hid, hr⟩ | ⟨hf, rve, hr⟩
      · exact Or.inl ⟨rv, hid, ih _ _ hr hrest⟩
      · exact Or.inr ⟨hf, rve, ih _ _ hr hrest⟩

/-- I13. The id map is a finite map: every run from nni_id_map_init (any range lo ≤ hi < 2^64, random
    or not; succeeding allocator, non-NULL values) yields the return codes, values and identifiers
    of the finite-map specification; get returns the value last set and not removed, remove of an
    absent key is NNG_ENOENT, alloc fails exactly when the range is exhausted; live identifiers are
    pairwise distinct; no table access leaves the table and every loop ends.  (Failing allocator:
    I8–I10.) -/
theorem idmap_refines_finite_map (lo hi : Nat) (random : Bool) (ops : List (IdHash.IOp × Bool))
    (hhi : hi < IdHash.u64)
    (hlh : (if lo = 0 then Nng.Generated.c18IdDefaultLo else lo) ≤ (if hi = 0 then Nng.Generated.c18IdDefaultHi else hi))
    (hops : IdOpsOk ops) :
    idModelObs (IdHash.mapInit lo hi random) ops = idSpecObs (IdSpec.init lo hi random) ops ∧
    idModelSafe (IdHash.mapInit lo hi random) ops = true ∧
    IdHash.Rep (idModelRun (IdHash.mapInit lo hi random) ops) (idSpecRun (IdSpec.init lo hi random) ops) :=
  idmap_run_refines ops _ _ (IdHash.mapInit_rep lo hi random hhi hlh) hops

/-- nni_id_map_fini (the library finalises its registered maps at nng_fini and uses the same objects again after the next
    nng_init): the finite map is emptied and THE ID CURSOR SURVIVES - identifiers are not reissued across a fini/init
    cycle before the range wraps - and every run of operations after it refines the finite map again -/
theorem idmap_fini_keeps_cursor {m : IdHash.IdMap} {s : IdSpec} (h : IdHash.Rep m s) (ops : List (IdHash.IOp × Bool))
    (hops : IdOpsOk ops) :
    (IdHash.mapFini m).dynVal = m.dynVal ∧ s.fini.cur = s.cur ∧ s.fini.m = [] ∧
    IdHash.Rep (IdHash.mapFini m) s.fini ∧
    idModelObs (IdHash.mapFini m) ops = idSpecObs s.fini ops ∧ idModelSafe (IdHash.mapFini m) ops = true ∧
    IdHash.Rep (idModelRun (IdHash.mapFini m) ops) (idSpecRun s.fini ops) := by
  have hr := IdHash.mapFini_rep h
  obtain ⟨a, b, c⟩ := idmap_run_refines ops _ _ hr hops
  exact ⟨(IdHash.mapFini_fields m).1, rfl, rfl, hr, a, b, c⟩

/-- the error numbers used by the models are those of include/nng/nng.h (extracted) -/
theorem err_numbers :
    Nng.Generated.errTable.lookup "enomem" = some Err.enomem ∧
    Nng.Generated.errTable.lookup "eagain" = some Err.eagain ∧
    Nng.Generated.errTable.lookup "eclosed" = some Err.eclosed ∧
    Nng.Generated.errTable.lookup "enoent" = some Err.enoent ∧
    Nng.Generated.errTable.lookup "ecanceled" = some Err.ecanceled := by decide

/-! non-vacuity: the hypotheses are met by concrete, non-trivial states and runs -/

/-- a represented non-empty queue exists (capacity 5, two messages) -/
example : ∃ q, Lmq.Rep q [11, 12] ∧ q.cap = 5 := by
  obtain ⟨_, h0, hc⟩ := Lmq.init_rep 5
  have s1 := Lmq.put_sim h0 11
  rw [hc] at s1
  have c1 : (Lmq.put (Lmq.init 5 true).1 11).q.cap = 5 := by rw [s1.cap]; rfl
  have s2 := Lmq.put_sim (l := [11]) (by simpa [Fifo.put] using s1.rep) 12
  rw [c1] at s2
  exact ⟨_, by simpa [Fifo.put] using s2.rep, by rw [s2.cap]; rfl⟩

example : (lmqRun (Lmq.init 5 true).1
    [(.put 1, true), (.put 2, true), (.put 3, true), (.put 4, true), (.put 5, true), (.put 6, true),
     (.resize 4, true), (.get, true), (.put 7, true), (.resize 2, true), (.get, true), (.get, true), (.get, true)]).map
      (fun r => (r.rv, r.out, r.freed, r.safe))
    = [(0, none, [], true), (0, none, [], true), (0, none, [], true), (0, none, [], true), (0, none, [], true),
       (Err.eagain, none, [], true), (0, none, [5], true), (0, some 1, [], true), (0, none, [], true),
       (0, none, [4, 7], true), (0, some 2, [], true), (0, some 3, [], true), (Err.eagain, none, [], true)] := by decide

/-- the F1 shape on the (fixed) model: ring offset 3 in an array of 4, shrink to 0 -/
example : (msgqRun (Msgq.init 2)
    [(.tryput 1, true), (.aioGet 0, true), (.tryput 2, true), (.aioGet 0, true), (.tryput 3, true), (.aioGet 0, true),
     (.tryput 4, true), (.tryput 5, true), (.resize 0, true), (.aioGet 1, true), (.aioGet 2, true)]).map
      (fun r => (r.rv, r.evs.map (fun e => (e.1, e.2.2.getD 0)), r.freed, r.safe, r.q.get))
    = [(0, [], [], true, 0), (0, [(0, 1)], [], true, 1), (0, [], [], true, 1), (0, [(0, 2)], [], true, 2),
       (0, [], [], true, 2), (0, [(0, 3)], [], true, 3), (0, [], [], true, 3), (0, [], [], true, 3),
       (0, [], [4], true, 0), (0, [(1, 5)], [], true, 1), (0, [], [], true, 1)] := by decide

example : IdHash.CurWF (IdHash.mapInit 3 5 false) := idmap_init_wf 3 5 false (by decide) (by decide)

example : IdHash.liveCnt (IdHash.mapInit 3 5 false).entries ≤ (IdHash.mapInit 3 5 false).count := by decide

/-- tiny range that wraps: ids 3,4,5 then (after removing 4) 4 again, with the wrap recorded -/
example : (IdHash.allocRuns (IdHash.mapInit 3 5 false)
    [(.alloc 1 0, true), (.alloc 1 0, true), (.alloc 1 0, true), (.alloc 1 0, true), (.remove 4, true), (.alloc 1 0, true)]).map
      (fun r => (r.rv, r.id, r.wrapped, r.safe))
    = [(0, 3, false, true), (0, 4, false, true), (0, 5, true, true), (Err.enomem, 0, false, true), (0, 4, false, true)] := by
  decide

/-- a run with growth (8 → 16 cells), overwrite, removals (shrink back), allocation: the final state
    represents the specification's final map -/
example :
    let ops : List (IdHash.IOp × Bool) :=
      [(.set 3 7, true), (.set 11 8, true), (.set 19 9, true), (.set 27 1, true), (.set 35 2, true), (.set 43 3, true),
       (.set 11 5, true), (.remove 19, true), (.remove 99, true), (.alloc 4 0, true), (.remove 3, true), (.remove 27, true)]
    IdHash.Rep (idModelRun (IdHash.mapInit 10 50 false) ops) (idSpecRun (IdSpec.init 10 50 false) ops) ∧
    (idSpecRun (IdSpec.init 10 50 false) ops).m = [(11, 5), (35, 2), (43, 3), (10, 4)] ∧
    idModelObs (IdHash.mapInit 10 50 false) ops =
      [(0, 7), (0, 8), (0, 9), (0, 1), (0, 2), (0, 3), (0, 5), (0, 0), (Err.enoent, 0), (0, 10), (0, 0), (0, 0)] := by
  intro ops
  have hops : IdOpsOk ops := by
    intro p hp
    simp only [ops, List.mem_cons, List.mem_nil_iff, or_false] at hp
    rcases hp with rfl | rfl | rfl | rfl | rfl | rfl | rfl | rfl | rfl | rfl | rfl | rfl <;>
      refine ⟨rfl, ?_, ?_⟩ <;> intro a b h <;> cases h <;> decide
  exact ⟨(idmap_refines_finite_map 10 50 false ops (by decide) (by decide) hops).2.2, by decide, by decide⟩

end Nng.C18
