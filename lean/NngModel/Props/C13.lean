/-
  C13 — devices route replies back correctly and hop limits kill loops.

  Property theorems only (lemmas: Proofs/Backtrace*.lean).  `Nng.Bt` is the executable
  model of the header processing in xrep.c, xreq.c, rep.c, req.c, xrespond.c, xsurvey.c,
  respond.c and of device.c (tied to the C code by the correspondence check of
  vlib/props/c13.py), `Nng.BtSpec` is the specification.  All statements are for every
  byte string / every chain length / every pipe id; nothing is bounded.
-/
import NngModel.Proofs.BacktracePair
import NngModel.Generated.Base
import NngModel.Generated.C13
namespace Nng.C13
open Nng Nng.Bt Nng.BtSpec
open Nng.Generated (maxMaxTtl headerCap btSavedCap btPipeIdMax btReqIdMin btReqIdMax)

/-- hypotheses on a chain: pipe ids come from the pipe id map (high bit clear) and the
    hop limits from the option range -/
def ChainOk (stages : List Stage) : Prop := ∀ s ∈ stages, s.pipe ≤ btPipeIdMax ∧ s.ttl ≤ maxMaxTtl

private theorem chainOk_conv {stages : List Stage} (h : ChainOk stages) :
    ∀ s ∈ stages, s.pipe < 2 ^ 31 ∧ s.ttl ≤ 15 := by
  intro s hs
  have := h s hs
  simp only [btPipeIdMax, maxMaxTtl] at this
  omega

/-! ## D1 — the header never outgrows its buffer -/

/-- D1a. Whatever bytes arrive, a message delivered upward by XREP (and XRESPONDENT) has a
    header of at most `4·(ttl+1)` bytes, at least 8, and `4·(ttl+1) ≤ headerCap` for every
    admissible TTL. -/
theorem D1_xrep_header_bound (ttl p : Nat) (w h b : Bytes) (ht : ttl ≤ maxMaxTtl)
    (hd : xrepRecv ttl p w = .deliver h b) :
    8 ≤ h.length ∧ h.length ≤ 4 * (ttl + 1) ∧ 4 * (ttl + 1) ≤ headerCap := by
  rw [xrepRecv_eq] at hd
  obtain ⟨n, bt, hbt, _, hh, hn, _⟩ := ttlLoop_deliver_inv ttl w.length w 1 _ h b (Nat.le_refl _) hd
  have := isBt_length n bt hbt
  simp only [maxMaxTtl] at ht
  simp only [headerCap]
  subst hh
  simp only [List.length_append, length_w32]
  omega

/-- D1b. The backtrace REP (and RESPONDENT) saves is at most `4·ttl ≤ 60` bytes: it fits
    `ctx->btrace` and the later `nni_msg_header_append` in the send path. -/
theorem D1_rep_saved_bound (ttl : Nat) (w h b : Bytes) (ht : ttl ≤ maxMaxTtl)
    (hd : repRecv ttl w = .deliver h b) :
    4 ≤ h.length ∧ h.length ≤ 4 * ttl ∧ 4 * ttl ≤ btSavedCap ∧ 4 * ttl ≤ headerCap := by
  unfold repRecv at hd
  obtain ⟨n, bt, hbt, _, hh, hn, _⟩ := ttlLoop_deliver_inv ttl w.length w 1 _ h b (Nat.le_refl _) hd
  have := isBt_length n bt hbt
  simp only [maxMaxTtl] at ht
  simp only [headerCap, btSavedCap]
  subst hh
  omega

/-- D1c. `nni_msg_header_append_u32`'s "impossible header over-run" panic and the
    NNG_EINVAL branch of `nni_msg_header_append` are unreachable in all four TTL loops,
    for every input and every admissible TTL. -/
theorem D1_no_overrun (ttl p : Nat) (w : Bytes) (ht : ttl ≤ maxMaxTtl) :
    xrepRecv ttl p w ≠ .panic ∧ xrepRecv ttl p w ≠ .dropEinval ∧
    xrespondRecv ttl p w ≠ .panic ∧ xrespondRecv ttl p w ≠ .dropEinval ∧
    repRecv ttl w ≠ .panic ∧ repRecv ttl w ≠ .dropEinval ∧
    respondRecv ttl w ≠ .panic ∧ respondRecv ttl w ≠ .dropEinval := by
  simp only [maxMaxTtl] at ht
  have e : xrespondRecv ttl p w = xrepRecv ttl p w := rfl
  have e2 : respondRecv ttl w = repRecv ttl w := rfl
  rw [e, e2, xrepRecv_eq]
  have a := ttlLoop_ne_panic ttl w.length w 1 (w32 p) (Nat.le_refl _)
  have b : ttlLoop ttl 1 (w32 p) w ≠ .dropEinval := fun hx => by
    have := ttlLoop_einval_inv ttl w.length w 1 (w32 p) (Nat.le_refl _) hx
    rw [hcap_eq, length_w32] at this; omega
  have c := ttlLoop_ne_panic ttl w.length w 1 [] (Nat.le_refl _)
  have d : ttlLoop ttl 1 [] w ≠ .dropEinval := fun hx => by
    have := ttlLoop_einval_inv ttl w.length w 1 [] (Nat.le_refl _) hx
    rw [hcap_eq] at this; simp at this; omega
  exact ⟨a, b, a, b, c, d, c, d⟩

/-- D1d. XREQ / XSURVEYOR (no hop limit): a delivered header fits the buffer; longer
    backtraces never get that far (D5). -/
theorem D1_xreq_header_bound (w h b : Bytes) (hd : xreqRecv w = .deliver h b) :
    4 ≤ h.length ∧ h.length ≤ headerCap := by
  unfold xreqRecv at hd
  obtain ⟨n, bt, hbt, _, hh, hl⟩ := endLoop_deliver_inv w.length w [] h b (Nat.le_refl _) hd
  have := isBt_length n bt hbt
  subst hh
  exact ⟨by omega, hl⟩

/-- D1e. A reply sent by REP with the backtrace it saved always goes out (neither ESTATE
    nor the append failure), as saved backtrace followed by the reply body; the user's
    header is ignored. -/
theorem D1_rep_reply_goes_out (ttl : Nat) (w saved b userHdr reply : Bytes) (ht : ttl ≤ maxMaxTtl)
    (hd : repRecv ttl w = .deliver saved b) : repSend saved userHdr reply = some (saved ++ reply) := by
  have := D1_rep_saved_bound ttl w saved b ht hd
  simp only [headerCap] at this
  unfold repSend
  rw [if_neg (by omega), if_neg (by rw [hcap_eq]; omega)]
  rfl

/-! ## D2 — one hop: wind, unwind -/

/-- D2a. A request whose wire form is a well-formed backtrace `H` of `n ≤ ttl` words
    (ending in the id) followed by body `B`, arriving on pipe `p`, is delivered by XREP
    with header `p · H` and body `B`; sending a message with that header back into XREP
    routes it to pipe `p` with wire bytes `H · B'`: unwind ∘ wind = id. -/
theorem D2_single_hop (ttl p n : Nat) (H B B' : Bytes) (hH : isBt n H = true) (hn : n ≤ ttl)
    (ht : ttl ≤ maxMaxTtl) (hp : p ≤ btPipeIdMax) :
    xrepRecv ttl p (H ++ B) = .deliver (w32 p ++ H) B ∧
    xrepSend (w32 p ++ H) B' = some (p, H ++ B') := by
  simp only [maxMaxTtl] at ht
  simp only [btPipeIdMax] at hp
  exact ⟨xrepRecv_accept ttl p n H B hH hn ht, xrepSend_push p (by omega) H B'⟩

/-- D2b. For ARBITRARY bytes: whatever XREP delivers is the input with the pipe id put in
    front (nothing of the body is altered or lost: header ++ body = p · wire), the header
    is a well-formed backtrace, and the way back pops exactly `p`. -/
theorem D2_wind_unwind_any (ttl p : Nat) (w h b b' : Bytes) (hp : p ≤ btPipeIdMax)
    (hd : xrepRecv ttl p w = .deliver h b) :
    wire h b = w32 p ++ w ∧ (∃ n, isBt n (h.drop 4) = true ∧ n ≤ ttl) ∧
    xrepSend h b' = some (p, h.drop 4 ++ b') := by
  rw [xrepRecv_eq] at hd
  simp only [btPipeIdMax] at hp
  obtain ⟨n, bt, hbt, hw, hh, hn, _⟩ := ttlLoop_deliver_inv ttl w.length w 1 _ h b (Nat.le_refl _) hd
  subst hh
  refine ⟨by simp [wire, hw], ⟨n, by rw [drop4_w32]; exact hbt, by omega⟩, ?_⟩
  rw [drop4_w32]
  exact xrepSend_push p (by omega) bt b'

/-- D2c. The requester side of a device: XREQ moves the whole backtrace of a reply to the
    header, body untouched, and XREQ's send puts it back unchanged. -/
theorem D2_xreq_identity (n : Nat) (H B : Bytes) (hH : isBt n H = true) (hn : 4 * n ≤ headerCap) :
    xreqRecv (H ++ B) = .deliver H B ∧ xreqSend H B = H ++ B := by
  unfold xreqRecv
  have := endLoop_accept n [] H B hH (by simpa [hcap] using hn)
  exact ⟨by simpa using this, rfl⟩

/-- the device itself is the identity on (header, body) -/
theorem D2_device_identity (m : Bytes × Bytes) : device m = m := rfl

/-! ## D3 — chains of any length -/

/-- D3a. Forward: a request with id `id` and body `B` sent through devices `stages`
    (any number, any pipe ids, any TTLs) comes out of the last device iff device `j`
    (0-based), which sees `j+1` routing words, has `j+1 ≤ ttl_j`; it then carries the
    backtrace `[p_k, …, p_1, id]` and the body unchanged. -/
theorem D3_forward (stages : List Stage) (id : Nat) (B : Bytes) (hc : ChainOk stages)
    (hid : btReqIdMin ≤ id ∧ id ≤ btReqIdMax) :
    (firstExceeded 1 stages = none →
      forward stages (reqSend id B) = some (hdrOf (stages.map (·.pipe)).reverse ++ w32 id ++ B)) ∧
    (∀ j, firstExceeded 1 stages = some j → forward stages (reqSend id B) = none) := by
  simp only [btReqIdMin, btReqIdMax] at hid
  have := forward_spec stages 1 (w32 id) B (isBt_w32_id id (by omega) (by omega)) (chainOk_conv hc)
  exact ⟨this.1, fun j hj => (this.2 j hj).1⟩

/-- D3b. The whole exchange equals the specification: the request is discarded by the
    first receiver whose limit is exceeded (device `j` iff `j+1 > ttl_j`, the replier iff
    `k+1 > ttlR`) and by nobody else; otherwise the replier's application sees exactly
    `body`, the reply is routed over exactly `[p_k, …, p_1]` — back through the same
    devices — and the requester's protocol receives the same id and the reply body
    unchanged.  The reply is never lost to header processing. -/
theorem D3_round_trip (stages : List Stage) (ttlR id : Nat) (body reply : Bytes)
    (hc : ChainOk stages) (hR : ttlR ≤ maxMaxTtl) (hid : btReqIdMin ≤ id ∧ id ≤ btReqIdMax) :
    roundTrip stages ttlR id body reply = expected stages ttlR id body reply := by
  simp only [btReqIdMin, btReqIdMax] at hid
  simp only [maxMaxTtl] at hR
  have hc' := chainOk_conv hc
  have hidw := isBt_w32_id id (by omega) (by omega)
  have hf := forward_spec stages 1 (w32 id) body hidw hc'
  have hfe := firstExceeded_append ⟨ttlR, 0⟩ stages 1
  unfold roundTrip expected
  rw [hfe]
  have hreq : reqSend id body = w32 id ++ body := rfl
  rw [hreq]
  cases hx : firstExceeded 1 stages with
  | some j =>
    have := hf.2 j hx
    simp [this.1, this.2]
  | none =>
    have hfw := hf.1 hx
    obtain ⟨ps, hpsdef⟩ : ∃ ps, ps = (stages.map (·.pipe)).reverse := ⟨_, rfl⟩
    have hps : ∀ p ∈ ps, p < 2 ^ 31 := by
      intro p hp
      simp only [hpsdef, List.mem_reverse, List.mem_map] at hp
      obtain ⟨s, hs, rfl⟩ := hp
      exact (hc' s hs).1
    have hlen : stages.length = ps.length := by simp [hpsdef]
    rw [← hpsdef] at hfw ⊢
    rw [hfw, hlen]
    have hbt := isBt_hdrOf ps hps 1 (w32 id) hidw
    simp only []
    by_cases hk : 1 + ps.length > ttlR
    · have hd := repRecv_drop ttlR (ps.length + 1) (hdrOf ps ++ w32 id) body hbt (by omega) hR
      rw [hd, if_pos hk]
    · have ha := repRecv_accept ttlR (ps.length + 1) (hdrOf ps ++ w32 id) body hbt (by omega) hR
      have hsend := D1_rep_reply_goes_out ttlR _ _ _ [] reply (by simpa [maxMaxTtl] using hR) ha
      have hback := backward_spec ps 1 (w32 id) reply hidw hps (by rw [hcap_eq]; omega)
      have hrr : reqRecv (w32 id ++ reply) = .deliver (w32 id) reply := by
        unfold reqRecv
        rw [if_neg (by simp), take4_w32, drop4_w32]
      rw [ha, if_neg hk]
      simp only [hsend, hback, hrr]
      rfl

/-! ## D4 — hop limits kill loops -/

/-- D4a. A message that arrives carrying `n > ttl` routing words is dropped there: not
    delivered, not forwarded, and the sender is not disconnected.  (A message that crossed
    `d` devices carries `d+1` words, so "crossed more hops than MAXTTL" implies this; the
    exact test the code implements is `words > ttl`, i.e. `d ≥ ttl`.) -/
theorem D4_exceeded_dropped (ttl p n : Nat) (H B : Bytes) (hH : isBt n H = true) (hn : n > ttl)
    (ht : ttl ≤ maxMaxTtl) :
    xrepRecv ttl p (H ++ B) = .drop ∧ repRecv ttl (H ++ B) = .drop ∧
    xrespondRecv ttl p (H ++ B) = .drop ∧ respondRecv ttl (H ++ B) = .drop := by
  simp only [maxMaxTtl] at ht
  exact ⟨xrepRecv_drop ttl p n H B hH hn ht, repRecv_drop ttl n H B hH hn ht,
    xrepRecv_drop ttl p n H B hH hn ht, repRecv_drop ttl n H B hH hn ht⟩

/-- D4b. Every traversal of a device adds exactly one routing word (4 bytes) to what is on
    the wire, for arbitrary input bytes; the header stays ≤ 4·(ttl+1). -/
theorem D4_traversal_adds_one_word (ttl p : Nat) (w h b : Bytes) (ht : ttl ≤ maxMaxTtl)
    (hp : p ≤ btPipeIdMax) (hd : xrepRecv ttl p w = .deliver h b) :
    (xreqSend (device (h, b)).1 (device (h, b)).2).length = w.length + 4 ∧
    (∃ n, isBt n (h.drop 4) = true ∧ isBt (n + 1) h = true ∧ w = h.drop 4 ++ b) ∧
    h.length ≤ 4 * (ttl + 1) := by
  have hb := D1_xrep_header_bound ttl p w h b ht hd
  rw [xrepRecv_eq] at hd
  obtain ⟨n, bt, hbt, hw, hh, hn, _⟩ := ttlLoop_deliver_inv ttl w.length w 1 _ h b (Nat.le_refl _) hd
  subst hh
  refine ⟨by simp [xreqSend, device, wire, hw]; omega, ⟨n, ?_, ?_, ?_⟩, hb.2.1⟩
  · rw [drop4_w32]; exact hbt
  · simp only [btPipeIdMax] at hp
    exact isBt_w32_push n p bt (by omega) hbt
  · rw [drop4_w32]; exact hw

/-- D4c. Loops die out (well-formed start): along ANY path of devices — any topology,
    devices may repeat — whose hop limits are all ≤ T, a message that carries `n` routing
    words is discarded within `T + 1 - n` forwardings; a fresh request (`n = 1`) is
    forwarded at most `T` times. -/
theorem D4_loops_die (T n : Nat) (stages : List Stage) (bt B : Bytes) (hbt : isBt n bt = true)
    (hc : ChainOk stages) (hT : ∀ s ∈ stages, s.ttl ≤ T) (hne : stages ≠ [])
    (hl : n + stages.length > T + 1) : forward stages (bt ++ B) = none := by
  have hf := forward_spec stages n bt B hbt (chainOk_conv hc)
  have hb := firstExceeded_bound T stages n hne hT hl
  cases hx : firstExceeded n stages with
  | none => exact absurd hx hb
  | some j => exact (hf.2 j hx).1

/-- D4d. Loops die out (arbitrary start): whatever bytes a peer injects, no message is
    forwarded along a path of more than `T` devices whose hop limits are ≤ T. -/
theorem D4_loops_die_any (T : Nat) (stages : List Stage) (w : Bytes) (hT1 : 1 ≤ T)
    (hc : ChainOk stages) (hT : ∀ s ∈ stages, s.ttl ≤ T) (hl : stages.length > T) :
    forward stages w = none := by
  match stages, hl with
  | [], hl => simp at hl
  | s :: rest, hl =>
    have hs0 := chainOk_conv hc s (by simp)
    have hcr : ChainOk rest := fun s' h' => hc s' (by simp [h'])
    simp only [forward]
    cases hd : xrepRecv s.ttl s.pipe w with
    | deliver h b =>
      simp only []
      rw [xrepRecv_eq] at hd
      obtain ⟨n, bt, hbt, hw, hh, hn, _⟩ := ttlLoop_deliver_inv s.ttl w.length w 1 _ h b (Nat.le_refl _) hd
      have hn1 := (isBt_length n bt hbt).2
      subst hh
      have hne : rest ≠ [] := by
        intro h0; subst h0; simp at hl; omega
      exact D4_loops_die T (n + 1) rest (w32 s.pipe ++ bt) b (isBt_w32_push n s.pipe bt hs0.1 hbt) hcr
        (fun s' h' => hT s' (by simp [h'])) hne (by simp at hl; omega)
    | drop => rfl
    | closePipe => rfl
    | dropEinval => rfl
    | panic => rfl

/-! ## D5 — malformed and over-long backtraces -/

/-- D5a. Hop words followed by fewer than four bytes, before the hop budget is used up
    (`n < ttl`; in particular any message shorter than 4 bytes): the sender's pipe is
    closed and nothing is delivered. -/
theorem D5_truncated_closes (ttl p n : Nat) (hs tail : Bytes) (hh : isHops n hs = true) (hn : n < ttl)
    (htl : tail.length < 4) (ht : ttl ≤ maxMaxTtl) :
    xrepRecv ttl p (hs ++ tail) = .closePipe ∧ repRecv ttl (hs ++ tail) = .closePipe ∧
    xrespondRecv ttl p (hs ++ tail) = .closePipe ∧ respondRecv ttl (hs ++ tail) = .closePipe := by
  simp only [maxMaxTtl] at ht
  have a : xrepRecv ttl p (hs ++ tail) = .closePipe := by
    rw [xrepRecv_eq]
    exact ttlLoop_close ttl n 1 _ hs tail hh (by omega) htl (by rw [hcap_eq, length_w32]; omega)
  have b : repRecv ttl (hs ++ tail) = .closePipe :=
    ttlLoop_close ttl n 1 _ hs tail hh (by omega) htl (by rw [hcap_eq]; simp; omega)
  exact ⟨a, b, a, b⟩

/-- D5b. `ttl` or more hop words and no id among the first `ttl` words — more hops than
    fit — whatever follows: dropped, the sender stays connected, nothing is delivered. -/
theorem D5_too_many_hops_dropped (ttl p n : Nat) (hs W : Bytes) (hh : isHops n hs = true) (hn : n ≥ ttl)
    (ht : ttl ≤ maxMaxTtl) :
    xrepRecv ttl p (hs ++ W) = .drop ∧ repRecv ttl (hs ++ W) = .drop ∧
    xrespondRecv ttl p (hs ++ W) = .drop ∧ respondRecv ttl (hs ++ W) = .drop := by
  simp only [maxMaxTtl] at ht
  have a : xrepRecv ttl p (hs ++ W) = .drop := by
    rw [xrepRecv_eq]
    exact ttlLoop_drop ttl n 1 _ hs W hh (by omega) (by rw [hcap_eq, length_w32]; omega)
  have b : repRecv ttl (hs ++ W) = .drop :=
    ttlLoop_drop ttl n 1 _ hs W hh (by omega) (by rw [hcap_eq]; simp; omega)
  exact ⟨a, b, a, b⟩

/-- D5c. XREQ / XSURVEYOR: truncated backtraces, and backtraces with more hop words than
    the header buffer holds, disconnect the sender; nothing is delivered and the header
    buffer is never over-run (D1d). -/
theorem D5_xreq_malformed (n : Nat) (hs W : Bytes) (hh : isHops n hs = true)
    (h : W.length < 4 ∨ headerCap < 4 * n) :
    xreqRecv (hs ++ W) = .closePipe ∧ xsurveyRecv (hs ++ W) = .closePipe := by
  have a : xreqRecv (hs ++ W) = .closePipe := by
    unfold xreqRecv
    cases h with
    | inl h => exact endLoop_close_short n [] hs W hh h
    | inr h => exact endLoop_close_long n [] hs W hh (by simpa [hcap] using h)
  exact ⟨a, a⟩

/-- D5d. Complete characterisation, for EVERY byte string: the receive paths decide
    exactly as the specification `BtSpec.classify` (accept / drop / malformed ↦ deliver /
    drop / closePipe); on acceptance the backtrace and payload are those of the
    specification, XREP additionally putting the pipe id in front. -/
theorem D5_classification (ttl p : Nat) (w : Bytes) (ht : ttl ≤ maxMaxTtl) :
    xrepRecv ttl p w = ofVerdict (w32 p) (classify ttl w) ∧
    repRecv ttl w = ofVerdict [] (classify ttl w) ∧
    xrespondRecv ttl p w = ofVerdict (w32 p) (classify ttl w) ∧
    respondRecv ttl w = ofVerdict [] (classify ttl w) ∧
    xreqRecv w = ofVerdict [] (classifyNoTtl (maxMaxTtl + 1) w) ∧
    xsurveyRecv w = ofVerdict [] (classifyNoTtl (maxMaxTtl + 1) w) := by
  simp only [maxMaxTtl] at ht ⊢
  have a : xrepRecv ttl p w = ofVerdict (w32 p) (classify ttl w) := by
    rw [xrepRecv_eq]
    exact ttlLoop_classify ttl ttl 1 _ w (by omega) (by rw [hcap_eq, length_w32]; omega)
  have b : repRecv ttl w = ofVerdict [] (classify ttl w) :=
    ttlLoop_classify ttl ttl 1 _ w (by omega) (by rw [hcap_eq]; simp; omega)
  have c : xreqRecv w = ofVerdict [] (classifyNoTtl 16 w) :=
    endLoop_classify 16 [] w (by rw [hcap_eq]; rfl)
  exact ⟨a, b, a, b, c, c⟩

/-! ## D6 — SURVEYOR / RESPONDENT -/

/-- D6a. The survey-side functions are the same functions (the C text is the same). -/
theorem D6_same_functions :
    xrespondRecv = xrepRecv ∧ respondRecv = repRecv ∧ xsurveyRecv = xreqRecv ∧
    xrespondSend = xrepSend ∧ xsurveySend = xreqSend ∧ respondSend = repSend :=
  ⟨rfl, rfl, rfl, rfl, rfl, rfl⟩

/-- D6b. Hence D3 for surveys: along every path SURVEYOR → devices → RESPONDENT and back. -/
theorem D6_survey_round_trip (stages : List Stage) (ttlR id : Nat) (body reply : Bytes)
    (hc : ChainOk stages) (hR : ttlR ≤ maxMaxTtl) (hid : btReqIdMin ≤ id ∧ id ≤ btReqIdMax) :
    surveyRoundTrip stages ttlR id body reply = expected stages ttlR id body reply := by
  rw [← D3_round_trip stages ttlR id body reply hc hR hid]
  unfold surveyRoundTrip roundTrip
  rw [forwardS_eq, forwardStopS_eq]
  cases forward stages (reqSend id body) with
  | none => rfl
  | some w =>
    simp only []
    rw [show respondRecv ttlR w = repRecv ttlR w from rfl]
    cases repRecv ttlR w <;> simp only []
    rw [show respondSend = repSend from rfl]
    rename_i saved b
    cases repSend saved [] reply with
    | none => rfl
    | some w' => simp only []; rw [backwardS_eq]

/-! ## D7 — PAIR1 hop counts (same property, a counter instead of a backtrace) -/

/-- D7a. Through any chain of PAIR1 devices a message sent by a cooked socket (count 1 on
    the wire) keeps its body, its count grows by exactly one per device, and device `j`
    (0-based, seeing count `j+1`) forwards it iff `j+1 ≤ ttl_j`: the same `firstExceeded`
    rule as D3; beyond the limit it is dropped, never forwarded. -/
theorem D7_pair1_chain (stages : List Stage) (B : Bytes) (hT : ∀ s ∈ stages, s.ttl ≤ maxMaxTtl) :
    forwardP stages (pair1CookedSend B) =
      match firstExceeded 1 stages with
      | none => some (w32 (1 + stages.length) ++ B)
      | some _ => none := by
  have := forwardP_spec stages 1 B (by omega) (by simpa [maxMaxTtl] using hT)
  have e : pair1CookedSend B = w32 1 ++ B := rfl
  rw [e, this]
  cases firstExceeded 1 stages <;> rfl

/-- D7b. Every byte string: PAIR1's receive decides as the specification `classifyHop`
    (missing or > 255 count: disconnect; count above the limit: drop; else deliver with
    the body untouched). -/
theorem D7_pair1_classification (ttl : Nat) (w : Bytes) :
    pair1Recv ttl w = ofVerdict [] (classifyHop ttl w) := pair1Recv_classify ttl w

/-- D7c. In any cycle of PAIR1 devices with limits ≤ T a message is forwarded at most T times. -/
theorem D7_pair1_loops_die (T : Nat) (stages : List Stage) (B : Bytes) (hT15 : T ≤ maxMaxTtl)
    (hT : ∀ s ∈ stages, s.ttl ≤ T) (hl : stages.length > T) :
    forwardP stages (pair1CookedSend B) = none := by
  have hne : stages ≠ [] := by intro h; subst h; simp at hl
  have hb := firstExceeded_bound T stages 1 hne hT (by omega)
  rw [D7_pair1_chain stages B (fun s hs => Nat.le_trans (hT s hs) hT15)]
  cases hx : firstExceeded 1 stages with
  | none => exact absurd hx hb
  | some j => rfl

/-! ## non-vacuity -/

/-- a concrete chain satisfies the hypotheses -/
example : ChainOk [⟨8, 5⟩, ⟨3, 77⟩, ⟨15, 1000000⟩] := by
  intro s hs
  simp only [List.mem_cons, List.not_mem_nil, or_false] at hs
  rcases hs with rfl | rfl | rfl <;> simp [btPipeIdMax, maxMaxTtl]

/-- three devices, answered: the route is the reversed pipe list -/
example : roundTrip [⟨8, 5⟩, ⟨3, 77⟩, ⟨15, 1000000⟩] 4 0x80000001 [1, 2, 3] [9, 9] =
    .answered [1, 2, 3] [1000000, 77, 5] [0x80, 0, 0, 1] [9, 9] := by decide

/-- the same chain with the second device's limit at 1: discarded there (it sees 2 words) -/
example : roundTrip [⟨8, 5⟩, ⟨1, 77⟩, ⟨15, 1000000⟩] 4 0x80000001 [1, 2, 3] [9, 9] = .discardedAt 1 := by decide

/-- replier limit 3 behind three devices (4 words): discarded by the replier -/
example : roundTrip [⟨8, 5⟩, ⟨3, 77⟩, ⟨15, 1000000⟩] 3 0x80000001 [1, 2, 3] [9, 9] = .discardedAt 3 := by decide

/-- a well-formed backtrace and a hop-only prefix -/
example : isBt 3 [0, 0, 0, 5, 0x7f, 1, 2, 3, 0x80, 0, 0, 1] = true ∧ isHops 2 [0, 0, 0, 5, 0x7f, 1, 2, 3] = true := by decide

/-- receive outcomes of all three kinds are inhabited -/
example : xrepRecv 2 7 [0, 0, 0, 5, 0x80, 0, 0, 1, 0xaa] = .deliver [0, 0, 0, 7, 0, 0, 0, 5, 0x80, 0, 0, 1] [0xaa] ∧
    xrepRecv 1 7 [0, 0, 0, 5, 0x80, 0, 0, 1, 0xaa] = .drop ∧
    xrepRecv 2 7 [0, 0, 0, 5, 0x80, 0, 0] = .closePipe := by decide

/-- PAIR1: three devices, the third with limit 2 sees count 3 and drops; with limit 3 it forwards count 4 -/
example : forwardP [⟨8, 0⟩, ⟨8, 0⟩, ⟨2, 0⟩] (pair1CookedSend [7]) = none ∧
    forwardP [⟨8, 0⟩, ⟨8, 0⟩, ⟨3, 0⟩] (pair1CookedSend [7]) = some [0, 0, 0, 4, 7] := by decide

end Nng.C13
