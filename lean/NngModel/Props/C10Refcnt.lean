/- C10 / C03, reference counts (src/core/refcnt.c, used by pipes, stream dialers and inproc queues): under the caller
   contract (only an owner takes or drops a reference) the finaliser runs exactly once, exactly when the last reference
   goes, and nothing touches the counter afterwards - for every interleaving of any number of threads. -/
import NngModel.Model.Refcnt
namespace Nng.C10Refcnt
open Nng.Refcnt

theorem sum_modify_succ (l : List Nat) (t : Nat) (h : 0 < l[t]?.getD 0) : (l.modify t (· + 1)).sum = l.sum + 1 := by
  induction l generalizing t with
  | nil => simp at h
  | cons a r ih =>
    cases t with
    | zero => simp; omega
    | succ k =>
      have : 0 < r[k]?.getD 0 := by simpa using h
      simp [ih k this]; omega

theorem sum_modify_pred (l : List Nat) (t : Nat) (h : 0 < l[t]?.getD 0) : (l.modify t (· - 1)).sum + 1 = l.sum := by
  induction l generalizing t with
  | nil => simp at h
  | cons a r ih =>
    cases t with
    | zero => simp at h; simp [List.modify_cons]; omega
    | succ k =>
      have : 0 < r[k]?.getD 0 := by simpa using h
      have := ih k this
      simp; omega

theorem sum_pos_of_owner (l : List Nat) (t : Nat) (h : 0 < l[t]?.getD 0) : 0 < l.sum := by
  induction l generalizing t with
  | nil => simp at h
  | cons a r ih =>
    cases t with
    | zero => simp at h; simp; omega
    | succ k =>
      have : 0 < r[k]?.getD 0 := by simpa using h
      have := ih k this
      simp; omega

structure Inv (s : State) : Prop where
  cntEq : s.cnt = (s.own.sum : Int)
  noUaf : s.uaf = false
  fin : (s.finis = 0 ∧ 0 < s.own.sum) ∨ (s.finis = 1 ∧ s.own.sum = 0) ∨ (s.finis = 0 ∧ s.own.sum = 0)

theorem inv_step {s : State} (hi : Inv s) (o : Op) (ha : allowed s o = true) : Inv (step s o) := by
  cases o with
  | hold t =>
    have hpos : 0 < s.own[t]?.getD 0 := by simpa [allowed] using ha
    have hs := sum_pos_of_owner s.own t hpos
    have hm := sum_modify_succ s.own t hpos
    have hf : s.finis = 0 := by rcases hi.fin with h | h | h <;> omega
    refine ⟨?_, ?_, ?_⟩
    · simp only [step, hm, hi.cntEq]; omega
    · simp [step, hi.noUaf, hf]
    · simp only [step, hm]; exact Or.inl ⟨hf, by omega⟩
  | rele t =>
    have hpos : 0 < s.own[t]?.getD 0 := by simpa [allowed] using ha
    have hs := sum_pos_of_owner s.own t hpos
    have hm := sum_modify_pred s.own t hpos
    have hf : s.finis = 0 := by rcases hi.fin with h | h | h <;> omega
    have hc := hi.cntEq
    refine ⟨?_, ?_, ?_⟩
    · simp only [step, hc]; omega
    · simp [step, hi.noUaf, hf]
    · simp only [step]
      by_cases h1 : s.cnt - 1 = 0
      · rw [if_pos h1]; right; left; constructor <;> omega
      · rw [if_neg h1]; left; constructor <;> omega

theorem inv_init (own : List Nat) : Inv (init own) := by
  refine ⟨rfl, rfl, ?_⟩
  by_cases h : own.sum = 0
  · exact Or.inr (Or.inr ⟨rfl, h⟩)
  · exact Or.inl ⟨rfl, by simp only [init]; omega⟩

theorem inv_run {s : State} (hi : Inv s) (ops : List Op) (hr : respects s ops = true) : Inv (run s ops) := by
  induction ops generalizing s with
  | nil => exact hi
  | cons o r ih =>
    simp only [respects, Bool.and_eq_true] at hr
    exact ih (inv_step hi o hr.1) hr.2

/-- the counter always equals the number of references owned (every interleaving within the contract) -/
theorem counter_is_owners (own : List Nat) (ops : List Op) (hr : respects (init own) ops = true) :
    (run (init own) ops).cnt = ((run (init own) ops).own.sum : Int) :=
  (inv_run (inv_init own) ops hr).cntEq

/-- the finaliser runs at most once, and exactly when the last reference has gone (given there was one to begin with) -/
theorem fini_exactly_when_last_reference_goes (own : List Nat) (h0 : 0 < own.sum) (ops : List Op)
    (hr : respects (init own) ops = true) :
    (run (init own) ops).finis ≤ 1 ∧ ((run (init own) ops).finis = 1 ↔ (run (init own) ops).own.sum = 0) ∧
      ((run (init own) ops).finis = 1 ↔ (run (init own) ops).cnt = 0) := by
  generalize hs : run (init own) ops = s
  have hi : Inv s := hs ▸ inv_run (inv_init own) ops hr
  have hc := hi.cntEq
  -- the third alternative (never any reference) is excluded: a run that reaches sum 0 went through a rele
  have hfin : (s.finis = 0 ∧ 0 < s.own.sum) ∨ (s.finis = 1 ∧ s.own.sum = 0) := by
    have key : ∀ (s0 : State) (ops : List Op), Inv s0 → respects s0 ops = true →
        ((s0.finis = 0 ∧ 0 < s0.own.sum) ∨ (s0.finis = 1 ∧ s0.own.sum = 0)) →
        (((run s0 ops).finis = 0 ∧ 0 < (run s0 ops).own.sum) ∨ ((run s0 ops).finis = 1 ∧ (run s0 ops).own.sum = 0)) := by
      intro s0 ops
      induction ops generalizing s0 with
      | nil => intro _ _ h; exact h
      | cons o r ih =>
        intro hi0 hr0 h
        simp only [respects, Bool.and_eq_true] at hr0
        have hi1 := inv_step hi0 o hr0.1
        refine ih (step s0 o) hi1 hr0.2 ?_
        -- an allowed step starts with an owner, hence finis = 0 before; after it the Inv alternatives minus "0,0":
        have hpos : 0 < s0.own.sum := by
          cases o with
          | hold t => exact sum_pos_of_owner s0.own t (by simpa [allowed] using hr0.1)
          | rele t => exact sum_pos_of_owner s0.own t (by simpa [allowed] using hr0.1)
        have hf0 : s0.finis = 0 := by rcases h with h | h <;> omega
        cases o with
        | hold t =>
          have hm := sum_modify_succ s0.own t (by simpa [allowed] using hr0.1)
          simp only [step, hm]; exact Or.inl ⟨hf0, by omega⟩
        | rele t =>
          have hm := sum_modify_pred s0.own t (by simpa [allowed] using hr0.1)
          have hc0 := hi0.cntEq
          simp only [step]
          by_cases h1 : s0.cnt - 1 = 0
          · rw [if_pos h1]; right; constructor <;> omega
          · rw [if_neg h1]; left; constructor <;> omega
    have := key (init own) ops (inv_init own) hr (Or.inl ⟨rfl, by simpa [init] using h0⟩)
    rw [hs] at this; exact this
  refine ⟨by rcases hfin with h | h <;> omega, ⟨?_, ?_⟩, ⟨?_, ?_⟩⟩
  · intro h; rcases hfin with h' | h' <;> omega
  · intro h; rcases hfin with h' | h' <;> omega
  · intro h; rcases hfin with h' | h' <;> omega
  · intro h; rcases hfin with h' | h' <;> omega

/-- nothing touches the counter after the finaliser has run -/
theorem no_use_after_fini (own : List Nat) (ops : List Op) (hr : respects (init own) ops = true) :
    (run (init own) ops).uaf = false :=
  (inv_run (inv_init own) ops hr).noUaf

/-- the judge of Model/Refcnt.lean accepts every state of a contract-respecting run -/
theorem judge_model (own : List Nat) (h0 : 0 < own.sum) (ops : List Op) (hr : respects (init own) ops = true) :
    judge (run (init own) ops).cnt (run (init own) ops).finis = true := by
  obtain ⟨h1, _, h3⟩ := fini_exactly_when_last_reference_goes own h0 ops hr
  unfold judge
  simp only [Bool.and_eq_true, decide_eq_true_eq, beq_iff_eq]
  refine ⟨h1, ?_⟩
  by_cases hf : (run (init own) ops).finis = 1
  · simp [hf, h3.mp hf]
  · have : ¬ (run (init own) ops).cnt = 0 := fun hc => hf (h3.mpr hc)
    simp [hf, this]

/-- non-vacuity: a pipe-like object (two initial references) shared with a third thread -/
example : respects (init [1, 1, 0]) [.hold 0, .rele 0, .rele 1, .rele 0] = true ∧
    (run (init [1, 1, 0]) [.hold 0, .rele 0, .rele 1, .rele 0]).finis = 1 := by decide

/-- the contract is necessary: a hold by a thread that owns nothing, after the last reference went, revives the counter and
    the finaliser runs a second time (a double free) -/
example : (run (init [1, 0]) [.rele 0, .hold 1, .rele 1]).finis = 2 ∧
    (run (init [1, 0]) [.rele 0, .hold 1, .rele 1]).uaf = true := by decide

end Nng.C10Refcnt
