/-
  C16 (reassembly) / C01 (whole-message integrity) for the receive-side QUEUE of websocket.c:
  rxq, recvq, the in-flight frame read, the pause rule of ws_start_read, ws_read_finish_msg/_str, ws_str_recv,
  ws_read_cancel, ws_close, ws_fini  (Model/WsQueue.lean, tied to the real code by vlib/props/c16_queue.py).

  The frame reader below the queue (header parsing, checks, unmasking, PONG replies) is the one of Model/Ws.lean,
  whose theorems (Props/C16.lean: `rx_reassembles`, `header_violation_rejected`, ...) are about `Ws.rx`, the run
  with a receive ALWAYS posted.  The theorems here say that posting receives late, in bursts, or cancelling them
  changes nothing about WHAT is delivered: the messages delivered are `msgsOf (Ws.rx cfg {} stream).2`, the same
  function of the byte stream.

  `run cfg init evs` : the queue model on an arbitrary interleaving `evs` of byte arrivals (any segmentation),
  receive postings, cancellations (and close); `streamOf evs` : the bytes that arrived; `delivered outs` : the
  data of the successful receive completions, in completion order (= posting order: recvq is FIFO).
-/
import NngModel.Proofs.WsQueueRun
import NngModel.Proofs.WsQueueInv
import NngModel.Proofs.WsQueueStr
import NngModel.Props.C16
set_option linter.unusedSimpArgs false
namespace Nng.WsQ
open Nng Nng.Ws

/-! ### (a) what is delivered is a function of the byte stream only -/

/-- (a, safety) For EVERY interleaving of byte arrivals (however cut), receive postings and cancellations, the
    messages the receives complete with are, in order, a prefix of the messages the frame layer decodes from the
    byte stream with a receive always posted: each whole, none merged, split, altered, duplicated or reordered.
    (`QEv.plain`: no user close; a cancellation carries a non-zero error code.) -/
theorem queue_delivers_in_order (cfg : Cfg) (hst : cfg.isstream = false) (evs : List QEv) (hp : ∀ e ∈ evs, e.plain) :
    delivered (run cfg init evs).2 <+: msgsOf (rx cfg {} (streamOf evs)).2 := by
  obtain ⟨hg, hq, hs⟩ := good_run cfg hst evs init [] (good_init cfg) (Or.inl rfl) hp
  have hf := (good_final cfg _ _ (streamOf evs) hg hq (by simpa [init] using hs)).1
  simp only [List.nil_append] at hf
  exact ⟨_, by rw [hf, List.append_assoc]⟩

/-- (a, nothing lost or withheld; b) If at the end a receive is still waiting (more generally: a frame read is
    outstanding, or the connection failed), then EVERY message of the byte stream has been delivered - whatever
    receives were posted late, or cancelled / timed out in between: a cancelled receive has taken nothing. -/
theorem queue_delivers_all_when_waiting (cfg : Cfg) (hst : cfg.isstream = false) (evs : List QEv) (hp : ∀ e ∈ evs, e.plain)
    (hw : (run cfg init evs).1.recvq ≠ [] ∨ (run cfg init evs).1.w.want ≠ 0 ∨ (run cfg init evs).1.w.closed = true) :
    delivered (run cfg init evs).2 = msgsOf (rx cfg {} (streamOf evs)).2 := by
  obtain ⟨hg, hq, hs⟩ := good_run cfg hst evs init [] (good_init cfg) (Or.inl rfl) hp
  obtain ⟨hf, hz⟩ := good_final cfg _ _ (streamOf evs) hg hq (by simpa [init] using hs)
  simp only [List.nil_append] at hf hg
  generalize run cfg init evs = r at *
  have hcases : r.1.w.want ≠ 0 ∨ r.1.w.closed = true := by
    rcases hw with h | h | h
    · cases hc : r.1.w.closed
      · exact Or.inl (hg.inv.waitReads hc h)
      · exact Or.inr rfl
    · exact Or.inl h
    · exact Or.inr h
  rw [hz hcases, List.append_nil] at hf
  rcases hcases with h | h
  · rw [hf, held_reading r.1 hg.inv h, List.append_nil]
  · have : held r.1 = [] := by
      unfold held
      split
      · rename_i hh; exact absurd (hg.inv.closedCur h hh.1) hh.2
      · rfl
    rw [hf, this, List.append_nil]

/-- the same with the hypothesis a user sees: a receive is waiting -/
theorem queue_no_message_lost (cfg : Cfg) (hst : cfg.isstream = false) (evs : List QEv) (hp : ∀ e ∈ evs, e.plain)
    (hw : (run cfg init evs).1.recvq ≠ []) :
    delivered (run cfg init evs).2 = msgsOf (rx cfg {} (streamOf evs)).2 :=
  queue_delivers_all_when_waiting cfg hst evs hp (Or.inl hw)

/-! ### (a) composed with `rx_reassembles`: streams that encode messages -/

/-- one message on the wire: fragments (mask key, payload), each preceded by PING/PONG frames (ping?, key, payload) -/
abbrev Frags := List (List (Bool × Bytes × Bytes) × Bytes × Bytes)

/-- the encoding `rx_reassembles` is about (BINARY, then CONT frames, FIN on the last; controls in between) -/
def wireOf (cfg : Cfg) (pieces : Frags) : Bytes :=
  (pieces.zipIdx.map fun (p, i) =>
    (p.1.map fun c => encode (!cfg.server) c.2.1 (if c.1 then opPing else opPong) true c.2.2).flatten ++
      encode (!cfg.server) p.2.1 (if i = 0 then opBinary else opCont) (decide (i + 1 = pieces.length)) p.2.2).flatten

def payloadOf (pieces : Frags) : Bytes := (pieces.map (·.2.2)).flatten

/-- the hypotheses of `rx_reassembles` for one message -/
def FragsOk (cfg : Cfg) (pieces : Frags) : Prop :=
  pieces ≠ [] ∧
  (∀ p ∈ pieces, p.2.1.length = 4 ∧ (cfg.maxframe = 0 ∨ p.2.2.length ≤ cfg.maxframe) ∧ p.2.2.length ≤ cfg.allocLimit ∧
      p.2.2.length < 2 ^ 64 ∧
      ∀ c ∈ p.1, c.2.1.length = 4 ∧ c.2.2.length ≤ 125 ∧ (cfg.maxframe = 0 ∨ c.2.2.length ≤ cfg.maxframe)) ∧
  (cfg.recvmax = 0 ∨ ((pieces.map (·.2.2)).flatten.length ≤ cfg.recvmax))

/-- the always-posted frame layer on a SEQUENCE of encoded messages (from `rx_reassembles`, by induction) -/
theorem rx_messages (cfg : Cfg) (hst : cfg.isstream = false) : ∀ (ms : List Frags) (s : St) (more : Bytes),
    Boundary s → s.closed = false → s.inmsg = false → s.rxq = [] → (∀ m ∈ ms, FragsOk cfg m) →
    ∃ s', Boundary s' ∧ s'.closed = false ∧ s'.inmsg = false ∧ s'.rxq = [] ∧
      msgsOf (rx cfg s ((ms.map (wireOf cfg)).flatten ++ more)).2 = ms.map payloadOf ++ msgsOf (rx cfg s' more).2 := by
  intro ms
  induction ms with
  | nil => intro s more hb hc hi hq _; exact ⟨s, hb, hc, hi, hq, by simp⟩
  | cons m ms ih =>
    intro s more hb hc hi hq hok
    obtain ⟨hne, h1, h2⟩ := hok m (by simp)
    have h := Nng.C16.rx_reassembles cfg s m ((ms.map (wireOf cfg)).flatten ++ more) hb hc hi hq hst hne h1 h2
      [wireOf cfg m ++ ((ms.map (wireOf cfg)).flatten ++ more)] (by simp [wireOf])
    simp only [List.foldl_cons, List.foldl_nil, List.nil_append] at h
    generalize hs1 : ({ s with rng := (pongRun cfg.server s.rng (m.flatMap (·.1))).2 } : St) = s1 at h
    have hb1 : Boundary s1 := by rw [← hs1]; exact ⟨hb.phase, hb.want, hb.got, hb.acc⟩
    obtain ⟨s', k1, k2, k3, k4, k5⟩ := ih s1 more hb1 (by rw [← hs1]; exact hc) (by rw [← hs1]; exact hi) (by rw [← hs1]; exact hq)
      (fun x hx => hok x (by simp [hx]))
    refine ⟨s', k1, k2, k3, k4, ?_⟩
    have h2' := congrArg Prod.snd h
    simp only [] at h2'
    simp only [List.map_cons, List.flatten_cons, List.append_assoc]
    rw [h2', msgsOf_append, msgsOf_tx, List.nil_append]
    simp only [msgsOf]
    rw [k5]
    rfl

/-- (a) for streams that ENCODE messages: whatever the fragmentation (1..n fragments each), whatever PING/PONG frames
    are interleaved, however the bytes are cut, whenever the receives are posted and whichever are cancelled, the
    receives complete with the first k encoded messages, each exactly `payloadOf` its fragments; and with ALL of
    them if a receive is still waiting at the end. -/
theorem queue_reassembles (cfg : Cfg) (hst : cfg.isstream = false) (ms : List Frags) (hok : ∀ m ∈ ms, FragsOk cfg m)
    (evs : List QEv) (hp : ∀ e ∈ evs, e.plain) (hs : streamOf evs = (ms.map (wireOf cfg)).flatten) :
    delivered (run cfg init evs).2 <+: ms.map payloadOf ∧
    ((run cfg init evs).1.recvq ≠ [] → delivered (run cfg init evs).2 = ms.map payloadOf) := by
  obtain ⟨s', _, _, _, _, h⟩ := rx_messages cfg hst ms {} [] ⟨rfl, rfl, rfl, rfl⟩ rfl rfl rfl hok
  simp only [List.append_nil, rx_nil, msgsOf] at h
  have h1 := queue_delivers_in_order cfg hst evs hp
  rw [hs, h] at h1
  refine ⟨h1, ?_⟩
  intro hw
  have h2 := queue_no_message_lost cfg hst evs hp hw
  rw [hs, h] at h2
  exact h2

/-! ### (b) cancellation -/

/-- (b) ws_read_cancel: the receive, if it was waiting, completes with the cancellation's error and NO data; the
    frames queued, the reassembly state, the in-flight read and the transport buffer are untouched - the receive
    takes nothing with it.  (With (a): the message it was waiting for goes to the next receive.) -/
theorem cancel_takes_nothing (q : QSt) (id rv : Nat) (hrv : rv ≠ 0) :
    (qCancel q id rv).1.w = q.w ∧ (qCancel q id rv).1.pend = q.pend ∧ (qCancel q id rv).1.used = q.used ∧
    (qCancel q id rv).1.rxframe = q.rxframe ∧
    (qCancel q id rv).1.recvq = q.recvq.filter (·.id != id) ∧
    delivered (qCancel q id rv).2 = [] ∧
    ((qCancel q id rv).2 = [] ∨ (qCancel q id rv).2 = [Out.done id rv []]) := by
  unfold qCancel
  split
  · refine ⟨rfl, rfl, rfl, rfl, rfl, ?_, Or.inr rfl⟩
    cases rv with
    | zero => exact absurd rfl hrv
    | succ n => rfl
  · rename_i h
    refine ⟨rfl, rfl, rfl, rfl, ?_, rfl, Or.inl rfl⟩
    simp only [Bool.not_eq_true, List.any_eq_false] at h
    symm
    rw [List.filter_eq_self]
    intro a ha
    have := h a ha
    simp only [bne_iff_ne, ne_eq]
    intro e; simp [e] at this

/-! ### (c) back-pressure -/

/-- (c) what is buffered.  At every point of every interleaving (message mode, no user close): the bytes consumed
    from the transport (`used`; the rest of the stream is still in `pend`) decode to exactly the messages delivered
    plus AT MOST ONE complete message held in rxq; while one is held, no frame read is outstanding and no receive
    waits; and the frame layer's own state is that of the always-posted model on the consumed bytes (`absW`: the
    frames in rxq are the fragments of the ONE message being assembled, or the one complete message held); the
    frames written (PONG replies, the CLOSE of a protocol failure) are those of the always-posted model on the
    consumed bytes: a PING is answered when - and only when - it is read. -/
theorem queue_backpressure (cfg : Cfg) (hst : cfg.isstream = false) (evs : List QEv) (hp : ∀ e ∈ evs, e.plain) :
    (run cfg init evs).1.used ++ (run cfg init evs).1.pend = streamOf evs ∧
    msgsOf (rx cfg {} (run cfg init evs).1.used).2 = delivered (run cfg init evs).2 ++ held (run cfg init evs).1 ∧
    (held (run cfg init evs).1).length ≤ 1 ∧
    (held (run cfg init evs).1 ≠ [] → (run cfg init evs).1.w.want = 0 ∧ (run cfg init evs).1.recvq = []) ∧
    (rx cfg {} (run cfg init evs).1.used).1 = absW (run cfg init evs).1 ∧
    txOfQ (run cfg init evs).2 = txOf (rx cfg {} (run cfg init evs).1.used).2 := by
  obtain ⟨hg, hq, hs⟩ := good_run cfg hst evs init [] (good_init cfg) (Or.inl rfl) hp
  simp only [List.nil_append] at hg
  refine ⟨by simpa [init] using hs, hg.msgs, ?_, ?_, hg.st, hg.tx.symm⟩
  · unfold held; split <;> simp
  · intro hh
    unfold held at hh
    split at hh
    · rename_i h; have := hg.inv.heldPaused h.1 h.2; exact ⟨this.2, this.1⟩
    · exact absurd rfl hh

/-- (c) the pause rule itself: with no receive waiting and a data frame queued, ws_start_read issues nothing ... -/
theorem pause_rule (q : QSt) (h1 : q.recvq = []) (h2 : q.w.rxq ≠ []) : qStartRead q = q := by
  unfold qStartRead
  split
  · rfl
  · have : (q.recvq.isEmpty && !q.w.rxq.isEmpty) = true := by
      simp [h1]; exact h2
    rw [if_pos this]

/-- ... and while no read is outstanding NOTHING that arrives is looked at - data frames, PINGs (no PONG is sent),
    CLOSE frames and garbage alike stay in the transport buffer until a receive is posted -/
theorem paused_reads_nothing (cfg : Cfg) (q : QSt) (h : q.w.want = 0) (bs : Bytes) :
    step cfg q (.bytes bs) = ({ q with pend := q.pend ++ bs }, []) := by
  simp only [step]
  unfold pump
  simp [h]

/-- (c) for ALL events (user close included): while a complete message waits in rxq no frame read is outstanding
    and nobody waits - so at most that one message plus nothing else is buffered -/
theorem complete_message_pauses_reading (cfg : Cfg) (hst : cfg.isstream = false) (evs : List QEv) :
    (run cfg init evs).1.w.inmsg = false → (run cfg init evs).1.w.rxq ≠ [] →
      (run cfg init evs).1.w.want = 0 ∧ (run cfg init evs).1.recvq = [] := by
  intro a b
  have := (G_run cfg evs init (G_init cfg)).heldPaused hst a b
  exact ⟨this.2, this.1⟩

/-! ### stream mode (ws_read_finish_str; the message-mode option off - not used by the SP transport) -/

/-- (a, stream mode) the bytes the receives complete with - each receive gets at most its buffer size, a frame may
    be split over several receives, several frames may fill one receive - are, concatenated in completion order, a
    prefix of the data-frame payloads of the byte stream (`Str.dataOf` of the always-posted model: every non-empty
    data frame, in order), for every interleaving of arrivals, postings and cancellations. -/
theorem queue_stream_delivers_in_order (cfg : Cfg) (hst : cfg.isstream = true) (evs : List QEv) (hp : ∀ e ∈ evs, e.plain) :
    (delivered (run cfg init evs).2).flatten <+: Str.dataOf (rx cfg {} (streamOf evs)).2 := by
  obtain ⟨hg, hq, hs⟩ := Str.goodS_run cfg hst evs init [] (Str.goodS_init cfg) (Or.inl rfl) hp
  have hf := (Str.goodS_final cfg _ _ (streamOf evs) hg hq (by simpa [init] using hs)).1
  simp only [List.nil_append, Str.bytesOf] at hf
  exact ⟨_, by rw [hf, List.append_assoc]⟩

/-- (a/b, stream mode) no byte is lost or withheld: while a receive waits, every payload byte that arrived has been
    delivered; in general the bytes consumed from the transport decode to the bytes delivered followed by what is
    left in rxq, and rxq is empty whenever a frame read is outstanding (back-pressure: at most the frames read
    before the last waiter left are buffered). -/
theorem queue_stream_no_byte_lost (cfg : Cfg) (hst : cfg.isstream = true) (evs : List QEv) (hp : ∀ e ∈ evs, e.plain) :
    Str.dataOf (rx cfg {} (run cfg init evs).1.used).2 = (delivered (run cfg init evs).2).flatten ++ (run cfg init evs).1.w.rxq.flatten ∧
    ((run cfg init evs).1.w.want ≠ 0 → (run cfg init evs).1.w.rxq = []) ∧
    ((run cfg init evs).1.recvq ≠ [] →
      (delivered (run cfg init evs).2).flatten = Str.dataOf (rx cfg {} (streamOf evs)).2) := by
  obtain ⟨hg, hq, hs⟩ := Str.goodS_run cfg hst evs init [] (Str.goodS_init cfg) (Or.inl rfl) hp
  obtain ⟨hf, hz⟩ := Str.goodS_final cfg _ _ (streamOf evs) hg hq (by simpa [init] using hs)
  simp only [List.nil_append, Str.bytesOf] at hf hg
  refine ⟨by simpa [Str.bytesOf] using hg.data, hg.inv.readEmpty, ?_⟩
  intro hw
  have hc : (run cfg init evs).1.w.closed = false := by
    cases hcl : (run cfg init evs).1.w.closed
    · rfl
    · exact absurd (hg.inv.closedIdle hcl).1 hw
  obtain ⟨z1, z2⟩ := hz (Or.inl (hg.inv.waitReads hc hw))
  rw [hf, z1, z2]; simp

/-! ### (d) close and teardown -/

/-- (d) ws_close (user close, protocol failure, peer close): every waiting receive completes with NNG_ECLOSED and
    no data - exactly those, in queue order, followed only by the CLOSE frame; nobody waits afterwards; the queued
    frames stay queued (they are released by ws_fini, or taken by a later receive if they form a complete message) -/
theorem close_fails_every_waiter (cfg : Cfg) (q : QSt) (code : Nat) :
    (qClose cfg q code).1.recvq = [] ∧ (qClose cfg q code).1.w.closed = true ∧
    (qClose cfg q code).1.w.rxq = q.w.rxq ∧
    ∃ t, (qClose cfg q code).2 = (q.recvq.map fun r => Out.done r.id closeErr []) ++ t ∧ ∀ o ∈ t, ∃ b, o = Out.tx b :=
  close_fails_waiters cfg q code

/-- (d) on a closed connection no receive ever waits (all events, both modes): a receive posted after close completes
    at once - with NNG_ECLOSED, or with the complete message that was already queued -/
theorem closed_nobody_waits (cfg : Cfg) (evs : List QEv) :
    (run cfg init evs).1.w.closed = true → (run cfg init evs).1.recvq = [] :=
  (G_run cfg evs init (G_init cfg)).closedNoWait

/-- (d, ownership) every ws_frame allocated by ws_start_read is, at every point of every interleaving (both modes),
    either queued in rxq, the rxframe, or released; ws_fini releases all of them and fails what still waits -/
theorem frames_owned_and_released (cfg : Cfg) (evs : List QEv) :
    ∀ q, q = (run cfg init evs).1 →
    q.allocs = q.frees + q.w.rxq.length + (if q.rxframe then 1 else 0) ∧
    (qFini cfg q).1.allocs = (qFini cfg q).1.frees ∧ (qFini cfg q).1.recvq = [] ∧ (qFini cfg q).1.w.rxq = [] ∧
    (qFini cfg q).1.rxframe = false := by
  intro q hq
  have hg := G_run cfg evs init (G_init cfg)
  rw [← hq] at hg
  refine ⟨?_, fini_releases cfg q hg⟩
  have := hg.own
  simp only [live] at this
  omega

/-! ### non-vacuity -/

def exCfg : Cfg := { server := false }
/-- "he" (BINARY, no FIN) + "llo" (CONT, FIN) + "second" (BINARY, FIN), unmasked (toward a client) -/
def exWire : Bytes := [2, 2, 104, 101, 128, 3, 108, 108, 111, 130, 6, 115, 101, 99, 111, 110, 100]

/-- the interleaving on which the seeded fault C16-2A merges two messages: a receive is posted and cancelled, the
    fragmented message and the next one arrive with no receive posted, then two receives: the model delivers the two
    messages separately, consumes only the first while nobody waits, and `queue_reassembles`' hypotheses hold -/
example :
    delivered (run exCfg init [.post 0 0, .cancel 0 20, .bytes exWire, .post 1 0, .post 2 0]).2 =
      [[104, 101, 108, 108, 111], [115, 101, 99, 111, 110, 100]] := by decide
/-- ... with nobody waiting reading pauses after the FIRST fragment (4 bytes consumed of 17) -/
example : (run exCfg init [.post 0 0, .cancel 0 20, .bytes exWire]).1.used.length = 4 := by decide
/-- a receive cancelled in mid-message: the frame in flight is still read, the message completes, is held (9 bytes
    consumed, the second message stays in the transport), and goes to the next receive -/
example : held (run exCfg init [.post 0 0, .bytes [2, 2, 104, 101], .cancel 0 5, .bytes (exWire.drop 4)]).1 = [[104, 101, 108, 108, 111]] ∧
    (run exCfg init [.post 0 0, .bytes [2, 2, 104, 101], .cancel 0 5, .bytes (exWire.drop 4)]).1.used.length = 9 ∧
    delivered (run exCfg init [.post 0 0, .bytes [2, 2, 104, 101], .cancel 0 5, .bytes (exWire.drop 4), .post 1 0]).2 = [[104, 101, 108, 108, 111]] := by
  decide
example : ∀ e ∈ [QEv.post 0 0, .cancel 0 20, .bytes exWire, .post 1 0, .post 2 0], e.plain := by
  intro e he; simp at he; rcases he with h | h | h | h | h <;> subst h <;> simp [QEv.plain]
example : msgsOf (rx exCfg {} exWire).2 = [[104, 101, 108, 108, 111], [115, 101, 99, 111, 110, 100]] := by decide
/-- `FragsOk` is satisfiable and `wireOf` is that stream -/
example : FragsOk exCfg [([], [0, 0, 0, 0], [104, 101]), ([], [0, 0, 0, 0], [108, 108, 111])] := by
  refine ⟨by simp, ?_, Or.inl rfl⟩
  intro p hp; simp at hp; rcases hp with h | h <;> subst h <;> simp [exCfg]
/-- stream mode: 3-byte buffers against a 4-byte and a 3-byte frame -/
example :
    delivered (run { server := false, isstream := true } init
      [.bytes [130, 4, 97, 98, 99, 100], .post 0 3, .post 1 3, .bytes [130, 3, 1, 2, 3], .post 2 9]).2 =
      [[97, 98, 99], [100], [1, 2, 3]] := by decide

end Nng.WsQ
