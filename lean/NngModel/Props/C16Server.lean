/-
  C16, HTTP SERVER layer (http_server.c) — property theorems (obligations).  Helper lemmas: Proofs/HttpServer.lean,
  Proofs/HttpServerEmit.lean.  Model: Model/HttpServer.lean.  Facts about the source (order of the checks, text of the
  handler loop, presence of the five repairs): Props/C16ServerSrc.lean.

  All statements are for ALL handler tables, ALL parsed requests (`HttpConn.Msg`, the type the connection layer's
  parsers produce) and ALL byte streams.  Statements that need the repaired code say `fixed`; the others hold for every
  value of the repair flags.
   (a) routing = the most specific matching handler; 404 / 405 / 413 / 400 / 501 / 505 exactly when …
   (b) what the server front writes is a complete response that the response parser reads back, with a
       Content-Length equal to the body a GET would get; HEAD never gets a body
   (c) the connection persists exactly when HTTP/1.1 without "close"; every request that cannot be delimited closes it
   (d) the events of a connection are a function of the byte stream: the reads may be cut in any way
-/
import NngModel.Proofs.HttpServer
import NngModel.Proofs.HttpServerEmit
import NngModel.Proofs.HttpConn
set_option linter.unusedSimpArgs false
namespace Nng.C16Server
open Nng Nng.HttpConn Nng.HttpSrv

/-! ## (a) the handler table and the lookup -/

/-- a table as a program builds it: nni_http_server_add_handler for each handler, failures (EINVAL, EADDRINUSE) leave
    the table unchanged -/
def build (hs : List Handler) : List Handler :=
  hs.foldl (fun t h => match addHandler t h with | .ok t' => t' | .error _ => t) []

theorem build_sorted_from (hs : List Handler) : ∀ t, Sorted t →
    Sorted (hs.foldl (fun t h => match addHandler t h with | .ok t' => t' | .error _ => t) t) := by
  induction hs with
  | nil => intro t ht; exact ht
  | cons h r ih =>
    intro t ht
    rw [List.foldl_cons]
    cases ha : addHandler t h with
    | ok t' => exact ih t' (addHandler_sorted t t' h ht ha)
    | error e => exact ih t ht

/-- EVERY table the API can produce lists its handlers by uri in descending byte order ("longest uri first") -/
theorem table_is_sorted (hs : List Handler) : Sorted (build hs) := build_sorted_from hs [] List.Pairwise.nil

/-- a handler added later goes BEHIND the handlers with the same uri (registration order breaks ties), and in front
    of the first handler with a smaller uri -/
theorem registration_order_breaks_ties (t t' : List Handler) (h : Handler) (ha : addHandler t h = .ok t') :
    ∃ l1 l2, t' = l1 ++ h :: l2 ∧ t = l1 ++ l2 ∧ (∀ x ∈ l1, strGt h.uri x.uri = false) := by
  unfold addHandler at ha
  split at ha
  · cases ha
  · split at ha
    · cases ha
    · cases ha; exact insertSorted_after_equal h t

/-- what add_handler refuses: a uri that is neither empty nor starts with '/', and a handler that agrees with a
    registered one in host (case-insensitively), method and uri — the tree flag is not looked at -/
theorem add_handler_refusals (t : List Handler) (h : Handler) :
    (addHandler t h = .error Err.einval ↔ (h.uri ≠ [] ∧ h.uri.head? ≠ some SLASH)) ∧
    (addHandler t h = .error Err.eaddrinuse ↔
      (¬ (h.uri ≠ [] ∧ h.uri.head? ≠ some SLASH) ∧ ∃ h2 ∈ t, ieq h2.host h.host = true ∧ h2.method = h.method ∧ h.uri = h2.uri)) := by
  unfold addHandler conflicts
  by_cases h1 : (!h.uri.isEmpty && h.uri.head? != some SLASH) = true
  · have h1' : h.uri ≠ [] ∧ h.uri.head? ≠ some SLASH := by
      simp only [Bool.and_eq_true, Bool.not_eq_true', List.isEmpty_eq_false_iff, bne_iff_ne] at h1
      exact h1
    rw [if_pos h1]
    constructor
    · exact ⟨fun _ => h1', fun _ => rfl⟩
    · constructor
      · intro e; cases e
      · intro ⟨hn, _⟩; exact absurd h1' hn
  · have h1' : ¬ (h.uri ≠ [] ∧ h.uri.head? ≠ some SLASH) := by
      intro hc
      apply h1
      simp only [Bool.and_eq_true, Bool.not_eq_true', List.isEmpty_eq_false_iff, bne_iff_ne]
      exact hc
    rw [if_neg h1]
    by_cases h2 : (t.any fun h2 => ieq h2.host h.host && h2.method == h.method && h.uri == h2.uri) = true
    · rw [if_pos h2]
      constructor
      · constructor
        · intro e; cases e
        · intro hc; exact absurd hc h1'
      · refine ⟨fun _ => ⟨h1', ?_⟩, fun _ => rfl⟩
        obtain ⟨x, hx, hp⟩ := List.any_eq_true.1 h2
        simp only [Bool.and_eq_true, beq_iff_eq] at hp
        exact ⟨x, hx, hp.1.1, hp.1.2, hp.2⟩
    · rw [if_neg h2]
      constructor
      · constructor
        · intro e; cases e
        · intro hc; exact absurd hc h1'
      · constructor
        · intro e; cases e
        · intro ⟨_, x, hx, p1, p2, p3⟩
          exfalso
          apply h2
          apply List.any_eq_true.2
          exact ⟨x, hx, by simp [p1, p2, p3]⟩

/-- PATH RULE, stated independently of the code: a handler covers the request target when the target is its uri, its
    uri followed by "/", or — tree handlers only — begins with its uri followed by "/".  (Nothing else: "/apix" is
    not covered by "/api", and the query string is part of the target.) -/
theorem path_rule (h : Handler) (uri : Bytes) :
    pathMatch h uri = true ↔
      (uri = h.uri ∨ uri = h.uri ++ [SLASH] ∨ (h.tree = true ∧ ∃ rest, uri = h.uri ++ SLASH :: rest)) := by
  unfold pathMatch
  constructor
  · intro hm
    by_cases hp : (uri.take h.uri.length != h.uri) = true
    · simp only [hp, if_true] at hm; cases hm
    · have hp' : uri.take h.uri.length = h.uri := by simpa using hp
      have hsplit : uri = h.uri ++ uri.drop h.uri.length := by
        have := List.take_append_drop h.uri.length uri
        rw [hp'] at this; exact this.symm
      have hlen : h.uri.length ≤ uri.length := by
        have := congrArg List.length hp'
        simp [List.length_take] at this; omega
      simp only [hp, Bool.false_eq_true, if_false] at hm
      cases hd : uri.drop h.uri.length with
      | nil => left; rw [hd] at hsplit; simpa using hsplit
      | cons c rest =>
        have hget : uri[h.uri.length]? = some c := by
          have : (uri.drop h.uri.length)[0]? = some c := by rw [hd]; rfl
          rw [List.getElem?_drop] at this; simpa using this
        rw [hget] at hm
        simp only at hm
        by_cases hc : (c == SLASH) = true
        · rw [if_pos hc] at hm
          have hc' : c = SLASH := by simpa using hc
          subst hc'
          cases hr : rest with
          | nil => right; left; rw [hd, hr] at hsplit; exact hsplit
          | cons d rest2 =>
            have hget2 : uri[h.uri.length + 1]? = some d := by
              have : (uri.drop h.uri.length)[1]? = some d := by rw [hd, hr]; rfl
              rw [List.getElem?_drop] at this; simpa using this
            rw [hget2] at hm
            right; right
            refine ⟨by simpa using hm, d :: rest2, ?_⟩
            rw [hd, hr] at hsplit; exact hsplit
        · rw [if_neg hc] at hm; cases hm
  · rintro (e | e | ⟨ht, rest, e⟩)
    · subst e
      simp
    · subst e
      simp [SLASH]
    · subst e
      have h1 : (h.uri ++ SLASH :: rest)[h.uri.length]? = some SLASH := by simp
      simp only [List.take_left', bne_self_eq_false, Bool.false_eq_true, if_false, h1, beq_self_eq_true, if_true, ht, Bool.or_true]

/-- HOST RULE, stated independently: a handler without host takes every request; otherwise the request must carry a
    Host value that is, without regard to case, the handler's host, optionally followed by one "." or by ":" and
    anything (the port is not compared) -/
theorem host_rule (hh v : Bytes) :
    hostMatch hh (some v) = true ↔
      (hh = [] ∨ ((v.take hh.length).map lower = hh.map lower ∧
        (v.drop hh.length = [] ∨ v.drop hh.length = [0x2E] ∨ (v.drop hh.length).head? = some COLON))) := by
  unfold hostMatch
  by_cases he : hh.isEmpty = true
  · have : hh = [] := by simpa using he
    simp [this]
  · have hne : hh ≠ [] := by simpa using he
    simp only [he, Bool.false_eq_true, if_false]
    by_cases hp : ((v.take hh.length).map lower != hh.map lower) = true
    · have hp' : (v.take hh.length).map lower ≠ hh.map lower := by simpa using hp
      simp only [hp, if_true, Bool.false_eq_true, false_iff]
      rintro (e | ⟨e, _⟩)
      · exact hne e
      · exact hp' e
    · have hp' : (v.take hh.length).map lower = hh.map lower := by simpa using hp
      simp only [hp, Bool.false_eq_true, if_false]
      cases hd : v.drop hh.length with
      | nil =>
        have : v[hh.length]? = none := by
          have : (v.drop hh.length)[0]? = none := by rw [hd]; rfl
          rw [List.getElem?_drop] at this; simpa using this
        simp [this, hp']
      | cons c rest =>
        have hget : v[hh.length]? = some c := by
          have : (v.drop hh.length)[0]? = some c := by rw [hd]; rfl
          rw [List.getElem?_drop] at this; simpa using this
        rw [hget]
        simp only
        by_cases hc : (c == COLON) = true
        · have : c = COLON := by simpa using hc
          simp [hc, this, hp']
        · rw [if_neg hc]
          have hc' : c ≠ COLON := by simpa using hc
          by_cases hdot : (c == 0x2E) = true
          · have hcd : c = 0x2E := by simpa using hdot
            rw [if_pos hdot]
            cases hr : rest with
            | nil =>
              have : v[hh.length + 1]? = none := by
                have : (v.drop hh.length)[1]? = none := by rw [hd, hr]; rfl
                rw [List.getElem?_drop] at this; simpa using this
              simp [this, hp', hcd]
            | cons d r2 =>
              have : v[hh.length + 1]? = some d := by
                have : (v.drop hh.length)[1]? = some d := by rw [hd, hr]; rfl
                rw [List.getElem?_drop] at this; simpa using this
              rw [this]
              simp only [beq_iff_eq, reduceCtorEq, false_iff]
              rintro (e | ⟨_, e | e | e⟩)
              · exact hne e
              · cases e
              · cases e
              · simp only [List.head?_cons, Option.some.injEq] at e; exact hc' e
          · rw [if_neg hdot]
            have hcd : c ≠ 0x2E := by simpa using hdot
            simp only [Bool.false_eq_true, false_iff]
            rintro (e | ⟨_, e | e | e⟩)
            · exact hne e
            · cases e
            · simp only [List.cons.injEq] at e; exact hcd e.1
            · simp only [List.head?_cons, Option.some.injEq] at e; exact hc' e

/-- a request without a Host value is taken only by handlers without host (HTTP/1.0) -/
theorem host_rule_absent (hh : Bytes) : hostMatch hh none = true ↔ hh = [] := by
  unfold hostMatch
  by_cases he : hh.isEmpty = true
  · have : hh = [] := by simpa using he
    simp [this]
  · have hne : hh ≠ [] := by simpa using he
    simp [he, hne]

/-- LOOKUP = the loop of http_sconn_rxdone and the code after it, in closed form: the FIRST eligible handler of the
    table; if there is none and the request is HEAD, the LAST GET candidate; else 405 when some handler covers host
    and path, else 404 -/
theorem lookup_closed_form (t : List Handler) (meth : Bytes) (host : Option Bytes) (uri : Bytes) :
    findHandler t meth host uri =
      match t.find? (elig meth host uri) with
      | some h => .ok h
      | none =>
        match (t.filter (headGet meth host uri)).getLast? with
        | some h => .ok h
        | none => .error (if t.any (fun h => cand host uri h && !headGet meth host uri h) then stMethodNotAllowed else stNotFound) := by
  rw [findHandler_eq_finish, findGo_spec]
  cases t.find? (elig meth host uri) with
  | some h => rfl
  | none =>
    simp only [Bool.false_or]
    cases (t.filter (headGet meth host uri)).getLast? <;> rfl

/-- LOOKUP = SPECIFICATION (the promise of nng_http_handler_set_tree: "matched if the request URI is a logical child of
    the path and no more specific handler has been registered"): in every table the API can build, when some handler
    is eligible for the request (host, path, method), the handler chosen is eligible and NO eligible handler has a
    longer uri -/
theorem lookup_most_specific (t : List Handler) (hs : Sorted t) (meth : Bytes) (host : Option Bytes) (uri : Bytes)
    (hex : ∃ x ∈ t, elig meth host uri x = true) :
    ∃ h, findHandler t meth host uri = .ok h ∧ h ∈ t ∧ elig meth host uri h = true ∧
      ∀ h' ∈ t, elig meth host uri h' = true → h'.uri.length ≤ h.uri.length := by
  rw [lookup_closed_form]
  obtain ⟨x, hx, hxe⟩ := hex
  cases hf : t.find? (elig meth host uri) with
  | none =>
    have := List.find?_eq_none.1 hf x hx
    rw [hxe] at this; exact absurd rfl this
  | some h =>
    have hel : elig meth host uri h = true := List.find?_some hf
    have hmem : h ∈ t := List.mem_of_find?_eq_some hf
    refine ⟨h, rfl, hmem, hel, ?_⟩
    intro h' hm' he'
    obtain ⟨l1, l2, e, hno⟩ := List.find?_eq_some_iff_append.1 hf |>.2
    -- h' is not in l1 (nothing eligible there), so it is h or behind h
    have hp : uri.take h.uri.length = h.uri := by
      have : pathMatch h uri = true := by
        simp only [elig, cand, Bool.and_eq_true] at hel; exact hel.1.2
      exact pathMatch_prefix h uri this
    have hp' : uri.take h'.uri.length = h'.uri := by
      have : pathMatch h' uri = true := by
        simp only [elig, cand, Bool.and_eq_true] at he'; exact he'.1.2
      exact pathMatch_prefix h' uri this
    rw [e] at hm' hs
    rcases List.mem_append.1 hm' with hin | hin
    · have := hno h' hin
      rw [he'] at this; simp at this
    · rcases List.mem_cons.1 hin with e2 | e2
      · subst e2; exact Nat.le_refl _
      · have hpw : strGt h'.uri h.uri = false := by
          have h2 := (List.pairwise_append.1 hs).2.1
          exact (List.pairwise_cons.1 h2).1 h' e2
        exact prefix_order uri h.uri h'.uri hp hp' hpw

/-- HEAD without a HEAD-capable handler goes to a GET handler — and, as the code has it, to the LEAST specific GET
    candidate: no GET candidate has a SHORTER uri.  (docs/ref/api/http.md: "The server will automatically call GET
    handlers if the client sends a HEAD request"; see `head_is_not_routed_like_get`.) -/
theorem head_fallback_least_specific (t : List Handler) (hs : Sorted t) (meth : Bytes) (host : Option Bytes) (uri : Bytes)
    (hno : ∀ x ∈ t, elig meth host uri x = false) (hex : ∃ x ∈ t, headGet meth host uri x = true) :
    ∃ h, findHandler t meth host uri = .ok h ∧ h ∈ t ∧ headGet meth host uri h = true ∧
      ∀ h' ∈ t, headGet meth host uri h' = true → h.uri.length ≤ h'.uri.length := by
  rw [lookup_closed_form]
  have hf : t.find? (elig meth host uri) = none := by
    apply List.find?_eq_none.2
    intro x hx; rw [hno x hx]; simp
  rw [hf]
  obtain ⟨x, hx, hxe⟩ := hex
  have hne : t.filter (headGet meth host uri) ≠ [] := by
    intro e
    have : x ∈ t.filter (headGet meth host uri) := List.mem_filter.2 ⟨hx, hxe⟩
    rw [e] at this; cases this
  cases hl : (t.filter (headGet meth host uri)).getLast? with
  | none => exact absurd (List.getLast?_eq_none_iff.1 hl) hne
  | some h =>
    simp only
    have hmemf : h ∈ t.filter (headGet meth host uri) := List.mem_of_getLast? hl
    obtain ⟨hmem, hg⟩ := List.mem_filter.1 hmemf
    refine ⟨h, rfl, hmem, hg, ?_⟩
    intro h' hm' hg'
    have hpm : ∀ z, headGet meth host uri z = true → uri.take z.uri.length = z.uri := by
      intro z hz
      have : pathMatch z uri = true := by
        simp only [headGet, cand, Bool.and_eq_true] at hz; exact hz.1.1.2
      exact pathMatch_prefix z uri this
    -- the filtered list is sorted too, and h is its last element
    have hsf : (t.filter (headGet meth host uri)).Pairwise fun a b => strGt b.uri a.uri = false := List.Pairwise.filter _ hs
    obtain ⟨init, hinit⟩ : ∃ init, t.filter (headGet meth host uri) = init ++ [h] := by
      have := List.getLast?_eq_some_iff.1 hl
      exact this
    have hm'f : h' ∈ t.filter (headGet meth host uri) := List.mem_filter.2 ⟨hm', hg'⟩
    rw [hinit] at hm'f hsf
    rcases List.mem_append.1 hm'f with hin | hin
    · have hpw : strGt h.uri h'.uri = false := (List.pairwise_append.1 hsf).2.2 h' hin h (by simp)
      exact prefix_order uri h'.uri h.uri (hpm h' hg') (hpm h hg) hpw
    · simp only [List.mem_singleton] at hin; subst hin; exact Nat.le_refl _

/-- 404 exactly when no handler covers host and path; 405 exactly when some handler does, none takes the method, and
    the request is not a HEAD for which a GET handler is there -/
theorem not_found_and_method_not_allowed (t : List Handler) (meth : Bytes) (host : Option Bytes) (uri : Bytes) :
    (findHandler t meth host uri = .error stNotFound ↔ ∀ x ∈ t, cand host uri x = false) ∧
    (findHandler t meth host uri = .error stMethodNotAllowed ↔
      ((∃ x ∈ t, cand host uri x = true) ∧ (∀ x ∈ t, elig meth host uri x = false) ∧ (∀ x ∈ t, headGet meth host uri x = false))) := by
  have hne : stMethodNotAllowed ≠ stNotFound := by decide
  have candOf : ∀ x, elig meth host uri x = true → cand host uri x = true := by
    intro x hx; simp only [elig, Bool.and_eq_true] at hx; exact hx.1
  have candOfG : ∀ x, headGet meth host uri x = true → cand host uri x = true := by
    intro x hx; simp only [headGet, Bool.and_eq_true] at hx; exact hx.1.1
  rw [lookup_closed_form]
  cases hf : t.find? (elig meth host uri) with
  | some h =>
    have hel : elig meth host uri h = true := List.find?_some hf
    have hmem : h ∈ t := List.mem_of_find?_eq_some hf
    simp only [reduceCtorEq, false_iff]
    constructor
    · intro hall; have := hall h hmem; rw [candOf h hel] at this; cases this
    · intro ⟨_, hall, _⟩; have := hall h hmem; rw [hel] at this; cases this
  | none =>
    have hnoel : ∀ x ∈ t, elig meth host uri x = false := by
      intro x hx
      have := List.find?_eq_none.1 hf x hx
      simpa using this
    cases hl : (t.filter (headGet meth host uri)).getLast? with
    | some h =>
      have hmemf : h ∈ t.filter (headGet meth host uri) := List.mem_of_getLast? hl
      obtain ⟨hmem, hg⟩ := List.mem_filter.1 hmemf
      simp only [reduceCtorEq, false_iff]
      constructor
      · intro hall; have := hall h hmem; rw [candOfG h hg] at this; cases this
      · intro ⟨_, _, hall⟩; have := hall h hmem; rw [hg] at this; cases this
    | none =>
      have hnog : ∀ x ∈ t, headGet meth host uri x = false := by
        intro x hx
        have hnil := List.getLast?_eq_none_iff.1 hl
        cases hq : headGet meth host uri x with
        | false => rfl
        | true =>
          have : x ∈ t.filter (headGet meth host uri) := List.mem_filter.2 ⟨hx, hq⟩
          rw [hnil] at this; cases this
      simp only
      by_cases hany : (t.any fun h => cand host uri h && !headGet meth host uri h) = true
      · rw [if_pos hany]
        obtain ⟨x, hx, hp⟩ := List.any_eq_true.1 hany
        simp only [Bool.and_eq_true] at hp
        constructor
        · constructor
          · intro e; injection e with e; exact absurd e hne
          · intro hall; have := hall x hx; rw [hp.1] at this; cases this
        · exact ⟨fun _ => ⟨⟨x, hx, hp.1⟩, hnoel, hnog⟩, fun _ => rfl⟩
      · rw [if_neg hany]
        have hnc : ∀ x ∈ t, cand host uri x = false := by
          intro x hx
          cases hq : cand host uri x with
          | false => rfl
          | true =>
            exfalso; apply hany
            apply List.any_eq_true.2
            exact ⟨x, hx, by simp [hq, hnog x hx]⟩
        constructor
        · exact ⟨fun _ => hnc, fun _ => rfl⟩
        · constructor
          · intro e; injection e with e; exact absurd e.symm hne
          · intro ⟨⟨x, hx, hc⟩, _, _⟩; rw [hnc x hx] at hc; cases hc

/-! ### code and documentation differ (witnesses) -/

instance : DecidableEq (Except Nat Handler) := fun a b =>
  match a, b with
  | .ok x, .ok y => if h : x = y then isTrue (by rw [h]) else isFalse (by intro e; cases e; exact h rfl)
  | .error x, .error y => if h : x = y then isTrue (by rw [h]) else isFalse (by intro e; cases e; exact h rfl)
  | .ok _, .error _ => isFalse (by intro e; cases e)
  | .error _, .ok _ => isFalse (by intro e; cases e)

def exApi : Handler := { id := 0, uri := asc "/api" }
def exApiTree : Handler := { id := 1, uri := asc "/api", tree := true }
def exApiV1 : Handler := { id := 2, uri := asc "/api/v1" }
def exSlashTree : Handler := { id := 3, uri := asc "/a/", tree := true }

/-- the sibling "/apix" is not covered by "/api", tree or not -/
theorem sibling_is_not_a_child :
    findHandler [exApiTree] sGET none (asc "/apix") = .error stNotFound ∧ findHandler [exApiTree] sGET none (asc "/api/x") = .ok exApiTree := by
  decide

/-- DISCREPANCY with docs/ref/api/http.md ("Only the path component of the Request URI is considered when determining
    whether the handler should be called"): the query string is part of what is compared, so an exact handler does not
    take its own path with a query; only tree handlers do, and only behind a "/".  Not a violation of the C16 text
    (routing is not part of it); recorded, mirrored by model and specification. -/
theorem query_string_is_compared :
    findHandler [exApi] sGET none (asc "/api?x=1") = .error stNotFound ∧ findHandler [exApiTree] sGET none (asc "/api?x=1") = .error stNotFound ∧
    findHandler [exApiTree] sGET none (asc "/api/?x=1") = .ok exApiTree := by
  decide

/-- DISCREPANCY: GET /api/v1 goes to the exact handler, HEAD /api/v1 to the tree handler above it (`head = h` is
    overwritten by every later GET candidate).  Recorded; not part of the C16 text. -/
theorem head_is_not_routed_like_get :
    build [exApiTree, exApiV1] = [exApiV1, exApiTree] ∧
    findHandler (build [exApiTree, exApiV1]) sGET none (asc "/api/v1") = .ok exApiV1 ∧
    findHandler (build [exApiTree, exApiV1]) sHEAD none (asc "/api/v1") = .ok exApiTree := by
  decide

/-- a tree handler registered WITH a trailing slash covers "/a/" and "/a//x" but not "/a/x" -/
theorem trailing_slash_tree_has_no_children :
    findHandler [exSlashTree] sGET none (asc "/a/x") = .error stNotFound ∧ findHandler [exSlashTree] sGET none (asc "/a/") = .ok exSlashTree := by
  decide

/-- a handler with a host does not take precedence over a host-less handler with the same uri registered before it -/
theorem host_specific_handler_does_not_win :
    findHandler (build [exApi, { exApi with id := 9, host := asc "h" }]) sGET (some (asc "h")) (asc "/api") = .ok exApi := by
  decide

/-! ## (a, continued) the checks before a handler runs: which request gets which status -/

/-- outcome of the front checks of http_sconn_rxdone, in the order of the source -/
inductive Front where
  | parser (st : Nat)   -- the connection layer noted 400 (request line) / 414 / 431 (over-long line) / 505 (unknown version)
  | version             -- a known version that is not HTTP/1.x
  | target              -- the target does not begin with '/' (asterisk or authority form)
  | transfer            -- a Transfer-Encoding header
  | length              -- Content-Length is not a decimal number (repaired code only)
  | host (n : Nat)      -- HTTP/1.1 without Host; n = Content-Length
  | ok (n : Nat)        -- passed; n = Content-Length (0 if absent)
deriving Repr, DecidableEq

def front (f : Flags) (m : Msg) : Front :=
  if getStatus m ≥ HttpSrv.stBadRequest then .parser (getStatus m)
  else if m.vers.take 7 ≠ sHttp1x then .version
  else if (getUri m).head? ≠ some SLASH then .target
  else if (reqHeader m sTransferEncoding).isSome then .transfer
  else
    match clenStep f m with
    | none => .length
    | some n => if (reqHeader m sHost).isNone && m.vers == sHttp11 then .host n else .ok n

/-- does the client allow the connection to persist: HTTP/1.1 and no "close" (any case, anywhere) in Connection -/
def clientKeeps (m : Msg) : Bool :=
  m.vers == sHttp11 && !(match reqHeader m sConnection with
                         | some v => caseContains v sClose
                         | none => false)

/-- DECISION TABLE of http_sconn_rxdone — the exact condition of every status: for every table, request, flag value and
    previous sc->close -/
theorem rx_decision_table (f : Flags) (t : List Handler) (m : Msg) (close : Bool) :
    rxDecide f t m close =
      match front f m with
      | .parser st => ⟨.error st, close || f.parseErrorCloses, 0⟩
      | .version => ⟨.error HttpSrv.stVersionNotSupp, true, 0⟩
      | .target => ⟨.error HttpSrv.stBadRequest, true, 0⟩
      | .transfer => ⟨.error stNotImplemented, true, 0⟩
      | .length => ⟨.error HttpSrv.stBadRequest, true, 0⟩
      | .host n => ⟨.error HttpSrv.stBadRequest, close || !clientKeeps m, n⟩
      | .ok n =>
        match findHandler t m.meth (reqHeader m sHost) (getUri m) with
        | .error st => ⟨.error st, close || !clientKeeps m, n⟩
        | .ok h => bodyStep h (close || !clientKeeps m) n := by
  have hk : ∀ c1 : Bool, (close || !(m.vers == sHttp11) || c1) = (close || !(m.vers == sHttp11 && !c1)) := by
    intro c1; cases close <;> cases (m.vers == sHttp11) <;> cases c1 <;> rfl
  unfold rxDecide front
  by_cases h1 : getStatus m ≥ HttpSrv.stBadRequest
  · rw [if_pos h1, if_pos h1]
  · rw [if_neg h1, if_neg h1]
    by_cases h2 : m.vers.take 7 ≠ sHttp1x
    · rw [if_pos h2, if_pos h2]
    · rw [if_neg h2, if_neg h2]
      simp only
      by_cases h3 : (getUri m).head? ≠ some SLASH
      · rw [if_pos h3, if_pos h3]
      · rw [if_neg h3, if_neg h3]
        by_cases h4 : (reqHeader m sTransferEncoding).isSome = true
        · rw [if_pos h4, if_pos h4]
        · rw [if_neg h4, if_neg h4]
          cases hc : clenStep f m with
          | none => rfl
          | some n =>
            simp only
            by_cases h5 : ((reqHeader m sHost).isNone && m.vers == sHttp11) = true
            · rw [if_pos h5, if_pos h5]
              simp only [clientKeeps, hk]
              rfl
            · rw [if_neg h5, if_neg h5]
              simp only [clientKeeps, hk]
              rfl

/-- the body limit: with the handler `h` found and a declared length `n`, the handler gets the body only if it
    collects bodies and 0 < n ≤ its limit; beyond the limit the answer is 413; otherwise the handler runs without a
    body and the n bytes are skipped after its answer -/
theorem body_limit (h : Handler) (c : Bool) (n : Nat) :
    ((bodyStep h c n).d = .error stContentTooLarge ↔ (h.getbody = true ∧ n > h.maxbody)) ∧
    (∀ h' k, (bodyStep h c n).d = .body h' k ↔ (h' = h ∧ k = n ∧ h.getbody = true ∧ 0 < n ∧ n ≤ h.maxbody)) ∧
    (∀ h', (bodyStep h c n).d = .run h' ↔ (h' = h ∧ (h.getbody = false ∨ n = 0))) ∧
    (bodyStep h c n).close = c ∧
    (bodyStep h c n).unconsumed = (if h.getbody = true ∧ 0 < n ∧ n ≤ h.maxbody then 0 else n) := by
  unfold bodyStep
  by_cases hg : h.getbody = true
  · by_cases hn : n > 0
    · by_cases hm : n > h.maxbody
      · have hc1 : (h.getbody && decide (n > 0)) = true := by simp [hg, hn]
        have hc2 : ¬ (h.getbody = true ∧ 0 < n ∧ n ≤ h.maxbody) := by omega
        rw [if_pos hc1, if_pos hm, if_neg hc2]
        refine ⟨⟨fun _ => ⟨hg, hm⟩, fun _ => rfl⟩, ?_, ?_, rfl, rfl⟩
        · intro h' k; constructor
          · intro e; cases e
          · rintro ⟨_, _, _, _, h5⟩; omega
        · intro h'; constructor
          · intro e; cases e
          · rintro ⟨_, h5 | h5⟩
            · rw [hg] at h5; cases h5
            · omega
      · have hc1 : (h.getbody && decide (n > 0)) = true := by simp [hg, hn]
        have hc2 : h.getbody = true ∧ 0 < n ∧ n ≤ h.maxbody := ⟨hg, hn, by omega⟩
        rw [if_pos hc1, if_neg hm, if_pos hc2]
        refine ⟨⟨fun e => (by cases e), fun ⟨_, h5⟩ => absurd h5 hm⟩, ?_, ?_, rfl, rfl⟩
        · intro h' k; constructor
          · intro e; injection e with e1 e2; exact ⟨e1.symm, e2.symm, hc2⟩
          · rintro ⟨e1, e2, _⟩; rw [e1, e2]
        · intro h'; constructor
          · intro e; cases e
          · rintro ⟨_, h5 | h5⟩
            · rw [hg] at h5; cases h5
            · omega
    · have h0 : n = 0 := by omega
      have hc1 : ¬ ((h.getbody && decide (n > 0)) = true) := by simp [hn]
      have hc2 : ¬ (h.getbody = true ∧ 0 < n ∧ n ≤ h.maxbody) := by omega
      rw [if_neg hc1, if_neg hc2]
      refine ⟨⟨fun e => (by cases e), fun ⟨_, h5⟩ => by omega⟩, ?_, ?_, rfl, rfl⟩
      · intro h' k; constructor
        · intro e; cases e
        · rintro ⟨_, _, _, h5, _⟩; omega
      · intro h'; constructor
        · intro e; injection e with e; exact ⟨e.symm, Or.inr h0⟩
        · rintro ⟨e, _⟩; rw [e]
  · have hg' : h.getbody = false := by simpa using hg
    have hc1 : ¬ ((h.getbody && decide (n > 0)) = true) := by simp [hg']
    have hc2 : ¬ (h.getbody = true ∧ 0 < n ∧ n ≤ h.maxbody) := fun ⟨h5, _⟩ => hg h5
    rw [if_neg hc1, if_neg hc2]
    refine ⟨⟨fun e => (by cases e), fun ⟨h5, _⟩ => absurd h5 hg⟩, ?_, ?_, rfl, rfl⟩
    · intro h' k; constructor
      · intro e; cases e
      · rintro ⟨_, _, h5, _⟩; exact absurd h5 hg
    · intro h'; constructor
      · intro e; injection e with e; exact ⟨e.symm, Or.inl hg'⟩
      · rintro ⟨e, _⟩; rw [e]

/-- 413 is decided BEFORE any body byte is read or delivered: whenever http_sconn_rxdone answers with an error status
    (413 included), the only things the server does with this request are writing the answer and possibly closing —
    no handler event, whatever bytes follow the head -/
theorem error_delivers_nothing (f : Flags) (srv : Server) (rd : Msg → Bytes → Head) (sc : SConn) (s : Bytes) (m : Msg) (n : Nat) (st : Nat)
    (hr : rd sc.m s = .done m n) (hd : (rxDecide f srv.handlers m sc.close).d = .error st) :
    ∀ e ∈ (serveOne f srv rd sc s).1, ∀ id a b c d, e ≠ .handler id a b c d := by
  intro e he id a b c d
  unfold serveOne at he
  rw [hr] at he
  simp only [hd] at he
  split at he
  · simp only [List.mem_append, List.mem_singleton] at he
    rcases he with he | he <;> (rw [he]; intro hc; cases hc)
  · split at he <;>
    · simp only [List.mem_singleton] at he
      rw [he]; intro hc; cases hc

/-! ## (c) persistence and the stream position -/

/-- KEEP-ALIVE RULE the code implements: a request that passed the front checks (or only lacks Host) leaves
    sc->close set exactly when it was set before, or the request is not HTTP/1.1, or its Connection header contains
    "close" in any case at any position (a substring test: "x-close-y" closes too) -/
theorem keep_alive_rule (f : Flags) (t : List Handler) (m : Msg) (close : Bool)
    (hp : ∃ n, front f m = .ok n ∨ front f m = .host n) :
    (rxDecide f t m close).close = (close || !clientKeeps m) := by
  rw [rx_decision_table]
  obtain ⟨n, hp | hp⟩ := hp
  · rw [hp]
    simp only
    cases findHandler t m.meth (reqHeader m sHost) (getUri m) with
    | error st => rfl
    | ok h => exact (body_limit h _ n).2.2.2.1
  · rw [hp]

/-- REPAIRED CODE: every request that cannot be delimited — rejected by the parser (400 / 414 / 431 / 505), not
    HTTP/1.x, target not in origin form, Transfer-Encoding, Content-Length not a number — closes the connection after
    its answer, and nothing of what follows it is read -/
theorem undelimited_request_closes (t : List Handler) (m : Msg) (close : Bool)
    (hp : ∀ n, front fixed m ≠ .ok n ∧ front fixed m ≠ .host n) :
    (rxDecide fixed t m close).close = true ∧ ∃ st, (rxDecide fixed t m close).d = .error st := by
  rw [rx_decision_table]
  cases hf : front fixed m with
  | parser st => simp [fixed]
  | version => simp
  | target => simp
  | transfer => simp
  | length => simp
  | host n => exact absurd hf (hp n).2
  | ok n => exact absurd hf (hp n).1

theorem dropWhile_nil_iff (p : UInt8 → Bool) (l : Bytes) : l.dropWhile p = [] ↔ ∀ x ∈ l, p x = true := by
  induction l with
  | nil => simp
  | cons a r ih => by_cases h : p a = true <;> simp [List.dropWhile_cons, h, ih]

theorem digit_not_space_or_sign : ∀ c : UInt8, isDigit c = true → isSpaceC c = false ∧ (c == 0x2D) = false ∧ (c == 0x2B) = false := by
  apply UrlProofs.forall_uint8; decide +kernel

/-- the repaired Content-Length test: digits only, at least one -/
theorem content_length_rule (m : Msg) (cls : Bytes) (hh : reqHeader m sContentLength = some cls) :
    (clenStep fixed m).isSome = true ↔ (cls ≠ [] ∧ ∀ c ∈ cls, isDigit c = true) := by
  unfold clenStep
  rw [hh]
  simp only [fixed, if_true]
  cases cls with
  | nil => simp
  | cons c r =>
    simp only [ne_eq, reduceCtorEq, not_false_eq_true, true_and, List.mem_cons, forall_eq_or_imp]
    by_cases hc : isDigit c = true
    · simp only [hc, Bool.true_and, true_and]
      obtain ⟨hsp, hs1, hs2⟩ := digit_not_space_or_sign c hc
      have hrest : (strtoull (c :: r)).2 = (c :: r).dropWhile isDigit := by
        unfold strtoull
        simp only [List.dropWhile_cons, hsp, Bool.false_eq_true, if_false, hs1, hs2, List.takeWhile_cons, hc, if_true,
          List.isEmpty_cons]
      rw [hrest]
      simp only [List.dropWhile_cons, hc, if_true]
      constructor
      · intro h
        have hnil : r.dropWhile isDigit = [] := by
          cases hq : r.dropWhile isDigit with
          | nil => rfl
          | cons a b => rw [hq] at h; simp at h
        exact (dropWhile_nil_iff isDigit r).1 hnil
      · intro h
        have : r.dropWhile isDigit = [] := (dropWhile_nil_iff isDigit r).2 h
        simp [this]
    · have hc' : isDigit c = false := by simpa using hc
      simp [hc']

def exOff : Flags := ⟨false, false, false, false, false, true⟩
def exPost : Msg := { meth := asc "POST", uri := some (asc "/x"), reqHdrs := [⟨sHost, asc "h", 1⟩, ⟨sContentLength, asc "3x", 3⟩] }
def exBad : Msg := { code := 400, reqHdrs := [⟨sContentLength, asc "28", 3⟩] }

/-- REQUEST-SMUGGLING TERRITORY in the unrepaired code (all flags off): "Content-Length: 3x" is taken as 3 and the
    request accepted; a request line without separators is answered 400 and the connection stays open, so the bytes
    after its head — a body it may have announced — are parsed as the next request -/
theorem unrepaired_code_keeps_uncertain_connections :
    front exOff exPost = .ok 3 ∧ front fixed exPost = .length ∧
    (rxDecide exOff [] exBad false).close = false ∧ (rxDecide exOff [] exBad false).unconsumed = 0 ∧
    (rxDecide fixed [] exBad false).close = true := by
  decide

/-- REPAIRED CODE: the connection loop goes on after a request only at a CERTAIN stream position — the request passed
    the front checks (or only lacks Host), and the next request is read exactly behind the head and the declared
    Content-Length bytes (delivered to the handler, or skipped) -/
theorem next_request_starts_after_declared_body (srv : Server) (rd : Msg → Bytes → Head) (sc sc' : SConn) (s s' : Bytes)
    (evs : List Ev) (h : serveOne fixed srv rd sc s = (evs, some (sc', s'))) :
    ∃ m n len, rd sc.m s = .done m n ∧ (front fixed m = .ok len ∨ front fixed m = .host len) ∧ len ≤ (s.drop n).length ∧
      s' = s.drop (n + len) ∧ sc'.close = false := by
  have key : ∀ (evs0 : List Ev) (m' : Msg) (ie c : Bool) (rest' : Bytes) (disc : Nat),
      (if c = true then (evs0 ++ [Ev.close], (none : Option (SConn × Bytes)))
       else if disc > rest'.length then (evs0, none)
       else (evs0, some ({ m := m', close := c, iserr := ie }, rest'.drop disc))) = (evs, some (sc', s')) →
      c = false ∧ disc ≤ rest'.length ∧ s' = rest'.drop disc ∧ sc'.close = false := by
    intro evs0 m' ie c rest' disc hq
    by_cases hc : c = true
    · rw [if_pos hc] at hq; cases hq
    · rw [if_neg hc] at hq
      by_cases hd : disc > rest'.length
      · rw [if_pos hd] at hq; cases hq
      · rw [if_neg hd] at hq
        have hcf : c = false := by simpa using hc
        injection hq with _ h2
        injection h2 with h2
        injection h2 with h3 h4
        exact ⟨hcf, by omega, h4.symm, by rw [← h3]; exact hcf⟩
  unfold serveOne at h
  cases hr : rd sc.m s with
  | more => rw [hr] at h; cases h
  | fail rv => rw [hr] at h; cases h
  | done m n =>
    rw [hr] at h
    simp only at h
    rw [rx_decision_table] at h
    have dropdrop : ∀ a b : Nat, (s.drop a).drop b = s.drop (a + b) := by intro a b; rw [List.drop_drop]
    cases hf : front fixed m with
    | parser st =>
      rw [hf] at h
      have := (key _ _ _ _ _ _ h).1
      simp [fixed] at this
    | version => rw [hf] at h; exact absurd (key _ _ _ _ _ _ h).1 (by simp)
    | target => rw [hf] at h; exact absurd (key _ _ _ _ _ _ h).1 (by simp)
    | transfer => rw [hf] at h; exact absurd (key _ _ _ _ _ _ h).1 (by simp)
    | length => rw [hf] at h; exact absurd (key _ _ _ _ _ _ h).1 (by simp)
    | host len =>
      rw [hf] at h
      obtain ⟨_, h2, h3, h4⟩ := key _ _ _ _ _ _ h
      refine ⟨m, n, len, rfl, Or.inr hf, ?_, ?_, h4⟩
      · exact h2
      · rw [h3, dropdrop]
    | ok len =>
      rw [hf] at h
      simp only at h
      cases hfh : findHandler srv.handlers m.meth (reqHeader m sHost) (getUri m) with
      | error st =>
        rw [hfh] at h
        obtain ⟨_, h2, h3, h4⟩ := key _ _ _ _ _ _ h
        refine ⟨m, n, len, rfl, Or.inl hf, ?_, ?_, h4⟩
        · exact h2
        · rw [h3, dropdrop]
      | ok hd =>
        rw [hfh] at h
        simp only at h
        obtain ⟨b1, b2, b3, b4, b5⟩ := body_limit hd (sc.close || !clientKeeps m) len
        cases hbd : (bodyStep hd (sc.close || !clientKeeps m) len).d with
        | error st =>
          rw [hbd] at h
          obtain ⟨_, h2, h3, h4⟩ := key _ _ _ _ _ _ h
          have hcond : ¬ (hd.getbody = true ∧ 0 < len ∧ len ≤ hd.maxbody) := by
            intro hc
            have := (b2 hd len).2 ⟨rfl, rfl, hc⟩
            rw [hbd] at this; cases this
          have hu : (bodyStep hd (sc.close || !clientKeeps m) len).unconsumed = len := by rw [b5, if_neg hcond]
          rw [hu] at h2 h3
          refine ⟨m, n, len, rfl, Or.inl hf, ?_, ?_, h4⟩
          · exact h2
          · rw [h3, dropdrop]
        | body h' k =>
          rw [hbd] at h
          obtain ⟨e1, e2, hc⟩ := (b2 h' k).1 hbd
          simp only at h
          by_cases hk : k > (s.drop n).length
          · rw [if_pos hk] at h; cases h
          · rw [if_neg hk] at h
            obtain ⟨_, h2, h3, h4⟩ := key _ _ _ _ _ _ h
            have hu : (bodyStep hd (sc.close || !clientKeeps m) len).unconsumed = 0 := by rw [b5, if_pos hc]
            rw [hu] at h2 h3
            rw [e2] at hk h3
            refine ⟨m, n, len, rfl, Or.inl hf, ?_, ?_, h4⟩
            · omega
            · rw [h3, List.drop_zero, dropdrop]
        | run h' =>
          rw [hbd] at h
          obtain ⟨_, h2, h3, h4⟩ := key _ _ _ _ _ _ h
          have hcond : ¬ (hd.getbody = true ∧ 0 < len ∧ len ≤ hd.maxbody) := by
            intro hc
            have := (b2 hd len).2 ⟨rfl, rfl, hc⟩
            rw [hbd] at this; cases this
          have hu : (bodyStep hd (sc.close || !clientKeeps m) len).unconsumed = len := by rw [b5, if_neg hcond]
          rw [hu] at h2 h3
          refine ⟨m, n, len, rfl, Or.inl hf, ?_, ?_, h4⟩
          · exact h2
          · rw [h3, dropdrop]

/-! ## (b) what the server front writes is a complete, correctly delimited response -/

theorem reasons_clean : ∀ p ∈ reasons, ∀ c ∈ p.2, (0x20 : UInt8) ≤ c := by decide +kernel
theorem unknownReason_clean : ∀ c ∈ unknownReason, (0x20 : UInt8) ≤ c := by decide +kernel

theorem reasonOf_clean (code : Nat) : Clean (reasonOf code) := by
  unfold reasonOf
  cases hf : reasons.find? (fun p => p.1 == code) with
  | none => exact unknownReason_clean
  | some p => exact reasons_clean p (List.mem_of_find?_eq_some hf)

/-- GENERAL: a response whose fields are well-formed (`ResOk`: known version, three-digit status, reason and headers
    without control characters, header names without ':', values without blanks at the ends) and whose head fits the
    buffer is, whatever its body, decoded by the response parser to a COMPLETE head with the same status, reason and
    version, which ends exactly where the body begins -/
theorem answer_parses_back (m0 : Msg) (r : Res) (h0 : m0.parsedRes = false) (hok : ResOk r.m (getReason r.m))
    (hlen : (emitRes r.m (getReason r.m)).length < bufsz) :
    HttpSpec.decode (msem false) bufsz marker m0 (wire r) =
        .done (parsedBackRes m0 r.m (getReason r.m)) (emitRes r.m (getReason r.m)).length ∧
      (wire r).drop (emitRes r.m (getReason r.m)).length = r.body ∧
      (parsedBackRes m0 r.m (getReason r.m)).code = getStatus r.m ∧
      (parsedBackRes m0 r.m (getReason r.m)).rsn = some (getReason r.m) ∧
      (parsedBackRes m0 r.m (getReason r.m)).vers = r.m.vers := by
  obtain ⟨g1, g2, g3⟩ := replayRes_fields r.m.resHdrs (statusMsg m0 r.m (getReason r.m))
  refine ⟨decode_emitRes m0 r.m (getReason r.m) r.body h0 hok hlen, ?_, g1, g2, g3⟩
  unfold wire
  rw [List.drop_left']
  rfl

/-- … and through the read path of a client connection, for EVERY way the bytes are cut into reads -/
theorem answer_read_back (r : Res) (hok : ResOk r.m (getReason r.m)) (hlen : (emitRes r.m (getReason r.m)).length < bufsz)
    (chunks : List Bytes) (hch : chunks.flatten = wire r) :
    modelOut (runRead false {} chunks) = .done (parsedBackRes {} r.m (getReason r.m)) (emitRes r.m (getReason r.m)).length := by
  have := runRead_decode false (by decide) {} chunks rfl (by decide)
  simp only [List.nil_append, Bool.false_eq_true, if_false] at this
  rw [this, hch, (answer_parses_back {} r rfl hok hlen).1]
  rfl

/-- the body of the error page for a status: the page configured for it, else the default page -/
def errorBodyOf (pages : List (Nat × Bytes)) (st : Nat) : Bytes :=
  ((pages.find? fun p => p.1 == st).map (·.2)).getD (page st (reasonOf st) none)

def hCtype : Hdr := { name := sContentType, value := pageCtype.take (ctypeSize - 1), tag := 2 }
def hClen (n : Nat) : Hdr := { name := sContentLength, value := (decimal n).take (clenSize - 1), tag := 3 }
def hConn : Hdr := { name := sConnection, value := sClose, tag := 5 }

/-- SHAPE of an error answer of the server front (repaired code; the response headers are empty when a request has
    just been read): status and built-in reason, the request's version, `Content-Type`, `Content-Length` of the page,
    `Connection: close` exactly when the connection will be closed, and the page as body — except for HEAD -/
theorem error_answer_shape (pages : List (Nat × Bytes)) (m : Msg) (iserr : Bool) (st : Nat) (close : Bool)
    (hst : st ≠ 0) (hres : m.resHdrs = []) (hb : errorBodyOf pages st ≠ []) :
    (sconnError fixed pages m iserr st close).m =
        { m with code := st, rsn := none,
                 resHdrs := [hCtype, hClen (errorBodyOf pages st).length] ++ (if close then [hConn] else []) } ∧
      (sconnError fixed pages m iserr st close).body = (if m.meth == sHEAD then [] else errorBodyOf pages st) := by
  have hcode : getStatus (setStatus m st) = st := by simp [getStatus, setStatus, hst]
  have hlen : (errorBodyOf pages st).length > 0 := List.length_pos_iff.2 hb
  have e1 : ieq sContentLength sContentType = false := by decide
  have e2 : ieq sConnection sContentType = false := by decide
  have e3 : ieq sConnection sContentLength = false := by decide
  have hse : serverError pages { m := setStatus m st, body := [], iserr := iserr } =
      { m := { m with code := st, rsn := none, resHdrs := [hCtype, hClen (errorBodyOf pages st).length] },
        body := errorBodyOf pages st, iserr := true } := by
    unfold serverError setError
    simp only [hcode]
    have hb' : ((List.find? (fun p => p.1 == st) pages).map (·.2)).getD (page st (getReason (setStatus (setStatus m st) st)) none)
        = errorBodyOf pages st := by
      unfold errorBodyOf getReason
      simp [setStatus]
    rw [hb']
    rw [if_pos hlen]
    simp [setClen, setCtype, setStatus, setStatic, delHeader, hres, hCtype, hClen, e1]
  unfold sconnError
  rw [hse]
  simp only [fixed, Bool.true_and]
  by_cases hh : (m.meth == sHEAD) = true
  · rw [if_pos hh]
    cases close
    · simp [hh]
    · simp [hh, setStatic, delHeader, hCtype, hClen, hConn, e2, e3]
      rfl
  · rw [if_neg hh]
    have hh' : (m.meth == sHEAD) = false := by simpa using hh
    cases close
    · simp [hh']
    · simp [hh', setStatic, delHeader, hCtype, hClen, hConn, e2, e3]
      rfl

theorem noWs_trim (v : Bytes) (h : ∀ c ∈ v, isWs c = false) : trimTrail (trimLead v) = v := by
  cases v with
  | nil => rfl
  | cons a r =>
    have ha : isWs a = false := h a (by simp)
    have h1 : trimLead (a :: r) = a :: r := by unfold trimLead; simp [ha]
    rw [h1]
    show a :: (r.reverse.dropWhile isWs).reverse = a :: r
    have h2 : r.reverse.dropWhile isWs = r.reverse := by
      cases hq : r.reverse with
      | nil => rfl
      | cons b t =>
        have hb : b ∈ r := by
          have : b ∈ r.reverse := by rw [hq]; simp
          simpa using this
        have := h b (by simp [hb])
        simp [List.dropWhile_cons, this]
    rw [h2, List.reverse_reverse]

theorem hCtype_ok : HdrOk hCtype := by
  refine ⟨by decide, ?_, ?_, by decide⟩
  · intro c hc; revert c; decide
  · intro c hc; revert c; decide

theorem hConn_ok : HdrOk hConn := by
  refine ⟨by decide, ?_, ?_, by decide⟩
  · intro c hc; revert c; decide
  · intro c hc; revert c; decide

theorem hClen_ok (n : Nat) : HdrOk (hClen n) := by
  have hd : ∀ c ∈ (decimal n).take (clenSize - 1), isDigit c = true := fun c hc => decimal_isDigit n c (List.mem_of_mem_take hc)
  refine ⟨?_, ?_, ?_, ?_⟩
  · show COLON ∉ sContentLength; decide
  · show ∀ c ∈ sContentLength, (0x20 : UInt8) ≤ c; decide
  · intro c hc; exact UInt8.le_of_lt (digit_facts c (hd c hc)).1
  · exact noWs_trim _ (fun c hc => (digit_facts c (hd c hc)).2.1)

/-- (b) for the error answers of the server front (400 / 404 / 405 / 413 / 414 / 431 / 500 / 501 / 505, any status in
    100..999): the bytes written are a complete response that the response parser reads back with this status, the
    request's version (which the parser accepted, so it is a known one) and the built-in reason; the head ends
    where the body begins; the body is the error page, or NOTHING when the request was HEAD; and the Content-Length
    header is the decimal length of the page (the length a GET would see) -/
theorem error_answer_well_formed (pages : List (Nat × Bytes)) (m m0 : Msg) (iserr : Bool) (st : Nat) (close : Bool)
    (hst : 100 ≤ st ∧ st ≤ 999) (hres : m.resHdrs = []) (hv : versions.contains m.vers = true)
    (hb : errorBodyOf pages st ≠ []) (h0 : m0.parsedRes = false) :
    let r := sconnError fixed pages m iserr st close
    let head := emitRes r.m (getReason r.m)
    (head.length < bufsz →
      HttpSpec.decode (msem false) bufsz marker m0 (wire r) = .done (parsedBackRes m0 r.m (getReason r.m)) head.length) ∧
    (wire r).drop head.length = r.body ∧
    r.body = (if m.meth == sHEAD then [] else errorBodyOf pages st) ∧
    hClen (errorBodyOf pages st).length ∈ r.m.resHdrs ∧
    (close = true ↔ hConn ∈ r.m.resHdrs) ∧
    getStatus r.m = st ∧ getReason r.m = reasonOf st ∧ r.m.vers = m.vers := by
  intro r head
  obtain ⟨hm, hbody⟩ := error_answer_shape pages m iserr st close (by omega) hres hb
  have hgs : getStatus r.m = st := by
    show getStatus (sconnError fixed pages m iserr st close).m = st
    rw [hm]; simp [getStatus]; omega
  have hgr : getReason r.m = reasonOf st := by
    show getReason (sconnError fixed pages m iserr st close).m = reasonOf st
    rw [hm]; rfl
  have hvers : r.m.vers = m.vers := by
    show (sconnError fixed pages m iserr st close).m.vers = m.vers
    rw [hm]
  have hh : r.m.resHdrs = [hCtype, hClen (errorBodyOf pages st).length] ++ (if close then [hConn] else []) := by
    show (sconnError fixed pages m iserr st close).m.resHdrs = _
    rw [hm]
  have hok : ResOk r.m (getReason r.m) := by
    refine ⟨by rw [hvers]; exact hv, by rw [hgs]; exact hst, by rw [hgr]; exact reasonOf_clean st, ?_⟩
    intro h hin
    rw [hh] at hin
    cases close
    · simp at hin
      rcases hin with e | e
      · rw [e]; exact hCtype_ok
      · rw [e]; exact hClen_ok _
    · simp at hin
      rcases hin with e | e | e
      · rw [e]; exact hCtype_ok
      · rw [e]; exact hClen_ok _
      · rw [e]; exact hConn_ok
  refine ⟨fun hl => (answer_parses_back m0 r h0 hok hl).1, ?_, hbody, ?_, ?_, hgs, hgr, hvers⟩
  · show (wire r).drop (emitRes r.m (getReason r.m)).length = r.body
    unfold wire
    rw [List.drop_left']
    rfl
  · rw [hh]; simp
  · rw [hh]
    cases close
    · simp [hCtype, hClen, hConn]
    · simp

/-- the default pages are short: with the status and reason of the table the head of an error answer is far below the
    8160-byte buffer (so the hypothesis `head.length < bufsz` above holds), e.g. for 404 on HTTP/1.1 with close -/
example : (emitRes (sconnError fixed [] {} false 404 true).m (getReason (sconnError fixed [] {} false 404 true).m)).length = 106 ∧
    (errorBodyOf [] 404).length = 369 ∧ (hClen 369).value = asc "369" := by decide +kernel

/-- (b) HEAD never gets a body — handler answers (repaired code): whatever the handler put into the response (2xx or
    not, error page or not), the answer to a HEAD request is written without body; its headers, Content-Length
    included, are those of the GET answer -/
theorem head_answer_has_no_body (pages : List (Nat × Bytes)) (r : Res) (close : Bool) (hh : r.m.meth = sHEAD) :
    (cbDone fixed pages r close).1.body = [] := by
  have hmeth : ∀ (x : Res), (serverError pages x).m.meth = x.m.meth := by
    intro x
    simp only [serverError, setError]
    split <;> simp [setClen, setCtype, setStatus]
  have hset : ∀ (x : Msg), (setHeader x false sConnection sClose).meth = x.meth := by
    intro x
    have : setKnown x false sConnection sClose = none := by
      unfold setKnown
      have a1 : ieq sConnection sContentType = false := by decide
      have a2 : ieq sConnection sContentLength = false := by decide
      simp [a1, a2]
    unfold setHeader
    rw [this]
    simp [withHdrs]
  have h1 : (cbClose r close).1.m.meth = sHEAD := by
    unfold cbClose
    simp only
    generalize (close || match reqHeader r.m sConnection with
                          | some v => strContains v sClose
                          | none => false) = c1
    cases c1
    · exact hh
    · simp [hset, hh]
  have h2 : ∀ r1 : Res, r1.m.meth = sHEAD → (cbBody fixed pages r1).body = [] := by
    intro r1 h
    unfold cbBody
    simp only [fixed, if_true]
    split
    · rw [if_pos (by rw [hmeth, h]; simp)]
    · rw [if_pos (by rw [h]; simp)]
  exact h2 _ h1

/-- … and the unrepaired code does put a body behind the head of a 404 answer to HEAD (what a conforming client reads
    as the beginning of the next response) -/
theorem unrepaired_head_gets_error_page :
    (sconnError exOff [] { meth := sHEAD } false 404 false).body.length = 369 ∧
    (sconnError fixed [] { meth := sHEAD } false 404 false).body = [] := by decide +kernel

/-- … and turns every later answer on the connection into an error page: `iserr`, once set by an error answer, is
    still set when the next handler's answer is completed (the page of status 200 replaces the handler's body) -/
theorem unrepaired_iserr_sticks :
    let srv : Server := { handlers := [{ id := 7, uri := asc "/ok" }] }
    let s := asc "GET /no HTTP/1.1\r\nHost: h\r\n\r\nGET /ok HTTP/1.1\r\nHost: h\r\n\r\n"
    ((serve exOff srv s).getLast?.map fun e => match e with | .write b => b.length | _ => 0) = some 435 ∧
    ((serve fixed srv s).getLast?.map fun e => match e with | .write b => b.drop (b.length - 3) | _ => []) = some (asc "h7\n") := by
  decide +kernel

/-! ### http_prepare: the bytes written are the rendered head -/

/-- WRITER: for EVERY head (any length: shorter than, equal to or longer than the connection buffer) and whether or not
    the buffer holds unread input, the `len` bytes http_prepare hands to the stream — formatted into the 8160-byte
    connection buffer when `len < bufsz` and it is free, else into a heap copy of len+1 bytes — are exactly the
    rendered head (the NUL snprintf appends never lands inside them) -/
theorem written_is_rendered_head (unread : Bool) (head : Bytes) : prepared true unread head = head := by
  have hb : bufsz ≠ 0 := by decide
  have key : ∀ cap, head.length < cap → (snprintfBuf cap head).take head.length = head := by
    intro cap hc
    unfold snprintfBuf
    rw [if_neg (by omega)]
    rw [List.take_of_length_le (by omega : head.length ≤ cap - 1)]
    rw [List.take_left']
    rfl
  unfold prepared
  simp only [if_true]
  by_cases h : (decide (head.length < bufsz) && !unread) = true
  · rw [if_pos h]
    simp only [Bool.and_eq_true, decide_eq_true_eq] at h
    exact key bufsz h.1
  · rw [if_neg h]
    exact key (head.length + 1) (by omega)

/-- so the model's `wire` (head ++ body) is what reaches the stream -/
theorem wireOut_eq_wire (r : Res) : wireOut true r = wire r := by
  unfold wireOut wire
  rw [written_is_rendered_head]

set_option maxRecDepth 200000 in
/-- with `len <= bufsz` a head of exactly bufsz bytes loses its last byte to the NUL: "…CR LF CR NUL" is written -/
theorem non_strict_test_truncates :
    let head := List.replicate (bufsz - 4) (65 : UInt8) ++ [13, 10, 13, 10]
    head.length = bufsz ∧ (prepared false false head).drop (bufsz - 4) = [13, 10, 13, 0] ∧
    (prepared false true head).drop (bufsz - 4) = [13, 10, 13, 10] ∧ prepared true false head = head := by
  decide +kernel

/-! ## (d) segmentation independence lifts from the head to the connection -/

/-- what http_sconn_rxdone sees of a finished (or unfinished) nni_http_read_req -/
def headOfOut : Out → Head
  | .more _ _ _ _ => .more
  | .done m n => .done m n
  | .fail rv => .fail rv

def headOf (r : Rd) : Head := headOfOut (modelOut r)

theorem readHead_eq (m0 : Msg) (s : Bytes) : readHead m0 s = headOf (runRead true { m := m0 } [s]) := by
  unfold readHead headOf modelOut headOfOut
  by_cases h1 : (runRead true { m := m0 } [s]).rv = rvAgain
  · simp only [h1, if_true]
  · simp only [h1, if_false]
    by_cases h2 : (runRead true { m := m0 } [s]).rv = rvOk
    · simp only [h2, if_true]
    · simp only [h2, if_false]

/-- THE HEAD: whatever the receive buffer holds when nni_http_read_req starts (`c`: any open connection state whose
    content fits the buffer, e.g. the tail of the previous read) and however the rest of the stream is cut into reads
    (`chunks`), the request http_sconn_rxdone gets — fields, error status, length of the head — or the failure, or
    "not yet complete", is what `readHead` computes from the concatenation alone -/
theorem head_read_is_stream_function (c : Conn) (chunks : List Bytes) (hopen : c.closed = false) (hfit : c.put ≤ bufsz) :
    headOf (runRead true c chunks) = readHead c.m (c.pend ++ chunks.flatten) := by
  rw [readHead_eq]
  unfold headOf
  have h1 := runRead_decode true (by decide) c chunks hopen hfit
  have h2 := runRead_decode true (by decide) { m := c.m } [c.pend ++ chunks.flatten] rfl (by simp [Conn.put])
  simp only [if_true, List.nil_append, List.flatten_cons, List.flatten_nil, List.append_nil] at h1 h2
  rw [h1, h2]

/-- a way of cutting the stream: for each request (connection message state `m`, remaining stream `s`) the state of the
    receive buffer when its read starts and the pieces in which the rest arrives -/
structure Cut where
  conn : Msg → Bytes → Conn
  chunks : Msg → Bytes → List Bytes

/-- … that really is a cutting of `s`: nothing lost, nothing added, the buffer not overfull -/
def Cut.Valid (k : Cut) : Prop :=
  ∀ m s, (k.conn m s).m = m ∧ (k.conn m s).closed = false ∧ (k.conn m s).put ≤ bufsz ∧
    (k.conn m s).pend ++ (k.chunks m s).flatten = s

/-- reading heads under the cutting `k` -/
def readCut (k : Cut) (m : Msg) (s : Bytes) : Head := headOf (runRead true (k.conn m s) (k.chunks m s))

/-- THE CONNECTION: the sequence of events of a server connection — which handler ran with which method, uri and body,
    which response bytes were written, where the connection was closed — is the same for EVERY valid way of cutting
    the stream into reads, namely `serve`, a function of the byte stream (and the handler table) alone.
    (Bodies are taken and skipped by count, so only the heads depend on the reads at all.) -/
theorem connection_is_stream_function (f : Flags) (srv : Server) (k : Cut) (hk : k.Valid) (fuel : Nat) (sc : SConn) (s : Bytes) :
    serveWith f srv (readCut k) fuel sc s = serveWith f srv readHead fuel sc s := by
  have : readCut k = readHead := by
    funext m s
    obtain ⟨h1, h2, h3, h4⟩ := hk m s
    unfold readCut
    rw [head_read_is_stream_function _ _ h2 h3, h1, h4]
  rw [this]

/-- in particular two cuttings give the same events -/
theorem cut_independent (f : Flags) (srv : Server) (k k' : Cut) (hk : k.Valid) (hk' : k'.Valid) (s : Bytes) :
    serveWith f srv (readCut k) (s.length + 1) {} s = serveWith f srv (readCut k') (s.length + 1) {} s := by
  rw [connection_is_stream_function f srv k hk, connection_is_stream_function f srv k' hk']

/-! ## the hypotheses are satisfiable: concrete, non-trivial instances -/

theorem flatten_singletons (s : Bytes) : (s.map fun b => [b]).flatten = s := by
  induction s with
  | nil => rfl
  | cons a r ih => simp [List.flatten_cons, ih]

/-- a valid cutting: three bytes are already in the buffer (at offset 7), the rest arrives byte by byte -/
def exCut : Cut := { conn := fun m s => { m := m, get := 7, pend := s.take 3 }, chunks := fun _ s => (s.drop 3).map fun b => [b] }

theorem exCut_valid : exCut.Valid := by
  intro m s
  refine ⟨rfl, rfl, ?_, ?_⟩
  · show 7 + (s.take 3).length ≤ bufsz
    have : (s.take 3).length ≤ 3 := by simp [List.length_take]; omega
    have hb : bufsz = 8160 := by decide
    omega
  · show s.take 3 ++ ((s.drop 3).map fun b => [b]).flatten = s
    rw [flatten_singletons, List.take_append_drop]

def exSrv : Server :=
  { handlers := build [{ id := 0, uri := asc "/api", tree := true }, { id := 1, uri := asc "/api/v1", method := asc "POST", maxbody := 5 },
                       { id := 2, uri := [] }] }
def exStream : Bytes :=
  asc "POST /api/v1 HTTP/1.1\r\nHost: h\r\nContent-Length: 3\r\n\r\nabcGET /api/q HTTP/1.1\r\nHost: h\r\n\r\nHEAD /zz HTTP/1.0\r\n\r\n"

/-- a pipelined stream: POST with a body to the exact handler, GET to the tree handler, HEAD of an unknown path on
    HTTP/1.0 — handler 1 sees "abc", handler 0 runs, the 404 has no body and the connection is closed -/
theorem exStream_events :
    (serve fixed exSrv exStream).map (fun e => match e with
        | .handler id _ u _ b => (id, u.length, b.length)
        | .write b => (99, 0, b.length)
        | .close => (100, 0, 0)) =
      [(1, 7, 3), (99, 0, 67), (0, 6, 0), (99, 0, 67), (99, 0, 106), (100, 0, 0)] := by decide +kernel

/-- the same events when the stream arrives as in `exCut` -/
example : serveWith fixed exSrv (readCut exCut) (exStream.length + 1) {} exStream = serve fixed exSrv exStream :=
  connection_is_stream_function fixed exSrv exCut exCut_valid _ _ _

/-- `ResOk`, the hypothesis of `answer_parses_back`, holds for the answer of the generic handler on a kept connection -/
example : ResOk (cbDone fixed [] (runKind .echo 7 { m := finishReset {} }) false).1.m
    (getReason (cbDone fixed [] (runKind .echo 7 { m := finishReset {} }) false).1.m) := by
  refine ⟨by decide, by decide, ?_, ?_⟩
  · exact reasonOf_clean 200
  · intro h hin
    have : (cbDone fixed [] (runKind .echo 7 { m := finishReset {} }) false).1.m.resHdrs =
        [{ name := sContentType, value := sTextPlain, tag := 2 }, hClen 3] := by decide +kernel
    rw [this] at hin
    simp at hin
    rcases hin with e | e
    · rw [e]
      refine ⟨by decide, ?_, ?_, by decide⟩
      · intro c hc; revert c; decide
      · intro c hc; revert c; decide
    · rw [e]; exact hClen_ok 3

end Nng.C16Server
