/-
  C19 — URL parsing.  Property theorems only; lemmas are in
  Proofs/{Utf8,UrlParse,UrlCanon,UrlDot,UrlRound,UrlBufSafe}.lean.
  `Nng.UrlBuf` is the in-place buffer model of the same parser (every access recorded).
  `Nng.Url` is the executable model of url.c (tied to the C code by the correspondence check),
  `Nng.UrlSpec` is the specification (Unicode Table 3-7, canonical form, scheme table).
-/
import NngModel.Proofs.UrlParse
import NngModel.Proofs.UrlCanon
import NngModel.Proofs.UrlDot
import NngModel.Proofs.UrlRound
import NngModel.Proofs.UrlBufSafe
import NngModel.Proofs.UrlBufEqNul
import NngModel.Generated.C19
namespace Nng.C19
open Nng Nng.Url Nng.UrlSpec Nng.UrlProofs

/-- T1 (flagship). The validator of url.c — masks, shifts, minimum value, surrogate and
    range tests — accepts exactly the byte strings that are well-formed UTF-8 according to
    Table 3-7 of the Unicode Standard: no overlong forms, no surrogates, nothing above
    U+10FFFF, no stray or missing continuation bytes.  For all byte strings. -/
theorem utf8_validator_is_unicode_table (bs : Bytes) : utf8Validate bs = true ↔ WellFormedUtf8 bs :=
  utf8Validate_iff bs

/-- T1b. The executable form the specification driver runs decides the same definition. -/
theorem spec_decides_wellformed (bs : Bytes) : wellFormedUtf8b bs = true ↔ WellFormedUtf8 bs :=
  wellFormedUtf8b_iff bs

theorem schemes_are_spec_table : Url.schemes = UrlSpec.schemeTable := rfl

/-- T2. Whatever `parse` accepts has a scheme that *is* a table entry (not a prefix of one) and
    the input is that scheme, then "://", then the rest. -/
theorem accepted_scheme_exact (raw : Bytes) (hz : (0 : UInt8) ∉ raw) (u : Url) (rv : Nat)
    (h : parse raw = ⟨rv, some u⟩) :
    rv = 0 ∧ KnownScheme u.scheme ∧ ∃ rest, raw = u.scheme ++ sepBytes ++ rest := by
  obtain ⟨h0, hm, rest, hr, _⟩ := parse_ok raw hz u rv h
  exact ⟨h0, by unfold KnownScheme; rw [← schemes_are_spec_table]; exact hm, rest, hr⟩

/-- T3. Accepted ⇒ port ≤ 65535 and host name shorter than the bound (256). -/
theorem accepted_bounds (raw : Bytes) (hz : (0 : UInt8) ∉ raw) (u : Url) (rv : Nat)
    (h : parse raw = ⟨rv, some u⟩) :
    u.port ≤ 65535 ∧ ∀ name, u.hostname = some name → name.length < Generated.urlHostMax := by
  obtain ⟨_, _, rest, _, _, hc⟩ := parse_ok raw hz u rv h
  rcases hc with ⟨_, hu⟩ | ⟨_, hf⟩
  · rw [hu]; simp
  · refine ⟨hf.port, ?_⟩
    obtain ⟨n, hn, hl⟩ := hf.host
    intro name hname; rw [hn] at hname; injection hname with hname; subst hname; exact hl

/-- T4. For a scheme with an authority, path ++ ?query ++ #fragment of the accepted URL is exactly
    the canonicaliser's output for what followed the authority; its escapes were all valid
    (the escape pass succeeded) and it is well-formed UTF-8. -/
theorem accepted_components (raw : Bytes) (hz : (0 : UInt8) ∉ raw) (u : Url) (rv : Nat)
    (h : parse raw = ⟨rv, some u⟩) (hs : specialSchemes.contains u.scheme = false) :
    ∃ rest c a, raw = u.scheme ++ sep ++ rest ∧
      canonify (rest.dropWhile (fun c => !isAuthEnd c)) = some c ∧
      pass1 (rest.dropWhile (fun c => !isAuthEnd c)) = some a ∧
      u.path ++ optPart QM u.query ++ optPart HASH u.fragment = c ∧ WellFormedUtf8 c := by
  obtain ⟨_, _, rest, hr, _, hc⟩ := parse_ok raw hz u rv h
  rcases hc with ⟨hsp, _⟩ | ⟨_, hf⟩
  · rw [hs] at hsp; cases hsp
  · obtain ⟨c, hc, hsplit⟩ := hf.canon
    obtain ⟨a, ha, _⟩ := canonify_passes _ _ hc
    refine ⟨rest, c, a, hr, hc, ha, ?_, canonify_wellFormed _ _ hc⟩
    have := splitPQF_join c
    rw [hsplit] at this; exact this

/-- T5 ((d), per pass). After the escape pass every '%' starts an upper-case escape of a
    byte that is neither unreserved nor ≥ 0x80; the slash pass keeps that and leaves no "//" in
    the path part; both passes are idempotent. -/
theorem canonical_per_pass (s r : Bytes) (h : canonify s = some r) :
    ∃ a, pass1 s = some a ∧ escapesCanonical a = true ∧ pass1 a = some a ∧
      escapesCanonical (pass2 false false a) = true ∧
      noDoubleSlash (pathPart (pass2 false false a)) = true ∧
      pass2 false false (pass2 false false a) = pass2 false false a ∧
      r = pass3 false [] 0 (pass2 false false a) ∧ WellFormedUtf8 r := by
  obtain ⟨a, ha, hr⟩ := canonify_passes s r h
  have hesc := pass1_canonical s.length s a (Nat.le_refl _) ha
  exact ⟨a, ha, hesc, pass1_idem s a ha, pass2_escapes a.length a false false (Nat.le_refl _) hesc,
    pass2_noDoubleSlash a, pass2_idem a, hr, canonify_wellFormed s r h⟩

/-- T6. Every canonical, well-formed string is a fixed point of the canonicaliser: all three
    passes leave it alone. -/
theorem canonical_is_fixed_point (r : Bytes) (hc : Canonical r) (hw : WellFormedUtf8 r) :
    canonify r = some r := by
  unfold canonify
  rw [canonPasses_fixed r hc]
  simp only
  rw [if_pos ((utf8Validate_iff r).2 hw)]

/-- T7 ((d), formerly `canonical_statement`). Whatever the canonicaliser returns is canonical:
    every '%' starts an upper-case escape of a byte that had to stay escaped, and the part before
    the first '?'/'#' has no "//" and no "." or ".." segment.  The dot-segment pass — `dst--`
    scans, `src += 2/3` skips — is covered by the loop invariant `Inv3` (Proofs/UrlDot.lean). -/
theorem canonical_output (s r : Bytes) (h : canonify s = some r) : Canonical r :=
  canonify_canonical s r h

/-- T7b ((d), formerly `idempotent_statement`). The canonicaliser is idempotent: applied to its
    own output it succeeds and changes nothing. -/
theorem canonify_idempotent (s r : Bytes) (h : canonify s = some r) : canonify r = some r :=
  canonical_is_fixed_point r (canonical_output s r h) (canonify_wellFormed s r h)

/-- T7c. The same as an equation: `canonify (canonify p) = canonify p`, failure included. -/
theorem canonify_canonify (p : Bytes) : (canonify p).bind canonify = canonify p := by
  cases h : canonify p with
  | none => rfl
  | some r => exact canonify_idempotent p r h

/-- T7d. Every accepted URL of an authority-form scheme is canonical: its
    path ++ ?query ++ #fragment is `Canonical`, well-formed UTF-8, and the path is empty or
    starts with '/' (so printing it after the authority cannot change where the authority ends). -/
theorem accepted_canonical (raw : Bytes) (hz : (0 : UInt8) ∉ raw) (u : Url) (rv : Nat)
    (h : parse raw = ⟨rv, some u⟩) (hs : specialSchemes.contains u.scheme = false) :
    Canonical (u.path ++ optPart QM u.query ++ optPart HASH u.fragment) ∧
    WellFormedUtf8 (u.path ++ optPart QM u.query ++ optPart HASH u.fragment) ∧
    isSegEnd (u.path ++ optPart QM u.query ++ optPart HASH u.fragment) = true := by
  obtain ⟨_, _, rest, _, _, hc⟩ := parse_ok raw hz u rv h
  rcases hc with ⟨hsp, _⟩ | ⟨_, hf⟩
  · rw [hs] at hsp; cases hsp
  · obtain ⟨c, hc, hsplit⟩ := hf.canon
    have hj := splitPQF_join c
    rw [hsplit] at hj
    simp only at hj
    rw [hj]
    exact ⟨canonical_output _ _ hc, canonify_wellFormed _ _ hc,
      canonify_head _ _ hc (isSegEnd_dropWhile rest)⟩

/-- T8. nng_url_clone: when the copy can be allocated the clone equals the original, whatever
    the length (inline or heap buffer). -/
theorem clone_equal (u : Url) : clone u true = ⟨0, some u⟩ := by
  unfold clone; split <;> simp

/-- T8b. The size the clone allocates is the source's buffer size, which covers the whole tail
    "://..." plus terminator whenever the URL does not fit the inline buffer. -/
theorem heap_size_covers (raw : Bytes) (hz : (0 : UInt8) ∉ raw) (u : Url) (rv : Nat)
    (h : parse raw = ⟨rv, some u⟩) :
    ∃ rest, raw = u.scheme ++ sep ++ rest ∧
      (u.bufsz = 0 ∧ (sep ++ rest).length < Generated.urlInlineSize ∨
       u.bufsz = (sep ++ rest).length + 1 ∧ (sep ++ rest).length ≥ Generated.urlInlineSize) := by
  obtain ⟨_, _, rest, hr, hb, _⟩ := parse_ok raw hz u rv h
  refine ⟨rest, hr, ?_⟩
  by_cases hl : (sep ++ rest).length ≥ Generated.urlInlineSize
  · rw [if_pos hl] at hb; exact Or.inr ⟨hb, hl⟩
  · rw [if_neg hl] at hb; exact Or.inl ⟨hb, by omega⟩

/-- T9 ((f) for host-less schemes). For ipc, unix, abstract, inproc and socket URLs
    nng_url_sprintf reproduces the input byte for byte, so parsing it again gives the same URL. -/
theorem roundtrip_hostless (raw : Bytes) (hz : (0 : UInt8) ∉ raw) (u : Url) (rv : Nat)
    (h : parse raw = ⟨rv, some u⟩) (hs : specialSchemes.contains u.scheme = true) :
    sprintf u = raw ∧ parse (sprintf u) = ⟨0, some u⟩ := by
  obtain ⟨h0, _, rest, hr, _, hc⟩ := parse_ok raw hz u rv h
  have hspr : sprintf u = raw := by
    rcases hc with ⟨_, hu⟩ | ⟨hsp, _⟩
    · unfold sprintf; rw [if_pos hs]
      have : u.path = rest := by rw [hu]
      rw [this]; exact hr.symm
    · rw [hs] at hsp; cases hsp
  subst h0
  exact ⟨hspr, hspr ▸ h⟩

/-- T9b ((f) for the authority-form schemes: tcp, tls+tcp, http(s), ws(s), udp, …).  What
    nng_url_sprintf prints for an accepted URL — host in brackets exactly when it contains ':',
    ":port" unless the port is non-zero and the scheme's default (a zero port is printed as ":0"),
    then path, "?query", "#fragment" — is accepted again and gives the *same* URL apart from the
    user info, which is not printed, and the buffer size.  No side condition is needed: the
    accepted host is lower case, has no '@', '/', '?', '#', never starts with '[' and has no
    '[' / ']' when it has a ':' (`HostOk`); the accepted path is empty or starts with '/'
    (`accepted_canonical`); the canonical components are a fixed point of the canonicaliser. -/
theorem roundtrip_authority_exact (raw : Bytes) (hz : (0 : UInt8) ∉ raw) (u : Url) (rv : Nat)
    (h : parse raw = ⟨rv, some u⟩) (hs : specialSchemes.contains u.scheme = false) :
    ∃ b, parse (sprintf u) = ⟨0, some { u with userinfo := none, bufsz := b }⟩ :=
  roundtrip_authority raw hz u rv h hs

/-- T9c ((f), formerly `roundtrip_statement`). For every accepted URL of every scheme the printed
    URL parses to the same scheme, host, port, path, query and fragment. -/
theorem roundtrip (raw : Bytes) (u : Url) (hz : (0 : UInt8) ∉ raw) (h : parse raw = ⟨0, some u⟩) :
    ∃ u', parse (sprintf u) = ⟨0, some u'⟩ ∧ u'.scheme = u.scheme ∧ u'.hostname = u.hostname ∧
      u'.port = u.port ∧ u'.path = u.path ∧ u'.query = u.query ∧ u'.fragment = u.fragment := by
  cases hs : specialSchemes.contains u.scheme with
  | true => exact ⟨u, (roundtrip_hostless raw hz u 0 h hs).2, rfl, rfl, rfl, rfl, rfl, rfl⟩
  | false =>
    obtain ⟨b, hb⟩ := roundtrip_authority raw hz u 0 h hs
    exact ⟨_, hb, rfl, rfl, rfl, rfl, rfl, rfl⟩

/-- T10 ("never reads out of bounds").  The in-place model of nni_url_parse_inline_inner
    (`Model/UrlBuf.lean`: the host `memmove`, the NUL bytes written over '@' ':' ']' '?' '#', the
    three canonicaliser passes with `src`/`dst`, the `dst--` scan, strlen/strchr/strtol reads, the
    caller reading the fields) never reads or writes outside its buffer and no loop runs past the
    buffer — for every input `raw` and every content `pad` of the allocation behind the copied
    string.  The buffer is `strlen("://…") + 1` bytes when `pad = []` (the heap copy) and
    `urlInlineSize` = 128 bytes for the inline `u_static` (`alloc_size`). -/
theorem parse_in_bounds (raw pad : Bytes) : (UrlBuf.parseWith raw pad).mem.safe = true :=
  UrlBufProofs.parseWith_safe raw pad

/-- T10b. The allocation the model uses for `raw` is the one nng_url_parse makes: exactly the
    tail plus terminator on the heap when it does not fit, the 128-byte inline buffer otherwise;
    and parsing in it stays in bounds. -/
theorem alloc_size (raw : Bytes) :
    (raw.drop (schemeLen raw) ++ 0 :: UrlBuf.padFor raw).toArray.size =
      (if (raw.drop (schemeLen raw)).length ≥ Generated.urlInlineSize
        then (raw.drop (schemeLen raw)).length + 1 else Generated.urlInlineSize) ∧
    (UrlBuf.parse raw).mem.safe = true := by
  refine ⟨?_, UrlBufProofs.parseWith_safe raw _⟩
  unfold UrlBuf.padFor
  simp only
  generalize raw.drop (schemeLen raw) = t
  split
  · simp
  · rename_i h
    simp only [List.size_toArray, List.length_append, List.length_cons, List.length_replicate]
    omega

/-- T10c. nni_url_canonify_uri run in place on any NUL-terminated string inside any buffer
    stays inside that buffer. -/
theorem canonify_in_bounds (s pad : Bytes) (fuel : Nat) (hf : s.length < fuel) :
    (UrlBuf.canonifyAt fuel ⟨(s ++ 0 :: pad).toArray, true⟩ 0).1.safe = true :=
  (UrlBufProofs.canonifyAt_inv (len := s.length) fuel _ 0 (UrlBufProofs.init_inv s pad)
    (Nat.zero_le _) hf).1

/-! ### non-vacuity: the hypotheses are satisfiable by concrete, non-trivial inputs -/

/-- `http://U@Www.X.com:8080/a/../%7eb/%2F?q#f` -/
def ex1 : Bytes := [0x68, 0x74, 0x74, 0x70, 0x3a, 0x2f, 0x2f, 0x55, 0x40, 0x57, 0x77, 0x77, 0x2e, 0x58, 0x2e, 0x63, 0x6f, 0x6d, 0x3a, 0x38, 0x30, 0x38, 0x30, 0x2f, 0x61, 0x2f, 0x2e, 0x2e, 0x2f, 0x25, 0x37, 0x65, 0x62, 0x2f, 0x25, 0x32, 0x46, 0x3f, 0x71, 0x23, 0x66]
/-- `ipc:///tmp/sock` -/
def ex2 : Bytes := [0x69, 0x70, 0x63, 0x3a, 0x2f, 0x2f, 0x2f, 0x74, 0x6d, 0x70, 0x2f, 0x73, 0x6f, 0x63, 0x6b]
/-- `/a/./b/../%7ec//d` -/
def ex3 : Bytes := [0x2f, 0x61, 0x2f, 0x2e, 0x2f, 0x62, 0x2f, 0x2e, 0x2e, 0x2f, 0x25, 0x37, 0x65, 0x63, 0x2f, 0x2f, 0x64]

example : (parse ex1).rv = 0 ∧ ((parse ex1).url.map (·.port)) = some 8080 ∧
    ((parse ex1).url.map (·.path)) = some [0x2f, 0x7e, 0x62, 0x2f, 0x25, 0x32, 0x46] := by decide +kernel
example : (0 : UInt8) ∉ ex1 := by decide
example : ((parse ex1).url.map fun u => specialSchemes.contains u.scheme) = some false := by decide +kernel
example : ((parse ex2).url.map fun u => specialSchemes.contains u.scheme) = some true := by decide +kernel
example : canonify ex3 = some [0x2f, 0x61, 0x2f, 0x7e, 0x63, 0x2f, 0x64] ∧ Canonical [0x2f, 0x61, 0x2f, 0x7e, 0x63, 0x2f, 0x64] := by decide +kernel
example : WellFormedUtf8 [0xe2, 0x82, 0xac] := (wellFormedUtf8b_iff _).1 (by decide +kernel)
example : ¬ WellFormedUtf8 [0xed, 0xa0, 0x80] := fun h => absurd ((wellFormedUtf8b_iff _).2 h) (by decide +kernel)
example : (parse [0x68, 0x74, 0x3a, 0x2f, 0x2f, 0x78]).rv = Err.enotsup := by decide +kernel

/-- `ws://U@[Fe80::1]:80/a/./b/../c?x#y` (default port written, IPv6 literal, user info) -/
def ex4 : Bytes := [0x77, 0x73, 0x3a, 0x2f, 0x2f, 0x55, 0x40, 0x5b, 0x46, 0x65, 0x38, 0x30, 0x3a, 0x3a, 0x31, 0x5d, 0x3a, 0x38, 0x30, 0x2f, 0x61, 0x2f, 0x2e, 0x2f, 0x62, 0x2f, 0x2e, 0x2e, 0x2f, 0x63, 0x3f, 0x78, 0x23, 0x79]
/-- `tcp://host` (no default port: printed as `tcp://host:0`) -/
def ex5 : Bytes := [0x74, 0x63, 0x70, 0x3a, 0x2f, 0x2f, 0x68, 0x6f, 0x73, 0x74]
/-- printed: `ws://[fe80::1]/a/c?x#y` -/
example : (parse ex4).rv = 0 ∧ (0 : UInt8) ∉ ex4 ∧
    ((parse ex4).url.map sprintf) = some [0x77, 0x73, 0x3a, 0x2f, 0x2f, 0x5b, 0x66, 0x65, 0x38, 0x30, 0x3a, 0x3a, 0x31, 0x5d, 0x2f, 0x61, 0x2f, 0x63, 0x3f, 0x78, 0x23, 0x79] ∧
    ((parse ex4).url.map fun u => (parse (sprintf u)).url.map (·.port)) = some (some 80) ∧
    ((parse ex4).url.map fun u => (parse (sprintf u)).url.map (·.hostname)) = some ((parse ex4).url.map (·.hostname)) := by
  decide +kernel
example : ((parse ex5).url.map sprintf) = some (ex5 ++ [0x3a, 0x30]) ∧
    ((parse ex5).url.map fun u => (parse (sprintf u)).url.map (·.port)) = some (some 0) := by decide +kernel
example : ((parse ex1).url.map fun u => (parse (sprintf u)).url.map (·.path)) = some ((parse ex1).url.map (·.path)) := by
  decide +kernel

end Nng.C19

namespace Nng.C19
open Nng Nng.Url
/-- the `safe` flag is not vacuous: a scan over a buffer without terminator leaves it -/
example : (UrlBuf.scan (fun _ => false) 10 ⟨#[1, 2, 3], true⟩ 0).1.safe = false := by decide
/-- a write one past the end is flagged -/
example : ((⟨#[1, 2, 3], true⟩ : UrlBuf.Mem).wr 3 0).safe = false := by decide
/-- the buffer model and the functional model agree on the examples (and on every case of every
    run, through the driver) -/
example : (UrlBuf.parse ex1).url = (parse ex1).url ∧ (UrlBuf.parse ex4).url = (parse ex4).url ∧
    (UrlBuf.parse ex2).url = (parse ex2).url ∧ (UrlBuf.parse ex1).mem.safe = true := by decide +kernel
end Nng.C19

/-! ### T11–T13: the in-place buffer model computes the functional model (C19EQ)

  Lemmas: Proofs/UrlBufEq{Base,Canon1,Canon2,Canon3,Stages,HostPort,Parse,Nul}.lean — one lemma
  per loop (explicit invariant: write index ≤ read index, the output so far is the functional
  output so far, the unread input is untouched), one per parser stage.  `R.view` is what the
  caller of nng_url_parse sees: the return value and every component read back from the final
  buffer as the C string at the offset the parser computed (up to the NUL it inserted). -/
namespace Nng.C19
open Nng Nng.Url Nng.UrlSpec Nng.UrlProofs

/-- T11 (flagship). For EVERY C string `raw` (a NUL-free byte list: the input of nng_url_parse
    is NUL-terminated) and every content `pad` of the allocation behind the copied string, the
    in-place parser — host `memmove`, NULs written over '@' ':' ']' '?' '#', three canonicaliser
    passes with `src`/`dst`, the `dst--` scan — returns the same code (0, NNG_EINVAL,
    NNG_ENOTSUP) as the functional model, and on acceptance the scheme, userinfo, host, port,
    path, query and fragment read back from the buffer are the functional model's. -/
theorem buf_parse_eq_functional (raw pad : Bytes) (hz : (0 : UInt8) ∉ raw) :
    (UrlBuf.parseWith raw pad).view = Url.parse raw :=
  UrlBufEq.parseWith_eq raw pad hz

/-- T11b. The same in the allocation nng_url_parse really makes (heap copy or `u_static`). -/
theorem buf_parse_eq (raw : Bytes) (hz : (0 : UInt8) ∉ raw) : (UrlBuf.parse raw).view = Url.parse raw :=
  UrlBufEq.parseWith_eq raw _ hz

/-- T11c. Field by field: same return value, same URL (or none). -/
theorem buf_parse_fields (raw pad : Bytes) (hz : (0 : UInt8) ∉ raw) :
    (UrlBuf.parseWith raw pad).rv = (Url.parse raw).rv ∧ (UrlBuf.parseWith raw pad).url = (Url.parse raw).url := by
  have := buf_parse_eq_functional raw pad hz
  rw [← this]; exact ⟨rfl, rfl⟩

/-- T11d. nni_url_canonify_uri run in place (any buffer content behind the string) and read back
    equals `canonify`, failure included. -/
theorem buf_canonify_eq_functional (s pad : Bytes) (hz : (0 : UInt8) ∉ s) :
    UrlBuf.canonifyBuf s pad = canonify s :=
  UrlBufEq.canonifyBuf_eq s pad hz

/-- T12. "The real parser's in-place algorithm, as modelled, is memory safe AND computes the
    specified function": no access outside the allocation, no loop past the buffer, and the
    result is the functional model's — about which T2–T9 are proved. -/
theorem buf_safe_and_correct (raw pad : Bytes) (hz : (0 : UInt8) ∉ raw) :
    (UrlBuf.parseWith raw pad).mem.safe = true ∧ (UrlBuf.parseWith raw pad).view = Url.parse raw :=
  ⟨parse_in_bounds raw pad, buf_parse_eq_functional raw pad hz⟩

/-! T13: every theorem about `parse` transferred to the buffer model. -/

theorem buf_accepted_scheme_exact (raw pad : Bytes) (hz : (0 : UInt8) ∉ raw) (u : Url) (rv : Nat)
    (h : (UrlBuf.parseWith raw pad).view = ⟨rv, some u⟩) :
    rv = 0 ∧ KnownScheme u.scheme ∧ ∃ rest, raw = u.scheme ++ sepBytes ++ rest :=
  accepted_scheme_exact raw hz u rv (buf_parse_eq_functional raw pad hz ▸ h)

theorem buf_accepted_bounds (raw pad : Bytes) (hz : (0 : UInt8) ∉ raw) (u : Url) (rv : Nat)
    (h : (UrlBuf.parseWith raw pad).view = ⟨rv, some u⟩) :
    u.port ≤ 65535 ∧ ∀ name, u.hostname = some name → name.length < Generated.urlHostMax :=
  accepted_bounds raw hz u rv (buf_parse_eq_functional raw pad hz ▸ h)

theorem buf_accepted_components (raw pad : Bytes) (hz : (0 : UInt8) ∉ raw) (u : Url) (rv : Nat)
    (h : (UrlBuf.parseWith raw pad).view = ⟨rv, some u⟩) (hs : specialSchemes.contains u.scheme = false) :
    ∃ rest c a, raw = u.scheme ++ sep ++ rest ∧
      canonify (rest.dropWhile (fun c => !isAuthEnd c)) = some c ∧
      pass1 (rest.dropWhile (fun c => !isAuthEnd c)) = some a ∧
      u.path ++ optPart QM u.query ++ optPart HASH u.fragment = c ∧ WellFormedUtf8 c :=
  accepted_components raw hz u rv (buf_parse_eq_functional raw pad hz ▸ h) hs

/-- the components the in-place parser leaves in the buffer are canonical -/
theorem buf_accepted_canonical (raw pad : Bytes) (hz : (0 : UInt8) ∉ raw) (u : Url) (rv : Nat)
    (h : (UrlBuf.parseWith raw pad).view = ⟨rv, some u⟩) (hs : specialSchemes.contains u.scheme = false) :
    Canonical (u.path ++ optPart QM u.query ++ optPart HASH u.fragment) ∧
    WellFormedUtf8 (u.path ++ optPart QM u.query ++ optPart HASH u.fragment) ∧
    isSegEnd (u.path ++ optPart QM u.query ++ optPart HASH u.fragment) = true :=
  accepted_canonical raw hz u rv (buf_parse_eq_functional raw pad hz ▸ h) hs

/-- whatever the in-place canonicaliser leaves in the buffer is canonical and well-formed UTF-8 -/
theorem buf_canonical_output (s pad r : Bytes) (hz : (0 : UInt8) ∉ s) (h : UrlBuf.canonifyBuf s pad = some r) :
    Canonical r ∧ WellFormedUtf8 r := by
  rw [buf_canonify_eq_functional s pad hz] at h
  exact ⟨canonical_output s r h, canonify_wellFormed s r h⟩

/-- the in-place canonicaliser is idempotent: run again (in any buffer) on what it left, it
    succeeds and changes nothing -/
theorem buf_canonify_idempotent (s pad pad' r : Bytes) (hz : (0 : UInt8) ∉ s)
    (h : UrlBuf.canonifyBuf s pad = some r) : UrlBuf.canonifyBuf r pad' = some r := by
  have hr := UrlBufEq.canonifyBuf_nz s pad r h
  rw [buf_canonify_eq_functional s pad hz] at h
  rw [buf_canonify_eq_functional r pad' hr]
  exact canonify_idempotent s r h

theorem buf_heap_size_covers (raw pad : Bytes) (hz : (0 : UInt8) ∉ raw) (u : Url) (rv : Nat)
    (h : (UrlBuf.parseWith raw pad).view = ⟨rv, some u⟩) :
    ∃ rest, raw = u.scheme ++ sep ++ rest ∧
      (u.bufsz = 0 ∧ (sep ++ rest).length < Generated.urlInlineSize ∨
       u.bufsz = (sep ++ rest).length + 1 ∧ (sep ++ rest).length ≥ Generated.urlInlineSize) :=
  heap_size_covers raw hz u rv (buf_parse_eq_functional raw pad hz ▸ h)

/-- what nng_url_sprintf prints for a URL the in-place parser returned is again a C string -/
theorem buf_sprintf_is_cstring (raw pad : Bytes) (u : Url) (rv : Nat)
    (h : (UrlBuf.parseWith raw pad).view = ⟨rv, some u⟩) : (0 : UInt8) ∉ sprintf u :=
  UrlBufEq.parseWith_sprintf_nz raw pad u (by
    have := congrArg Url.R.url h; exact this)

theorem buf_roundtrip_hostless (raw pad pad' : Bytes) (hz : (0 : UInt8) ∉ raw) (u : Url) (rv : Nat)
    (h : (UrlBuf.parseWith raw pad).view = ⟨rv, some u⟩) (hs : specialSchemes.contains u.scheme = true) :
    sprintf u = raw ∧ (UrlBuf.parseWith (sprintf u) pad').view = ⟨0, some u⟩ := by
  obtain ⟨a, b⟩ := roundtrip_hostless raw hz u rv (buf_parse_eq_functional raw pad hz ▸ h) hs
  exact ⟨a, by rw [buf_parse_eq_functional _ pad' (buf_sprintf_is_cstring raw pad u rv h)]; exact b⟩

theorem buf_roundtrip_authority_exact (raw pad pad' : Bytes) (hz : (0 : UInt8) ∉ raw) (u : Url) (rv : Nat)
    (h : (UrlBuf.parseWith raw pad).view = ⟨rv, some u⟩) (hs : specialSchemes.contains u.scheme = false) :
    ∃ b, (UrlBuf.parseWith (sprintf u) pad').view = ⟨0, some { u with userinfo := none, bufsz := b }⟩ := by
  obtain ⟨b, hb⟩ := roundtrip_authority_exact raw hz u rv (buf_parse_eq_functional raw pad hz ▸ h) hs
  exact ⟨b, by rw [buf_parse_eq_functional _ pad' (buf_sprintf_is_cstring raw pad u rv h)]; exact hb⟩

/-- T13 (f). Parse in place, print with nng_url_sprintf, parse the printed string in place again
    (in any allocation): same scheme, host, port, path, query, fragment. -/
theorem buf_roundtrip (raw pad pad' : Bytes) (u : Url) (hz : (0 : UInt8) ∉ raw)
    (h : (UrlBuf.parseWith raw pad).view = ⟨0, some u⟩) :
    ∃ u', (UrlBuf.parseWith (sprintf u) pad').view = ⟨0, some u'⟩ ∧ u'.scheme = u.scheme ∧
      u'.hostname = u.hostname ∧ u'.port = u.port ∧ u'.path = u.path ∧ u'.query = u.query ∧
      u'.fragment = u.fragment := by
  obtain ⟨u', hu, rest⟩ := roundtrip raw u hz (buf_parse_eq_functional raw pad hz ▸ h)
  exact ⟨u', by rw [buf_parse_eq_functional _ pad' (buf_sprintf_is_cstring raw pad u 0 h)]; exact hu, rest⟩

/-! non-vacuity -/

example : (UrlBuf.parse ex1).view = Url.parse ex1 ∧ (UrlBuf.parse ex1).view.rv = 0 ∧
    (UrlBuf.parse ex4).view = Url.parse ex4 ∧ (UrlBuf.parse ex4).view.rv = 0 := by decide +kernel
example : UrlBuf.canonifyBuf ex3 [0xAA, 0xBB] = some [0x2f, 0x61, 0x2f, 0x7e, 0x63, 0x2f, 0x64] := by decide +kernel
/-- the hypothesis "`raw` is a C string" is needed: the buffer model stops at a NUL (`tcp://a\0b`
    has host "a" there), the list model does not -/
example : (UrlBuf.parse [0x74, 0x63, 0x70, 0x3a, 0x2f, 0x2f, 0x61, 0x00, 0x62]).view ≠
    Url.parse [0x74, 0x63, 0x70, 0x3a, 0x2f, 0x2f, 0x61, 0x00, 0x62] := by decide +kernel

end Nng.C19
