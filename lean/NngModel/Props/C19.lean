/-
  C19 — URL parsing.  Property theorems only; lemmas are in Proofs/{Utf8,UrlParse,UrlCanon}.lean.
  `Nng.Url` is the executable model of url.c (tied to the C code by the correspondence check),
  `Nng.UrlSpec` is the specification (Unicode Table 3-7, canonical form, scheme table).
-/
import NngModel.Proofs.UrlParse
import NngModel.Proofs.UrlCanon
namespace Nng.C19
open Nng Nng.Url Nng.UrlSpec Nng.UrlProofs

/-- T1 (flagship). The validator of url.c — masks, shifts, minimum value, surrogate and
    range tests — accepts exactly the byte strings that are well-formed UTF-8 according to
    Table 3-7 of the Unicode Standard: no overlong forms, no surrogates, nothing above
    U+10FFFF, no stray or missing continuation bytes.  For all byte strings. -/
theorem utf8_validator_is_unicode_table (bs : Bytes) : utf8Validate bs = true ↔ WellFormedUtf8 bs :=
  utf8Validate_iff bs

/-- T1b. The executable form the specification driver runs decides the same definition. -/
theorem spec_decides_wellformed (bs : Bytes) : wellFormedUtf8b bs = true ↔ WellFormedUtf8 bs :=
  wellFormedUtf8b_iff bs

theorem schemes_are_spec_table : Url.schemes = UrlSpec.schemeTable := rfl

/-- T2. Whatever `parse` accepts has a scheme that *is* a table entry (not a prefix of one) and
    the input is that scheme, then "://", then the rest. -/
theorem accepted_scheme_exact (raw : Bytes) (hz : (0 : UInt8) ∉ raw) (u : Url) (rv : Nat)
    (h : parse raw = ⟨rv, some u⟩) :
    rv = 0 ∧ KnownScheme u.scheme ∧ ∃ rest, raw = u.scheme ++ sepBytes ++ rest := by
  obtain ⟨h0, hm, rest, hr, _⟩ := parse_ok raw hz u rv h
  exact ⟨h0, by unfold KnownScheme; rw [← schemes_are_spec_table]; exact hm, rest, hr⟩

/-- T3. Accepted ⇒ port ≤ 65535 and host name shorter than the bound (256). -/
theorem accepted_bounds (raw : Bytes) (hz : (0 : UInt8) ∉ raw) (u : Url) (rv : Nat)
    (h : parse raw = ⟨rv, some u⟩) :
    u.port ≤ 65535 ∧ ∀ name, u.hostname = some name → name.length < Generated.urlHostMax := by
  obtain ⟨_, _, rest, _, _, hc⟩ := parse_ok raw hz u rv h
  rcases hc with ⟨_, hu⟩ | ⟨_, hf⟩
  · rw [hu]; simp
  · refine ⟨hf.port, ?_⟩
    obtain ⟨n, hn, hl⟩ := hf.host
    intro name hname; rw [hn] at hname; injection hname with hname; subst hname; exact hl

/-- T4. For a scheme with an authority, path ++ ?query ++ #fragment of the accepted URL is exactly
    the canonicaliser's output for what followed the authority; its escapes were all valid
    (the escape pass succeeded) and it is well-formed UTF-8. -/
theorem accepted_components (raw : Bytes) (hz : (0 : UInt8) ∉ raw) (u : Url) (rv : Nat)
    (h : parse raw = ⟨rv, some u⟩) (hs : specialSchemes.contains u.scheme = false) :
    ∃ rest c a, raw = u.scheme ++ sep ++ rest ∧
      canonify (rest.dropWhile (fun c => !isAuthEnd c)) = some c ∧
      pass1 (rest.dropWhile (fun c => !isAuthEnd c)) = some a ∧
      u.path ++ optPart QM u.query ++ optPart HASH u.fragment = c ∧ WellFormedUtf8 c := by
  obtain ⟨_, _, rest, hr, _, hc⟩ := parse_ok raw hz u rv h
  rcases hc with ⟨hsp, _⟩ | ⟨_, hf⟩
  · rw [hs] at hsp; cases hsp
  · obtain ⟨c, hc, hsplit⟩ := hf.canon
    obtain ⟨a, ha, _⟩ := canonify_passes _ _ hc
    refine ⟨rest, c, a, hr, hc, ha, ?_, canonify_wellFormed _ _ hc⟩
    have := splitPQF_join c
    rw [hsplit] at this; exact this

/-- T5 (part of (d), proved). After the escape pass every '%' starts an upper-case escape of a
    byte that is neither unreserved nor ≥ 0x80; the slash pass keeps that and leaves no "//" in
    the path part; both passes are idempotent. -/
theorem canonical_partial (s r : Bytes) (h : canonify s = some r) :
    ∃ a, pass1 s = some a ∧ escapesCanonical a = true ∧ pass1 a = some a ∧
      escapesCanonical (pass2 false false a) = true ∧
      noDoubleSlash (pathPart (pass2 false false a)) = true ∧
      pass2 false false (pass2 false false a) = pass2 false false a ∧
      r = pass3 false [] 0 (pass2 false false a) ∧ WellFormedUtf8 r := by
  obtain ⟨a, ha, hr⟩ := canonify_passes s r h
  have hesc := pass1_canonical s.length s a (Nat.le_refl _) ha
  exact ⟨a, ha, hesc, pass1_idem s a ha, pass2_escapes a.length a false false (Nat.le_refl _) hesc,
    pass2_noDoubleSlash a, pass2_idem a, hr, canonify_wellFormed s r h⟩

/-- T6 (part of (d), proved). Every canonical, well-formed string is a fixed point of the
    canonicaliser: all three passes leave it alone. -/
theorem canonical_is_fixed_point (r : Bytes) (hc : Canonical r) (hw : WellFormedUtf8 r) :
    canonify r = some r := by
  unfold canonify
  rw [canonPasses_fixed r hc]
  simp only
  rw [if_pos ((utf8Validate_iff r).2 hw)]

/-- (d), full statement: the canonicaliser's output is canonical. -/
def canonical_statement : Prop := ∀ s r, canonify s = some r → Canonical r
/-- (d), full statement: the canonicaliser is idempotent. -/
def idempotent_statement : Prop := ∀ s r, canonify s = some r → canonify r = some r

/-- T7. Idempotence follows from canonical output (T6); what is *not* proved is
    `canonical_statement` for the dot-segment pass: that `pass3` (with its in-place pops)
    leaves no "." / ".." segment and keeps the guarantees of the first two passes.  That part is
    checked on every run by the specification (`canon` operations and every accepted URL). -/
theorem idempotent_of_canonical (h : canonical_statement) : idempotent_statement := by
  intro s r hs
  exact canonical_is_fixed_point r (h s r hs) (canonify_wellFormed s r hs)

/-- T8. nng_url_clone: when the copy can be allocated the clone equals the original, whatever
    the length (inline or heap buffer). -/
theorem clone_equal (u : Url) : clone u true = ⟨0, some u⟩ := by
  unfold clone; split <;> simp

/-- T8b. The size the clone allocates is the source's buffer size, which covers the whole tail
    "://..." plus terminator whenever the URL does not fit the inline buffer. -/
theorem heap_size_covers (raw : Bytes) (hz : (0 : UInt8) ∉ raw) (u : Url) (rv : Nat)
    (h : parse raw = ⟨rv, some u⟩) :
    ∃ rest, raw = u.scheme ++ sep ++ rest ∧
      (u.bufsz = 0 ∧ (sep ++ rest).length < Generated.urlInlineSize ∨
       u.bufsz = (sep ++ rest).length + 1 ∧ (sep ++ rest).length ≥ Generated.urlInlineSize) := by
  obtain ⟨_, _, rest, hr, hb, _⟩ := parse_ok raw hz u rv h
  refine ⟨rest, hr, ?_⟩
  by_cases hl : (sep ++ rest).length ≥ Generated.urlInlineSize
  · rw [if_pos hl] at hb; exact Or.inr ⟨hb, hl⟩
  · rw [if_neg hl] at hb; exact Or.inl ⟨hb, by omega⟩

/-- (f), full statement: the printed URL parses to the same scheme, host, port, path, query
    and fragment. -/
def roundtrip_statement : Prop :=
  ∀ raw u, (0 : UInt8) ∉ raw → parse raw = ⟨0, some u⟩ →
    ∃ u', parse (sprintf u) = ⟨0, some u'⟩ ∧ u'.scheme = u.scheme ∧ u'.hostname = u.hostname ∧
      u'.port = u.port ∧ u'.path = u.path ∧ u'.query = u.query ∧ u'.fragment = u.fragment

/-- T9 ((f) for host-less schemes). For ipc, unix, abstract, inproc and socket URLs
    nng_url_sprintf reproduces the input byte for byte, so parsing it again gives the same URL.
    Not proved: the authority-form schemes (needs `canonical_statement` and host/port
    re-parsing); checked on every accepted URL of every run. -/
theorem roundtrip_partial (raw : Bytes) (hz : (0 : UInt8) ∉ raw) (u : Url) (rv : Nat)
    (h : parse raw = ⟨rv, some u⟩) (hs : specialSchemes.contains u.scheme = true) :
    sprintf u = raw ∧ parse (sprintf u) = ⟨0, some u⟩ := by
  obtain ⟨h0, _, rest, hr, _, hc⟩ := parse_ok raw hz u rv h
  have hspr : sprintf u = raw := by
    rcases hc with ⟨_, hu⟩ | ⟨hsp, _⟩
    · unfold sprintf; rw [if_pos hs]
      have : u.path = rest := by rw [hu]
      rw [this]; exact hr.symm
    · rw [hs] at hsp; cases hsp
  subst h0
  exact ⟨hspr, hspr ▸ h⟩

/-! ### non-vacuity: the hypotheses are satisfiable by concrete, non-trivial inputs -/

/-- `http://U@Www.X.com:8080/a/../%7eb/%2F?q#f` -/
def ex1 : Bytes := [0x68, 0x74, 0x74, 0x70, 0x3a, 0x2f, 0x2f, 0x55, 0x40, 0x57, 0x77, 0x77, 0x2e, 0x58, 0x2e, 0x63, 0x6f, 0x6d, 0x3a, 0x38, 0x30, 0x38, 0x30, 0x2f, 0x61, 0x2f, 0x2e, 0x2e, 0x2f, 0x25, 0x37, 0x65, 0x62, 0x2f, 0x25, 0x32, 0x46, 0x3f, 0x71, 0x23, 0x66]
/-- `ipc:///tmp/sock` -/
def ex2 : Bytes := [0x69, 0x70, 0x63, 0x3a, 0x2f, 0x2f, 0x2f, 0x74, 0x6d, 0x70, 0x2f, 0x73, 0x6f, 0x63, 0x6b]
/-- `/a/./b/../%7ec//d` -/
def ex3 : Bytes := [0x2f, 0x61, 0x2f, 0x2e, 0x2f, 0x62, 0x2f, 0x2e, 0x2e, 0x2f, 0x25, 0x37, 0x65, 0x63, 0x2f, 0x2f, 0x64]

example : (parse ex1).rv = 0 ∧ ((parse ex1).url.map (·.port)) = some 8080 ∧
    ((parse ex1).url.map (·.path)) = some [0x2f, 0x7e, 0x62, 0x2f, 0x25, 0x32, 0x46] := by decide +kernel
example : (0 : UInt8) ∉ ex1 := by decide
example : ((parse ex1).url.map fun u => specialSchemes.contains u.scheme) = some false := by decide +kernel
example : ((parse ex2).url.map fun u => specialSchemes.contains u.scheme) = some true := by decide +kernel
example : canonify ex3 = some [0x2f, 0x61, 0x2f, 0x7e, 0x63, 0x2f, 0x64] ∧ Canonical [0x2f, 0x61, 0x2f, 0x7e, 0x63, 0x2f, 0x64] := by decide +kernel
example : WellFormedUtf8 [0xe2, 0x82, 0xac] := (wellFormedUtf8b_iff _).1 (by decide +kernel)
example : ¬ WellFormedUtf8 [0xed, 0xa0, 0x80] := fun h => absurd ((wellFormedUtf8b_iff _).2 h) (by decide +kernel)
example : (parse [0x68, 0x74, 0x3a, 0x2f, 0x2f, 0x78]).rv = Err.enotsup := by decide +kernel

end Nng.C19
