import NngModel.Proofs.Completions
/-
  C02, completion batches: every aio put on a completion list has its callback run exactly once by
  nni_aio_completions_run, whatever the callbacks do with their own reap nodes (nng_aio_reap from the callback).
-/
namespace Nng.C02Completions
open Nng.Completions

/-- K1 EVERY AIO ON A COMPLETION LIST IS COMPLETED EXACTLY ONCE (in reverse order of the adds), whatever each callback
    does with the reap node of its own aio -/
theorem every_completion_runs_once (cb : Nat → Mem → Mem) (hcb : OwnNodeOnly cb) (l : List Nat) (hn : l.Nodup) :
    run cb l.length (addAll l).1 (addAll l).2 = l.reverse := by
  apply run_chain cb hcb l.reverse l.length _ _ (by simp) (nodup_rev l hn) (addAll_chain l hn)

/-- K2 more fuel changes nothing -/
theorem run_fuel_irrelevant (cb : Nat → Mem → Mem) (hcb : OwnNodeOnly cb) (l : List Nat) (hn : l.Nodup) (k : Nat) :
    run cb (l.length + k) (addAll l).1 (addAll l).2 = l.reverse := by
  apply run_chain cb hcb l.reverse (l.length + k) _ _ (by simp) (nodup_rev l hn) (addAll_chain l hn)

/-- a callback that reuses its own reap node the way nng_aio_reap does (links the aio into the reap list: here to 77) -/
def reapingCb : Nat → Mem → Mem := fun a m x => if x = a then some 77 else m x

theorem reapingCb_own : OwnNodeOnly reapingCb := by
  intro a m x hx; simp [reapingCb, hx]

/-- K3 the order of the two statements in the loop matters: reading the link after the callback loses the rest of the
    batch (or walks into the reap list) as soon as a callback reuses its node -/
theorem late_read_loses_the_batch :
    run reapingCb 3 (addAll [1, 2, 3]).1 (addAll [1, 2, 3]).2 = [3, 2, 1] ∧
    runLate reapingCb 3 (addAll [1, 2, 3]).1 (addAll [1, 2, 3]).2 ≠ [3, 2, 1] := by decide

end Nng.C02Completions
