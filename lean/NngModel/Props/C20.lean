/-
  C20 — a failed allocation yields a clean error.  PARTIAL by nature: the provable core is
  "for every allocation oracle, a component operation either succeeds as specified or returns
  NNG_ENOMEM with its observable state unchanged", proved in the component models and collected
  here; the rest of the library is covered by fault enumeration (vlib/props/c20.py), which
  supports this but is not a proof.
-/
import NngModel.Props.C17
import NngModel.Props.C18
namespace Nng.C20
open Nng Nng.Msg

/-- nng_msg: whatever the allocator answers, an operation is in bounds and either reports
    NNG_ENOMEM leaving the message exactly as it was, or behaves as the string operation. -/
theorem msg_op_under_any_allocator (m : Msg) (h : MWF m) (op : Nng.MsgSpec.Op) (ok : Bool) :
    (step m op ok).1.safe = true ∧
    (((step m op ok).1.rv = Err.enomem ∧ (step m op ok).1.c = m) ∨
     (MWF (step m op ok).1.c ∧
      Nng.MsgSpec.step (abs m) op = ⟨(step m op ok).1.rv, abs (step m op ok).1.c, (step m op ok).2⟩)) :=
  Nng.C17.step_is_string_op m h op ok

/-- nng_msg_alloc / nng_msg_dup with a failing allocation: NNG_ENOMEM, no message, nothing touched
    out of bounds. -/
theorem msg_alloc_failure_is_clean (sz : Nat) (hsz : sz + 64 ≤ sizeMax) (k : Nat) :
    (alloc sz (some k)).safe = true ∧
    (((alloc sz (some k)).rv = Err.enomem ∧ (alloc sz (some k)).c = none) ∨
     (∃ m, (alloc sz (some k)).c = some m ∧ (alloc sz (some k)).rv = 0 ∧ MWF m)) := by
  obtain ⟨hs, h⟩ := Nng.C17.fresh_message sz hsz (some k)
  refine ⟨hs, ?_⟩
  rcases h with ⟨a, b, _⟩ | ⟨m, a, b, c, _⟩
  · exact Or.inl ⟨a, b⟩
  · exact Or.inr ⟨m, a, b, c⟩

/-- every run of message operations, under every sequence of allocator answers, stays explained by
    the two-string specification with ENOMEM steps as no-ops (so a later call never misbehaves) -/
theorem msg_runs_survive_allocation_failures (m : Msg) (h : MWF m) (ops : List (Nng.MsgSpec.Op × Bool)) :
    Nng.C17.Explains (abs m) ops (Nng.C17.runModel m ops) ∧
    ∀ o ∈ Nng.C17.runModel m ops, o.safe = true ∧ o.capOk = true :=
  Nng.C17.every_run_is_two_strings m h ops

end Nng.C20
