/-
  C20 — a failed allocation yields a clean error.  PARTIAL by nature: the provable core is
  "for every allocation oracle, a component operation either succeeds as specified or returns
  NNG_ENOMEM with its observable state unchanged", proved in the component models and collected
  here; the rest of the library is covered by fault enumeration (vlib/props/c20.py), which
  supports this but is not a proof.
  Components whose models carry an allocation oracle: nng_msg (C17), nni_lmq / nni_msgq / id map
  (C18), nni_msg_pull_up (C01).  URL, HTTP, WebSocket, statistics, socket / endpoint / pipe
  creation and library start-up have no oracle in their models: fault enumeration only
  (UNIT: u_urlfail, u_wsfail, u_httpfail; SIM: s_proto incl. `stats`; REAL: r_allocfail).
-/
import NngModel.Props.C17
import NngModel.Props.C18
import NngModel.Props.C01
namespace Nng.C20
open Nng Nng.Msg

/-- nng_msg: whatever the allocator answers, an operation is in bounds and either reports
    NNG_ENOMEM leaving the message exactly as it was, or behaves as the string operation. -/
theorem msg_op_under_any_allocator (m : Msg) (h : MWF m) (op : Nng.MsgSpec.Op) (ok : Bool) :
    (step m op ok).1.safe = true ∧
    (((step m op ok).1.rv = Err.enomem ∧ (step m op ok).1.c = m) ∨
     (MWF (step m op ok).1.c ∧
      Nng.MsgSpec.step (abs m) op = ⟨(step m op ok).1.rv, abs (step m op ok).1.c, (step m op ok).2⟩)) :=
  Nng.C17.step_is_string_op m h op ok

/-- nng_msg_alloc / nng_msg_dup with a failing allocation: NNG_ENOMEM, no message, nothing touched
    out of bounds. -/
theorem msg_alloc_failure_is_clean (sz : Nat) (hsz : sz + 64 ≤ sizeMax) (k : Nat) :
    (alloc sz (some k)).safe = true ∧
    (((alloc sz (some k)).rv = Err.enomem ∧ (alloc sz (some k)).c = none) ∨
     (∃ m, (alloc sz (some k)).c = some m ∧ (alloc sz (some k)).rv = 0 ∧ MWF m)) := by
  obtain ⟨hs, h⟩ := Nng.C17.fresh_message sz hsz (some k)
  refine ⟨hs, ?_⟩
  rcases h with ⟨a, b, _⟩ | ⟨m, a, b, c, _⟩
  · exact Or.inl ⟨a, b⟩
  · exact Or.inr ⟨m, a, b, c⟩

/-- every run of message operations, under every sequence of allocator answers, stays explained by
    the two-string specification with ENOMEM steps as no-ops (so a later call never misbehaves) -/
theorem msg_runs_survive_allocation_failures (m : Msg) (h : MWF m) (ops : List (Nng.MsgSpec.Op × Bool)) :
    Nng.C17.Explains (abs m) ops (Nng.C17.runModel m ops) ∧
    ∀ o ∈ Nng.C17.runModel m ops, o.safe = true ∧ o.capOk = true :=
  Nng.C17.every_run_is_two_strings m h ops

/-- nni_lmq: every run of put/get/flush/resize under every sequence of allocator answers is
    explained by the bounded FIFO; a resize that cannot allocate reports NNG_ENOMEM, hands out and
    frees nothing and leaves the queue content and capacity exactly as they were (`LmqExplains`). -/
theorem lmq_runs_survive_allocation_failures (ops : List (Nng.QSpec.FOp × Bool)) (q : Lmq.Lmq) (l : List Nng.QSpec.Msg)
    (h : Lmq.Rep q l) : Nng.C18.LmqExplains ⟨q.cap, l⟩ ops (Nng.C18.lmqRun q ops) :=
  Nng.C18.lmq_refines_bounded_fifo ops q l h

/-- nni_msgq: likewise for tryput / aio_put / aio_get / cancel / close / resize against the FIFO
    channel: a failed resize is NNG_ENOMEM with no completion, nothing freed, channel unchanged. -/
theorem msgq_runs_survive_allocation_failures (ops : List (Nng.QSpec.COp × Bool)) (q : Msgq.Msgq) (l : List Nng.QSpec.Msg)
    (h : Msgq.RingRep q l) : Nng.C18.MsgqExplains (Msgq.chanOf q l) ops (Nng.C18.msgqRun q ops) :=
  Nng.C18.msgq_refines_fifo_channel ops q l h

/-- id map, nni_id_set: whatever the allocator answers the call stays in bounds and is either the
    finite map's `set`, or — only under a failing allocator — NNG_ENOMEM with the map unchanged. -/
theorem idmap_set_failure_is_clean {m : IdHash.IdMap} {s : Nng.QSpec.IdSpec} (h : IdHash.Rep m s)
    (k v : Nat) (hv : v ≠ 0) (ok : Bool) :
    (IdHash.idSet m k v ok).2.2 = true ∧
    (((IdHash.idSet m k v ok).2.1 = 0 ∧ IdHash.Rep (IdHash.idSet m k v ok).1 (s.set k v)) ∨
     (ok = false ∧ (IdHash.idSet m k v ok).2.1 = Err.enomem ∧ (IdHash.idSet m k v ok).1 = m)) :=
  Nng.C18.idmap_set_refines h k v hv ok

/-- id map: every run of set / remove / alloc under every sequence of allocator answers is explained
    by the finite-map specification, failed steps being NNG_ENOMEM no-ops (alloc: the chosen
    identifier is skipped), so later calls behave as specified. -/
theorem idmap_runs_survive_allocation_failures (ops : List (IdHash.IOp × Bool)) (m : IdHash.IdMap) (s : Nng.QSpec.IdSpec)
    (h : IdHash.Rep m s)
    (hv : ∀ p, p ∈ ops → (∀ k v, p.1 = .set k v → v ≠ 0) ∧ (∀ v rnd, p.1 = .alloc v rnd → v ≠ 0)) :
    Nng.C18.IdExplains m s ops :=
  Nng.C18.idmap_run_refines_any_allocator ops m s h hv

/-- nni_msg_pull_up (inproc send path), any allocator answer (`fail` = which allocation fails): all
    accesses stay inside the messages and the result is either NULL — the one message is dropped
    whole, the documented best-effort loss — or the merged message; never a half-merged one. -/
theorem pull_up_failure_is_clean (m : Msg) (h : MWF m) (refcnt : Nat) (fail : Option Nat)
    (hsz : m.body.len + m.hlen + 64 ≤ sizeMax) :
    (Nng.Sp.pullUp m refcnt fail).2 = true ∧
    ((Nng.Sp.pullUp m refcnt fail).1 = none ∨
     ∃ m', (Nng.Sp.pullUp m refcnt fail).1 = some m' ∧ MWF m' ∧
        abs m' = ⟨[], Nng.SpSpec.payload (abs m).hdr (abs m).body⟩) :=
  Nng.C01.pull_up_merges m h refcnt fail hsz

end Nng.C20
