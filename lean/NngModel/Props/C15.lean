/- C15 — non-blocking calls and poll descriptors.  The protocol-independent trace predicate is
   Spec/Generic.lean `pollStep`; the per-protocol flag invariants are imported from the protocol
   property files as they land. -/
import NngModel.Spec.Generic
namespace Nng.C15
open Nng Nng.Proto Nng.GenericSpec

/-- the judge accepts a trace in which poll and the non-blocking result agree -/
theorem poll_agree_ok (a : Nat) (m : WMsg) :
    pollJudge [(.poll, [.poll (some true) none]), (.recv none a .nb, [.done a 0 (some m) false])] = none := by
  simp [pollJudge, pollStep, notExecuted, doneOf, Err.eagain]

/-- ... and rejects the busy loop (readable but EAGAIN) and the missed wake-up -/
theorem poll_busy_loop_rejected (a : Nat) :
    (pollJudge [(.poll, [.poll (some true) none]), (.recv none a .nb, [.done a Err.eagain none false])]).isSome = true := by
  simp [pollJudge, pollStep, notExecuted, doneOf, PollJ.fail, Err.eagain]

theorem poll_missed_wakeup_rejected (a : Nat) (m : WMsg) :
    (pollJudge [(.poll, [.poll (some false) none]), (.recv none a .nb, [.done a 0 (some m) false])]).isSome = true := by
  simp [pollJudge, pollStep, notExecuted, doneOf, PollJ.fail]

end Nng.C15
