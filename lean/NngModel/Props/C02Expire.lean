import NngModel.Proofs.ExpireQ
/-
  C02 (every asynchronous operation completes exactly once), the timer clause for MANY aios: the scan of
  nni_aio_expire_loop never loses, duplicates or forgets an expiring aio, however many are due at once.
  (Model/Aio.lean follows ONE aio through the expire thread; this file is about the whole expire list and
  the batch of NNI_EXPIRE_BATCH entries per pass.)  The batch size is extracted from core/defs.h; the shape
  of the loop is anchored by vlib/extract_c02x.py; harness/r_expire.c runs the real loop with more than one
  batch of simultaneous deadlines.
-/
namespace Nng.C02Expire
open Nng.ExpireQ

/-- E1 a pass takes exactly the first `batch` due entries, in list order -/
theorem pass_takes_first_due (stop : Bool) (now : Nat) (l : List Ent) :
    (pass stop now l).taken = (l.filter (due stop now)).take Generated.expireBatch := by
  unfold pass; rw [scan_taken]; rfl

/-- E2 a pass neither loses nor duplicates an aio: taken and kept together are the list, each in list order -/
theorem pass_partitions (stop : Bool) (now : Nat) (l : List Ent) :
    List.Perm ((pass stop now l).taken ++ (pass stop now l).kept) l ∧
    List.Sublist (pass stop now l).taken l ∧ List.Sublist (pass stop now l).kept l ∧
    (pass stop now l).taken.length ≤ Generated.expireBatch := by
  refine ⟨scan_perm _ _ _ _ _ _, scan_taken_sublist _ _ _ _ _ _, scan_kept_sublist _ _ _ _ _ _, ?_⟩
  rw [pass_takes_first_due]; exact List.length_take_le _ _

/-- E3 what stays behind: every entry that is not due, and the due entries beyond the batch -/
theorem pass_keeps (stop : Bool) (now : Nat) (l : List Ent) :
    (pass stop now l).kept.filter (fun e => !due stop now e) = l.filter (fun e => !due stop now e) ∧
    (pass stop now l).kept.filter (due stop now) = (l.filter (due stop now)).drop Generated.expireBatch := by
  refine ⟨scan_kept_notdue _ _ _ _ _ _, ?_⟩
  unfold pass; rw [scan_kept_due]; rfl

/-- E4 eq_next after a pass is the earliest a_expire left on the list (NNI_TIME_NEVER if none is earlier):
    it is a lower bound of every remaining deadline and it is attained -/
theorem pass_next_is_earliest (stop : Bool) (now : Nat) (l : List Ent) :
    (∀ e ∈ (pass stop now l).kept, (pass stop now l).next ≤ e.expire) ∧
    ((pass stop now l).next = never ∨ ∃ e ∈ (pass stop now l).kept, (pass stop now l).next = e.expire) :=
  ⟨scan_next_le _ _ _ _ _ _, scan_next_attained _ _ _ _ _ _⟩

/-- E5 NO SLEEP WHILE SOMETHING IS DUE: if a due entry was left behind (it did not fit the batch), the test
    at the top of the loop does not let the thread sleep — it comes round again at once.  (This is the
    clause two independently seeded faults broke: with it false, the 101st simultaneous timeout never fires.) -/
theorem overflow_does_not_sleep (stop : Bool) (now : Nat) (l : List Ent) (now' : Nat) (hn : now ≤ now')
    (e : Ent) (he : e ∈ (pass stop now l).kept) (hd : due stop now e = true) :
    sleeps stop now' (pass stop now l).next (pass stop now l).kept = false := by
  unfold sleeps
  cases stop with
  | true =>
    have : (pass true now l).kept.isEmpty = false := by
      cases h : (pass true now l).kept with
      | nil => rw [h] at he; cases he
      | cons _ _ => rfl
    simp [this]
  | false =>
    have h1 := (pass_next_is_earliest false now l).1 e he
    have h2 : e.expire < now := by simpa [due] using hd
    have : ¬ now' < (pass false now l).next := by omega
    simp [this]

/-- E6 SLEEPING IS SAFE: when the thread does sleep after a pass, nothing on the list is due, and it sleeps no
    longer than until the earliest remaining deadline -/
theorem sleep_misses_nothing (stop : Bool) (now : Nat) (l : List Ent)
    (hs : sleeps stop now (pass stop now l).next (pass stop now l).kept = true) :
    (∀ e ∈ (pass stop now l).kept, due stop now e = false) ∧
    (∀ e ∈ (pass stop now l).kept, (pass stop now l).next ≤ e.expire) := by
  refine ⟨?_, (pass_next_is_earliest stop now l).1⟩
  intro e he
  cases hd : due stop now e with
  | false => rfl
  | true =>
    have := overflow_does_not_sleep stop now l now (Nat.le_refl _) e he hd
    rw [this] at hs; cases hs

/-- the general drain lemma (any positive batch size) -/
theorem drain_spec (b : Nat) (hb : 0 < b) (stop : Bool) (now : Nat) :
    ∀ (fuel : Nat) (l : List Ent), l.length < fuel →
      (drain b stop now fuel l).1.flatten = l.filter (due stop now) ∧
      (drain b stop now fuel l).2.1 = l.filter (fun e => !due stop now e) ∧
      (∀ bt ∈ (drain b stop now fuel l).1, bt.length ≤ b ∧ bt ≠ []) := by
  intro fuel
  induction fuel with
  | zero => intro l h; omega
  | succ fuel ih =>
    intro l hl
    unfold drain
    have ht := scan_taken b stop now l 0 never
    have hkd := scan_kept_due b stop now l 0 never
    have hkn := scan_kept_notdue b stop now l 0 never
    have hlen := scan_length b stop now l 0 never
    simp only [Nat.sub_zero] at ht hkd
    cases hte : (scan b stop now l 0 never).taken with
    | nil =>
      -- nothing was due
      have hD : l.filter (due stop now) = [] := by
        rw [hte] at ht
        cases hf : l.filter (due stop now) with
        | nil => rfl
        | cons a t =>
          rw [hf] at ht
          have : b = (b - 1) + 1 := by omega
          rw [this, List.take_succ_cons] at ht; cases ht
      have hK : (scan b stop now l 0 never).kept.filter (due stop now) = [] := by rw [hkd, hD]; simp
      have hkept : (scan b stop now l 0 never).kept = l.filter (fun e => !due stop now e) :=
        (eq_filter_not_of_filter_nil _ _ hK).trans hkn
      simp only [hte, List.isEmpty_nil, if_true, List.flatten_nil, List.not_mem_nil, false_imp_iff, implies_true, and_true]
      exact ⟨hD.symm, hkept⟩
    | cons a t =>
      have hk : (scan b stop now l 0 never).kept.length < fuel := by
        rw [hte] at hlen; simp only [List.length_cons] at hlen; omega
      obtain ⟨i1, i2, i3⟩ := ih _ hk
      simp only [hte, List.isEmpty_cons, Bool.false_eq_true, if_false]
      refine ⟨?_, ?_, ?_⟩
      · simp only [List.flatten_cons]
        rw [i1, hkd, ← hte, ht, List.take_append_drop]
      · rw [i2, hkn]
      · intro bt hbt
        simp only [List.mem_cons] at hbt
        rcases hbt with rfl | hbt
        · refine ⟨?_, by simp⟩
          rw [← hte, ht]; exact List.length_take_le _ _
        · exact i3 bt hbt

/-- E7 EVERY DUE AIO IS EXPIRED EXACTLY ONCE, HOWEVER MANY ARE DUE AT ONCE: the passes the thread makes without
    sleeping hand over exactly the due entries, each once, in list order, in batches of at most
    NNI_EXPIRE_BATCH, and leave exactly the entries that are not due -/
theorem every_due_aio_expires_once (stop : Bool) (now : Nat) (l : List Ent) :
    (drain Generated.expireBatch stop now (l.length + 1) l).1.flatten = l.filter (due stop now) ∧
    (drain Generated.expireBatch stop now (l.length + 1) l).2.1 = l.filter (fun e => !due stop now e) ∧
    (∀ bt ∈ (drain Generated.expireBatch stop now (l.length + 1) l).1, bt.length ≤ Generated.expireBatch ∧ bt ≠ []) :=
  drain_spec Generated.expireBatch (by decide) stop now (l.length + 1) l (Nat.lt_succ_self _)

/-- E8 stopping (nng_fini / aio stop) takes everything: with eq_stop every entry is due -/
theorem stop_takes_everything (now : Nat) (l : List Ent) :
    (drain Generated.expireBatch true now (l.length + 1) l).1.flatten = l ∧
    (drain Generated.expireBatch true now (l.length + 1) l).2.1 = [] := by
  have h := every_due_aio_expires_once true now l
  refine ⟨?_, ?_⟩
  · rw [h.1]; simp [due]
  · rw [h.2.1]; simp [due]

/-! ### non-vacuity: 250 aios with one deadline and one later one: three passes (100, 100, 50), the later one stays
    and becomes eq_next -/
def sample : List Ent := (List.range 250).map (fun i => ⟨i, 10⟩) ++ [⟨999, 50⟩]

example : (pass false 20 sample).taken.length = 100 ∧ (pass false 20 sample).kept.length = 151 ∧
    (pass false 20 sample).next = 10 := by decide +kernel
example : ((drain Generated.expireBatch false 20 (sample.length + 1) sample).1.map List.length,
    (drain Generated.expireBatch false 20 (sample.length + 1) sample).2) = ([100, 100, 50], [⟨999, 50⟩], 50) := by decide +kernel
example : sleeps false 20 (pass false 20 sample).next (pass false 20 sample).kept = false := by decide +kernel

end Nng.C02Expire
