/-
  C09 — BUS.  Property theorems about the model `Nng.Bus` (src/sp/protocol/bus0/bus.c with
  finding F7 fixed), for ALL event sequences: `reach evs` is the state after any list of
  harness events from the initial state.  Helper lemmas live in Proofs/Bus*.lean.
-/
import NngModel.Proofs.BusStep
import NngModel.Spec.Bus
import NngModel.Generated.C09
namespace Nng.C09
open Nng Nng.Proto Nng.Bus

/-- the state after an arbitrary event history -/
def reach (evs : List Ev) : State := (run {} evs).1

theorem inv_reach (evs : List Ev) : Inv (reach evs) := inv_run _ evs inv_init

/-- the constants of the model are those of the C source -/
theorem proto_id : Nng.Bus.protoBus = Nng.Proto.protoId 7 0 := by decide

/-! ### B1 — fan-out: at most one wire copy per attached pipe, none for the origin -/

/-- one `send`, in any state and mode: pipe `i` is handed the message now iff it is
    attached, idle and not named by the raw header; what it is handed is the sent message
    (header minus the origin id in raw mode, no header in cooked mode), whole -/
theorem B1_fanout (s : State) (c : Option Nat) (a : Nat) (m : WMsg) (mode : Mode)
    (ho : s.opened = true) (hc : s.closed = false) (hf : s.rwait.any (·.aio == a) = false) (i : Nat) (w : WMsg) :
    Out.psend i w ∈ (step s (.send c a m mode)).2 ↔
      ∃ pp, s.pipes[i]? = some pp ∧ eligible s.raw (sendMsg s m) i pp ∧ w = (sendMsg s m).m := by
  rw [step_send c a m mode ho hc hf, onSend_outs]
  simp only [List.mem_append, List.mem_singleton, reduceCtorEq, or_false]
  rw [sendWire_mem]
  constructor
  · rintro ⟨j, pp, hx, he, ho'⟩
    injection ho' with h1 h2
    subst h1
    exact ⟨pp, hx, he, h2⟩
  · rintro ⟨pp, hx, he, rfl⟩
    exact ⟨i, pp, hx, he, rfl⟩

/-- one `send` puts at most one copy on the wire of each pipe -/
theorem B1_at_most_once (s : State) (c : Option Nat) (a : Nat) (m : WMsg) (mode : Mode)
    (ho : s.opened = true) (hc : s.closed = false) (hf : s.rwait.any (·.aio == a) = false) (i : Nat) :
    (step s (.send c a m mode)).2.countP (isPsendTo i) ≤ 1 := by
  rw [step_send c a m mode ho hc hf, onSend_outs, List.countP_append]
  have := sendWire_at_most_once s m i
  simp [isPsendTo]
  exact this

/-- raw mode: a message whose header starts with the id of pipe `p` (as stamped on a message
    that arrived on `p`) is not sent to `p` -/
theorem B1_never_to_origin (s : State) (c : Option Nat) (a : Nat) (m : WMsg) (mode : Mode)
    (ho : s.opened = true) (hc : s.closed = false) (hf : s.rwait.any (·.aio == a) = false)
    (hraw : s.raw = true) (p : Nat) (hp : p < maxPipes) (rest : Bytes) (hh : m.hdr = stampHdr true p ++ rest) (w : WMsg) :
    Out.psend p w ∉ (step s (.send c a m mode)).2 := by
  rw [step_send c a m mode ho hc hf, onSend_outs]
  simp only [List.mem_append, List.mem_singleton, reduceCtorEq, or_false]
  exact sendWire_not_origin s m p rest w hraw hp hh

/-- cooked mode: every attached idle pipe gets the message now, without a header -/
theorem B1_cooked_all (s : State) (c : Option Nat) (a : Nat) (m : WMsg) (mode : Mode)
    (ho : s.opened = true) (hc : s.closed = false) (hf : s.rwait.any (·.aio == a) = false)
    (hraw : s.raw = false) (i : Nat) (pp : Pipe) (hx : s.pipes[i]? = some pp) (hcl : pp.closed = false) (hb : pp.busy = none) :
    Out.psend i ⟨[], m.body⟩ ∈ (step s (.send c a m mode)).2 := by
  rw [B1_fanout s c a m mode ho hc hf]
  refine ⟨pp, hx, ⟨hcl, by simp [hraw], hb⟩, ?_⟩
  simp [sendMsg, parseSender, hraw]

/-! ### B2 — send never blocks -/

/-- in every state and every mode (non-blocking, zero, finite, default or infinite timeout) a
    send completes in its own step with 0; that is the only completion, and no aio is left
    parked: never EAGAIN, never a timeout -/
theorem B2_send_never_blocks (s : State) (c : Option Nat) (a : Nat) (m : WMsg) (mode : Mode)
    (ho : s.opened = true) (hc : s.closed = false) (hf : s.rwait.any (·.aio == a) = false) :
    Out.done a 0 none false ∈ (step s (.send c a m mode)).2 ∧
    (∀ a' rv mm mb, Out.done a' rv mm mb ∈ (step s (.send c a m mode)).2 → a' = a ∧ rv = 0 ∧ mm = none ∧ mb = false) ∧
    (step s (.send c a m mode)).1.rwait = s.rwait := by
  rw [step_send c a m mode ho hc hf, onSend_outs]
  refine ⟨by simp, ?_, rfl⟩
  intro a' rv mm mb hmem
  rcases List.mem_append.mp hmem with hmem | hmem
  · obtain ⟨_, _, _, _, ho'⟩ := (sendWire_mem s m _).mp hmem
    cases ho'
  · simp at hmem
    exact hmem

/-! ### B3 — per-pipe wire order, at most once, whole drops -/

/-- on every pipe the wire history is in strictly increasing send order: a subsequence of the
    send order, every message at most once; the same holds for wire history followed by the
    queue (what is queued will not overtake) -/
theorem B3_wire_order (evs : List Ev) (i : Nat) (pp : Pipe) (hx : (reach evs).pipes[i]? = some pp) :
    ((pp.wire ++ pp.sq).map (·.gid)).Pairwise (· < ·) ∧ (pp.wire.map (·.gid)).Nodup ∧
    (∀ m ∈ pp.wire ++ pp.sq, m.gid < (reach evs).nsend) := by
  have h := (inv_reach evs).send i pp hx
  refine ⟨h.sorted, ?_, h.bound⟩
  have hs : (pp.wire.map (·.gid)).Pairwise (· < ·) :=
    List.Pairwise.sublist ((List.sublist_append_left pp.wire pp.sq).map _) h.sorted
  exact hs.imp (fun hlt => Nat.ne_of_lt hlt)

/-- what is on a pipe's wire or in its queue was offered to `send` (whole: the same header and
    body), and the queue never exceeds the configured depth -/
theorem B3_wire_was_sent (evs : List Ev) (i : Nat) (pp : Pipe) (hx : (reach evs).pipes[i]? = some pp) :
    (∀ m ∈ pp.wire ++ pp.sq, m ∈ pp.offered) ∧ pp.sq.length ≤ pp.sqCap := by
  have h := (inv_reach evs).send i pp hx
  refine ⟨?_, h.cap⟩
  intro m hm
  have hc := h.conserve m
  have hpos : 0 < (pp.wire ++ pp.sq).count m := List.count_pos_iff.mpr hm
  rw [List.append_assoc, ← List.append_assoc, List.count_append] at hc
  exact List.count_pos_iff.mp (by omega)

/-- a full per-pipe queue refuses the NEW message, whole: queue, wire and transport untouched -/
theorem B3_full_queue_drops_new (raw : Bool) (gm : SMsg) (i : Nat) (pp : Pipe)
    (hc : pp.closed = false) (he : (raw && pid i == gm.excl) = false)
    (hb : pp.busy.isNone = false) (hq : ¬ pp.sq.length < pp.sqCap) :
    offer raw gm i pp = ({ pp with offered := pp.offered ++ [gm], dropped := pp.dropped ++ [gm] }, []) :=
  offer_full hc he hb hq

/-! ### B4 — receive side -/

/-- delivered messages, followed by the queued ones, form a subsequence of the arrivals (so
    per pipe the delivery order is the arrival order and nothing is invented); arrivals are
    numbered strictly increasingly (so no duplicates); every message carries the id of its
    arrival pipe as raw header (cooked: none); the queue respects its depth -/
theorem B4_receive (evs : List Ev) :
    let s := reach evs
    (s.delivered ++ s.rq).Sublist s.arrived ∧ (s.arrived.map (·.gid)).Pairwise (· < ·) ∧
    (∀ r ∈ s.delivered ++ s.rq, r.m.hdr = stampHdr s.raw r.pipe) ∧ s.rq.length ≤ s.recvCap := by
  intro s
  have h := (inv_reach evs).recv
  exact ⟨h.sub, h.sortedA, fun r hr => h.hdr r (h.sub.subset hr), h.cap⟩

theorem B4_per_pipe_order (evs : List Ev) (p : Nat) :
    ((reach evs).delivered.filter (·.pipe == p)).Sublist ((reach evs).arrived.filter (·.pipe == p)) ∧
    ((reach evs).delivered.map (·.gid)).Nodup := by
  have h := (inv_reach evs).recv
  have hd : (reach evs).delivered.Sublist (reach evs).arrived := (List.sublist_append_left _ _).trans h.sub
  refine ⟨hd.filter _, ?_⟩
  have : ((reach evs).delivered.map (·.gid)).Pairwise (· < ·) := List.Pairwise.sublist (hd.map _) h.sortedA
  exact this.imp (fun hlt => Nat.ne_of_lt hlt)

/-- every arrival is delivered, queued, or dropped whole (full queue, shrink) — exactly once -/
theorem B4_arrivals_accounted (evs : List Ev) :
    (reach evs).arrived.Perm ((reach evs).delivered ++ (reach evs).rq ++ (reach evs).rdropped) :=
  List.perm_iff_count.mpr (inv_reach evs).recv.conserve

/-- a full receive queue drops the NEW message, whole (nobody waiting) -/
theorem B4_full_queue_drops_new (s : State) (p : Nat) (pp : Pipe) (b : Bytes) (hx : s.pipes[p]? = some pp)
    (hc : (pp.closed || !pp.armed) = false) (hw : s.rwait = []) (hl : ¬ s.rq.length < s.recvCap) :
    onRecvDone s p (.ok b) =
      ({ s with narrive := s.narrive + 1, arrived := s.arrived ++ [arrival s p b],
                rdropped := s.rdropped ++ [arrival s p b] }, [.rv 0, .parm p]) :=
  onRecvDone_full hx hc hw hl

/-! ### B5 — no echo -/

/-- raw mode: nothing on the wire or in the queue of pipe `i` names pipe `i` as its origin -/
theorem B5_no_echo (evs : List Ev) (hraw : (reach evs).raw = true) (i : Nat) (pp : Pipe)
    (hx : (reach evs).pipes[i]? = some pp) : ∀ m ∈ pp.wire ++ pp.sq, m.excl ≠ pid i :=
  ((inv_reach evs).send i pp hx).noecho hraw

/-- a message delivered from pipe `p` and sent again with its header (what a device does) is
    not sent back to `p` -/
theorem B5_resend_skips_origin (evs : List Ev) (r : RMsg) (hr : r ∈ (reach evs).delivered)
    (c : Option Nat) (a : Nat) (body : Bytes) (mode : Mode)
    (ho : (reach evs).opened = true) (hc : (reach evs).closed = false)
    (hf : (reach evs).rwait.any (·.aio == a) = false) (hraw : (reach evs).raw = true)
    (hp : r.pipe < maxPipes) (w : WMsg) :
    Out.psend r.pipe w ∉ (step (reach evs) (.send c a ⟨r.m.hdr, body⟩ mode)).2 := by
  have hh : r.m.hdr = stampHdr true r.pipe ++ [] := by
    have := (inv_reach evs).recv.hdr r
      (((List.sublist_append_left _ _).trans (inv_reach evs).recv.sub).subset hr)
    rw [hraw] at this
    simpa using this
  exact B1_never_to_origin _ c a ⟨r.m.hdr, body⟩ mode ho hc hf hraw r.pipe hp [] hh w

/-- BUS does not forward: an arrival never causes a transmission, cooked or raw -/
theorem B5_arrival_not_forwarded (s : State) (p : Nat) (r : Except Nat Bytes) (i : Nat) (w : WMsg) :
    Out.psend i w ∉ (onRecvDone s p r).2 :=
  onRecvDone_no_psend s p r i w

/-! ### B6 — pollable flags (feeds C15) -/

/-- `can_recv` is raised exactly when a non-blocking receive would succeed -/
theorem B6_readable (evs : List Ev) (a : Nat) :
    ((reach evs).readable = true ↔ ∃ m, (onRecv (reach evs) a .nb).2 = [Out.done a 0 (some m) false]) ∧
    ((reach evs).readable = false ↔ (onRecv (reach evs) a .nb).2 = [Out.done a Err.eagain none false]) := by
  have h := (inv_reach evs).recv.readable_iff
  cases hq : (reach evs).rq with
  | nil =>
    have hr : (reach evs).readable = false := by simp [h, hq]
    simp [onRecv, hq, hr]
  | cons gm rest =>
    have hr : (reach evs).readable = true := by simp [h, hq]
    rw [onRecv_deliver hq]
    simp [hr]

/-- the send descriptor is always reported writable, and a non-blocking send always succeeds (B2) -/
theorem B6_writable (s : State) (ho : s.opened = true) (hc : s.closed = false) :
    (step s .poll).2 = [Out.poll (some s.readable) (some true)] := by
  simp [step, stepOpen, ho, hc]

/-! ### B7 — ownership accounting (feeds C03) -/

/-- every message the send loop considered for a pipe is on that pipe's wire, in its queue, or
    released — exactly once -/
theorem B7_send_accounted (evs : List Ev) (i : Nat) (pp : Pipe) (hx : (reach evs).pipes[i]? = some pp) :
    pp.offered.Perm (pp.wire ++ pp.sq ++ pp.dropped) :=
  List.perm_iff_count.mpr ((inv_reach evs).send i pp hx).conserve

/-- a detached pipe holds no message (its queue was released, its in-flight message belongs to
    the transport's failed send) -/
theorem B7_closed_pipe_empty (evs : List Ev) (i : Nat) (pp : Pipe) (hx : (reach evs).pipes[i]? = some pp)
    (hcl : pp.closed = true) : pp.busy = none ∧ pp.sq = [] :=
  ((inv_reach evs).send i pp hx).closed_clean hcl

/-! ### non-vacuity -/

def busId : Nat := Nng.Generated.protoBus

/-- raw socket, two peers; a message arrives from pipe 0 and is received with header = id of
    pipe 0; sent again with that header it goes to pipe 1 only -/
def demo : List Ev :=
  [.openSock "bus" true, .pipeAdd busId, .pipeAdd busId, .recvDone 0 (.ok [1, 2]), .recv none 3 .nb,
   .send none 4 ⟨stampHdr true 0, [1, 2]⟩ .nb]

example : (run {} demo).2.getLast? =
    some [Out.psend 1 ⟨[], [1, 2]⟩, Out.done 4 0 none false] := by decide

example : (reach demo).opened = true ∧ (reach demo).closed = false ∧ (reach demo).raw = true ∧
    (reach demo).delivered.length = 1 ∧ (reach demo).pipes.length = 2 := by decide

/-- depth 1: the third send finds pipe 0 busy with a full queue and is dropped, whole -/
def demoFull : List Ev :=
  [.openSock "bus" false, .setopt none "send-buffer" "int" 1, .pipeAdd busId,
   .send none 0 ⟨[], [1]⟩ .nb, .send none 0 ⟨[], [2]⟩ .inf, .send none 0 ⟨[], [3]⟩ (.ms 0), .sendDone 0 0]

example : (run {} demoFull).2.drop 3 =
    [[Out.psend 0 ⟨[], [1]⟩, Out.done 0 0 none false], [Out.done 0 0 none false], [Out.done 0 0 none false],
     [Out.rv 0, Out.psend 0 ⟨[], [2]⟩]] := by decide

example : ((reach demoFull).pipes.map (fun pp => pp.dropped.map (·.m.body))) = [[[3]]] := by decide

end Nng.C09
