/-
  C09 — BUS.  Property theorems about the model `Nng.Bus` (src/sp/protocol/bus0/bus.c with
  finding F7 fixed), for ALL event sequences: `reach evs` is the state after any list of
  harness events from the initial state.  Helper lemmas live in Proofs/Bus*.lean.
  The last section proves that the executable trace predicate (`busJudge`, Spec/Bus.lean —
  the judge the check runs on every implementation trace) accepts every trace of the model:
  `bus_judge_accepts_model` (plain traces) and `bus_judge_accepts_model_probed` (traces with
  the harness' `pipe_id` probes, as Driver/Bus.lean feeds them to the judge); simulation in
  Proofs/BusJudge.lean.  It is no longer only tested on every run.
-/
import NngModel.Proofs.BusStep
import NngModel.Proofs.BusJudge
import NngModel.Spec.Bus
import NngModel.Generated.C09
namespace Nng.C09
open Nng Nng.Proto Nng.Bus

/-- the state after an arbitrary event history -/
def reach (evs : List Ev) : State := (run {} evs).1

theorem inv_reach (evs : List Ev) : Inv (reach evs) := inv_run _ evs inv_init

/-- the constants of the model are those of the C source -/
theorem proto_id : Nng.Bus.protoBus = Nng.Proto.protoId 7 0 := by decide

/-! ### B1 — fan-out: at most one wire copy per attached pipe, none for the origin -/

/-- one `send`, in any state and mode: pipe `i` is handed the message now iff it is
    attached, idle and not named by the raw header; what it is handed is the sent message
    (header minus the origin id in raw mode, no header in cooked mode), whole -/
theorem B1_fanout (s : State) (c : Option Nat) (a : Nat) (m : WMsg) (mode : Mode)
    (ho : s.opened = true) (hc : s.closed = false) (hf : s.rwait.any (·.aio == a) = false) (i : Nat) (w : WMsg) :
    Out.psend i w ∈ (step s (.send c a m mode)).2 ↔
      ∃ pp, s.pipes[i]? = some pp ∧ eligible s.raw (sendMsg s m) i pp ∧ w = (sendMsg s m).m := by
  rw [step_send c a m mode ho hc hf, onSend_outs]
  simp only [List.mem_append, List.mem_singleton, reduceCtorEq, or_false]
  rw [sendWire_mem]
  constructor
  · rintro ⟨j, pp, hx, he, ho'⟩
    injection ho' with h1 h2
    subst h1
    exact ⟨pp, hx, he, h2⟩
  · rintro ⟨pp, hx, he, rfl⟩
    exact ⟨i, pp, hx, he, rfl⟩

/-- one `send` puts at most one copy on the wire of each pipe -/
theorem B1_at_most_once (s : State) (c : Option Nat) (a : Nat) (m : WMsg) (mode : Mode)
    (ho : s.opened = true) (hc : s.closed = false) (hf : s.rwait.any (·.aio == a) = false) (i : Nat) :
    (step s (.send c a m mode)).2.countP (isPsendTo i) ≤ 1 := by
  rw [step_send c a m mode ho hc hf, onSend_outs, List.countP_append]
  have := sendWire_at_most_once s m i
  simp [isPsendTo]
  exact this

/-- raw mode: a message whose header starts with the id of pipe `p` (as stamped on a message
    that arrived on `p`) is not sent to `p` -/
theorem B1_never_to_origin (s : State) (c : Option Nat) (a : Nat) (m : WMsg) (mode : Mode)
    (ho : s.opened = true) (hc : s.closed = false) (hf : s.rwait.any (·.aio == a) = false)
    (hraw : s.raw = true) (p : Nat) (hp : p < maxPipes) (rest : Bytes) (hh : m.hdr = stampHdr true p ++ rest) (w : WMsg) :
    Out.psend p w ∉ (step s (.send c a m mode)).2 := by
  rw [step_send c a m mode ho hc hf, onSend_outs]
  simp only [List.mem_append, List.mem_singleton, reduceCtorEq, or_false]
  exact sendWire_not_origin s m p rest w hraw hp hh

/-- cooked mode: every attached idle pipe gets the message now, without a header -/
theorem B1_cooked_all (s : State) (c : Option Nat) (a : Nat) (m : WMsg) (mode : Mode)
    (ho : s.opened = true) (hc : s.closed = false) (hf : s.rwait.any (·.aio == a) = false)
    (hraw : s.raw = false) (i : Nat) (pp : Pipe) (hx : s.pipes[i]? = some pp) (hcl : pp.closed = false) (hb : pp.busy = none) :
    Out.psend i ⟨[], m.body⟩ ∈ (step s (.send c a m mode)).2 := by
  rw [B1_fanout s c a m mode ho hc hf]
  refine ⟨pp, hx, ⟨hcl, by simp [hraw], hb⟩, ?_⟩
  simp [sendMsg, parseSender, hraw]

/-! ### B2 — send never blocks -/

/-- in every state and every mode (non-blocking, zero, finite, default or infinite timeout) a
    send completes in its own step with 0; that is the only completion, and no aio is left
    parked: never EAGAIN, never a timeout -/
theorem B2_send_never_blocks (s : State) (c : Option Nat) (a : Nat) (m : WMsg) (mode : Mode)
    (ho : s.opened = true) (hc : s.closed = false) (hf : s.rwait.any (·.aio == a) = false) :
    Out.done a 0 none false ∈ (step s (.send c a m mode)).2 ∧
    (∀ a' rv mm mb, Out.done a' rv mm mb ∈ (step s (.send c a m mode)).2 → a' = a ∧ rv = 0 ∧ mm = none ∧ mb = false) ∧
    (step s (.send c a m mode)).1.rwait = s.rwait := by
  rw [step_send c a m mode ho hc hf, onSend_outs]
  refine ⟨by simp, ?_, rfl⟩
  intro a' rv mm mb hmem
  rcases List.mem_append.mp hmem with hmem | hmem
  · obtain ⟨_, _, _, _, ho'⟩ := (sendWire_mem s m _).mp hmem
    cases ho'
  · simp at hmem
    exact hmem

/-! ### B3 — per-pipe wire order, at most once, whole drops -/

/-- on every pipe the wire history is in strictly increasing send order: a subsequence of the
    send order, every message at most once; the same holds for wire history followed by the
    queue (what is queued will not overtake) -/
theorem B3_wire_order (evs : List Ev) (i : Nat) (pp : Pipe) (hx : (reach evs).pipes[i]? = some pp) :
    ((pp.wire ++ pp.sq).map (·.gid)).Pairwise (· < ·) ∧ (pp.wire.map (·.gid)).Nodup ∧
    (∀ m ∈ pp.wire ++ pp.sq, m.gid < (reach evs).nsend) := by
  have h := (inv_reach evs).send i pp hx
  refine ⟨h.sorted, ?_, h.bound⟩
  have hs : (pp.wire.map (·.gid)).Pairwise (· < ·) :=
    List.Pairwise.sublist ((List.sublist_append_left pp.wire pp.sq).map _) h.sorted
  exact hs.imp (fun hlt => Nat.ne_of_lt hlt)

/-- what is on a pipe's wire or in its queue was offered to `send` (whole: the same header and
    body), and the queue never exceeds the configured depth -/
theorem B3_wire_was_sent (evs : List Ev) (i : Nat) (pp : Pipe) (hx : (reach evs).pipes[i]? = some pp) :
    (∀ m ∈ pp.wire ++ pp.sq, m ∈ pp.offered) ∧ pp.sq.length ≤ pp.sqCap := by
  have h := (inv_reach evs).send i pp hx
  refine ⟨?_, h.cap⟩
  intro m hm
  have hc := h.conserve m
  have hpos : 0 < (pp.wire ++ pp.sq).count m := List.count_pos_iff.mpr hm
  rw [List.append_assoc, ← List.append_assoc, List.count_append] at hc
  exact List.count_pos_iff.mp (by omega)

/-- a full per-pipe queue refuses the NEW message, whole: queue, wire and transport untouched -/
theorem B3_full_queue_drops_new (raw : Bool) (gm : SMsg) (i : Nat) (pp : Pipe)
    (hc : pp.closed = false) (he : (raw && pid i == gm.excl) = false)
    (hb : pp.busy.isNone = false) (hq : ¬ pp.sq.length < pp.sqCap) :
    offer raw gm i pp = ({ pp with offered := pp.offered ++ [gm], dropped := pp.dropped ++ [gm] }, []) :=
  offer_full hc he hb hq

/-! ### B4 — receive side -/

/-- delivered messages, followed by the queued ones, form a subsequence of the arrivals (so
    per pipe the delivery order is the arrival order and nothing is invented); arrivals are
    numbered strictly increasingly (so no duplicates); every message carries the id of its
    arrival pipe as raw header (cooked: none); the queue respects its depth -/
theorem B4_receive (evs : List Ev) :
    let s := reach evs
    (s.delivered ++ s.rq).Sublist s.arrived ∧ (s.arrived.map (·.gid)).Pairwise (· < ·) ∧
    (∀ r ∈ s.delivered ++ s.rq, r.m.hdr = stampHdr s.raw r.pipe) ∧ s.rq.length ≤ s.recvCap := by
  intro s
  have h := (inv_reach evs).recv
  exact ⟨h.sub, h.sortedA, fun r hr => h.hdr r (h.sub.subset hr), h.cap⟩

theorem B4_per_pipe_order (evs : List Ev) (p : Nat) :
    ((reach evs).delivered.filter (·.pipe == p)).Sublist ((reach evs).arrived.filter (·.pipe == p)) ∧
    ((reach evs).delivered.map (·.gid)).Nodup := by
  have h := (inv_reach evs).recv
  have hd : (reach evs).delivered.Sublist (reach evs).arrived := (List.sublist_append_left _ _).trans h.sub
  refine ⟨hd.filter _, ?_⟩
  have : ((reach evs).delivered.map (·.gid)).Pairwise (· < ·) := List.Pairwise.sublist (hd.map _) h.sortedA
  exact this.imp (fun hlt => Nat.ne_of_lt hlt)

/-- every arrival is delivered, queued, or dropped whole (full queue, shrink) — exactly once -/
theorem B4_arrivals_accounted (evs : List Ev) :
    (reach evs).arrived.Perm ((reach evs).delivered ++ (reach evs).rq ++ (reach evs).rdropped) :=
  List.perm_iff_count.mpr (inv_reach evs).recv.conserve

/-- a full receive queue drops the NEW message, whole (nobody waiting) -/
theorem B4_full_queue_drops_new (s : State) (p : Nat) (pp : Pipe) (b : Bytes) (hx : s.pipes[p]? = some pp)
    (hc : (pp.closed || !pp.armed) = false) (hw : s.rwait = []) (hl : ¬ s.rq.length < s.recvCap) :
    onRecvDone s p (.ok b) =
      ({ s with narrive := s.narrive + 1, arrived := s.arrived ++ [arrival s p b],
                rdropped := s.rdropped ++ [arrival s p b] }, [.rv 0, .parm p]) :=
  onRecvDone_full hx hc hw hl

/-! ### B5 — no echo -/

/-- raw mode: nothing on the wire or in the queue of pipe `i` names pipe `i` as its origin -/
theorem B5_no_echo (evs : List Ev) (hraw : (reach evs).raw = true) (i : Nat) (pp : Pipe)
    (hx : (reach evs).pipes[i]? = some pp) : ∀ m ∈ pp.wire ++ pp.sq, m.excl ≠ pid i :=
  ((inv_reach evs).send i pp hx).noecho hraw

/-- a message delivered from pipe `p` and sent again with its header (what a device does) is
    not sent back to `p` -/
theorem B5_resend_skips_origin (evs : List Ev) (r : RMsg) (hr : r ∈ (reach evs).delivered)
    (c : Option Nat) (a : Nat) (body : Bytes) (mode : Mode)
    (ho : (reach evs).opened = true) (hc : (reach evs).closed = false)
    (hf : (reach evs).rwait.any (·.aio == a) = false) (hraw : (reach evs).raw = true)
    (hp : r.pipe < maxPipes) (w : WMsg) :
    Out.psend r.pipe w ∉ (step (reach evs) (.send c a ⟨r.m.hdr, body⟩ mode)).2 := by
  have hh : r.m.hdr = stampHdr true r.pipe ++ [] := by
    have := (inv_reach evs).recv.hdr r
      (((List.sublist_append_left _ _).trans (inv_reach evs).recv.sub).subset hr)
    rw [hraw] at this
    simpa using this
  exact B1_never_to_origin _ c a ⟨r.m.hdr, body⟩ mode ho hc hf hraw r.pipe hp [] hh w

/-- BUS does not forward: an arrival never causes a transmission, cooked or raw -/
theorem B5_arrival_not_forwarded (s : State) (p : Nat) (r : Except Nat Bytes) (i : Nat) (w : WMsg) :
    Out.psend i w ∉ (onRecvDone s p r).2 :=
  onRecvDone_no_psend s p r i w

/-! ### B6 — pollable flags (feeds C15) -/

/-- `can_recv` is raised exactly when a non-blocking receive would succeed -/
theorem B6_readable (evs : List Ev) (a : Nat) :
    ((reach evs).readable = true ↔ ∃ m, (onRecv (reach evs) a .nb).2 = [Out.done a 0 (some m) false]) ∧
    ((reach evs).readable = false ↔ (onRecv (reach evs) a .nb).2 = [Out.done a Err.eagain none false]) := by
  have h := (inv_reach evs).recv.readable_iff
  cases hq : (reach evs).rq with
  | nil =>
    have hr : (reach evs).readable = false := by simp [h, hq]
    simp [onRecv, hq, hr]
  | cons gm rest =>
    have hr : (reach evs).readable = true := by simp [h, hq]
    rw [onRecv_deliver hq]
    simp [hr]

/-- the send descriptor is always reported writable, and a non-blocking send always succeeds (B2) -/
theorem B6_writable (s : State) (ho : s.opened = true) (hc : s.closed = false) :
    (step s .poll).2 = [Out.poll (some s.readable) (some true)] := by
  simp [step, stepOpen, ho, hc]

/-! ### B7 — ownership accounting (feeds C03) -/

/-- every message the send loop considered for a pipe is on that pipe's wire, in its queue, or
    released — exactly once -/
theorem B7_send_accounted (evs : List Ev) (i : Nat) (pp : Pipe) (hx : (reach evs).pipes[i]? = some pp) :
    pp.offered.Perm (pp.wire ++ pp.sq ++ pp.dropped) :=
  List.perm_iff_count.mpr ((inv_reach evs).send i pp hx).conserve

/-- a detached pipe holds no message (its queue was released, its in-flight message belongs to
    the transport's failed send) -/
theorem B7_closed_pipe_empty (evs : List Ev) (i : Nat) (pp : Pipe) (hx : (reach evs).pipes[i]? = some pp)
    (hcl : pp.closed = true) : pp.busy = none ∧ pp.sq = [] :=
  ((inv_reach evs).send i pp hx).closed_clean hcl

/-! ### non-vacuity -/

def busId : Nat := Nng.Generated.protoBus

/-- raw socket, two peers; a message arrives from pipe 0 and is received with header = id of
    pipe 0; sent again with that header it goes to pipe 1 only -/
def demo : List Ev :=
  [.openSock "bus" true, .pipeAdd busId, .pipeAdd busId, .recvDone 0 (.ok [1, 2]), .recv none 3 .nb,
   .send none 4 ⟨stampHdr true 0, [1, 2]⟩ .nb]

example : (run {} demo).2.getLast? =
    some [Out.psend 1 ⟨[], [1, 2]⟩, Out.done 4 0 none false] := by decide

example : (reach demo).opened = true ∧ (reach demo).closed = false ∧ (reach demo).raw = true ∧
    (reach demo).delivered.length = 1 ∧ (reach demo).pipes.length = 2 := by decide

/-- depth 1: the third send finds pipe 0 busy with a full queue and is dropped, whole -/
def demoFull : List Ev :=
  [.openSock "bus" false, .setopt none "send-buffer" "int" 1, .pipeAdd busId,
   .send none 0 ⟨[], [1]⟩ .nb, .send none 0 ⟨[], [2]⟩ .inf, .send none 0 ⟨[], [3]⟩ (.ms 0), .sendDone 0 0]

example : (run {} demoFull).2.drop 3 =
    [[Out.psend 0 ⟨[], [1]⟩, Out.done 0 0 none false], [Out.done 0 0 none false], [Out.done 0 0 none false],
     [Out.rv 0, Out.psend 0 ⟨[], [2]⟩]] := by decide

example : ((reach demoFull).pipes.map (fun pp => pp.dropped.map (·.m.body))) = [[[3]]] := by decide

/-! ### JUDGE — the trace predicate of Spec/Bus.lean accepts every trace of the model -/

open Nng.BusSpec in
/-- JUDGE (BUS), plain traces.  For every event sequence whose send bodies are pairwise
    distinct (the judge identifies a wire message with a send by its body), without the
    harness-only misuse `abort aio 0`, and in which no raw send names an attached pipe as
    origin (without `pipe_id` probes the judge knows no pipe id; see the probed version),
    the judge accepts the trace of the model: events zipped with the model's outputs. -/
theorem bus_judge_accepts_model (evs : List Ev) (hd : DistinctBodies evs) (hn : NoAbort0 evs)
    (ho : NoLiveOrigin {} evs) : busJudge (evs.zip (run {} evs).2) = none := by
  rw [← traceOf_eq_zip]; exact bus_judge_ok evs hd hn ho

/-- JUDGE (BUS), traces with `pipe_id` probes — the shape Driver/Bus.lean produces and judges
    (`traceP`: the model answers a probe with `pipeIdOf`; `busJudgeP`: `busStep` on event
    lines, `learnId` on probe lines).  The origin hypothesis becomes: a raw send whose header
    names an attached pipe names one that was probed while attached (the check probes every
    pipe right after `pipe_add`).  Raw origin exclusion is covered by this version. -/
theorem bus_judge_accepts_model_probed (items : List Item) (hd : DistinctBodiesI items)
    (hn : NoAbort0I items) (hk : OriginsKnown [] {} items) : busJudgeP (traceP {} items) = none :=
  bus_judge_probed_ok items hd hn hk

/-- the plain judge is the probed judge on a trace without probes -/
theorem bus_judge_plain_is_probed (evs : List Ev) :
    busJudgeP (traceP {} (evs.map Item.ev)) = Nng.BusSpec.busJudge (evs.zip (run {} evs).2) := by
  rw [traceP_ev, busJudgeP_plain, traceOf_eq_zip]

/-- a syntactic sufficient condition for `NoLiveOrigin`: no send carries a 4-byte header -/
def shortHdr : Ev → Bool
  | .send _ _ m _ => m.hdr.length < 4
  | _ => true

theorem noLiveOrigin_of_short : ∀ (evs : List Ev) (s : State), (∀ e ∈ evs, shortHdr e = true) →
    NoLiveOrigin s evs
  | [], _, _ => trivial
  | e :: es, s, h => by
    refine ⟨?_, noLiveOrigin_of_short es _ (fun e' he' => h e' (by simp [he']))⟩
    have h1 := h e (by simp)
    cases e with
    | send c a m mode =>
      intro _ hl
      simp [shortHdr] at h1
      omega
    | _ => trivial

/-! the hypotheses are needed -/

/-- two sends with the same body: the judge takes the second wire message for the first send -/
theorem bus_judge_needs_distinct_bodies :
    Nng.BusSpec.busJudge (traceOf {} [.openSock "bus" false, .pipeAdd busId, .send none 0 ⟨[], [1]⟩ .nb,
      .sendDone 0 0, .send none 0 ⟨[], [1]⟩ .nb]) ≠ none := by decide

/-- `abort aio 0` completes a parked receive with rv 0 and no message -/
theorem bus_judge_needs_no_abort0 :
    Nng.BusSpec.busJudge (traceOf {} [.openSock "bus" false, .recv none 1 .inf, .abort 1 0]) ≠ none := by decide

/-- raw send naming pipe 0 as origin: the model skips pipe 0; a judge that was never told the
    id of pipe 0 expects the message there -/
theorem bus_judge_needs_known_origin :
    Nng.BusSpec.busJudge (traceOf {} [.openSock "bus" true, .pipeAdd busId,
      .send none 0 ⟨stampHdr true 0, [1]⟩ .nb]) ≠ none := by decide

/-! non-vacuity of the judge theorems -/

/-- cooked, two peers, queue depth 1: direct hand-off, queued, dropped whole, send
    completion draining the queue, arrival with and without a waiting receiver, expiry, close -/
def demoJudge : List Ev :=
  [.openSock "bus" false, .setopt none "send-buffer" "int" 1, .pipeAdd busId, .pipeAdd busId,
   .send none 0 ⟨[], [1]⟩ .nb, .send none 0 ⟨[9], [2]⟩ .inf, .send none 0 ⟨[], [3]⟩ (.ms 0), .sendDone 0 0,
   .recv none 5 (.ms 10), .recvDone 1 (.ok [7]), .recvDone 1 (.ok [8]), .recv none 6 .nb, .poll,
   .recv none 7 (.ms 5), .advance 100, .pipeDrop 1, .close]

example : DistinctBodies demoJudge ∧ NoAbort0 demoJudge ∧ NoLiveOrigin {} demoJudge ∧
    Nng.BusSpec.busJudge (demoJudge.zip (run {} demoJudge).2) = none :=
  ⟨by unfold DistinctBodies sendBodies; decide, by unfold NoAbort0; decide,
   noLiveOrigin_of_short _ _ (by decide), by decide⟩

/-- raw, two probed peers: a message arrives from pipe 0, is received (header = id of pipe 0)
    and sent again with that header: it goes to pipe 1 only, and the judge — told the ids —
    accepts that -/
def demoProbed : List Item :=
  [.ev (.openSock "bus" true), .ev (.pipeAdd busId), .probe 0, .ev (.pipeAdd busId), .probe 1,
   .ev (.recvDone 0 (.ok [1, 2])), .ev (.recv none 3 .nb), .ev (.send none 4 ⟨stampHdr true 0, [1, 2]⟩ .nb)]

example : DistinctBodiesI demoProbed ∧ NoAbort0I demoProbed ∧ busJudgeP (traceP {} demoProbed) = none :=
  ⟨by unfold DistinctBodiesI; decide, by unfold NoAbort0I; decide, by decide⟩

example : OriginsKnown [] {} demoProbed := by
  refine ⟨trivial, trivial, trivial, trivial, trivial, ?_, trivial⟩
  intro _ _ i pp _ _ hp
  have h0 : beDecode ((stampHdr true 0).take 4) = pid 0 := by
    have := parseSender_stamp 0 [] (by decide)
    have hl : (stampHdr true 0).length ≥ 4 := by simp [stampHdr]
    simp only [List.append_nil, parseSender, hl, if_true] at this
    exact congrArg Prod.fst this
  rw [h0] at hp
  have : i = 0 := (pid_inj hp).symm
  subst this
  decide

end Nng.C09
