/- C10 ("close always terminates, completes everything, invalidates handles") and C02 ("every
   asynchronous operation completes exactly once"), the poller layer under every stream / UDP transport:
   src/platform/posix/posix_pollq_epoll.c - ONE nni_posix_pfd on one poller thread, K client threads and
   the callback - for ALL schedules, all K, all client programs and callback scripts.

   `s = reach progs scripts sched` is the state after the schedule; `respects (init progs scripts) sched`
   says that every call BEGAN inside the contract K1-K5 (Model/Pfd.lean `opAllowed`; audit of the callers
   in integration/PFD.md).  Theorems without that hypothesis hold for every schedule.

   (a) the callback never overlaps itself; it is neither running nor invoked after the stop that won
       pfd->stopped has returned (hence after fini), and no later step invokes it;
   (b) nothing deadlocks: if no thread can move (the descriptor never becoming ready) every client has
       finished - a thread inside stop is always able to move or waits for a poller thread that is;
       every run has at most (14 + K) * (number of calls) effective steps, whatever the scheduler does;
   (c) every event epoll_wait reports for the pfd is handed to exactly one callback invocation; the events
       of the last successful arm stay enabled in the epoll set until reported (level-triggered: an event
       that was ready before the arm still fires); the epoll mask covers pfd->events; what is NOT
       guaranteed is shown by `stale_clear_drops_rearmed_event`;
   (d) no access to the pfd after its memory is released, no system call on / callback for the descriptor
       after close(fd), and the descriptor is out of the epoll set when close(fd) runs;
   (e) close is idempotent (a second call is one test-and-set); after its EPOLL_CTL_DEL at most ONE more
       callback begins (an event harvested before the DEL) and it carries whatever was harvested - the code
       gives no 'closed' indication of its own (`close_gives_no_indication`).
   Each clause of the contract is shown necessary by a `decide`d counterexample (the same schedules are
   replayed on the real code by vlib/props/c10_pfd.py, "demos").  `judge_model`: the executable
   specification that judges the real code's observations accepts every contract-respecting run of the model. -/
import NngModel.Proofs.PfdJudge
import NngModel.Generated.C10P
namespace Nng.C10Pfd
open Nng.Pfd Nng.PfdSpec

/-! ### (a) -/

/-- all schedules: callback invocations are properly nested counts - never two at once -/
theorem callback_never_overlaps_itself (progs scripts : List (List Op)) (sched : List Choice) :
    let s := reach progs scripts sched
    s.g.cbEnded ≤ s.g.cbBegun ∧ s.g.cbBegun ≤ s.g.cbEnded + 1 ∧ (s.g.inCb = true ↔ s.g.cbBegun = s.g.cbEnded + 1) := by
  have h := (sinv_reach progs scripts sched).cb
  simp only
  cases hc : (reach progs scripts sched).g.inCb <;> simp [hc] at h ⊢ <;> omega

/-- within the contract the flag `late` (callback begun after, or still running when, the winning stop
    or fini returned) is never raised; and once that stop has returned the callback is not running, no
    event of the pfd is pending in the poller, the descriptor is out of the epoll set, the pfd is off the
    reap list -/
theorem no_callback_after_stop_returned (progs scripts : List (List Op)) (sched : List Choice)
    (hr : respects (init progs scripts) sched = true) :
    let s := reach progs scripts sched
    s.g.late = false ∧
    (s.g.synced = true → s.g.inCb = false ∧ pfdCount s.p = 0 ∧ s.p.pc ≠ .inCb ∧ s.g.reg = false ∧ s.g.stopped = true) ∧
    (s.g.finiDone = true → s.g.synced = true ∧ s.g.onReap = false) := by
  have hs := sinv_reach progs scripts sched
  have hk := kinv_reach progs scripts sched hr
  refine ⟨hk.flags.1, ?_, fun hf => ⟨(hk.fin hf).1, (hk.fin hf).2.2⟩⟩
  intro hsy
  obtain ⟨hb, hcd, hst⟩ := hk.syn hsy
  simp only [pfdBusy, not_or, Nat.not_lt, Nat.le_zero_eq] at hb
  refine ⟨?_, hb.1, hb.2, (hk.cdone hcd).2.2, hst⟩
  cases hi : (reach progs scripts sched).g.inCb with
  | false => rfl
  | true => exact absurd (hs.inCbEq.mp hi) hb.2

/-- ... and it stays that way: after the winning stop has returned no further step begins a callback -/
theorem no_callback_begins_after_stop_returned (progs scripts : List (List Op)) (sched more : List Choice)
    (hr : respects (init progs scripts) (sched ++ more) = true)
    (hsy : (reach progs scripts sched).g.synced = true) :
    (reach progs scripts (sched ++ more)).g.cbBegun = (reach progs scripts sched).g.cbBegun := by
  rw [respects_append, Bool.and_eq_true] at hr
  have hs := sinv_reach progs scripts sched
  have hk := kinv_reach progs scripts sched hr.1
  have := synced_run hs hk hsy more hr.2
  simp only [reach, run_append]
  exact this.2

/-! ### (b) -/

/-- no deadlock: within the contract, if no thread can move even though nothing more is asked of the
    descriptor, every client program has run to its end (no stop / fini / close is left hanging) -/
theorem stop_and_fini_never_deadlock (progs scripts : List (List Op)) (sched : List Choice)
    (hr : respects (init progs scripts) sched = true) :
    let s := reach progs scripts sched
    s.live = false → ∀ c ∈ s.cs, c.finished = true :=
  stuck_finished (sinv_reach progs scripts sched) (kinv_reach progs scripts sched hr)

/-- a thread asleep inside stop is always waiting for a poller that has the wake-up in hand -/
theorem sleeper_will_be_woken (progs scripts : List (List Op)) (sched : List Choice) (t : Tid) :
    let s := reach progs scripts sched
    frameOf s t = .stopSleep →
      s.g.onReap = true ∧ ((∃ u, frameOf s u = .stopWrite) ∨ 0 < s.g.evfd ∨ (s.p.pc ≠ .wait ∧ s.p.reap = true)) := by
  intro s h
  have hs := sinv_reach progs scripts sched
  exact ⟨hs.sl t h, hs.wk (hs.sl t h)⟩

/-- all schedules, any scheduler, any readiness oracle: at most (14 + K) effective steps per call -/
theorem steps_bounded (progs scripts : List (List Op)) (sched : List Choice) :
    effSteps (init progs scripts) sched ≤ (14 + progs.length) * nOps progs scripts := by
  have h1 := effSteps_le (sinv_init progs scripts) sched
  have h2 := mu_init progs scripts
  omega

theorem effective_step_decreases (progs scripts : List (List Op)) (sched : List Choice) (ch : Choice) :
    let s := reach progs scripts sched
    step s ch = s ∨ mu (step s ch) < mu s :=
  mu_step (sinv_reach progs scripts sched) ch

/-! ### (c) -/

/-- all schedules: every event of the pfd returned by epoll_wait is handed to exactly one callback
    invocation (`pfdCount` = harvested, not yet handed over: at most one), and when the poller is back in
    epoll_wait every harvested event has been delivered and its callback has returned -/
theorem reported_events_dispatched_exactly_once (progs scripts : List (List Op)) (sched : List Choice) :
    let s := reach progs scripts sched
    s.g.harvested = s.g.cbBegun + pfdCount s.p ∧ pfdCount s.p ≤ 1 ∧
    (s.p.pc = .wait → s.g.harvested = s.g.cbBegun ∧ s.g.cbBegun = s.g.cbEnded) := by
  have hs := sinv_reach progs scripts sched
  refine ⟨hs.hv, hs.cnt1, ?_⟩
  intro hw
  have hb := hs.waitB hw
  have hv := hs.hv
  have hcb := hs.cb
  have hin : (reach progs scripts sched).g.inCb = false := by
    cases hi : (reach progs scripts sched).g.inCb with
    | false => rfl
    | true => have := hs.inCbEq.mp hi; rw [hw] at this; cases this
  simp only [pfdCount, hb, hw, hin] at hv hcb
  simp at hv hcb
  exact ⟨hv, hcb⟩

/-- all schedules: the events of the last successful arm (since the last report / DEL / close(fd)) are in
    the epoll set and enabled - no window in which an armed event is not watched -/
theorem last_arm_is_watched (progs scripts : List (List Op)) (sched : List Choice) :
    let s := reach progs scripts sched
    s.g.lastArm.isEmpty = false → s.g.reg = true ∧ s.g.en = true ∧ s.g.lastArm.subset s.g.mask = true :=
  (sinv_reach progs scripts sched).la

/-- level-triggered: whenever the entry is enabled and the descriptor is ready for one of its events - no
    matter whether it became ready before or after the arm - the poller's epoll_wait reports it -/
theorem ready_armed_event_is_reported (s : State) (ready : Evs) (wf : Bool)
    (hw : s.p.pc = .wait) (hreg : s.g.reg = true) (hen : s.g.en = true) (hrdy : (deliver ready s.g.mask).isEmpty = false) :
    (step s ⟨.p, ready, wf⟩).g.harvested = s.g.harvested + 1 ∧ (step s ⟨.p, ready, wf⟩).g.hm = deliver ready s.g.mask ∧
    BEv.pfd (deliver ready s.g.mask) ∈ (step s ⟨.p, ready, wf⟩).p.batch := by
  have hsh := harvest_shape s.g ready wf
  simp only [hreg, hen, Bool.and_self, if_true, hrdy] at hsh
  cases wf <;> by_cases he : 0 < s.g.evfd <;>
    simp [step, pstep, hw, hsh, he, BEv.isPfd]

/-- within the contract: the epoll mask covers the record pfd->events whenever no arm is in progress, and
    an arm in progress is about to install a mask that does -/
theorem epoll_mask_covers_recorded_events (progs scripts : List (List Op)) (sched : List Choice)
    (hr : respects (init progs scripts) sched = true) :
    let s := reach progs scripts sched
    (s.g.reg = true → (∀ t, (frameOf s t).isArm = false) → s.g.events.subset s.g.mask = true) ∧
    (∀ t e r w, frameOf s t = .armCtl e r w → s.g.events.subset e = true ∧ r.subset e = true ∧ w = s.g.added) := by
  have hs := sinv_reach progs scripts sched
  have hk := kinv_reach progs scripts sched hr
  exact ⟨hk.cov, fun t e r w h => ⟨(hk.armW t e r w h).1, hs.reqE t e r w h, (hk.armW t e r w h).2⟩⟩

def IN : Evs := ⟨true, false, false, false⟩
def OUT : Evs := ⟨false, true, false, false⟩
def c (i : Nat) : Choice := { tid := .c i }
def p : Choice := { tid := .p }
def pr (r : Evs) (wf : Bool := true) : Choice := { tid := .p, ready := r, wakeFirst := wf }

/-- indices of the steps of a schedule that begin a call outside the contract -/
def violations (s : State) : List Choice → Nat → List Nat
  | [], _ => []
  | ch :: rest, k => (if allowed s ch then [] else [k]) ++ violations (step s ch) rest (k + 1)

/-- what the code does NOT guarantee (within the contract): events armed earlier are kept in the mask only
    through the record pfd->events, and the poller clears that record AFTER the event was reported, without
    the owner's mutex.  Here POLLIN is reported, re-armed (successfully) before the poller's clearing, and a
    later arm of POLLOUT installs the mask {POLLOUT}: POLLIN is no longer watched although both arms of it
    returned 0 and no callback has begun since.  Harmless for the transports (the pending callback
    recomputes what it wants under the owner's mutex and re-arms), an observation, not a defect. -/
theorem stale_clear_drops_rearmed_event :
    let sched := [c 0, c 0, pr IN, c 0, c 0, p, c 1, c 1]
    let s := reach [[.arm IN, .arm IN], [.arm OUT]] [[]] sched
    respects (init [[.arm IN, .arm IN], [.arm OUT]] [[]]) sched = true ∧
    s.cs.map (·.res) = [[.ok, .ok], [.ok]] ∧ s.g.cbBegun = 0 ∧ s.g.mask = OUT ∧ s.g.en = true ∧ s.p.pc = .cbBegin := by
  decide

/-! ### (d) -/

/-- within the contract: no access to the pfd after its memory was released, no system call on / callback
    for the descriptor after close(fd), and close(fd) finds the descriptor out of the epoll set -/
theorem no_use_after_release_or_close (progs scripts : List (List Op)) (sched : List Choice)
    (hr : respects (init progs scripts) sched = true) :
    let s := reach progs scripts sched
    s.g.uaf = false ∧ s.g.badfd = false ∧ s.g.regAtClose = false ∧
    (s.g.freed = true → s.g.finiDone = true ∧ (∀ t, frameOf s t = .idle) ∧ s.g.onReap = false ∧ pfdCount s.p = 0 ∧ s.p.pc ≠ .inCb) := by
  have hk := kinv_reach progs scripts sched hr
  refine ⟨hk.flags.2.1, hk.flags.2.2.1, hk.flags.2.2.2, ?_⟩
  intro hf
  have hfd := hk.freed hf
  obtain ⟨hsy, hid, hon⟩ := hk.fin hfd
  have hb := (hk.syn hsy).1
  simp only [pfdBusy, not_or, Nat.not_lt, Nat.le_zero_eq] at hb
  exact ⟨hfd, hid, hon, hb.1, hb.2⟩

/-- all schedules: the descriptor is open exactly until fini, and a closed descriptor is not in the epoll set -/
theorem descriptor_open_until_fini (progs scripts : List (List Op)) (sched : List Choice) :
    let s := reach progs scripts sched
    s.g.fdOpen = !s.g.finiDone ∧ (s.g.fdOpen = false → s.g.reg = false) :=
  ⟨(sinv_reach progs scripts sched).fdFini, (sinv_reach progs scripts sched).fdReg⟩

/-! ### (e) -/

/-- a close call that finds pfd->closing set is ONE step (the test-and-set) that performs no system call
    and changes nothing but ghost state -/
theorem close_is_idempotent (g : G) (t : Tid) (h : g.closing = true) :
    callStep g t .idle .close = { g := { touch g with closeStarted := true }, frame := .idle, fin := true } := by
  simp [callStep, touch, h]

/-- within the contract: before the EPOLL_CTL_DEL of close no callback is counted; after it at most ONE
    more callback begins (an event harvested before the DEL), the descriptor stays out of the epoll set -/
theorem at_most_one_callback_after_close (progs scripts : List (List Op)) (sched : List Choice)
    (hr : respects (init progs scripts) sched = true) :
    let s := reach progs scripts sched
    (s.g.closeDone = false → s.g.cbAfterClose = 0) ∧
    (s.g.closeDone = true → s.g.cbAfterClose + pfdCount s.p ≤ 1 ∧ s.g.reg = false ∧ s.g.lastArm.isEmpty = true) := by
  have hs := sinv_reach progs scripts sched
  have hk := kinv_reach progs scripts sched hr
  refine ⟨hs.cac0, fun h => ⟨hk.cac h, (hk.cdone h).2.2, ?_⟩⟩
  cases hl : (reach progs scripts sched).g.lastArm.isEmpty with
  | true => rfl
  | false => have := (hs.la hl).1; rw [(hk.cdone h).2.2] at this; cases this

/-- the code gives no 'closed' indication: here close completes, nothing can move any more, and the
    callback was never invoked -/
theorem close_gives_no_indication :
    let sched := [c 0, c 0, c 0, c 0, c 0]
    let s := reach [[.arm IN, .close]] [] sched
    respects (init [[.arm IN, .close]] []) sched = true ∧ s.g.closeDone = true ∧ s.live = false ∧ s.g.cbBegun = 0 := by
  decide

/-! ### the contract: every clause is necessary -/

/-- K1 (two arms overlap): both read pfd->added = false, the second EPOLL_CTL_ADD fails with EEXIST and
    its event is recorded in pfd->events but not watched -/
theorem k1_arm_arm_necessary :
    let sched := [c 0, c 1, c 0, c 1]
    let s := reach [[.arm IN], [.arm OUT]] [] sched
    violations (init [[.arm IN], [.arm OUT]] []) sched 0 = [1] ∧
    s.cs.map (·.res) = [[.ok], [.eexist]] ∧ s.g.events.subset s.g.mask = false := by
  decide

/-- K1 (an arm straddles a close: first arm, never added): the ADD lands after the DEL, the stop
    returns, fini and free run - and then the callback runs -/
theorem k1_arm_close_necessary :
    let progs := [[.arm IN], [.stop, .fini, .free]]
    let sched := [c 0, c 1, c 1, c 1, c 1, c 0, c 1, c 1, pr Evs.none, p, p, c 1, pr IN, c 1, c 1, p, p]
    let s := reach progs [[]] sched
    violations (init progs [[]]) sched 0 = [1] ∧ s.g.late = true ∧ s.g.uaf = true ∧ s.g.badfd = true ∧ s.g.regAtClose = true := by
  decide

/-- K2 (arm after close, on a pfd that was never armed - what tcp_send after tcp_close does): the ADD
    succeeds, the descriptor is back in the epoll set and the callback runs after stop returned -/
theorem k2_necessary :
    let progs := [[.close, .arm IN, .stop, .fini]]
    let sched := [c 0, c 0, c 0, c 0, c 0, c 0, c 0, c 0, c 0, p, p, p, c 0, pr IN, p, p]
    let s := reach progs [[]] sched
    violations (init progs [[]]) sched 0 = [3] ∧ s.g.synced = true ∧ s.g.reg = true ∧ s.g.late = true := by
  decide

/-- K3 (stop from the callback): the poller thread waits for itself, forever -/
theorem k3_necessary :
    let sched := [c 0, c 0, pr IN, p, p, p, p, p, p, p, p, p]
    let s := reach [[.arm IN]] [[.stop]] sched
    violations (init [[.arm IN]] [[.stop]]) sched 0 = [5] ∧ s.live = false ∧ s.p.pc = .inCb ∧ s.p.frame = .stopSleep := by
  decide

/-- K4 (fini without a stop that returned): fini returns while the callback runs; the descriptor was
    still in the epoll set -/
theorem k4_necessary :
    let sched := [c 0, c 0, pr IN, p, p, c 1]
    let s := reach [[.arm IN], [.fini]] [[]] sched
    violations (init [[.arm IN], [.fini]] [[]]) sched 0 = [5] ∧ s.g.late = true ∧ s.g.regAtClose = true := by
  decide

/-- K5 (free before fini / stop): the poller dereferences the pfd of the event it already holds -/
theorem k5_necessary :
    let sched := [c 0, c 0, pr IN, c 1, p]
    let s := reach [[.arm IN], [.free]] [[]] sched
    violations (init [[.arm IN], [.free]] [[]]) sched 0 = [3] ∧ s.g.uaf = true := by
  decide

/-! ### the judge of Spec/Pfd.lean on the model's own observations -/

/-- the observations of a run, the initial one first -/
def obsTrace (s : State) (sched : List Choice) : List Obs := obsOf s :: (trace s sched).map obsOf

/-- the judge of Spec/Pfd.lean (the executable specification that also judges the real code's
    observations) recognises every step of a contract-respecting run as inside the contract and accepts
    every observation of it: clauses a-e hold of the model as the judge reads them, through the call
    counters alone -/
theorem judge_model (progs scripts : List (List Op)) (sched : List Choice)
    (hr : respects (init progs scripts) sched = true) :
    judgeFrom { prev := obsOf (init progs scripts) } (obsTrace (init progs scripts) sched) = none := by
  have hs := sinv_init progs scripts
  have hk := kinv_init progs scripts
  have hc := cinv_init progs scripts
  have h0 : (init progs scripts).g.cbAfterClose = 0 := rfl
  have hf := judge_first hs hk hc
  rw [h0] at hf
  have hm := judgeFrom_model hs hk hc sched hr
  rw [h0] at hm
  simp only [obsTrace, judgeFrom, hf]
  exact hm

/-- the call counters the judge reads are exact: calls begun and not returned = threads inside a call,
    stop calls begun and not returned = threads inside stop - at most one, none once it has synchronised -/
theorem call_counters_exact (progs scripts : List (List Op)) (sched : List Choice)
    (hr : respects (init progs scripts) sched = true) :
    let s := reach progs scripts sched
    s.g.n.nb = s.g.n.nr + busyCount s ∧ s.g.n.sb = s.g.n.sr + stopCount s ∧ stopCount s ≤ 1 ∧
    (s.g.synced = true → stopCount s = 0 ∧ 1 ≤ s.g.n.sr) ∧ (obsOf s).synced = s.g.synced := by
  have hs := sinv_init progs scripts
  have hk := kinv_init progs scripts
  have hc := cinv_init progs scripts
  have key : ∀ (sched : List Choice) (s : State), SInv s → KInv s → CInv s → respects s sched = true → CInv (run s sched) := by
    intro sched
    induction sched with
    | nil => intro s _ _ h3 _; exact h3
    | cons ch rest ih =>
      intro s h1 h2 h3 h4
      simp only [respects, Bool.and_eq_true] at h4
      exact ih (step s ch) (sinv_step h1 ch) (kinv_step h1 h2 ch h4.1) (cinv_step h1 h2 h3 ch h4.1) h4.2
  have hcr := key sched _ hs hk hc hr
  exact ⟨hcr.nbEq, hcr.sbEq, hcr.cnt1, fun h => ⟨hcr.cntS h, hcr.synSr h⟩, obs_synced hcr⟩

/-! ### anchors, non-vacuity -/

/-- the code has the shape the model mirrors (vlib/extract_c10p.py) and its event array holds the at most
    two entries the model's epoll_wait returns -/
theorem anchored : Nng.Generated.pfdAnchored = true ∧ 2 ≤ Nng.Generated.pfdMaxEvents := by decide

/-- the hypotheses are satisfiable by a complete life: arm, event, callback that re-arms, a foreign wake,
    second event, stop (DEL, append, write, sleep, reaped, woken), fini, free - 29 effective steps, within
    the contract, everything delivered, every flag down -/
example :
    let progs := [[.arm IN, .stop, .fini, .free], [.kick]]
    let scripts := [[Op.arm OUT], []]
    let sched := [c 0, c 0, pr IN, p, p, p, p, p, c 1, pr OUT false, p, p, p, p, c 0, c 0, c 0, c 0, c 0, c 0, p, p, p, c 0, c 0, c 0, p]
    let s := reach progs scripts sched
    respects (init progs scripts) sched = true ∧ s.g.cbBegun = 2 ∧ s.g.cbEnded = 2 ∧ s.g.harvested = 2 ∧ s.g.synced = true ∧
    s.g.freed = true ∧ s.g.late = false ∧ s.g.uaf = false ∧ s.g.badfd = false ∧ s.cs.all Client.finished = true ∧
    effSteps (init progs scripts) sched = 27 := by
  decide

end Nng.C10Pfd
