/-
  C08 — PAIR (v0, and v1 outside polyamorous mode).  Property theorems about the executable
  models `Nng.Pair0.step0` (pair0/pair.c) and `Nng.Pair1.step1` (pair1/pair.c), for ALL event
  sequences (the machine theorems are proved once for every `Variant`, then instantiated).
  Helper lemmas live in Proofs/Pair*.lean.
-/
import NngModel.Model.Pair0
import NngModel.Model.Pair1
import NngModel.Spec.Pair
import NngModel.Proofs.PairHop
import NngModel.Proofs.PairStep
import NngModel.Proofs.PairFresh
import NngModel.Proofs.PairJudgeMain
namespace Nng.C08
open Nng Nng.Proto Nng.Pair0

/-- the protocol numbers used by the models are those of the property -/
theorem proto_ids : Nng.Pair0.variant.peer = protoId 1 0 ∧ Nng.Pair1.variant.peer = protoId 1 1 := by decide

/-- a state reached from a fresh socket by some event sequence -/
def Reachable (V : Variant) (s : State) : Prop := ∃ evs, s = (run V {} evs).1

/-- both sockets start with empty buffers of depth 0 (pair*_sock_init), which is what makes the
    pollable flags right from the start -/
theorem bufinit0 : Nng.Pair0.variant.sendBufInit = 0 := by decide
theorem bufinit1 : Nng.Pair1.variant.sendBufInit = 0 := by decide

theorem reachable_all (V : Variant) (hV : V.sendBufInit = 0) (s : State) (h : Reachable V s) : All V s ∧ Fresh s := by
  obtain ⟨evs, rfl⟩ := h
  exact ⟨run_all V hV evs _ (all_init V), run_fresh V evs _ fresh_init⟩

/-! ### (A1) the PAIRv1 receive decision, for every length, every header word and every limit -/

/-- total case analysis of the decision (no enumeration: `hdr` ranges over all naturals, in
    particular over all 2^32 header words) -/
theorem a1_hop_decision (len hdr ttl : Nat) :
    (Nng.Pair1.hopDecision len hdr ttl = .close ↔ (len < 4 ∨ hdr > 0xff)) ∧
    (Nng.Pair1.hopDecision len hdr ttl = .drop ↔ (4 ≤ len ∧ hdr ≤ 0xff ∧ ttl < hdr)) ∧
    (∀ h, Nng.Pair1.hopDecision len hdr ttl = .deliver h ↔ (4 ≤ len ∧ hdr ≤ 0xff ∧ hdr ≤ ttl ∧ h = hdr)) :=
  ⟨Nng.Pair1.hopDecision_close len hdr ttl, Nng.Pair1.hopDecision_drop len hdr ttl,
   fun h => Nng.Pair1.hopDecision_deliver len hdr ttl h⟩

/-- on byte strings the model's decision IS the hop rule of the property (Spec/Pair.lean):
    malformed ⇒ close, over the limit ⇒ drop, else deliver (first four bytes, rest) -/
theorem a1_model_decision_is_hop_rule (ttl : Nat) (b : Bytes) :
    Nng.Pair1.toSpec (Nng.Pair1.rxDecide ttl b) = Nng.PairSpec.hopRule ttl b :=
  Nng.Pair1.rxDecide_eq_hopRule ttl b

/-- in the machine: a malformed arrival closes its pipe and delivers nothing; an arrival over the
    limit changes nothing but the drop counter and re-arms the receive -/
theorem a1_malformed_closes (s : State) (p : Nat) (b : Bytes)
    (h : b.length < 4 ∨ beDecode (b.take 4) > 0xff) :
    recvCb Nng.Pair1.variant s p b = closePipe { s with malformed := s.malformed + 1 } p := by
  have : Nng.Pair1.variant.rxDecide s.ttl b = .close := by
    show Nng.Pair1.rxDecide s.ttl b = .close
    unfold Nng.Pair1.rxDecide
    rw [(Nng.Pair1.hopDecision_close b.length (beDecode (b.take 4)) s.ttl).mpr h]
  simp [recvCb, this]

theorem a1_over_limit_drops (s : State) (p : Nat) (b : Bytes)
    (h4 : 4 ≤ b.length) (hm : beDecode (b.take 4) ≤ 0xff) (ht : s.ttl < beDecode (b.take 4)) :
    recvCb Nng.Pair1.variant s p b =
      (modPipe { s with hopDropped := s.hopDropped + 1 } p (fun pp => { pp with armed := true }), [Out.parm p]) := by
  have : Nng.Pair1.variant.rxDecide s.ttl b = .drop := by
    show Nng.Pair1.rxDecide s.ttl b = .drop
    unfold Nng.Pair1.rxDecide
    rw [(Nng.Pair1.hopDecision_drop b.length (beDecode (b.take 4)) s.ttl).mpr ⟨h4, hm, ht⟩]
  simp [recvCb, this]

/-! ### (A2) the send side of the hop count -/

/-- cooked send: the caller's header is replaced by hop count 0 and leaves with exactly 1 -/
theorem a2_cooked_send_hop_one (m : WMsg) :
    Nng.Pair1.txPrep false m = .ok ⟨beEncode 4 0, m.body⟩ ∧
    Nng.Pair1.txWire ⟨beEncode 4 0, m.body⟩ = ⟨beEncode 4 1, m.body⟩ :=
  ⟨Nng.Pair1.txPrep_cooked m, Nng.Pair1.txWire_cooked m⟩

/-- raw send (forwarding): a well-formed header leaves with exactly one more hop -/
theorem a2_raw_send_hop_plus_one (m : WMsg) (h1 : m.hdr.length = 4) (h2 : beDecode m.hdr < 0xff) :
    Nng.Pair1.txPrep true m = .ok m ∧ (Nng.Pair1.txWire m).hdr.length = 4 ∧
    beDecode (Nng.Pair1.txWire m).hdr = beDecode m.hdr + 1 ∧ (Nng.Pair1.txWire m).body = m.body :=
  ⟨Nng.Pair1.txPrep_raw_ok m h1 h2, Nng.Pair1.txWire_raw m h1 h2⟩

/-- raw send with header length ≠ 4 or value ≥ 0xff: NNG_EPROTO, the message stays with the
    caller, nothing else changes -/
theorem a2_raw_malformed_eproto (s : State) (a : Nat) (m : WMsg) (mode : Mode) (hraw : s.raw = true)
    (h : m.hdr.length ≠ 4 ∨ beDecode m.hdr ≥ 0xff) :
    sockSend Nng.Pair1.variant s a m mode =
      ({ s with nsend := s.nsend + 1, returned := s.returned ++ [⟨s.nsend, m⟩] }, [Out.done a Err.eproto none true]) := by
  have : Nng.Pair1.variant.txPrep s.raw m = .error Err.eproto := by
    rw [hraw]; exact Nng.Pair1.txPrep_raw_bad m h
  simp [sockSend, this]

/-- every hop count a PAIRv1 socket puts on the wire is in 1..0xff -/
theorem a2_wire_hops_in_range (raw : Bool) (m m' : WMsg) (h : Nng.Pair1.txPrep raw m = .ok m') :
    1 ≤ beDecode (Nng.Pair1.txWire m').hdr ∧ beDecode (Nng.Pair1.txWire m').hdr ≤ 0xff :=
  Nng.Pair1.txWire_after_prep raw m m' h

/-! ### (A3) at most one peer -/

/-- in every reachable state all pipes that are not closed are the one attached pipe `s->p` -/
theorem a3_at_most_one_peer (V : Variant) (hV : V.sendBufInit = 0) (s : State) (h : Reachable V s) :
    ∀ pp ∈ s.pipes, ∀ qq ∈ s.pipes, pp.closed = false → qq.closed = false →
      pp.id = qq.id ∧ s.cur = some pp.id := by
  intro pp hp qq hq hc1 hc2
  have hP := (reachable_all V hV s h).1.pinv
  have e1 := hP.single pp hp hc1
  have e2 := hP.single qq hq hc2
  rw [e1] at e2
  exact ⟨Option.some.inj e2, e1⟩

/-- a peer connecting while another is attached is refused: its pipe is closed at once and
    nothing else in the state changes (whatever its protocol number) -/
theorem a3_extra_peer_refused (V : Variant) (hV : V.sendBufInit = 0) (s : State) (h : Reachable V s)
    (ho : s.opened = true) (hc : s.closed = false) (hcur : s.cur.isSome = true) (peer : Nat) :
    step V s (.pipeAdd peer) =
      ({ s with pipes := s.pipes ++ [{ id := s.pipes.length, closed := true }] },
       [Out.pipe s.pipes.length, Out.pclosed s.pipes.length]) := by
  have hP := (reachable_all V hV s h).1.pinv
  have hp := refuse_pipes s hP
  have hst : modPipe (withNewPipe s) s.pipes.length (fun pp => { pp with closed := true })
      = { s with pipes := s.pipes ++ [{ id := s.pipes.length, closed := true }] } := by
    have : modPipe (withNewPipe s) s.pipes.length (fun pp => { pp with closed := true })
        = { s with pipes := (modPipe (withNewPipe s) s.pipes.length (fun pp => { pp with closed := true })).pipes } := by
      simp [modPipe, withNewPipe]
    rw [this, hp]
  have hcur' : (withNewPipe s).cur.isSome = true := by simpa [withNewPipe] using hcur
  have : pipeStart V (withNewPipe s) s.pipes.length peer =
      (modPipe (withNewPipe s) s.pipes.length (fun pp => { pp with closed := true }), [Out.pclosed s.pipes.length]) := by
    unfold pipeStart
    by_cases hpeer : (peer != V.peer) = true
    · rw [if_pos hpeer]
    · rw [if_neg hpeer, if_pos hcur']
  unfold step
  rw [if_neg (by simp [ho]), if_neg (by simp [hc])]
  show (let (s', o) := pipeStart V (withNewPipe s) s.pipes.length peer; (s', [Out.pipe ↑s.pipes.length] ++ o)) = _
  rw [this, hst]
  rfl

/-! ### (A4) order, at-most-once and conservation in both directions -/

/-- send direction: what has reached the wire followed by what is buffered is an
    order-preserving subsequence of the accepted sends (content: `txWire` of the accepted
    content), and exactly the messages recorded in `txDropped` (send-buffer shrink, close) are missing -/
theorem a4_send_order (V : Variant) (hV : V.sendBufInit = 0) (s : State) (h : Reachable V s) :
    (s.wire.map (·.2) ++ s.wmq.map (wireOf V)).Sublist (s.accepted.map (wireOf V)) ∧
    s.accepted.length = s.wire.length + s.wmq.length + s.txDropped.length :=
  let c := (reachable_all V hV s h).1.cons
  ⟨c.txSub, c.txLen⟩

/-- ... so with no shrink / close discard nothing accepted is lost: accepted = wire ++ buffered, in order -/
theorem a4_send_no_loss (V : Variant) (hV : V.sendBufInit = 0) (s : State) (h : Reachable V s)
    (hd : s.txDropped = []) :
    s.accepted.map (wireOf V) = s.wire.map (·.2) ++ s.wmq.map (wireOf V) := by
  obtain ⟨h1, h2⟩ := a4_send_order V hV s h
  refine (h1.eq_of_length ?_).symm
  simp [h2, hd]

/-- no message is put on the wire twice, nor buffered twice, nor both -/
theorem a4_send_at_most_once (V : Variant) (hV : V.sendBufInit = 0) (s : State) (h : Reachable V s) :
    ((s.wire.map (·.2) ++ s.wmq.map (wireOf V)).map (·.gid)).Nodup := by
  obtain ⟨h1, _⟩ := a4_send_order V hV s h
  have hf := (reachable_all V hV s h).2
  have hn : (s.accepted.map (·.gid)).Nodup := by
    have := hf.txNodup
    simp only [txIds] at this
    exact (List.nodup_append.mp (List.nodup_append.mp this).1).1
  have e : (s.accepted.map (wireOf V)).map (fun g : GMsg => g.gid) = s.accepted.map (fun g : GMsg => g.gid) := by
    simp [wireOf, Function.comp_def]
  have h2 := h1.map (fun g : GMsg => g.gid)
  rw [e] at h2
  exact h2.nodup hn

/-- receive direction: delivered ++ buffered ++ held is an order-preserving subsequence of the
    accepted arrivals (same content), exactly `rxDropped` are missing -/
theorem a4_recv_order (V : Variant) (hV : V.sendBufInit = 0) (s : State) (h : Reachable V s) :
    (s.delivered ++ s.rmq ++ s.held.toList).Sublist s.arrived ∧
    s.arrived.length = s.delivered.length + s.rmq.length + s.held.toList.length + s.rxDropped.length :=
  let c := (reachable_all V hV s h).1.cons
  ⟨c.rxSub, c.rxLen⟩

theorem a4_recv_no_loss (V : Variant) (hV : V.sendBufInit = 0) (s : State) (h : Reachable V s)
    (hd : s.rxDropped = []) : s.arrived = s.delivered ++ s.rmq ++ s.held.toList := by
  obtain ⟨h1, h2⟩ := a4_recv_order V hV s h
  refine (h1.eq_of_length ?_).symm
  simp [h2, hd]; omega

theorem a4_recv_at_most_once (V : Variant) (hV : V.sendBufInit = 0) (s : State) (h : Reachable V s) :
    ((s.delivered ++ s.rmq ++ s.held.toList).map (·.gid)).Nodup := by
  obtain ⟨h1, _⟩ := a4_recv_order V hV s h
  have hf := (reachable_all V hV s h).2
  have hn : (s.arrived.map (·.gid)).Nodup := by rw [hf.rxIds]; exact List.nodup_range
  exact (h1.map (·.gid)).nodup hn

/-- the two `nni_lmq_put` calls whose result the C code ignores can never fail -/
theorem a4_unchecked_put_never_fails (V : Variant) (hV : V.sendBufInit = 0) (s : State) (h : Reachable V s) :
    s.putFailed = [] := (reachable_all V hV s h).1.inv.putOk

/-! ### (A5) back-pressure: park or fail with the message returned, never discard -/

/-- a send arriving while the pipe is busy (or absent) and the buffer is full changes nothing in
    (accepted, wire, buffer, dropped): it is parked with its deadline, or — non-blocking / zero
    timeout — fails with NNG_EAGAIN / NNG_ETIMEDOUT and the message is returned to the caller -/
theorem a5_backpressure (V : Variant) (s : State) (a : Nat) (m m' : WMsg) (mode : Mode)
    (hprep : V.txPrep s.raw m = .ok m') (hbusy : s.wrReady = false) (hfull : s.wmqCap ≤ s.wmq.length) :
    let r := sockSend V s a m mode
    r.1.accepted = s.accepted ∧ r.1.wire = s.wire ∧ r.1.wmq = s.wmq ∧ r.1.txDropped = s.txDropped ∧
    ((r.2 = [] ∧ r.1.waq = s.waq ++ [⟨a, ⟨s.nsend, m'⟩, deadlineOf s.now mode⟩] ∧ r.1.returned = s.returned) ∨
     (∃ rv, (rv = Err.eagain ∨ rv = Err.etimedout) ∧ r.2 = [Out.done a rv none true] ∧
        r.1.returned = s.returned ++ [⟨s.nsend, m'⟩] ∧ r.1.waq = s.waq)) := by
  have hl : ¬ s.wmq.length < s.wmqCap := by omega
  simp only [sockSend, hprep, sockSendLocked, hbusy, Bool.false_eq_true, if_false, hl, parkSend]
  cases mode with
  | nb => exact ⟨rfl, rfl, rfl, rfl, Or.inr ⟨Err.eagain, Or.inl rfl, rfl, rfl, rfl⟩⟩
  | inf => exact ⟨rfl, rfl, rfl, rfl, Or.inl ⟨rfl, rfl, rfl⟩⟩
  | dflt => exact ⟨rfl, rfl, rfl, rfl, Or.inl ⟨rfl, rfl, rfl⟩⟩
  | ms n =>
    cases n with
    | zero => exact ⟨rfl, rfl, rfl, rfl, Or.inr ⟨Err.etimedout, Or.inr rfl, rfl, rfl, rfl⟩⟩
    | succ k => exact ⟨rfl, rfl, rfl, rfl, Or.inl ⟨rfl, rfl, rfl⟩⟩

/-- a parked sender leaves the wait queue only by being accepted (its message enters the buffer
    or the wire in order) or by having its message returned — in the reachable states a waiting
    sender implies a busy/absent pipe, so it is never overtaken by the pipe idling -/
theorem a5_waiting_implies_pipe_busy (V : Variant) (hV : V.sendBufInit = 0) (s : State) (h : Reachable V s)
    (hw : s.waq ≠ []) : s.wrReady = false := by
  cases hr : s.wrReady with
  | false => rfl
  | true => exact absurd ((reachable_all V hV s h).1.inv.wrEmpty hr).2 hw

/-- no send operation ever vanishes: the operations numbered 0 … nsend-1 are, each exactly once,
    accepted (then (A4) applies), still parked, or given back to the caller with an error -/
theorem a5_every_send_accounted (V : Variant) (hV : V.sendBufInit = 0) (s : State) (h : Reachable V s) :
    (txIds s).Nodup ∧ (∀ g ∈ txIds s, g < s.nsend) ∧ (txIds s).length = s.nsend :=
  let f := (reachable_all V hV s h).2
  ⟨f.txNodup, f.txLt, f.txAll⟩

/-! ### (A6, feeds C15) the pollable flags say whether a non-blocking call would succeed -/

theorem a6_flags (V : Variant) (hV : V.sendBufInit = 0) (s : State) (h : Reachable V s) (hc : s.closed = false) :
    s.writable = (s.wrReady || !wmqFull s) ∧ s.readable = (!s.rmq.isEmpty || s.rdReady) :=
  let i := (reachable_all V hV s h).1.inv
  ⟨i.writableEq hc, i.readableEq hc⟩

/-- a well-formed non-blocking send succeeds iff the socket polls writable (otherwise NNG_EAGAIN, message returned) -/
theorem a6_writable_iff_nb_send_succeeds (V : Variant) (hV : V.sendBufInit = 0) (s : State) (h : Reachable V s)
    (hc : s.closed = false) (a : Nat) (m m' : WMsg) (hprep : V.txPrep s.raw m = .ok m') :
    (s.writable = true → ∃ o, (sockSend V s a m .nb).2 = Out.done a 0 none false :: o) ∧
    (s.writable = false → (sockSend V s a m .nb).2 = [Out.done a Err.eagain none true]) := by
  have hi := (reachable_all V hV s h).1.inv
  have hw := hi.writableEq hc
  simp only [sockSend, hprep, sockSendLocked]
  by_cases hr : s.wrReady = true
  · obtain ⟨p, hp⟩ := Option.isSome_iff_exists.mp (hi.wrCur hr)
    simp only [hr, if_true, hp]
    refine ⟨fun _ => ⟨_, rfl⟩, fun hf => ?_⟩
    rw [hw, hr] at hf; simp at hf
  · have hr' : s.wrReady = false := by simpa using hr
    simp only [hr', Bool.false_eq_true, if_false]
    by_cases hl : s.wmq.length < s.wmqCap
    · simp only [hl, if_true]
      refine ⟨fun _ => ⟨_, rfl⟩, fun hf => ?_⟩
      rw [hw, hr'] at hf
      simp [wmqFull] at hf; omega
    · simp only [hl, if_false, parkSend]
      refine ⟨fun ht => ?_, fun _ => by first | rfl | trivial⟩
      rw [hw, hr'] at ht
      simp [wmqFull] at ht; omega

/-- a non-blocking receive succeeds iff the socket polls readable (otherwise NNG_EAGAIN) -/
theorem a6_readable_iff_nb_recv_succeeds (V : Variant) (hV : V.sendBufInit = 0) (s : State) (h : Reachable V s)
    (hc : s.closed = false) (a : Nat) :
    (s.readable = true → ∃ msg o, (sockRecv s a .nb).2 = Out.done a 0 (some msg) false :: o) ∧
    (s.readable = false → (sockRecv s a .nb).2 = [Out.done a Err.eagain none false]) := by
  have hi := (reachable_all V hV s h).1.inv
  have hw := hi.readableEq hc
  unfold sockRecv
  cases hq : s.rmq with
  | cons m rest =>
    refine ⟨fun _ => ⟨m.m, _, rfl⟩, fun hf => ?_⟩
    rw [hw, hq] at hf; simp at hf
  | nil =>
    by_cases hr : s.rdReady = true
    · obtain ⟨p, gm, ht, _, _⟩ := takeHeld_of s (hi.rdCur hr) (by rw [← hi.heldRd]; exact hr)
      simp only [hr, if_true, ht]
      refine ⟨fun _ => ⟨gm.m, _, rfl⟩, fun hf => ?_⟩
      rw [hw, hr] at hf; simp at hf
    · have hr' : s.rdReady = false := by simpa using hr
      simp only [hr', Bool.false_eq_true, if_false]
      refine ⟨fun ht => ?_, fun _ => by first | rfl | trivial⟩
      rw [hw, hq, hr'] at ht; simp at ht

/-! ### instances for the two protocols -/

theorem pair0_all (s : State) (h : Reachable Nng.Pair0.variant s) : All Nng.Pair0.variant s ∧ Fresh s :=
  reachable_all _ bufinit0 s h

theorem pair1_all (s : State) (h : Reachable Nng.Pair1.variant s) : All Nng.Pair1.variant s ∧ Fresh s :=
  reachable_all _ bufinit1 s h

/-! ### non-vacuity: concrete reachable states in which the hypotheses above hold -/

/-- a PAIRv1 history: peer 0 attaches, a second peer is refused, one send goes straight to the wire
    with hop count 1, a second is parked (buffer depth 0), an arrival with hop count 1 is delivered to
    a waiting receiver, an arrival with hop count 9 > 8 is dropped, a 3-byte arrival closes the pipe -/
def sample1 : List Ev :=
  [.openSock "pair1" false, .pipeAdd 0x11, .pipeAdd 0x11,
   .send none 0 ⟨[], [0xa1]⟩ .inf, .send none 1 ⟨[], [0xa2]⟩ .inf,
   .recv none 2 .inf, .recvDone 0 (.ok [0, 0, 0, 1, 0xb1]), .recvDone 0 (.ok [0, 0, 0, 9, 0xb2]),
   .sendDone 0 0, .poll, .recvDone 0 (.ok [0, 0, 1])]

example : Reachable Nng.Pair1.variant (run Nng.Pair1.variant {} sample1).1 := ⟨sample1, rfl⟩

example :
    let r := run Nng.Pair1.variant {} sample1
    r.1.wire.map (fun x => (x.1, x.2.m)) = [(0, ⟨[0, 0, 0, 1], [0xa1]⟩), (0, ⟨[0, 0, 0, 1], [0xa2]⟩)] ∧
    r.1.accepted.map (·.gid) = [0, 1] ∧ r.1.delivered.map (·.m) = [⟨[0, 0, 0, 1], [0xb1]⟩] ∧
    r.1.hopDropped = 1 ∧ r.1.malformed = 1 ∧ r.1.cur = none ∧
    (r.1.pipes.map (·.closed)) = [true, true] ∧
    r.2.getD 2 [] = [Out.pipe 1, Out.pclosed 1] := by decide

/-- a PAIRv0 state with a full buffer and a busy pipe, where (A5) applies and the flags are down -/
def sample0 : List Ev :=
  [.openSock "pair0" false, .pipeAdd 0x10, .send none 0 ⟨[], [1]⟩ .inf, .send none 1 ⟨[], [2]⟩ .inf]

example :
    let s := (run Nng.Pair0.variant {} sample0).1
    s.wrReady = false ∧ s.wmqCap ≤ s.wmq.length ∧ s.waq.length = 1 ∧ s.writable = false ∧ s.closed = false := by decide

/-! ### JUDGE: the model's traces satisfy the executable trace predicate of Spec/Pair.lean -/

/-- the unconditional statement: every trace of the models is accepted by the C08 judges.  It is
    FALSE (`judge_needs_hypotheses`): the judge identifies messages by their bytes and treats
    `abort aio 0` / `abort aio NNG_EPROTO` as a successful / refused operation. -/
def judge_accepts_model_statement : Prop :=
  ∀ evs : List Ev,
    Nng.PairSpec.pair1Judge (evs.zip (run Nng.Pair1.variant {} evs).2) = none ∧
    Nng.PairSpec.pair0Judge (evs.zip (run Nng.Pair0.variant {} evs).2) = none

/-- `nng_aio_abort(aio, 0)` on a parked receive completes it "successfully" without a message -/
theorem judge_needs_hypotheses : ¬ judge_accepts_model_statement := by
  intro h
  have := (h [.openSock "pair0" false, .recv none 0 .inf, .abort 0 0]).2
  revert this
  decide

/-- JUDGE: for every event sequence with pairwise distinct send bodies, pairwise distinct arriving
    byte strings and no `abort aio 0` / `abort aio NNG_EPROTO`, the trace of the PAIRv1 model and the
    trace of the PAIRv0 model are accepted by the trace predicates `pair1Judge` / `pair0Judge` — the
    predicates that judge the implementation's traces on every run.  Proved by a simulation
    (Proofs/PairJudge*.lean): a relation between model state and judge state preserved by every event. -/
theorem judge_accepts_model (evs : List Ev) (hb : DistinctBodies evs) (ha : DistinctArrivals evs)
    (hn : NoBadAbort evs) :
    Nng.PairSpec.pair1Judge (evs.zip (run Nng.Pair1.variant {} evs).2) = none ∧
    Nng.PairSpec.pair0Judge (evs.zip (run Nng.Pair0.variant {} evs).2) = none := by
  have e1 : Nng.PairSpec.init1 = J0 Nng.Pair1.variant true := by
    simp [Nng.PairSpec.init1, J0, proto_ids.2]
  have e0 : Nng.PairSpec.init0 = J0 Nng.Pair0.variant false := by
    simp [Nng.PairSpec.init0, J0, proto_ids.1]
  constructor
  · unfold Nng.PairSpec.pair1Judge; rw [e1]; exact pair_judge_ok vj_pair1 evs hb ha hn
  · unfold Nng.PairSpec.pair0Judge; rw [e0]; exact pair_judge_ok vj_pair0 evs hb ha hn

/-- the hypotheses hold for the PAIRv1 history above (two sends, three arrivals) -/
example : DistinctBodies sample1 ∧ DistinctArrivals sample1 ∧ NoBadAbort sample1 := by
  refine ⟨?_, ?_, ?_⟩
  · unfold DistinctBodies; decide
  · unfold DistinctArrivals; decide
  · unfold NoBadAbort; decide

/-- ... so its trace is accepted; and the judge is not trivially `none`: the same history with the
    second peer's refusal removed from the outputs is rejected -/
example : Nng.PairSpec.pair1Judge (sample1.zip (run Nng.Pair1.variant {} sample1).2) = none :=
  (judge_accepts_model sample1 (by unfold DistinctBodies; decide) (by unfold DistinctArrivals; decide)
    (by unfold NoBadAbort; decide)).1

example : Nng.PairSpec.pair1Judge
    [(.openSock "pair1" false, [.rv 0]), (.pipeAdd 0x11, [.pipe 0, .parm 0]), (.pipeAdd 0x11, [.pipe 1, .parm 1])] ≠ none := by
  decide

/-- receive liveness is checked: with `recv-buffer` 1 the first arrival fits into the buffer, so the peer
    must be read on; the judge rejects the trace without the new `parm` (pair.c re-arming only while the
    buffer has room left) and accepts the one with it; the second arrival finds the buffer full and may stay
    parked in the pipe -/
example : Nng.PairSpec.pair0Judge
    [(.openSock "pair0" false, [.rv 0]), (.setopt none "recv-buffer" "int" 1, [.rv 0]),
     (.pipeAdd 0x10, [.pipe 0, .parm 0]), (.recvDone 0 (.ok [1]), [.rv 0])] ≠ none := by decide

example : Nng.PairSpec.pair0Judge
    [(.openSock "pair0" false, [.rv 0]), (.setopt none "recv-buffer" "int" 1, [.rv 0]),
     (.pipeAdd 0x10, [.pipe 0, .parm 0]), (.recvDone 0 (.ok [1]), [.rv 0, .parm 0]),
     (.recvDone 0 (.ok [2]), [.rv 0])] = none := by decide

/-- ... and once the application has taken the parked message, the peer must be read again -/
example : Nng.PairSpec.pair0Judge
    [(.openSock "pair0" false, [.rv 0]), (.pipeAdd 0x10, [.pipe 0, .parm 0]), (.recvDone 0 (.ok [1]), [.rv 0]),
     (.recv none 0 .nb, [.done 0 0 (some ⟨[], [1]⟩) false])] ≠ none := by decide

end Nng.C08
