/-
  C16, HTTP server layer — facts about the SOURCE the theorems of Props/C16Server.lean rest on, re-extracted from
  the tree under test on every run (vlib/extract_c16s.py).  Each is an obligation: when the source no longer has the
  shape (or the repair) named here, this module stops checking and the C16 check reports it.
-/
import NngModel.Model.HttpServer
import NngModel.Model.HttpClient
namespace Nng.C16ServerSrc
open Nng Nng.HttpSrv

/-- http_sconn_rxdone performs its checks once each and in the order `rxDecide` mirrors: parser status, "HTTP/1.",
    "HTTP/1.1", uri[0], Connection, Transfer-Encoding, Content-Length, Host, the handler loop, 405/404, the body
    limit (413) BEFORE nni_http_req_alloc_data / nni_http_read_full, then `finish:` and the callback -/
theorem rx_order_as_modelled : Generated.httpSrvRxOrderAsModelled = true := by decide

/-- the handler loop (host test, strncmp, `switch (uri[len])`, method test, HEAD remapping, badmeth) and the 404/405
    decision have the text `findGo` / `findHandler` mirror -/
theorem lookup_as_modelled : Generated.httpSrvLookupAsModelled = true := by decide

/-- http_handler_host_match has the text `hostMatch` mirrors -/
theorem host_match_as_modelled : Generated.httpSrvHostMatchAsModelled = true := by decide

/-- a Content-Length that is not a plain decimal number is refused (400) and the connection closed -/
theorem content_length_validated : flags.clenValidated = true := by decide

/-- a request the parser rejected (400 / 414 / 431 / 505) closes the connection after the answer -/
theorem parse_error_closes : flags.parseErrorCloses = true := by decide

/-- answers to HEAD never carry a body: error answers of the server front, and handler answers of any status -/
theorem head_never_gets_body : flags.errorPrunesHead = true ∧ flags.cbdonePrunesHead = true := by decide

/-- the "this response is an error page" mark does not survive the request it was set for -/
theorem iserr_is_per_request : flags.iserrReset = true := by decide

/-- http_prepare formats the head into the connection buffer only when `len < bufsz` (with `<=` a head of exactly
    bufsz bytes is written with its last byte replaced by NUL: Props/C16Server.non_strict_test_truncates) -/
theorem prepare_test_is_strict : wrStrict = true := by decide

/-- nni_http_transact_conn calls nni_http_res_reset before it sends the request (without it the response headers of
    the previous transaction on the connection frame the next response: Props/C16Client.unreset_response_leaks) -/
theorem response_is_reset_per_transaction : HttpCli.cliResets = true := by decide

/-- together: the code under test is the repaired code the theorems of Props/C16Server.lean speak about -/
theorem source_is_repaired : flags = fixed := by decide

/-- the values used in the statements -/
theorem extracted_values :
    stOK = 200 ∧ stMoved = 301 ∧ stBadRequest = 400 ∧ stNotFound = 404 ∧ stMethodNotAllowed = 405 ∧ stContentTooLarge = 413 ∧
    stInternal = 500 ∧ stNotImplemented = 501 ∧ stVersionNotSupp = 505 ∧ defMaxBody = 1048576 ∧ defMethod = HttpConn.sGET ∧
    uriSize = 1024 ∧ methodSize = 32 ∧ hostSize = 256 ∧ pageBuf = 1024 := by decide

end Nng.C16ServerSrc
