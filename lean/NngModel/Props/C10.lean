/-
  C10 — close always terminates, completes everything, invalidates handles.
  Part 1: theorems about the lifecycle model (Model/Life.lean) over all op sequences and oracles.
  Part 2: termination of the closer as a ranking argument on a small-step model of
  sock_shutdown / sock_close against the reaper and the holders of references.
-/
import NngModel.Proofs.LifeAioStep
import NngModel.Proofs.LifeStep
import NngModel.Proofs.LifeGlobalStep
import NngModel.Proofs.LifePend
import NngModel.Proofs.LifeJudgeMain
import NngModel.Generated.C14
namespace Nng.C10
open Nng.Life Nng.LifeModel

/-- in every reachable state each submitted operation is either still parked or was completed,
    never both and never twice (tokens are the submission numbers 0 .. nsub-1) -/
theorem submissions_accounted (tr : List (LOp × List Nat)) : AioInv (run {} tr) :=
  run_aio tr {} init_aio

/-- ... in particular the completion tokens are pairwise distinct: exactly-once completion -/
theorem completed_once (tr : List (LOp × List Nat)) : ((run {} tr).compl.map (·.1)).Nodup :=
  (submissions_accounted tr).compl_nodup

/-- ... and nothing is lost: parked + completed = submitted -/
theorem nothing_lost (tr : List (LOp × List Nat)) :
    (run {} tr).pend.length + (run {} tr).compl.length = (run {} tr).nsub :=
  (submissions_accounted tr).count

/-- after `close s` no operation remains parked on the socket or on one of its contexts -/
theorem close_drains (st : State) (s : Nat) (ho : (st.socks s).opened = true) (hc : (st.socks s).closed = false) :
    ∀ a ∈ (opClose st s).1.pend, tgtSock (opClose st s).1 a.tgt ≠ some s :=
  opClose_drains st s ho hc

/-- everything `close` completes, it completes with NNG_ECLOSED -/
theorem close_completes_with_eclosed (st : State) (f : PAio → Bool) :
    ∀ o ∈ (completeWhere st f Nng.Generated.lifeEclosed).2, ∃ a, o = .done a 7 := by
  intro o ho
  unfold completeWhere at ho
  simp only [List.mem_map] at ho
  obtain ⟨a, _, rfl⟩ := ho
  exact ⟨a.aio, rfl⟩

/-- after `nng_ctx_close` of an open context nothing remains parked on it -/
theorem ctx_close_drains (st : State) (c : Nat) (x : Ctx) (hf : st.ctxs.find? (·.id == c) = some x)
    (hcl : x.closed = false) : ∀ a ∈ (opCtxClose st c).1.pend, a.tgt ≠ .ctx c := by
  intro a ha
  unfold opCtxClose at ha
  simp only [hf, hcl, Bool.false_eq_true, if_false] at ha
  unfold completeWhere at ha
  simp only at ha
  have := (List.mem_filter.mp ha).2
  simpa using this

/-- every probe the model answers for an old handle is NNG_ECLOSED or NNG_ENOENT: closed sockets,
    contexts, endpoints and reaped pipes are out of the id tables -/
theorem probes_fail (st : State) : ∀ o ∈ (opProbe st).2, ∃ imm k i rvs, o = .probe imm k i rvs ∧ ∀ r ∈ rvs, r = 7 ∨ r = 12 := by
  intro o ho
  unfold opProbe at ho
  simp only [List.mem_append, List.mem_map] at ho
  rcases ho with ((⟨s, _, rfl⟩ | ⟨c, _, rfl⟩) | ⟨e, _, rfl⟩) | ⟨p, _, rfl⟩
  · exact ⟨false, .sock, s, _, rfl, by decide⟩
  · exact ⟨false, .ctx, c.id, _, rfl, by decide⟩
  · exact ⟨false, .ep, e.idx, _, rfl, by decide⟩
  · exact ⟨false, .pipe, p.idx, _, rfl, by decide⟩


/-! ### "socket closed ⇒ everything derived from it is gone", as a state invariant -/

/-- In every reachable state, for every socket that is closed: all its endpoints are closed and idle
    (nothing armed, no timer, no blocking dial waiting, no pipe), all its pipes are reaped — and every one
    of them that got ADD_POST has got REM_POST (if a REM_POST callback was registered when it was
    reaped) —, and all its contexts are closed. -/
theorem closed_socket_all_gone (tr : List (LOp × List Nat)) (s : Nat) (hc : ((run {} tr).socks s).closed = true) :
    (∀ e ∈ (run {} tr).eps, e.sock = s →
        e.closed = true ∧ e.armed = false ∧ e.timer = none ∧ e.cool = none ∧ e.userAio = false ∧ e.dPipe = none) ∧
    (∀ p ∈ (run {} tr).pipes, p.sock = s →
        p.reaped = true ∧ (PEv.post ∈ p.evs → p.remReg = true → PEv.rem ∈ p.evs)) ∧
    (∀ c ∈ (run {} tr).ctxs, c.sock = s → c.closed = true) := by
  have inv := run_Inv tr {} init_Inv
  have hepc : ∀ e ∈ (run {} tr).eps, e.sock = s → e.closed = true := by
    intro e he hs
    cases hcl : e.closed with
    | true => rfl
    | false =>
      have := (inv.g.s.epsOpen e he hcl).2
      rw [hs, hc] at this; cases this
  refine ⟨?_, ?_, ?_⟩
  · intro e he hs
    have hcl := hepc e he hs
    have h1 := (inv.g.s.w.epInv e he).1.closed_idle hcl
    refine ⟨hcl, h1.1, h1.2.1, h1.2.2.1, h1.2.2.2, ?_⟩
    cases hd : e.dPipe with
    | none => rfl
    | some i =>
      obtain ⟨p, hp, _, hl, hpe⟩ := inv.g.s.w.has e he i hd
      have := inv.g.s.pipesOpen p hp hl e he hpe.symm
      rw [hcl] at this; cases this
  · intro p hp hs
    have hr : p.reaped = true := by
      cases hl : p.reaped with
      | true => rfl
      | false =>
        obtain ⟨e, he, hi⟩ := inv.g.s.w.idxE.exists (inv.g.s.w.pipeEp p hp)
        have h1 := (inv.g.s.w.own p hp hl e he hi).1
        have h2 := inv.g.s.pipesOpen p hp hl e he hi
        have h3 := hepc e he (h1.trans hs)
        rw [h2] at h3; cases h3
    exact ⟨hr, (run_inv tr {} init_inv p hp).rem_post hr⟩
  · intro c hcm hs
    cases hcl : c.closed with
    | true => rfl
    | false =>
      have := (inv.g.s.ctxsOpen c hcm hcl).2
      rw [hs, hc] at this; cases this

/-- "every pending operation completes" as a state invariant: in every reachable state nothing is parked
    on a closed (or never opened) socket, on a closed context, or on a context of a closed socket -/
theorem nothing_parked_on_closed (tr : List (LOp × List Nat)) (a : PAio) (ha : a ∈ (run {} tr).pend) :
    (∀ s, a.tgt = .sock s → ((run {} tr).socks s).opened = true ∧ ((run {} tr).socks s).closed = false) ∧
    (∀ c, a.tgt = .ctx c → ∃ x ∈ (run {} tr).ctxs, x.id = c ∧ x.closed = false ∧
        ((run {} tr).socks x.sock).opened = true ∧ ((run {} tr).socks x.sock).closed = false) := by
  have inv := run_Inv tr {} init_Inv
  have hp := (run_P tr {} init_Inv init_P).pend a ha
  constructor
  · intro s hs; rw [hs] at hp; exact hp
  · intro c hc
    rw [hc] at hp
    obtain ⟨x, hx, hxi, hxc⟩ := hp
    exact ⟨x, hx, hxi, hxc, inv.g.s.ctxsOpen x hx hxc⟩

/-- context numbers identify contexts in every reachable state -/
theorem ctx_ids_unique (tr : List (LOp × List Nat)) :
    ∀ a ∈ (run {} tr).ctxs, ∀ b ∈ (run {} tr).ctxs, a.id = b.id → a = b :=
  (run_P tr {} init_Inv init_P).uniq

/-- the close step of an open socket marks it closed ... -/
theorem close_marks_closed (st : State) (s : Nat) (orc : List Nat) (hu : st.unmodelled = false)
    (ho : (st.socks s).opened = true) (hc : (st.socks s).closed = false) :
    ((step st (.close s) orc).1.socks s).closed = true := by
  unfold step
  simp only [hu, Bool.false_eq_true, if_false]
  exact opClose_closed st s ho hc

/-- ... hence right after `close s` (no later than that step), in whatever state it was issued: all
    endpoints of `s` are closed and idle, all its pipes are reaped and every pipe that reached ADD_POST
    got its REM_POST (if registered), all its contexts are closed, and nothing is parked on it -/
theorem close_closes_everything (tr : List (LOp × List Nat)) (s : Nat) (orc : List Nat)
    (hu : (run {} tr).unmodelled = false) (ho : ((run {} tr).socks s).opened = true)
    (hc : ((run {} tr).socks s).closed = false) :
    let st' := run {} (tr ++ [(.close s, orc)])
    (∀ e ∈ st'.eps, e.sock = s →
        e.closed = true ∧ e.armed = false ∧ e.timer = none ∧ e.cool = none ∧ e.userAio = false ∧ e.dPipe = none) ∧
    (∀ p ∈ st'.pipes, p.sock = s → p.reaped = true ∧ (PEv.post ∈ p.evs → p.remReg = true → PEv.rem ∈ p.evs)) ∧
    (∀ c ∈ st'.ctxs, c.sock = s → c.closed = true) ∧
    (∀ a ∈ st'.pend, tgtSock st' a.tgt ≠ some s) := by
  have hcl : ((run {} (tr ++ [(.close s, orc)])).socks s).closed = true := by
    rw [run_append]; exact close_marks_closed _ s orc hu ho hc
  have h := closed_socket_all_gone (tr ++ [(.close s, orc)]) s hcl
  refine ⟨h.1, h.2.1, h.2.2, ?_⟩
  have hst : run {} (tr ++ [(.close s, orc)]) = (fireTimers orc (opClose (run {} tr) s).1).1 := by
    rw [run_append]
    unfold step
    simp only [hu, Bool.false_eq_true, if_false]
    rfl
  rw [hst]
  exact opClose_drains (run {} tr) s ho hc


/-- The unconditional form: the C10 judge of Spec/Life.lean accepts every trace the model can produce.  It is
    FALSE (`judge_needs_modelled`): `close2` and `race` are judged but not modelled, the model answers
    `UNMODELLED` and the judge misses the result of the close.  Kept as a `def`. -/
def judge_accepts_model_statement : Prop :=
  ∀ tr : List (LOp × List Nat), (judgeRun (modelTrace {} tr)).err10 = none

/-- the hypothesis of `judge_accepts_model`: every op of the sequence was modelled; decidable -/
def Modelled (tr : List (LOp × List Nat)) : Prop := (run {} tr).unmodelled = false

instance (tr : List (LOp × List Nat)) : Decidable (Modelled tr) := inferInstanceAs (Decidable (_ = false))

/-- The C10 judge of Spec/Life.lean accepts every trace of the model, for every op sequence in which every
    op is modelled and for every oracle (same simulation as `Nng.C14.judge_accepts_model`). -/
theorem judge_accepts_model (tr : List (LOp × List Nat)) (hm : Modelled tr) :
    (judgeRun (modelTrace {} tr)).err10 = none :=
  (judge_accepts tr hm).2

/-- the hypothesis is needed -/
theorem judge_needs_modelled : ¬ judge_accepts_model_statement := by
  intro h
  have := h [(.close2 0, [])]
  revert this
  decide

/-- non-vacuity of `close_closes_everything`: an open socket with a listener, a connected pipe with all
    notifications registered, and a parked receive -/
def sampleClose : List (LOp × List Nat) :=
  [(.openSock 0 "pull", []), (.notify 0 7 false, []), (.listen 0, []), (.connDone 0 (.ok 80), []), (.recv (.sock 0) 1, [])]

example : ((run {} sampleClose).unmodelled, ((run {} sampleClose).socks 0).opened, ((run {} sampleClose).socks 0).closed,
    (run {} sampleClose).pend.length) = (false, true, false, 1) := by decide
example : (run {} (sampleClose ++ [(.close 0, [])])).pipes.map (fun p => (p.reaped, p.evs)) =
    [(true, [.pre, .post, .rem])] := by decide
example : (judgeRun (modelTrace {} (sampleClose ++ [(.close 0, [])]))).err10 = none := by decide
example : Modelled (sampleClose ++ [(.close 0, [])]) := by decide
example : (judgeRun (modelTrace {} (sampleClose ++ [(.close 0, [])]))).err10 = none :=
  judge_accepts_model _ (by decide)


/-! ### Part 2 — termination of close: a ranking argument

  Small-step model of `nng_socket_close` against the other threads, after `s_closing` is set
  (no new endpoint, pipe or context can then be added: nni_sock_add_dialer/listener, nni_ctx_open
  refuse; connect/accept callbacks of closed endpoints are stopped):
    `pipes`  pipes of the socket closed but not yet removed by the reaper (nni_pipe_remove wakes s_cv)
    `ctxs`   contexts still referenced by an operation in flight (nni_ctx_rele removes the context
             and wakes s_close_cv)
    `refs`   other references on the socket (operations in flight, endpoints not yet reaped;
             nni_sock_rele wakes s_close_cv)
    `phase`  the closer: 0 waits for the contexts (sock_shutdown), 1 waits for the pipes
             (sock_shutdown), 2 waits for references and contexts (sock_close), 3 returned. -/

structure CState where
  pipes : Nat
  ctxs : Nat
  refs : Nat
  phase : Nat
deriving Repr, DecidableEq

inductive CStep : CState → CState → Prop
  | reap (s : CState) (h : 0 < s.pipes) : CStep s { s with pipes := s.pipes - 1 }
  | ctxRele (s : CState) (h : 0 < s.ctxs) : CStep s { s with ctxs := s.ctxs - 1 }
  | refRele (s : CState) (h : 0 < s.refs) : CStep s { s with refs := s.refs - 1 }
  | closer0 (s : CState) (hp : s.phase = 0) (h : s.ctxs = 0) : CStep s { s with phase := 1 }
  | closer1 (s : CState) (hp : s.phase = 1) (h : s.pipes = 0) : CStep s { s with phase := 2 }
  | closer2 (s : CState) (hp : s.phase = 2) (h : s.refs = 0 ∧ s.ctxs = 0) : CStep s { s with phase := 3 }

/-- the ranking function: live pipes + contexts + references + remaining closer phases -/
def rank (s : CState) : Nat := s.pipes + s.ctxs + s.refs + (3 - s.phase)

/-- every step of the reaper, of a holder, or of the closer strictly decreases the rank -/
theorem step_decreases (s s' : CState) (h : CStep s s') : rank s' < rank s := by
  cases h <;> simp only [rank] <;> omega

/-- while the closer has not returned, some step is enabled: nobody waits for the closer, and the
    closer only waits for counts that some other enabled step decreases (no deadlock) -/
theorem progress (s : CState) (h : s.phase < 3) : ∃ s', CStep s s' := by
  by_cases hp : 0 < s.pipes
  · exact ⟨_, .reap s hp⟩
  · by_cases hc : 0 < s.ctxs
    · exact ⟨_, .ctxRele s hc⟩
    · by_cases hr : 0 < s.refs
      · exact ⟨_, .refRele s hr⟩
      · have h0 : s.phase = 0 ∨ s.phase = 1 ∨ s.phase = 2 := by omega
        rcases h0 with h0 | h0 | h0
        · exact ⟨_, .closer0 s h0 (by omega)⟩
        · exact ⟨_, .closer1 s h0 (by omega)⟩
        · exact ⟨_, .closer2 s h0 ⟨by omega, by omega⟩⟩

/-- hence there is no infinite execution: whatever the scheduler does, after at most `rank s`
    steps no step is left, and by `progress` that can only be with the closer returned -/
theorem no_infinite_run (f : Nat → CState) (h : ∀ n, CStep (f n) (f (n + 1))) : False := by
  have key : ∀ n, rank (f n) + n ≤ rank (f 0) := by
    intro n
    induction n with
    | zero => simp
    | succ k ih => have := step_decreases _ _ (h k); omega
  have := key (rank (f 0) + 1)
  omega

/-- a run that cannot be extended has the closer returned -/
theorem stuck_means_returned (s : CState) (hs : s.phase ≤ 3) (h : ¬ ∃ s', CStep s s') : s.phase = 3 := by
  apply Classical.byContradiction
  intro hne
  exact h (progress s (by omega))

example : ∃ s', CStep ⟨2, 1, 3, 0⟩ s' := progress _ (by decide)

end Nng.C10
