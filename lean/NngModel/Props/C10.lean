/-
  C10 — close always terminates, completes everything, invalidates handles.
  Part 1: theorems about the lifecycle model (Model/Life.lean) over all op sequences and oracles.
  Part 2: termination of the closer as a ranking argument on a small-step model of
  sock_shutdown / sock_close against the reaper and the holders of references.
-/
import NngModel.Proofs.LifeAioStep
import NngModel.Proofs.LifeStep
namespace Nng.C10
open Nng.Life Nng.LifeModel

/-- in every reachable state each submitted operation is either still parked or was completed,
    never both and never twice (tokens are the submission numbers 0 .. nsub-1) -/
theorem submissions_accounted (tr : List (LOp × List Nat)) : AioInv (run {} tr) :=
  run_aio tr {} init_aio

/-- ... in particular the completion tokens are pairwise distinct: exactly-once completion -/
theorem completed_once (tr : List (LOp × List Nat)) : ((run {} tr).compl.map (·.1)).Nodup :=
  (submissions_accounted tr).compl_nodup

/-- ... and nothing is lost: parked + completed = submitted -/
theorem nothing_lost (tr : List (LOp × List Nat)) :
    (run {} tr).pend.length + (run {} tr).compl.length = (run {} tr).nsub :=
  (submissions_accounted tr).count

/-- after `close s` no operation remains parked on the socket or on one of its contexts -/
theorem close_drains (st : State) (s : Nat) (ho : (st.socks s).opened = true) (hc : (st.socks s).closed = false) :
    ∀ a ∈ (opClose st s).1.pend, tgtSock (opClose st s).1 a.tgt ≠ some s :=
  opClose_drains st s ho hc

/-- everything `close` completes, it completes with NNG_ECLOSED -/
theorem close_completes_with_eclosed (st : State) (f : PAio → Bool) :
    ∀ o ∈ (completeWhere st f Nng.Generated.lifeEclosed).2, ∃ a, o = .done a 7 := by
  intro o ho
  unfold completeWhere at ho
  simp only [List.mem_map] at ho
  obtain ⟨a, _, rfl⟩ := ho
  exact ⟨a.aio, rfl⟩

/-- after `nng_ctx_close` of an open context nothing remains parked on it -/
theorem ctx_close_drains (st : State) (c : Nat) (x : Ctx) (hf : st.ctxs.find? (·.id == c) = some x)
    (hcl : x.closed = false) : ∀ a ∈ (opCtxClose st c).1.pend, a.tgt ≠ .ctx c := by
  intro a ha
  unfold opCtxClose at ha
  simp only [hf, hcl, Bool.false_eq_true, if_false] at ha
  unfold completeWhere at ha
  simp only at ha
  have := (List.mem_filter.mp ha).2
  simpa using this

/-- every probe the model answers for an old handle is NNG_ECLOSED or NNG_ENOENT: closed sockets,
    contexts, endpoints and reaped pipes are out of the id tables -/
theorem probes_fail (st : State) : ∀ o ∈ (opProbe st).2, ∃ imm k i rvs, o = .probe imm k i rvs ∧ ∀ r ∈ rvs, r = 7 ∨ r = 12 := by
  intro o ho
  unfold opProbe at ho
  simp only [List.mem_append, List.mem_map] at ho
  rcases ho with ((⟨s, _, rfl⟩ | ⟨c, _, rfl⟩) | ⟨e, _, rfl⟩) | ⟨p, _, rfl⟩
  · exact ⟨false, .sock, s, _, rfl, by decide⟩
  · exact ⟨false, .ctx, c.id, _, rfl, by decide⟩
  · exact ⟨false, .ep, e.idx, _, rfl, by decide⟩
  · exact ⟨false, .pipe, p.idx, _, rfl, by decide⟩


/-! ### Part 2 — termination of close: a ranking argument

  Small-step model of `nng_socket_close` against the other threads, after `s_closing` is set
  (no new endpoint, pipe or context can then be added: nni_sock_add_dialer/listener, nni_ctx_open
  refuse; connect/accept callbacks of closed endpoints are stopped):
    `pipes`  pipes of the socket closed but not yet removed by the reaper (nni_pipe_remove wakes s_cv)
    `ctxs`   contexts still referenced by an operation in flight (nni_ctx_rele removes the context
             and wakes s_close_cv)
    `refs`   other references on the socket (operations in flight, endpoints not yet reaped;
             nni_sock_rele wakes s_close_cv)
    `phase`  the closer: 0 waits for the contexts (sock_shutdown), 1 waits for the pipes
             (sock_shutdown), 2 waits for references and contexts (sock_close), 3 returned. -/

structure CState where
  pipes : Nat
  ctxs : Nat
  refs : Nat
  phase : Nat
deriving Repr, DecidableEq

inductive CStep : CState → CState → Prop
  | reap (s : CState) (h : 0 < s.pipes) : CStep s { s with pipes := s.pipes - 1 }
  | ctxRele (s : CState) (h : 0 < s.ctxs) : CStep s { s with ctxs := s.ctxs - 1 }
  | refRele (s : CState) (h : 0 < s.refs) : CStep s { s with refs := s.refs - 1 }
  | closer0 (s : CState) (hp : s.phase = 0) (h : s.ctxs = 0) : CStep s { s with phase := 1 }
  | closer1 (s : CState) (hp : s.phase = 1) (h : s.pipes = 0) : CStep s { s with phase := 2 }
  | closer2 (s : CState) (hp : s.phase = 2) (h : s.refs = 0 ∧ s.ctxs = 0) : CStep s { s with phase := 3 }

/-- the ranking function: live pipes + contexts + references + remaining closer phases -/
def rank (s : CState) : Nat := s.pipes + s.ctxs + s.refs + (3 - s.phase)

/-- every step of the reaper, of a holder, or of the closer strictly decreases the rank -/
theorem step_decreases (s s' : CState) (h : CStep s s') : rank s' < rank s := by
  cases h <;> simp only [rank] <;> omega

/-- while the closer has not returned, some step is enabled: nobody waits for the closer, and the
    closer only waits for counts that some other enabled step decreases (no deadlock) -/
theorem progress (s : CState) (h : s.phase < 3) : ∃ s', CStep s s' := by
  by_cases hp : 0 < s.pipes
  · exact ⟨_, .reap s hp⟩
  · by_cases hc : 0 < s.ctxs
    · exact ⟨_, .ctxRele s hc⟩
    · by_cases hr : 0 < s.refs
      · exact ⟨_, .refRele s hr⟩
      · have h0 : s.phase = 0 ∨ s.phase = 1 ∨ s.phase = 2 := by omega
        rcases h0 with h0 | h0 | h0
        · exact ⟨_, .closer0 s h0 (by omega)⟩
        · exact ⟨_, .closer1 s h0 (by omega)⟩
        · exact ⟨_, .closer2 s h0 ⟨by omega, by omega⟩⟩

/-- hence there is no infinite execution: whatever the scheduler does, after at most `rank s`
    steps no step is left, and by `progress` that can only be with the closer returned -/
theorem no_infinite_run (f : Nat → CState) (h : ∀ n, CStep (f n) (f (n + 1))) : False := by
  have key : ∀ n, rank (f n) + n ≤ rank (f 0) := by
    intro n
    induction n with
    | zero => simp
    | succ k ih => have := step_decreases _ _ (h k); omega
  have := key (rank (f 0) + 1)
  omega

/-- a run that cannot be extended has the closer returned -/
theorem stuck_means_returned (s : CState) (hs : s.phase ≤ 3) (h : ¬ ∃ s', CStep s s') : s.phase = 3 := by
  apply Classical.byContradiction
  intro hne
  exact h (progress s (by omega))

example : ∃ s', CStep ⟨2, 1, 3, 0⟩ s' := progress _ (by decide)

end Nng.C10
