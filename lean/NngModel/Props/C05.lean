/-
  C05 — PUB/SUB.  Property theorems about the executable models Model/Sub.lean,
  Model/Pub.lean and Model/Xsub.lean (tied to sub.c / pub.c / xsub.c + msgqueue.c by the SIM
  correspondence of vlib/props/c05.py).  Helper lemmas live in
  Proofs/{SubMatch,SubCtx,SubInv,SubCid,PubInv,XsubInv}.lean; the simulation proofs behind the
  three `*_model_satisfies_judge` theorems in Proofs/{SubSim,SubJudge,PubSim,PubJudge,XsubJudge}.lean.

  Reading guide: `Sub.reach evs` / `Pub.reach evs` is the model state after ANY list of
  harness events; `LiveCtx s c` says `c` is the socket-level context of an opened socket or
  one of its open contexts.
-/
import NngModel.Proofs.SubInv
import NngModel.Proofs.SubCid
import NngModel.Proofs.PubInv
import NngModel.Proofs.SubJudge
import NngModel.Proofs.PubJudge
import NngModel.Proofs.XsubInv
import NngModel.Proofs.XsubJudge
namespace Nng.C05
open Nng Nng.Proto

/-- the protocol numbers used by the models are those of the C source -/
theorem proto_ids : Nng.Sub.peerPub = Nng.Proto.protoId 2 0 ∧ Nng.Pub.peerSub = Nng.Proto.protoId 2 1 := by decide

/-! ## SUB -/
section SUB
open Nng.Sub

/-- a context that takes part in deliveries -/
def LiveCtx (s : State) (c : Ctx) : Prop := (s.opened = true ∧ c = s.master) ∨ c ∈ s.ctxs

theorem live_inv {evs : List Ev} {c : Ctx} (h : LiveCtx (reach evs) c) : CtxInv (reach evs).arrived c := by
  rcases h with ⟨ho, rfl⟩ | hm
  · exact (reach_inv evs).master ho
  · exact ((reach_inv evs).ctxs c hm).1

/-- T1: the C matcher (compare lengths, then memcmp) accepts a body iff one of the topics is
    a prefix of it; in particular the empty topic matches everything and no topic nothing -/
theorem T1_matches_iff_prefix (topics : List Bytes) (body : Bytes) :
    subMatches topics body = true ↔ ∃ t ∈ topics, t <+: body := subMatches_iff topics body

theorem T1_empty_topic_matches_all (topics : List Bytes) (body : Bytes) (h : [] ∈ topics) :
    subMatches topics body = true := (subMatches_iff topics body).2 ⟨[], h, List.nil_prefix⟩

theorem T1_no_topic_matches_nothing (body : Bytes) : subMatches [] body = false := rfl

/-- the judge's matcher (`List.isPrefixOf`) and the model's matcher agree -/
theorem T1_judge_matcher (topics : List Bytes) (body : Bytes) :
    subMatches topics body = Nng.PubSubSpec.prefixMatch topics body := subMatches_eq_prefixMatch topics body

/-- the context took the message: it went to a waiting receiver or to the end of the queue -/
def Took (gm : GMsg) (c c' : Ctx) : Prop :=
  (c'.got = c.got ++ [gm] ∧ c'.q = c.q) ∨ (c'.got = c.got ∧ c'.q = c.q ++ [gm])

theorem not_took_self (gm : GMsg) (c : Ctx) : ¬ Took gm c c := by
  rintro (⟨h, _⟩ | ⟨_, h⟩) <;> (have := congrArg List.length h; simp at this)

/-- T2: in every reachable state, a context with a waiting receiver or with room in its
    buffer takes an arriving message iff the message matches its CURRENT topics -/
theorem T2_delivery_iff_match (evs : List Ev) (c : Ctx) (hl : LiveCtx (reach evs) c) (gm : GMsg)
    (hroom : c.rq ≠ [] ∨ c.q.length < c.cap) :
    Took gm c (arriveCtx gm c).1 ↔ subMatches c.topics gm.body = true := by
  have hi := live_inv hl
  cases hrq : c.rq with
  | cons a rest =>
    have hq : c.q = [] := hi.wait (by simp [hrq])
    rw [arriveCtx_waiter gm c a rest hq hi.cap hrq]
    by_cases hm : subMatches c.topics gm.body = true
    · simp only [hm, if_true, iff_true]; exact Or.inl ⟨rfl, rfl⟩
    · simp only [hm, Bool.false_eq_true, if_false, iff_false]; exact not_took_self gm c
  | nil =>
    have hroom' : c.q.length < c.cap := by
      rcases hroom with h | h
      · exact absurd hrq h
      · exact h
    rw [arriveCtx_room gm c hroom' hrq]
    by_cases hm : subMatches c.topics gm.body = true
    · simp only [hm, if_true, iff_true]; exact Or.inr ⟨rfl, rfl⟩
    · simp only [hm, Bool.false_eq_true, if_false, iff_false]; exact not_took_self gm c

/-- T2 (bytes): every completion caused by an arrival carries exactly the arriving bytes -/
theorem T2_delivered_bytes (gm : GMsg) (c : Ctx) :
    ∀ o ∈ (arriveCtx gm c).2.1, ∃ a, o = Out.done a 0 (some ⟨[], gm.body⟩) false := arriveCtx_out gm c

/-- T3 (bound): no context ever buffers more than its configured depth, and the depth is ≥ 1 -/
theorem T3_queue_bounded (evs : List Ev) (c : Ctx) (hl : LiveCtx (reach evs) c) :
    c.q.length ≤ c.cap ∧ 1 ≤ c.cap := ⟨(live_inv hl).len, (live_inv hl).cap⟩

/-- T3 (drop rule): in every reachable state a context whose buffer is full loses exactly
    one message per matching arrival — its oldest queued message if prefer_new, otherwise
    the arriving one — and is untouched by a non-matching arrival -/
theorem T3_full_drops_exactly_one (evs : List Ev) (c : Ctx) (hl : LiveCtx (reach evs) c) (gm : GMsg)
    (hfull : c.q.length = c.cap) :
    ∃ old t, c.q = old :: t ∧
      (arriveCtx gm c).1 =
        if subMatches c.topics gm.body && c.preferNew then
          { c with q := t ++ [gm], dropped := c.dropped ++ [old] }
        else c := by
  have hi := live_inv hl
  cases hq : c.q with
  | nil => have := hi.cap; rw [hq] at hfull; simp at hfull; omega
  | cons old t =>
    have hrq : c.rq = [] := by
      cases hr : c.rq with
      | nil => rfl
      | cons x xs => have := hi.wait (by simp [hr]); rw [hq] at this; cases this
    refine ⟨old, t, rfl, ?_⟩
    rw [arriveCtx_full gm c old t hq hfull hrq]
    split <;> rfl

/-- T4 (independence, arrivals): what an arrival does to a context is a function of that
    context's own state and of the message — of nothing else -/
theorem T4_arrival_per_context (s : State) (p : Nat) (b : Bytes) :
    (arrive s p b).1.master = (arriveCtx ⟨s.narrive, p, b⟩ s.master).1 ∧
    (arrive s p b).1.ctxs = s.ctxs.map (fun c => (arriveCtx ⟨s.narrive, p, b⟩ c).1) :=
  ⟨rfl, arriveList_eq_map _ _⟩

/-- T4 (independence, operations): replacing one context (what subscribe, unsubscribe,
    receive and the option setters do) leaves every context with another identity as it was -/
theorem T4_setCtx_others (s : State) (c : Ctx) :
    (∀ y ∈ s.ctxs, y.cid ≠ c.cid → y ∈ (setCtx s c).ctxs) ∧
    (c.cid ≠ 0 → (setCtx s c).master = s.master) ∧ (c.cid = 0 → (setCtx s c).ctxs = s.ctxs) := by
  refine ⟨?_, ?_, ?_⟩
  · intro y hy hne
    by_cases h0 : c.cid = 0
    · rw [setCtx_master h0]; exact hy
    · rw [setCtx_other h0]
      simp only [List.mem_map]
      exact ⟨y, hy, by simp [hne]⟩
  · intro h0; rw [setCtx_other h0]
  · intro h0; rw [setCtx_master h0]

/-- T4 (identities): in every reachable state the open contexts have pairwise distinct
    identities, none of them the socket-level context's (0) — so "every context with another
    identity" above means every other context -/
theorem T4_identities_distinct (evs : List Ev) :
    ((reach evs).ctxs.map (·.cid)).Nodup ∧ (∀ c ∈ (reach evs).ctxs, c.cid ≠ 0) ∧ (reach evs).master.cid = 0 :=
  ⟨(reach_cid evs).nodup, fun c hc => ((reach_inv evs).ctxs c hc).2, (reach_inv evs).mcid⟩

/-- T5 (unsubscribe): after a successful unsubscribe the topic is gone and the queue is the
    old queue filtered by the remaining topics, order kept; everything else is unchanged -/
theorem T5_unsubscribe_purges (evs : List Ev) (c : Ctx) (hl : LiveCtx (reach evs) c) (t : Bytes)
    (ht : t ∈ c.topics) :
    ∃ c', unsubscribeCtx c t = some c' ∧ c'.topics = c.topics.erase t ∧ t ∉ c'.topics ∧
      c'.q = c.q.filter (fun m => subMatches c'.topics m.body) ∧ c'.got = c.got ∧ c'.rq = c.rq ∧
      c'.cap = c.cap ∧ c'.preferNew = c.preferNew := by
  have hi := live_inv hl
  obtain ⟨c', h0, h1, h2, _, h4, h5, h6, _, _, h9⟩ := unsubscribeCtx_present c t ht hi.len
  refine ⟨c', h0, h1, ?_, by rw [h1]; exact h2, h6, h5, h4, h9⟩
  rw [h1]; exact fun hmem => (List.Nodup.mem_erase_iff hi.nodup).1 hmem |>.1 rfl

/-- T5 (absent topic): unsubscribing a topic that is not subscribed returns NNG_ENOENT and
    changes nothing -/
theorem T5_unsubscribe_absent (s : State) (c : Option Nat) (cx : Ctx) (t : Bytes)
    (hc : getCtx s c = some cx) (ht : t ∉ cx.topics) :
    opUnsub s c t = (s, [.rv Err.enoent]) := by
  unfold opUnsub; rw [hc]; simp only []; rw [unsubscribeCtx_absent cx t ht]

/-- T5 (subscribe): subscribing returns 0 whether or not the topic is already there; a
    duplicate changes nothing, so subscribing twice is the same as once -/
theorem T5_subscribe_idempotent (c : Ctx) (t : Bytes) :
    subscribeCtx (subscribeCtx c t) t = subscribeCtx c t ∧ (t ∈ c.topics → subscribeCtx c t = c) ∧
    t ∈ (subscribeCtx c t).topics :=
  ⟨subscribeCtx_idem c t, subscribeCtx_present c t, subscribeCtx_mem c t⟩

theorem T5_subscribe_rv (s : State) (c : Option Nat) (cx : Ctx) (t : Bytes) (hc : getCtx s c = some cx) :
    (opSub s c t).2 = [.rv 0] := by
  unfold opSub; rw [hc]

/-- T6: in every reachable state, for every context (live or closed): what it has handed to
    the application followed by what it still queues is a subsequence of the arrivals, and
    arrival ids are strictly increasing — so per context nothing is duplicated, reordered
    or invented -/
theorem T6_subsequence (evs : List Ev) (c : Ctx)
    (hc : LiveCtx (reach evs) c ∨ c ∈ (reach evs).dead) :
    (c.got ++ c.q).Sublist (reach evs).arrived ∧
    (reach evs).arrived.Pairwise (fun a b => a.gid < b.gid) ∧
    (c.got ++ c.q).Pairwise (fun a b => a.gid < b.gid) := by
  have hsub : (c.got ++ c.q).Sublist (reach evs).arrived := by
    rcases hc with hl | hd
    · exact (live_inv hl).hist
    · exact (reach_inv evs).dead c hd
  exact ⟨hsub, (reach_inv evs).gids, (reach_inv evs).gids.sublist hsub⟩

theorem T6_no_duplicates (evs : List Ev) (c : Ctx) (hc : LiveCtx (reach evs) c ∨ c ∈ (reach evs).dead) :
    (c.got.map (·.gid)).Nodup := by
  have h := (T6_subsequence evs c hc).2.2
  have h' : c.got.Pairwise (fun a b => a.gid < b.gid) := (List.pairwise_append.1 h).1
  rw [List.Nodup, List.pairwise_map]
  exact h'.imp (fun hlt => Nat.ne_of_lt hlt)

/-- T6 (bytes): a receive returns the oldest queued message, its bytes unchanged, and moves
    it from the queue to the delivered history -/
theorem T6_receive_oldest (c : Ctx) (a : Nat) (mode : Mode) (now : Nat) (m : GMsg) (rest : List GMsg)
    (hq : c.q = m :: rest) :
    recvCtx c a mode now = ({ c with q := rest, got := c.got ++ [m] }, [Out.done a 0 (some ⟨[], m.body⟩) false]) :=
  recvCtx_nonempty c a mode now m rest hq

/-- T8 (feeds C15): in every reachable state of an opened socket the receive descriptor is
    readable iff the socket-level context has a message queued … -/
theorem T8_readable_iff_queued (evs : List Ev) (ho : (reach evs).opened = true) :
    (reach evs).readable = !(reach evs).master.q.isEmpty := (reach_inv evs).rd ho

/-- … iff a non-blocking receive on the socket returns a message at once -/
theorem T8_readable_iff_nb_recv_succeeds (evs : List Ev) (a : Nat) (ho : (reach evs).opened = true)
    (hfree : anyParked (reach evs) a = false) :
    ((reach evs).readable = true ↔ ∃ m, (opRecv (reach evs) none a .nb).2 = [Out.done a 0 (some m) false]) ∧
    ((reach evs).readable = false ↔ (opRecv (reach evs) none a .nb).2 = [Out.done a Err.eagain none false]) := by
  have hrd := T8_readable_iff_queued evs ho
  unfold opRecv
  simp only [hfree, Bool.false_eq_true, if_false, getCtx]
  cases hq : (reach evs).master.q with
  | nil =>
    rw [hrd, hq, recvCtx_empty_nb _ _ _ hq]
    simp
  | cons m rest =>
    rw [hrd, hq, recvCtx_nonempty _ _ _ _ m rest hq]
    simp

end SUB

/-! ## PUB -/
section PUB
open Nng.Pub

/-- T7 (never blocks): on an open PUB socket a send completes with 0 in its own step, the
    message gone from the aio, in EVERY state and for every mode (non-blocking, timed, …) -/
theorem T7_send_completes (s : State) (a : Nat) (m : WMsg) (mode : Mode)
    (ho : s.opened = true) (hc : s.closed = false) :
    Out.done a 0 none false ∈ (step s (.send none a m mode)).2 := by
  unfold step; simp [ho, hc, stepOpen, opSend]

/-- T7 (never parks): an aio completion appears only in the step of the send / receive call
    that submitted it — no state of the model holds a pending send -/
theorem T7_never_parked (s : State) (ev : Ev) (a rv : Nat) (msg : Option WMsg) (mb : Bool)
    (h : Out.done a rv msg mb ∈ (step s ev).2) :
    (∃ c m mode, ev = .send c a m mode) ∨ (∃ c mode, ev = .recv c a mode) := by
  unfold step at h
  split at h
  · split at h <;> simp at h
  · split at h
    · split at h <;> simp at h
    · cases ev with
      | send c a' m mode =>
        left
        simp only [stepOpen, opSend] at h
        split at h
        · simp at h; exact ⟨_, m, mode, by rw [h.1]⟩
        · simp only [List.mem_append, List.mem_singleton] at h
          rcases h with h | h
          · exact absurd rfl (sendList_no_done _ _ _ h a rv msg mb)
          · cases h; exact ⟨_, m, mode, rfl⟩
      | recv c a' mode =>
        right
        simp only [stepOpen] at h
        split at h <;> (simp at h; exact ⟨_, mode, by rw [h.1]⟩)
      | pipeAdd peer => simp only [stepOpen, opPipeAdd] at h; split at h <;> simp at h
      | pipeDrop p =>
        simp only [stepOpen, opPipeDrop] at h
        split at h
        · split at h
          · simp at h
          · simp only [List.mem_append, List.mem_singleton] at h
            rcases h with h | h
            · cases h
            · exact absurd rfl (closePipe_no_done _ _ _ h a rv msg mb)
        · simp at h
      | sendDone p r =>
        simp only [stepOpen, opSendDone] at h
        split at h
        · split at h
          · split at h
            · simp at h
            · split at h
              · simp only [List.mem_append, List.mem_singleton] at h
                rcases h with h | h
                · cases h
                · exact absurd rfl (closePipe_no_done _ _ _ h a rv msg mb)
              · simp only [List.mem_append, List.mem_singleton] at h
                rcases h with h | h
                · cases h
                · unfold sendDonePipe at h; split at h <;> simp at h
          · simp at h
        · simp at h
      | recvDone p r =>
        simp only [stepOpen, opRecvDone] at h
        split at h
        · split at h
          · simp at h
          · simp only [List.mem_append, List.mem_singleton] at h
            rcases h with h | h
            · cases h
            · exact absurd rfl (closePipe_no_done _ _ _ h a rv msg mb)
        · simp at h
      | setopt c name ty v =>
        simp only [stepOpen, opSetopt] at h
        split at h
        · split at h <;> simp at h
        · simp at h
      | getopt c name ty => simp only [stepOpen] at h; split at h <;> simp at h
      | close => simp only [stepOpen] at h; exact absurd rfl (closeList_no_done _ _ h a rv msg mb)
      | openSock _ _ => simp [stepOpen] at h
      | cancel _ => simp [stepOpen] at h
      | abort _ _ => simp [stepOpen] at h
      | advance _ => simp [stepOpen] at h
      | ctxOpen _ => simp [stepOpen] at h
      | ctxClose _ => simp [stepOpen] at h
      | poll => simp [stepOpen] at h
      | sub _ _ => simp [stepOpen] at h
      | unsub _ _ => simp [stepOpen] at h

/-- T7 (wire): in every reachable state, for every pipe: what was handed to the transport
    followed by what is queued is a subsequence of what was published while the pipe was
    connected, which is a subsequence of everything published; ids strictly increase, so each
    message goes at most once to each pipe and never out of order; the queue never exceeds
    the send buffer depth -/
theorem T7_wire_subsequence (evs : List Ev) (p : Pipe) (hp : p ∈ (reach evs).pipes) :
    (p.wire ++ p.q).Sublist p.offered ∧ p.offered.Sublist (reach evs).published ∧
    (p.wire.map (·.gid)).Nodup ∧ p.wire.Pairwise (fun a b => a.gid < b.gid) ∧ p.q.length ≤ p.cap := by
  have hi := (reach_inv evs).pipes p hp
  have hpw : (p.wire ++ p.q).Pairwise (fun a b => a.gid < b.gid) :=
    (reach_inv evs).gids.sublist (hi.hist.trans hi.off)
  have hw : p.wire.Pairwise (fun a b => a.gid < b.gid) := (List.pairwise_append.1 hpw).1
  refine ⟨hi.hist, hi.off, ?_, hw, hi.len⟩
  rw [List.Nodup, List.pairwise_map]
  exact hw.imp (fun hlt => Nat.ne_of_lt hlt)

/-- T7 (drop rule, as the code does): a connected pipe that is busy and whose queue is full
    discards its OLDEST queued message and queues the new one; with room it just queues;
    an idle pipe sends at once -/
theorem T7_pipe_rule (evs : List Ev) (p : Pipe) (hp : p ∈ (reach evs).pipes) (hl : p.listed = true) (gm : GMsg) :
    (p.busy = none → sendPipe gm p =
        ({ p with offered := p.offered ++ [gm], busy := some gm, wire := p.wire ++ [gm] }, [Out.psend p.id gm.m])) ∧
    (p.busy ≠ none → p.q.length < p.cap → sendPipe gm p =
        ({ p with offered := p.offered ++ [gm], q := p.q ++ [gm] }, [])) ∧
    (p.busy ≠ none → p.q.length = p.cap → ∃ old t, p.q = old :: t ∧ sendPipe gm p =
        ({ p with offered := p.offered ++ [gm], q := t ++ [gm], dropped := p.dropped ++ [old] }, [])) := by
  have hi := (reach_inv evs).pipes p hp
  refine ⟨fun hb => sendPipe_idle gm p hl hb, ?_, ?_⟩
  · intro hb hroom
    have ⟨x, hbb⟩ : ∃ x, p.busy = some x := by
      cases h : p.busy with
      | none => exact absurd h hb
      | some x => exact ⟨x, rfl⟩
    exact sendPipe_room gm p x hl hbb hroom
  · intro hb hfull
    have ⟨x, hbb⟩ : ∃ x, p.busy = some x := by
      cases h : p.busy with
      | none => exact absurd h hb
      | some x => exact ⟨x, rfl⟩
    have ⟨old, t, hq⟩ : ∃ old t, p.q = old :: t := by
      cases h : p.q with
      | nil => have := hi.cap; rw [h] at hfull; simp at hfull; omega
      | cons old t => exact ⟨old, t, rfl⟩
    exact ⟨old, t, hq, sendPipe_full gm p x old t hl hbb hq hfull⟩

/-- T8 (PUB): the send descriptor of an open PUB socket always polls writable -/
theorem T8_pub_always_writable (s : State) (ho : s.opened = true) (hc : s.closed = false) :
    (step s .poll).2 = [.poll none (some true)] := by
  unfold step; simp [ho, hc, stepOpen]

end PUB

/-! ## raw SUB (xsub.c over the socket's upper read queue) -/
section XSUB
open Nng.Xsub

/-- X1 (every arrival accounted for, in order, at most once): in every reachable state every
    message the transport delivered is in exactly one of: handed to the application, still
    queued, discarded (`Perm`); what was handed over followed by what is queued is a
    subsequence of the arrivals, whose ghost ids strictly increase — so nothing is
    duplicated, reordered or invented -/
theorem X1_arrivals_accounted (evs : List Ev) :
    ((reach evs).got ++ (reach evs).q ++ (reach evs).dropped).Perm (reach evs).arrived ∧
    ((reach evs).got ++ (reach evs).q).Sublist (reach evs).arrived ∧
    (reach evs).arrived.Pairwise (fun a b => a.gid < b.gid) ∧
    ((reach evs).got ++ (reach evs).q).Pairwise (fun a b => a.gid < b.gid) ∧
    ((reach evs).got.map (·.gid)).Nodup := by
  have hi := reach_inv evs
  have hp := hi.gids.sublist hi.hist
  refine ⟨hi.acct, hi.hist, hi.gids, hp, ?_⟩
  rw [List.Nodup, List.pairwise_map]
  exact (List.pairwise_append.1 hp).1.imp (fun hlt => Nat.ne_of_lt hlt)

/-- X2 (arrival rule — whole drops only when the queue is full): an arrival goes to the oldest
    waiting receiver if there is one; otherwise it is queued LAST while fewer than `cap`
    messages are queued; only when the queue is full is it discarded — the whole arriving
    message, the queue untouched -/
theorem X2_arrival_rule (s : State) (gm : GMsg) :
    (∀ r rs, s.getq = r :: rs →
        tryput s gm = ({ s with getq := rs, got := s.got ++ [gm] }, [Out.done r.aio 0 (some ⟨[], gm.body⟩) false])) ∧
    (s.getq = [] → s.q.length < s.cap → tryput s gm = ({ s with q := s.q ++ [gm] }, [])) ∧
    (s.getq = [] → s.cap ≤ s.q.length → tryput s gm = ({ s with dropped := s.dropped ++ [gm] }, [])) := by
  refine ⟨?_, ?_, ?_⟩
  · intro r rs h; simp [tryput, h, deliver]
  · intro h hroom; simp [tryput, h, hroom]
  · intro h hfull
    have : ¬ s.q.length < s.cap := by omega
    simp [tryput, h, this]

/-- X3 (receive): in every reachable state a receive on the socket with a free aio returns the
    OLDEST queued message, bytes unchanged, in EVERY mode (non-blocking included — the F13
    repair); with nothing queued a non-blocking receive fails with NNG_EAGAIN and a
    zero-timeout one with NNG_ETIMEDOUT, both at once -/
theorem X3_receive_oldest (evs : List Ev) (a : Nat) (mode : Mode) (hfree : (reach evs).getq.any (·.aio == a) = false) :
    (∀ m ms, (reach evs).q = m :: ms →
      opRecv (reach evs) none a mode =
        ({ reach evs with q := ms, got := (reach evs).got ++ [m] }, [Out.done a 0 (some ⟨[], m.body⟩) false])) ∧
    ((reach evs).q = [] → (opRecv (reach evs) none a .nb).2 = [Out.done a Err.eagain none false] ∧
      (opRecv (reach evs) none a (.ms 0)).2 = [Out.done a Err.etimedout none false]) := by
  have hi := reach_inv evs
  refine ⟨?_, ?_⟩
  · intro m ms hq
    have hg : (reach evs).getq = [] := by
      cases hgq : (reach evs).getq with
      | nil => rfl
      | cons r rs => have := hi.wait (by simp [hgq]); rw [hq] at this; cases this
    unfold opRecv
    simp only [hfree, Bool.false_eq_true, if_false]
    exact aioGet_deliver _ a mode m ms hg hq
  · intro hq
    unfold opRecv
    simp only [hfree, Bool.false_eq_true, if_false]
    rw [aioGet_wait _ a .nb hq, aioGet_wait _ a (.ms 0) hq]
    exact ⟨rfl, rfl⟩

/-- X4 (feeds C15): in every reachable state the receive descriptor of the raw socket is
    readable iff a non-blocking receive returns a message at once -/
theorem X4_readable_iff_nb_recv_succeeds (evs : List Ev) (a : Nat) (hfree : (reach evs).getq.any (·.aio == a) = false) :
    (readable (reach evs) = true ↔ ∃ m, (opRecv (reach evs) none a .nb).2 = [Out.done a 0 (some m) false]) ∧
    (readable (reach evs) = false ↔ (opRecv (reach evs) none a .nb).2 = [Out.done a Err.eagain none false]) := by
  have h3 := X3_receive_oldest evs a .nb hfree
  cases hq : (reach evs).q with
  | nil =>
    have := (h3.2 hq).1
    simp [readable, hq, this]
  | cons m ms =>
    have := h3.1 m ms hq
    simp [readable, hq, this]

/-- X5 (occupancy): the queue never holds more than depth + 1 messages (the + 1 only after a
    shrink of NNG_OPT_RECVBUF below the fill level), and no receive is ever parked while a
    message is queued -/
theorem X5_queue_bounded (evs : List Ev) :
    (reach evs).q.length ≤ (reach evs).cap + 1 ∧ ((reach evs).getq ≠ [] → (reach evs).q = []) :=
  ⟨(reach_inv evs).len, (reach_inv evs).wait⟩

/-- X6 (resize): NNG_OPT_RECVBUF keeps the NEWEST depth + 1 queued messages in order and
    discards only older ones, whole -/
theorem X6_resize_keeps_newest (s : State) (cap : Nat) :
    (resize s cap).q = s.q.drop (s.q.length - (cap + 1)) ∧
    (resize s cap).dropped = s.dropped ++ s.q.take (s.q.length - (cap + 1)) ∧ (resize s cap).cap = cap ∧
    (s.q.length ≤ cap + 1 → (resize s cap).q = s.q) := by
  refine ⟨rfl, rfl, rfl, ?_⟩
  intro h
  have : s.q.length - (cap + 1) = 0 := by omega
  simp [resize, this]

end XSUB

/-! ## non-vacuity: the hypotheses of the theorems are met by concrete reachable states -/
section Examples

/-- socket with depth 1 subscribed to "a", one context subscribed to everything with a receiver
    waiting; two arrivals -/
def subDemo : List Ev :=
  [.openSock "sub" false, .setopt none "recv-buffer" "int" 1, .pipeAdd 32, .sub none [0x61],
   .ctxOpen 0, .sub (some 0) [], .recv (some 0) 3 .inf,
   .recvDone 0 (.ok [0x61, 1]), .recvDone 0 (.ok [0x62, 2])]

-- the socket-level context is full (hypothesis of T3) and readable (T8) …
example : (Nng.Sub.reach subDemo).master.q.map (·.body) = [[0x61, 1]] ∧
    (Nng.Sub.reach subDemo).master.q.length = (Nng.Sub.reach subDemo).master.cap ∧
    (Nng.Sub.reach subDemo).readable = true ∧ (Nng.Sub.reach subDemo).opened = true := by decide
-- … the context got the first message through its waiting receiver and queued the second (T2, T4, T6)
example : (Nng.Sub.reach subDemo).ctxs.map (fun c => (c.got.map (·.body), c.q.map (·.body))) =
    [([[0x61, 1]], [[0x62, 2]])] := by decide
-- a third matching arrival on the full socket context replaces the oldest message (prefer_new is the default)
example : (Nng.Sub.reach (subDemo ++ [.recvDone 0 (.ok [0x61, 3])])).master.q.map (·.body) = [[0x61, 3]] := by decide
-- … and is refused with prefer_new off
example : (Nng.Sub.reach (subDemo ++ [.setopt none "sub:prefnew" "bool" 0, .recvDone 0 (.ok [0x61, 3])])).master.q.map (·.body)
    = [[0x61, 1]] := by decide
-- unsubscribe purges the queue and clears `readable` (T5, T8)
example : (Nng.Sub.reach (subDemo ++ [.unsub none [0x61]])).master.q = [] ∧
    (Nng.Sub.reach (subDemo ++ [.unsub none [0x61]])).readable = false := by decide
example : (Nng.Sub.step (Nng.Sub.reach subDemo) (.unsub none [0x62])).2 = [.rv 12] := by decide

/-- PUB with send buffer 1 and one subscriber: three publishes while the first is in flight -/
def pubDemo : List Ev :=
  [.openSock "pub" false, .setopt none "send-buffer" "int" 1, .pipeAdd 33,
   .send none 0 ⟨[], [1]⟩ .nb, .send none 1 ⟨[], [2]⟩ .inf, .send none 2 ⟨[], [3]⟩ (.ms 0)]

-- the pipe is busy with message 1, message 2 was dropped from the full queue, message 3 is queued
example : (Nng.Pub.reach pubDemo).pipes.map (fun p => (p.busy.map (·.m.body), p.q.map (·.m.body), p.dropped.map (·.m.body),
    p.listed, p.q.length == p.cap)) = [(some [1], [[3]], [[2]], true, true)] := by decide
example : (Nng.Pub.step (Nng.Pub.reach pubDemo) (.sendDone 0 0)).2 = [.rv 0, .psend 0 ⟨[], [3]⟩] := by decide

/-- raw SUB with depth 2: three arrivals (the third is dropped whole), one parked-free receive -/
def xsubDemo : List Ev :=
  [.openSock "sub" true, .setopt none "recv-buffer" "int" 2, .pipeAdd 32,
   .recvDone 0 (.ok [1]), .recvDone 0 (.ok [2]), .recvDone 0 (.ok [3])]

-- the queue is full, the third message was discarded, the descriptor is readable and aio 0 is free (hypotheses of X3 / X4)
example : (Nng.Xsub.reach xsubDemo).q.map (·.body) = [[1], [2]] ∧ (Nng.Xsub.reach xsubDemo).dropped.map (·.body) = [[3]] ∧
    Nng.Xsub.readable (Nng.Xsub.reach xsubDemo) = true ∧ (Nng.Xsub.reach xsubDemo).getq.any (·.aio == 0) = false := by decide
-- a non-blocking receive returns the oldest message; a shrink to depth 0 keeps the newest one
example : (Nng.Xsub.step (Nng.Xsub.reach xsubDemo) (.recv none 0 .nb)).2 = [.done 0 0 (some ⟨[], [1]⟩) false] := by decide
example : (Nng.Xsub.reach (xsubDemo ++ [.setopt none "recv-buffer" "int" 0])).q.map (·.body) = [[2]] := by decide
-- a parked receiver gets the next arrival at once
example : (Nng.Xsub.step (Nng.Xsub.reach [.openSock "sub" true, .pipeAdd 32, .recv none 4 .inf]) (.recvDone 0 (.ok [9]))).2 =
    [.rv 0, .done 4 0 (some ⟨[], [9]⟩) false, .parm 0] := by decide

end Examples

/-! ## the models satisfy the executable specification on every event sequence

  `trace step s evs` zips the events with the model's outputs; `subJudge` / `pubJudge` are the
  trace predicates of Spec/PubSub.lean that the check also runs on the implementation's
  traces.  Proof: the judge's state is a FUNCTION of the model's state (`Sub.absJ`, `Pub.absJ`:
  contexts / pipes with their topics, depth, queued bodies, waiting aios — nothing else), and one
  judge step on the model's outputs lands on that function of the model's next state
  (`Sub.sim_step`, `Pub.sim_step`, Proofs/{SubSim,SubJudge,PubSim,PubJudge}.lean). -/

def trace {σ : Type} (step : σ → Ev → σ × List Out) : σ → List Ev → List (Ev × List Out)
  | _, [] => []
  | s, e :: es => (e, (step s e).2) :: trace step (step s e).1 es

/-- JUDGE (SUB): for every event sequence that does not contain the API misuse `abort aio 0`
    (aborting an operation with the success code: the model, like the library, then completes
    the receive with 0 and no message, which the specification rejects) the trace of the SUB
    model is accepted by `subJudge` -/
theorem sub_model_satisfies_judge (evs : List Ev) (hn : Nng.Sub.NoAbort0 evs) :
    Nng.PubSubSpec.subJudge (trace Nng.Sub.step {} evs) = none := by
  have : ∀ (evs : List Ev) (s : Nng.Sub.State), trace Nng.Sub.step s evs = Nng.Sub.traceOf s evs := by
    intro evs
    induction evs with
    | nil => intro s; rfl
    | cons e es ih => intro s; simp [trace, Nng.Sub.traceOf, ih]
  rw [this]
  exact Nng.Sub.sub_judge_ok evs hn

/-- JUDGE (PUB): for EVERY event sequence (no hypothesis) the trace of the PUB model is accepted
    by `pubJudge` -/
theorem pub_model_satisfies_judge (evs : List Ev) :
    Nng.PubSubSpec.pubJudge (trace Nng.Pub.step {} evs) = none := by
  have : ∀ (evs : List Ev) (s : Nng.Pub.State), trace Nng.Pub.step s evs = Nng.Pub.traceOf s evs := by
    intro evs
    induction evs with
    | nil => intro s; rfl
    | cons e es ih => intro s; simp [trace, Nng.Pub.traceOf, ih]
  rw [this]
  exact Nng.Pub.pub_judge_ok evs

/-- JUDGE (raw SUB): for every event sequence without `abort aio 0` the trace of the XSUB model
    is accepted by `xsubJudge` (every arrival taken; waiter served in the same step; a message
    is lost only when the queue is full, and then the whole arriving one; receives return the
    oldest queued message unaltered; a non-blocking receive fails only if nothing is queued;
    readable iff something is queued) -/
theorem xsub_model_satisfies_judge (evs : List Ev) (hn : Nng.Xsub.NoAbort0 evs) :
    Nng.PubSubSpec.xsubJudge (trace Nng.Xsub.step {} evs) = none := by
  have : ∀ (evs : List Ev) (s : Nng.Xsub.State), trace Nng.Xsub.step s evs = Nng.Xsub.traceOf s evs := by
    intro evs
    induction evs with
    | nil => intro s; rfl
    | cons e es ih => intro s; simp [trace, Nng.Xsub.traceOf, ih]
  rw [this]
  exact Nng.Xsub.xsub_judge_ok evs hn

example : Nng.Xsub.NoAbort0 (xsubDemo ++ [.recv none 1 .inf, .abort 1 7, .close]) := by
  intro e he a h
  subst h
  simp [xsubDemo] at he

-- non-vacuity: the demo histories above satisfy the hypothesis (and reach states with waiters,
-- full queues, several contexts), so the theorem speaks about them
example : Nng.Sub.NoAbort0 subDemo := by
  intro e he a h
  subst h
  simp [subDemo] at he
example : Nng.Sub.NoAbort0 (subDemo ++ [.cancel 3, .abort 3 5, .ctxClose 0, .close]) := by
  intro e he a h
  subst h
  simp [subDemo] at he

end Nng.C05
