/-
  C05 — PUB/SUB.  Property theorems about the executable models Model/Sub.lean and
  Model/Pub.lean (tied to sub.c / pub.c by the SIM correspondence of vlib/props/c05.py).
  Helper lemmas live in Proofs/{SubMatch,SubCtx,SubInv,SubCid,PubInv}.lean.

  Reading guide: `Sub.reach evs` / `Pub.reach evs` is the model state after ANY list of
  harness events; `LiveCtx s c` says `c` is the socket-level context of an opened socket or
  one of its open contexts.
-/
import NngModel.Proofs.SubInv
import NngModel.Proofs.SubCid
import NngModel.Proofs.PubInv
namespace Nng.C05
open Nng Nng.Proto

/-- the protocol numbers used by the models are those of the C source -/
theorem proto_ids : Nng.Sub.peerPub = Nng.Proto.protoId 2 0 ∧ Nng.Pub.peerSub = Nng.Proto.protoId 2 1 := by decide

/-! ## SUB -/
section SUB
open Nng.Sub

/-- a context that takes part in deliveries -/
def LiveCtx (s : State) (c : Ctx) : Prop := (s.opened = true ∧ c = s.master) ∨ c ∈ s.ctxs

theorem live_inv {evs : List Ev} {c : Ctx} (h : LiveCtx (reach evs) c) : CtxInv (reach evs).arrived c := by
  rcases h with ⟨ho, rfl⟩ | hm
  · exact (reach_inv evs).master ho
  · exact ((reach_inv evs).ctxs c hm).1

/-- T1: the C matcher (compare lengths, then memcmp) accepts a body iff one of the topics is
    a prefix of it; in particular the empty topic matches everything and no topic nothing -/
theorem T1_matches_iff_prefix (topics : List Bytes) (body : Bytes) :
    subMatches topics body = true ↔ ∃ t ∈ topics, t <+: body := subMatches_iff topics body

theorem T1_empty_topic_matches_all (topics : List Bytes) (body : Bytes) (h : [] ∈ topics) :
    subMatches topics body = true := (subMatches_iff topics body).2 ⟨[], h, List.nil_prefix⟩

theorem T1_no_topic_matches_nothing (body : Bytes) : subMatches [] body = false := rfl

/-- the judge's matcher (`List.isPrefixOf`) and the model's matcher agree -/
theorem T1_judge_matcher (topics : List Bytes) (body : Bytes) :
    subMatches topics body = Nng.PubSubSpec.prefixMatch topics body := subMatches_eq_prefixMatch topics body

/-- the context took the message: it went to a waiting receiver or to the end of the queue -/
def Took (gm : GMsg) (c c' : Ctx) : Prop :=
  (c'.got = c.got ++ [gm] ∧ c'.q = c.q) ∨ (c'.got = c.got ∧ c'.q = c.q ++ [gm])

theorem not_took_self (gm : GMsg) (c : Ctx) : ¬ Took gm c c := by
  rintro (⟨h, _⟩ | ⟨_, h⟩) <;> (have := congrArg List.length h; simp at this)

/-- T2: in every reachable state, a context with a waiting receiver or with room in its
    buffer takes an arriving message iff the message matches its CURRENT topics -/
theorem T2_delivery_iff_match (evs : List Ev) (c : Ctx) (hl : LiveCtx (reach evs) c) (gm : GMsg)
    (hroom : c.rq ≠ [] ∨ c.q.length < c.cap) :
    Took gm c (arriveCtx gm c).1 ↔ subMatches c.topics gm.body = true := by
  have hi := live_inv hl
  cases hrq : c.rq with
  | cons a rest =>
    have hq : c.q = [] := hi.wait (by simp [hrq])
    rw [arriveCtx_waiter gm c a rest hq hi.cap hrq]
    by_cases hm : subMatches c.topics gm.body = true
    · simp only [hm, if_true, iff_true]; exact Or.inl ⟨rfl, rfl⟩
    · simp only [hm, Bool.false_eq_true, if_false, iff_false]; exact not_took_self gm c
  | nil =>
    have hroom' : c.q.length < c.cap := by
      rcases hroom with h | h
      · exact absurd hrq h
      · exact h
    rw [arriveCtx_room gm c hroom' hrq]
    by_cases hm : subMatches c.topics gm.body = true
    · simp only [hm, if_true, iff_true]; exact Or.inr ⟨rfl, rfl⟩
    · simp only [hm, Bool.false_eq_true, if_false, iff_false]; exact not_took_self gm c

/-- T2 (bytes): every completion caused by an arrival carries exactly the arriving bytes -/
theorem T2_delivered_bytes (gm : GMsg) (c : Ctx) :
    ∀ o ∈ (arriveCtx gm c).2.1, ∃ a, o = Out.done a 0 (some ⟨[], gm.body⟩) false := arriveCtx_out gm c

/-- T3 (bound): no context ever buffers more than its configured depth, and the depth is ≥ 1 -/
theorem T3_queue_bounded (evs : List Ev) (c : Ctx) (hl : LiveCtx (reach evs) c) :
    c.q.length ≤ c.cap ∧ 1 ≤ c.cap := ⟨(live_inv hl).len, (live_inv hl).cap⟩

/-- T3 (drop rule): in every reachable state a context whose buffer is full loses exactly
    one message per matching arrival — its oldest queued message if prefer_new, otherwise
    the arriving one — and is untouched by a non-matching arrival -/
theorem T3_full_drops_exactly_one (evs : List Ev) (c : Ctx) (hl : LiveCtx (reach evs) c) (gm : GMsg)
    (hfull : c.q.length = c.cap) :
    ∃ old t, c.q = old :: t ∧
      (arriveCtx gm c).1 =
        if subMatches c.topics gm.body && c.preferNew then
          { c with q := t ++ [gm], dropped := c.dropped ++ [old] }
        else c := by
  have hi := live_inv hl
  cases hq : c.q with
  | nil => have := hi.cap; rw [hq] at hfull; simp at hfull; omega
  | cons old t =>
    have hrq : c.rq = [] := by
      cases hr : c.rq with
      | nil => rfl
      | cons x xs => have := hi.wait (by simp [hr]); rw [hq] at this; cases this
    refine ⟨old, t, rfl, ?_⟩
    rw [arriveCtx_full gm c old t hq hfull hrq]
    split <;> rfl

/-- T4 (independence, arrivals): what an arrival does to a context is a function of that
    context's own state and of the message — of nothing else -/
theorem T4_arrival_per_context (s : State) (p : Nat) (b : Bytes) :
    (arrive s p b).1.master = (arriveCtx ⟨s.narrive, p, b⟩ s.master).1 ∧
    (arrive s p b).1.ctxs = s.ctxs.map (fun c => (arriveCtx ⟨s.narrive, p, b⟩ c).1) :=
  ⟨rfl, arriveList_eq_map _ _⟩

/-- T4 (independence, operations): replacing one context (what subscribe, unsubscribe,
    receive and the option setters do) leaves every context with another identity as it was -/
theorem T4_setCtx_others (s : State) (c : Ctx) :
    (∀ y ∈ s.ctxs, y.cid ≠ c.cid → y ∈ (setCtx s c).ctxs) ∧
    (c.cid ≠ 0 → (setCtx s c).master = s.master) ∧ (c.cid = 0 → (setCtx s c).ctxs = s.ctxs) := by
  refine ⟨?_, ?_, ?_⟩
  · intro y hy hne
    by_cases h0 : c.cid = 0
    · rw [setCtx_master h0]; exact hy
    · rw [setCtx_other h0]
      simp only [List.mem_map]
      exact ⟨y, hy, by simp [hne]⟩
  · intro h0; rw [setCtx_other h0]
  · intro h0; rw [setCtx_master h0]

/-- T4 (identities): in every reachable state the open contexts have pairwise distinct
    identities, none of them the socket-level context's (0) — so "every context with another
    identity" above means every other context -/
theorem T4_identities_distinct (evs : List Ev) :
    ((reach evs).ctxs.map (·.cid)).Nodup ∧ (∀ c ∈ (reach evs).ctxs, c.cid ≠ 0) ∧ (reach evs).master.cid = 0 :=
  ⟨(reach_cid evs).nodup, fun c hc => ((reach_inv evs).ctxs c hc).2, (reach_inv evs).mcid⟩

/-- T5 (unsubscribe): after a successful unsubscribe the topic is gone and the queue is the
    old queue filtered by the remaining topics, order kept; everything else is unchanged -/
theorem T5_unsubscribe_purges (evs : List Ev) (c : Ctx) (hl : LiveCtx (reach evs) c) (t : Bytes)
    (ht : t ∈ c.topics) :
    ∃ c', unsubscribeCtx c t = some c' ∧ c'.topics = c.topics.erase t ∧ t ∉ c'.topics ∧
      c'.q = c.q.filter (fun m => subMatches c'.topics m.body) ∧ c'.got = c.got ∧ c'.rq = c.rq ∧
      c'.cap = c.cap ∧ c'.preferNew = c.preferNew := by
  have hi := live_inv hl
  obtain ⟨c', h0, h1, h2, _, h4, h5, h6, _, _, h9⟩ := unsubscribeCtx_present c t ht hi.len
  refine ⟨c', h0, h1, ?_, by rw [h1]; exact h2, h6, h5, h4, h9⟩
  rw [h1]; exact fun hmem => (List.Nodup.mem_erase_iff hi.nodup).1 hmem |>.1 rfl

/-- T5 (absent topic): unsubscribing a topic that is not subscribed returns NNG_ENOENT and
    changes nothing -/
theorem T5_unsubscribe_absent (s : State) (c : Option Nat) (cx : Ctx) (t : Bytes)
    (hc : getCtx s c = some cx) (ht : t ∉ cx.topics) :
    opUnsub s c t = (s, [.rv Err.enoent]) := by
  unfold opUnsub; rw [hc]; simp only []; rw [unsubscribeCtx_absent cx t ht]

/-- T5 (subscribe): subscribing returns 0 whether or not the topic is already there; a
    duplicate changes nothing, so subscribing twice is the same as once -/
theorem T5_subscribe_idempotent (c : Ctx) (t : Bytes) :
    subscribeCtx (subscribeCtx c t) t = subscribeCtx c t ∧ (t ∈ c.topics → subscribeCtx c t = c) ∧
    t ∈ (subscribeCtx c t).topics :=
  ⟨subscribeCtx_idem c t, subscribeCtx_present c t, subscribeCtx_mem c t⟩

theorem T5_subscribe_rv (s : State) (c : Option Nat) (cx : Ctx) (t : Bytes) (hc : getCtx s c = some cx) :
    (opSub s c t).2 = [.rv 0] := by
  unfold opSub; rw [hc]

/-- T6: in every reachable state, for every context (live or closed): what it has handed to
    the application followed by what it still queues is a subsequence of the arrivals, and
    arrival ids are strictly increasing — so per context nothing is duplicated, reordered
    or invented -/
theorem T6_subsequence (evs : List Ev) (c : Ctx)
    (hc : LiveCtx (reach evs) c ∨ c ∈ (reach evs).dead) :
    (c.got ++ c.q).Sublist (reach evs).arrived ∧
    (reach evs).arrived.Pairwise (fun a b => a.gid < b.gid) ∧
    (c.got ++ c.q).Pairwise (fun a b => a.gid < b.gid) := by
  have hsub : (c.got ++ c.q).Sublist (reach evs).arrived := by
    rcases hc with hl | hd
    · exact (live_inv hl).hist
    · exact (reach_inv evs).dead c hd
  exact ⟨hsub, (reach_inv evs).gids, (reach_inv evs).gids.sublist hsub⟩

theorem T6_no_duplicates (evs : List Ev) (c : Ctx) (hc : LiveCtx (reach evs) c ∨ c ∈ (reach evs).dead) :
    (c.got.map (·.gid)).Nodup := by
  have h := (T6_subsequence evs c hc).2.2
  have h' : c.got.Pairwise (fun a b => a.gid < b.gid) := (List.pairwise_append.1 h).1
  rw [List.Nodup, List.pairwise_map]
  exact h'.imp (fun hlt => Nat.ne_of_lt hlt)

/-- T6 (bytes): a receive returns the oldest queued message, its bytes unchanged, and moves
    it from the queue to the delivered history -/
theorem T6_receive_oldest (c : Ctx) (a : Nat) (mode : Mode) (now : Nat) (m : GMsg) (rest : List GMsg)
    (hq : c.q = m :: rest) :
    recvCtx c a mode now = ({ c with q := rest, got := c.got ++ [m] }, [Out.done a 0 (some ⟨[], m.body⟩) false]) :=
  recvCtx_nonempty c a mode now m rest hq

/-- T8 (feeds C15): in every reachable state of an opened socket the receive descriptor is
    readable iff the socket-level context has a message queued … -/
theorem T8_readable_iff_queued (evs : List Ev) (ho : (reach evs).opened = true) :
    (reach evs).readable = !(reach evs).master.q.isEmpty := (reach_inv evs).rd ho

/-- … iff a non-blocking receive on the socket returns a message at once -/
theorem T8_readable_iff_nb_recv_succeeds (evs : List Ev) (a : Nat) (ho : (reach evs).opened = true)
    (hfree : anyParked (reach evs) a = false) :
    ((reach evs).readable = true ↔ ∃ m, (opRecv (reach evs) none a .nb).2 = [Out.done a 0 (some m) false]) ∧
    ((reach evs).readable = false ↔ (opRecv (reach evs) none a .nb).2 = [Out.done a Err.eagain none false]) := by
  have hrd := T8_readable_iff_queued evs ho
  unfold opRecv
  simp only [hfree, Bool.false_eq_true, if_false, getCtx]
  cases hq : (reach evs).master.q with
  | nil =>
    rw [hrd, hq, recvCtx_empty_nb _ _ _ hq]
    simp
  | cons m rest =>
    rw [hrd, hq, recvCtx_nonempty _ _ _ _ m rest hq]
    simp

end SUB

/-! ## PUB -/
section PUB
open Nng.Pub

/-- T7 (never blocks): on an open PUB socket a send completes with 0 in its own step, the
    message gone from the aio, in EVERY state and for every mode (non-blocking, timed, …) -/
theorem T7_send_completes (s : State) (a : Nat) (m : WMsg) (mode : Mode)
    (ho : s.opened = true) (hc : s.closed = false) :
    Out.done a 0 none false ∈ (step s (.send none a m mode)).2 := by
  unfold step; simp [ho, hc, stepOpen, opSend]

/-- T7 (never parks): an aio completion appears only in the step of the send / receive call
    that submitted it — no state of the model holds a pending send -/
theorem T7_never_parked (s : State) (ev : Ev) (a rv : Nat) (msg : Option WMsg) (mb : Bool)
    (h : Out.done a rv msg mb ∈ (step s ev).2) :
    (∃ c m mode, ev = .send c a m mode) ∨ (∃ c mode, ev = .recv c a mode) := by
  unfold step at h
  split at h
  · split at h <;> simp at h
  · split at h
    · split at h <;> simp at h
    · cases ev with
      | send c a' m mode =>
        left
        simp only [stepOpen, opSend] at h
        split at h
        · simp at h; exact ⟨_, m, mode, by rw [h.1]⟩
        · simp only [List.mem_append, List.mem_singleton] at h
          rcases h with h | h
          · exact absurd rfl (sendList_no_done _ _ _ h a rv msg mb)
          · cases h; exact ⟨_, m, mode, rfl⟩
      | recv c a' mode =>
        right
        simp only [stepOpen] at h
        split at h <;> (simp at h; exact ⟨_, mode, by rw [h.1]⟩)
      | pipeAdd peer => simp only [stepOpen, opPipeAdd] at h; split at h <;> simp at h
      | pipeDrop p =>
        simp only [stepOpen, opPipeDrop] at h
        split at h
        · split at h
          · simp at h
          · simp only [List.mem_append, List.mem_singleton] at h
            rcases h with h | h
            · cases h
            · exact absurd rfl (closePipe_no_done _ _ _ h a rv msg mb)
        · simp at h
      | sendDone p r =>
        simp only [stepOpen, opSendDone] at h
        split at h
        · split at h
          · split at h
            · simp at h
            · split at h
              · simp only [List.mem_append, List.mem_singleton] at h
                rcases h with h | h
                · cases h
                · exact absurd rfl (closePipe_no_done _ _ _ h a rv msg mb)
              · simp only [List.mem_append, List.mem_singleton] at h
                rcases h with h | h
                · cases h
                · unfold sendDonePipe at h; split at h <;> simp at h
          · simp at h
        · simp at h
      | recvDone p r =>
        simp only [stepOpen, opRecvDone] at h
        split at h
        · split at h
          · simp at h
          · simp only [List.mem_append, List.mem_singleton] at h
            rcases h with h | h
            · cases h
            · exact absurd rfl (closePipe_no_done _ _ _ h a rv msg mb)
        · simp at h
      | setopt c name ty v =>
        simp only [stepOpen, opSetopt] at h
        split at h
        · split at h <;> simp at h
        · simp at h
      | getopt c name ty => simp only [stepOpen] at h; split at h <;> simp at h
      | close => simp only [stepOpen] at h; exact absurd rfl (closeList_no_done _ _ h a rv msg mb)
      | openSock _ _ => simp [stepOpen] at h
      | cancel _ => simp [stepOpen] at h
      | abort _ _ => simp [stepOpen] at h
      | advance _ => simp [stepOpen] at h
      | ctxOpen _ => simp [stepOpen] at h
      | ctxClose _ => simp [stepOpen] at h
      | poll => simp [stepOpen] at h
      | sub _ _ => simp [stepOpen] at h
      | unsub _ _ => simp [stepOpen] at h

/-- T7 (wire): in every reachable state, for every pipe: what was handed to the transport
    followed by what is queued is a subsequence of what was published while the pipe was
    connected, which is a subsequence of everything published; ids strictly increase, so each
    message goes at most once to each pipe and never out of order; the queue never exceeds
    the send buffer depth -/
theorem T7_wire_subsequence (evs : List Ev) (p : Pipe) (hp : p ∈ (reach evs).pipes) :
    (p.wire ++ p.q).Sublist p.offered ∧ p.offered.Sublist (reach evs).published ∧
    (p.wire.map (·.gid)).Nodup ∧ p.wire.Pairwise (fun a b => a.gid < b.gid) ∧ p.q.length ≤ p.cap := by
  have hi := (reach_inv evs).pipes p hp
  have hpw : (p.wire ++ p.q).Pairwise (fun a b => a.gid < b.gid) :=
    (reach_inv evs).gids.sublist (hi.hist.trans hi.off)
  have hw : p.wire.Pairwise (fun a b => a.gid < b.gid) := (List.pairwise_append.1 hpw).1
  refine ⟨hi.hist, hi.off, ?_, hw, hi.len⟩
  rw [List.Nodup, List.pairwise_map]
  exact hw.imp (fun hlt => Nat.ne_of_lt hlt)

/-- T7 (drop rule, as the code does): a connected pipe that is busy and whose queue is full
    discards its OLDEST queued message and queues the new one; with room it just queues;
    an idle pipe sends at once -/
theorem T7_pipe_rule (evs : List Ev) (p : Pipe) (hp : p ∈ (reach evs).pipes) (hl : p.listed = true) (gm : GMsg) :
    (p.busy = none → sendPipe gm p =
        ({ p with offered := p.offered ++ [gm], busy := some gm, wire := p.wire ++ [gm] }, [Out.psend p.id gm.m])) ∧
    (p.busy ≠ none → p.q.length < p.cap → sendPipe gm p =
        ({ p with offered := p.offered ++ [gm], q := p.q ++ [gm] }, [])) ∧
    (p.busy ≠ none → p.q.length = p.cap → ∃ old t, p.q = old :: t ∧ sendPipe gm p =
        ({ p with offered := p.offered ++ [gm], q := t ++ [gm], dropped := p.dropped ++ [old] }, [])) := by
  have hi := (reach_inv evs).pipes p hp
  refine ⟨fun hb => sendPipe_idle gm p hl hb, ?_, ?_⟩
  · intro hb hroom
    have ⟨x, hbb⟩ : ∃ x, p.busy = some x := by
      cases h : p.busy with
      | none => exact absurd h hb
      | some x => exact ⟨x, rfl⟩
    exact sendPipe_room gm p x hl hbb hroom
  · intro hb hfull
    have ⟨x, hbb⟩ : ∃ x, p.busy = some x := by
      cases h : p.busy with
      | none => exact absurd h hb
      | some x => exact ⟨x, rfl⟩
    have ⟨old, t, hq⟩ : ∃ old t, p.q = old :: t := by
      cases h : p.q with
      | nil => have := hi.cap; rw [h] at hfull; simp at hfull; omega
      | cons old t => exact ⟨old, t, rfl⟩
    exact ⟨old, t, hq, sendPipe_full gm p x old t hl hbb hq hfull⟩

/-- T8 (PUB): the send descriptor of an open PUB socket always polls writable -/
theorem T8_pub_always_writable (s : State) (ho : s.opened = true) (hc : s.closed = false) :
    (step s .poll).2 = [.poll none (some true)] := by
  unfold step; simp [ho, hc, stepOpen]

end PUB

/-! ## non-vacuity: the hypotheses of the theorems are met by concrete reachable states -/
section Examples

/-- socket with depth 1 subscribed to "a", one context subscribed to everything with a receiver
    waiting; two arrivals -/
def subDemo : List Ev :=
  [.openSock "sub" false, .setopt none "recv-buffer" "int" 1, .pipeAdd 32, .sub none [0x61],
   .ctxOpen 0, .sub (some 0) [], .recv (some 0) 3 .inf,
   .recvDone 0 (.ok [0x61, 1]), .recvDone 0 (.ok [0x62, 2])]

-- the socket-level context is full (hypothesis of T3) and readable (T8) …
example : (Nng.Sub.reach subDemo).master.q.map (·.body) = [[0x61, 1]] ∧
    (Nng.Sub.reach subDemo).master.q.length = (Nng.Sub.reach subDemo).master.cap ∧
    (Nng.Sub.reach subDemo).readable = true ∧ (Nng.Sub.reach subDemo).opened = true := by decide
-- … the context got the first message through its waiting receiver and queued the second (T2, T4, T6)
example : (Nng.Sub.reach subDemo).ctxs.map (fun c => (c.got.map (·.body), c.q.map (·.body))) =
    [([[0x61, 1]], [[0x62, 2]])] := by decide
-- a third matching arrival on the full socket context replaces the oldest message (prefer_new is the default)
example : (Nng.Sub.reach (subDemo ++ [.recvDone 0 (.ok [0x61, 3])])).master.q.map (·.body) = [[0x61, 3]] := by decide
-- … and is refused with prefer_new off
example : (Nng.Sub.reach (subDemo ++ [.setopt none "sub:prefnew" "bool" 0, .recvDone 0 (.ok [0x61, 3])])).master.q.map (·.body)
    = [[0x61, 1]] := by decide
-- unsubscribe purges the queue and clears `readable` (T5, T8)
example : (Nng.Sub.reach (subDemo ++ [.unsub none [0x61]])).master.q = [] ∧
    (Nng.Sub.reach (subDemo ++ [.unsub none [0x61]])).readable = false := by decide
example : (Nng.Sub.step (Nng.Sub.reach subDemo) (.unsub none [0x62])).2 = [.rv 12] := by decide

/-- PUB with send buffer 1 and one subscriber: three publishes while the first is in flight -/
def pubDemo : List Ev :=
  [.openSock "pub" false, .setopt none "send-buffer" "int" 1, .pipeAdd 33,
   .send none 0 ⟨[], [1]⟩ .nb, .send none 1 ⟨[], [2]⟩ .inf, .send none 2 ⟨[], [3]⟩ (.ms 0)]

-- the pipe is busy with message 1, message 2 was dropped from the full queue, message 3 is queued
example : (Nng.Pub.reach pubDemo).pipes.map (fun p => (p.busy.map (·.m.body), p.q.map (·.m.body), p.dropped.map (·.m.body),
    p.listed, p.q.length == p.cap)) = [(some [1], [[3]], [[2]], true, true)] := by decide
example : (Nng.Pub.step (Nng.Pub.reach pubDemo) (.sendDone 0 0)).2 = [.rv 0, .psend 0 ⟨[], [3]⟩] := by decide

end Examples

/-! ## what is NOT proved

  `∀ evs, subJudge (trace of Sub.step on evs) = none` (and the same for PUB): that the
  model's own traces satisfy the executable trace predicates of Spec/PubSub.lean.  The
  judges are run on the model's traces by the check (model = implementation on every
  generated history and the implementation's trace is judged), but the general statement
  needs a simulation relation between judge state and model state and is left open. -/

def trace {σ : Type} (step : σ → Ev → σ × List Out) : σ → List Ev → List (Ev × List Out)
  | _, [] => []
  | s, e :: es => (e, (step s e).2) :: trace step (step s e).1 es

def sub_model_satisfies_judge_statement : Prop :=
  ∀ evs, Nng.PubSubSpec.subJudge (trace Nng.Sub.step {} evs) = none

def pub_model_satisfies_judge_statement : Prop :=
  ∀ evs, Nng.PubSubSpec.pubJudge (trace Nng.Pub.step {} evs) = none

end Nng.C05
