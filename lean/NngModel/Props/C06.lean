/- C06 — PUSH/PULL.  Property theorems (placeholder until the proofs land). -/
import NngModel.Model.Push
import NngModel.Model.Pull
import NngModel.Spec.Pipeline
namespace Nng.C06

/-- the protocol numbers used by the models are those of the C source -/
theorem proto_ids : Nng.Push.peerPull = Nng.Proto.protoId 5 1 ∧ Nng.Pull.peerPush = Nng.Proto.protoId 5 0 := by decide

end Nng.C06
