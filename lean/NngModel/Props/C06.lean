/-
  C06 — PUSH/PULL.  Property theorems about the models Model/Push.lean and Model/Pull.lean,
  for ALL event sequences (`reach evs` = state after applying `evs` to the initial state).
  Lemmas live in Proofs/Push.lean and Proofs/Pull.lean.
-/
import NngModel.Model.Push
import NngModel.Model.Pull
import NngModel.Spec.Pipeline
import NngModel.Proofs.Push
import NngModel.Proofs.Pull
import NngModel.Proofs.PullJudge
import NngModel.Proofs.PushJudge
namespace Nng.C06
open Nng Nng.Proto

/-- the protocol numbers used by the models are those of the C source -/
theorem proto_ids : Nng.Push.peerPull = Nng.Proto.protoId 5 1 ∧ Nng.Pull.peerPush = Nng.Proto.protoId 5 0 := by decide

/-! ## PUSH -/
section Push
open Nng.Push

/-- ghost ids are unique: the i-th offered message carries gid i -/
theorem push_gids_unique (evs : List Ev) :
    (reach evs).offered.map (·.gid) = List.range (reach evs).nsend ∧
    ((reach evs).offered.map (·.gid)).Nodup := by
  have h := (reach_inv evs).offGid
  exact ⟨h, h ▸ List.nodup_range⟩

/-- P1 conservation: every accepted message is on the wire, still buffered, or was discarded
    whole by a send-buffer shrink / close — nothing else, and nothing twice. -/
theorem push_conservation (evs : List Ev) :
    (reach evs).accepted.Perm
      ((reach evs).wire.map (·.2) ++ (reach evs).wq ++ (reach evs).dropped) := by
  rw [List.perm_iff_count]; intro x
  have := (reach_inv evs).cons x
  simp only [List.count_append]; omega

/-- P4 (first half): every offered message is in exactly one of: accepted, returned to the
    caller with a failed send, or still parked in the waiting-senders queue. -/
theorem push_offered_partition (evs : List Ev) :
    (reach evs).offered.Perm
      ((reach evs).accepted ++ (reach evs).returned ++ (reach evs).aq.map (·.msg)) := by
  rw [List.perm_iff_count]; intro x
  have := (reach_inv evs).off x
  simp only [List.count_append]; omega

/-- P4 in terms of ids: each id below `nsend` occurs exactly once among accepted, returned, parked -/
theorem push_offered_exactly_once (evs : List Ev) :
    (((reach evs).accepted ++ (reach evs).returned ++ (reach evs).aq.map (·.msg)).map (·.gid)).Perm
      (List.range (reach evs).nsend) := by
  rw [← (reach_inv evs).offGid]
  exact ((push_offered_partition evs).map _).symm

/-- accepted messages are pairwise distinct (as ghost-identified messages) -/
theorem push_accepted_nodup (evs : List Ev) : ((reach evs).accepted.map (·.gid)).Nodup := by
  have h := (push_offered_exactly_once evs).nodup_iff.2 List.nodup_range
  simp only [List.map_append, List.nodup_append] at h
  exact h.1.1

/-- P3 order: what is on the wire followed by what is buffered is a subsequence of the
    acceptance order -/
theorem push_order (evs : List Ev) :
    ((reach evs).wire.map (·.2.gid) ++ (reach evs).wq.map (·.gid)).Sublist
      ((reach evs).accepted.map (·.gid)) := by
  have := ((reach_inv evs).order).map (·.gid)
  simp only [List.map_append, List.map_map] at this
  exact this

/-- P3 per connection: the messages carried by pipe `p` are in acceptance order -/
theorem push_order_per_pipe (evs : List Ev) (p : Nat) :
    (((reach evs).wire.filter (·.1 == p)).map (·.2.gid)).Sublist ((reach evs).accepted.map (·.gid)) := by
  have h1 : (((reach evs).wire.filter (·.1 == p)).map (·.2.gid)).Sublist ((reach evs).wire.map (·.2.gid)) :=
    List.filter_sublist.map _
  exact (h1.trans (List.sublist_append_left _ _)).trans (push_order evs)

/-- P2 at most one puller, no duplication: no message is handed to the transport twice
    (neither on the same pipe nor on two pipes) -/
theorem push_no_duplication (evs : List Ev) : ((reach evs).wire.map (·.2.gid)).Nodup :=
  ((List.sublist_append_left _ _).trans (push_order evs)).nodup (push_accepted_nodup evs)

/-- P4 (second half): a completion emitted for a send leaves the message with the caller
    iff it reports an error.  (`recv` on a PUSH socket completes with ENOTSUP and carries no
    message; `abort a 0` is API misuse: the C code then completes the send with result 0 and
    the message still attached — the model mirrors that.) -/
theorem push_completion_msgback (evs : List Ev) (ev : Ev) (hr : isRecv ev = false) (ha : isAbort0 ev = false)
    (a rv : Nat) (msg : Option WMsg) (mb : Bool)
    (h : Out.done a rv msg mb ∈ (step (reach evs) ev).2) : (mb = true ↔ rv ≠ 0) :=
  step_out hr ha _ h

/-- back-pressure: with no peer ready and the send buffer full, a send does not touch the
    accepted / buffered / wire / dropped histories; it fails at once with NNG_EAGAIN
    (non-blocking) or NNG_ETIMEDOUT (zero timeout) leaving the message with the caller, or
    parks the sender. -/
theorem push_backpressure (s : State) (c : Option Nat) (a : Nat) (m : WMsg) (mode : Mode)
    (hopen : s.opened = true) (hcl : s.closed = false) (hfree : ∀ pk ∈ s.aq, pk.aio ≠ a)
    (hpl : s.pl = []) (hfull : s.wqCap ≤ s.wq.length) :
    let r := step s (.send c a m mode)
    r.1.accepted = s.accepted ∧ r.1.wire = s.wire ∧ r.1.wq = s.wq ∧ r.1.dropped = s.dropped ∧
    (match failNow mode with
     | some rv => r.2 = [.done a rv none true] ∧ r.1.aq = s.aq ∧ r.1.returned = s.returned ++ [⟨s.nsend, m⟩]
     | none => r.2 = [] ∧ r.1.aq = s.aq ++ [⟨a, ⟨s.nsend, m⟩, deadlineOf s.now mode⟩] ∧ r.1.returned = s.returned) := by
  have hb : (s.aq.any (·.aio == a)) = false := by
    rw [List.any_eq_false]; intro x hx; simpa using hfree x hx
  have hnl : ¬ s.wq.length < s.wqCap := by omega
  simp only [step, hopen, hcl, stepLive, evSend, hb, hpl, hnl]
  cases hf : failNow mode <;> simp

/-- the only immediate failures are NNG_EAGAIN (non-blocking) and NNG_ETIMEDOUT (zero timeout) -/
theorem push_failNow (mode : Mode) :
    failNow mode = (match mode with | .nb => some Err.eagain | .ms 0 => some Err.etimedout | _ => none) := by
  unfold failNow; rfl

/-- P5 no stall: while a pipe is ready nothing is buffered and nobody waits -/
theorem push_no_stall (evs : List Ev) :
    (reach evs).pl ≠ [] → (reach evs).wq = [] ∧ (reach evs).aq = [] := (reach_inv evs).plEmpty

/-- P5 bounded buffer -/
theorem push_buffer_bounded (evs : List Ev) : (reach evs).wq.length ≤ (reach evs).wqCap :=
  (reach_inv evs).bound

/-- P5 senders wait only when the buffer is full — unless a send-buffer resize made room
    while senders were parked (ghost flag `slack`; see `push_park_slack_reachable`) -/
theorem push_park_only_when_full (evs : List Ev) :
    (reach evs).closed = false → (reach evs).slack = false →
    (reach evs).aq ≠ [] → (reach evs).wqCap ≤ (reach evs).wq.length := (reach_inv evs).park

/-- the full-strength statement (without the `slack` proviso) -/
def push_park_only_when_full_statement : Prop :=
  ∀ evs : List Ev, (reach evs).closed = false → (reach evs).aq ≠ [] → (reach evs).wqCap ≤ (reach evs).wq.length

def slackTrace : List Ev :=
  [.openSock "push" false, .send none 0 ⟨[], [1]⟩ .inf, .setopt none "send-buffer" "int" 4]

/-- ... is false for the model (and the code): growing the send buffer does not move parked
    senders into it -/
theorem push_park_slack_reachable : ¬ push_park_only_when_full_statement := by
  intro h
  have := h slackTrace (by decide) (by decide)
  revert this; decide

/-- P6 (feeds C15): the pollable `writable` flag is exact in every open state -/
theorem push_writable_iff (evs : List Ev) (hcl : (reach evs).closed = false) :
    (reach evs).writable = true ↔ ((reach evs).wq.length < (reach evs).wqCap ∨ (reach evs).pl ≠ []) :=
  (reach_inv evs).wr hcl

/-- P7 a non-blocking send never parks: unless the harness refused the line, the aio is not
    queued afterwards and its completion is among the step's outputs -/
theorem push_nonblocking_never_parks (evs : List Ev) (c : Option Nat) (a : Nat) (m : WMsg) :
    Refused (step (reach evs) (.send c a m .nb)).2 ∨
      ((∀ pk ∈ (step (reach evs) (.send c a m .nb)).1.aq, pk.aio ≠ a) ∧
        ∃ rv mb, Out.done a rv none mb ∈ (step (reach evs) (.send c a m .nb)).2) :=
  step_send_nb _ c a m

/-- a parked aio is queued at most once -/
theorem push_parked_aios_distinct (evs : List Ev) : ((reach evs).aq.map (·.aio)).Nodup :=
  (reach_inv evs).aqNodup

/-- JUDGE (PUSH): for every event sequence with pairwise distinct message bodies (and without
    the API misuse `abort aio 0`) the trace produced by the model is accepted by the executable
    C06 trace predicate `pushJudge` — the same predicate the check runs on the implementation's
    traces: no completion without a send, message back iff failure, nothing wired twice or to a
    busy pipe, nothing wired that was not accepted, no overtaking except past messages dropped
    by a buffer shrink, no stall while a peer is idle, bounded buffering, non-blocking sends
    complete at once. -/
theorem push_judge (evs : List Ev) (hd : DistinctBodies evs) (hn : Nng.Push.NoAbort0 evs) :
    Nng.PipelineSpec.pushJudge (Nng.Push.traceOf {} evs) = none := push_judge_ok evs hd hn

end Push

/-! ## PULL -/
section Pull
open Nng.Pull

/-- ghost ids: the i-th arrival carries gid i -/
theorem pull_gids_unique (evs : List Ev) :
    (reach evs).arrived.map (·.gid) = List.range (reach evs).narrive := (reach_inv evs).gids

/-- L1 conservation: every message that arrived was delivered, is held by a pipe, or was
    discarded because its pipe closed — nothing else -/
theorem pull_conservation (evs : List Ev) :
    (reach evs).arrived.Perm
      ((reach evs).delivered ++ heldMsgs (reach evs).pipes ++ (reach evs).discarded) := by
  rw [List.perm_iff_count]; intro x
  have := (reach_inv evs).cons x
  simp only [List.count_append]; omega

/-- L1 only open pipes hold messages -/
theorem pull_closed_pipe_holds_nothing (evs : List Ev) (pp : Pipe) (hm : pp ∈ (reach evs).pipes) :
    pp.closed = true → pp.held = none := by
  have h := reach_inv evs
  exact ((h.wf pp.id pp (getP_of_mem (ids_nodup h.ids) hm))).2.1

/-- L1 exactly once: no message is delivered twice -/
theorem pull_exactly_once (evs : List Ev) : ((reach evs).delivered.map (·.gid)).Nodup := by
  have h1 := ((pull_conservation evs).map (·.gid)).nodup_iff.1
    (by rw [pull_gids_unique]; exact List.nodup_range)
  simp only [List.map_append, List.nodup_append] at h1
  exact h1.1.1

/-- L2 per-connection order: what was delivered from pipe `p` is a prefix of what arrived on it -/
theorem pull_order (evs : List Ev) (p : Nat) :
    (reach evs).delivered.filter (·.pipe == p) <+: (reach evs).arrived.filter (·.pipe == p) := by
  rw [(reach_inv evs).perPipe p, List.append_assoc]
  exact List.prefix_append _ _

/-- L2 precisely: arrivals on `p` = delivered, then the one message `p` holds, then the one
    discarded when it closed -/
theorem pull_order_exact (evs : List Ev) (p : Nat) :
    (reach evs).arrived.filter (·.pipe == p) =
      (reach evs).delivered.filter (·.pipe == p) ++ heldOf (reach evs).pipes p ++
        (reach evs).discarded.filter (·.pipe == p) := (reach_inv evs).perPipe p

/-- L3 a pipe has its receive armed iff it is open and holds no message -/
theorem pull_armed_iff (evs : List Ev) (pp : Pipe) (hm : pp ∈ (reach evs).pipes) :
    pp.armed = true ↔ (pp.closed = false ∧ pp.held = none) := by
  have h := reach_inv evs
  exact ((h.wf pp.id pp (getP_of_mem (ids_nodup h.ids) hm))).1

/-- L3 the ready list is exactly the set of open pipes holding a message, each once -/
theorem pull_ready_list (evs : List Ev) :
    (reach evs).pl.Nodup ∧
    ∀ p, p ∈ (reach evs).pl ↔ ∃ pp ∈ (reach evs).pipes, pp.id = p ∧ pp.closed = false ∧ pp.held.isSome = true := by
  have h := reach_inv evs
  refine ⟨h.plNodup, fun p => ?_⟩
  rw [h.plSpec p]
  constructor
  · rintro ⟨pp, h1, h2, h3⟩; exact ⟨pp, (getP_some h1).1, (getP_some h1).2, h2, h3⟩
  · rintro ⟨pp, hm, rfl, h2, h3⟩; exact ⟨pp, getP_of_mem (ids_nodup h.ids) hm, h2, h3⟩

/-- L3 pipe ids are their indices (so "pipe p" is unambiguous) -/
theorem pull_pipe_ids (evs : List Ev) :
    (reach evs).pipes.map (·.id) = List.range (reach evs).pipes.length := (reach_inv evs).ids

/-- L4 a waiting receiver and an undelivered message never coexist -/
theorem pull_no_waiting_with_message (evs : List Ev) : (reach evs).rq ≠ [] → (reach evs).pl = [] :=
  (reach_inv evs).rqpl

/-- L4 (feeds C15): the pollable `readable` flag is exact in every open state -/
theorem pull_readable_iff (evs : List Ev) (hcl : (reach evs).closed = false) :
    (reach evs).readable = true ↔ (reach evs).pl ≠ [] := (reach_inv evs).rd hcl

/-- the model's defensive "invariant broken" output is unreachable -/
theorem pull_model_total (evs : List Ev) (a : Nat) (mode : Mode) :
    Out.other "model-invariant-broken" ∉ (evRecv (reach evs) a mode).2 :=
  evRecv_not_broken (reach_inv evs) a mode

/-- JUDGE (PULL): for every event sequence (without the API misuse `abort aio 0`) the trace
    produced by the model is accepted by the executable C06 trace predicate `pullJudge` —
    the same predicate the check runs on the implementation's traces.  No assumption on
    message bodies is needed. -/
theorem pull_judge (evs : List Ev) (hn : NoAbort0 evs) :
    Nng.PipelineSpec.pullJudge (Nng.Pull.traceOf {} evs) = none := pull_judge_ok evs hn

end Pull

/-! ## non-vacuity: concrete histories reaching the interesting states -/
section Examples
open Nng.Push in
/-- a PUSH socket with two pipes (both busy), a non-empty send buffer and a parked sender -/
def pushDemo : List Ev :=
  [.openSock "push" false, .setopt none "send-buffer" "int" 1, .pipeAdd 81, .pipeAdd 81,
   .send none 0 ⟨[], [1]⟩ .inf, .send none 1 ⟨[], [2]⟩ .inf, .send none 2 ⟨[], [3]⟩ .inf,
   .send none 3 ⟨[], [4]⟩ .inf]

example : (Nng.Push.reach pushDemo).wq.length = 1 ∧ (Nng.Push.reach pushDemo).aq.length = 1 ∧
    (Nng.Push.reach pushDemo).pipes.length = 2 ∧ (Nng.Push.reach pushDemo).wire.length = 2 ∧
    (Nng.Push.reach pushDemo).writable = false := by decide

/-- draining: a completed transport send takes the buffered message and takes in the parked sender -/
example : ((Nng.Push.step (Nng.Push.reach pushDemo) (.sendDone 0 0)).2 =
    [.rv 0, .psend 0 ⟨[], [3]⟩, .done 3 0 none false]) := by decide

/-- back-pressure observed: a non-blocking send in that state fails with NNG_EAGAIN, message back -/
example : (Nng.Push.step (Nng.Push.reach pushDemo) (.send none 4 ⟨[], [5]⟩ .nb)).2 =
    [.done 4 Err.eagain none true] := by decide

/-- a PULL socket with two pipes, one holding a message, one armed; then a receiver takes it -/
def pullDemo : List Ev :=
  [.openSock "pull" false, .pipeAdd 80, .pipeAdd 80, .recvDone 1 (.ok [7]), .recvDone 0 (.ok [8])]

example : (Nng.Pull.reach pullDemo).pl = [1, 0] ∧ (Nng.Pull.reach pullDemo).readable = true ∧
    (Nng.Pull.step (Nng.Pull.reach pullDemo) (.recv none 0 .nb)).2 = [.done 0 0 (some ⟨[], [7]⟩) false, .parm 1] := by
  decide

example : Nng.Pull.NoAbort0 pullDemo := by unfold Nng.Pull.NoAbort0; decide

example : Nng.Push.DistinctBodies pushDemo ∧ Nng.Push.NoAbort0 pushDemo := by
  unfold Nng.Push.DistinctBodies Nng.Push.NoAbort0; decide

/-- the judges are not trivially `none`: they reject a trace that wires a message twice -/
example : Nng.PipelineSpec.pushJudge
    [(.openSock "push" false, [.rv 0]), (.pipeAdd 81, [.pipe 0, .parm 0]),
     (.send none 0 ⟨[], [1]⟩ .inf, [.done 0 0 none false, .psend 0 ⟨[], [1]⟩]),
     (.sendDone 0 0, [.rv 0, .psend 0 ⟨[], [1]⟩])] ≠ none := by decide

/-- FIFO admission of parked senders is checked: with sends 0 and 1 parked in this order, the judge
    rejects the trace in which a new peer is handed the message of send 1 (as push.c does with
    `nni_list_prepend` in `push0_sock_send`), and accepts the one that serves send 0 -/
example : Nng.PipelineSpec.pushJudge
    [(.openSock "push" false, [.rv 0]), (.send none 0 ⟨[], [1]⟩ .inf, []), (.send none 1 ⟨[], [2]⟩ .inf, []),
     (.pipeAdd 81, [.pipe 0, .parm 0, .psend 0 ⟨[], [2]⟩, .done 1 0 none false])] ≠ none := by decide

example : Nng.PipelineSpec.pushJudge
    [(.openSock "push" false, [.rv 0]), (.send none 0 ⟨[], [1]⟩ .inf, []), (.send none 1 ⟨[], [2]⟩ .inf, []),
     (.pipeAdd 81, [.pipe 0, .parm 0, .psend 0 ⟨[], [1]⟩, .done 0 0 none false])] = none := by decide

/-- ... a parked sender that is cancelled leaves the order, and a send that completes in its own step is
    not a parked sender -/
example : Nng.PipelineSpec.pushJudge
    [(.openSock "push" false, [.rv 0]), (.send none 0 ⟨[], [1]⟩ .inf, []), (.send none 1 ⟨[], [2]⟩ .inf, []),
     (.cancel 0, [.done 0 20 none true]),
     (.pipeAdd 81, [.pipe 0, .parm 0, .psend 0 ⟨[], [2]⟩, .done 1 0 none false])] = none := by decide

/-- receive liveness is checked: two pipes each hold a message; the application takes the one of pipe 0;
    the judge rejects the trace in which pipe 0 is not re-armed, and accepts the one in which it is -/
example : Nng.PipelineSpec.pullJudge
    [(.openSock "pull" false, [.rv 0]), (.pipeAdd 80, [.pipe 0, .parm 0]), (.pipeAdd 80, [.pipe 1, .parm 1]),
     (.recvDone 0 (.ok [1]), [.rv 0]), (.recvDone 1 (.ok [2]), [.rv 0]),
     (.recv none 0 .nb, [.done 0 0 (some ⟨[], [1]⟩) false])] ≠ none := by decide

example : Nng.PipelineSpec.pullJudge
    [(.openSock "pull" false, [.rv 0]), (.pipeAdd 80, [.pipe 0, .parm 0]), (.pipeAdd 80, [.pipe 1, .parm 1]),
     (.recvDone 0 (.ok [1]), [.rv 0]), (.recvDone 1 (.ok [2]), [.rv 0]),
     (.recv none 0 .nb, [.done 0 0 (some ⟨[], [1]⟩) false, .parm 0])] = none := by decide

end Examples

end Nng.C06
