/-
  C17 — an nng_msg behaves as two byte strings under all edit sequences.

  Property theorems only; the lemmas are in Proofs/.  `Nng.Msg` is the executable
  model of message.c / nng.c (tied to the C code by the correspondence check),
  `Nng.MsgSpec` is the specification "a pair of byte strings".
-/
import NngModel.Proofs.MsgStep
import NngModel.Generated.Base
namespace Nng.C17
open Nng Nng.Msg Nng.MsgSpec

/-- observable result of one model step -/
structure Out where
  rv : Nat
  a : Abs
  val : Option Nat
  safe : Bool          -- every memory access of the step stayed inside the message's storage
  capOk : Bool         -- nng_msg_capacity ≥ nng_msg_len afterwards
deriving Repr

def out (r : R Msg × Option Nat) : Out :=
  ⟨r.1.rv, abs r.1.c, r.2, r.1.safe, decide (r.1.c.body.len ≤ r.1.c.body.capacity)⟩

/-- run an operation sequence; each operation carries the answer of the allocator
    (`false`: the allocation this operation may attempt fails). -/
def runModel (m : Msg) : List (Op × Bool) → List Out
  | [] => []
  | (op, ok) :: rest => out (step m op ok) :: runModel (step m op ok).1.c rest

/-- `outs` is what the two-byte-string specification produces for `ops` from `a`,
    where an operation that reported NNG_ENOMEM is a no-op. -/
def Explains (a : Abs) : List (Op × Bool) → List Out → Prop
  | [], [] => True
  | (op, _) :: ops, o :: outs =>
    ((o.rv = Err.enomem ∧ o.a = a) ∨ MsgSpec.step a op = ⟨o.rv, o.a, o.val⟩) ∧ Explains o.a ops outs
  | _, _ => False

/-- T1. A freshly allocated message of any size is the pair ([], sz zero bytes), is well
    formed, and allocation never touches memory out of bounds; a failed allocation
    yields NNG_ENOMEM and no message. -/
theorem fresh_message (sz : Nat) (hsz : sz + 64 ≤ sizeMax) (fail : Option Nat) :
    (alloc sz fail).safe = true ∧
    (((alloc sz fail).rv = Err.enomem ∧ (alloc sz fail).c = none ∧ fail ≠ none) ∨
     (∃ m, (alloc sz fail).c = some m ∧ (alloc sz fail).rv = 0 ∧ MWF m ∧
        abs m = ⟨[], List.replicate sz 0⟩)) := by
  obtain ⟨hs, h⟩ := alloc_spec sz hsz fail
  refine ⟨hs, ?_⟩
  rcases h with h | ⟨m, hm, hrv, hwf, hh, hl, hd⟩
  · exact Or.inl h
  · refine Or.inr ⟨m, hm, hrv, hwf, ?_⟩
    simp [abs, Msg.header, hh, hd, zeros]

/-- T2. One operation: in bounds; either NNG_ENOMEM with the message untouched, or exactly
    the string operation (same return code, same resulting header and body, same
    extracted integer), and the message stays well formed. -/
theorem step_is_string_op (m : Msg) (h : MWF m) (op : Op) (ok : Bool) :
    (step m op ok).1.safe = true ∧
    (((step m op ok).1.rv = Err.enomem ∧ (step m op ok).1.c = m) ∨
     (MWF (step m op ok).1.c ∧
      MsgSpec.step (abs m) op = ⟨(step m op ok).1.rv, abs (step m op ok).1.c, (step m op ok).2⟩)) :=
  step_refines m h op ok

theorem step_preserves_wf (m : Msg) (h : MWF m) (op : Op) (ok : Bool) : MWF (step m op ok).1.c := by
  rcases (step_refines m h op ok).2 with ⟨_, hc⟩ | ⟨hwf, _⟩
  · rw [hc]; exact h
  · exact hwf

/-- T3. Every sequence of operations, under every behaviour of the allocator, is explained
    by the two-byte-string specification; no step reads or writes outside the storage;
    capacity never falls below length. -/
theorem every_run_is_two_strings (m : Msg) (h : MWF m) (ops : List (Op × Bool)) :
    Explains (abs m) ops (runModel m ops) ∧
    ∀ o ∈ runModel m ops, o.safe = true ∧ o.capOk = true := by
  induction ops generalizing m with
  | nil => simp [runModel, Explains]
  | cons x rest ih =>
    obtain ⟨op, ok⟩ := x
    have hr := step_refines m h op ok
    have hwf := step_preserves_wf m h op ok
    have ih' := ih (step m op ok).1.c hwf
    simp only [runModel, Explains, out]
    refine ⟨⟨?_, ih'.1⟩, ?_⟩
    · rcases hr.2 with ⟨hrv, hc⟩ | ⟨_, hs⟩
      · left; exact ⟨hrv, by rw [hc]⟩
      · right; exact hs
    · intro o ho
      rcases List.mem_cons.mp ho with rfl | ho
      · refine ⟨hr.1, ?_⟩
        have hb := hwf.body
        have := hb.fits
        exact decide_eq_true (by unfold Chunk.capacity; omega)
      · exact ih'.2 o ho

/-- the specification never reports anything but success or NNG_EINVAL, and NNG_EINVAL
    means "no change" -/
theorem spec_rv (a : Abs) (op : Op) :
    (MsgSpec.step a op).rv = 0 ∨ ((MsgSpec.step a op).rv = Err.einval ∧ (MsgSpec.step a op).a = a) := by
  cases op <;> simp only [MsgSpec.step] <;> (try split) <;> simp

/-- T4. Removing more than is present, or exceeding the header capacity, fails with
    NNG_EINVAL and changes nothing (header and body strings are the same). -/
theorem einval_changes_nothing (m : Msg) (h : MWF m) (op : Op) (ok : Bool)
    (he : (step m op ok).1.rv = Err.einval) : abs (step m op ok).1.c = abs m := by
  rcases (step_refines m h op ok).2 with ⟨hrv, _⟩ | ⟨_, hs⟩
  · rw [he] at hrv; simp [Err.einval, Err.enomem] at hrv
  · have := spec_rv (abs m) op
    rw [hs] at this
    simp only at this
    rcases this with h0 | ⟨_, ha⟩
    · rw [he] at h0; simp [Err.einval] at h0
    · exact ha

/-- T4'. When exactly the operations fail, in terms of the strings. -/
theorem einval_iff (a : Abs) :
    (∀ n, (MsgSpec.step a (.trim n)).rv = Err.einval ↔ n > a.body.length) ∧
    (∀ n, (MsgSpec.step a (.chop n)).rv = Err.einval ↔ n > a.body.length) ∧
    (∀ n, (MsgSpec.step a (.hTrim n)).rv = Err.einval ↔ n > a.hdr.length) ∧
    (∀ n, (MsgSpec.step a (.hChop n)).rv = Err.einval ↔ n > a.hdr.length) ∧
    (∀ d, (MsgSpec.step a (.hAppend d)).rv = Err.einval ↔ a.hdr.length + d.length > Nng.Generated.headerCap) ∧
    (∀ d, (MsgSpec.step a (.hInsert d)).rv = Err.einval ↔ a.hdr.length + d.length > Nng.Generated.headerCap) := by
  refine ⟨?_, ?_, ?_, ?_, ?_, ?_⟩ <;> intro n <;> simp only [MsgSpec.step, MsgSpec.hdrCap]
  · by_cases hc : n > a.body.length <;> simp [hc, Err.einval]
  · by_cases hc : n > a.body.length <;> simp [hc, Err.einval]
  · by_cases hc : n > a.hdr.length <;> simp [hc, Err.einval]
  · by_cases hc : n > a.hdr.length <;> simp [hc, Err.einval]
  · by_cases hc : a.hdr.length + n.length > Nng.Generated.headerCap <;> simp [hc, Err.einval]
  · by_cases hc : a.hdr.length + n.length > Nng.Generated.headerCap <;> simp [hc, Err.einval]

/-- T5. A failed allocation leaves the message exactly as it was (concrete state, not
    only its abstraction). -/
theorem enomem_changes_nothing (m : Msg) (h : MWF m) (op : Op) (ok : Bool)
    (he : (step m op ok).1.rv = Err.enomem) : abs (step m op ok).1.c = abs m := by
  rcases (step_refines m h op ok).2 with ⟨_, hc⟩ | ⟨_, hs⟩
  · rw [hc]
  · have := spec_rv (abs m) op
    rw [hs] at this
    simp only at this
    rcases this with h0 | ⟨h1, _⟩
    · rw [he] at h0; simp [Err.enomem] at h0
    · rw [he] at h1; simp [Err.enomem, Err.einval] at h1

/-- T6. A duplicate denotes the same two strings and is itself well formed. (That the two
    share no storage is a fact about pointers: it is observed by the correspondence check,
    which mutates the duplicate and re-reads the original.) -/
theorem dup_equal (m : Msg) (h : MWF m) (fail : Option Nat) :
    (msgDup m fail).safe = true ∧
    (((msgDup m fail).rv = Err.enomem ∧ (msgDup m fail).c = none) ∨
     (∃ m', (msgDup m fail).c = some m' ∧ (msgDup m fail).rv = 0 ∧ MWF m' ∧ abs m' = abs m)) := by
  obtain ⟨hs, h⟩ := msgDup_spec m h fail
  refine ⟨hs, ?_⟩
  rcases h with h | ⟨m', a, b, c, d, _⟩
  · exact Or.inl h
  · exact Or.inr ⟨m', a, b, c, d⟩

/-- T7. Big-endian integer forms: what is appended/inserted as a u16/u32/u64 is read back
    by the matching remover. -/
theorem be_round_trip (w v : Nat) : beDecode (beEncode w v) = v % 256 ^ w := beDecode_beEncode w v

theorem insertU_trimU (a : Abs) (w v : Nat) :
    MsgSpec.step (MsgSpec.step a (.insertU w v)).a (.trimU w) = ⟨0, a, some (v % 256 ^ w)⟩ := by
  simp [MsgSpec.step, beDecode_beEncode]

theorem appendU_chopU (a : Abs) (w v : Nat) :
    MsgSpec.step (MsgSpec.step a (.appendU w v)).a (.chopU w) = ⟨0, a, some (v % 256 ^ w)⟩ := by
  simp [MsgSpec.step, beDecode_beEncode]

/-- T8. the arithmetic behind the "split the slack" insert path: the rounded shift never
    pushes the data past the end of the buffer (for every capacity and length). -/
theorem insert_shift_in_bounds (cap needed : Nat) (h : needed + 8 ≤ cap) :
    roundUp8 ((cap - needed) / 2) + needed ≤ cap := by
  have := roundUp8_le (cap - needed) (by omega); omega

/-- the error numbers used by the models are those of include/nng/nng.h (extracted) -/
theorem err_numbers :
    Nng.Generated.errTable.lookup "enomem" = some Err.enomem ∧
    Nng.Generated.errTable.lookup "einval" = some Err.einval ∧
    Nng.Generated.errTable.lookup "eagain" = some Err.eagain ∧
    Nng.Generated.errTable.lookup "estate" = some Err.estate ∧
    Nng.Generated.errTable.lookup "etimedout" = some Err.etimedout ∧
    Nng.Generated.errTable.lookup "eclosed" = some Err.eclosed ∧
    Nng.Generated.errTable.lookup "eproto" = some Err.eproto ∧
    Nng.Generated.errTable.lookup "enoent" = some Err.enoent ∧
    Nng.Generated.errTable.lookup "econnreset" = some Err.econnreset ∧
    Nng.Generated.errTable.lookup "ecanceled" = some Err.ecanceled ∧
    Nng.Generated.errTable.lookup "emsgsize" = some Err.emsgsize := by decide

/-! non-vacuity: the hypotheses are met by concrete, non-trivial messages -/
example : ∃ m, (alloc 10 none).c = some m ∧ MWF m := by
  obtain ⟨_, h⟩ := alloc_spec 10 (by decide) none
  rcases h with ⟨_, _, hn⟩ | ⟨m, hm, _, hwf, _⟩
  · exact absurd rfl hn
  · exact ⟨m, hm, hwf⟩

example : (runModel ((alloc 10 none).c.getD default)
    [(.insert [1, 2, 3], true), (.trimU 2, true), (.hAppendU 4 7, true), (.chop 99, true)]).map (·.rv)
    = [0, 0, 0, Err.einval] := by decide

end Nng.C17
