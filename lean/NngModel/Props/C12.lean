/-
  C12 — REQ keeps retrying until answered; no hang when retry is disabled.  Theorems about the model
  `Nng.Req.step`; lemmas in Proofs/ReqSteps.lean, Proofs/ReqInv.lean.  What is proved here are the
  step-level facts (all states); the history-level invariants Y1/Y3/Y4/ownership are stated below as
  `*_statement` definitions and are NOT proved: they are checked on the implementation's traces by
  the C12 judge (Spec/Req.lean), by ASan/LeakSanitizer, and through the model correspondence.
-/
import NngModel.Proofs.ReqSteps
import NngModel.Spec.Req
namespace Nng.C12
open Nng Nng.Proto Nng.Req

theorem consts_ok : Nng.Req.peerRep = Nng.Proto.protoId 3 1 := by decide

/-- Y1 (step): when a connection is lost, a context on its list that has a resend time and still holds its
    request joins the send queue in the same callback, with a fresh resend deadline, and the send queue
    is run at once -/
theorem Y1_pipe_loss_requeues (s : State) (p k : Nat)
    (hr : 0 < (s.ctx k).retry) (hm : (s.ctx k).reqMsg.isSome) (hq : k ∉ s.sendQueue) :
    closeOne s p k =
      runSendQueue { (setCtx (setPipe s p { s.pipe p with ctxs := (s.pipe p).ctxs.erase k }) k
                        { s.ctx k with retryTime := s.now + (s.ctx k).retry.toNat }) with
                     sendQueue := s.sendQueue ++ [k] } :=
  closeOne_requeue s p k hr hm hq

/-- Y3 (step): with resending disabled, losing the connection fails the waiting receive with
    NNG_ECONNRESET and ends the exchange -/
theorem Y3_pipe_loss_fails_receive (s : State) (p k : Nat) (ua : UAio)
    (hr : (s.ctx k).retry ≤ 0) (ha : (s.ctx k).recvAio = some ua) :
    (closeOne s p k).2 = [Out.done ua.aio Err.econnreset none false] ∧
    ((closeOne s p k).1.ctx k).reqMsg = none ∧ ((closeOne s p k).1.ctx k).recvAio = none :=
  closeOne_econnreset s p k ua hr ha

/-- Y3 (step): with nobody receiving, the loss is latched … -/
theorem Y3_pipe_loss_latches (s : State) (p k : Nat)
    (hr : (s.ctx k).retry ≤ 0) (ha : (s.ctx k).recvAio = none) :
    (closeOne s p k).2 = [] ∧ ((closeOne s p k).1.ctx k).connReset = true ∧
    ((closeOne s p k).1.ctx k).reqMsg = none ∧ ((closeOne s p k).1.ctx k).repMsg = none :=
  closeOne_latch s p k hr ha

/-- … and reported, once, by the next receive -/
theorem Y3_latched_loss_is_reported (s : State) (k a : Nat) (mode : Mode)
    (h1 : (s.ctx k).reqMsg = none) (h2 : (s.ctx k).repMsg = none) (h3 : (s.ctx k).connReset = true) :
    ctxRecv s k a mode = (setCtx s k { s.ctx k with connReset := false }, [Out.done a Err.econnreset none false]) :=
  ctxRecv_latched s k a mode h1 h2 h3

/-- Y2 (step, with C04Req.R1): in every history, a reply carrying the id of a context's outstanding request
    that is on the wire completes that context's waiting receive with exactly that reply -/
theorem Y2_reply_completes_receive (evs : List Ev) (k : Nat) (ua : UAio) (b : Bytes)
    (hid : ((run {} evs).1.ctx k).requestId ≠ 0) (hs : ((run {} evs).1.ctx k).sendAio = none)
    (hp : ((run {} evs).1.ctx k).repMsg = none) (hr : ((run {} evs).1.ctx k).recvAio = some ua) :
    (recvCb (run {} evs).1 (some ((run {} evs).1.ctx k).requestId) b).2 = [Out.done ua.aio 0 (some ⟨[], b⟩) false] := by
  have hm := (inv_reachable evs).ctx_map k hid
  generalize (run {} evs).1 = s at *
  unfold recvCb
  simp [hm, hs, hp, hr]

/-- Y1 (all histories), NOT proved: a context holding an unanswered request that is on the wire, with a
    resend time, is on the send queue or on the list of a live pipe; and while a request accepted with a
    resend time is outstanding it is on the retry list and the tick timer is armed. -/
def Y1_invariant_statement : Prop :=
  ∀ evs : List Ev, let s := (run {} evs).1
    (∀ k, (s.ctx k).reqMsg.isSome → (s.ctx k).sendAio = none → 0 < (s.ctx k).retry →
        k ∈ s.sendQueue ∨ ∃ p, p < s.npipes ∧ (s.pipe p).closed = false ∧ k ∈ (s.pipe p).ctxs) ∧
    (∀ k, (s.ctx k).reqMsg.isSome → 0 < (s.ctx k).retryAtSend → k ∈ s.retryQueue ∧ s.retryActive = true) ∧
    (s.sendQueue = [] ∨ s.readyPipes = [])

/-- Y3 (all histories), NOT proved: a request whose context never had a resend time since it was
    accepted is handed to a transport at most once -/
def Y3_at_most_one_transmission_statement : Prop :=
  ∀ evs : List Ev, ∀ k, ((run {} evs).1.ctx k).everRetry = false → ((run {} evs).1.ctx k).wireCount ≤ 1

/-- Y4 (all histories), NOT proved: all transmissions of one request carry the same body (the id is the
    same by construction: `wireIndex` is a function of the internal id) -/
def Y4_same_body_statement : Prop :=
  ∀ evs : List Ev, ∀ x y, x ∈ (run {} evs).1.wire → y ∈ (run {} evs).1.wire → x.2.1 = y.2.1 → x.2.2 = y.2.2

/-- ownership (feeds C03), NOT proved: in every history no retained request is released twice or used
    after its release, and the context's reference ends exactly once (freed or given back) -/
def ownership_statement : Prop :=
  ∀ evs : List Ev, (run {} evs).1.bad = none ∧
    ∀ h, ((run {} evs).1.msgs h).ctxFrees + (if ((run {} evs).1.msgs h).returned then 1 else 0) ≤ 1

/-- non-vacuity: resending disabled, request on the wire, receive waiting; the connection goes away and
    the receive fails with ECONNRESET -/
example :
    let evs : List Ev := [.openSock "req" false, .setopt none "req:resend-time" "ms" (-1), .pipeAdd 0x31,
                          .send none 0 ⟨[], [1]⟩ .inf, .recv none 1 .inf]
    (step (run {} evs).1 (.pipeDrop 0)).2 = [.rv 0, .done 1 Err.econnreset none false, .pclosed 0] ∧
    ((run {} evs).1.bad = none) := by
  decide

/-- non-vacuity: with a resend time, losing the connection moves the request to the other connection -/
example :
    let evs : List Ev := [.openSock "req" false, .pipeAdd 0x31, .pipeAdd 0x31, .send none 0 ⟨[], [1]⟩ .inf]
    (step (run {} evs).1 (.pipeDrop 0)).2 = [.rv 0, .psend 1 ⟨beEncode 4 idMin, [1]⟩, .pclosed 0] := by
  decide

end Nng.C12
