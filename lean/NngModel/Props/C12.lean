/-
  C12 — REQ keeps retrying until answered; no hang when retry is disabled.  Theorems about the model
  `Nng.Req.step`; lemmas in Proofs/ReqSteps.lean, Proofs/ReqInv.lean (id map invariant),
  Proofs/ReqPlace.lean + ReqPlaceSteps.lean (lists / transmission counter / ownership invariant, 29
  clauses, `inv2_reachable`) and Proofs/ReqDrained.lean.  Proved here: the step-level facts (all states)
  and the history-level invariants Y1/Y3/Y4/ownership (all event lists from the initial state).  The
  same properties are also checked on the implementation's traces by the C12 judge (Spec/Req.lean), by
  ASan/LeakSanitizer, and through the model correspondence.  "The C12 judge accepts every trace of the model" is
  proved in Proofs/ReqJudge*.lean (simulation between model state and judge state).
-/
import NngModel.Proofs.ReqSteps
import NngModel.Proofs.ReqDrained
import NngModel.Proofs.ReqAlias
import NngModel.Proofs.ReqJudgeMain
import NngModel.Spec.Req
namespace Nng.C12
open Nng Nng.Proto Nng.Req

theorem consts_ok : Nng.Req.peerRep = Nng.Proto.protoId 3 1 := by decide

/-- Y1 (step): when a connection is lost, a context on its list that has a resend time and still holds its
    request joins the send queue in the same callback, with a fresh resend deadline, and the send queue
    is run at once -/
theorem Y1_pipe_loss_requeues (s : State) (p k : Nat)
    (hr : 0 < (s.ctx k).retry) (hm : (s.ctx k).reqMsg.isSome) (hq : k ∉ s.sendQueue) :
    closeOne s p k =
      runSendQueue { (setCtx (setPipe s p { s.pipe p with ctxs := (s.pipe p).ctxs.erase k }) k
                        { s.ctx k with retryTime := s.now + (s.ctx k).retry.toNat }) with
                     sendQueue := s.sendQueue ++ [k] } :=
  closeOne_requeue s p k hr hm hq

/-- Y3 (step): with resending disabled, losing the connection fails the waiting receive with
    NNG_ECONNRESET and ends the exchange -/
theorem Y3_pipe_loss_fails_receive (s : State) (p k : Nat) (ua : UAio)
    (hr : (s.ctx k).retry ≤ 0) (ha : (s.ctx k).recvAio = some ua) :
    (closeOne s p k).2 = [Out.done ua.aio Err.econnreset none false] ∧
    ((closeOne s p k).1.ctx k).reqMsg = none ∧ ((closeOne s p k).1.ctx k).recvAio = none :=
  closeOne_econnreset s p k ua hr ha

/-- Y3 (step): with nobody receiving, the loss is latched … -/
theorem Y3_pipe_loss_latches (s : State) (p k : Nat)
    (hr : (s.ctx k).retry ≤ 0) (ha : (s.ctx k).recvAio = none) :
    (closeOne s p k).2 = [] ∧ ((closeOne s p k).1.ctx k).connReset = true ∧
    ((closeOne s p k).1.ctx k).reqMsg = none ∧ ((closeOne s p k).1.ctx k).repMsg = none :=
  closeOne_latch s p k hr ha

/-- … and reported, once, by the next receive -/
theorem Y3_latched_loss_is_reported (s : State) (k a : Nat) (mode : Mode)
    (h1 : (s.ctx k).reqMsg = none) (h2 : (s.ctx k).repMsg = none) (h3 : (s.ctx k).connReset = true) :
    ctxRecv s k a mode = (setCtx s k { s.ctx k with connReset := false }, [Out.done a Err.econnreset none false]) :=
  ctxRecv_latched s k a mode h1 h2 h3

/-- Y2 (step, with C04Req.R1): in every history, a reply carrying the id of a context's outstanding request
    that is on the wire completes that context's waiting receive with exactly that reply -/
theorem Y2_reply_completes_receive (evs : List Ev) (k : Nat) (ua : UAio) (b : Bytes)
    (hid : ((run {} evs).1.ctx k).requestId ≠ 0) (hs : ((run {} evs).1.ctx k).sendAio = none)
    (hp : ((run {} evs).1.ctx k).repMsg = none) (hr : ((run {} evs).1.ctx k).recvAio = some ua) :
    (recvCb (run {} evs).1 (some ((run {} evs).1.ctx k).requestId) b).2 = [Out.done ua.aio 0 (some ⟨[], b⟩) false] := by
  have hm := (inv_reachable evs).ctx_map k hid
  generalize (run {} evs).1 = s at *
  unfold recvCb
  simp [hm, hs, hp, hr]

/-- a pipe that lists a context is an existing, live pipe (all histories) -/
theorem live_of_listed (evs : List Ev) (k p : Nat) (h1 : k ∈ ((run {} evs).1.pipe p).ctxs) :
    p < (run {} evs).1.npipes ∧ ((run {} evs).1.pipe p).closed = false := by
  have h := inv2_reachable evs
  constructor
  · apply Nat.lt_of_not_le; intro hge
    have : ((run {} evs).1.pipe p).ctxs = [] := (h.out_pipe p hge).2
    rw [this] at h1; cases h1
  · cases hc : ((run {} evs).1.pipe p).closed with
    | false => rfl
    | true =>
      have : ((run {} evs).1.pipe p).ctxs = [] := h.closed_pipe p (by simp) hc
      rw [this] at h1; cases h1

/-- Y1 (all histories): a context holding an unanswered request that is on the wire, with a resend time, is
    on the send queue or on the list of a live pipe; while a request accepted with a resend time is
    outstanding it is on the retry list and the tick timer is active; and req0_run_send_queue never leaves
    a queued request behind while a pipe is ready. -/
theorem Y1_invariant :
  ∀ evs : List Ev, let s := (run {} evs).1
    (∀ k, (s.ctx k).reqMsg.isSome → (s.ctx k).sendAio = none → 0 < (s.ctx k).retry →
        k ∈ s.sendQueue ∨ ∃ p, p < s.npipes ∧ (s.pipe p).closed = false ∧ k ∈ (s.pipe p).ctxs) ∧
    (∀ k, (s.ctx k).reqMsg.isSome → 0 < (s.ctx k).retryAtSend → k ∈ s.retryQueue ∧ s.retryActive = true) ∧
    (s.sendQueue = [] ∨ s.readyPipes = []) := by
  intro evs
  have h := inv2_reachable evs
  refine ⟨fun k hr _ _ => ?_, fun k hr ha => ⟨h.rq_place k (by simp) hr ha, h.rq_active k hr ha⟩, drained_reachable evs⟩
  rcases h.place k (by simp) hr with h1 | ⟨p, h1⟩
  · exact Or.inl h1
  · exact Or.inr ⟨p, (live_of_listed evs k p h1).1, (live_of_listed evs k p h1).2, h1⟩

/-- Y1 (all histories), the place of a request, without side conditions: every context that holds a
    request (sent or still parked, with or without a resend time) is on the send queue or on the list of
    exactly one live pipe; everything on the send queue holds a request. -/
theorem Y1_request_has_a_place (evs : List Ev) (k : Nat) (hr : ((run {} evs).1.ctx k).reqMsg.isSome) :
    k ∈ (run {} evs).1.sendQueue ∨
    ∃ p, p < (run {} evs).1.npipes ∧ ((run {} evs).1.pipe p).closed = false ∧ k ∈ ((run {} evs).1.pipe p).ctxs ∧
      ∀ q, k ∈ ((run {} evs).1.pipe q).ctxs → q = p := by
  have h := inv2_reachable evs
  rcases h.place k (by simp) hr with h1 | ⟨p, h1⟩
  · exact Or.inl h1
  · exact Or.inr ⟨p, (live_of_listed evs k p h1).1, (live_of_listed evs k p h1).2, h1, fun q hq => h.pc_uniq q p k hq h1⟩

/-- Y1 (all histories), no duplicates and disjointness: the send queue, the retry list and every pipe's
    context list are duplicate free; a context is on at most one pipe's list; closed pipes and pipe
    slots never used list nothing; a ready pipe is live and idle; only contexts holding a request are
    on the send queue; while the retry machinery is active and the socket open the tick timer is armed
    (or parked for good by an infinite `req:resend-tick`). -/
theorem Y1_lists_wellformed (evs : List Ev) :
    let s := (run {} evs).1
    s.sendQueue.Nodup ∧ s.retryQueue.Nodup ∧ s.readyPipes.Nodup ∧ (∀ p, (s.pipe p).ctxs.Nodup) ∧
    (∀ p q k, k ∈ (s.pipe p).ctxs → k ∈ (s.pipe q).ctxs → p = q) ∧
    (∀ p, (s.pipe p).closed = true ∨ s.npipes ≤ p → (s.pipe p).ctxs = []) ∧
    (∀ p, p ∈ s.readyPipes → p < s.npipes ∧ (s.pipe p).closed = false ∧ (s.pipe p).busy = none) ∧
    (∀ k, k ∈ s.sendQueue → (s.ctx k).reqMsg.isSome) ∧
    (s.sClosed = false → s.retryActive = true → s.tickAt.isSome ∨ s.tickNever = true) := by
  have h := inv2_reachable evs
  refine ⟨h.sq_nodup, h.rq_nodup, h.ready_nodup, h.pc_nodup, h.pc_uniq, fun p hp => ?_, h.ready_ok, h.sq_req, fun a b => ?_⟩
  · rcases hp with hp | hp
    · exact h.closed_pipe p (by simp) hp
    · exact (h.out_pipe p hp).2
  · rcases h.timer a b with t | t
    · exact Or.inl t
    · exact Or.inr t

/-- Y1, "exactly one place" is too strong for req.c: after the resend timer found a request due while
    every pipe was busy, the context is on the send queue AND still on the list of the pipe that carried
    the previous transmission (`req0_retry_cb` appends to `send_queue` without touching `pipe_node`; the
    next `req0_run_send_queue` moves it).  So the send queue and the pipe lists are not disjoint; what
    holds is `Y1_request_has_a_place` (at least one place, at most one pipe). -/
theorem Y1_send_queue_and_pipe_list_overlap :
    ∃ evs : List Ev, ∃ k p, k ∈ (run {} evs).1.sendQueue ∧ k ∈ ((run {} evs).1.pipe p).ctxs ∧
      ((run {} evs).1.pipe p).closed = false ∧ ((run {} evs).1.ctx k).reqMsg.isSome :=
  ⟨[.openSock "req" false, .setopt none "req:resend-time" "ms" 100, .pipeAdd 0x31,
    .send none 0 ⟨[], [1]⟩ .inf, .advance 1001], 0, 0, by decide⟩

/-- Y3 (all histories): a request whose context never had a resend time since it was accepted is handed
    to a transport at most once -/
theorem Y3_at_most_one_transmission :
  ∀ evs : List Ev, ∀ k, ((run {} evs).1.ctx k).everRetry = false → ((run {} evs).1.ctx k).wireCount ≤ 1 :=
  fun evs k he => (inv2_reachable evs).cnt1 k he

/-- Y4 (all histories): all transmissions of one request carry the same body, namely the body of the
    retained request message -/
theorem Y4_same_body :
  ∀ evs : List Ev, ∀ x y, x ∈ (run {} evs).1.wire → y ∈ (run {} evs).1.wire → x.2.1 = y.2.1 → x.2.2 = y.2.2 := by
  intro evs x y hx hy e
  have h := inv2_reachable evs
  obtain ⟨_, _, bx⟩ := h.wire_body x hx
  obtain ⟨_, _, by'⟩ := h.wire_body y hy
  have bx' : ((run {} evs).1.msgs x.2.1).body = x.2.2 := bx
  have by'' : ((run {} evs).1.msgs y.2.1).body = y.2.2 := by'
  rw [← bx', ← by'', e]

/-- Y4 (all histories): every transmission logged is of a request id that was allocated, and carries the
    body of that request's retained message -/
theorem Y4_transmission_is_retained_body (evs : List Ev) (x : Nat × Nat × Bytes) (hx : x ∈ (run {} evs).1.wire) :
    x.2.1 ≠ 0 ∧ x.2.1 ≤ (run {} evs).1.nalloc ∧ ((run {} evs).1.msgs x.2.1).body = x.2.2 := by
  obtain ⟨a, b, c⟩ := (inv2_reachable evs).wire_body x hx
  exact ⟨b, a, c⟩

/-- Y4, same id (all histories): once a request id has a wire name (the 4-byte header is
    `wireHdr n` = big-endian `idMin + n`), it keeps that name through every later event: `alias` only
    grows at its end -/
theorem Y4_wire_name_is_stable (evs evs' : List Ev) (i n : Nat)
    (h : (run {} evs).1.alias.idxOf? i = some n) :
    (run (run {} evs).1 evs').1.alias.idxOf? i = some n :=
  (aext_run evs' _).stable h

/-- Y4, same id: every message req0_run_send_queue hands to a transport carries as header the wire name
    that the context's request id has in the resulting state — with `Y4_wire_name_is_stable`, the header
    of the first transmission of that request -/
theorem Y4_header_is_wire_name (s : State) (k p q : Nat) (m : WMsg) (h : Out.psend q m ∈ (sendOne s k p).2) :
    ∃ n, (sendOne s k p).1.alias.idxOf? (s.ctx k).requestId = some n ∧ m.hdr = wireHdr n :=
  (sendOne_alias s k p).2 q m h

/-- ownership (feeds C03), all histories, including `setopt req:resend-time` at any point (the theorem
    defect F5 violated): no retained request is released twice, used after its release or released by a
    transport that holds no reference, and the context's reference ends at most once (freed or handed
    back to the sender) -/
theorem ownership :
  ∀ evs : List Ev, (run {} evs).1.bad = none ∧
    ∀ h, ((run {} evs).1.msgs h).ctxFrees + (if ((run {} evs).1.msgs h).returned then 1 else 0) ≤ 1 := by
  intro evs
  have hi := inv2_reachable evs
  refine ⟨hi.nobad, fun h => ?_⟩
  have := (hi.once h).1
  have this' : ((run {} evs).1.msgs h).ctxFrees + ((run {} evs).1.msgs h).returned.toNat ≤ 1 := this
  cases hr : ((run {} evs).1.msgs h).returned <;> simp [hr] at this' ⊢ <;> omega

/-- ownership, the counter is 1 while the request is outstanding: the context's reference to its retained
    request is live, has not been released or handed back, the handle is the request id, and no other
    context holds it -/
theorem ownership_while_outstanding (evs : List Ev) (k h : Nat) (hm : ((run {} evs).1.ctx k).reqMsg = some h) :
    ((run {} evs).1.msgs h).ctxRef = true ∧ ((run {} evs).1.msgs h).ctxFrees = 0 ∧
    ((run {} evs).1.msgs h).returned = false ∧ ((run {} evs).1.ctx k).requestId = h ∧
    ∀ k', ((run {} evs).1.ctx k').reqMsg = some h → k' = k := by
  have hi := inv2_reachable evs
  have hr := hi.held k h hm
  obtain ⟨a, b⟩ := (hi.once h).2 hr
  exact ⟨hr, a, b, (hi.req_id k h hm).1, fun k' hk' => hi.req_uniq k' k h hk' hm⟩

/-- ownership, the counter is 0 once the request is gone (no leak): a live context reference exists only
    while some context holds the request; and the transports' references are exactly the sends in flight -/
theorem ownership_after_release (evs : List Ev) (h : Nat) :
    (((run {} evs).1.msgs h).ctxRef = true → ∃ k, ((run {} evs).1.ctx k).reqMsg = some h) ∧
    ((run {} evs).1.msgs h).tranRefs = busyCnt (run {} evs).1.pipe (run {} evs).1.npipes h :=
  ⟨(inv2_reachable evs).owner h, (inv2_reachable evs).tran h⟩

/-- non-vacuity of the ownership theorems: F5's scenario (resend time switched off while a request is
    outstanding, then the socket is closed) ends with the one reference released exactly once -/
example :
    let evs : List Ev := [.openSock "req" false, .pipeAdd 0x31, .send none 0 ⟨[], [1]⟩ .nb,
                          .setopt none "req:resend-time" "ms" (-1)]
    (((run {} evs).1.ctx 0).reqMsg = some 1 ∧ ((run {} evs).1.msgs 1).ctxRef = true ∧
      ((run {} evs).1.msgs 1).tranRefs = 1) ∧
    (((run {} (evs ++ [.close])).1.msgs 1).ctxFrees = 1 ∧ ((run {} (evs ++ [.close])).1.msgs 1).ctxRef = false ∧
      ((run {} (evs ++ [.close])).1.msgs 1).tranRefs = 0) := by
  decide

/-- non-vacuity of Y3: resending disabled, one transmission, the connection is lost, nothing is resent -/
example :
    let evs : List Ev := [.openSock "req" false, .setopt none "req:resend-time" "ms" (-1), .pipeAdd 0x31, .pipeAdd 0x31,
                          .send none 0 ⟨[], [1]⟩ .inf]
    ((run {} evs).1.ctx 0).everRetry = false ∧ ((run {} evs).1.ctx 0).wireCount = 1 ∧
    (step (run {} evs).1 (.pipeDrop 0)).2 = [.rv 0, .pclosed 0] := by
  decide

/-- non-vacuity of Y4: a retransmission after the resend time is in the log with the same id and body -/
example :
    let evs : List Ev := [.openSock "req" false, .setopt none "req:resend-time" "ms" 100, .pipeAdd 0x31,
                          .send none 0 ⟨[], [1]⟩ .inf, .sendDone 0 0, .advance 1001]
    (run {} evs).1.wire = [(0, 1, [1]), (0, 1, [1])] := by
  decide

/-- request bodies submitted in a history -/
def sendBodies (evs : List Ev) : List Bytes :=
  evs.filterMap fun e => match e with | .send _ _ m _ => some m.body | _ => none

/-- what the check's generator guarantees and the C12 judge relies on: no operation is aborted with
    result 0 (`nni_aio_abort(aio, 0)`, a harness-only operation), request bodies are pairwise distinct -/
def JudgeHyps (evs : List Ev) : Prop := (∀ a, Ev.abort a 0 ∉ evs) ∧ (sendBodies evs).Nodup

/-- the unconditional statement "the C12 judge accepts every trace of the model" is FALSE: after
    `abort <recv aio> 0` the model (and req.c: replayed, same outputs) completes the receive with result 0 and
    no message and cancels the request, while the judge only treats non-zero completions as failures and
    still expects ECONNRESET for that receive when the connection is lost -/
theorem judge12_rejects_abort_with_zero :
    ¬ ∀ evs : List Ev, Nng.ReqSpec.judge12 (evs.zip (run {} evs).2) = none := by
  intro h
  have := h [.openSock "req" false, .setopt none "req:resend-time" "ms" (-1), .pipeAdd 0x31,
             .send none 0 ⟨[], [1]⟩ .inf, .recv none 1 .inf, .abort 1 0, .pipeDrop 0]
  revert this
  decide

/-- `sendBodies` here and in the simulation proof are the same function -/
theorem sendBodies_eq (evs : List Ev) : sendBodies evs = Nng.ReqJ.sendBodies evs := rfl

/-- further guarantees of the check's generator (vlib/props/c04req.py, shared by C12) that the judge relies on:
    * `abort` is never used with NNG_ECONNRESET (the generator aborts with 5, 20 or 7): a harness-only way to make a
      receive report a connection loss that did not happen;
    * at most `relBase` = 65536 requests are submitted in one case (wire names `idMin + index`, relative names above);
    * a reply that uses a relative name does so only for a request that has no wire name of its own.
    NOT needed (the model's timing is deterministic and the judge's clauses are robust against it): that `advance`
    never lands exactly on a timer deadline or crosses only one of them — the generator guarantees this for the
    sake of the *implementation's* expire thread, the theorem holds without it. -/
def GenHyps (evs : List Ev) : Prop :=
  (∀ a, Ev.abort a Err.econnreset ∉ evs) ∧ (sendBodies evs).length ≤ relBase ∧ Nng.ReqJ.RepliesNamed {} evs

/-- **The C12 judge accepts every trace of the REQ model** (all event lists satisfying the generator's guarantees). -/
theorem judge_accepts_model (evs : List Ev) (h : JudgeHyps evs) (g : GenHyps evs) :
    Nng.ReqSpec.judge12 (evs.zip (run {} evs).2) = none :=
  Nng.ReqJ.judge12_accepts evs h.1 g.1 h.2 g.2.1 g.2.2

/-- the statement with `JudgeHyps` alone (the former `judge_accepts_model_statement`) is FALSE -/
def judge_accepts_model_statement : Prop :=
  ∀ evs : List Ev, JudgeHyps evs → Nng.ReqSpec.judge12 (evs.zip (run {} evs).2) = none

/-- … because of `abort <recv aio> ECONNRESET` -/
theorem judge_needs_no_abort_econnreset : ¬ judge_accepts_model_statement := by
  intro h
  have := h [.openSock "req" false, .pipeAdd 0x31, .send none 0 ⟨[], [1]⟩ .inf, .recv none 1 .inf, .abort 1 19]
    ⟨fun a h => by simp at h, by decide⟩
  revert this
  decide

/-- … and because of replies that name a request that is on the wire by a relative name: the model (like req.c)
    takes the reply, the judge still counts the request as outstanding and expects its retransmission when the
    connection goes away -/
theorem judge_needs_reply_names :
    ¬ ∀ evs : List Ev, JudgeHyps evs → (∀ a, Ev.abort a Err.econnreset ∉ evs) → (sendBodies evs).length ≤ relBase →
      Nng.ReqSpec.judge12 (evs.zip (run {} evs).2) = none := by
  intro h
  have := h [.openSock "req" false, .pipeAdd 0x31, .pipeAdd 0x31, .send none 0 ⟨[], [1]⟩ .inf, .ctxOpen 0,
             .send (some 0) 1 ⟨[], [2]⟩ .inf, .recv (some 0) 2 .inf,
             .recvDone 0 (.ok (beEncode 4 (idMin + relBase * (relOff + 1)) ++ [9])), .sendDone 0 0, .pipeDrop 1]
    ⟨fun a h => by simp at h, by decide⟩ (fun a h => by simp [Err.econnreset] at h) (by decide)
  revert this
  decide

/-- distinct request bodies are needed: the judge identifies a request on the wire by its body -/
theorem judge_needs_distinct_bodies :
    ¬ ∀ evs : List Ev, (∀ a, Ev.abort a 0 ∉ evs) → GenHyps evs → Nng.ReqSpec.judge12 (evs.zip (run {} evs).2) = none := by
  intro h
  have := h [.openSock "req" false, .pipeAdd 0x31, .pipeAdd 0x31, .ctxOpen 0, .send none 0 ⟨[], [1]⟩ .inf,
             .send (some 0) 1 ⟨[], [1]⟩ .inf, .recv (some 0) 2 .inf, .recvDone 1 (.ok (beEncode 4 (idMin + 1) ++ [9]))]
    (fun a h => by simp at h) ⟨fun a h => by simp [Err.econnreset] at h, by decide, by decide⟩
  revert this
  decide

/-- the hypotheses are satisfiable by a non-trivial history, which the judge accepts -/
example :
    let evs : List Ev := [.openSock "req" false, .pipeAdd 0x31, .pipeAdd 0x31, .send none 0 ⟨[], [1]⟩ .inf,
                          .recv none 1 .inf, .pipeDrop 0, .recvDone 1 (.ok (beEncode 4 idMin ++ [7]))]
    JudgeHyps evs ∧ GenHyps evs ∧ Nng.ReqSpec.judge12 (evs.zip (run {} evs).2) = none := by
  have hj : JudgeHyps [.openSock "req" false, .pipeAdd 0x31, .pipeAdd 0x31, .send none 0 ⟨[], [1]⟩ .inf,
                          .recv none 1 .inf, .pipeDrop 0, .recvDone 1 (.ok (beEncode 4 idMin ++ [7]))] :=
    ⟨fun a h => by simp at h, by decide⟩
  have hg : GenHyps [.openSock "req" false, .pipeAdd 0x31, .pipeAdd 0x31, .send none 0 ⟨[], [1]⟩ .inf,
                          .recv none 1 .inf, .pipeDrop 0, .recvDone 1 (.ok (beEncode 4 idMin ++ [7]))] :=
    ⟨fun a h => by simp at h, by decide, by decide⟩
  exact ⟨hj, hg, judge_accepts_model _ hj hg⟩

/-- non-vacuity: resending disabled, request on the wire, receive waiting; the connection goes away and
    the receive fails with ECONNRESET -/
example :
    let evs : List Ev := [.openSock "req" false, .setopt none "req:resend-time" "ms" (-1), .pipeAdd 0x31,
                          .send none 0 ⟨[], [1]⟩ .inf, .recv none 1 .inf]
    (step (run {} evs).1 (.pipeDrop 0)).2 = [.rv 0, .done 1 Err.econnreset none false, .pclosed 0] ∧
    ((run {} evs).1.bad = none) := by
  decide

/-- non-vacuity: with a resend time, losing the connection moves the request to the other connection -/
example :
    let evs : List Ev := [.openSock "req" false, .pipeAdd 0x31, .pipeAdd 0x31, .send none 0 ⟨[], [1]⟩ .inf]
    (step (run {} evs).1 (.pipeDrop 0)).2 = [.rv 0, .psend 1 ⟨beEncode 4 idMin, [1]⟩, .pclosed 0] := by
  decide

end Nng.C12
