/-
  C04, replier half — property theorems about the REP model (Model/Rep.lean), for ALL event
  sequences.  Helper lemmas live in Proofs/Rep*.lean.  The model is tied to
  src/sp/protocol/reqrep0/rep.c by the SIM correspondence run of vlib/props/c04rep.py, which also
  judges the implementation's own traces with Spec/Rep.lean.
-/
import NngModel.Proofs.RepSteps
import NngModel.Proofs.RepOrder
import NngModel.Proofs.RepRecent
import NngModel.Proofs.RawHdr
import NngModel.Proofs.RepJudge
import NngModel.Generated.Base
import NngModel.Generated.C04REP
namespace Nng.C04Rep
open Nng Nng.Proto Nng.Rep Nng.RepProofs

/-- the state reached from the initial state by an event sequence -/
def reach (evs : List Ev) : State := (run {} evs).1

/-- protocol numbers and limits used by the model are those of the C source -/
theorem constants : peerReq = protoId 3 0 ∧ Nng.Generated.protoRep = protoId 3 1 ∧
    Nng.Generated.repDefaultTtl = 8 ∧ ttlMax = 15 ∧ Nng.Generated.headerCap = 4 * (ttlMax + 1) := by decide

/-! ### header processing (shared with XREP, reused by C13) -/

/-- the hop loop of rep0_pipe_recv_cb computes the closed form used by the specification:
    k leading hop words, then: k ≥ ttl ⇒ dropped; fewer than 4 bytes left ⇒ malformed;
    otherwise header = the first k+1 words, body = the rest -/
theorem parse_is_classify (ttl : Nat) (b : Bytes) :
    toShape (parseBacktrace ttl b) = Nng.RepSpec.classify ttl b := parse_eq_classify ttl b

/-- (P3) a parsed header is 1..ttl words, header ++ body is the message, and with ttl ≤ 15 it fits
    the header buffer even after XREP has pushed the pipe id (NNI_MAX_HEADER_SIZE is never exceeded) -/
theorem parsed_header_bounds (ttl : Nat) (b hdr body : Bytes) (httl : ttl ≤ Nng.Generated.maxMaxTtl)
    (h : parseBacktrace ttl b = .ok hdr body) :
    4 ≤ hdr.length ∧ hdr.length ≤ 4 * ttl ∧ hdr.length % 4 = 0 ∧ hdr ++ body = b ∧
    hdr.length + 4 ≤ Nng.Generated.headerCap := by
  have f := parse_ok_facts h
  exact ⟨f.1, f.2.1, f.2.2.1, f.2.2.2, parse_ok_fits httl h⟩

/-! ### P1 — reply routing -/

/-- every message REP hands to a pipe carries exactly the backtrace of a request delivered to the
    sending context (`w.req`, recorded from the context's "most recently delivered request" ghost
    at the moment of the send call) and goes to the pipe that request came from -/
theorem wire_routing (evs : List Ev) :
    ∀ w ∈ (reach evs).wire, ∃ r, w.req = some r ∧ w.hdr = r.bt ∧ w.pipe = r.pipe :=
  (run_inv1 evs {} inv1_init).wireOK

/-- (P1 in full, on the delivery log) every message on the wire answers the request MOST RECENTLY
    delivered to the sending context at the moment the send was submitted (`w.ndeliv` deliveries had
    happened then): it carries that request's backtrace and goes to that request's pipe -/
theorem reply_answers_most_recent_request (evs : List Ev) :
    ∀ w ∈ (reach evs).wire, ∃ r,
      w.ndeliv ≤ (reach evs).delivered.length ∧
      lastDeliv ((reach evs).delivered.take w.ndeliv) w.ctx = some r ∧
      w.hdr = r.bt ∧ w.pipe = r.pipe := by
  intro w hw
  obtain ⟨r, hr, hh, hp⟩ := (run_inv1 evs {} inv1_init).wireOK w hw
  have h4 := (run_inv4 evs {} inv4_init).Wr w hw
  exact ⟨r, h4.1, (h4.2.symm.trans hr), hh, hp⟩

/-- what a context has saved is always the backtrace and pipe of the request most recently
    delivered to it; replies queued behind a busy pipe wait on that request's pipe with its backtrace -/
theorem saved_state_is_last_request (evs : List Ev) :
    (∀ k, ((reach evs).ctx k).btrace ≠ [] →
        ∃ r, ((reach evs).ctx k).greq = some r ∧ ((reach evs).ctx k).btrace = r.bt ∧ ((reach evs).ctx k).pipeId = some r.pipe) ∧
    (∀ p, ∀ e ∈ ((reach evs).pipe p).sendq, ∃ r, e.req = some r ∧ e.hdr = r.bt ∧ p = r.pipe) :=
  ⟨(run_inv1 evs {} inv1_init).ctxOK, (run_inv1 evs {} inv1_init).sendqOK⟩

/-- (P4) replies accepted for a pipe that has gone away were addressed to that pipe only: the
    discard log has the same routing property, and `reply_to_gone_pipe` shows they never reach the wire -/
theorem discarded_routing (evs : List Ev) :
    ∀ w ∈ (reach evs).discarded, ∃ r, w.req = some r ∧ w.hdr = r.bt ∧ w.pipe = r.pipe :=
  (run_inv1 evs {} inv1_init).discOK

theorem reply_to_gone_pipe (s : State) (k a p : Nat) (m : WMsg) (mode : Mode)
    (hs : (s.ctx k).saio = none) (hb : (s.ctx k).btrace ≠ []) (hp : (s.ctx k).pipeId = some p)
    (hgone : livePipe s p = false) :
    (ctxSend s k a m mode).2 = [Out.done a 0 none false] ∧ (ctxSend s k a m mode).1.wire = s.wire :=
  ctxSend_pipe_gone s k a p m mode hs hb hp hgone

/-! ### P2 — the state machine -/

/-- send before receive (nothing saved) ⇒ NNG_ESTATE, the message stays with the caller, nothing is sent -/
theorem send_without_request (s : State) (k a : Nat) (m : WMsg) (mode : Mode) (h : (s.ctx k).btrace = []) :
    (ctxSend s k a m mode).2 = [Out.done a Err.estate none true] ∧ (ctxSend s k a m mode).1.wire = s.wire :=
  ctxSend_estate s k a m mode h

/-- one send consumes the saved request: whatever its outcome the context has nothing saved
    afterwards (so a second send without a new receive gets NNG_ESTATE by `send_without_request`);
    the only exception is the send refused with NNG_ESTATE because the previous reply is still queued,
    which changes nothing -/
theorem send_consumes_request (s : State) (k a : Nat) (m : WMsg) (mode : Mode) :
    (((ctxSend s k a m mode).1.ctx k).btrace = []) ∨
    ((s.ctx k).saio.isSome = true ∧ (ctxSend s k a m mode).1 = s ∧ (ctxSend s k a m mode).2 = [Out.done a Err.estate none true]) :=
  ctxSend_consumes s k a m mode

/-- a second concurrent receive on a context fails with NNG_ESTATE and the first stays pending
    (with a zero timeout the code returns NNG_EAGAIN / NNG_ETIMEDOUT first: `nni_aio_start`) -/
theorem second_receive (s : State) (k a : Nat) (mode : Mode) (hrp : s.recvpipes = [])
    (hr : (s.ctx k).raio.isSome = true) (hm1 : mode ≠ .nb) (hm2 : mode ≠ .ms 0) :
    ctxRecv s k a mode = (s, [Out.done a Err.estate none false]) :=
  ctxRecv_second_estate s k a mode hrp hr hm1 hm2

/-- in every reachable state a context with a receive pending finds no request waiting, so the
    hypothesis `recvpipes = []` of `second_receive` always holds: a second concurrent receive (with a
    non-zero timeout) is always refused with NNG_ESTATE -/
theorem second_receive_reachable (evs : List Ev) (k a : Nat) (mode : Mode)
    (hr : ((reach evs).ctx k).raio.isSome = true) (hm1 : mode ≠ .nb) (hm2 : mode ≠ .ms 0) :
    ctxRecv (reach evs) k a mode = (reach evs, [Out.done a Err.estate none false]) := by
  have h := run_inv3 evs {} inv3_init
  have hq : (reach evs).recvq ≠ [] := by
    intro he
    have := h.RQ k hr
    rw [show (run {} evs).1.recvq = (reach evs).recvq from rfl, he] at this
    cases this
  exact ctxRecv_second_estate _ k a mode (h.Q hq) hr hm1 hm2

/-! ### P5 — delivery order -/

/-- requests are handed to the application in arrival order (ghost arrival numbers strictly increase
    along the delivery log), hence each at most once and per pipe in the order they arrived; every
    delivered request did arrive -/
theorem delivered_in_arrival_order (evs : List Ev) :
    (reach evs).delivered.Pairwise (fun a b => a.2.gid < b.2.gid) ∧
    (∀ d ∈ (reach evs).delivered, d.2.gid < (reach evs).narrive) ∧
    (∀ d ∈ (reach evs).delivered, ∀ r ∈ (reach evs).recvpipes, d.2.gid < r.gid) :=
  ⟨(run_inv3 evs {} inv3_init).D, (run_inv3 evs {} inv3_init).DB, (run_inv3 evs {} inv3_init).DH⟩

/-- a receiver never waits while a request is held (no stall) -/
theorem no_receiver_waits_while_request_held (evs : List Ev) (h : (reach evs).recvq ≠ []) :
    (reach evs).recvpipes = [] := (run_inv3 evs {} inv3_init).Q h

/-! ### P3 — malformed and over-long requests -/

theorem malformed_request_closes_pipe (s : State) (p : Nat) (b : Bytes) (hl : livePipe s p = true)
    (h : parseBacktrace s.ttl b = .malformed) :
    Out.pclosed p ∈ (pipeRecv s p b).2 ∧ (pipeRecv s p b).1.delivered = s.delivered ∧
    livePipe (pipeRecv s p b).1 p = false ∧ (∀ a rv m mb, Out.done a rv (some m) mb ∉ (pipeRecv s p b).2) :=
  pipeRecv_malformed s p b hl h

theorem overlong_request_dropped (s : State) (p : Nat) (b : Bytes) (hl : livePipe s p = true)
    (h : parseBacktrace s.ttl b = .drop) :
    (pipeRecv s p b).2 = [Out.parm p] ∧ (pipeRecv s p b).1.delivered = s.delivered ∧
    (pipeRecv s p b).1.recvpipes = s.recvpipes ∧ livePipe (pipeRecv s p b).1 p = true :=
  pipeRecv_drop s p b hl h

/-! ### P6 — pollable flags (feeds C15) -/

/-- in every reachable state (socket not closed): readable ⇔ a request is waiting ⇔ a non-blocking
    receive on any context does not return NNG_EAGAIN -/
theorem readable_exact (evs : List Ev) (hc : (reach evs).closed = false) (k a : Nat) :
    ((reach evs).readable = !(reach evs).recvpipes.isEmpty) ∧
    ((reach evs).readable = true ↔ (ctxRecv (reach evs) k a .nb).2 ≠ [Out.done a Err.eagain none false]) :=
  ⟨(run_inv2 evs {} inv2_init).R hc, readable_iff_nb_recv _ (run_inv2 evs {} inv2_init) hc k a⟩

/-- in every reachable state: writable ⇔ the socket's own context has a request to answer whose pipe
    is gone or idle; a non-blocking send returns `nbSendCode` (`nb_send_code`), which is 0 exactly when
    writable is raised (unless the socket's previous reply is still queued, then it is NNG_ESTATE),
    and is never NNG_EAGAIN while writable is raised -/
theorem writable_exact (evs : List Ev) (hc : (reach evs).closed = false) :
    ((reach evs).writable = sockCanSend (reach evs)) ∧
    (((reach evs).ctx 0).saio = none → ((reach evs).writable = true ↔ nbSendCode (reach evs) 0 = 0)) ∧
    ((reach evs).writable = true → nbSendCode (reach evs) 0 ≠ Err.eagain) :=
  ⟨(run_inv2 evs {} inv2_init).W hc,
   fun hs => writable_iff_nb_send _ (run_inv2 evs {} inv2_init) hc hs,
   fun hw => writable_not_eagain _ (run_inv2 evs {} inv2_init) hc hw⟩

theorem nonblocking_send_result (s : State) (k a : Nat) (m : WMsg) :
    ∃ mb, Out.done a (nbSendCode s k) none mb ∈ (ctxSend s k a m .nb).2 ∧ (mb = true ↔ nbSendCode s k ≠ 0) :=
  nb_send_code s k a m

/-! ### raw sockets: header handling (building blocks of devices, C13) -/

/-- XREP hands up `pipe id ++ backtrace` exactly for the arrivals the specification calls well-formed,
    drops over-long ones and closes the pipe on malformed ones -/
theorem xrep_receive_header (ttl p : Nat) (b : Bytes) :
    (match Nng.Xrep.recvHeader ttl p b with
     | .ok h body => ∃ hdr, h = Nng.Xrep.idWord p ++ hdr ∧ Nng.RepSpec.classify ttl b = .ok hdr body
     | .drop => Nng.RepSpec.classify ttl b = .tooManyHops
     | .malformed => Nng.RepSpec.classify ttl b = .malformed) := Nng.RawProofs.xrep_recvHeader_spec ttl p b

theorem xrep_header_within_capacity (ttl p : Nat) (b h body : Bytes) (httl : ttl ≤ Nng.Generated.maxMaxTtl)
    (hr : Nng.Xrep.recvHeader ttl p b = .ok h body) : h.length ≤ Nng.Generated.headerCap ∧ 8 ≤ h.length :=
  Nng.RawProofs.xrep_header_fits ttl p b h body httl hr

/-- a reply carrying the header of its request goes back to the request's pipe with the request's backtrace -/
theorem xrep_reply_roundtrip (p : Nat) (hdr : Bytes) (hp : p + 1 < 2 ^ 32) :
    Nng.Xrep.sendHeader (Nng.Xrep.idWord p ++ hdr) = some (p + 1, hdr) := Nng.RawProofs.xrep_roundtrip p hdr hp

theorem xreq_receive_header (b : Bytes) :
    (match Nng.Xreq.recvHeader b with
     | .ok h body => Nng.RawSpec.xreqShape Nng.Generated.headerCap b = some (h, body)
     | .close => Nng.RawSpec.xreqShape Nng.Generated.headerCap b = none) := Nng.RawProofs.xreq_recvHeader_spec b

theorem xreq_header_within_capacity (b h body : Bytes) (hr : Nng.Xreq.recvHeader b = .ok h body) :
    h.length ≤ Nng.Generated.headerCap ∧ 4 ≤ h.length ∧ h ++ body = b := Nng.RawProofs.xreq_header_fits b h body hr

/-! ### JUDGE — the executable specification accepts every trace of the model -/

def sendBodies (evs : List Ev) : List Bytes :=
  evs.filterMap fun e => match e with | .send _ _ m _ => some m.body | _ => none
def arrivalBodies (evs : List Ev) : List Bytes :=
  evs.filterMap fun e => match e with
    | .recvDone _ (.ok b) => some (b.drop (4 * Nng.RepSpec.leadingHops b + 4))
    | _ => none

theorem sendBodies_eq (evs : List Ev) : sendBodies evs = bodiesOf evs := by
  unfold sendBodies bodiesOf
  induction evs with
  | nil => rfl
  | cons e es ih => cases e <;> simp [List.filterMap_cons, evBody, ih]

/-- JUDGE: for every event sequence the trace of the model is accepted by the executable trace predicate
    `repJudge` (Spec/Rep.lean) — the predicate the check runs on every trace of the implementation.
    Hypotheses (each is needed, see the `rep_judge_needs_*` theorems below):
    * `NoBadAbort`: no `abort aio 0` / `abort aio NNG_ESTATE` (harness-only operation `nng_aio_abort` with a
      result the protocol never produces for a parked operation: "success" without a message, resp. the code
      that the specification reserves for state-machine violations);
    * `SlotsFresh`: `ctx_open c` only on a free harness slot (the judge names contexts by their slot; the
      generator never re-opens an occupied slot);
    * reply bodies pairwise distinct (the judge identifies replies by their bodies).
    Distinctness of the request bodies (`arrivalBodies`) turned out not to be needed. -/
theorem rep_judge_accepts_model (evs : List Ev) (hab : NoBadAbort evs) (hsl : SlotsFresh {} evs)
    (hs : (sendBodies evs).Nodup) :
    Nng.RepSpec.repJudge (evs.zip (run {} evs).2) = none :=
  rep_judge_ok evs hab hsl (sendBodies_eq evs ▸ hs)

/-- the statement of the original hand-over (with both distinctness hypotheses) follows -/
theorem rep_judge_accepts_model_orig (evs : List Ev) (hab : NoBadAbort evs) (hsl : SlotsFresh {} evs) :
    (sendBodies evs).Nodup → (arrivalBodies evs).Nodup →
    Nng.RepSpec.repJudge (evs.zip (run {} evs).2) = none :=
  fun hs _ => rep_judge_accepts_model evs hab hsl hs

instance (s : State) (e : Ev) : Decidable (slotFree s e) := by
  cases e <;> (unfold slotFree; infer_instance)

instance slotsFreshDec : ∀ (evs : List Ev) (s : State), Decidable (SlotsFresh s evs)
  | [], _ => isTrue trivial
  | e :: es, s =>
    have := slotsFreshDec es (step s e).1
    (inferInstance : Decidable (slotFree s e ∧ SlotsFresh (step s e).1 es))

instance (s : State) (evs : List Ev) : Decidable (SlotsFresh s evs) := slotsFreshDec evs s

instance (evs : List Ev) : Decidable (NoBadAbort evs) := by unfold NoBadAbort; infer_instance

/-- `abort aio 0` completes a parked receive "successfully" without a message: rejected by the specification -/
def cexAbort0 : List Ev := [.openSock "rep" false, .recv none 0 .inf, .abort 0 0]
theorem rep_judge_needs_no_abort0 :
    SlotsFresh {} cexAbort0 ∧ (sendBodies cexAbort0).Nodup ∧
    (Nng.RepSpec.repJudge (cexAbort0.zip (run {} cexAbort0).2)).isSome = true := by decide

/-- `abort aio NNG_ESTATE` makes a first receive fail with the code reserved for a second concurrent receive -/
def cexAbortEstate : List Ev := [.openSock "rep" false, .recv none 0 .inf, .abort 0 Err.estate]
theorem rep_judge_needs_no_abort_estate :
    SlotsFresh {} cexAbortEstate ∧ (sendBodies cexAbortEstate).Nodup ∧
    (Nng.RepSpec.repJudge (cexAbortEstate.zip (run {} cexAbortEstate).2)).isSome = true := by decide

/-- re-opening an occupied harness slot orphans a context whose pending receive the judge then attributes
    to the new context of that slot -/
def cexReopen : List Ev :=
  [.openSock "rep" false, .ctxOpen 0, .recv (some 0) 0 .inf, .ctxOpen 0, .recv (some 0) 1 .inf]
theorem rep_judge_needs_fresh_slots :
    NoBadAbort cexReopen ∧ (sendBodies cexReopen).Nodup ∧
    (Nng.RepSpec.repJudge (cexReopen.zip (run {} cexReopen).2)).isSome = true := by decide

/-- two replies with the same body look like one reply put on the wire twice -/
def cexSameBody : List Ev :=
  [.openSock "rep" false, .pipeAdd 48,
   .recvDone 0 (.ok [0x80, 0, 0, 1, 0xa1]), .recv none 0 .nb, .send none 1 ⟨[], [0xbb]⟩ .nb, .sendDone 0 0,
   .recvDone 0 (.ok [0x80, 0, 0, 2, 0xa2]), .recv none 2 .nb, .send none 3 ⟨[], [0xbb]⟩ .nb]
theorem rep_judge_needs_distinct_bodies :
    NoBadAbort cexSameBody ∧ SlotsFresh {} cexSameBody ∧
    (Nng.RepSpec.repJudge (cexSameBody.zip (run {} cexSameBody).2)).isSome = true := by decide

/-! ### non-vacuity -/

/-- a concrete history: request with one hop arrives, a context receives and answers it -/
def demo : List Ev :=
  [.openSock "rep" false, .ctxOpen 0, .pipeAdd 48,
   .recvDone 0 (.ok [0, 0, 0, 7, 0x80, 0, 0, 1, 0xaa]), .recv (some 0) 0 .nb,
   .send (some 0) 1 ⟨[], [0xbb]⟩ .nb]

example : (reach demo).wire.map (fun w => (w.pipe, w.hdr, w.body)) = [(0, [0, 0, 0, 7, 0x80, 0, 0, 1], [0xbb])] := by decide
example : (reach demo).closed = false := by decide
example : Nng.RepSpec.repJudge (demo.zip (run {} demo).2) = none := by decide
/-- the hypotheses of `rep_judge_accepts_model` hold for `demo` ... -/
example : NoBadAbort demo ∧ SlotsFresh {} demo ∧ (sendBodies demo).Nodup := by decide

/-- ... and for a longer history: two contexts, a reply queued behind a send in flight, a parked receive that is
    cancelled, a harmless abort, poll, context close, pipe drop, socket close -/
def demo2 : List Ev :=
  [.openSock "rep" false, .ctxOpen 0, .ctxOpen 1, .pipeAdd 48,
   .recvDone 0 (.ok [0x80, 0, 0, 1, 0xa1]), .recv (some 0) 0 .nb,
   .recvDone 0 (.ok [0, 0, 0, 7, 0x80, 0, 0, 2, 0xa2]), .recv (some 1) 1 .nb,
   .send (some 0) 2 ⟨[], [0xb1]⟩ .nb, .send (some 1) 3 ⟨[], [0xb2]⟩ .inf, .sendDone 0 0,
   .recv none 4 .inf, .cancel 4, .abort 9 Err.etimedout, .poll, .ctxClose 0, .pipeDrop 0, .close]
example : NoBadAbort demo2 ∧ SlotsFresh {} demo2 ∧ (sendBodies demo2).Nodup := by decide
example : (reach demo2).wire.map (fun w => (w.pipe, w.body)) = [(0, [0xb1]), (0, [0xb2])] := by decide
example : Nng.RepSpec.repJudge (demo2.zip (run {} demo2).2) = none :=
  rep_judge_accepts_model demo2 (by decide) (by decide) (by decide)
example : parseBacktrace 8 [0, 0, 0, 7, 0x80, 0, 0, 1, 0xaa] = .ok [0, 0, 0, 7, 0x80, 0, 0, 1] [0xaa] := by decide
example : parseBacktrace 1 [0, 0, 0, 7, 0x80, 0, 0, 1, 0xaa] = .drop := by decide
example : parseBacktrace 8 [0, 0, 0, 7, 0x80, 0] = .malformed := by decide

end Nng.C04Rep

