/-
  Shared vocabulary of the protocol models (SIM executor): the events the harness can
  apply to one socket under test, and the observable outputs.  One `Ev` per input
  line of harness/s_proto.c, one `Out` per event string it prints.
-/
import NngModel.Base.Bytes
namespace Nng.Proto
open Nng

/-- how an operation is submitted: NNG_FLAG_NONBLOCK call, no timeout, default
    (socket option) timeout, or an aio timeout in ms -/
inductive Mode | nb | inf | dflt | ms (n : Nat)
deriving Repr, DecidableEq, Inhabited

structure WMsg where
  hdr : Bytes
  body : Bytes
deriving Repr, DecidableEq, Inhabited

inductive Ev
  | openSock (proto : String) (raw : Bool)
  | pipeAdd (peer : Nat)
  | pipeDrop (p : Nat)
  | recvDone (p : Nat) (r : Except Nat Bytes)
  | sendDone (p : Nat) (rv : Nat)
  | send (ctx : Option Nat) (a : Nat) (m : WMsg) (mode : Mode)
  | recv (ctx : Option Nat) (a : Nat) (mode : Mode)
  | cancel (a : Nat)
  | abort (a : Nat) (rv : Nat)
  | advance (ms : Nat)
  | ctxOpen (c : Nat) | ctxClose (c : Nat)
  | setopt (ctx : Option Nat) (name : String) (ty : String) (val : Int)
  | getopt (ctx : Option Nat) (name : String) (ty : String)
  | poll
  | sub (ctx : Option Nat) (topic : Bytes) | unsub (ctx : Option Nat) (topic : Bytes)
  | close
deriving Repr, Inhabited

inductive Out
  | rv (n : Int)
  | rv2 (n : Int) (v : Int)
  | pipe (p : Int)
  | done (a : Nat) (rv : Nat) (msg : Option WMsg) (msgback : Bool)
  | psend (p : Nat) (m : WMsg)
  | parm (p : Nat)
  | pclosed (p : Nat)
  | poll (r w : Option Bool)
  | blocked (ms : Nat)
  | other (s : String)
deriving Repr, DecidableEq, Inhabited

def parseMode (s : String) : Option Mode :=
  if s == "nb" then some .nb else if s == "inf" then some .inf else if s == "def" then some .dflt
  else s.toNat?.map .ms

def parseCtx (s : String) : Option (Option Nat) :=
  if s == "-" then some none else s.toNat?.map some

def parseEv (ws : List String) : Option Ev :=
  match ws with
  | ["open", p] => some (.openSock p false)
  | ["open", p, "raw"] => some (.openSock p true)
  | ["pipe_add", peer] =>
    (peer.toList.foldlM (fun acc c => (hexVal c).map (acc * 16 + ·)) 0).map .pipeAdd
  | ["pipe_drop", p] => p.toNat?.map .pipeDrop
  | ["recv_done", p, d] => do
    let p ← p.toNat?
    if d.startsWith "!" then
      let e ← (d.drop 1).toString.toNat?
      pure (.recvDone p (.error e))
    else
      let b ← parseHex d
      pure (.recvDone p (.ok b))
  | ["send_done", p, rv] => do pure (.sendDone (← p.toNat?) (← rv.toNat?))
  | ["send", c, a, h, b, m] => do
    pure (.send (← parseCtx c) (← a.toNat?) ⟨← parseHex h, ← parseHex b⟩ (← parseMode m))
  | ["recv", c, a, m] => do pure (.recv (← parseCtx c) (← a.toNat?) (← parseMode m))
  | ["cancel", a] => a.toNat?.map .cancel
  | ["abort", a, rv] => do pure (.abort (← a.toNat?) (← rv.toNat?))
  | ["advance", ms] => ms.toNat?.map .advance
  | ["ctx_open", c] => c.toNat?.map .ctxOpen
  | ["ctx_close", c] => c.toNat?.map .ctxClose
  | ["setopt", c, n, t, v] => do pure (.setopt (← parseCtx c) n t (← v.toInt?))
  | ["getopt", c, n, t] => do pure (.getopt (← parseCtx c) n t)
  | ["poll"] => some .poll
  | ["sub", c, t] => do pure (.sub (← parseCtx c) (← parseHex t))
  | ["unsub", c, t] => do pure (.unsub (← parseCtx c) (← parseHex t))
  | ["close"] => some .close
  | _ => none

def showPollBit : Option Bool → String
  | none => "-" | some true => "1" | some false => "0"

def showOut : Out → String
  | .rv n => s!"rv {n}"
  | .rv2 n v => s!"rv {n} {v}"
  | .pipe p => s!"pipe {p}"
  | .done a rv (some m) _ => s!"done {a} {rv} {toHex m.hdr} {toHex m.body}"
  | .done a rv none true => s!"done {a} {rv} msgback"
  | .done a rv none false => s!"done {a} {rv}"
  | .psend p m => s!"psend {p} {toHex m.hdr} {toHex m.body}"
  | .parm p => s!"parm {p}"
  | .pclosed p => s!"pclosed {p}"
  | .poll r w => s!"poll {showPollBit r} {showPollBit w}"
  | .blocked ms => s!"BLOCKED {ms}"
  | .other s => s

def showOuts (os : List Out) : String :=
  if os.isEmpty then "-" else " ; ".intercalate (os.map showOut)

def parsePollBit (s : String) : Option (Option Bool) :=
  if s == "-" then some none else if s == "1" then some (some true) else if s == "0" then some (some false) else none

/-- inverse of `showOut` on one event string (used by the judges, which read the
    implementation's output) -/
def parseOut (ws : List String) : Out :=
  match ws with
  | ["rv", n] => match n.toInt? with | some n => .rv n | none => .other (" ".intercalate ws)
  | ["rv", n, v] => match n.toInt?, v.toInt? with | some n, some v => .rv2 n v | _, _ => .other (" ".intercalate ws)
  | ["pipe", p] => match p.toInt? with | some p => .pipe p | none => .other (" ".intercalate ws)
  | ["done", a, rv, "msgback"] =>
    match a.toNat?, rv.toNat? with | some a, some rv => .done a rv none true | _, _ => .other (" ".intercalate ws)
  | ["done", a, rv] =>
    match a.toNat?, rv.toNat? with | some a, some rv => .done a rv none false | _, _ => .other (" ".intercalate ws)
  | ["done", a, rv, h, b] =>
    match a.toNat?, rv.toNat?, parseHex h, parseHex b with
    | some a, some rv, some h, some b => .done a rv (some ⟨h, b⟩) false
    | _, _, _, _ => .other (" ".intercalate ws)
  | ["psend", p, h, b] =>
    match p.toNat?, parseHex h, parseHex b with
    | some p, some h, some b => .psend p ⟨h, b⟩ | _, _, _ => .other (" ".intercalate ws)
  | ["parm", p] => match p.toNat? with | some p => .parm p | none => .other (" ".intercalate ws)
  | ["pclosed", p] => match p.toNat? with | some p => .pclosed p | none => .other (" ".intercalate ws)
  | ["poll", r, w] =>
    match parsePollBit r, parsePollBit w with | some r, some w => .poll r w | _, _ => .other (" ".intercalate ws)
  | ["BLOCKED", ms] => match ms.toNat? with | some ms => .blocked ms | none => .other (" ".intercalate ws)
  | _ => .other (" ".intercalate ws)

def parseOuts (s : String) : List Out :=
  if s.trimAscii.toString == "-" then []
  else (s.splitOn " ; ").map fun e => parseOut ((e.trimAscii.toString.splitOn " ").filter (· ≠ ""))

/-- sockets' protocol numbers: NNI_PROTO(major, minor) = major*16 + minor -/
def protoId (major minor : Nat) : Nat := major * 16 + minor

end Nng.Proto
