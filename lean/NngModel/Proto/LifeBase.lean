/-
  Vocabulary of the lifecycle scenarios (C14, C10; harness/s_life.c): one `LOp` per
  input line, one `LOut` per event string the harness prints.  Shared by the model
  (Model/Life.lean) and the judges (Spec/Life.lean).
-/
namespace Nng.Life

/-- pipe notification kinds, in the order of nng_pipe_ev -/
inductive PEv | pre | post | rem
deriving Repr, DecidableEq, Inhabited

def PEv.rank : PEv → Nat
  | .pre => 1 | .post => 2 | .rem => 3

/-- target of a send / receive: a socket or a context -/
inductive Tgt | sock (s : Nat) | ctx (c : Nat)
deriving Repr, DecidableEq, Inhabited

inductive LOp
  | openSock (s : Nat) (proto : String)
  | notify (s mask : Nat) (closeInPre : Bool)
  | setoptSock (s : Nat) (name : String) (v : Int)
  | setoptEp (e : Nat) (name : String) (v : Int)
  | dial (s : Nat) (nonblock : Bool)
  | listen (s : Nat)
  | connDone (e : Nat) (r : Except Nat Nat)     -- error code, or the peer's protocol number
  | pipeClose (p : Nat)
  | pipeDrop (p : Nat)
  | dialerClose (e : Nat)
  | listenerClose (e : Nat)
  | ctxOpen (s c : Nat)
  | ctxClose (c : Nat)
  | send (t : Tgt) (a : Nat)
  | recv (t : Tgt) (a : Nat)
  | advance (ms : Nat)
  | close (s : Nat)
  | close2 (s : Nat)
  | race (off len : Nat) (a b : LOp)           -- a on the second harness thread, b on the main one
  | probe
deriving Repr, Inhabited

/-- handle kinds in probe results -/
inductive HKind | sock | ctx | ep | pipe
deriving Repr, DecidableEq, Inhabited

inductive LOut
  | rv (n : Int)
  | rvh (n : Int)                               -- result of the op run on the second thread
  | ep (e : Int) (rv : Int) (mn mx : Option Int)
  | dialrv (e : Nat) (rv : Nat)
  | pipe (p : Nat)
  | pev (p : Int) (k : PEv)
  | earm (e : Nat)
  | parm (p : Nat)
  | psend (p : Nat)
  | pclosed (p : Nat)
  | done (a : Nat) (rv : Nat)
  | probe (imm : Bool) (k : HKind) (i : Nat) (rvs : List Int)
  | unmodelled
  | other (s : String)
deriving Repr, DecidableEq, Inhabited

def hexNat (s : String) : Option Nat :=
  s.toList.foldlM (fun acc c =>
    let v := if '0' ≤ c ∧ c ≤ '9' then some (c.toNat - '0'.toNat)
      else if 'a' ≤ c ∧ c ≤ 'f' then some (c.toNat - 'a'.toNat + 10)
      else if 'A' ≤ c ∧ c ≤ 'F' then some (c.toNat - 'A'.toNat + 10) else none
    v.map (acc * 16 + ·)) 0

def parseTgt (s : String) : Option Tgt :=
  if s.startsWith "c" then (s.drop 1).toString.toNat?.map .ctx else s.toNat?.map .sock

def parseSimple (ws : List String) : Option LOp :=
  match ws with
  | ["open", s, p] => s.toNat?.map (.openSock · p)
  | ["notify", s, m] => do pure (.notify (← s.toNat?) (← m.toNat?) false)
  | ["notify", s, m, "close_in_pre"] => do pure (.notify (← s.toNat?) (← m.toNat?) true)
  | ["setopt_sock", s, n, v] => do pure (.setoptSock (← s.toNat?) n (← v.toInt?))
  | ["setopt_ep", e, n, v] => do pure (.setoptEp (← e.toNat?) n (← v.toInt?))
  | ["dial", s, nb] => do pure (.dial (← s.toNat?) ((← nb.toNat?) != 0))
  | ["listen", s] => s.toNat?.map .listen
  | ["conn_done", e, r] => do
    let e ← e.toNat?
    if r.startsWith "!" then pure (.connDone e (.error (← (r.drop 1).toString.toNat?)))
    else pure (.connDone e (.ok (← hexNat r)))
  | ["pipe_close", p] => p.toNat?.map .pipeClose
  | ["pipe_drop", p] => p.toNat?.map .pipeDrop
  | ["dialer_close", e] => e.toNat?.map .dialerClose
  | ["listener_close", e] => e.toNat?.map .listenerClose
  | ["ctx_open", s, c] => do pure (.ctxOpen (← s.toNat?) (← c.toNat?))
  | ["ctx_close", c] => c.toNat?.map .ctxClose
  | ["send", t, a] => do pure (.send (← parseTgt t) (← a.toNat?))
  | ["recv", t, a] => do pure (.recv (← parseTgt t) (← a.toNat?))
  | ["advance", ms] => ms.toNat?.map .advance
  | ["close", s] => s.toNat?.map .close
  | ["close2", s] => s.toNat?.map .close2
  | ["probe"] => some .probe
  | _ => none

def parseOp (ws : List String) : Option LOp :=
  match ws with
  | "race" :: off :: len :: rest =>
    let (a, b) := rest.span (· ≠ "|")
    do pure (.race (← off.toNat?) (← len.toNat?) (← parseSimple a) (← parseSimple (b.drop 1)))
  | _ => parseSimple ws

def showPEv : PEv → String
  | .pre => "PRE" | .post => "POST" | .rem => "REM"

def showKind : HKind → String
  | .sock => "s" | .ctx => "c" | .ep => "e" | .pipe => "p"

def showOptInt : Option Int → String
  | some v => s!" {v}" | none => ""

def showOut : LOut → String
  | .rv n => s!"rv {n}"
  | .rvh n => s!"rvh {n}"
  | .ep e rv mn mx => s!"ep {e} {rv}{showOptInt mn}{showOptInt mx}"
  | .dialrv e rv => s!"dialrv {e} {rv}"
  | .pipe p => s!"pipe {p}"
  | .pev p k => s!"pev {p} {showPEv k}"
  | .earm e => s!"earm {e}"
  | .parm p => s!"parm {p}"
  | .psend p => s!"psend {p}"
  | .pclosed p => s!"pclosed {p}"
  | .done a rv => s!"done {a} {rv}"
  | .probe imm k i rvs =>
    (if imm then "iprobe " else "probe ") ++ showKind k ++ toString i ++
      String.join (rvs.map fun r => s!" {r}")
  | .unmodelled => "UNMODELLED"
  | .other s => s

def showOuts (os : List LOut) : String :=
  if os.isEmpty then "-" else " ; ".intercalate (os.map showOut)

def parseKind (c : Char) : Option HKind :=
  if c == 's' then some .sock else if c == 'c' then some .ctx
  else if c == 'e' then some .ep else if c == 'p' then some .pipe else none

def parseProbe (imm : Bool) (h : String) (rvs : List String) : Option LOut := do
  let k ← parseKind (h.toList.headD ' ')
  let i ← (h.drop 1).toString.toNat?
  let rs ← rvs.mapM (·.toInt?)
  pure (.probe imm k i rs)

def parseOut (ws : List String) : LOut :=
  let bad := LOut.other (" ".intercalate ws)
  match ws with
  | ["rv", n] => (n.toInt?.map LOut.rv).getD bad
  | ["rvh", n] => (n.toInt?.map LOut.rvh).getD bad
  | ["ep", e, rv] => (do pure (LOut.ep (← e.toInt?) (← rv.toInt?) none none)).getD bad
  | ["ep", e, rv, mn, mx] =>
    (do pure (LOut.ep (← e.toInt?) (← rv.toInt?) (some (← mn.toInt?)) (some (← mx.toInt?)))).getD bad
  | ["dialrv", e, rv] => (do pure (LOut.dialrv (← e.toNat?) (← rv.toNat?))).getD bad
  | ["pipe", p] => (p.toNat?.map LOut.pipe).getD bad
  | ["pev", p, k] =>
    (do
      let p ← p.toInt?
      let k ← if k == "PRE" then some PEv.pre else if k == "POST" then some PEv.post
               else if k == "REM" then some PEv.rem else none
      pure (LOut.pev p k)).getD bad
  | ["earm", e] => (e.toNat?.map LOut.earm).getD bad
  | ["parm", p] => (p.toNat?.map LOut.parm).getD bad
  | "psend" :: p :: _ => (p.toNat?.map LOut.psend).getD bad
  | ["pclosed", p] => (p.toNat?.map LOut.pclosed).getD bad
  | ["done", a, rv] => (do pure (LOut.done (← a.toNat?) (← rv.toNat?))).getD bad
  | "probe" :: h :: rvs => (parseProbe false h rvs).getD bad
  | "iprobe" :: h :: rvs => (parseProbe true h rvs).getD bad
  | ["UNMODELLED"] => .unmodelled
  | _ => bad

def parseOuts (s : String) : List LOut :=
  if s.trimAscii.toString == "-" then []
  else (s.splitOn " ; ").map fun e => parseOut ((e.trimAscii.toString.splitOn " ").filter (· ≠ ""))

/-- NNG error numbers used by the model and judges (checked against nng.h by extract_c14) -/
def ECLOSED : Nat := 7
def ENOENT : Nat := 12

end Nng.Life
