/-
  SURVEYOR judge accepts the model, part F: the socket is closed, and the steps of a closed socket.
-/
import NngModel.Proofs.SurvJudgeE
namespace Nng.SurvProofs
open Nng Nng.Proto Nng.Survey Nng.SurveySpec Nng.SurvJudge

/-- what is left to say once the socket is closed: no error, nothing pending -/
structure Rc (j : SurvJ) : Prop where
  err : j.err = none
  pend : j.pend = []

theorem postB_Rc {j : SurvJ} {ev : Ev} {outs : List Out} (herr : j.err = none) (hp : j.pend = [])
    (hb : hasBlocked outs = false) (hpc : pollClause j.lastPoll ev outs = none) : Rc (survPostB ev outs j) := by
  unfold survPostB
  simp only [hb, Bool.false_eq_true, if_false, hpc]
  have hp' : SurvJ.pend { j with lastPoll := pollOf ev outs } = [] := hp
  rw [survQuiescent_ok (by intro pr hpr; rw [hp'] at hpr; cases hpr) (by intro pr hpr; rw [hp'] at hpr; cases hpr)
    (by intro pr hpr; rw [hp'] at hpr; cases hpr)]
  exact ⟨herr, by show List.map _ j.pend = []; rw [hp]; rfl⟩

theorem Rc_advance {j : SurvJ} (h : Rc j) (ms : Nat) : Rc (survStep j (.advance ms) []) := by
  rw [survStep_eq h.err (by rfl)]
  exact postB_Rc (j := { j with now := j.now + ms }) h.err h.pend (by rfl)
    (pollClause_other (by intro a h; cases h) (by intro a m h; cases h))

theorem Rc_refused {j : SurvJ} (h : Rc j) (ev : Ev) (msg : String) : Rc (survStep j ev [.other msg]) := by
  rw [survStep_refused rfl]; exact h

theorem foldl_closePipe_inert (ps : List Pipe) (acc : State × List Out) (h : ∀ o ∈ acc.2, inertB o = true) :
    ∀ o ∈ (ps.foldl (fun (acc : State × List Out) pp =>
      ((closePipe acc.1 pp.id).1, acc.2 ++ (closePipe acc.1 pp.id).2)) acc).2, inertB o = true := by
  induction ps generalizing acc with
  | nil => exact h
  | cons pp rest ih =>
    simp only [List.foldl_cons]
    apply ih
    intro o ho
    rcases List.mem_append.mp ho with ho | ho
    · exact h o ho
    · exact closePipe_outs_inert acc.1 pp.id o ho

theorem closeAll_outs (s : State) :
    ∃ X, (closeAll s).2 = (s.ctxs.flatMap fun c => (abortCtx c Err.eclosed).2) ++ X ∧ ∀ o ∈ X, inertB o = true := by
  unfold closeAll
  simp only
  exact ⟨_, rfl, foldl_closePipe_inert s.pipes _ (by simp)⟩

theorem close_sim {s : State} {j : SurvJ} (hR : R s j) (hm : MInv s) : Rc (survStep j .close (closeAll s).2) := by
  have h := hR.r0
  obtain ⟨X, hX, hXi⟩ := closeAll_outs s
  rw [hX]
  have hL := selL_nodup hm.x (fun _ => true)
  generalize hLdef : selL s (fun _ => true) = L at hL
  have hD : (s.ctxs.flatMap fun c => (abortCtx c Err.eclosed).2) = L.map fun a => Out.done a Err.eclosed none false := by
    rw [← hLdef]
    unfold selL
    rw [List.map_flatMap]
    apply flatMap_congr_mem
    intro c _
    rw [abortCtx_outs]
    have : c.rq.filter (fun _ => true) = c.rq := List.filter_eq_self.mpr (fun _ _ => rfl)
    rw [this]
  rw [hD]
  have hall : ∀ o ∈ L.map (fun a => Out.done a Err.eclosed none false) ++ X, inertB o = true ∨ doneP o = true := by
    intro o ho
    rcases List.mem_append.mp ho with ho | ho
    · simp only [List.mem_map] at ho
      obtain ⟨a, _, rfl⟩ := ho
      exact Or.inr rfl
    · exact Or.inl (hXi o ho)
  have hres : FailRes .close { j with closed := true }
      (L.foldl (fun j a => survOut .close none j (.done a Err.eclosed none false)) { j with closed := true }) L := by
    apply failBatch .close none Err.eclosed (by decide) L { j with closed := true } h.err hL h.p1
    · intro a ha
      rw [← hLdef] at ha
      exact ⟨by simp, selL_pend h hm.x ha⟩
    · intro pr _ _
      right
      exact ⟨by decide, by decide, fun e => by cases e⟩
  generalize hj' : L.foldl (fun j a => survOut .close none j (.done a Err.eclosed none false)) { j with closed := true } = j' at hres
  have hpend : j'.pend = [] := by
    rw [hres.pend, List.filter_eq_nil_iff]
    intro pr hpr
    have hpr' : pr ∈ j.pend := hpr
    obtain ⟨_, c, hc, pk, hpk, hpa, _⟩ := h.p2 pr hpr'
    have : pk.aio ∈ selL s (fun _ => true) := (mem_selL hm.x (m_getCtx_mem hc) hpk).mpr rfl
    rw [hLdef, hpa] at this
    simpa using this
  rw [survStep_eq h.err (notExecuted_of hall)]
  have hproc : survPostA .close (L.map (fun a => Out.done a Err.eclosed none false) ++ X)
      (survProc .close (survPre j .close (L.map (fun a => Out.done a Err.eclosed none false) ++ X)).2
        (L.map (fun a => Out.done a Err.eclosed none false) ++ X)
        (survPre j .close (L.map (fun a => Out.done a Err.eclosed none false) ++ X)).1) = j' := by
    show survPostA .close _ (survProc .close none _ { j with closed := true }) = _
    have := proc_dones (ev := .close) (by intro _ _ _ _ h; cases h) none [] (L.map fun a => Out.done a Err.eclosed none false) X
      (by simp) (by intro o ho; simp only [List.mem_map] at ho; obtain ⟨a, _, rfl⟩ := ho; rfl) hXi { j with closed := true }
    simp only [List.nil_append] at this
    rw [this, List.foldl_map, hj']
    simp only [survPostA, hpend, List.head?_nil]
  rw [hproc]
  exact postB_Rc hres.err hpend (hasBlocked_of hall) (pollClause_other (by intro a h; cases h) (by intro a m h; cases h))

end Nng.SurvProofs
