/-
  SURVEYOR judge accepts the model, part I: a survey is sent (`surv0_ctx_send`): the parked receives of the
  context are cancelled, a fresh id is allocated, the survey goes to every idle pipe.
-/
import NngModel.Proofs.SurvJudgeH
namespace Nng.SurvProofs
open Nng Nng.Proto Nng.Survey Nng.SurveySpec Nng.SurvJudge

/-! ### the judge on a send step -/

theorem survProc_send (k : Option Nat) (a : Nat) (m : WMsg) (md : Mode) (sa : Option Nat) (outs : List Out) (j : SurvJ) :
    survProc (.send k a m md) sa outs j =
      (outs.filter doneP).foldl (survOut (.send k a m md) sa) ((outs.filter restP).foldl (survOut (.send k a m md) sa) j) := rfl

def isPsendOf (wm : WMsg) (o : Out) : Prop := ∃ p, o = .psend p wm

theorem sendToPipe_outs (wm : WMsg) (pp : Pipe) : ∀ o ∈ (sendToPipe wm pp).2, isPsendOf wm o := by
  unfold sendToPipe
  split
  · simp
  · split
    · intro o ho; simp only [List.mem_singleton] at ho; exact ⟨pp.id, ho⟩
    · split <;> simp

theorem sendToPipe_sendQ (wm : WMsg) (pp : Pipe) : ∀ x ∈ (sendToPipe wm pp).1.sendQ, x ∈ pp.sendQ ∨ x = wm := by
  unfold sendToPipe
  split
  · intro x hx; exact Or.inl hx
  · split
    · intro x hx; exact Or.inl hx
    · split
      · intro x hx
        simp only [List.mem_append, List.mem_singleton] at hx
        exact hx
      · intro x hx; exact Or.inl hx

theorem psend_props {wm : WMsg} {o : Out} (h : isPsendOf wm o) : doneP o = false ∧ restP o = true := by
  obtain ⟨p, rfl⟩ := h; exact ⟨rfl, rfl⟩

/-- one survey seen on several wires: the judge learns its id at most once -/
theorem wire_fold {issued : List Nat} (hnd : issued.Nodup) (hb : ∀ i ∈ issued, 2147483648 ≤ i ∧ i < 4294967296)
    (ev : Ev) (sa : Option Nat) (wm : WMsg) (id : Nat) (hh : wm.hdr = enc id) :
    ∀ (l : List Out), (∀ o ∈ l, isPsendOf wm o) → ∀ (j : SurvJ), SentVal j.sent issued → (j.sent.map (·.1)).Nodup →
      lookupId j.sent issued wm.body = some id →
      ∃ S', SentStep issued j.sent S' ∧ l.foldl (survOut ev sa) j = { j with sent := S' } := by
  intro l
  induction l with
  | nil => intro _ j hv _ _; exact ⟨j.sent, sentStep_refl hv, rfl⟩
  | cons o t ih =>
    intro ho j hv hn hl
    obtain ⟨p, rfl⟩ := ho o (by simp)
    simp only [List.foldl_cons, survOut_psend]
    have hany := lookupId_any hl
    have hbi := hb id (lookupId_mem hl)
    -- the first wire
    have h1 : ∃ S1, SentStep issued j.sent S1 ∧ survWire j p wm = { j with sent := S1 } := by
      rcases idOfL_of_lookup hv hl with ho1 | ho1
      · refine ⟨bindL j.sent wm.body wm.hdr, sentStep_bind hv hn hl (by rw [hh]), ?_⟩
        rw [survWire_bind hany (by rw [idOf_eq]; exact ho1) (by rw [hh]; exact validId_enc hbi.1 hbi.2)
          (knownId_false (by rw [hh]; exact not_known_of_unbound hv hnd (fun i hi => (hb i hi).2) hl ho1))]
        rfl
      · refine ⟨j.sent, sentStep_refl hv, ?_⟩
        rw [survWire_known hany (by rw [idOf_eq, hh]; exact ho1)]
    obtain ⟨S1, hS1, hw⟩ := h1
    rw [hw]
    obtain ⟨f1, f2, f3⟩ := sentStep_facts hS1
    obtain ⟨S2, hS2, hf⟩ := ih (fun o ho' => ho o (List.mem_cons_of_mem _ ho')) { j with sent := S1 } f1
      (by show (S1.map (·.1)).Nodup; rw [f2]; exact hn) (by show lookupId S1 issued wm.body = some id; rw [f3]; exact hl)
    exact ⟨S2, sentStep_trans hS1 hS2, hf⟩

/-! ### `doneOf` on the outputs of a send -/

theorem doneOf_append (l1 l2 : List Out) (a : Nat) : doneOf (l1 ++ l2) a = (doneOf l1 a).or (doneOf l2 a) := by
  unfold doneOf
  rw [List.findSome?_append]

theorem doneOf_none_of {l : List Out} {a : Nat} (h : ∀ o ∈ l, ∀ rv m b, o ≠ .done a rv m b) : doneOf l a = none := by
  unfold doneOf
  rw [List.findSome?_eq_none_iff]
  intro o ho
  cases o with
  | done a' rv m b =>
    simp only
    by_cases he : (a' == a) = true
    · exact absurd (by rw [beq_iff_eq.mp he]) (h _ ho rv m b)
    · simp [he]
  | _ => rfl

theorem doneOf_cancelled {L : List Nat} {a : Nat} (rv : Nat) (h : a ∈ L) :
    doneOf (L.map fun x => Out.done x rv none false) a = some (rv, none) := by
  induction L with
  | nil => cases h
  | cons x t ih =>
    unfold doneOf
    simp only [List.map_cons, List.findSome?_cons]
    by_cases he : (x == a) = true
    · simp [he]
    · simp only [he, Bool.false_eq_true, if_false]
      rcases List.mem_cons.mp h with e | ht
      · exact absurd (by simp [e]) he
      · exact ih ht

/-! ### the event part of a send -/

theorem pre_send_fail {j : SurvJ} {k : Option Nat} {a : Nat} {m : WMsg} {md : Mode} {outs : List Out} {rv : Nat}
    {x : Option WMsg} (hd : doneOf outs a = some (rv, x)) (h : rv ≠ 0 ∨ j.getCtx k = none) :
    survPre j (.send k a m md) outs = (j, some a) := by
  rcases h with h | h
  · obtain ⟨n, rfl⟩ : ∃ n, rv = n + 1 := ⟨rv - 1, by omega⟩
    cases md <;> simp [survPre, hd]
  · cases rv <;> cases md <;> simp [survPre, hd, h]

theorem pre_send_ok {j : SurvJ} {k : Option Nat} {a : Nat} {m : WMsg} {md : Mode} {outs : List Out}
    {x : Option WMsg} {cj : CtxJ} (hd : doneOf outs a = some (0, x)) (hcj : j.getCtx k = some cj)
    (hcanc : ∀ pr ∈ j.pend, pr.ctx = k → doneOf outs pr.aio = some (Err.ecanceled, none))
    (hbody : j.sent.any (·.1 == m.body) = false) :
    survPre j (.send k a m md) outs =
      (SurvJ.setCtx { j with sent := j.sent ++ [(m.body, none)] }
        { cj with survey := some ({ body := m.body, deadline := (j.now : Int) + cj.surveyTime, startSeq := j.nseq } : SurveyJ) },
       some a) := by
  have hf : j.pend.find? (fun pr => pr.ctx == k && doneOf outs pr.aio != some (Err.ecanceled, none)) = none := by
    rw [List.find?_eq_none]
    intro pr hpr hp
    simp only [Bool.and_eq_true, beq_iff_eq, bne_iff_ne, ne_eq] at hp
    exact hp.2 (hcanc pr hpr hp.1)
  cases md <;> simp [survPre, hd, hcj, hf, hbody]

/-! ### send on a context that does not exist -/

theorem pollClause_send {lp : Option (Option Bool × Option Bool)} {k : Option Nat} {a : Nat} {m : WMsg} {md : Mode}
    {outs : List Out} (h : ∀ r w, lp = some (r, w) → w ≠ some false) : pollClause lp (.send k a m md) outs = none := by
  cases lp with
  | none => simp [pollClause]
  | some x =>
    obtain ⟨r, w⟩ := x
    have hw := h r w rfl
    cases k with
    | some _ => simp [pollClause]
    | none =>
      cases md with
      | nb =>
        cases w with
        | none => simp [pollClause]
        | some wb =>
          cases wb with
          | true => simp [pollClause]
          | false => exact absurd rfl hw
      | _ => simp [pollClause]

theorem lp_writable {s : State} {j : SurvJ} (hR : R s j) (hm : MInv s) (ho : s.opened = true) :
    ∀ r w, j.lastPoll = some (r, w) → w ≠ some false := by
  intro r w hlp
  rcases hR.lp with e | e
  · rw [e] at hlp; cases hlp
  · rw [e] at hlp
    simp only [Option.some.injEq, Prod.mk.injEq] at hlp
    rw [← hlp.2, hm.x.w ho]
    intro h; cases h

theorem send_closed_sim {s : State} {j : SurvJ} (hR : R s j) (hm : MInv s) (ho : s.opened = true) (k : Option Nat) (a : Nat)
    (m : WMsg) (md : Mode) (hc : getCtx s k = none) :
    R s (survStep j (.send k a m md) [.done a Err.eclosed none true]) := by
  have h := hR.r0
  have hj := R0_ctx_none h hc
  have hd : doneOf [Out.done a Err.eclosed none true] a = some (Err.eclosed, none) := by simp [doneOf]
  have hpre : survPre j (.send k a m md) [.done a Err.eclosed none true] = (j, some a) :=
    pre_send_fail hd (Or.inr hj)
  apply finish h.err (by rfl) (j2 := j) _ h hm (by rfl) (pollClause_send (lp_writable hR hm ho)) (Or.inl rfl)
  rw [hpre]
  show survPostA _ _ (survProc (.send k a m md) (some a) [.done a Err.eclosed none true] j) = j
  rw [survProc_send]
  show survOut _ (some a) j (.done a Err.eclosed none true) = j
  exact survOut_done_send _ _ _ _ _ _

end Nng.SurvProofs
