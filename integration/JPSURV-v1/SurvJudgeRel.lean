/-
  The simulation relation between the SURVEYOR model's state and the SURVEYOR judge's state
  (`R0` while a step's outputs are being judged, `R` between steps), lookups by context key on the
  model side, and the end-of-step part of the judge (`survPostB`: blocked / poll clause / quiescence).
-/
import NngModel.Proofs.SurvJudgeOut
import NngModel.Proofs.SurvJudgeInv
namespace Nng.SurvProofs
open Nng Nng.Proto Nng.Survey Nng.SurveySpec Nng.SurvJudge

/-! ### model: lookup by key -/

theorem m_getCtx_setCtx (s : State) (c : Ctx) (k : Option Nat) :
    getCtx (setCtx s c) k = if k = c.key then (getCtx s k).map (fun _ => c) else getCtx s k :=
  find_key_map (fun q : Ctx => q.key) s.ctxs c k

theorem m_getCtx_setCtx_k {s : State} {c : Ctx} {k0 : Option Nat} (hk : c.key = k0) (k : Option Nat) :
    getCtx (setCtx s c) k = if k = k0 then (getCtx s k).map (fun _ => c) else getCtx s k := by
  rw [m_getCtx_setCtx, hk]

theorem j_getCtx_setCtx_k {j : SurvJ} {c : CtxJ} {k0 : Option Nat} (hk : c.key = k0) (k : Option Nat) :
    (j.setCtx c).getCtx k = if k = k0 then (j.getCtx k).map (fun _ => c) else j.getCtx k := by
  rw [getCtx_setCtx, hk]

theorem m_getCtx_map (l : List Ctx) (f : Ctx → Ctx) (hf : ∀ c, (f c).key = c.key) (k : Option Nat) :
    (l.map f).find? (·.key == k) = (l.find? (·.key == k)).map f := by
  induction l with
  | nil => rfl
  | cons x t ih =>
    simp only [List.map_cons, List.find?_cons, hf]
    cases (x.key == k) <;> simp [ih]

theorem m_getCtx_filter (l : List Ctx) (k0 k : Option Nat) :
    (l.filter (·.key != k0)).find? (·.key == k) = if k = k0 then none else l.find? (·.key == k) :=
  find_key_filter_ne (fun q : Ctx => q.key) l k0 k

theorem m_getCtx_mem {s : State} {k : Option Nat} {c : Ctx} (h : getCtx s k = some c) : c ∈ s.ctxs :=
  List.mem_of_find?_eq_some h

theorem m_key {s : State} {k : Option Nat} {c : Ctx} (h : getCtx s k = some c) : c.key = k :=
  Nng.Survey.getCtx_key h

/-! ### the relation -/

/-- the expiry of a parked receive is what the judge computes for it -/
def DL (c : Ctx) (pr : PendRecv) (pk : Parked) : Prop :=
  match pr.own with
  | none => pk.deadline = c.expire
  | some o => pk.deadline = min o c.expire

/-- one context: model `c`, judge `cj` -/
structure CR (issued : List Nat) (sent : List (Bytes × Option Bytes)) (nseq : Nat) (arrivals : List Arrival)
    (c : Ctx) (cj : CtxJ) : Prop where
  st : cj.surveyTime = c.surveyTime
  nos : cj.survey = none → c.surveyId = 0 ∧ c.rq = []
  sv : ∀ sv, cj.survey = some sv → sv.deadline = c.expire ∧ (sv.dead = false ↔ c.surveyId ≠ 0) ∧
        lookupId sent issued sv.body = some c.lastId ∧ sv.startSeq ≤ nseq
  qa : ∀ sv, cj.survey = some sv → c.surveyId ≠ 0 → ∀ a ∈ arrivals, a.used = false → sv.startSeq ≤ a.seq →
        a.id = enc c.surveyId → ∃ gm ∈ c.recvQ, gm.gid = a.seq
  qb : ∀ sv, cj.survey = some sv → ∀ gm ∈ c.recvQ, ∃ a ∈ arrivals, a.seq = gm.gid ∧ a.used = false ∧
        sv.startSeq ≤ a.seq ∧ a.id = gm.m.hdr ∧ a.body = gm.m.body ∧ gm.m.hdr = enc c.surveyId
  qc : (c.recvQ.map (·.gid)).Pairwise (· < ·)

structure R0 (s : State) (j : SurvJ) : Prop where
  err : j.err = none
  now : j.now = s.now
  ncl : j.closed = false
  dom : ∀ k, (getCtx s k).isSome = (j.getCtx k).isSome
  ctx : ∀ k c cj, getCtx s k = some c → j.getCtx k = some cj → CR s.issued j.sent j.nseq j.arrivals c cj
  p1 : (j.pend.map (·.aio)).Nodup
  p2 : ∀ pr ∈ j.pend, pr.zero = false ∧ ∃ c, getCtx s pr.ctx = some c ∧ ∃ pk ∈ c.rq, pk.aio = pr.aio ∧ DL c pr pk
  p3 : ∀ k c, getCtx s k = some c → ∀ pk ∈ c.rq, ∃ pr ∈ j.pend, pr.aio = pk.aio ∧ pr.ctx = k
  sentV : SentVal j.sent s.issued
  sentN : (j.sent.map (·.1)).Nodup
  sq : ∀ pp ∈ s.pipes, ∀ m ∈ pp.sendQ, ∃ id, lookupId j.sent s.issued m.body = some id ∧ m.hdr = enc id
  arrS : j.arrivals.Pairwise (fun a b => a.seq < b.seq)
  arrB : ∀ a ∈ j.arrivals, a.seq < j.nseq
  nseq : j.nseq = s.narrive

structure R (s : State) (j : SurvJ) : Prop where
  r0 : R0 s j
  fresh : ∀ pr ∈ j.pend, pr.fresh = false
  lp : j.lastPoll = none ∨ j.lastPoll = some (some s.readable, some s.writable)

/-- all model invariants -/
structure MInv (s : State) : Prop where
  i : Inv s
  p : PInv s
  x : XInv s

theorem minv_init : MInv ({} : State) := ⟨inv_init, pinv_init, xinv_init⟩

theorem step_minv {s : State} (ev : Ev) (h : MInv s) (hok : StepOK s ev) : MInv (step s ev).1 :=
  ⟨step_inv s ev h.i, step_pinv s ev h.p h.i, step_xinv s ev h.x h.i hok⟩

theorem R_init : R ({} : State) ({} : SurvJ) := by
  refine ⟨⟨rfl, rfl, rfl, fun _ => rfl, ?_, by simp, ?_, ?_, trivial, by simp, ?_, by simp, ?_, rfl⟩, ?_, Or.inl rfl⟩
  · intro k c cj h; simp [getCtx] at h
  · intro pr h; cases h
  · intro k c h; simp [getCtx] at h
  · intro pp h; cases h
  · intro a h; cases h
  · intro pr h; cases h

/-! ### frames -/

/-- the model changed only its pipes (nothing new queued), pollables, ghost delivery list -/
theorem R0_frame {s s' : State} {j : SurvJ} (h : R0 s j) (hc : s'.ctxs = s.ctxs) (hn : s'.now = s.now)
    (hi : s'.issued = s.issued) (ha : s'.narrive = s.narrive)
    (hp : ∀ pp ∈ s'.pipes, ∀ m ∈ pp.sendQ, ∃ pp0 ∈ s.pipes, m ∈ pp0.sendQ) : R0 s' j := by
  have hg : ∀ k, getCtx s' k = getCtx s k := by intro k; unfold getCtx; rw [hc]
  refine ⟨h.err, by rw [hn]; exact h.now, h.ncl, ?_, ?_, h.p1, ?_, ?_, by rw [hi]; exact h.sentV, h.sentN, ?_,
    h.arrS, h.arrB, by rw [ha]; exact h.nseq⟩
  · intro k; rw [hg]; exact h.dom k
  · intro k c cj h1 h2; rw [hg] at h1; rw [hi]; exact h.ctx k c cj h1 h2
  · intro pr hpr; have := h.p2 pr hpr; rw [← hg] at this; exact this
  · intro k c h1; rw [hg] at h1; exact h.p3 k c h1
  · intro pp hpp m hm
    obtain ⟨pp0, hpp0, hm0⟩ := hp pp hpp m hm
    rw [hi]; exact h.sq pp0 hpp0 m hm0

/-- the same with the contexts given by their lookup function -/
theorem R0_ext {s s' : State} {j : SurvJ} (h : R0 s j) (hg : ∀ k, getCtx s' k = getCtx s k) (hn : s'.now = s.now)
    (hi : s'.issued = s.issued) (ha : s'.narrive = s.narrive)
    (hp : ∀ pp ∈ s'.pipes, ∀ m ∈ pp.sendQ, ∃ pp0 ∈ s.pipes, m ∈ pp0.sendQ) : R0 s' j := by
  refine ⟨h.err, by rw [hn]; exact h.now, h.ncl, ?_, ?_, h.p1, ?_, ?_, by rw [hi]; exact h.sentV, h.sentN, ?_,
    h.arrS, h.arrB, by rw [ha]; exact h.nseq⟩
  · intro k; rw [hg]; exact h.dom k
  · intro k c cj h1 h2; rw [hg] at h1; rw [hi]; exact h.ctx k c cj h1 h2
  · intro pr hpr; have := h.p2 pr hpr; rw [← hg] at this; exact this
  · intro k c h1; rw [hg] at h1; exact h.p3 k c h1
  · intro pp hpp m hm
    obtain ⟨pp0, hpp0, hm0⟩ := hp pp hpp m hm
    rw [hi]; exact h.sq pp0 hpp0 m hm0

/-- the judge changed only `lastPoll` / `opened` -/
theorem R0_jframe {s : State} {j j' : SurvJ} (h : R0 s j) (h1 : j'.err = j.err) (h2 : j'.now = j.now)
    (h3 : j'.closed = j.closed) (h4 : j'.ctxs = j.ctxs) (h5 : j'.pend = j.pend) (h6 : j'.sent = j.sent)
    (h7 : j'.arrivals = j.arrivals) (h8 : j'.nseq = j.nseq) : R0 s j' := by
  have hg : ∀ k, j'.getCtx k = j.getCtx k := by intro k; unfold SurvJ.getCtx; rw [h4]
  refine ⟨h1 ▸ h.err, h2 ▸ h.now, h3 ▸ h.ncl, ?_, ?_, h5 ▸ h.p1, ?_, ?_, h6 ▸ h.sentV, h6 ▸ h.sentN, ?_,
    h7 ▸ h.arrS, ?_, h8 ▸ h.nseq⟩
  · intro k; rw [hg]; exact h.dom k
  · intro k c cj g1 g2; rw [hg] at g2; rw [h6, h7, h8]; exact h.ctx k c cj g1 g2
  · intro pr hpr; rw [h5] at hpr; exact h.p2 pr hpr
  · intro k c g1 pk hpk; rw [h5]; exact h.p3 k c g1 pk hpk
  · intro pp hpp m hm; rw [h6]; exact h.sq pp hpp m hm
  · intro a ha; rw [h7] at ha; rw [h8]; exact h.arrB a ha

/-! ### what `R0` says about a pending receive -/

theorem R0_ctx_some {s : State} {j : SurvJ} (h : R0 s j) {k : Option Nat} {c : Ctx} (hc : getCtx s k = some c) :
    ∃ cj, j.getCtx k = some cj ∧ CR s.issued j.sent j.nseq j.arrivals c cj := by
  have := h.dom k
  rw [hc] at this
  cases hj : j.getCtx k with
  | none => rw [hj] at this; cases this
  | some cj => exact ⟨cj, rfl, h.ctx k c cj hc hj⟩

theorem R0_ctx_none {s : State} {j : SurvJ} (h : R0 s j) {k : Option Nat} (hc : getCtx s k = none) :
    j.getCtx k = none := by
  have := h.dom k
  rw [hc] at this
  cases hj : j.getCtx k with
  | none => rfl
  | some cj => rw [hj] at this; cases this

/-- a context with a parked receive has a survey in the judge's eyes -/
theorem CR_survey_of_rq {issued : List Nat} {sent : List (Bytes × Option Bytes)} {nseq : Nat} {arrivals : List Arrival}
    {c : Ctx} {cj : CtxJ} (h : CR issued sent nseq arrivals c cj) (hrq : c.rq ≠ []) :
    ∃ sv, cj.survey = some sv ∧ sv.deadline = c.expire := by
  cases hs : cj.survey with
  | none => exact absurd (h.nos hs).2 hrq
  | some sv => exact ⟨sv, rfl, (h.sv sv hs).1⟩

theorem effDeadline_of {j : SurvJ} {pr : PendRecv} {c : Ctx} {cj : CtxJ} {sv : SurveyJ} {pk : Parked}
    (hj : j.getCtx pr.ctx = some cj) (hs : cj.survey = some sv) (hd : sv.deadline = c.expire) (hdl : DL c pr pk) :
    effDeadline j pr = some pk.deadline := by
  unfold effDeadline
  simp only [hj, Option.bind_some, hs, Option.map_some, hd]
  unfold DL at hdl
  cases ho : pr.own with
  | none => rw [ho] at hdl; simp [hdl]
  | some o => rw [ho] at hdl; simp [hdl]

theorem R0_pend {s : State} {j : SurvJ} (h : R0 s j) {pr : PendRecv} (hpr : pr ∈ j.pend) :
    ∃ c cj sv pk, getCtx s pr.ctx = some c ∧ j.getCtx pr.ctx = some cj ∧ cj.survey = some sv ∧
      sv.deadline = c.expire ∧ pk ∈ c.rq ∧ pk.aio = pr.aio ∧ effDeadline j pr = some pk.deadline ∧
      CR s.issued j.sent j.nseq j.arrivals c cj := by
  obtain ⟨_, c, hc, pk, hpk, hpa, hdl⟩ := h.p2 pr hpr
  obtain ⟨cj, hcj, hcr⟩ := R0_ctx_some h hc
  obtain ⟨sv, hs, hd⟩ := CR_survey_of_rq hcr (by intro he; rw [he] at hpk; cases hpk)
  exact ⟨c, cj, sv, pk, hc, hcj, hs, hd, hpk, hpa, effDeadline_of hcj hs hd hdl, hcr⟩

/-! ### end of step -/

/-- the three quiescence clauses, cut out of `survQuiescent` -/
def stalledP (j : SurvJ) (pr : PendRecv) : Bool :=
  match j.getCtx pr.ctx with
  | some c =>
    match c.survey with
    | some sv =>
      !sv.dead && (j.now : Int) < sv.deadline &&
      (match j.idOf sv.body with
       | some i => j.arrivals.any fun a => !a.used && a.seq ≥ sv.startSeq && a.id == i
       | none => false)
    | none => false
  | none => false

def lateP (j : SurvJ) (pr : PendRecv) : Bool :=
  match effDeadline j pr with | some d => d < (j.now : Int) | none => false

def qZero (j : SurvJ) : SurvJ :=
  match j.pend.find? (·.zero) with
  | some pr => j.fail s!"non-blocking receive {pr.aio} did not complete at once"
  | none => j

def qLate (j : SurvJ) (ev : Ev) : SurvJ :=
  match ev with
  | .advance _ =>
    match j.pend.find? (lateP j) with
    | some pr => j.fail s!"receive {pr.aio} still pending after its deadline passed"
    | none => j
  | _ => j

def qStalled (j : SurvJ) : SurvJ :=
  match j.pend.find? (stalledP j) with
  | some pr => if j.closed then j else j.fail s!"receive {pr.aio} is kept waiting although a response to its survey has arrived"
  | none => j

def unfreshAll (j : SurvJ) : SurvJ := { j with pend := j.pend.map fun pr => { pr with fresh := false } }

theorem survQuiescent_eq (j : SurvJ) (ev : Ev) :
    survQuiescent j ev = unfreshAll (qStalled (qLate (qZero j) ev)) := by
  unfold survQuiescent
  cases ev <;> rfl

theorem survQuiescent_ok {j : SurvJ} {ev : Ev} (hz : ∀ pr ∈ j.pend, pr.zero = false)
    (hl : ∀ pr ∈ j.pend, lateP j pr = false) (hs : ∀ pr ∈ j.pend, stalledP j pr = false) :
    survQuiescent j ev = { j with pend := j.pend.map fun pr => { pr with fresh := false } } := by
  have h1 : j.pend.find? (·.zero) = none := by
    rw [List.find?_eq_none]; intro pr hpr; simp [hz pr hpr]
  have h2 : j.pend.find? (lateP j) = none := by
    rw [List.find?_eq_none]; intro pr hpr; simp [hl pr hpr]
  have h3 : j.pend.find? (stalledP j) = none := by
    rw [List.find?_eq_none]; intro pr hpr; simp [hs pr hpr]
  rw [survQuiescent_eq]
  have e1 : qZero j = j := by unfold qZero; rw [h1]
  have e2 : qLate j ev = j := by unfold qLate; cases ev <;> simp only [h2]
  have e3 : qStalled j = j := by unfold qStalled; rw [h3]
  rw [e1, e2, e3]
  rfl

theorem stalled_false {s : State} {j : SurvJ} (h : R0 s j) (hm : MInv s) {pr : PendRecv} (hpr : pr ∈ j.pend) :
    stalledP j pr = false := by
  obtain ⟨c, cj, sv, pk, hc, hcj, hs, hd, hpk, hpa, _, hcr⟩ := R0_pend h hpr
  unfold stalledP
  rw [hcj]
  simp only [hs]
  have hcm := m_getCtx_mem hc
  have hq : c.recvQ = [] := (hm.i.ctxsOK c hcm).excl (by intro he; rw [he] at hpk; cases hpk)
  obtain ⟨_, hdead, hlk, _⟩ := hcr.sv sv hs
  cases hdd : sv.dead with
  | true => simp
  | false =>
    have hne : c.surveyId ≠ 0 := hdead.mp hdd
    have hcur := (hm.x.cx c hcm).cur hne
    rcases idOfL_of_lookup h.sentV hlk with ho | ho
    · rw [idOf_eq, ho]; simp
    · rw [idOf_eq, ho]
      simp only [Bool.not_false, Bool.true_and, Bool.and_eq_false_imp, decide_eq_true_eq]
      intro _
      rw [Bool.eq_false_iff]
      intro hany
      rw [List.any_eq_true] at hany
      obtain ⟨a, ha, hp⟩ := hany
      simp only [Bool.and_eq_true, Bool.not_eq_true', decide_eq_true_eq, beq_iff_eq] at hp
      obtain ⟨gm, hgm, _⟩ := hcr.qa sv hs hne a ha hp.1.1 hp.1.2 (by rw [hp.2, hcur])
      rw [hq] at hgm; cases hgm

theorem late_false {s : State} {j : SurvJ} (h : R0 s j) (hm : MInv s) {pr : PendRecv} (hpr : pr ∈ j.pend) :
    lateP j pr = false := by
  obtain ⟨c, cj, sv, pk, hc, hcj, hs, hd, hpk, hpa, heff, hcr⟩ := R0_pend h hpr
  unfold lateP
  rw [heff]
  have := ((hm.i.ctxsOK c (m_getCtx_mem hc)).dl pk hpk).1
  simp only [decide_eq_false_iff_not]
  rw [h.now]
  omega

theorem pollClause_other {lp : Option (Option Bool × Option Bool)} {ev : Ev} {outs : List Out}
    (h1 : ∀ a, ev ≠ .recv none a .nb) (h2 : ∀ a m, ev ≠ .send none a m .nb) : pollClause lp ev outs = none := by
  unfold pollClause
  split
  · rename_i a; exact absurd rfl (h1 a)
  · rename_i a m; exact absurd rfl (h2 a m)
  · rfl

/-- the end of a step: `R0` for the judge state after the outputs gives `R` after `survPostB` -/
theorem postB_R {s : State} {j : SurvJ} {ev : Ev} {outs : List Out} (h : R0 s j) (hm : MInv s)
    (hb : hasBlocked outs = false) (hpc : pollClause j.lastPoll ev outs = none)
    (hpo : pollOf ev outs = none ∨ pollOf ev outs = some (some s.readable, some s.writable)) :
    R s (survPostB ev outs j) := by
  unfold survPostB
  simp only [hb, Bool.false_eq_true, if_false, hpc]
  have h' : R0 s { j with lastPoll := pollOf ev outs } := R0_jframe h rfl rfl rfl rfl rfl rfl rfl rfl
  rw [survQuiescent_ok (fun pr hpr => (h'.p2 pr hpr).1) (fun pr hpr => late_false h' hm hpr)
    (fun pr hpr => stalled_false h' hm hpr)]
  refine ⟨⟨h.err, h.now, h.ncl, h.dom, h.ctx, ?_, ?_, ?_, h.sentV, h.sentN, h.sq, h.arrS, h.arrB, h.nseq⟩, ?_, ?_⟩
  · show ((j.pend.map fun pr => ({ pr with fresh := false } : PendRecv)).map (·.aio)).Nodup
    rw [List.map_map]; exact h.p1
  · intro pr hpr
    simp only [List.mem_map] at hpr
    obtain ⟨q, hq, rfl⟩ := hpr
    exact h.p2 q hq
  · intro k c hc pk hpk
    obtain ⟨pr, hpr, h1, h2⟩ := h.p3 k c hc pk hpk
    exact ⟨{ pr with fresh := false }, List.mem_map.mpr ⟨pr, hpr, rfl⟩, h1, h2⟩
  · intro pr hpr
    simp only [List.mem_map] at hpr
    obtain ⟨q, _, rfl⟩ := hpr
    rfl
  · exact hpo

/-- a step the harness refused changes neither side -/
theorem refused_R {s : State} {j : SurvJ} (h : R s j) (ev : Ev) (msg : String) :
    R s (survStep j ev [.other msg]) := by
  rw [survStep_refused rfl]; exact h

end Nng.SurvProofs
