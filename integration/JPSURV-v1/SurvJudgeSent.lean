/-
  SURVEYOR judge, bookkeeping of surveys and their ids (`SurvJ.sent`, `idOf`, `knownId`, `bind`,
  `survWire`) against the list of ids the model has issued: the n-th entry of `sent` belongs to the
  n-th issued id and is either not yet bound or bound to the 4-byte encoding of that id.
-/
import NngModel.Proofs.SurvJudgeCut
import NngModel.Proofs.BytesLemmas
namespace Nng.SurvJudge
open Nng Nng.Proto Nng.SurveySpec

/-! ### survey ids as bytes -/

/-- the wire form of a survey id -/
def enc (id : Nat) : Bytes := beEncode 4 id

@[simp] theorem enc_length (id : Nat) : (enc id).length = 4 := by simp [enc]

theorem dec_enc {id : Nat} (h : id < 4294967296) : beDecode (enc id) = id := by
  unfold enc
  rw [Nng.Msg.beDecode_beEncode]
  exact Nat.mod_eq_of_lt (by simpa using h)

theorem enc_dec4 (l : Bytes) (h : l.length = 4) : enc (beDecode l) = l := by
  unfold enc
  match l, h with
  | [a, b, c, d], _ =>
    have ha := a.toNat_lt; have hb := b.toNat_lt; have hc := c.toNat_lt; have hd := d.toNat_lt
    simp only [beDecode, List.foldl, beEncode]
    have e1 : (((0 * 256 + a.toNat) * 256 + b.toNat) * 256 + c.toNat) * 256 + d.toNat
        = a.toNat * 16777216 + b.toNat * 65536 + c.toNat * 256 + d.toNat := by omega
    rw [e1]
    have f1 : (a.toNat * 16777216 + b.toNat * 65536 + c.toNat * 256 + d.toNat) / 256 ^ 3 % 256 = a.toNat := by omega
    have f2 : (a.toNat * 16777216 + b.toNat * 65536 + c.toNat * 256 + d.toNat) / 256 ^ 2 % 256 = b.toNat := by omega
    have f3 : (a.toNat * 16777216 + b.toNat * 65536 + c.toNat * 256 + d.toNat) / 256 ^ 1 % 256 = c.toNat := by omega
    have f4 : (a.toNat * 16777216 + b.toNat * 65536 + c.toNat * 256 + d.toNat) / 256 ^ 0 % 256 = d.toNat := by omega
    rw [f1, f2, f3, f4]
    simp

theorem enc_inj {a b : Nat} (ha : a < 4294967296) (hb : b < 4294967296) (h : enc a = enc b) : a = b := by
  rw [← dec_enc ha, ← dec_enc hb, h]

theorem validId_enc {id : Nat} (h1 : 2147483648 ≤ id) (h2 : id < 4294967296) : validId (enc id) = true := by
  unfold validId enc
  simp only [Msg.length_beEncode, beq_self_eq_true, Bool.true_and, decide_eq_true_eq]
  simp only [beEncode, List.headD_cons, UInt8.toNat_ofNat']
  omega

/-! ### `sent` against the issued ids -/

/-- the id of the survey with body `b`: the issued id at the position of the first entry for `b` -/
def lookupId : List (Bytes × Option Bytes) → List Nat → Bytes → Option Nat
  | e :: t, id :: ids, b => if e.1 == b then some id else lookupId t ids b
  | _, _, _ => none

/-- every entry is unbound or bound to the encoding of its id -/
def SentVal : List (Bytes × Option Bytes) → List Nat → Prop
  | [], [] => True
  | e :: t, id :: ids => (e.2 = none ∨ e.2 = some (enc id)) ∧ SentVal t ids
  | _, _ => False

theorem sentVal_length : ∀ {sent : List (Bytes × Option Bytes)} {ids : List Nat}, SentVal sent ids → sent.length = ids.length
  | [], [], _ => rfl
  | _ :: t, _ :: ids, h => by simp [sentVal_length (sent := t) (ids := ids) h.2]
  | [], _ :: _, h => by cases h
  | _ :: _, [], h => by cases h

theorem lookupId_mem : ∀ {sent : List (Bytes × Option Bytes)} {ids : List Nat} {b : Bytes} {id : Nat},
    lookupId sent ids b = some id → id ∈ ids
  | [], _, _, _, h => by simp [lookupId] at h
  | _ :: _, [], _, _, h => by simp [lookupId] at h
  | e :: t, i :: ids, b, id, h => by
    unfold lookupId at h
    by_cases he : (e.1 == b) = true
    · rw [if_pos he] at h; simp only [Option.some.injEq] at h; simp [h]
    · rw [if_neg he] at h; exact List.mem_cons_of_mem _ (lookupId_mem h)

theorem lookupId_any : ∀ {sent : List (Bytes × Option Bytes)} {ids : List Nat} {b : Bytes} {id : Nat},
    lookupId sent ids b = some id → sent.any (·.1 == b) = true
  | [], _, _, _, h => by simp [lookupId] at h
  | _ :: _, [], _, _, h => by simp [lookupId] at h
  | e :: t, i :: ids, b, id, h => by
    unfold lookupId at h
    by_cases he : (e.1 == b) = true
    · simp [he]
    · rw [if_neg he] at h; simp [lookupId_any h]

/-- a bound entry carries the encoding of an issued id -/
theorem sentVal_bound : ∀ {sent : List (Bytes × Option Bytes)} {ids : List Nat}, SentVal sent ids →
    ∀ e ∈ sent, ∀ y, e.2 = some y → ∃ id ∈ ids, y = enc id
  | [], [], _, e, he, _, _ => by cases he
  | [], _ :: _, h, _, _, _, _ => by cases h
  | _ :: _, [], h, _, _, _, _ => by cases h
  | e0 :: t, i :: ids, h, e, he, y, hy => by
    rcases List.mem_cons.mp he with rfl | he
    · rcases h.1 with h0 | h0
      · rw [h0] at hy; cases hy
      · rw [h0] at hy; simp only [Option.some.injEq] at hy; exact ⟨i, by simp, hy.symm⟩
    · obtain ⟨id, hid, hyy⟩ := sentVal_bound h.2 e he y hy
      exact ⟨id, List.mem_cons_of_mem _ hid, hyy⟩

def idOfL (sent : List (Bytes × Option Bytes)) (body : Bytes) : Option Bytes :=
  match sent.find? (·.1 == body) with
  | some (_, i) => i
  | none => none

theorem idOf_eq (j : SurvJ) (body : Bytes) : j.idOf body = idOfL j.sent body := rfl

theorem idOfL_cons (e : Bytes × Option Bytes) (t : List (Bytes × Option Bytes)) (b : Bytes) :
    idOfL (e :: t) b = if e.1 == b then e.2 else idOfL t b := by
  unfold idOfL
  by_cases he : (e.1 == b) = true
  · simp [he]
  · simp [he]

/-- the judge's `idOf` is unbound or the encoding of the model's id -/
theorem idOfL_of_lookup : ∀ {sent : List (Bytes × Option Bytes)} {ids : List Nat} {b : Bytes} {id : Nat},
    SentVal sent ids → lookupId sent ids b = some id → idOfL sent b = none ∨ idOfL sent b = some (enc id)
  | [], _, _, _, _, h => by simp [lookupId] at h
  | _ :: _, [], _, _, hv, _ => by cases hv
  | e :: t, i :: ids, b, id, hv, h => by
    unfold lookupId at h
    rw [idOfL_cons]
    by_cases he : (e.1 == b) = true
    · rw [if_pos he] at h ⊢
      simp only [Option.some.injEq] at h
      rw [← h]; exact hv.1
    · rw [if_neg he] at h ⊢
      exact idOfL_of_lookup hv.2 h

/-- an unbound survey's id is bound to no entry -/
theorem not_known_of_unbound : ∀ {sent : List (Bytes × Option Bytes)} {ids : List Nat} {b : Bytes} {id : Nat},
    SentVal sent ids → ids.Nodup → (∀ i ∈ ids, i < 4294967296) → lookupId sent ids b = some id → idOfL sent b = none →
    ∀ e ∈ sent, e.2 ≠ some (enc id)
  | [], _, _, _, _, _, _, h, _ => by simp [lookupId] at h
  | _ :: _, [], _, _, hv, _, _, _, _ => by cases hv
  | e0 :: t, i :: ids, b, id, hv, hn, hb, h, ho => by
    unfold lookupId at h
    rw [idOfL_cons] at ho
    rw [List.nodup_cons] at hn
    intro e he hy
    by_cases he0 : (e0.1 == b) = true
    · rw [if_pos he0] at h ho
      simp only [Option.some.injEq] at h
      subst h
      rcases List.mem_cons.mp he with rfl | he
      · rw [ho] at hy; cases hy
      · obtain ⟨id', hid', hyy⟩ := sentVal_bound hv.2 e he _ hy
        have := enc_inj (hb i (by simp)) (hb id' (List.mem_cons_of_mem _ hid')) hyy
        subst this
        exact hn.1 hid'
    · rw [if_neg he0] at h ho
      rcases List.mem_cons.mp he with rfl | he
      · rcases hv.1 with h0 | h0
        · rw [h0] at hy; cases hy
        · rw [h0] at hy
          simp only [Option.some.injEq] at hy
          have hid := lookupId_mem h
          have := enc_inj (hb i (by simp)) (hb id (List.mem_cons_of_mem _ hid)) hy
          subst this
          exact hn.1 hid
      · exact not_known_of_unbound hv.2 hn.2 (fun x hx => hb x (List.mem_cons_of_mem _ hx)) h ho e he hy

/-- a fresh id is bound to no entry -/
theorem not_known_of_fresh {sent : List (Bytes × Option Bytes)} {ids : List Nat} {id : Nat}
    (hv : SentVal sent ids) (hb : ∀ i ∈ ids, i < 4294967296) (hid : id < 4294967296) (hf : id ∉ ids) :
    ∀ e ∈ sent, e.2 ≠ some (enc id) := by
  intro e he hy
  obtain ⟨id', hid', hyy⟩ := sentVal_bound hv e he _ hy
  have := enc_inj hid (hb id' hid') hyy
  subst this
  exact hf hid'

/-! ### a new survey is recorded -/

theorem lookupId_append_old : ∀ {sent : List (Bytes × Option Bytes)} {ids : List Nat} {b : Bytes} {id : Nat}
    (e : Bytes × Option Bytes) (i : Nat), lookupId sent ids b = some id → lookupId (sent ++ [e]) (ids ++ [i]) b = some id
  | [], _, _, _, _, _, h => by simp [lookupId] at h
  | _ :: _, [], _, _, _, _, h => by simp [lookupId] at h
  | e0 :: t, i0 :: ids, b, id, e, i, h => by
    simp only [List.cons_append]
    unfold lookupId at h ⊢
    by_cases he : (e0.1 == b) = true
    · rw [if_pos he] at h ⊢; exact h
    · rw [if_neg he] at h ⊢; exact lookupId_append_old e i h

theorem lookupId_append_new : ∀ {sent : List (Bytes × Option Bytes)} {ids : List Nat} (b : Bytes) (x : Option Bytes) (i : Nat),
    sent.length = ids.length → (∀ e ∈ sent, e.1 ≠ b) → lookupId (sent ++ [(b, x)]) (ids ++ [i]) b = some i
  | [], [], b, x, i, _, _ => by simp [lookupId]
  | [], _ :: _, _, _, _, h, _ => by simp at h
  | _ :: _, [], _, _, _, h, _ => by simp at h
  | e0 :: t, i0 :: ids, b, x, i, hl, hn => by
    simp only [List.cons_append]
    unfold lookupId
    have : ¬ (e0.1 == b) = true := by simpa using hn e0 (by simp)
    rw [if_neg this]
    exact lookupId_append_new b x i (by simpa using hl) (fun e he => hn e (List.mem_cons_of_mem _ he))

theorem sentVal_append : ∀ {sent : List (Bytes × Option Bytes)} {ids : List Nat} (b : Bytes) (i : Nat),
    SentVal sent ids → SentVal (sent ++ [(b, none)]) (ids ++ [i])
  | [], [], _, _, _ => ⟨Or.inl rfl, trivial⟩
  | [], _ :: _, _, _, h => by cases h
  | _ :: _, [], _, _, h => by cases h
  | _ :: t, _ :: ids, b, i, h => ⟨h.1, sentVal_append (sent := t) (ids := ids) b i h.2⟩

/-! ### binding an id -/

def bindL (sent : List (Bytes × Option Bytes)) (body i : Bytes) : List (Bytes × Option Bytes) :=
  sent.map fun x => if x.1 == body then (body, some i) else x

theorem bind_sent (j : SurvJ) (body i : Bytes) : (j.bind body i).sent = bindL j.sent body i := rfl

theorem bindL_fst (sent : List (Bytes × Option Bytes)) (body i : Bytes) :
    (bindL sent body i).map (·.1) = sent.map (·.1) := by
  unfold bindL
  rw [List.map_map]
  apply List.map_congr_left
  intro x _
  by_cases h : (x.1 == body) = true
  · simp only [Function.comp, h, if_true]; exact (beq_iff_eq.mp h).symm
  · simp [Function.comp, h]

theorem lookupId_congr : ∀ {s1 s2 : List (Bytes × Option Bytes)} (ids : List Nat) (b : Bytes),
    s1.map (·.1) = s2.map (·.1) → lookupId s1 ids b = lookupId s2 ids b
  | [], [], _, _, _ => rfl
  | [], _ :: _, _, _, h => by simp at h
  | _ :: _, [], _, _, h => by simp at h
  | e1 :: t1, e2 :: t2, [], _, _ => by simp [lookupId]
  | e1 :: t1, e2 :: t2, i :: ids, b, h => by
    simp only [List.map_cons, List.cons.injEq] at h
    unfold lookupId
    rw [h.1, lookupId_congr ids b h.2]

theorem lookupId_bind (sent : List (Bytes × Option Bytes)) (ids : List Nat) (body i b : Bytes) :
    lookupId (bindL sent body i) ids b = lookupId sent ids b :=
  lookupId_congr ids b (bindL_fst sent body i)

theorem bindL_noop {sent : List (Bytes × Option Bytes)} {body i : Bytes} (h : ∀ e ∈ sent, e.1 ≠ body) :
    bindL sent body i = sent := by
  unfold bindL
  conv => rhs; rw [← List.map_id sent]
  apply List.map_congr_left
  intro x hx
  have : ¬ (x.1 == body) = true := by simpa using h x hx
  simp [this]

theorem sentVal_bind : ∀ {sent : List (Bytes × Option Bytes)} {ids : List Nat} {b : Bytes} {id : Nat},
    SentVal sent ids → (sent.map (·.1)).Nodup → lookupId sent ids b = some id → SentVal (bindL sent b (enc id)) ids
  | [], _, _, _, _, _, h => by simp [lookupId] at h
  | _ :: _, [], _, _, hv, _, _ => by cases hv
  | e :: t, i :: ids, b, id, hv, hn, h => by
    unfold lookupId at h
    simp only [List.map_cons, List.nodup_cons, List.mem_map, not_exists, not_and] at hn
    by_cases he : (e.1 == b) = true
    · rw [if_pos he] at h
      simp only [Option.some.injEq] at h
      subst h
      have hb : e.1 = b := beq_iff_eq.mp he
      have hno : ∀ x ∈ t, x.1 ≠ b := by
        intro x hx hxb
        exact hn.1 x hx (by rw [hxb, hb])
      have : bindL (e :: t) b (enc i) = (b, some (enc i)) :: t := by
        show (if e.1 == b then (b, some (enc i)) else e) :: bindL t b (enc i) = _
        rw [if_pos he, bindL_noop hno]
      rw [this]
      exact ⟨Or.inr rfl, hv.2⟩
    · rw [if_neg he] at h
      have : bindL (e :: t) b (enc id) = e :: bindL t b (enc id) := by
        show (if e.1 == b then (b, some (enc id)) else e) :: bindL t b (enc id) = _
        rw [if_neg he]
      rw [this]
      exact ⟨hv.1, sentVal_bind hv.2 hn.2 h⟩

/-! ### `survWire` -/

theorem fail_err_none {j : SurvJ} {msg : String} (h : (j.fail msg).err = none) : j.err = none := by
  cases he : j.err with
  | none => rfl
  | some e =>
    have : j.fail msg = j := by unfold SurvJ.fail; rw [he]
    rw [this, he] at h; cases h

theorem knownId_false {j : SurvJ} {i : Bytes} (h : ∀ e ∈ j.sent, e.2 ≠ some i) : j.knownId i = false := by
  unfold SurvJ.knownId
  rw [Bool.eq_false_iff]
  intro ht
  rw [List.any_eq_true] at ht
  obtain ⟨e, he, hp⟩ := ht
  exact h e he (by simpa using hp)

/-- a survey goes out whose id the judge has already learnt -/
theorem survWire_known {j : SurvJ} {p : Nat} {m : WMsg} (h1 : j.sent.any (·.1 == m.body) = true)
    (h2 : j.idOf m.body = some m.hdr) : survWire j p m = j := by
  unfold survWire
  simp [h1, h2]

/-- a survey goes out for the first time: the judge learns its id -/
theorem survWire_bind {j : SurvJ} {p : Nat} {m : WMsg} (h1 : j.sent.any (·.1 == m.body) = true)
    (h2 : j.idOf m.body = none) (h3 : validId m.hdr = true) (h4 : j.knownId m.hdr = false) :
    survWire j p m = j.bind m.body m.hdr := by
  unfold survWire
  simp [h1, h2, h3, h4]

end Nng.SurvJudge
