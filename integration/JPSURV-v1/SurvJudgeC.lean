/-
  SURVEYOR judge accepts the model, part C: `surv0_ctx_recv` (ESTATE, zero timeout on an empty queue,
  parked, served from the queue).
-/
import NngModel.Proofs.SurvJudgeB
namespace Nng.SurvProofs
open Nng Nng.Proto Nng.Survey Nng.SurveySpec Nng.SurvJudge

/-! ### one model context replaced, its parked receives and deadline untouched -/

theorem p2_same {s : State} {pend : List PendRecv} {c c' : Ctx} {k : Option Nat}
    (h2 : ∀ pr ∈ pend, pr.zero = false ∧ ∃ c, getCtx s pr.ctx = some c ∧ ∃ pk ∈ c.rq, pk.aio = pr.aio ∧ DL c pr pk)
    (hc : getCtx s k = some c)
    (hk : c'.key = k) (hrq : c'.rq = c.rq) (he : c'.expire = c.expire) :
    ∀ pr ∈ pend, pr.zero = false ∧ ∃ c0, getCtx (setCtx s c') pr.ctx = some c0 ∧ ∃ pk ∈ c0.rq, pk.aio = pr.aio ∧ DL c0 pr pk := by
  intro pr hpr
  obtain ⟨hz, c0, hc0, pk, hpk, hpa, hdl⟩ := h2 pr hpr
  by_cases hkk : pr.ctx = k
  · have : c0 = c := by rw [hkk, hc] at hc0; exact (Option.some.inj hc0).symm
    subst this
    refine ⟨hz, c', ?_, pk, by rw [hrq]; exact hpk, hpa, ?_⟩
    · rw [m_getCtx_setCtx_k hk, if_pos hkk, hkk, hc]; rfl
    · unfold DL at hdl ⊢; rw [he]; exact hdl
  · refine ⟨hz, c0, ?_, pk, hpk, hpa, hdl⟩
    rw [m_getCtx_setCtx_k hk, if_neg hkk]; exact hc0

theorem p3_same {s : State} {pend : List PendRecv} {c c' : Ctx} {k : Option Nat}
    (h3 : ∀ k c, getCtx s k = some c → ∀ pk ∈ c.rq, ∃ pr ∈ pend, pr.aio = pk.aio ∧ pr.ctx = k)
    (hc : getCtx s k = some c) (hk : c'.key = k) (hrq : c'.rq = c.rq) :
    ∀ k' c0, getCtx (setCtx s c') k' = some c0 → ∀ pk ∈ c0.rq, ∃ pr ∈ pend, pr.aio = pk.aio ∧ pr.ctx = k' := by
  intro k' c0 h1 pk hpk
  rw [m_getCtx_setCtx_k hk] at h1
  by_cases hkk : k' = k
  · subst hkk
    simp only [if_true, hc, Option.map_some, Option.some.injEq] at h1
    subst h1
    rw [hrq] at hpk
    exact h3 k' c hc pk hpk
  · simp only [hkk, if_false] at h1
    exact h3 k' c0 h1 pk hpk

theorem dom_setCtx {s : State} {j : SurvJ} {c c' : Ctx} {k : Option Nat}
    (hd : ∀ k, (getCtx s k).isSome = (j.getCtx k).isSome) (hc : getCtx s k = some c)
    (hk : c'.key = k) : ∀ k', (getCtx (setCtx s c') k').isSome = (j.getCtx k').isSome := by
  intro k'
  rw [m_getCtx_setCtx_k hk]
  by_cases hkk : k' = k
  · subst hkk
    rw [if_pos rfl, ← hd k', hc]; rfl
  · rw [if_neg hkk]; exact hd k'

/-! ### queue entries of different contexts stand for different arrivals -/

theorem survey_of_queue {s : State} {j : SurvJ} (h : R0 s j) (hm : MInv s) {k : Option Nat} {c : Ctx}
    (hc : getCtx s k = some c) (hq : c.recvQ ≠ []) :
    c.surveyId ≠ 0 ∧ ∃ cj sv, j.getCtx k = some cj ∧ cj.survey = some sv ∧ CR s.issued j.sent j.nseq j.arrivals c cj := by
  have hcm := m_getCtx_mem hc
  have hne : c.surveyId ≠ 0 := fun h0 => hq ((hm.x.cx c hcm).z h0)
  obtain ⟨cj, hcj, hcr⟩ := R0_ctx_some h hc
  cases hs : cj.survey with
  | none => exact absurd (hcr.nos hs).1 hne
  | some sv => exact ⟨hne, cj, sv, hcj, hs, hcr⟩

theorem gid_other {s : State} {j : SurvJ} (h : R0 s j) (hm : MInv s) {k k2 : Option Nat} {c c2 : Ctx} {gm gm2 : GMsg}
    (hc : getCtx s k = some c) (hc2 : getCtx s k2 = some c2) (hk : k2 ≠ k) (hg : gm ∈ c.recvQ) (hg2 : gm2 ∈ c2.recvQ) :
    gm2.gid ≠ gm.gid := by
  intro he
  obtain ⟨hne, cj, sv, _, hs, hcr⟩ := survey_of_queue h hm hc (by intro e; rw [e] at hg; cases hg)
  obtain ⟨hne2, cj2, sv2, _, hs2, hcr2⟩ := survey_of_queue h hm hc2 (by intro e; rw [e] at hg2; cases hg2)
  obtain ⟨a, ha, a1, _, _, a4, _, a6⟩ := hcr.qb sv hs gm hg
  obtain ⟨b, hb, b1, _, _, b4, _, b6⟩ := hcr2.qb sv2 hs2 gm2 hg2
  have hab : a = b := arr_unique h.arrS ha hb (by rw [a1, b1, he])
  have hcm := m_getCtx_mem hc
  have hcm2 := m_getCtx_mem hc2
  obtain ⟨e1, i1⟩ := cur_issued hm.x hcm hne
  obtain ⟨e2, i2⟩ := cur_issued hm.x hcm2 hne2
  have hid : c.surveyId = c2.surveyId := by
    apply enc_inj (issued_lt hm.x _ i1) (issued_lt hm.x _ i2)
    rw [← a6, ← b6, ← a4, ← b4, hab]
  have hkey := (hm.x.px c hcm c2 hcm2).uniq (by rw [← e1]; exact hne) (by rw [← e1, ← e2]; exact hid)
  rw [m_key hc, m_key hc2] at hkey
  exact hk hkey.symm

/-! ### the head of a context's queue is handed to the application -/

theorem take_R0 {s : State} {j : SurvJ} (h : R0 s j) (hm : MInv s) {k : Option Nat} {c : Ctx} {gm : GMsg} {rest : List GMsg}
    (hc : getCtx s k = some c) (hq : c.recvQ = gm :: rest) :
    R0 (setCtx s { c with recvQ := rest }) { j with arrivals := markUsed j.arrivals gm.gid } := by
  have hck : c.key = k := m_key hc
  have hk' : ({ c with recvQ := rest } : Ctx).key = k := hck
  refine ⟨h.err, h.now, h.ncl, dom_setCtx h.dom hc hk', ?_, h.p1, p2_same h.p2 hc hk' rfl rfl, p3_same h.p3 hc hk' rfl,
    h.sentV, h.sentN, h.sq, markUsed_sorted _ h.arrS, markUsed_bound _ h.arrB, h.nseq⟩
  intro k' c' cj h1 h2
  rw [m_getCtx_setCtx_k hk'] at h1
  by_cases hkk : k' = k
  · subst hkk
    simp only [if_true, hc, Option.map_some, Option.some.injEq] at h1
    subst h1
    have hcr := h.ctx k' c cj hc h2
    have hqc := hcr.qc
    rw [hq, List.map_cons, List.pairwise_cons] at hqc
    refine ⟨hcr.st, hcr.nos, hcr.sv, ?_, ?_, hqc.2⟩
    · intro sv hsv hne a ha hu hs hid
      obtain ⟨a0, h0, rfl⟩ := mem_markUsed ha
      by_cases he : (a0.seq == gm.gid) = true
      · simp only [he, if_true] at hu; cases hu
      · simp only [he, Bool.false_eq_true, if_false] at hu hs hid ⊢
        obtain ⟨gm', hgm', hg'⟩ := hcr.qa sv hsv hne a0 h0 hu hs hid
        rw [hq] at hgm'
        rcases List.mem_cons.mp hgm' with e | hr
        · exfalso; apply he; rw [← hg', e]; simp
        · exact ⟨gm', hr, hg'⟩
    · intro sv hsv gm' hgm'
      obtain ⟨a0, h0, g1, g2, g3, g4, g5, g6⟩ := hcr.qb sv hsv gm' (by rw [hq]; exact List.mem_cons_of_mem _ hgm')
      refine ⟨a0, ?_, g1, g2, g3, g4, g5, g6⟩
      unfold markUsed
      simp only [List.mem_map]
      refine ⟨a0, h0, ?_⟩
      have hlt := hqc.1 gm'.gid (List.mem_map.mpr ⟨gm', hgm', rfl⟩)
      have : ¬ (a0.seq == gm.gid) = true := by
        simp only [beq_iff_eq]; omega
      simp [this]
  · simp only [hkk, if_false] at h1
    apply CR_used (h.ctx k' c' cj h1 h2)
    intro gm2 hg2
    exact gid_other h hm hc h1 hkk (by rw [hq]; simp) hg2

/-! ### `surv0_ctx_recv` -/

theorem take_state (s : State) (c2 : Ctx) (b : Bool) (k : Option Nat) :
    (if b = true then clearReadableIf (setCtx s c2) k else setCtx s c2).ctxs = (setCtx s c2).ctxs ∧
    (if b = true then clearReadableIf (setCtx s c2) k else setCtx s c2).now = s.now ∧
    (if b = true then clearReadableIf (setCtx s c2) k else setCtx s c2).issued = s.issued ∧
    (if b = true then clearReadableIf (setCtx s c2) k else setCtx s c2).narrive = s.narrive ∧
    (if b = true then clearReadableIf (setCtx s c2) k else setCtx s c2).pipes = s.pipes := by
  cases b
  · simp [setCtx]
  · simp only [if_true]
    unfold clearReadableIf
    split <;> simp [setCtx]

theorem isLive_of {s : State} {j : SurvJ} (h : R0 s j) {k : Option Nat} {c : Ctx} {cj : CtxJ}
    (hc : getCtx s k = some c) (hcj : j.getCtx k = some cj) :
    isLive j.now cj = true ↔ (c.surveyId ≠ 0 ∧ (s.now : Int) < c.expire) := by
  rw [CR_isLive (h.ctx k c cj hc hcj) j.now, h.now]

theorem timeoutOf_zero {mode : Mode} (h : timeoutOf mode = 0) : recvZero mode = true := by
  cases mode with
  | nb => rfl
  | inf => simp [timeoutOf] at h
  | dflt => simp [timeoutOf] at h
  | ms n =>
    simp only [timeoutOf] at h
    have : n = 0 := by omega
    subst this; rfl

theorem zeroRv_cases (mode : Mode) (h : recvZero mode = true) :
    (mode = .nb ∧ zeroRv mode = Err.eagain) ∨ (mode ≠ .nb ∧ zeroRv mode = Err.etimedout) := by
  cases mode with
  | nb => exact Or.inl ⟨rfl, rfl⟩
  | inf => simp [recvZero] at h
  | dflt => simp [recvZero] at h
  | ms n => exact Or.inr ⟨(by intro h; cases h), rfl⟩

/-- a receive is parked on context `k` -/
theorem park_R0 {s : State} {j : SurvJ} (h : R0 s j) {k : Option Nat} {c c2 : Ctx} {cj : CtxJ} {sv : SurveyJ} {a : Nat}
    {mode : Mode} {pk : Parked} (hc : getCtx s k = some c) (hcj : j.getCtx k = some cj) (hs : cj.survey = some sv)
    (hfree : ∀ q ∈ j.pend, q.aio ≠ a) (hnz : recvZero mode = false)
    (hk : c2.key = c.key) (hrq : c2.rq = c.rq ++ [pk]) (he : c2.expire = c.expire) (hid : c2.surveyId = c.surveyId)
    (hl : c2.lastId = c.lastId) (hq : c2.recvQ = c.recvQ) (hst : c2.surveyTime = c.surveyTime)
    (hdl : pk.aio = a ∧ DL c2 (prNew j k a mode) pk) :
    R0 (setCtx s c2) { j with pend := j.pend ++ [prNew j k a mode] } := by
  have hck : c.key = k := m_key hc
  have hk' : c2.key = k := hk.trans hck
  have hcr := h.ctx k c cj hc hcj
  refine ⟨h.err, h.now, h.ncl, dom_setCtx h.dom hc hk', ?_, ?_, ?_, ?_, h.sentV, h.sentN, h.sq, h.arrS, h.arrB, h.nseq⟩
  · intro k' c' cj' h1 h2
    rw [m_getCtx_setCtx_k hk'] at h1
    by_cases hkk : k' = k
    · subst hkk
      simp only [if_true, hc, Option.map_some, Option.some.injEq] at h1
      subst h1
      have h2' : j.getCtx k' = some cj' := h2
      rw [hcj] at h2'; cases h2'
      refine ⟨by rw [hst]; exact hcr.st, fun hn => (by rw [hs] at hn; cases hn), ?_, ?_, ?_, by rw [hq]; exact hcr.qc⟩
      · intro sv' hsv'; rw [he, hid, hl]; exact hcr.sv sv' hsv'
      · intro sv' hsv'; rw [hid, hq]; exact hcr.qa sv' hsv'
      · intro sv' hsv'; rw [hid, hq]; exact hcr.qb sv' hsv'
    · simp only [hkk, if_false] at h1
      exact h.ctx k' c' cj' h1 h2
  · show ((j.pend ++ [prNew j k a mode]).map (·.aio)).Nodup
    rw [List.map_append, List.nodup_append]
    refine ⟨h.p1, by simp, ?_⟩
    intro x hx y hy
    simp only [List.map_cons, List.map_nil, List.mem_singleton] at hy
    subst hy
    simp only [List.mem_map] at hx
    obtain ⟨q, hq', rfl⟩ := hx
    exact hfree q hq'
  · intro pr hpr
    have hpr' : pr ∈ j.pend ++ [prNew j k a mode] := hpr
    rcases List.mem_append.mp hpr' with hpr | hpr
    · obtain ⟨hz', c0, hc0, pk0, hpk, hpa, hdl0⟩ := h.p2 pr hpr
      by_cases hkk : pr.ctx = k
      · have : c0 = c := by rw [hkk, hc] at hc0; exact (Option.some.inj hc0).symm
        subst this
        refine ⟨hz', c2, ?_, pk0, by rw [hrq]; exact List.mem_append_left _ hpk, hpa, ?_⟩
        · rw [m_getCtx_setCtx_k hk', if_pos hkk, hkk, hc]; rfl
        · unfold DL at hdl0 ⊢; rw [he]; exact hdl0
      · refine ⟨hz', c0, ?_, pk0, hpk, hpa, hdl0⟩
        rw [m_getCtx_setCtx_k hk', if_neg hkk]; exact hc0
    · simp only [List.mem_singleton] at hpr
      subst hpr
      refine ⟨hnz, c2, ?_, pk, by rw [hrq]; simp, hdl.1, hdl.2⟩
      rw [m_getCtx_setCtx_k hk']
      have e : (prNew j k a mode).ctx = k := rfl
      rw [e, if_pos rfl, hc]; rfl
  · intro k' c' h1 pk' hpk
    rw [m_getCtx_setCtx_k hk'] at h1
    by_cases hkk : k' = k
    · subst hkk
      simp only [if_true, hc, Option.map_some, Option.some.injEq] at h1
      subst h1
      rw [hrq] at hpk
      simp only [List.mem_append, List.mem_singleton] at hpk
      rcases hpk with hpk | rfl
      · obtain ⟨pr, hpr, e1, e2⟩ := h.p3 k' c hc pk' hpk
        exact ⟨pr, List.mem_append_left _ hpr, e1, e2⟩
      · exact ⟨prNew j k' a mode, by simp, hdl.1.symm, rfl⟩
    · simp only [hkk, if_false] at h1
      obtain ⟨pr, hpr, e1, e2⟩ := h.p3 k' c' h1 pk' hpk
      exact ⟨pr, List.mem_append_left _ hpr, e1, e2⟩

theorem ctxRecv_sim {s : State} {j : SurvJ} (hR : R s j) (hm : MInv s) (k : Option Nat) (c : Ctx) (a : Nat) (mode : Mode)
    (hc : getCtx s k = some c) (hb : aioBusy s a = false) (hm' : MInv (ctxRecv s c a mode).1) :
    R (ctxRecv s c a mode).1 (survStep j (.recv k a mode) (ctxRecv s c a mode).2) := by
  have h := hR.r0
  obtain ⟨cj, hcj, hcr⟩ := R0_ctx_some h hc
  have hlive := isLive_of h hc hcj
  have hfree := not_busy_pend h hb
  have hck : c.key = k := m_key hc
  have hcm := m_getCtx_mem hc
  generalize hres : ctxRecv s c a mode = res at hm' ⊢
  unfold ctxRecv at hres
  by_cases h0 : (c.surveyId == 0 || decide ((s.now : Int) ≥ c.expire)) = true
  · -- no live survey: NNG_ESTATE
    rw [if_pos h0] at hres; subst hres
    have hnl : isLive j.now cj = false := by
      rw [Bool.eq_false_iff, Ne, hlive]
      simp only [Bool.or_eq_true, beq_iff_eq, decide_eq_true_eq] at h0
      omega
    apply finish h.err (by rfl) (j2 := j) _ h hm' (by rfl)
      (pollClause_recv_done _ _ _ _ _ _ _ (by intro r w _ _ _; exact ⟨fun _ => by decide, fun _ => by decide⟩)) (Or.inl rfl)
    exact recv_fail_judge (by decide) hfree (fun _ _ _ => rfl) (by intro e; cases e) (by intro e; cases e)
      (by intro _ cj' hcj'; rw [hcj] at hcj'; cases hcj'; exact hnl)
  · rw [if_neg h0] at hres
    simp only [Bool.or_eq_true, beq_iff_eq, decide_eq_true_eq, not_or] at h0
    obtain ⟨hid, hlt⟩ := h0
    have hl : isLive j.now cj = true := hlive.mpr ⟨hid, by omega⟩
    obtain ⟨sv, hs, hd⟩ : ∃ sv, cj.survey = some sv ∧ sv.dead = false := by
      cases hs : cj.survey with
      | none => exact absurd (hcr.nos hs).1 hid
      | some sv => exact ⟨sv, rfl, ((hcr.sv sv hs).2.1).mpr hid⟩
    obtain ⟨hdl, _, hlk, hst⟩ := hcr.sv sv hs
    cases hq : c.recvQ with
    | nil =>
      rw [hq] at hres
      simp only at hres
      by_cases hz : (!(decide (timeoutOf mode < clampBelow) || decide ((s.now : Int) + timeoutOf mode > c.expire)) && timeoutOf mode == 0) = true
      · -- zero timeout, nothing queued
        rw [if_pos hz] at hres; subst hres
        simp only [Bool.and_eq_true, Bool.not_eq_true', beq_iff_eq] at hz
        have hzero := timeoutOf_zero hz.2
        have hnotrd : k = none → s.readable = false := by
          intro hk
          rw [Bool.eq_false_iff]
          intro hr
          have := (sockQ_of_mem hm.p.uniq hcm (by rw [hck, hk])).mp (hm.p.rd.mp hr)
          exact this hq
        apply finish h.err (by rfl) (j2 := j) _ h hm' (by rfl) _ (Or.inl rfl)
        · apply recv_fail_judge _ hfree
          · intro cj' hcj' hn; rw [hcj] at hcj'; cases hcj'; rw [hl] at hn; cases hn
          · intro _; exact hzero
          · intro _; exact hzero
          · intro he
            rcases zeroRv_cases mode hzero with ⟨_, e⟩ | ⟨_, e⟩ <;> (rw [e] at he; cases he)
          · rcases zeroRv_cases mode hzero with ⟨_, e⟩ | ⟨_, e⟩ <;> (rw [e]; decide)
        · apply pollClause_recv_done
          intro r w hlp hk hmd
          rcases hR.lp with e | e
          · rw [e] at hlp; cases hlp
          · rw [e] at hlp
            simp only [Option.some.injEq, Prod.mk.injEq] at hlp
            refine ⟨?_, ?_⟩
            · intro hr
              rw [← hlp.1] at hr
              simp only [Option.some.injEq] at hr
              rw [hnotrd hk] at hr; cases hr
            · intro _
              rcases zeroRv_cases mode hzero with ⟨_, e⟩ | ⟨_, e⟩ <;> (rw [e]; decide)
      · -- parked
        rw [if_neg hz] at hres; subst hres
        dsimp only at hm' ⊢
        have hnz : recvZero mode = false := by
          cases hzz : recvZero mode with
          | false => rfl
          | true =>
            exfalso; apply hz
            have ht : timeoutOf mode = 0 := by
              cases mode with
              | nb => rfl
              | inf => simp [recvZero] at hzz
              | dflt => simp [recvZero] at hzz
              | ms n => cases n with
                | zero => rfl
                | succ n => simp [recvZero] at hzz
            simp only [ht, Bool.and_eq_true, Bool.not_eq_true', beq_self_eq_true, and_true, Bool.or_eq_false_iff,
              decide_eq_false_iff_not, clampBelow_eq]
            omega
        have hpre : survPre j (.recv k a mode) [] = ({ j with pend := j.pend ++ [prNew j k a mode] }, none) :=
          pre_recv (by intro cj' hcj' hn; rw [hcj] at hcj'; cases hcj'; rw [hl] at hn; cases hn)
        apply finish h.err (by rfl) (j2 := { j with pend := j.pend ++ [prNew j k a mode] })
          (by rw [hpre]; rfl) _ hm' (by rfl) (pollClause_recv_nil _ _ _ _) (Or.inl rfl)
        -- the relation with the new parked receive
        refine park_R0 h hc hcj hs hfree hnz rfl rfl rfl rfl rfl hq.symm rfl ⟨rfl, ?_⟩
        unfold DL prNew
        simp only
        rw [h.now]
        cases mode with
        | nb => simp [recvZero] at hnz
        | inf =>
          simp only [recvOwn, timeoutOf, clampBelow_eq]
          simp
        | dflt =>
          simp only [recvOwn, timeoutOf, clampBelow_eq]
          simp
        | ms n =>
          cases n with
          | zero => simp [recvZero] at hnz
          | succ n =>
            simp only [recvOwn, timeoutOf, clampBelow_eq]
            have hn0 : ¬ (((n + 1 : Nat) : Int) < 0) := by omega
            by_cases hgt : (s.now : Int) + ((n + 1 : Nat) : Int) > c.expire
            · simp only [hn0, hgt, decide_false, decide_true, Bool.false_or, if_true]; omega
            · simp only [hn0, hgt, decide_false, Bool.false_or, Bool.false_eq_true, if_false]; omega
    | cons gm rest =>
      -- served from the queue
      rw [hq] at hres
      simp only at hres
      subst hres
      dsimp only at hm' ⊢
      obtain ⟨e1, i1⟩ := cur_issued hm.x hcm hid
      obtain ⟨ar, hfind, hseq⟩ := find_head hcr hs hid hq h.arrS
      obtain ⟨_, _, _, _, _, _, _, hhdr⟩ := hcr.qb sv hs gm (by rw [hq]; simp)
      have hpre : survPre j (.recv k a mode) [.done a 0 (some gm.m) false] = ({ j with pend := j.pend ++ [prNew j k a mode] }, none) :=
        pre_recv (by intro cj' hcj' hn; rw [hcj] at hcj'; cases hcj'; rw [hl] at hn; cases hn)
      have hfree' : ∀ q ∈ j.pend, q.aio ≠ (prNew j k a mode).aio := hfree
      have hnow : ((SurvJ.now { j with pend := j.pend ++ [prNew j k a mode] } : Nat) : Int) < sv.deadline := by
        show (j.now : Int) < sv.deadline
        rw [hdl, h.now]; omega
      have hrd : k = none → s.readable = true := fun hk =>
        hm.p.rd.mpr ⟨c, hcm, by rw [hck, hk], by rw [hq]; simp⟩
      -- the judge state after the completion: maybe with the id learnt
      have hj2 : ∃ S', SentStep s.issued j.sent S' ∧
          survPostA (.recv k a mode) [.done a 0 (some gm.m) false]
            (survProc (.recv k a mode) (survPre j (.recv k a mode) [.done a 0 (some gm.m) false]).2 [.done a 0 (some gm.m) false]
              (survPre j (.recv k a mode) [.done a 0 (some gm.m) false]).1) =
          { j with arrivals := markUsed j.arrivals gm.gid, sent := S' } := by
        rw [hpre]
        simp only
        rw [survProc_one_done _ (by intro _ _ _ _ h; cases h)]
        rw [survOut_done_recv (pr := prNew j k a mode) (by simp) (find_new hfree')]
        rcases idOfL_of_lookup h.sentV hlk with ho | ho
        · refine ⟨bindL j.sent sv.body gm.m.hdr, sentStep_bind h.sentV h.sentN hlk (by rw [hhdr, e1]), ?_⟩
          have hb1 := issued_bound hm.x _ i1
          rw [survRecvDone_ok_bind (c := cj) (sv := sv) (a := ar) hcj hs hd hnow ho
            (by rw [hhdr]; exact validId_enc hb1.1 hb1.2)
            (knownId_false (by
              rw [hhdr, e1]
              exact not_known_of_unbound h.sentV hm.x.nodup (issued_lt hm.x) hlk ho))
            hfind]
          show survPostA _ _ _ = _
          simp only [survPostA]
          rw [filter_new hfree', hseq]
        · refine ⟨j.sent, sentStep_refl h.sentV, ?_⟩
          rw [survRecvDone_ok_known (c := cj) (sv := sv) (a := ar) hcj hs hd hnow
            (by rw [hhdr, e1]; exact ho) hfind]
          show survPostA _ _ _ = _
          simp only [survPostA]
          rw [filter_new hfree', hseq]
      obtain ⟨S', hS, hj2⟩ := hj2
      apply finish h.err (by rfl) hj2 _ hm' (by rfl) _ (Or.inl rfl)
      · -- the relation
        have hA : R0 s { j with sent := S' } := R0_sent h hS rfl rfl rfl rfl rfl rfl rfl
        have hB := take_R0 hA hm hc hq
        obtain ⟨t1, t2, t3, t4, t5⟩ := take_state s { c with recvQ := rest } rest.isEmpty c.key
        have hC := R0_frame hB t1 t2 t3 t4 (fun pp hpp m hmm => ⟨pp, by rw [t5] at hpp; exact hpp, hmm⟩)
        exact R0_frame hC rfl rfl rfl rfl (fun pp hpp m hmm => ⟨pp, hpp, hmm⟩)
      · apply pollClause_recv_done
        intro r w hlp hk _
        rcases hR.lp with e | e
        · rw [e] at hlp; cases hlp
        · rw [e] at hlp
          simp only [Option.some.injEq, Prod.mk.injEq] at hlp
          refine ⟨fun _ => by decide, ?_⟩
          intro hr
          rw [← hlp.1] at hr
          simp only [Option.some.injEq] at hr
          rw [hrd hk] at hr; cases hr

end Nng.SurvProofs
