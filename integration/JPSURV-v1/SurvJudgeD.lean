/-
  SURVEYOR judge accepts the model, part D: parked receives fail (cancel, abort, expiry): the judge's
  batch of failures (`FailRes`) against the model's `surv0_ctx_cancel` on the contexts concerned.
-/
import NngModel.Proofs.SurvJudgeC
namespace Nng.SurvProofs
open Nng Nng.Proto Nng.Survey Nng.SurveySpec Nng.SurvJudge

/-- `surv0_ctx_cancel` for every parked receive whose aio is in `L` -/
def kill (L : List Nat) (c : Ctx) : Ctx :=
  if c.rq.any (fun pk => L.contains pk.aio) then
    { c with rq := c.rq.filter (fun pk => !L.contains pk.aio), surveyId := 0 }
  else c

theorem kill_key (L : List Nat) (c : Ctx) : (kill L c).key = c.key := by
  unfold kill; split <;> rfl

theorem kill_noop {L : List Nat} {c : Ctx} (h : ∀ pk ∈ c.rq, pk.aio ∉ L) : kill L c = c := by
  unfold kill
  rw [if_neg]
  rw [List.any_eq_true]
  rintro ⟨pk, hpk, hp⟩
  exact h pk hpk (by simpa using hp)

theorem markB_true {ev : Ev} {pr : PendRecv} (hf : pr.fresh = false) (hev : ∀ k, newSurvey ev k = false) :
    markB ev pr = true := by
  unfold markB; rw [hf, hev]; rfl

/-- a batch of failures of parked receives (not caused by a new survey): the relation afterwards -/
theorem kill_R0 {s s' : State} {j j' : SurvJ} {ev : Ev} {L : List Nat} (h : R0 s j)
    (hex : ∀ c ∈ s.ctxs, c.rq ≠ [] → c.recvQ = [])
    (hfr : ∀ pr ∈ j.pend, pr.fresh = false) (hev : ∀ k, newSurvey ev k = false) (hres : FailRes ev j j' L)
    (hctx : ∀ k, getCtx s' k = (getCtx s k).map (kill L))
    (hnow : s'.now = s.now) (hiss : s'.issued = s.issued) (hnar : s'.narrive = s.narrive) (hpipes : s'.pipes = s.pipes) :
    R0 s' j' := by
  -- which judge contexts are marked dead
  have hmark : ∀ k c, getCtx s k = some c →
      (c.rq.any (fun pk => L.contains pk.aio) = true → j'.getCtx k = (j.getCtx k).map markDead) ∧
      (c.rq.any (fun pk => L.contains pk.aio) = false → j'.getCtx k = j.getCtx k) := by
    intro k c hc
    constructor
    · intro hany
      rw [List.any_eq_true] at hany
      obtain ⟨pk, hpk, hp⟩ := hany
      obtain ⟨pr, hpr, e1, e2⟩ := h.p3 k c hc pk hpk
      apply hres.kill
      exact ⟨pr, hpr, by rw [e1]; simpa using hp, e2, markB_true (hfr pr hpr) hev⟩
    · intro hany
      apply hres.keep
      intro pr hpr hL hk
      exfalso
      obtain ⟨_, c0, hc0, pk, hpk, hpa, _⟩ := h.p2 pr hpr
      rw [hk, hc] at hc0
      cases hc0
      have : c.rq.any (fun pk => L.contains pk.aio) = true := by
        rw [List.any_eq_true]; exact ⟨pk, hpk, by rw [hpa]; simpa using hL⟩
      rw [hany] at this; cases this
  refine ⟨hres.err, by rw [hres.now, hnow]; exact h.now, by rw [hres.closed]; exact h.ncl, ?_, ?_, ?_, ?_, ?_,
    by rw [hres.sent, hiss]; exact h.sentV, by rw [hres.sent]; exact h.sentN, ?_,
    by rw [hres.arrivals]; exact h.arrS, by rw [hres.arrivals, hres.nseq]; exact h.arrB,
    by rw [hres.nseq, hnar]; exact h.nseq⟩
  · -- dom
    intro k
    rw [hctx]
    cases hc : getCtx s k with
    | none =>
      have hj := R0_ctx_none h hc
      have : j'.getCtx k = j.getCtx k := by
        apply hres.keep
        intro pr hpr _ hk
        obtain ⟨_, c0, hc0, _⟩ := h.p2 pr hpr
        rw [hk, hc] at hc0; cases hc0
      rw [this, hj]; rfl
    | some c =>
      obtain ⟨cj, hcj, _⟩ := R0_ctx_some h hc
      cases hany : c.rq.any (fun pk => L.contains pk.aio) with
      | true => rw [(hmark k c hc).1 hany, hcj]; rfl
      | false => rw [(hmark k c hc).2 hany, hcj]; rfl
  · -- ctx
    intro k c' cj' h1 h2
    rw [hctx] at h1
    cases hc : getCtx s k with
    | none => rw [hc] at h1; cases h1
    | some c =>
      rw [hc] at h1
      simp only [Option.map_some, Option.some.injEq] at h1
      subst h1
      obtain ⟨cj, hcj, hcr⟩ := R0_ctx_some h hc
      rw [hres.sent, hres.nseq, hres.arrivals, hiss]
      cases hany : c.rq.any (fun pk => L.contains pk.aio) with
      | false =>
        rw [(hmark k c hc).2 hany, hcj] at h2
        cases h2
        unfold kill; rw [if_neg (by rw [hany]; simp)]
        exact hcr
      | true =>
        rw [(hmark k c hc).1 hany, hcj] at h2
        simp only [Option.map_some, Option.some.injEq] at h2
        subst h2
        have hne : c.rq ≠ [] := by intro he; rw [he] at hany; simp at hany
        have hq : c.recvQ = [] := hex c (m_getCtx_mem hc) hne
        unfold kill; rw [if_pos hany]
        refine ⟨hcr.st, ?_, ?_, ?_, ?_, by simp [hq]⟩
        · intro hn
          exfalso
          have : cj.survey = none := by
            unfold markDead at hn
            cases hs : cj.survey with
            | none => rfl
            | some sv => rw [hs] at hn; simp at hn
          exact hne (hcr.nos this).2
        · intro sv' hsv'
          unfold markDead at hsv'
          cases hs : cj.survey with
          | none => rw [hs] at hsv'; simp at hsv'
          | some sv =>
            rw [hs] at hsv'
            simp only [Option.map_some, Option.some.injEq] at hsv'
            subst hsv'
            obtain ⟨a1, _, a3, a4⟩ := hcr.sv sv hs
            exact ⟨a1, by simp, a3, a4⟩
        · intro sv' _ hne0; exact absurd rfl hne0
        · intro sv' _ gm hgm
          simp only [hq] at hgm; cases hgm
  · rw [hres.pend]; exact List.Nodup.sublist (List.filter_sublist.map _) h.p1
  · -- p2
    intro pr hpr
    rw [hres.pend] at hpr
    have hm1 := List.mem_filter.mp hpr
    have hnl : pr.aio ∉ L := by simpa using hm1.2
    obtain ⟨hz, c, hc, pk, hpk, hpa, hdl⟩ := h.p2 pr hm1.1
    refine ⟨hz, kill L c, by rw [hctx, hc]; rfl, pk, ?_, hpa, ?_⟩
    · unfold kill
      split
      · apply List.mem_filter.mpr
        exact ⟨hpk, by rw [hpa]; simpa using hnl⟩
      · exact hpk
    · unfold DL at hdl ⊢
      have : (kill L c).expire = c.expire := by unfold kill; split <;> rfl
      rw [this]; exact hdl
  · -- p3
    intro k c' h1 pk hpk
    rw [hctx] at h1
    cases hc : getCtx s k with
    | none => rw [hc] at h1; cases h1
    | some c =>
      rw [hc] at h1
      simp only [Option.map_some, Option.some.injEq] at h1
      subst h1
      have hpk' : pk ∈ c.rq ∧ pk.aio ∉ L := by
        unfold kill at hpk
        split at hpk
        · have := List.mem_filter.mp hpk
          exact ⟨this.1, by simpa using this.2⟩
        · rename_i hany
          refine ⟨hpk, ?_⟩
          intro hin
          apply hany
          rw [List.any_eq_true]; exact ⟨pk, hpk, by simpa using hin⟩
      obtain ⟨pr, hpr, e1, e2⟩ := h.p3 k c hc pk hpk'.1
      refine ⟨pr, ?_, e1, e2⟩
      rw [hres.pend]
      apply List.mem_filter.mpr
      exact ⟨hpr, by rw [e1]; simpa using hpk'.2⟩
  · intro pp hpp m hmm
    rw [hpipes] at hpp
    rw [hres.sent, hiss]; exact h.sq pp hpp m hmm

/-! ### cancel / abort -/

theorem foldl_one (ev : Ev) (sa : Option Nat) (j : SurvJ) (a rv : Nat) :
    survOut ev sa j (.done a rv none false) = [a].foldl (fun j a => survOut ev sa j (.done a rv none false)) j := rfl

theorem cancelAio_sim {s : State} {j : SurvJ} (hR : R s j) (hm : MInv s) (ev : Ev) (a rv : Nat)
    (hev : (ev = .cancel a ∧ rv = Err.ecanceled) ∨ ev = .abort a rv) (hrv : rv ≠ 0)
    (hm' : MInv (cancelAio s a rv).1) :
    R (cancelAio s a rv).1 (survStep j ev (cancelAio s a rv).2) := by
  have h := hR.r0
  have hpre : ∀ outs, survPre j ev outs = (j, none) := by
    intro outs; rcases hev with ⟨rfl, _⟩ | rfl <;> rfl
  have hpa : ∀ outs j, survPostA ev outs j = j := by
    intro outs j; rcases hev with ⟨rfl, _⟩ | rfl <;> rfl
  have hpc : ∀ lp outs, pollClause lp ev outs = none := by
    intro lp outs
    apply pollClause_other <;> (intros; rcases hev with ⟨rfl, _⟩ | rfl <;> (intro h; cases h))
  have hpo : ∀ outs, pollOf ev outs = none := by
    intro outs; rcases hev with ⟨rfl, _⟩ | rfl <;> rfl
  have hns : ∀ k, newSurvey ev k = false := by
    intro k; rcases hev with ⟨rfl, _⟩ | rfl <;> rfl
  cases hf : s.ctxs.find? (fun c => c.rq.any (·.aio == a)) with
  | none =>
    rw [cancelAio_none rv hf] at hm' ⊢
    exact plain_sim hR hm' rfl rfl rfl rfl (fun pp hpp m hmm => ⟨pp, hpp, hmm⟩) (hpre _) (by simp) (hpa _)
      (fun lp => hpc lp _) (hpo _)
  | some c =>
    rw [cancelAio_some rv hf] at hm' ⊢
    dsimp only at hm' ⊢
    have hcm : c ∈ s.ctxs := List.mem_of_find?_eq_some hf
    have hany : c.rq.any (·.aio == a) = true := List.find?_some (p := fun c : Ctx => c.rq.any (·.aio == a)) hf
    have hc : getCtx s c.key = some c := getCtx_of_mem hm.x.keys hcm
    rw [List.any_eq_true] at hany
    obtain ⟨pk, hpk, hpa'⟩ := hany
    have hpka : pk.aio = a := by simpa using hpa'
    obtain ⟨pr, hpr, e1, e2⟩ := h.p3 c.key c hc pk hpk
    have hpra : pr.aio = a := by rw [e1, hpka]
    -- the judge's side
    have hres : FailRes ev j (survOut ev none j (.done a rv none false)) [a] := by
      rw [foldl_one]
      apply failBatch ev none rv hrv [a] j h.err (by simp) h.p1
      · intro a' ha'
        simp only [List.mem_singleton] at ha'
        subst ha'
        exact ⟨by simp, pr, hpr, hpra⟩
      · intro q hq hqa
        simp only [List.mem_singleton] at hqa
        rcases hev with ⟨rfl, hrv'⟩ | rfl
        · right; rw [hrv']; exact ⟨by decide, by decide, fun e => by cases e⟩
        · left; simp [abortedB, hqa]
    apply finish h.err (by rfl) (j2 := survOut ev none j (.done a rv none false)) _ _ hm' (by rfl) (hpc _ _) (Or.inl (hpo _))
    · rw [hpre, hpa]
      unfold survProc
      rcases hev with ⟨rfl, _⟩ | rfl <;> rfl
    · refine kill_R0 h (fun c hc => (hm.i.ctxsOK c hc).excl) hR.fresh hns hres ?_ (by rfl) (by rfl) (by rfl) (by rfl)
      intro k
      rw [m_getCtx_setCtx_k (c := { c with rq := c.rq.filter (·.aio != a), surveyId := 0 }) (k0 := c.key) rfl]
      by_cases hk : k = c.key
      · subst hk
        rw [if_pos rfl, hc]
        simp only [Option.map_some, Option.some.injEq]
        unfold kill
        rw [if_pos]
        · congr 1
          apply List.filter_congr
          intro x _
          simp only [bne, List.contains_cons, List.contains_nil, Bool.or_false]
        · rw [List.any_eq_true]; exact ⟨pk, hpk, by simp [hpka]⟩
      · rw [if_neg hk]
        cases hq : getCtx s k with
        | none => rfl
        | some q =>
          simp only [Option.map_some, Option.some.injEq]
          symm
          apply kill_noop
          intro pk2 hpk2 hin
          simp only [List.mem_singleton] at hin
          have := (hm.x.px q (m_getCtx_mem hq) c hcm).aiou pk2 hpk2 pk hpk (by rw [hin, hpka])
          rw [m_key hq] at this
          exact hk this

end Nng.SurvProofs
