/-
  SURVEYOR judge accepts the model, part B: a receive is submitted (refused at once, parked, or served
  from the queue).
-/
import NngModel.Proofs.SurvJudgeA
namespace Nng.SurvProofs
open Nng Nng.Proto Nng.Survey Nng.SurveySpec Nng.SurvJudge

/-! ### transformations of the per-context relation -/

theorem CR_bind {issued : List Nat} {sent : List (Bytes × Option Bytes)} {nseq : Nat} {arrivals : List Arrival}
    {c : Ctx} {cj : CtxJ} (h : CR issued sent nseq arrivals c cj) (b i : Bytes) :
    CR issued (bindL sent b i) nseq arrivals c cj :=
  ⟨h.st, h.nos, fun sv hsv => by rw [lookupId_bind]; exact h.sv sv hsv, h.qa, h.qb, h.qc⟩

theorem mem_markUsed {arr : List Arrival} {x : Nat} {a : Arrival} (h : a ∈ markUsed arr x) :
    ∃ a0 ∈ arr, a = if a0.seq == x then { a0 with used := true } else a0 := by
  unfold markUsed at h
  simp only [List.mem_map] at h
  obtain ⟨a0, h0, rfl⟩ := h
  exact ⟨a0, h0, rfl⟩

theorem markUsed_seq (arr : List Arrival) (x : Nat) : (markUsed arr x).map (·.seq) = arr.map (·.seq) := by
  unfold markUsed
  rw [List.map_map]
  apply List.map_congr_left
  intro a _
  simp only [Function.comp]
  split <;> rfl

theorem markUsed_sorted {arr : List Arrival} (x : Nat) (h : arr.Pairwise (fun a b => a.seq < b.seq)) :
    (markUsed arr x).Pairwise (fun a b => a.seq < b.seq) := by
  have h1 : (arr.map (·.seq)).Pairwise (· < ·) := List.pairwise_map.mpr h
  rw [← markUsed_seq arr x] at h1
  exact List.pairwise_map.mp h1

theorem markUsed_bound {arr : List Arrival} {n : Nat} (x : Nat) (h : ∀ a ∈ arr, a.seq < n) :
    ∀ a ∈ markUsed arr x, a.seq < n := by
  intro a ha
  obtain ⟨a0, h0, rfl⟩ := mem_markUsed ha
  have := h a0 h0
  split <;> exact this

/-- marking an arrival used that is not in this context's queue -/
theorem CR_used {issued : List Nat} {sent : List (Bytes × Option Bytes)} {nseq : Nat} {arrivals : List Arrival}
    {c : Ctx} {cj : CtxJ} (h : CR issued sent nseq arrivals c cj) (x : Nat) (hx : ∀ gm ∈ c.recvQ, gm.gid ≠ x) :
    CR issued sent nseq (markUsed arrivals x) c cj := by
  refine ⟨h.st, h.nos, h.sv, ?_, ?_, h.qc⟩
  · intro sv hsv hne a ha hu hs hid
    obtain ⟨a0, h0, rfl⟩ := mem_markUsed ha
    by_cases he : (a0.seq == x) = true
    · simp only [he, if_true] at hu; cases hu
    · simp only [he, Bool.false_eq_true, if_false] at hu hs hid ⊢
      exact h.qa sv hsv hne a0 h0 hu hs hid
  · intro sv hsv gm hgm
    obtain ⟨a0, h0, h1, h2, h3, h4, h5, h6⟩ := h.qb sv hsv gm hgm
    refine ⟨a0, ?_, h1, h2, h3, h4, h5, h6⟩
    unfold markUsed
    simp only [List.mem_map]
    refine ⟨a0, h0, ?_⟩
    have : ¬ (a0.seq == x) = true := by
      simp only [beq_iff_eq]; rw [h1]; exact hx gm hgm
    simp [this]

theorem CR_isLive {issued : List Nat} {sent : List (Bytes × Option Bytes)} {nseq : Nat} {arrivals : List Arrival}
    {c : Ctx} {cj : CtxJ} (h : CR issued sent nseq arrivals c cj) (now : Nat) :
    isLive now cj = true ↔ (c.surveyId ≠ 0 ∧ (now : Int) < c.expire) := by
  unfold isLive
  cases hs : cj.survey with
  | none =>
    simp only [Bool.false_eq_true, false_iff, not_and]
    intro hne; exact absurd (h.nos hs).1 hne
  | some sv =>
    obtain ⟨hd, hdead, _, _⟩ := h.sv sv hs
    simp only [Bool.and_eq_true, Bool.not_eq_true', decide_eq_true_eq, hd]
    rw [hdead]

/-! ### judge: a receive is submitted -/

def recvOwn (now : Nat) : Mode → Option Int
  | .nb => none
  | .ms 0 => none
  | .ms n => some ((now : Int) + n)
  | _ => none

def recvZero : Mode → Bool
  | .nb => true
  | .ms 0 => true
  | _ => false

def prNew (j : SurvJ) (k : Option Nat) (a : Nat) (mode : Mode) : PendRecv :=
  { aio := a, ctx := k, own := recvOwn j.now mode, fresh := true, zero := recvZero mode }

/-- the event part of a receive step when the judge has no objection -/
theorem pre_recv {j : SurvJ} {k : Option Nat} {a : Nat} {mode : Mode} {outs : List Out}
    (h : ∀ cj, j.getCtx k = some cj → isLive j.now cj = false → ∃ m, doneOf outs a = some (Err.estate, m)) :
    survPre j (.recv k a mode) outs = ({ j with pend := j.pend ++ [prNew j k a mode] }, none) := by
  have hg : ∀ (P : List PendRecv), SurvJ.getCtx { j with pend := P } k = j.getCtx k := fun _ => rfl
  cases hc : j.getCtx k with
  | none =>
    cases mode with
    | ms n => cases n <;> simp [survPre, hg, hc, prNew, recvOwn, recvZero]
    | _ => simp [survPre, hg, hc, prNew, recvOwn, recvZero]
  | some cj =>
    cases hl : isLive j.now cj with
    | true =>
      cases mode with
      | ms n => cases n <;> simp [survPre, hg, hc, hl, prNew, recvOwn, recvZero]
      | _ => simp [survPre, hg, hc, hl, prNew, recvOwn, recvZero]
    | false =>
      obtain ⟨m, hd⟩ := h cj hc hl
      cases mode with
      | ms n => cases n <;> simp [survPre, hg, hc, hl, hd, prNew, recvOwn, recvZero]
      | _ => simp [survPre, hg, hc, hl, hd, prNew, recvOwn, recvZero]

theorem find_new {pend : List PendRecv} {pr : PendRecv} (h : ∀ q ∈ pend, q.aio ≠ pr.aio) :
    (pend ++ [pr]).find? (·.aio == pr.aio) = some pr := by
  rw [List.find?_append]
  have : pend.find? (·.aio == pr.aio) = none := by
    rw [List.find?_eq_none]; intro q hq; simpa using h q hq
  rw [this]; simp

theorem filter_new {pend : List PendRecv} {pr : PendRecv} (h : ∀ q ∈ pend, q.aio ≠ pr.aio) :
    (pend ++ [pr]).filter (·.aio != pr.aio) = pend := by
  rw [List.filter_append]
  have h1 : pend.filter (·.aio != pr.aio) = pend := by
    rw [List.filter_eq_self]; intro q hq; simpa using h q hq
  rw [h1]; simp

theorem survProc_one_done (ev : Ev) (hev : ∀ k a m md, ev ≠ .send k a m md) (sa : Option Nat) (j : SurvJ)
    (a rv : Nat) (msg : Option WMsg) (b : Bool) :
    survProc ev sa [.done a rv msg b] j = survOut ev sa j (.done a rv msg b) := by
  unfold survProc
  cases ev <;> first | rfl | (exact absurd rfl (hev _ _ _ _))

theorem not_busy_pend {s : State} {j : SurvJ} (h : R0 s j) {a : Nat} (hb : aioBusy s a = false) :
    ∀ q ∈ j.pend, q.aio ≠ a := by
  intro q hq he
  obtain ⟨_, c, hc, pk, hpk, hpa, _⟩ := h.p2 q hq
  exact aioBusy_false hb c (m_getCtx_mem hc) pk hpk (by rw [hpa, he])

/-- a receive that fails in its own step leaves the judge where it was -/
theorem recv_fail_judge {j : SurvJ} {k : Option Nat} {a rv : Nat} {mode : Mode} (hrv : rv ≠ 0)
    (hfree : ∀ q ∈ j.pend, q.aio ≠ a)
    (hest : ∀ cj, j.getCtx k = some cj → isLive j.now cj = false → rv = Err.estate)
    (h5 : rv = Err.etimedout → recvZero mode = true) (h8 : rv = Err.eagain → recvZero mode = true)
    (h11 : rv = Err.estate → ∀ cj, j.getCtx k = some cj → isLive j.now cj = false) :
    survPostA (.recv k a mode) [.done a rv none false]
      (survProc (.recv k a mode) (survPre j (.recv k a mode) [.done a rv none false]).2 [.done a rv none false]
        (survPre j (.recv k a mode) [.done a rv none false]).1) = j := by
  have hpre : survPre j (.recv k a mode) [.done a rv none false] = ({ j with pend := j.pend ++ [prNew j k a mode] }, none) := by
    apply pre_recv
    intro cj hc hl
    refine ⟨none, ?_⟩
    rw [hest cj hc hl]
    simp [doneOf]
  rw [hpre]
  simp only
  rw [survProc_one_done _ (by intro _ _ _ _ h; cases h)]
  have hfree' : ∀ q ∈ j.pend, q.aio ≠ (prNew j k a mode).aio := hfree
  rw [survOut_done_recv (pr := prNew j k a mode) (by simp) (find_new hfree')]
  rw [survRecvDone_fail hrv]
  · unfold failOne
    have hm : markB (.recv k a mode) (prNew j k a mode) = false := by simp [markB, prNew]
    simp only [hm, Bool.false_eq_true, if_false]
    rw [filter_new hfree']
    split <;> rfl
  · intro _ h hz
    have := h5 h
    simp [prNew, this] at hz
  · intro _ h
    exact h8 h
  · intro _ h
    exact ⟨rfl, fun c hc => h11 h c hc⟩

theorem pollClause_recv_done (lp : Option (Option Bool × Option Bool)) (k : Option Nat) (a : Nat) (mode : Mode)
    (rv : Nat) (m : Option WMsg) (b : Bool)
    (hlp : ∀ r w, lp = some (r, w) → k = none → mode = .nb →
      (r = some true → rv ≠ Err.eagain) ∧ (r = some false → rv ≠ 0)) :
    pollClause lp (.recv k a mode) [.done a rv m b] = none := by
  cases lp with
  | none => simp [pollClause]
  | some x =>
    obtain ⟨r, w⟩ := x
    cases k with
    | some _ => simp [pollClause]
    | none =>
      cases mode with
      | nb =>
        have := hlp r w rfl rfl rfl
        cases r with
        | none => simp [pollClause]
        | some rb =>
          cases rb with
          | true =>
            have h1 := this.1 rfl
            simp [pollClause, doneOf, h1]
          | false =>
            have h1 := this.2 rfl
            simp [pollClause, doneOf, h1]
      | _ => simp [pollClause]

theorem pollClause_recv_nil (lp : Option (Option Bool × Option Bool)) (k : Option Nat) (a : Nat) (mode : Mode) :
    pollClause lp (.recv k a mode) [] = none := by
  cases lp with
  | none => simp [pollClause]
  | some x =>
    obtain ⟨r, w⟩ := x
    cases k with
    | some _ => simp [pollClause]
    | none =>
      cases mode <;> first | (simp [pollClause]; done) | (cases r with
        | none => simp [pollClause]
        | some rb => cases rb <;> simp [pollClause, doneOf])

/-! ### receive on a context that does not exist -/

theorem recv_closed_sim {s : State} {j : SurvJ} (hR : R s j) (hm : MInv s) (k : Option Nat) (a : Nat) (mode : Mode)
    (hc : getCtx s k = none) (hb : aioBusy s a = false) :
    R s (survStep j (.recv k a mode) [.done a Err.eclosed none false]) := by
  have h := hR.r0
  have hj := R0_ctx_none h hc
  apply finish h.err (by rfl) (j2 := j) _ h hm (by rfl)
    (pollClause_recv_done _ _ _ _ _ _ _ (by intro r w _ _ _; exact ⟨fun _ => by decide, fun _ => by decide⟩)) (Or.inl rfl)
  · exact recv_fail_judge (by decide) (not_busy_pend h hb) (by intro cj hcj; rw [hj] at hcj; cases hcj)
      (by intro h; cases h) (by intro h; cases h) (by intro h; cases h)

/-! ### ids -/

theorem issued_bound {s : State} (hx : XInv s) : ∀ id ∈ s.issued, 2147483648 ≤ id ∧ id < 4294967296 := by
  intro id hid
  have h1 := hx.rng id hid
  have h2 := hx.cnt
  rw [idSpan_eq] at h2
  rw [idMin_eq] at h1
  omega

theorem issued_lt {s : State} (hx : XInv s) : ∀ id ∈ s.issued, id < 4294967296 :=
  fun id hid => (issued_bound hx id hid).2

/-- a live context's id is an issued one -/
theorem cur_issued {s : State} (hx : XInv s) {c : Ctx} (hc : c ∈ s.ctxs) (hne : c.surveyId ≠ 0) :
    c.surveyId = c.lastId ∧ c.surveyId ∈ s.issued := by
  have h1 := (hx.cx c hc).cur hne
  refine ⟨h1, ?_⟩
  rw [h1]
  exact (hx.cx c hc).last (by rw [← h1]; exact hne)

/-- how the judge's `sent` may move in a step: the same surveys in the same order, ids still consistent -/
def SentStep (issued : List Nat) (sent sent' : List (Bytes × Option Bytes)) : Prop :=
  SentVal sent' issued ∧ sent'.map (·.1) = sent.map (·.1)

theorem sentStep_refl {issued : List Nat} {sent : List (Bytes × Option Bytes)} (hv : SentVal sent issued) :
    SentStep issued sent sent := ⟨hv, rfl⟩

theorem sentStep_bind {issued : List Nat} {sent sent' : List (Bytes × Option Bytes)} {b : Bytes} {id : Nat}
    (hv : SentVal sent issued) (hn : (sent.map (·.1)).Nodup) (hl : lookupId sent issued b = some id)
    (he : sent' = bindL sent b (enc id)) : SentStep issued sent sent' := by
  subst he
  exact ⟨sentVal_bind hv hn hl, bindL_fst _ _ _⟩

theorem sentStep_trans {issued : List Nat} {s1 s2 s3 : List (Bytes × Option Bytes)} (h1 : SentStep issued s1 s2)
    (h2 : SentStep issued s2 s3) : SentStep issued s1 s3 := ⟨h2.1, h2.2.trans h1.2⟩

theorem sentStep_facts {issued : List Nat} {sent sent' : List (Bytes × Option Bytes)} (h : SentStep issued sent sent') :
    SentVal sent' issued ∧ sent'.map (·.1) = sent.map (·.1) ∧ ∀ b, lookupId sent' issued b = lookupId sent issued b :=
  ⟨h.1, h.2, fun b => lookupId_congr issued b h.2⟩

theorem CR_sent {issued : List Nat} {sent sent' : List (Bytes × Option Bytes)} {nseq : Nat} {arrivals : List Arrival}
    {c : Ctx} {cj : CtxJ} (h : CR issued sent nseq arrivals c cj)
    (hl : ∀ b, lookupId sent' issued b = lookupId sent issued b) : CR issued sent' nseq arrivals c cj :=
  ⟨h.st, h.nos, fun sv hsv => by rw [hl]; exact h.sv sv hsv, h.qa, h.qb, h.qc⟩

/-- the judge learnt an id: everything else is as before -/
theorem R0_sent {s : State} {j j' : SurvJ} (h : R0 s j) (hs : SentStep s.issued j.sent j'.sent)
    (h1 : j'.err = j.err) (h2 : j'.now = j.now) (h3 : j'.closed = j.closed) (h4 : j'.ctxs = j.ctxs)
    (h5 : j'.pend = j.pend) (h7 : j'.arrivals = j.arrivals) (h8 : j'.nseq = j.nseq) : R0 s j' := by
  obtain ⟨f1, f2, f3⟩ := sentStep_facts hs
  have hg : ∀ k, j'.getCtx k = j.getCtx k := by intro k; unfold SurvJ.getCtx; rw [h4]
  refine ⟨h1 ▸ h.err, h2 ▸ h.now, h3 ▸ h.ncl, ?_, ?_, h5 ▸ h.p1, ?_, ?_, f1, f2 ▸ h.sentN, ?_,
    h7 ▸ h.arrS, ?_, h8 ▸ h.nseq⟩
  · intro k; rw [hg]; exact h.dom k
  · intro k c cj g1 g2; rw [hg] at g2; rw [h7, h8]; exact CR_sent (h.ctx k c cj g1 g2) f3
  · intro pr hpr; rw [h5] at hpr; exact h.p2 pr hpr
  · intro k c g1 pk hpk; rw [h5]; exact h.p3 k c g1 pk hpk
  · intro pp hpp m hm; rw [f3]; exact h.sq pp hpp m hm
  · intro a ha; rw [h7] at ha; rw [h8]; exact h.arrB a ha

/-! ### which arrival a delivery stands for -/

theorem find_le {l : List Arrival} {p : Arrival → Bool} {a b : Arrival}
    (hs : l.Pairwise (fun x y => x.seq < y.seq)) (hf : l.find? p = some a) (hb : b ∈ l) (hp : p b = true) :
    a.seq ≤ b.seq := by
  induction l with
  | nil => cases hb
  | cons x t ih =>
    rw [List.pairwise_cons] at hs
    rw [List.find?_cons] at hf
    by_cases hx : p x = true
    · simp only [hx] at hf
      have : x = a := Option.some.inj hf
      subst this
      rcases List.mem_cons.mp hb with rfl | hb
      · exact Nat.le_refl _
      · exact Nat.le_of_lt (hs.1 b hb)
    · simp only [hx] at hf
      rcases List.mem_cons.mp hb with rfl | hb
      · exact absurd hp hx
      · exact ih hs.2 hf hb

theorem arr_unique {l : List Arrival} {a b : Arrival} (hs : l.Pairwise (fun x y => x.seq < y.seq))
    (ha : a ∈ l) (hb : b ∈ l) (he : a.seq = b.seq) : a = b := by
  induction l with
  | nil => cases ha
  | cons x t ih =>
    rw [List.pairwise_cons] at hs
    rcases List.mem_cons.mp ha with e1 | ha' <;> rcases List.mem_cons.mp hb with e2 | hb'
    · rw [e1, e2]
    · have := hs.1 b hb'; rw [e1] at he; omega
    · have := hs.1 a ha'; rw [e2] at he; omega
    · exact ih hs.2 ha' hb'

/-- the judge's search finds exactly the arrival of the queue's head -/
theorem find_head {issued : List Nat} {sent : List (Bytes × Option Bytes)} {nseq : Nat} {arrivals : List Arrival}
    {c : Ctx} {cj : CtxJ} {sv : SurveyJ} {gm : GMsg} {rest : List GMsg}
    (h : CR issued sent nseq arrivals c cj) (hs : cj.survey = some sv) (hne : c.surveyId ≠ 0)
    (hq : c.recvQ = gm :: rest) (hsort : arrivals.Pairwise (fun x y => x.seq < y.seq)) :
    ∃ a, arrivals.find? (arrP sv gm.m) = some a ∧ a.seq = gm.gid := by
  obtain ⟨a0, h0, h1, h2, h3, h4, h5, h6⟩ := h.qb sv hs gm (by rw [hq]; simp)
  have hp0 : arrP sv gm.m a0 = true := by
    simp [arrP, h2, h3, h4, h5]
  cases hf : arrivals.find? (arrP sv gm.m) with
  | none =>
    rw [List.find?_eq_none] at hf
    exact absurd hp0 (hf a0 h0)
  | some a =>
    refine ⟨a, rfl, ?_⟩
    have hle := find_le hsort hf h0 hp0
    have hpa := List.find?_some hf
    have hma := List.mem_of_find?_eq_some hf
    simp only [arrP, Bool.and_eq_true, Bool.not_eq_true', decide_eq_true_eq, beq_iff_eq] at hpa
    obtain ⟨gm', hgm', hg'⟩ := h.qa sv hs hne a hma hpa.1.1.1 hpa.1.1.2 (by rw [hpa.1.2, h6])
    have hqc := h.qc
    rw [hq, List.map_cons, List.pairwise_cons] at hqc
    rw [hq] at hgm'
    rcases List.mem_cons.mp hgm' with rfl | hr
    · exact hg'.symm
    · have := hqc.1 gm'.gid (List.mem_map.mpr ⟨gm', hr, rfl⟩)
      omega

end Nng.SurvProofs
