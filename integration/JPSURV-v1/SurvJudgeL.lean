/-
  SURVEYOR model: the `closed` flag along a step (needed to know in which phase the simulation is).
-/
import NngModel.Proofs.SurvJudgeInv
namespace Nng.Survey
open Nng Nng.Proto

theorem clearReadableIf_closed (s : State) (k : Option Nat) : (clearReadableIf s k).closed = s.closed := by
  unfold clearReadableIf; split <;> rfl

theorem ctxRecv_closed (s : State) (c : Ctx) (a : Nat) (mode : Mode) : (ctxRecv s c a mode).1.closed = s.closed := by
  unfold ctxRecv
  split
  · rfl
  · simp only
    split
    · split <;> rfl
    · simp only
      split
      · exact clearReadableIf_closed _ _
      · rfl

theorem ctxSend_closed (s : State) (c : Ctx) (a : Nat) (m : WMsg) : (ctxSend s c a m).1.closed = s.closed := by
  unfold ctxSend
  simp only
  split
  · exact clearReadableIf_closed _ _
  · show (clearReadableIf _ _).closed = _
    exact clearReadableIf_closed _ _

theorem pipeRecv_closed (s : State) (p : Nat) (b : Bytes) : (pipeRecv s p b).1.closed = s.closed := by
  unfold pipeRecv
  split
  · exact (closePipe_fields s p).2.2.2.2
  · simp only
    split
    · rfl
    · split
      · rfl
      · split
        · rfl
        · simp only; split <;> rfl

theorem cancelAio_closed (s : State) (a rv : Nat) : (cancelAio s a rv).1.closed = s.closed := by
  unfold cancelAio
  split <;> rfl

theorem step_closed_false (s : State) (ev : Ev) (ho : s.opened = true) (hc : s.closed = false) (hne : ev ≠ .close) :
    (step s ev).1.closed = false := by
  unfold step
  rw [if_neg (by simp [ho]), if_neg (by simp [hc])]
  cases ev with
  | openSock _ _ => exact hc
  | pipeAdd peer => simp only; split <;> exact hc
  | pipeDrop p =>
    simp only
    split
    · split
      · exact hc
      · rw [(closePipe_fields s p).2.2.2.2]; exact hc
    · exact hc
  | sendDone p rv =>
    simp only
    split
    · split
      · exact hc
      · split
        · rw [(closePipe_fields s p).2.2.2.2]; exact hc
        · split <;> exact hc
    · exact hc
  | recvDone p r =>
    simp only
    split
    · split
      · exact hc
      · split
        · rw [(closePipe_fields s p).2.2.2.2]; exact hc
        · rw [pipeRecv_closed]; exact hc
    · exact hc
  | send k a m mode =>
    simp only
    split
    · exact hc
    · split
      · exact hc
      · rw [ctxSend_closed]; exact hc
  | recv k a mode =>
    simp only
    split
    · exact hc
    · split
      · exact hc
      · rw [ctxRecv_closed]; exact hc
  | cancel a => show (cancelAio s a _).1.closed = false; rw [cancelAio_closed]; exact hc
  | abort a rv => show (cancelAio s a rv).1.closed = false; rw [cancelAio_closed]; exact hc
  | advance ms => exact hc
  | ctxOpen k =>
    simp only
    split
    · exact hc
    · split
      · exact hc
      · split <;> exact hc
  | ctxClose k => simp only; split <;> exact hc
  | setopt k name ty v =>
    simp only
    split
    · split
      · exact hc
      · split <;> exact hc
    · split
      · split <;> exact hc
      · exact hc
  | getopt k name ty =>
    simp only
    split
    · split <;> exact hc
    · split <;> exact hc
  | poll => exact hc
  | sub _ _ => exact hc
  | unsub _ _ => exact hc
  | close => exact absurd rfl hne

theorem step_close_closed (s : State) (ho : s.opened = true) (hc : s.closed = false) : (step s .close).1.closed = true := by
  unfold step
  rw [if_neg (by simp [ho]), if_neg (by simp [hc])]
  rfl

/-- a socket that is not open: only `open` and `advance` do anything -/
theorem step_unopened (s : State) (ev : Ev) (ho : s.opened = false) :
    (step s ev).1.closed = s.closed ∧
    ((∃ p r, ev = .openSock p r ∧ step s ev = ({ s with opened := true, writable := true, ctxs := [{ key := none, recvCap := Nng.Generated.survRecvBufInit, surveyTime := Nng.Generated.survTimeInit }] }, [.rv 0])) ∨
     (∃ ms, ev = .advance ms ∧ step s ev = ({ s with now := s.now + ms }, [])) ∨
     (∃ msg, step s ev = (s, [.other msg]))) := by
  unfold step
  rw [if_pos (by simp [ho])]
  cases ev <;> first
    | exact ⟨rfl, Or.inl ⟨_, _, rfl, rfl⟩⟩
    | exact ⟨rfl, Or.inr (Or.inl ⟨_, rfl, rfl⟩)⟩
    | exact ⟨rfl, Or.inr (Or.inr ⟨_, rfl⟩)⟩

/-- a closed socket: only `advance` does anything -/
theorem step_closed (s : State) (ev : Ev) (ho : s.opened = true) (hc : s.closed = true) :
    (step s ev).1.closed = true ∧ (step s ev).1.opened = true ∧
    ((∃ ms, ev = .advance ms ∧ (step s ev).2 = []) ∨ (∃ msg, (step s ev).2 = [.other msg])) := by
  unfold step
  rw [if_neg (by simp [ho]), if_pos hc]
  cases ev <;> first
    | exact ⟨hc, ho, Or.inl ⟨_, rfl, rfl⟩⟩
    | exact ⟨hc, ho, Or.inr ⟨_, rfl⟩⟩

end Nng.Survey
