/-! ### JUDGE (SURVEYOR) — the executable specification accepts every trace of the cooked SURVEYOR model
    (proof: Proofs/SurvJudge*.lean; add `import NngModel.Proofs.SurvJudgeMain` to the imports of this file) -/

/-- JUDGE (SURVEYOR): for every event sequence the trace of the model `Model/Survey.lean` is accepted by the executable
    trace predicate `survJudge` (Spec/Survey.lean) — the predicate the check runs on every trace of the implementation.
    Hypotheses, each needed (`surv_judge_needs_*` below; the bound on the number of surveys cannot be shown by `decide`):
    * survey bodies pairwise distinct (the judge identifies surveys by their bodies);
    * at most 2^31 surveys (`idSpan` = size of the id range): then `nni_id_alloc` wraps, ids repeat, the judge wants fresh ids;
    * no `abort aio 0` (harness-only: a parked receive "succeeds" without a message);
    * `NoOverflow`: no response is dropped because the receive queue (depth 128) of its survey's context is full;
    * `OffDeadlines`: `advance` never lands exactly on the expiry of a parked receive (the harness rule). -/
theorem surv_judge_accepts_model (evs : List Ev)
    (hb : (Nng.SurvProofs.sendBodies evs).Nodup) (hn : (Nng.SurvProofs.sendBodies evs).length ≤ Nng.Survey.idSpan)
    (ha : Nng.SurvProofs.NoAbort0 evs) (ho : Nng.SurvProofs.NoOverflow evs) (hd : Nng.SurvProofs.OffDeadlines evs) :
    Nng.SurveySpec.survJudge (evs.zip (Nng.Survey.run {} evs).2) = none :=
  Nng.SurvProofs.surv_judge_accepts_model evs hb hn ha ho hd

/-- the same with the number of events bounded instead of the number of surveys -/
theorem surv_judge_accepts_model_short (evs : List Ev) (hb : (Nng.SurvProofs.sendBodies evs).Nodup)
    (hn : evs.length ≤ 2147483648) (ha : Nng.SurvProofs.NoAbort0 evs) (ho : Nng.SurvProofs.NoOverflow evs)
    (hd : Nng.SurvProofs.OffDeadlines evs) :
    Nng.SurveySpec.survJudge (evs.zip (Nng.Survey.run {} evs).2) = none :=
  Nng.SurvProofs.surv_judge_accepts_model_short evs hb hn ha ho hd

/-- `NoOverflow` holds whenever the transport delivers at most 128 messages (the receive queue depth) in the run -/
theorem surv_judge_no_overflow_of_few_arrivals (evs : List Ev) (h : Nng.SurvProofs.arrivalCount evs ≤ 128) :
    Nng.SurvProofs.NoOverflow evs := Nng.SurvProofs.noOverflow_of_few_arrivals evs h

/-- two surveys with the same body: "one survey went out with two different ids" -/
theorem surv_judge_needs_distinct_bodies :
    (Nng.SurvProofs.sendBodies Nng.SurvProofs.cexSameBody).length ≤ Nng.Survey.idSpan ∧
    Nng.SurvProofs.NoAbort0 Nng.SurvProofs.cexSameBody ∧ Nng.SurvProofs.NoOverflow Nng.SurvProofs.cexSameBody ∧
    Nng.SurvProofs.OffDeadlines Nng.SurvProofs.cexSameBody ∧
    (Nng.SurveySpec.survJudge (Nng.SurvProofs.cexSameBody.zip (Nng.Survey.run {} Nng.SurvProofs.cexSameBody).2)).isSome = true :=
  Nng.SurvProofs.surv_judge_needs_distinct_bodies

/-- `abort aio 0`: "receive succeeded without a message" -/
theorem surv_judge_needs_no_abort0 :
    (Nng.SurvProofs.sendBodies Nng.SurvProofs.cexAbort0).Nodup ∧
    (Nng.SurvProofs.sendBodies Nng.SurvProofs.cexAbort0).length ≤ Nng.Survey.idSpan ∧
    Nng.SurvProofs.NoOverflow Nng.SurvProofs.cexAbort0 ∧ Nng.SurvProofs.OffDeadlines Nng.SurvProofs.cexAbort0 ∧
    (Nng.SurveySpec.survJudge (Nng.SurvProofs.cexAbort0.zip (Nng.Survey.run {} Nng.SurvProofs.cexAbort0).2)).isSome = true :=
  Nng.SurvProofs.surv_judge_needs_no_abort0

/-- FINDING (judge stricter than model and code): 129 responses to one survey before any receive — the protocol keeps 128
    and drops one; the 129th receive is parked and the judge reports "kept waiting although a response … has arrived" -/
theorem surv_judge_needs_no_overflow :
    (Nng.SurvProofs.sendBodies Nng.SurvProofs.cexOverflow).Nodup ∧
    (Nng.SurvProofs.sendBodies Nng.SurvProofs.cexOverflow).length ≤ Nng.Survey.idSpan ∧
    Nng.SurvProofs.NoAbort0 Nng.SurvProofs.cexOverflow ∧ Nng.SurvProofs.OffDeadlines Nng.SurvProofs.cexOverflow ∧
    (Nng.SurveySpec.survJudge (Nng.SurvProofs.cexOverflow.zip (Nng.Survey.run {} Nng.SurvProofs.cexOverflow).2)).isSome = true :=
  Nng.SurvProofs.surv_judge_needs_no_overflow

/-- FINDING (model and judge disagree at the deadline instant): open; pipe_add; send (survey time 1000); recv inf (parked);
    advance 1000; a response arrives — the model (as survey.c) completes the parked receive with the response, the judge
    says "receive 1 delivered a response after the survey deadline" (it demands `now < deadline`) -/
theorem surv_judge_needs_off_deadlines :
    (Nng.SurvProofs.sendBodies Nng.SurvProofs.cexDeadlineInstant).Nodup ∧
    (Nng.SurvProofs.sendBodies Nng.SurvProofs.cexDeadlineInstant).length ≤ Nng.Survey.idSpan ∧
    Nng.SurvProofs.NoAbort0 Nng.SurvProofs.cexDeadlineInstant ∧ Nng.SurvProofs.NoOverflow Nng.SurvProofs.cexDeadlineInstant ∧
    (Nng.Survey.run {} Nng.SurvProofs.cexDeadlineInstant).2.getLast? =
      some [.rv 0, .done 1 0 (some ⟨[0x80, 0, 0, 0], [9]⟩) false, .parm 0] ∧
    Nng.SurveySpec.survJudge (Nng.SurvProofs.cexDeadlineInstant.zip (Nng.Survey.run {} Nng.SurvProofs.cexDeadlineInstant).2) =
      some "receive 1 delivered a response after the survey deadline" :=
  Nng.SurvProofs.surv_judge_needs_off_deadlines

/-- non-vacuity: the hypotheses hold for `SurvProofs.demo` (24 events: two contexts, two pipes, a survey queued behind a busy
    pipe, delivery to a parked receive and from the queue, poll, cancel, abort, a timeout when `advance` passes the deadline, ESTATE,
    ctx_close, close) and its trace is accepted through the theorem -/
theorem surv_judge_demo :
    ((Nng.SurvProofs.sendBodies Nng.SurvProofs.demo).Nodup ∧
     (Nng.SurvProofs.sendBodies Nng.SurvProofs.demo).length ≤ Nng.Survey.idSpan ∧ Nng.SurvProofs.NoAbort0 Nng.SurvProofs.demo ∧
     Nng.SurvProofs.NoOverflow Nng.SurvProofs.demo ∧ Nng.SurvProofs.OffDeadlines Nng.SurvProofs.demo) ∧
    (((Nng.Survey.run {} Nng.SurvProofs.demo).1.delivered.map fun d => (d.aio, d.direct)) = [(2, false), (4, true)]) ∧
    Nng.SurveySpec.survJudge (Nng.SurvProofs.demo.zip (Nng.Survey.run {} Nng.SurvProofs.demo).2) = none :=
  ⟨Nng.SurvProofs.demo_hyps, Nng.SurvProofs.demo_run.1, Nng.SurvProofs.demo_accepted⟩
