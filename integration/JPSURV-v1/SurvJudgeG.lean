/-
  SURVEYOR judge accepts the model, part G: the transport completes — a queued survey goes out after
  `send_done`, a response arrives (`surv0_pipe_recv_cb`: unknown id, queued, handed to a parked receive).
-/
import NngModel.Proofs.SurvJudgeF
namespace Nng.SurvProofs
open Nng Nng.Proto Nng.Survey Nng.SurveySpec Nng.SurvJudge

/-! ### a survey is seen on a wire -/

theorem wire_step {s : State} {j : SurvJ} (h : R0 s j) (hm : MInv s) {p : Nat} {m : WMsg} {id : Nat}
    (hl : lookupId j.sent s.issued m.body = some id) (hh : m.hdr = enc id) :
    ∃ S', SentStep s.issued j.sent S' ∧ survWire j p m = { j with sent := S' } := by
  have hany := lookupId_any hl
  have hb := issued_bound hm.x id (lookupId_mem hl)
  rcases idOfL_of_lookup h.sentV hl with ho | ho
  · refine ⟨bindL j.sent m.body m.hdr, sentStep_bind h.sentV h.sentN hl (by rw [hh]), ?_⟩
    rw [survWire_bind hany (by rw [idOf_eq]; exact ho) (by rw [hh]; exact validId_enc hb.1 hb.2)
      (knownId_false (by rw [hh]; exact not_known_of_unbound h.sentV hm.x.nodup (issued_lt hm.x) hl ho))]
    rfl
  · refine ⟨j.sent, sentStep_refl h.sentV, ?_⟩
    rw [survWire_known hany (by rw [idOf_eq, hh]; exact ho)]

/-- `send_done` with a survey waiting in the pipe's queue -/
theorem sendNext_sim {s : State} {j : SurvJ} (hR : R s j) (hm : MInv s) (p rv : Nat) (pp : Pipe) (m : WMsg) (rest : List WMsg)
    (hpp : getPipe s p = some pp) (hq : pp.sendQ = m :: rest) (hm' : MInv (setPipe s { pp with sendQ := rest })) :
    R (setPipe s { pp with sendQ := rest }) (survStep j (.sendDone p rv) [.rv 0, .psend p m]) := by
  have h := hR.r0
  obtain ⟨id, hl, hh⟩ := h.sq pp (getPipe_mem hpp) m (by rw [hq]; simp)
  obtain ⟨S', hS, hw⟩ := wire_step (p := p) h hm hl hh
  apply finish h.err (by rfl) (j2 := { j with sent := S' }) _ _ hm' (by rfl)
    (pollClause_other (by intro a h; cases h) (by intro a m h; cases h)) (Or.inl rfl)
  · show survPostA _ _ (survProc (.sendDone p rv) none [.rv 0, .psend p m] j) = _
    rw [survProc_nosend (by intro _ _ _ _ h; cases h)]
    show survWire j p m = _
    exact hw
  · have hA : R0 s { j with sent := S' } := R0_sent h hS rfl rfl rfl rfl rfl rfl rfl
    refine R0_frame hA (by rfl) (by rfl) (by rfl) (by rfl) ?_
    apply setPipe_sendQ
    intro m' hm''
    exact ⟨pp, getPipe_mem hpp, by rw [hq]; exact List.mem_cons_of_mem _ hm''⟩

/-! ### a response arrives: the per-context relation with one more arrival -/

theorem CR_arrive_used {issued : List Nat} {sent : List (Bytes × Option Bytes)} {nseq : Nat} {arrivals : List Arrival}
    {c : Ctx} {cj : CtxJ} (h : CR issued sent nseq arrivals c cj) (an : Arrival) (hu : an.used = true) :
    CR issued sent (nseq + 1) (arrivals ++ [an]) c cj := by
  refine ⟨h.st, h.nos, ?_, ?_, ?_, h.qc⟩
  · intro sv hsv
    obtain ⟨a1, a2, a3, a4⟩ := h.sv sv hsv
    exact ⟨a1, a2, a3, by omega⟩
  · intro sv hsv hne a ha hua hs hid
    rcases List.mem_append.mp ha with ha | ha
    · exact h.qa sv hsv hne a ha hua hs hid
    · simp only [List.mem_singleton] at ha
      subst ha; rw [hu] at hua; cases hua
  · intro sv hsv gm hgm
    obtain ⟨a, ha, rest⟩ := h.qb sv hsv gm hgm
    exact ⟨a, List.mem_append_left _ ha, rest⟩

theorem CR_arrive_other {issued : List Nat} {sent : List (Bytes × Option Bytes)} {nseq : Nat} {arrivals : List Arrival}
    {c : Ctx} {cj : CtxJ} (h : CR issued sent nseq arrivals c cj) (an : Arrival)
    (hid : c.surveyId ≠ 0 → an.id ≠ enc c.surveyId) : CR issued sent (nseq + 1) (arrivals ++ [an]) c cj := by
  refine ⟨h.st, h.nos, ?_, ?_, ?_, h.qc⟩
  · intro sv hsv
    obtain ⟨a1, a2, a3, a4⟩ := h.sv sv hsv
    exact ⟨a1, a2, a3, by omega⟩
  · intro sv hsv hne a ha hua hs hida
    rcases List.mem_append.mp ha with ha | ha
    · exact h.qa sv hsv hne a ha hua hs hida
    · simp only [List.mem_singleton] at ha
      subst ha; exact absurd hida (hid hne)
  · intro sv hsv gm hgm
    obtain ⟨a, ha, rest⟩ := h.qb sv hsv gm hgm
    exact ⟨a, List.mem_append_left _ ha, rest⟩

theorem arr_append_sorted {arrivals : List Arrival} {n : Nat} (an : Arrival) (hs : arrivals.Pairwise (fun a b => a.seq < b.seq))
    (hb : ∀ a ∈ arrivals, a.seq < n) (hn : an.seq = n) :
    (arrivals ++ [an]).Pairwise (fun a b => a.seq < b.seq) ∧ ∀ a ∈ arrivals ++ [an], a.seq < n + 1 := by
  constructor
  · rw [List.pairwise_append]
    refine ⟨hs, by simp, ?_⟩
    intro a ha b hb'
    simp only [List.mem_singleton] at hb'
    subst hb'
    rw [hn]; exact hb a ha
  · intro a ha
    rcases List.mem_append.mp ha with ha | ha
    · have := hb a ha; omega
    · simp only [List.mem_singleton] at ha
      subst ha; omega

/-- the id of an arriving response against a registered context -/
theorem hdr_ne {s : State} (hm : MInv s) {b : Bytes} (_h4 : ¬ b.length < 4) {c : Ctx} (hc : c ∈ s.ctxs)
    (hne : c.surveyId ≠ 0) (hd : c.surveyId ≠ beDecode (b.take 4)) : b.take 4 ≠ enc c.surveyId := by
  intro he
  apply hd
  obtain ⟨_, i1⟩ := cur_issued hm.x hc hne
  rw [he, dec_enc (issued_lt hm.x _ i1)]

theorem take4_len {b : Bytes} (h4 : ¬ b.length < 4) : (b.take 4).length = 4 := by
  rw [List.length_take]; omega

/-! ### `surv0_pipe_recv_cb` -/

theorem pre_arrive (j : SurvJ) (p : Nat) (b : Bytes) (outs : List Out) (h0 : outs.contains (.rv 0) = true) (h4 : ¬ b.length < 4) :
    survPre j (.recvDone p (.ok b)) outs =
      ({ j with arrivals := j.arrivals ++ [({ seq := j.nseq, id := b.take 4, body := b.drop 4 } : Arrival)], nseq := j.nseq + 1 }, none) := by
  have : (decide (b.length ≥ 4)) = true := by simp; omega
  simp only [survPre, h0, this, Bool.and_self, if_true]

theorem pre_arrive_short (j : SurvJ) (p : Nat) (b : Bytes) (outs : List Out) (h4 : b.length < 4) :
    survPre j (.recvDone p (.ok b)) outs = (j, none) := by
  have : (decide (b.length ≥ 4)) = false := by simp; omega
  simp only [survPre, this, Bool.and_false, Bool.false_eq_true, if_false]

/-- the response whose id no context is registered under, or that finds the queue full, changes nothing -/
theorem arrive_none_R0 {s : State} {j : SurvJ} (h : R0 s j) (hm : MInv s) (b : Bytes) (h4 : ¬ b.length < 4)
    (hl : lookup s (beDecode (b.take 4)) = none) :
    R0 { s with narrive := s.narrive + 1 }
      { j with arrivals := j.arrivals ++ [({ seq := j.nseq, id := b.take 4, body := b.drop 4 } : Arrival)], nseq := j.nseq + 1 } := by
  obtain ⟨s1, s2⟩ := arr_append_sorted ({ seq := j.nseq, id := b.take 4, body := b.drop 4 } : Arrival) h.arrS h.arrB rfl
  refine ⟨h.err, h.now, h.ncl, h.dom, ?_, h.p1, h.p2, h.p3, h.sentV, h.sentN, h.sq, s1, s2, by show j.nseq + 1 = s.narrive + 1; rw [h.nseq]⟩
  intro k c cj h1 h2
  apply CR_arrive_other (h.ctx k c cj h1 h2)
  intro hne
  apply hdr_ne hm h4 (m_getCtx_mem h1) hne
  intro he
  unfold lookup at hl
  rw [List.find?_eq_none] at hl
  exact hl c (m_getCtx_mem h1) (by rw [Bool.and_eq_true]; exact ⟨by simpa using hne, by simpa using he⟩)

theorem lookup_getCtx {s : State} (hm : MInv s) {id : Nat} {c : Ctx} (hl : lookup s id = some c) :
    getCtx s c.key = some c ∧ c.surveyId ≠ 0 ∧ c.surveyId = id := by
  obtain ⟨hc, hne, hid⟩ := lookup_spec hl
  exact ⟨getCtx_of_mem hm.x.keys hc, hne, hid⟩

/-- another context is not registered under the id of `c` -/
theorem other_id {s : State} (hm : MInv s) {c c2 : Ctx} (hc : c ∈ s.ctxs) (hc2 : c2 ∈ s.ctxs) (hk : c2.key ≠ c.key)
    (hne : c.surveyId ≠ 0) (hne2 : c2.surveyId ≠ 0) : c2.surveyId ≠ c.surveyId := by
  intro he
  obtain ⟨e1, _⟩ := cur_issued hm.x hc hne
  obtain ⟨e2, _⟩ := cur_issued hm.x hc2 hne2
  exact hk ((hm.x.px c2 hc2 c hc).uniq (by rw [← e2]; exact hne2) (by rw [← e2, ← e1]; exact he))

theorem arrive_queue_R0 {s : State} {j : SurvJ} (h : R0 s j) (hm : MInv s) (p : Nat) (b : Bytes) (h4 : ¬ b.length < 4) {c : Ctx}
    (hl : lookup s (beDecode (b.take 4)) = some c) (_hrq : c.rq = []) :
    R0 (setCtx { s with narrive := s.narrive + 1 }
          { c with recvQ := c.recvQ ++ [⟨s.narrive, p, beDecode (b.take 4), ⟨b.take 4, b.drop 4⟩⟩] })
      { j with arrivals := j.arrivals ++ [({ seq := j.nseq, id := b.take 4, body := b.drop 4 } : Arrival)], nseq := j.nseq + 1 } := by
  obtain ⟨hc, hne, hid⟩ := lookup_getCtx hm hl
  have hcm := m_getCtx_mem hc
  obtain ⟨s1, s2⟩ := arr_append_sorted ({ seq := j.nseq, id := b.take 4, body := b.drop 4 } : Arrival) h.arrS h.arrB rfl
  have henc : b.take 4 = enc c.surveyId := by rw [hid, enc_dec4 _ (take4_len h4)]
  have hk' : ({ c with recvQ := c.recvQ ++ [⟨s.narrive, p, beDecode (b.take 4), ⟨b.take 4, b.drop 4⟩⟩] } : Ctx).key = c.key := rfl
  have hc' : getCtx { s with narrive := s.narrive + 1 } c.key = some c := hc
  refine ⟨h.err, h.now, h.ncl, dom_setCtx (s := { s with narrive := s.narrive + 1 }) h.dom hc' hk', ?_, h.p1,
    p2_same (s := { s with narrive := s.narrive + 1 }) h.p2 hc' hk' rfl rfl,
    p3_same (s := { s with narrive := s.narrive + 1 }) h.p3 hc' hk' rfl, h.sentV, h.sentN, h.sq, s1, s2,
    by show j.nseq + 1 = s.narrive + 1; rw [h.nseq]⟩
  intro k c' cj h1 h2
  rw [m_getCtx_setCtx_k hk'] at h1
  by_cases hkk : k = c.key
  · subst hkk
    rw [if_pos rfl] at h1
    have h1' : (getCtx s c.key).map (fun _ => ({ c with recvQ := c.recvQ ++ [⟨s.narrive, p, beDecode (b.take 4), ⟨b.take 4, b.drop 4⟩⟩] } : Ctx)) = some c' := h1
    rw [hc] at h1'
    simp only [Option.map_some, Option.some.injEq] at h1'
    subst h1'
    have hcr := h.ctx c.key c cj hc h2
    refine ⟨hcr.st, hcr.nos, ?_, ?_, ?_, ?_⟩
    · intro sv hsv
      obtain ⟨a1, a2, a3, a4⟩ := hcr.sv sv hsv
      exact ⟨a1, a2, a3, by show sv.startSeq ≤ j.nseq + 1; omega⟩
    · intro sv hsv hne' a ha hua hs hida
      rcases List.mem_append.mp ha with ha | ha
      · obtain ⟨gm, hgm, hg⟩ := hcr.qa sv hsv hne' a ha hua hs hida
        exact ⟨gm, List.mem_append_left _ hgm, hg⟩
      · simp only [List.mem_singleton] at ha
        subst ha
        exact ⟨⟨s.narrive, p, beDecode (b.take 4), ⟨b.take 4, b.drop 4⟩⟩, by simp, h.nseq.symm⟩
    · intro sv hsv gm hgm
      rcases List.mem_append.mp hgm with hgm | hgm
      · obtain ⟨a, ha, rest⟩ := hcr.qb sv hsv gm hgm
        exact ⟨a, List.mem_append_left _ ha, rest⟩
      · simp only [List.mem_singleton] at hgm
        subst hgm
        refine ⟨{ seq := j.nseq, id := b.take 4, body := b.drop 4 }, by simp, h.nseq, rfl, (hcr.sv sv hsv).2.2.2, rfl, rfl, henc⟩
    · simp only [List.map_append, List.map_cons, List.map_nil]
      rw [List.pairwise_append]
      refine ⟨hcr.qc, by simp, ?_⟩
      intro x hx y hy
      simp only [List.mem_singleton] at hy
      subst hy
      simp only [List.mem_map] at hx
      obtain ⟨gm, hgm, rfl⟩ := hx
      have hsome : ∃ sv, cj.survey = some sv := by
        cases hs : cj.survey with
        | none => exact absurd (hcr.nos hs).1 hne
        | some sv => exact ⟨sv, rfl⟩
      obtain ⟨sv, hsv⟩ := hsome
      obtain ⟨a, ha, a1, _⟩ := hcr.qb sv hsv gm hgm
      have := h.arrB a ha
      rw [h.nseq] at this
      omega
  · simp only [hkk, if_false] at h1
    have h1' : getCtx s k = some c' := h1
    apply CR_arrive_other (h.ctx k c' cj h1' h2)
    intro hne2
    rw [henc]
    intro he
    have hcm2 := m_getCtx_mem h1'
    obtain ⟨_, i1⟩ := cur_issued hm.x hcm hne
    obtain ⟨_, i2⟩ := cur_issued hm.x hcm2 hne2
    have := enc_inj (issued_lt hm.x _ i1) (issued_lt hm.x _ i2) he
    exact other_id hm hcm hcm2 (by rw [m_key h1']; exact hkk) hne hne2 this.symm

end Nng.SurvProofs
