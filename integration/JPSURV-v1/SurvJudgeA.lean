/-
  SURVEYOR judge accepts the model, part A: steps whose outputs carry no completion and no wire
  event (pipes come and go, options, poll, opening the socket / a context, time on an idle socket).
-/
import NngModel.Proofs.SurvJudgeRel
namespace Nng.SurvProofs
open Nng Nng.Proto Nng.Survey Nng.SurveySpec Nng.SurvJudge

/-! ### outputs the judge ignores -/

def inertB : Out → Bool
  | .rv _ => true
  | .rv2 _ _ => true
  | .pipe _ => true
  | .parm _ => true
  | .pclosed _ => true
  | .poll _ _ => true
  | _ => false

theorem survOut_inert {o : Out} (h : inertB o = true) (ev : Ev) (sa : Option Nat) (j : SurvJ) : survOut ev sa j o = j := by
  cases o <;> first | rfl | (simp [inertB] at h)

theorem foldl_inert {l : List Out} (h : ∀ o ∈ l, inertB o = true) (ev : Ev) (sa : Option Nat) (j : SurvJ) :
    l.foldl (survOut ev sa) j = j := by
  induction l generalizing j with
  | nil => rfl
  | cons x t ih =>
    simp only [List.foldl_cons]
    rw [survOut_inert (h x (by simp)), ih (fun o ho => h o (List.mem_cons_of_mem _ ho))]

theorem survProc_inert {outs : List Out} (h : ∀ o ∈ outs, inertB o = true) (ev : Ev) (sa : Option Nat) (j : SurvJ) :
    survProc ev sa outs j = j := by
  unfold survProc
  simp only
  have h1 : ∀ o ∈ outs.filter (fun o => match o with | .done .. => true | _ => false), inertB o = true :=
    fun o ho => h o (List.mem_filter.mp ho).1
  have h2 : ∀ o ∈ outs.filter (fun o => match o with | .done .. => false | _ => true), inertB o = true :=
    fun o ho => h o (List.mem_filter.mp ho).1
  cases ev <;>
    (simp only []
     rw [foldl_inert (fun o ho => h o (List.mem_filter.mp ho).1), foldl_inert (fun o ho => h o (List.mem_filter.mp ho).1)])

theorem notExecuted_inert {outs : List Out} (h : ∀ o ∈ outs, inertB o = true) : notExecuted outs = false := by
  unfold notExecuted
  rw [Bool.eq_false_iff]
  intro ht
  rw [List.any_eq_true] at ht
  obtain ⟨o, ho, hp⟩ := ht
  have := h o ho
  cases o <;> simp_all [inertB]

theorem hasBlocked_inert {outs : List Out} (h : ∀ o ∈ outs, inertB o = true) : hasBlocked outs = false := by
  unfold hasBlocked
  rw [Bool.eq_false_iff]
  intro ht
  rw [List.any_eq_true] at ht
  obtain ⟨o, ho, hp⟩ := ht
  have := h o ho
  cases o <;> simp_all [inertB]

theorem closePipe_outs_inert (s : State) (p : Nat) : ∀ o ∈ (closePipe s p).2, inertB o = true := by
  unfold closePipe
  split
  · simp
  · split <;> simp [inertB]

/-! ### finishing a step -/

theorem finish {s' : State} {j j2 : SurvJ} {ev : Ev} {outs : List Out} (herr : j.err = none)
    (hne : notExecuted outs = false)
    (hj2 : survPostA ev outs (survProc ev (survPre j ev outs).2 outs (survPre j ev outs).1) = j2)
    (h0 : R0 s' j2) (hm : MInv s') (hb : hasBlocked outs = false) (hpc : pollClause j2.lastPoll ev outs = none)
    (hpo : pollOf ev outs = none ∨ pollOf ev outs = some (some s'.readable, some s'.writable)) :
    R s' (survStep j ev outs) := by
  rw [survStep_eq herr hne, hj2]
  exact postB_R h0 hm hb hpc hpo

/-- a step that tells the judge nothing: the event has no effect on the judge by itself, the outputs are inert,
    the model's contexts are untouched -/
theorem plain_sim {s s' : State} {j : SurvJ} {ev : Ev} {outs : List Out} (hR : R s j) (hm : MInv s')
    (hc : s'.ctxs = s.ctxs) (hn : s'.now = s.now) (hi : s'.issued = s.issued) (ha : s'.narrive = s.narrive)
    (hp : ∀ pp ∈ s'.pipes, ∀ m ∈ pp.sendQ, ∃ pp0 ∈ s.pipes, m ∈ pp0.sendQ)
    (hpre : survPre j ev outs = (j, none)) (hin : ∀ o ∈ outs, inertB o = true)
    (hpa : ∀ j, survPostA ev outs j = j) (hpc : ∀ lp, pollClause lp ev outs = none) (hpo : pollOf ev outs = none) :
    R s' (survStep j ev outs) := by
  apply finish hR.r0.err (notExecuted_inert hin) (j2 := j)
  · rw [hpre, survProc_inert hin, hpa]
  · exact R0_frame hR.r0 hc hn hi ha hp
  · exact hm
  · exact hasBlocked_inert hin
  · exact hpc _
  · exact Or.inl hpo

theorem setPipe_sendQ {s : State} {pp' : Pipe} (hq : ∀ m ∈ pp'.sendQ, ∃ pp0 ∈ s.pipes, m ∈ pp0.sendQ) :
    ∀ pp ∈ (setPipe s pp').pipes, ∀ m ∈ pp.sendQ, ∃ pp0 ∈ s.pipes, m ∈ pp0.sendQ := by
  intro pp hpp m hm
  simp only [setPipe, List.mem_map] at hpp
  obtain ⟨x, hx, rfl⟩ := hpp
  by_cases hk : (x.id == pp'.id) = true
  · simp only [hk, if_true] at hm; exact hq m hm
  · simp only [hk, Bool.false_eq_true, if_false] at hm; exact ⟨x, hx, hm⟩

theorem closePipe_sendQ (s : State) (p : Nat) :
    ∀ pp ∈ (closePipe s p).1.pipes, ∀ m ∈ pp.sendQ, ∃ pp0 ∈ s.pipes, m ∈ pp0.sendQ := by
  unfold closePipe
  split
  · intro pp hpp m hm; exact ⟨pp, hpp, hm⟩
  · split
    · intro pp hpp m hm; exact ⟨pp, hpp, hm⟩
    · apply setPipe_sendQ
      intro m hm; cases hm

theorem getPipe_mem {s : State} {p : Nat} {pp : Pipe} (h : getPipe s p = some pp) : pp ∈ s.pipes :=
  List.mem_of_find?_eq_some h

/-- a pipe is closed (by the peer, a transport error, a short message) -/
theorem closePipe_sim {s : State} {j : SurvJ} {ev : Ev} (p : Nat) (pre : List Out) (hR : R s j)
    (hm : MInv (closePipe s p).1) (hpre : ∀ outs, survPre j ev outs = (j, none)) (hin : ∀ o ∈ pre, inertB o = true)
    (hpa : ∀ outs j, survPostA ev outs j = j) (hpc : ∀ lp outs, pollClause lp ev outs = none) (hpo : ∀ outs, pollOf ev outs = none) :
    R (closePipe s p).1 (survStep j ev (pre ++ (closePipe s p).2)) := by
  obtain ⟨h1, _, h3, _, _⟩ := closePipe_fields s p
  obtain ⟨_, g2, _, g4⟩ := closePipe_more s p
  apply plain_sim hR hm h1 h3 g2 g4 (closePipe_sendQ s p) (hpre _) _ (hpa _) (fun lp => hpc lp _) (hpo _)
  intro o ho
  rcases List.mem_append.mp ho with ho | ho
  · exact hin o ho
  · exact closePipe_outs_inert s p o ho

/-! ### poll -/

theorem poll_sim {s : State} {j : SurvJ} (hR : R s j) (hm : MInv s) :
    R s (survStep j .poll [.poll (some s.readable) (some s.writable)]) := by
  apply finish hR.r0.err (by rfl) (j2 := j) rfl hR.r0 hm (by rfl)
    (pollClause_other (by intro a h; cases h) (by intro a m h; cases h))
  exact Or.inr rfl

/-! ### the socket is opened -/

theorem openSock_sim {s : State} {j : SurvJ} (hR : R s j) (hm : MInv s) (ho : s.opened = false) (p : String) (r : Bool)
    (hm' : MInv { s with opened := true, writable := true, ctxs := [{ key := none, recvCap := Nng.Generated.survRecvBufInit, surveyTime := Nng.Generated.survTimeInit }] }) :
    R { s with opened := true, writable := true, ctxs := [{ key := none, recvCap := Nng.Generated.survRecvBufInit, surveyTime := Nng.Generated.survTimeInit }] }
      (survStep j (.openSock p r) [.rv 0]) := by
  have hempty : s.ctxs = [] := hm.i.notOpen ho
  have hpend : j.pend = [] := by
    cases hp : j.pend with
    | nil => rfl
    | cons pr t =>
      obtain ⟨_, c, hc, _⟩ := hR.r0.p2 pr (by rw [hp]; simp)
      simp [getCtx, hempty] at hc
  apply finish hR.r0.err (by rfl)
    (j2 := { j with opened := true, ctxs := [({ key := none, surveyTime := defaultSurveyTime } : CtxJ)] }) rfl _ hm' (by rfl) (pollClause_other (by intro a h; cases h) (by intro a m h; cases h)) (Or.inl rfl)
  have h := hR.r0
  refine ⟨h.err, h.now, h.ncl, ?_, ?_, h.p1, ?_, ?_, h.sentV, h.sentN, h.sq, h.arrS, h.arrB, h.nseq⟩
  · intro k
    cases k <;> simp [getCtx, SurvJ.getCtx]
  · intro k c cj h1 h2
    cases k with
    | some x => simp [getCtx] at h1
    | none =>
      simp only [getCtx, List.find?_cons, beq_self_eq_true, Option.some.injEq] at h1
      simp only [SurvJ.getCtx, List.find?_cons, beq_self_eq_true, Option.some.injEq] at h2
      subst h1; subst h2
      refine ⟨by decide, fun _ => ⟨rfl, rfl⟩, fun sv hsv => (by cases hsv), fun sv hsv => (by cases hsv),
        fun sv hsv => (by cases hsv), by simp⟩
  · intro pr hpr; rw [hpend] at hpr; cases hpr
  · intro k c h1 pk hpk
    cases k with
    | some x => simp [getCtx] at h1
    | none =>
      simp only [getCtx, List.find?_cons, beq_self_eq_true, Option.some.injEq] at h1
      subst h1; cases hpk

/-! ### time passes on a socket with nothing parked (not opened yet) -/

theorem idle_advance_sim {s : State} {j : SurvJ} (hR : R s j) (ms : Nat) (hidle : ∀ c ∈ s.ctxs, c.rq = [])
    (hm' : MInv { s with now := s.now + ms }) :
    R { s with now := s.now + ms } (survStep j (.advance ms) []) := by
  have h := hR.r0
  apply finish h.err (by rfl) (j2 := { j with now := j.now + ms }) rfl _ hm' (by rfl) (pollClause_other (by intro a h; cases h) (by intro a m h; cases h)) (Or.inl rfl)
  refine ⟨h.err, by show j.now + ms = s.now + ms; rw [h.now], h.ncl, h.dom, h.ctx, h.p1, ?_, h.p3, h.sentV, h.sentN, h.sq,
    h.arrS, h.arrB, h.nseq⟩
  intro pr hpr
  obtain ⟨_, c, hc, pk, hpk, _⟩ := h.p2 pr hpr
  have := hidle c (m_getCtx_mem hc)
  rw [this] at hpk; cases hpk

/-! ### a context is opened -/

theorem j_getCtx_append (j : SurvJ) (k : Nat) (cn : CtxJ) (hk : cn.key = some k) (k' : Option Nat) :
    SurvJ.getCtx { j with ctxs := j.ctxs.filter (·.key != some k) ++ [cn] } k' =
      if k' = some k then some cn else j.getCtx k' := by
  unfold SurvJ.getCtx
  simp only [List.find?_append]
  have := find_key_filter_ne (fun q : CtxJ => q.key) j.ctxs (some k) k'
  rw [this]
  by_cases h : k' = some k
  · simp [h, hk]
  · simp only [h, if_false]
    have hne : (cn.key == k') = false := by rw [hk]; simp; exact fun e => h e.symm
    cases j.ctxs.find? (fun q => q.key == k') <;> simp [hne]

theorem m_getCtx_append (s : State) (k : Nat) (cn : Ctx) (hk : cn.key = some k) (hfree : getCtx s (some k) = none)
    (k' : Option Nat) :
    getCtx { s with ctxs := s.ctxs ++ [cn] } k' = if k' = some k then some cn else getCtx s k' := by
  unfold getCtx at hfree ⊢
  simp only [List.find?_append]
  by_cases h : k' = some k
  · subst h
    rw [hfree]; simp [hk]
  · simp only [h, if_false]
    have hne : (cn.key == k') = false := by rw [hk]; simp; exact fun e => h e.symm
    cases s.ctxs.find? (fun q => q.key == k') <;> simp [hne]

theorem ctxOpen_sim {s : State} {j : SurvJ} (hR : R s j) (k : Nat) (c0 : Ctx) (h0 : getCtx s none = some c0)
    (hfree : getCtx s (some k) = none)
    (hm' : MInv { s with ctxs := s.ctxs ++ [{ key := some k, recvCap := c0.recvCap, surveyTime := c0.surveyTime }] }) :
    R { s with ctxs := s.ctxs ++ [{ key := some k, recvCap := c0.recvCap, surveyTime := c0.surveyTime }] }
      (survStep j (.ctxOpen k) [.rv 0]) := by
  have h := hR.r0
  obtain ⟨cj0, hcj0, hcr0⟩ := R0_ctx_some h h0
  have hpre : survPre j (.ctxOpen k) [.rv 0] =
      ({ j with ctxs := j.ctxs.filter (·.key != some k) ++ [({ key := some k, surveyTime := cj0.surveyTime } : CtxJ)] }, none) := by
    simp only [survPre, List.contains_cons, beq_self_eq_true, Bool.true_or, if_true, hcj0]
  apply finish h.err (by rfl)
    (j2 := { j with ctxs := j.ctxs.filter (·.key != some k) ++ [({ key := some k, surveyTime := cj0.surveyTime } : CtxJ)] })
    (by rw [hpre]; rfl) _ hm' (by rfl) (pollClause_other (by intro a h; cases h) (by intro a m h; cases h)) (Or.inl rfl)
  have mg := m_getCtx_append s k { key := some k, recvCap := c0.recvCap, surveyTime := c0.surveyTime } rfl hfree
  have jg := j_getCtx_append j k { key := some k, surveyTime := cj0.surveyTime } rfl
  refine ⟨h.err, h.now, h.ncl, ?_, ?_, h.p1, ?_, ?_, h.sentV, h.sentN, h.sq, h.arrS, h.arrB, h.nseq⟩
  · intro k'
    rw [mg, jg]
    by_cases hk : k' = some k
    · simp [hk]
    · simp only [hk, if_false]; exact h.dom k'
  · intro k' c cj h1 h2
    rw [mg] at h1; rw [jg] at h2
    by_cases hk : k' = some k
    · simp only [hk, if_true, Option.some.injEq] at h1 h2
      subst h1; subst h2
      exact ⟨hcr0.st, fun _ => ⟨rfl, rfl⟩, fun sv hsv => (by cases hsv), fun sv hsv => (by cases hsv),
        fun sv hsv => (by cases hsv), by simp⟩
    · simp only [hk, if_false] at h1 h2
      exact h.ctx k' c cj h1 h2
  · intro pr hpr
    obtain ⟨hz, c, hc, hrest⟩ := h.p2 pr hpr
    refine ⟨hz, c, ?_, hrest⟩
    rw [mg]
    have : pr.ctx ≠ some k := by intro he; rw [he, hfree] at hc; cases hc
    simp only [this, if_false]; exact hc
  · intro k' c h1 pk hpk
    rw [mg] at h1
    by_cases hk : k' = some k
    · simp only [hk, if_true, Option.some.injEq] at h1
      subst h1; cases hpk
    · simp only [hk, if_false] at h1
      exact h.p3 k' c h1 pk hpk

/-! ### the survey time of a context is set -/

theorem CR_surveyTime {issued : List Nat} {sent : List (Bytes × Option Bytes)} {nseq : Nat} {arrivals : List Arrival}
    {c : Ctx} {cj : CtxJ} (h : CR issued sent nseq arrivals c cj) (v : Int) :
    CR issued sent nseq arrivals { c with surveyTime := v } { cj with surveyTime := v } :=
  ⟨rfl, h.nos, h.sv, h.qa, h.qb, h.qc⟩

theorem setopt_sim {s : State} {j : SurvJ} (hR : R s j) (k : Option Nat) (c : Ctx) (v : Int) (hc : getCtx s k = some c)
    (hm' : MInv (setCtx s { c with surveyTime := v })) :
    R (setCtx s { c with surveyTime := v }) (survStep j (.setopt k Nng.Survey.surveyTimeOpt "ms" v) [.rv 0]) := by
  have h := hR.r0
  obtain ⟨cj, hcj, hcr⟩ := R0_ctx_some h hc
  have hck : c.key = k := m_key hc
  have hcjk : cj.key = k := Nng.SurvJudge.getCtx_key hcj
  have hpre : survPre j (.setopt k Nng.Survey.surveyTimeOpt "ms" v) [.rv 0] = (j.setCtx { cj with surveyTime := v }, none) := by
    have e1 : (Nng.Survey.surveyTimeOpt == Nng.SurveySpec.surveyTimeOpt) = true := by decide
    simp only [survPre, List.contains_cons, beq_self_eq_true, Bool.true_or, e1, Bool.and_self, if_true, hcj]
  apply finish h.err (by rfl) (j2 := j.setCtx { cj with surveyTime := v })
    (by rw [hpre]; rfl) _ hm' (by rfl) (pollClause_other (by intro a h; cases h) (by intro a m h; cases h)) (Or.inl rfl)
  have mg := m_getCtx_setCtx_k (s := s) (c := { c with surveyTime := v }) hck
  have jg := j_getCtx_setCtx_k (j := j) (c := { cj with surveyTime := v }) hcjk
  refine ⟨h.err, h.now, h.ncl, ?_, ?_, h.p1, ?_, ?_, h.sentV, h.sentN, h.sq, h.arrS, h.arrB, h.nseq⟩
  · intro k'
    rw [mg, jg]
    by_cases hk : k' = k
    · subst hk; simp [hc, hcj]
    · simp only [hk, if_false]; exact h.dom k'
  · intro k' c' cj' h1 h2
    rw [mg] at h1; rw [jg] at h2
    by_cases hk : k' = k
    · subst hk
      simp only [if_true, hc, hcj, Option.map_some, Option.some.injEq] at h1 h2
      subst h1; subst h2
      exact CR_surveyTime hcr v
    · simp only [hk, if_false] at h1 h2
      exact h.ctx k' c' cj' h1 h2
  · intro pr hpr
    obtain ⟨hz, c', hc', pk, hpk, hpa, hdl⟩ := h.p2 pr hpr
    by_cases hk : pr.ctx = k
    · have : c' = c := by rw [hk, hc] at hc'; exact (Option.some.inj hc').symm
      subst this
      refine ⟨hz, { c' with surveyTime := v }, ?_, pk, hpk, hpa, hdl⟩
      rw [mg, if_pos hk, hk, hc]; rfl
    · refine ⟨hz, c', ?_, pk, hpk, hpa, hdl⟩
      rw [mg, if_neg hk]; exact hc'
  · intro k' c' h1 pk hpk
    rw [mg] at h1
    by_cases hk : k' = k
    · subst hk
      simp only [if_true, hc, Option.map_some, Option.some.injEq] at h1
      subst h1
      exact h.p3 k' c hc pk hpk
    · simp only [hk, if_false] at h1
      exact h.p3 k' c' h1 pk hpk

end Nng.SurvProofs
