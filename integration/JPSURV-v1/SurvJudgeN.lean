/-
  SURVEYOR judge accepts the model, part N: the phases (not opened / open / closed) and the induction
  over the event list.
-/
import NngModel.Proofs.SurvJudgeM
namespace Nng.SurvProofs
open Nng Nng.Proto Nng.Survey Nng.SurveySpec Nng.SurvJudge

/-! ### hypotheses on event lists -/

/-- bodies of all `send` events, in order -/
def sendBodies (evs : List Ev) : List Bytes := evs.filterMap evBody

theorem sendBodies_cons (e : Ev) (es : List Ev) : sendBodies (e :: es) = (evBody e).toList ++ sendBodies es := by
  unfold sendBodies
  rw [List.filterMap_cons]
  cases evBody e <;> rfl

def NoAbort0 (evs : List Ev) : Prop := ∀ ev ∈ evs, badAbort ev = false

/-- `bad s e = false` at every step of the run of the model from `s` -/
def Along (bad : State → Ev → Bool) (s : State) : List Ev → Prop
  | [] => True
  | e :: es => bad s e = false ∧ Along bad (step s e).1 es

/-- the trace (event, outputs) the model produces from state `s` -/
def traceOf (s : State) : List Ev → List (Ev × List Out)
  | [] => []
  | e :: es => (e, (step s e).2) :: traceOf (step s e).1 es

theorem zip_run_eq_traceOf (evs : List Ev) : ∀ s : State, evs.zip (run s evs).2 = traceOf s evs := by
  induction evs with
  | nil => intro s; rfl
  | cons e es ih =>
    intro s
    show (e :: es).zip ((step s e).2 :: (run (step s e).1 es).2) = _
    rw [List.zip_cons_cons, ih]; rfl

/-! ### the phases -/

structure SimSt (s : State) (j : SurvJ) : Prop where
  live : s.closed = false → MInv s ∧ R s j
  dead : s.closed = true → Rc j

theorem SimSt_init : SimSt ({} : State) ({} : SurvJ) := ⟨fun _ => ⟨minv_init, R_init⟩, fun h => by cases h⟩

theorem SimSt_err {s : State} {j : SurvJ} (h : SimSt s j) : j.err = none := by
  cases hc : s.closed with
  | true => exact (h.dead hc).err
  | false => exact (h.live hc).2.r0.err

theorem Rc_openSock {j : SurvJ} (h : Rc j) (p : String) (r : Bool) : Rc (survStep j (.openSock p r) [.rv 0]) := by
  rw [survStep_eq h.err (by rfl)]
  exact postB_Rc (j := { j with opened := true, ctxs := [({ key := none, surveyTime := defaultSurveyTime } : CtxJ)] })
    h.err h.pend (by rfl) (pollClause_other (by intro a h; cases h) (by intro a m h; cases h))

theorem step_SimSt {s : State} {j : SurvJ} (hS : SimSt s j) (ev : Ev) (hab : badAbort ev = false)
    (hov : overflowAt s ev = false) (hod : onDeadlineAt s ev = false)
    (hcnt : ∀ b, evBody ev = some b → j.sent.length < idSpan)
    (hbody : ∀ b, evBody ev = some b → ∀ e ∈ j.sent, e.1 ≠ b) :
    SimSt (step s ev).1 (survStep j ev (step s ev).2) := by
  cases hc : s.closed with
  | true =>
    have hRc := hS.dead hc
    cases ho : s.opened with
    | true =>
      obtain ⟨h1, _, h3⟩ := step_closed s ev ho hc
      refine ⟨fun h => (by rw [h1] at h; cases h), fun _ => ?_⟩
      rcases h3 with ⟨ms, rfl, e⟩ | ⟨msg, e⟩
      · rw [e]; exact Rc_advance hRc ms
      · rw [e]; exact Rc_refused hRc ev msg
    | false =>
      obtain ⟨h1, h3⟩ := step_unopened s ev ho
      refine ⟨fun h => (by rw [h1, hc] at h; cases h), fun _ => ?_⟩
      rcases h3 with ⟨p, r, rfl, e⟩ | ⟨ms, rfl, e⟩ | ⟨msg, e⟩
      · rw [e]; exact Rc_openSock hRc p r
      · rw [e]; exact Rc_advance hRc ms
      · rw [e]; exact Rc_refused hRc ev msg
  | false =>
    obtain ⟨hm, hR⟩ := hS.live hc
    have hlen : j.sent.length = s.issued.length := sentVal_length hR.r0.sentV
    have hok : StepOK s ev := by
      cases ev <;> try trivial
      case send k a m md =>
        show s.issued.length < idSpan
        rw [← hlen]; exact hcnt m.body rfl
      case advance ms => exact offDeadline_of hod
    have hm' := step_minv ev hm hok
    cases ho : s.opened with
    | false =>
      obtain ⟨h1, h3⟩ := step_unopened s ev ho
      refine ⟨fun _ => ⟨hm', ?_⟩, fun h => by rw [h1, hc] at h; cases h⟩
      rcases h3 with ⟨p, r, rfl, e⟩ | ⟨ms, rfl, e⟩ | ⟨msg, e⟩
      · rw [e] at hm' ⊢; exact openSock_sim hR hm ho p r hm'
      · rw [e] at hm' ⊢
        exact idle_advance_sim hR ms (by intro c hc'; rw [hm.i.notOpen ho] at hc'; cases hc') hm'
      · rw [e]; exact refused_R hR ev msg
    | true =>
      have hlive := stepLive_sim hR hm ho hc ev hab hov hok hbody
      cases hcl : isClose ev with
      | true =>
        rw [hcl] at hlive
        have : ev = .close := by cases ev <;> first | rfl | cases hcl
        subst this
        have hcc := step_close_closed s ho hc
        exact ⟨fun h => (by rw [hcc] at h; cases h), fun _ => hlive⟩
      | false =>
        rw [hcl] at hlive
        have hne : ev ≠ .close := by intro h; subst h; cases hcl
        have hcc := step_closed_false s ev ho hc hne
        exact ⟨fun _ => ⟨hm', hlive⟩, fun h => by rw [hcc] at h; cases h⟩

/-! ### the simulation over a whole run -/

theorem judge_from (evs : List Ev) : ∀ {s : State} {j : SurvJ}, SimSt s j → NoAbort0 evs →
    Along overflowAt s evs → Along onDeadlineAt s evs →
    (fstOf j ++ sendBodies evs).Nodup → (fstOf j ++ sendBodies evs).length ≤ idSpan →
    ((traceOf s evs).foldl (fun j x => survStep j x.1 x.2) j).err = none := by
  induction evs with
  | nil => intro s j hS _ _ _ _ _; exact SimSt_err hS
  | cons e es ih =>
    intro s j hS hab hov hod hnd hlen
    simp only [traceOf, List.foldl_cons]
    rw [sendBodies_cons] at hnd hlen
    have hcnt : ∀ b, evBody e = some b → j.sent.length < idSpan := by
      intro b hb
      rw [hb] at hlen
      simp only [Option.toList_some, List.length_append, List.length_cons, List.length_nil, fstOf, List.length_map] at hlen
      omega
    have hbody : ∀ b, evBody e = some b → ∀ x ∈ j.sent, x.1 ≠ b := by
      intro b hb x hx he
      rw [hb] at hnd
      have h1 := (List.nodup_append.mp hnd).2.2 x.1 (List.mem_map.mpr ⟨x, hx, rfl⟩) b (by simp)
      exact h1 he
    have hS' := step_SimSt hS e (hab e (by simp)) hov.1 hod.1 hcnt hbody
    apply ih hS' (fun ev hev => hab ev (by simp [hev])) hov.2 hod.2
    · rcases fstOf_survStep j e (step s e).2 with h1 | ⟨b, hb, h1⟩
      · rw [h1]
        apply List.Nodup.sublist _ hnd
        exact List.Sublist.append_left (List.sublist_append_right _ _) _
      · rw [hb] at hnd
        rw [h1]
        simpa [List.append_assoc] using hnd
    · rcases fstOf_survStep j e (step s e).2 with h1 | ⟨b, hb, h1⟩
      · rw [h1]
        simp only [List.length_append] at hlen ⊢
        omega
      · rw [hb] at hlen
        rw [h1]
        simp only [Option.toList_some, List.length_append, List.length_cons, List.length_nil] at hlen ⊢
        omega

end Nng.SurvProofs
