"""constants for the PUB/SUB models (C05)"""
import re
from . import extract as X


def _proto(text, name, what):
    m = X.one(r"#define\s+" + name + r"\s+NNI_PROTO\((\d+), (\d+)\)", text, what)
    return int(m.group(1)) * 16 + int(m.group(2))


def hook(put):
    sub = X.src("src/sp/protocol/pubsub0/sub.c")
    pub = X.src("src/sp/protocol/pubsub0/pub.c")
    hdr = X.src("include/nng/nng.h")
    X.one(r"#define\s+NNI_PROTO\(major, minor\)\s+\(\(\(major\) \* 16\) \+ \(minor\)\)",
          X.src("src/core/defs.h") + X.src("src/core/protocol.h"), "NNI_PROTO macro")
    put("c05ProtoPub", _proto(sub, "NNI_PROTO_PUB_V0", "sub.c PUB proto id"), "pubsub0/sub.c NNI_PROTO_PUB_V0")
    put("c05ProtoSub", _proto(pub, "NNI_PROTO_SUB_V0", "pub.c SUB proto id"), "pubsub0/pub.c NNI_PROTO_SUB_V0")
    if _proto(pub, "NNI_PROTO_PUB_V0", "pub.c PUB proto id") != _proto(sub, "NNI_PROTO_PUB_V0", "sub.c PUB proto id"):
        raise X.ExtractError("pub.c and sub.c disagree on NNI_PROTO_PUB_V0")
    # the peer tests of the two pipe_start functions
    X.one(r"nni_pipe_peer\(p->pipe\) != NNI_PROTO_PUB_V0", X.func_body(sub, "sub0_pipe_start"), "sub0_pipe_start peer test")
    X.one(r"nni_pipe_peer\(p->pipe\) != NNI_PROTO_SUB_V0", X.func_body(pub, "pub0_pipe_start"), "pub0_pipe_start peer test")

    put("c05SubRecvBufDefault", X.define(sub, "SUB0_DEFAULT_RECV_BUF_LEN"), "pubsub0/sub.c SUB0_DEFAULT_RECV_BUF_LEN")
    m = X.one(r"#define\s+SUB0_DEFAULT_PREFER_NEW\s+(true|false)", sub, "SUB0_DEFAULT_PREFER_NEW")
    put("c05SubPreferNewDefault", m.group(1) == "true", "pubsub0/sub.c SUB0_DEFAULT_PREFER_NEW")
    init = X.func_body(sub, "sub0_sock_init")
    X.one(r"sock->recv_buf_len = SUB0_DEFAULT_RECV_BUF_LEN", init, "sub0_sock_init recv_buf_len")
    X.one(r"sock->prefer_new\s+= SUB0_DEFAULT_PREFER_NEW", init, "sub0_sock_init prefer_new")
    m = X.one(r"nni_copyin_int\(&val, buf, sz, (\d+), (\d+), t\)", X.func_body(sub, "sub0_ctx_set_recv_buf_len"), "sub recv-buffer range")
    put("c05SubRecvBufMin", int(m.group(1)), "pubsub0/sub.c sub0_ctx_set_recv_buf_len nni_copyin_int range")
    put("c05SubRecvBufMax", int(m.group(2)), "pubsub0/sub.c sub0_ctx_set_recv_buf_len nni_copyin_int range")

    m = X.one(r"sock->sendbuf = (\d+);", X.func_body(pub, "pub0_sock_init"), "pub default send buffer")
    put("c05PubSendBufDefault", int(m.group(1)), "pubsub0/pub.c pub0_sock_init")
    m = X.one(r"nni_copyin_int\(&val, buf, sz, (\d+), (\d+), t\)", X.func_body(pub, "pub0_sock_set_sendbuf"), "pub send-buffer range")
    put("c05PubSendBufMin", int(m.group(1)), "pubsub0/pub.c pub0_sock_set_sendbuf nni_copyin_int range")
    put("c05PubSendBufMax", int(m.group(2)), "pubsub0/pub.c pub0_sock_set_sendbuf nni_copyin_int range")

    for name, macro in (("c05OptRecvBuf", "NNG_OPT_RECVBUF"), ("c05OptSendBuf", "NNG_OPT_SENDBUF"), ("c05OptPrefNew", "NNG_OPT_SUB_PREFNEW")):
        m = X.one(r"#define\s+" + macro + r"\s+\"([^\"]+)\"", hdr, macro)
        put(name, m.group(1), f"include/nng/nng.h {macro}")
    # the option tables really use these names
    X.one(r"\.o_name = NNG_OPT_RECVBUF,\s*\.o_get\s*= sub0_ctx_get_recv_buf_len", X.strip_comments(sub), "sub ctx option table: recv-buffer")
    X.one(r"\.o_name = NNG_OPT_SUB_PREFNEW,\s*\.o_get\s*= sub0_ctx_get_prefer_new", X.strip_comments(sub), "sub ctx option table: prefnew")
    X.one(r"\.o_name = NNG_OPT_SENDBUF,\s*\.o_get\s*= pub0_sock_get_sendbuf", X.strip_comments(pub), "pub option table: send-buffer")

    # raw SUB (xsub.c) rests on the socket's upper read queue (nni_msgq)
    xsub = X.src("src/sp/protocol/pubsub0/xsub.c")
    sock = X.src("src/core/socket.c")
    if _proto(xsub, "NNI_PROTO_PUB_V0", "xsub.c PUB proto id") != _proto(sub, "NNI_PROTO_PUB_V0", "sub.c PUB proto id"):
        raise X.ExtractError("xsub.c and sub.c disagree on NNI_PROTO_PUB_V0")
    X.one(r"nni_pipe_peer\(p->pipe\) != NNI_PROTO_PUB_V0", X.func_body(xsub, "xsub0_pipe_start"), "xsub0_pipe_start peer test")
    X.one(r"nni_msgq_tryput\(urq, msg\) != 0", X.func_body(xsub, "xsub0_recv_cb"), "xsub0_recv_cb uses nni_msgq_tryput")
    X.one(r"nni_msgq_aio_get\(s->urq, aio\)", X.func_body(xsub, "xsub0_sock_recv"), "xsub0_sock_recv uses nni_msgq_aio_get")
    X.one(r"s->urq = nni_sock_recvq\(sock\)", X.func_body(xsub, "xsub0_sock_init"), "xsub0_sock_init: urq is the socket's recv queue")
    m = X.one(r"nni_msgq_init\(&s->s_urq, (\d+)\)", sock, "socket urq default depth")
    put("c05SockRecvqInit", int(m.group(1)), "core/socket.c nni_sock_create s_urq")
    m = X.one(r"nni_copyin_int\(&len, buf, sz, (\d+), (\d+), t\)", X.func_body(sock, "sock_set_recvbuf"), "socket recv-buffer range")
    put("c05SockRecvBufMin", int(m.group(1)), "core/socket.c sock_set_recvbuf nni_copyin_int range")
    put("c05SockRecvBufMax", int(m.group(2)), "core/socket.c sock_set_recvbuf nni_copyin_int range")
    X.one(r"nni_msgq_resize\(SOCK\(s\)->s_urq, len\)", X.func_body(sock, "sock_set_recvbuf"), "sock_set_recvbuf resizes s_urq")
    mq = X.src("src/core/msgqueue.c")
    X.one(r"mq->mq_len > \(\(unsigned\) cap \+ 1\)", X.func_body(mq, "nni_msgq_resize"), "nni_msgq_resize keeps cap + 1 messages")
    X.one(r"if \(mq->mq_len < mq->mq_cap\)", X.func_body(mq, "nni_msgq_tryput"), "nni_msgq_tryput room test")

