"""anchors for the model of the task layer (Model/Taskq.lean): the critical sections of src/core/taskq.c exactly as the
model delimits them, the callback outside every lock, the loop conditions of the waits, the panic of a double append"""
import re
from . import extract as X


def hook(put):
    tq = X.src("src/core/taskq.c")
    sq = lambda s: re.sub(r"\s+", " ", re.sub(r"//[^\n]*", "", s))
    thr = sq(X.func_body(tq, "nni_taskq_thread"))
    # worker: pop under tq_mtx, callback with no lock held, accounting under task_mtx, back to tq_mtx
    X.one(r"nni_mtx_lock\(&tq->tq_mtx\); for \(;;\) \{ if \(\(task = nni_list_first\(&tq->tq_tasks\)\) != NULL\) \{ "
          r"nni_list_remove\(&tq->tq_tasks, task\); nni_mtx_unlock\(&tq->tq_mtx\); task->task_cb\(task->task_arg\); "
          r"nni_mtx_lock\(&task->task_mtx\); task->task_busy--; if \(task->task_busy == 0\) \{ nni_cv_wake\(&task->task_cv\); \} "
          r"nni_mtx_unlock\(&task->task_mtx\); nni_mtx_lock\(&tq->tq_mtx\); continue; \}", thr,
          "nni_taskq_thread: pop / callback outside the locks / task_busy-- and wake under task_mtx")
    X.one(r"nni_cv_wake\(&tq->tq_wait_cv\); if \(!tq->tq_run\) \{ break; \} nni_cv_wait\(&tq->tq_sched_cv\); \}", thr,
          "nni_taskq_thread: sleeps on tq_sched_cv only with an empty list, under tq_mtx")
    ex = sq(X.func_body(tq, "nni_task_exec"))
    X.one(r"nni_mtx_lock\(&task->task_mtx\); if \(task->task_prep\) \{ task->task_prep = false; \} else \{ task->task_busy\+\+; \} "
          r"if \(task->task_cb != NULL\) \{ nni_mtx_unlock\(&task->task_mtx\); task->task_cb\(task->task_arg\); "
          r"nni_mtx_lock\(&task->task_mtx\); \} task->task_busy--; if \(task->task_busy == 0\) \{ nni_cv_wake\(&task->task_cv\); \} "
          r"nni_mtx_unlock\(&task->task_mtx\);", ex, "nni_task_exec: take, callback outside the lock, task_busy-- and wake")
    di = sq(X.func_body(tq, "nni_task_dispatch"))
    X.one(r"if \(task->task_cb == NULL\) \{ nni_task_exec\(task\); return; \} nni_mtx_lock\(&task->task_mtx\); "
          r"if \(task->task_prep\) \{ task->task_prep = false; \} else \{ task->task_busy\+\+; \} nni_mtx_unlock\(&task->task_mtx\); "
          r"nni_mtx_lock\(&tq->tq_mtx\); nni_list_append\(&tq->tq_tasks, task\); nni_cv_wake1\(&tq->tq_sched_cv\); "
          r"nni_mtx_unlock\(&tq->tq_mtx\);", di, "nni_task_dispatch: NULL callback -> exec; take under task_mtx; append + wake1 under tq_mtx")
    X.one(r"nni_mtx_lock\(&task->task_mtx\); task->task_busy\+\+; task->task_prep = true; nni_mtx_unlock\(&task->task_mtx\);",
          sq(X.func_body(tq, "nni_task_prep")), "nni_task_prep: task_busy++, task_prep = true")
    for f in ("nni_task_wait", "nni_task_fini"):
        X.one(r"nni_mtx_lock\(&task->task_mtx\); while \(task->task_busy\) \{ nni_cv_wait\(&task->task_cv\); \} nni_mtx_unlock\(&task->task_mtx\);",
              sq(X.func_body(tq, f)), f + ": while (task_busy) cv_wait under task_mtx")
    X.one(r"nni_mtx_lock\(&task->task_mtx\); busy = task->task_busy; nni_mtx_unlock\(&task->task_mtx\); return \(busy\);",
          sq(X.func_body(tq, "nni_task_busy")), "nni_task_busy")
    ini = sq(X.func_body(tq, "nni_task_init"))
    X.one(r"nni_cv_init\(&task->task_cv, &task->task_mtx\); task->task_prep = false; task->task_busy = 0;", ini, "nni_task_init")
    X.one(r"nni_cv_init\(&tq->tq_sched_cv, &tq->tq_mtx\);", sq(X.func_body(tq, "nni_taskq_init")), "tq_sched_cv belongs to tq_mtx")
    hdr = X.src("src/core/taskq.h")
    X.one(r"unsigned\s+task_busy;\s*bool\s+task_prep;", hdr, "struct nni_task: unsigned task_busy; bool task_prep")
    lst = sq(X.func_body(X.src("src/core/list.c"), "nni_list_append"))
    X.one(r"if \(\(node->ln_next != NULL\) \|\| \(node->ln_prev != NULL\)\) \{ nni_panic\(", lst, "nni_list_append panics on a linked node")
    if re.search(r"nni_task_(abort|cancel)", tq + hdr):
        raise X.ExtractError("taskq.c has an abort/cancel entry point that Model/Taskq.lean does not model")
    put("taskqAnchored", True, "core/taskq.c: critical sections, callback outside the locks, wait loops and the double-append panic match Model/Taskq.lean")
    put("taskqBusyBits", 32, "core/taskq.h: unsigned task_busy")
