"""constants and anchors for the SP/UDP association model and the ws:// session model (Model/HostileNet.lean)."""
import re
from . import extract as X


def hook(put):
    udps = X.src("src/sp/transport/udp/udp.c")
    udp = X.strip_comments(udps)
    # ---- disconnect reasons
    names = ["CLOSED", "TYPE", "REFUSED", "MSGSIZE", "NEGO", "INACTIVE", "PROTO", "NOBUF"]
    vals = []
    for n in names:
        vals.append(int(X.one(r"DISC_" + n + r"\s*=\s*(\d+),", udp, "DISC_" + n).group(1)))
    put("c11bUdpDisc", vals, "udp.c enum udp_disc_reason " + " ".join(names))
    put("c11bUdpMaxPeers", X.define(udp, "NNG_UDP_MAX_PEERS"), "udp.c NNG_UDP_MAX_PEERS")
    put("c11bUdpRxQueueLen", X.define(udp, "NNG_UDP_RXQUEUE_LEN"), "udp.c NNG_UDP_RXQUEUE_LEN")
    # ---- udp_recv_creq: order of the decisions
    cr = X.func_body(udps, "udp_recv_creq")
    X.one(r"if \(\(p = udp_find_pipe\(ep, sa\)\)\) \{\s*if \(p->peer != creq->us_type\) \{\s*udp_send_disc\(ep, p, DISC_TYPE\);\s*return;\s*\}"
          r".*?if \(creq->us_refresh == 0\) \{\s*udp_send_disc\(ep, p, DISC_NEGO\);\s*return;\s*\}.*?udp_send_cack\(ep, p\);\s*return;\s*\}",
          cr, "udp_recv_creq: known sender: type test, refresh test, CACK")
    X.one(r"if \(\(ep->max_peers != 0\) && \(ep->peer_count >= ep->max_peers\)\) \{.*?udp_send_disc_full\(ep, sa, DISC_NOBUF\);\s*return;\s*\}"
          r".*?if \(creq->us_refresh == 0\) \{\s*udp_send_disc_full\(ep, sa, DISC_NEGO\);\s*return;\s*\}"
          r".*?nni_pipe_alloc_listener.*?p->peer\s*=\s*creq->us_type;.*?udp_send_cack\(ep, p\);\s*udp_ep_match\(ep\);",
          cr, "udp_recv_creq: new sender: peer limit, refresh test, pipe, CACK, match")
    ck = X.func_body(udps, "udp_recv_cack")
    X.one(r"if \(\(p = udp_find_pipe\(ep, sa\)\) && \(!p->closed\)\) \{\s*if \(p->peer != cack->us_type\) \{\s*udp_send_disc\(ep, p, DISC_TYPE\);\s*return;\s*\}"
          r".*?if \(cack->us_refresh == 0\) \{\s*udp_send_disc\(ep, p, DISC_NEGO\);\s*return;\s*\}", ck, "udp_recv_cack: type test, refresh test")
    ds = X.func_body(udps, "udp_recv_disc")
    X.one(r"p = udp_find_pipe\(ep, sa\);\s*if \(p != NULL\) \{\s*p->closed = true;.*?nni_pipe_close\(p->npipe\);", ds,
          "udp_recv_disc: the pipe of the sender is closed, no answer")
    pc = X.func_body(udps, "udp_pipe_close")
    X.one(r"udp_remove_pipe\(p\);\s*udp_send_disc\(ep, p, DISC_CLOSED\);", pc, "udp_pipe_close: forget the sender, then DISC(CLOSED)")
    sd = X.func_body(udps, "udp_send_disc")
    X.one(r"if \(p->closed\) \{\s*return;\s*\}\s*p->closed = true;", sd, "udp_send_disc: once per pipe")
    rp = X.func_body(X.src("src/core/pipe.c"), "pipe_reap")
    X.one(r"p->p_tran_ops\.p_close\(p->p_tran_data\);\s*nni_pipe_run_cb\(p, NNG_PIPE_EV_REM_POST\);", X.strip_comments(rp),
          "pipe_reap: transport close precedes the REM_POST event (the harness waits on it)")

    # ---- ws:// : HTTP server decisions and the upgrade handler
    wss = X.src("src/supplemental/websocket/websocket.c")
    ws = X.strip_comments(wss)
    put("c11bWsDefRecvMax", 1 << int(X.one(r"#define\s+WS_DEF_RECVMAX\s+\(1U << (\d+)\)", wss, "WS_DEF_RECVMAX").group(1)), "websocket.c WS_DEF_RECVMAX")
    put("c11bWsDefMaxRxFrame", 1 << int(X.one(r"#define\s+WS_DEF_MAXRXFRAME\s+\(1U << (\d+)\)", wss, "WS_DEF_MAXRXFRAME").group(1)),
        "websocket.c WS_DEF_MAXRXFRAME")
    put("c11bWsDefMaxTxFrame", 1 << int(X.one(r"#define\s+WS_DEF_MAXTXFRAME\s+\(1U << (\d+)\)", wss, "WS_DEF_MAXTXFRAME").group(1)),
        "websocket.c WS_DEF_MAXTXFRAME")
    hd = X.func_body(wss, "ws_handler")
    X.one(r'strcmp\(nng_http_get_version\(conn\), "HTTP/1\.1"\) != 0\) \{\s*status = NNG_HTTP_STATUS_HTTP_VERSION_NOT_SUPP;.*?'
          r'strcmp\(nng_http_get_method\(conn\), "GET"\) != 0\) \{.*?status = NNG_HTTP_STATUS_BAD_REQUEST;.*?'
          r'"Content-Length"\)\) != NULL\) &&\s*\(atoi\(ptr\) > 0\)\).*?status = NNG_HTTP_STATUS_CONTENT_TOO_LARGE;.*?'
          r'"Upgrade"\)\) == NULL\) \|\|\s*\(!ws_contains_word\(ptr, "websocket"\)\) \|\|.*?"Connection"\)\) == NULL\) \|\|\s*'
          r'\(!ws_contains_word\(ptr, "upgrade"\)\) \|\|.*?"Sec-WebSocket-Version"\)\) ==\s*NULL\) \|\|\s*\(strcmp\(ptr, "13"\) != 0\)\) \{\s*'
          r'status = NNG_HTTP_STATUS_BAD_REQUEST;.*?"Sec-WebSocket-Key"\)\) == NULL\) \|\|\s*\(ws_make_accept\(ptr, key\) != 0\)\) \{\s*'
          r'status = NNG_HTTP_STATUS_BAD_REQUEST;.*?proto = nng_http_get_header\(conn, "Sec-WebSocket-Protocol"\);\s*if \(proto == NULL\) \{\s*'
          r'if \(l->proto != NULL\) \{\s*status = NNG_HTTP_STATUS_BAD_REQUEST;.*?\} else if \(\(l->proto == NULL\) \|\| \(proto\[0\] == \'\\0\'\) \|\|\s*'
          r'\(strpbrk\(proto, " ,"\) != NULL\) \|\|\s*\(!ws_contains_word\(l->proto, proto\)\)\) \{\s*status = NNG_HTTP_STATUS_BAD_REQUEST;', hd, "ws_handler: order of the header tests")
    ma = X.func_body(wss, "ws_make_accept")
    put("c11bWsKeyLen", int(X.one(r"if \(strlen\(key\) != (\d+)\) \{\s*return \(NNG_EINVAL\);", ma, "ws_make_accept key length").group(1)),
        "websocket.c ws_make_accept: strlen(key)")
    cw = X.func_body(wss, "ws_contains_word")
    X.one(r"nni_strncasecmp\(phrase, word, len\) == 0\) &&\s*\(\(phrase\[len\] == 0\) \|\| \(phrase\[len\] == ' '\) \|\|\s*\(phrase\[len\] == ','\)\)\) \{\s*"
          r"return \(true\);.*?if \(\(phrase = strchr\(phrase, ' '\)\) != NULL\) \{\s*while \(\(\*phrase == ' '\) \|\| \(\*phrase == ','\)\) \{\s*phrase\+\+;",
          cw, "ws_contains_word")
    wt = X.src("src/sp/transport/ws/websocket.c")
    X.one(r'"%s\.sp\.nanomsg\.org", nni_sock_proto_name\(s\)\);.*?NNI_OPT_WS_MSGMODE, true\).*?NNG_OPT_WS_PROTOCOL, name\)', wt,
          "ws transport listener: message mode, sub-protocol <own protocol name>.sp.nanomsg.org")

    hs = X.src("src/supplemental/http/http_server.c")
    rx = X.strip_comments(X.func_body(hs, "http_sconn_rxdone"))
    X.one(r"if \(nng_http_get_status\(sc->conn\) >= NNG_HTTP_STATUS_BAD_REQUEST\) \{\s*sc->close = true;\s*http_sconn_error\(sc, nng_http_get_status\(sc->conn\)\);\s*return;.*?"
          r'strncmp\(val, "HTTP/1\.", 7\) != 0\) \{\s*sc->close = true;\s*http_sconn_error\(sc, NNG_HTTP_STATUS_HTTP_VERSION_NOT_SUPP\);.*?'
          r'strcmp\(val, "HTTP/1\.1"\) != 0\) \{\s*sc->close = true;\s*\} else \{\s*needhost = true;.*?'
          r"if \(uri\[0\] != '/'\) \{\s*sc->close = true;\s*http_sconn_error\(sc, NNG_HTTP_STATUS_BAD_REQUEST\);.*?"
          r'nni_strcasestr\(val, "close"\) != NULL\) \{\s*sc->close = true;.*?'
          r'"Transfer-Encoding"\) != NULL\) \{\s*sc->close = true;\s*http_sconn_error\(sc, NNG_HTTP_STATUS_NOT_IMPLEMENTED\);.*?'
          r"sc->unconsumed_body = strtoull\(cls, &end, 10\);.*?"
          r"if \(\(host == NULL\) && \(needhost\)\) \{\s*http_sconn_error\(sc, NNG_HTTP_STATUS_BAD_REQUEST\);.*?"
          r"http_sconn_error\(\s*sc, NNG_HTTP_STATUS_METHOD_NOT_ALLOWED\);\s*\} else \{\s*http_sconn_error\(sc, NNG_HTTP_STATUS_NOT_FOUND\);.*?"
          r"if \(sc->unconsumed_body > h->maxbody\) \{.*?NNG_HTTP_STATUS_CONTENT_TOO_LARGE\);", rx, "http_sconn_rxdone: order of the decisions")
    hi = X.func_body(hs, "nni_http_handler_init")
    m = X.one(r"h->maxbody = (\d+) \* (\d+);", hi, "handler maxbody default")
    put("c11bHttpMaxBody", int(m.group(1)) * int(m.group(2)), "http_server.c nni_http_handler_init maxbody")
    X.one(r"h->getbody = true;\s*\(void\) strcpy\(h->method, \"GET\"\);", hi, "handler defaults: getbody, GET")
    tx = X.strip_comments(X.func_body(hs, "http_sconn_txdone"))
    X.one(r"if \(sc->close\) \{\s*http_sconn_close\(sc\);\s*return;\s*\}.*?if \(sc->unconsumed_body\) \{\s*nni_http_read_discard\(.*?\} else \{\s*nni_http_read_req\(",
          tx, "http_sconn_txdone: close, or discard the body and read the next request")
    hh = X.src("include/nng/http.h")
    st = {}
    for name in ["SWITCHING", "BAD_REQUEST", "NOT_FOUND", "METHOD_NOT_ALLOWED", "CONTENT_TOO_LARGE", "NOT_IMPLEMENTED", "HTTP_VERSION_NOT_SUPP"]:
        st[name] = int(X.one(r"NNG_HTTP_STATUS_" + name + r"\s*=\s*(\d+)", hh, "NNG_HTTP_STATUS_" + name).group(1))
    put("c11bHttpStatus", [st[k] for k in ["SWITCHING", "BAD_REQUEST", "NOT_FOUND", "METHOD_NOT_ALLOWED", "CONTENT_TOO_LARGE", "NOT_IMPLEMENTED",
                                           "HTTP_VERSION_NOT_SUPP"]],
        "nng/http.h status codes SWITCHING BAD_REQUEST NOT_FOUND METHOD_NOT_ALLOWED CONTENT_TOO_LARGE NOT_IMPLEMENTED HTTP_VERSION_NOT_SUPP")
