"""C18 constants: lmq inline buffer / minimum allocation, msgq spare cells, idhash probe, table
sizes and load thresholds, default id range.  Anchored on the C text; a missing anchor is an
ExtractError (broken correspondence)."""
from . import extract as X


def hook(put):
    lmqh = X.strip_comments(X.src("src/core/lmq.h"))
    m = X.one(r"nng_msg\s*\*\s*lmq_buf\[(\d+)\];", lmqh, "nni_lmq.lmq_buf dimension")
    inline = int(m.group(1))
    init = X.func_body(X.src("src/core/lmq.c"), "nni_lmq_init")
    m = X.one(r"lmq->lmq_cap\s*=\s*(\d+);\s*lmq->lmq_mask\s*=\s*(0x[0-9a-fA-F]+|\d+);\s*if \(cap > (\d+)\)", init,
              "nni_lmq_init inline capacity/mask")
    if not (int(m.group(1)) == inline == int(m.group(3)) and X.cint(m.group(2)) == inline - 1):
        raise X.ExtractError("nni_lmq_init: inline capacity, mask and buffer dimension disagree")
    rs = X.func_body(X.src("src/core/lmq.c"), "nni_lmq_resize")
    m = X.one(r"alloc = (\d+);\s*while \(alloc < cap\) \{\s*alloc \*= (\d+);", rs, "nni_lmq_resize rounding loop")
    if int(m.group(1)) != inline or int(m.group(2)) != 2:
        raise X.ExtractError("nni_lmq_resize: rounding loop is not `alloc = 2; alloc *= 2`")
    put("c18LmqInline", inline, "core/lmq.h lmq_buf[], core/lmq.c nni_lmq_init / nni_lmq_resize initial alloc")

    mq = X.src("src/core/msgqueue.c")
    a = X.one(r"alloc = cap \+ (\d+);", X.func_body(mq, "nni_msgq_init"), "nni_msgq_init alloc = cap + k")
    b = X.one(r"alloc = cap \+ (\d+);", X.func_body(mq, "nni_msgq_resize"), "nni_msgq_resize alloc = cap + k")
    if a.group(1) != b.group(1):
        raise X.ExtractError("msgqueue.c: init and resize disagree on the number of spare cells")
    X.one(r"mq->mq_len > \(\(unsigned\) cap \+ 1\)", X.func_body(mq, "nni_msgq_resize"), "nni_msgq_resize keeps cap + 1")
    put("c18MsgqSpare", int(a.group(1)), "core/msgqueue.c alloc = cap + 2 (init, resize)")

    ih = X.strip_comments(X.src("src/core/idhash.c"))
    m = X.one(r"#define ID_NEXT\(m, j\) \(\(\(\(j\) \* (\d+)\) \+ (\d+)\) & \(m->id_cap - 1\)\)", ih, "ID_NEXT")
    put("c18IdProbeMul", int(m.group(1)), "core/idhash.c ID_NEXT")
    put("c18IdProbeAdd", int(m.group(2)), "core/idhash.c ID_NEXT")
    X.one(r"#define ID_INDEX\(m, j\) \(\(j\) & \(m->id_cap - 1\)\)", ih, "ID_INDEX")
    rz = X.func_body(X.src("src/core/idhash.c"), "id_resize")
    m = X.one(r"new_cap = (\d+);\s*while \(new_cap < \(m->id_count \* 2\)\) \{\s*new_cap \*= 2;", rz, "id_resize capacity loop")
    mincap = int(m.group(1))
    put("c18IdMinCap", mincap, "core/idhash.c id_resize")
    m = X.one(r"if \(new_cap > (\d+)\) \{\s*m->id_min_load = new_cap / (\d+);\s*m->id_max_load = new_cap \* (\d+) / (\d+);"
              r"\s*\} else \{\s*m->id_min_load = (\d+);\s*m->id_max_load = (\d+);", rz, "id_resize load thresholds")
    if int(m.group(1)) != mincap or int(m.group(5)) != 0:
        raise X.ExtractError("id_resize: small-table threshold shape changed")
    put("c18IdMinLoadDiv", int(m.group(2)), "core/idhash.c id_resize")
    put("c18IdMaxLoadNum", int(m.group(3)), "core/idhash.c id_resize")
    put("c18IdMaxLoadDen", int(m.group(4)), "core/idhash.c id_resize")
    put("c18IdSmallMaxLoad", int(m.group(6)), "core/idhash.c id_resize")
    ini = X.func_body(X.src("src/core/idhash.c"), "nni_id_map_init")
    m = X.one(r"if \(lo == 0\) \{\s*lo = (\d+);\s*\}\s*if \(hi == 0\) \{\s*hi = (0x[0-9a-fA-F]+)u?;", ini, "nni_id_map_init defaults")
    put("c18IdDefaultLo", int(m.group(1)), "core/idhash.c nni_id_map_init")
    put("c18IdDefaultHi", X.cint(m.group(2)), "core/idhash.c nni_id_map_init")
