"""constants for the C01 stream-framing models (Model/SpStream.lean)"""
import re
from . import extract as X


def _head_decl(text, what, names):
    """length of the per-pipe length/header buffers: `uint8_t <name>[<k> + sizeof(uint64_t)]`"""
    vals = set()
    for n in names:
        m = X.one(r"uint8_t\s+" + n + r"\[(?:(\d+)\s*\+\s*)?sizeof\(uint64_t\)\];", text, f"{what} {n} declaration")
        vals.add(8 + (int(m.group(1)) if m.group(1) else 0))
    if len(vals) != 1:
        raise X.ExtractError(f"{what}: tx and rx header buffers differ in size")
    return vals.pop()


def _handshake(text, fn, buf, what):
    """the 8 negotiation bytes written by <tran>_pipe_start: 00 'S' 'P' 00 <proto16> 00 00"""
    body = X.func_body(text, fn)
    out = []
    for i, pat in enumerate([r"0", r"'S'", r"'P'", r"0"]):
        X.one(r"p->" + buf + r"\[" + str(i) + r"\]\s*=\s*" + pat + r";", body, f"{what} handshake byte {i}")
    X.one(r"NNI_PUT16\(&p->" + buf + r"\[4\], p->proto\);", body, f"{what} handshake protocol number")
    X.one(r"NNI_PUT16\(&p->" + buf + r"\[6\], 0\);", body, f"{what} handshake reserved")
    m = X.one(r"want_?rx_?head\s*=\s*(\d+);\s*p->want_?tx_?head\s*=\s*(\d+);\s*iov\.iov_len\s*=\s*(\d+);", body,
              f"{what} handshake length")
    if len({m.group(1), m.group(2), m.group(3)}) != 1:
        raise X.ExtractError(f"{what}: handshake lengths differ")
    return [0, ord("S"), ord("P"), 0], int(m.group(1))


def _nego_check(text, fn, buf, what):
    body = X.func_body(text, fn)
    X.one(r"\(p->" + buf + r"\[0\] != 0\) \|\|\s*\(p->" + buf + r"\[1\] != 'S'\) \|\|\s*\(p->" + buf +
          r"\[2\] != 'P'\) \|\|\s*\(p->" + buf + r"\[3\] != 0\) \|\|\s*\(p->" + buf + r"\[6\] != 0\) \|\|\s*\(p->" + buf +
          r"\[7\] != 0\)", body, f"{what} negotiation header check")
    X.one(r"NNI_GET16\(&p->" + buf + r"\[4\], p->peer\);", body, f"{what} peer protocol")


def hook(put):
    aioh = X.src("src/core/aio.h")
    put("c01AioMaxIov", X.define(aioh, "NNI_AIO_MAX_IOV"), "core/aio.h NNI_AIO_MAX_IOV")
    X.one(r"nni_iov\s+a_iov\[NNI_AIO_MAX_IOV\];", X.strip_comments(aioh), "nng_aio.a_iov dimension")
    defs = X.src("src/core/defs.h")
    m = X.one(r"#define\s+NNI_MAX_STREAM_MSGSZ\s+UINT64_C\((0x[0-9a-fA-F]+)\)", defs, "NNI_MAX_STREAM_MSGSZ")
    put("c01MaxStreamMsgSz", int(m.group(1), 16), "core/defs.h NNI_MAX_STREAM_MSGSZ")
    X.one(r"return \(\(size <= NNI_MAX_STREAM_MSGSZ\) &&\s*\(size <= \(uint64_t\) SIZE_MAX\)\);",
          X.strip_comments(defs), "nni_msg_size_valid rule")

    tcp = X.strip_comments(X.src("src/sp/transport/tcp/tcp.c"))
    put("c01TcpHeadLen", _head_decl(tcp, "tcp", ["txlen", "rxlen"]), "sp/transport/tcp/tcp.c txlen/rxlen")
    hs = _handshake(X.src("src/sp/transport/tcp/tcp.c"), "tcptran_pipe_start", "txlen", "tcp")
    hs, hslen = hs[0], hs
    _nego_check(X.src("src/sp/transport/tcp/tcp.c"), "tcptran_pipe_nego_cb", "rxlen", "tcp")
    put("c01HandshakePrefix", hs, "sp/transport/tcp/tcp.c tcptran_pipe_start: 00 'S' 'P' 00, then proto16, then 00 00")
    put("c01HandshakeLen", hslen[1], "tcptran_pipe_start wanttxhead = sizeof(txlen)")
    body = X.func_body(X.src("src/sp/transport/tcp/tcp.c"), "tcptran_pipe_recv_cb")
    X.one(r"NNI_GET64\(p->rxlen, len\);\s*if \(!nni_msg_size_valid\(len\)\) \{\s*rv = NNG_EMSGSIZE;", body, "tcp recv size check")
    X.one(r"if \(\(len > p->rcvmax\) && \(p->rcvmax > 0\)\)", body, "tcp rcvmax rule")
    body = X.func_body(X.src("src/sp/transport/tcp/tcp.c"), "tcptran_pipe_send_start")
    X.one(r"len = nni_msg_len\(msg\) \+ nni_msg_header_len\(msg\);\s*NNI_PUT64\(p->txlen, len\);", body, "tcp send length")

    sfd = X.strip_comments(X.src("src/sp/transport/socket/sockfd.c"))
    put("c01SfdHeadLen", _head_decl(sfd, "sockfd", ["txlen", "rxlen"]), "sp/transport/socket/sockfd.c txlen/rxlen")
    if _handshake(X.src("src/sp/transport/socket/sockfd.c"), "sfd_tran_pipe_start", "txlen", "sockfd") != hslen:
        raise X.ExtractError("sockfd handshake differs from tcp")
    _nego_check(X.src("src/sp/transport/socket/sockfd.c"), "sfd_tran_pipe_nego_cb", "rxlen", "sockfd")
    body = X.func_body(X.src("src/sp/transport/socket/sockfd.c"), "sfd_tran_pipe_recv_cb")
    X.one(r"NNI_GET64\(p->rxlen, len\);\s*if \(!nni_msg_size_valid\(len\)\) \{\s*rv = NNG_EMSGSIZE;", body, "sockfd recv size check")
    X.one(r"if \(\(len > p->rcvmax\) && \(p->rcvmax > 0\)\)", body, "sockfd rcvmax rule")

    ipcs = X.src("src/sp/transport/ipc/ipc.c")
    ipc = X.strip_comments(ipcs)
    put("c01IpcHeadLen", _head_decl(ipc, "ipc", ["tx_head", "rx_head"]), "sp/transport/ipc/ipc.c tx_head/rx_head")
    if _handshake(ipcs, "ipc_pipe_start", "tx_head", "ipc") != hslen:
        raise X.ExtractError("ipc handshake differs from tcp")
    _nego_check(ipcs, "ipc_pipe_nego_cb", "rx_head", "ipc")
    body = X.func_body(ipcs, "ipc_pipe_send_start")
    m = X.one(r"p->tx_head\[0\] = (\d+);", body, "ipc message type byte (send)")
    X.one(r"NNI_PUT64\(p->tx_head \+ 1, len\);", body, "ipc length placement")
    rb = X.func_body(ipcs, "ipc_pipe_recv_cb")
    m2 = X.one(r"if \(p->rx_head\[0\] != (\d+)\) \{\s*rv = NNG_EPROTO;", rb, "ipc message type byte (recv)")
    if m.group(1) != m2.group(1):
        raise X.ExtractError("ipc message type byte differs between send and receive")
    X.one(r"NNI_GET64\(p->rx_head \+ 1, len\);\s*if \(!nni_msg_size_valid\(len\)\) \{\s*rv = NNG_EMSGSIZE;", rb, "ipc recv size check")
    X.one(r"if \(\(len > p->rcv_max\) && \(p->rcv_max > 0\)\)", rb, "ipc rcvmax rule")
    put("c01IpcMsgType", int(m.group(1)), "sp/transport/ipc/ipc.c tx_head[0] / rx_head[0] check")
