"""Shared machinery: PRNG, running op streams through the implementation harness and the Lean
driver, diffing, delta-debugging, evidence files, verdict lines."""
import os, sys, json, time, subprocess, hashlib, concurrent.futures as cf

HERE = os.path.dirname(os.path.dirname(os.path.abspath(__file__)))
# VERIF_OUT redirects evidence/replays (used when a check is run against a scratch tree, e.g. a
# seeded fault, so that the committed evidence of the real tree is not overwritten)
_OUT = os.environ.get("VERIF_OUT", HERE)
REPLAYS = os.path.join(_OUT, "replays")
EVIDENCE = os.path.join(_OUT, "evidence")
NCPU = os.cpu_count() or 4
M64 = (1 << 64) - 1


class Rng:
    """splitmix64; every random choice of a run derives from one of these, seeded by
    (VERIF_SEED, property id, case index), so a case replays exactly."""

    def __init__(self, *seed):
        h = hashlib.sha256(repr(seed).encode()).digest()
        self.s = int.from_bytes(h[:8], "little")

    def next(self):
        self.s = (self.s + 0x9E3779B97F4A7C15) & M64
        z = self.s
        z = ((z ^ (z >> 30)) * 0xBF58476D1CE4E5B9) & M64
        z = ((z ^ (z >> 27)) * 0x94D049BB133111EB) & M64
        return z ^ (z >> 31)

    def below(self, n):
        return self.next() % n if n > 0 else 0

    def range(self, lo, hi):  # inclusive
        return lo + self.below(hi - lo + 1)

    def choice(self, xs):
        return xs[self.below(len(xs))]

    def chance(self, num, den):
        return self.below(den) < num

    def bytes(self, n):
        out = bytearray()
        while len(out) < n:
            out += self.next().to_bytes(8, "little")
        return bytes(out[:n])

    def weighted(self, pairs):
        tot = sum(w for _, w in pairs)
        r = self.below(tot)
        for x, w in pairs:
            if r < w:
                return x
            r -= w
        return pairs[-1][0]


def hexs(b):
    return b.hex() if b else "-"


def seed_from_env():
    try:
        return int(os.environ.get("VERIF_SEED", "1"))
    except ValueError:
        return 1


class ProcResult:
    def __init__(self, lines, rc, err):
        self.lines, self.rc, self.err = lines, rc, err


def run_stream(cmd, text, env=None, timeout=600, _retry=2):
    try:
        p = subprocess.run(cmd, input=text, capture_output=True, text=True, env=env, timeout=timeout)
        if p.returncode in (-15, -9) and _retry > 0 and "Sanitizer" not in p.stderr:
            # killed from outside (not a result of the program): run again
            return run_stream(cmd, text, env, timeout, _retry - 1)
        return ProcResult(p.stdout.splitlines(), p.returncode, p.stderr)
    except subprocess.TimeoutExpired as e:
        out = e.stdout.decode() if isinstance(e.stdout, bytes) else (e.stdout or "")
        return ProcResult(out.splitlines(), -999, "TIMEOUT")


def cases_to_text(cases, prelude=()):
    """cases: list of op-line lists.  Each case is followed by `reset`."""
    out = []
    for c in cases:
        out.extend(prelude)
        out.extend(c)
        out.append("reset")
    return "\n".join(out) + "\n"


def split_cases(lines):
    cur, res = [], []
    for l in lines:
        if l == "reset":
            res.append(cur)
            cur = []
        else:
            cur.append(l)
    return res, cur  # cur = trailing partial case (crash)


def chunked(xs, n):
    k = max(1, (len(xs) + n - 1) // n)
    return [xs[i:i + k] for i in range(0, len(xs), k)]


def parallel_map(fn, items, workers=None):
    with cf.ThreadPoolExecutor(max_workers=workers or NCPU) as ex:
        return list(ex.map(fn, items))


def ddmin(ops, fails, budget_s=60, keep_prefix=0):
    """classic ddmin over a list of op lines; `fails(ops)->bool`."""
    t0 = time.time()
    head, ops = ops[:keep_prefix], ops[keep_prefix:]
    n = 2
    while len(ops) >= 2 and time.time() - t0 < budget_s:
        size = max(1, len(ops) // n)
        subsets = [ops[i:i + size] for i in range(0, len(ops), size)]
        reduced = False
        for i in range(len(subsets)):
            comp = [x for j, s in enumerate(subsets) if j != i for x in s]
            if comp and fails(head + comp):
                ops = comp
                n = max(n - 1, 2)
                reduced = True
                break
        if not reduced:
            if n >= len(ops):
                break
            n = min(len(ops), n * 2)
    return head + ops


def clear_replays(prop):
    if os.path.isdir(REPLAYS):
        for f in os.listdir(REPLAYS):
            if f.startswith(prop + "-"):
                os.unlink(os.path.join(REPLAYS, f))


def write_replay(prop, seed, tag, payload):
    os.makedirs(REPLAYS, exist_ok=True)
    path = os.path.join(REPLAYS, f"{prop}-{seed}-{tag}.json")
    with open(path, "w") as f:
        json.dump(payload, f, indent=1)
    return path


def write_evidence(prop, tier, seed, level, coverage, assumptions, wall_s, violations):
    os.makedirs(EVIDENCE, exist_ok=True)
    ev = {"property_id": prop, "tier": tier, "seed": seed, "level": level, "coverage": coverage,
          "assumptions": assumptions, "wall_s": round(wall_s, 2), "violations": violations}
    with open(os.path.join(EVIDENCE, f"{prop}.json"), "w") as f:
        json.dump(ev, f, indent=1)
    return ev


def known_findings(prop):
    path = os.path.join(HERE, "known_findings.json")
    if not os.path.exists(path):
        return []
    return [e for e in json.load(open(path)) if e.get("property") == prop]


def log(prop, msg):
    print(f"[{prop}] {msg}", flush=True)


class Verdict:
    """collects violations; prints VIOLATION / KNOWN-FINDING lines; decides the exit code."""

    def __init__(self, prop, seed):
        self.prop, self.seed = prop, seed
        self.violations = []  # (replay_path, no_input)
        self.known = []

    def violation(self, tag, payload, no_input=False):
        path = write_replay(self.prop, self.seed, tag, payload)
        self.violations.append((path, no_input))
        return path

    def known_finding(self, text):
        self.known.append(text)

    def finish(self):
        for t in self.known:
            print(f"KNOWN-FINDING: property={self.prop} {t}", flush=True)
        for path, no_input in self.violations:
            print(f"VIOLATION property={self.prop} replay={path}" + (" no-failing-input-found" if no_input else ""),
                  flush=True)
        return 1 if self.violations else 0
