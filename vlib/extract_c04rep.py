"""constants for the REP / XREP / XREQ models (C04, replier half and raw sockets)"""
import re
from . import extract as X


def _hex(s):
    return int(s, 0)


def hook(put):
    rep = X.src("src/sp/protocol/reqrep0/rep.c")
    xrep = X.src("src/sp/protocol/reqrep0/xrep.c")
    xreq = X.src("src/sp/protocol/reqrep0/xreq.c")
    m = X.one(r"#define\s+REP0_SELF\s+(0x[0-9a-fA-F]+)", rep, "REP0_SELF")
    put("protoRep", _hex(m.group(1)), "reqrep0/rep.c REP0_SELF")
    m = X.one(r"#define\s+REP0_PEER\s+(0x[0-9a-fA-F]+)", rep, "REP0_PEER")
    put("protoReq", _hex(m.group(1)), "reqrep0/rep.c REP0_PEER")
    for name, text, fn in (("xrep", xrep, "xrep0_pipe_start"), ("rep", rep, "rep0_pipe_start")):
        X.one(r"nni_pipe_peer\(p->pipe\) != REP0_PEER", X.func_body(text, fn), f"{name} peer check")
    m = X.one(r"#define\s+REP0_PEER\s+(0x[0-9a-fA-F]+)", xrep, "xrep REP0_PEER")
    if _hex(m.group(1)) != _hex(X.one(r"#define\s+REP0_PEER\s+(0x[0-9a-fA-F]+)", rep, "REP0_PEER").group(1)):
        raise X.ExtractError("rep.c and xrep.c disagree on REP0_PEER")
    m = X.one(r"#define\s+REQ0_PEER\s+(0x[0-9a-fA-F]+)", xreq, "xreq REQ0_PEER")
    put("xreqPeer", _hex(m.group(1)), "reqrep0/xreq.c REQ0_PEER")
    X.one(r"nni_pipe_peer\(p->pipe\) != REQ0_PEER", X.func_body(xreq, "xreq0_pipe_start"), "xreq peer check")
    # default TTLs
    m = X.one(r"nni_atomic_set\(&s->ttl, (\d+)\)", X.func_body(rep, "rep0_sock_init"), "rep default ttl")
    put("repDefaultTtl", int(m.group(1)), "reqrep0/rep.c rep0_sock_init")
    m = X.one(r"nni_atomic_set\(&s->ttl, (\d+)\)", X.func_body(xrep, "xrep0_sock_init"), "xrep default ttl")
    put("xrepDefaultTtl", int(m.group(1)), "reqrep0/xrep.c xrep0_sock_init")
    m = X.one(r"nni_atomic_set\(&s->ttl, (\d+)\)", X.func_body(xreq, "xreq0_sock_init"), "xreq default ttl")
    put("xreqDefaultTtl", int(m.group(1)), "reqrep0/xreq.c xreq0_sock_init")
    # option range of NNG_OPT_MAXTTL: 1 .. NNI_MAX_MAX_TTL in all three
    for name, text, fn in (("rep", rep, "rep0_sock_set_max_ttl"), ("xrep", xrep, "xrep0_sock_set_maxttl"),
                           ("xreq", xreq, "xreq0_sock_set_max_ttl")):
        m = X.one(r"nni_copyin_int\(&ttl, buf, sz, (\d+), NNI_MAX_MAX_TTL, t\)", X.func_body(text, fn), f"{name} ttl range")
        if int(m.group(1)) != 1:
            raise X.ExtractError(f"{name}: lower bound of NNG_OPT_MAXTTL is not 1")
    put("repTtlMin", 1, "reqrep0/rep.c rep0_sock_set_max_ttl nni_copyin_int lower bound (upper: maxMaxTtl)")
    nngh = X.src("include/nng/nng.h")
    X.one(r'#define\s+NNG_OPT_MAXTTL\s+"ttl-max"', nngh, "NNG_OPT_MAXTTL name")
    # rep context backtrace capacity: btrace[NNI_MAX_MAX_TTL + 1] words
    X.one(r"uint32_t\s+btrace\[NNI_MAX_MAX_TTL \+ 1\];", X.strip_comments(rep), "rep0_ctx.btrace dimension")
    # hop loop shape (hops starts at 1, test `hops > ttl` first) in rep and xrep
    for name, text, fn in (("rep", rep, "rep0_pipe_recv_cb"), ("xrep", xrep, "xrep0_pipe_recv_cb")):
        b = X.func_body(text, fn)
        X.one(r"hops = 1;\s*for \(;;\) \{[^}]*?if \(hops > ttl\) \{\s*goto drop;\s*\}\s*hops\+\+;\s*if \(nni_msg_len\(msg\) < 4\)", b, f"{name} hop loop")
        X.one(r"end\s*=\s*\(\(body\[0\] & 0x80u\) != 0\);", b, f"{name} terminator test")
    # xrep per-pipe send queue depth, socket-level queue defaults
    m = X.one(r"nni_msgq_init\(&p->sendq, (\d+)\)", X.func_body(xrep, "xrep0_pipe_init"), "xrep pipe sendq depth")
    put("xrepPipeSendq", int(m.group(1)), "reqrep0/xrep.c xrep0_pipe_init")
    sock = X.src("src/core/socket.c")
    b = X.func_body(sock, "nni_sock_create")
    m1 = X.one(r"nni_msgq_init\(&s->s_uwq, (\d+)\)", b, "socket uwq default depth")
    m2 = X.one(r"nni_msgq_init\(&s->s_urq, (\d+)\)", b, "socket urq default depth")
    put("sockSendqInit", int(m1.group(1)), "core/socket.c nni_sock_create s_uwq")
    put("sockRecvqInit", int(m2.group(1)), "core/socket.c nni_sock_create s_urq")
