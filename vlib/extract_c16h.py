"""C16 (HTTP request/response layer) constants re-extracted from /repo on every run: the size of the
connection receive buffer, the fixed field sizes that truncate, the version table, the discard marker, the
status codes the read path produces, and -- as a FLAG, not a hard anchor -- the order of `http_buf_pull_up`
and the buffer-full test in http_rd_buf (the model follows the flag; Props/C16Http.lean has the obligation
that the order is the segmentation-independent one)."""
import re
from . import extract as X


def _status(http_h, name):
    return int(X.one(r"\bNNG_HTTP_STATUS_" + name + r"\s*=\s*(\d+)", http_h, "NNG_HTTP_STATUS_" + name).group(1))


def hook(put):
    conn_src = X.src("src/supplemental/http/http_conn.c")
    conn = X.strip_comments(conn_src)
    m = X.one(r"#define\s+HTTP_BUFSIZE\s+\((\d+)\s*-\s*(\d+)\)", conn, "HTTP_BUFSIZE")
    put("httpBufSize", int(m.group(1)) - int(m.group(2)), "http_conn.c HTTP_BUFSIZE")
    X.one(r"conn->buf = nni_alloc\(HTTP_BUFSIZE\)\) == NULL.*?conn->bufsz = HTTP_BUFSIZE;", conn, "http_init buffer size")
    put("httpMethSize", int(X.one(r"char\s+meth\[(\d+)\];", conn, "nng_http_conn.meth").group(1)), "http_conn.c struct nng_http_conn meth[]")
    put("httpHostSize", int(X.one(r"char\s+host\[(\d+)\];", conn, "nng_http_conn.host").group(1)), "http_conn.c struct nng_http_conn host[]")
    msgh = X.strip_comments(X.src("src/supplemental/http/http_msg.h"))
    put("httpClenSize", int(X.one(r"char\s+clen\[(\d+)\];", msgh, "nni_http_entity.clen").group(1)), "http_msg.h nni_http_entity clen[]")
    put("httpCtypeSize", int(X.one(r"char\s+ctype\[(\d+)\];", msgh, "nni_http_entity.ctype").group(1)), "http_msg.h nni_http_entity ctype[]")

    sv = X.func_body(conn_src, "nni_http_set_version")
    m = X.one(r"http_versions\[\]\s*=\s*\{(.*?)NULL,?\s*\}", sv, "http_versions table")
    vers = re.findall(r'"([^"]*)"', m.group(1))
    if not vers:
        raise X.ExtractError("http_versions table is empty")
    X.one(r"strcmp\(vers, http_versions\[i\]\) == 0", sv, "nni_http_set_version exact comparison")
    put("httpVersions", [([ord(c) for c in v],) for v in vers], "http_conn.c nni_http_set_version http_versions[]")
    hh = X.src("include/nng/http.h")
    dv = X.one(r'#define\s+NNG_HTTP_VERSION_1_1\s+"([^"]*)"', hh, "NNG_HTTP_VERSION_1_1").group(1)
    put("httpDefaultVersion", [ord(c) for c in dv], "include/nng/http.h NNG_HTTP_VERSION_1_1")
    put("httpStatusCodes", [_status(hh, n) for n in ["OK", "BAD_REQUEST", "URI_TOO_LONG", "HEADERS_TOO_LARGE", "HTTP_VERSION_NOT_SUPP"]],
        "include/nng/http.h NNG_HTTP_STATUS_ OK BAD_REQUEST URI_TOO_LONG HEADERS_TOO_LARGE HTTP_VERSION_NOT_SUPP")

    rd = X.func_body(conn_src, "http_rd_buf")
    i = rd.find("case HTTP_RD_REQ:")
    j = rd.find("case HTTP_RD_RES:")
    k = rd.find("case HTTP_RD_CHUNK:")
    if i < 0 or j < i or k < j:
        raise X.ExtractError("http_rd_buf: HTTP_RD_REQ / HTTP_RD_RES / HTTP_RD_CHUNK cases not found in the expected order")
    req, res = rd[i:j], rd[j:k]
    mk = X.one(r'strcpy\(\(char \*\) conn->buf, "([^"]*)"\);', req, "http_rd_buf discard marker")
    put("httpDiscardMarker", [ord(c) for c in mk.group(1)], "http_conn.c http_rd_buf HTTP_RD_REQ: strcpy(conn->buf, ...)")
    X.one(r"conn->req\.data\.parsed\s*\?\s*NNG_HTTP_STATUS_HEADERS_TOO_LARGE\s*:\s*NNG_HTTP_STATUS_URI_TOO_LONG", req,
          "http_rd_buf 431/414 choice")
    # order of pull-up and the full test inside `if (rv == NNG_EAGAIN)`: FLAG
    a = req.find("if (rv == NNG_EAGAIN)")
    body = req[a:] if a >= 0 else ""
    pu = body.find("http_buf_pull_up(conn);")
    ft = body.find("if (conn->rd_put == conn->bufsz)")
    rdv = body.find("iov1.iov_buf")
    put("httpReqPullUpBeforeFullTest", bool(0 <= pu < ft < rdv and body.count("http_buf_pull_up(conn);") == 1),
        "http_conn.c http_rd_buf HTTP_RD_REQ: http_buf_pull_up() precedes the `rd_put == bufsz` test (flag)")
    # parse is applied to buf + rd_get over rd_put - rd_get bytes, then rd_get += n and the reset when empty
    put("httpReqParseFromGet", bool(re.search(r"rv\s*=\s*nni_http_req_parse\(conn, rbuf, cnt, &n\);.*?conn->rd_get \+= n;\s*"
                                              r"if \(conn->rd_get == conn->rd_put\) \{\s*conn->rd_get = conn->rd_put = 0;", req, re.S)),
        "http_conn.c http_rd_buf HTTP_RD_REQ: parse over [rd_get, rd_put), advance, reset when drained (flag)")
    put("httpResPullUpBeforeSizeTest", bool(re.search(r"http_buf_pull_up\(conn\);\s*iov1\.iov_buf\s*=\s*conn->buf \+ conn->rd_put;\s*"
                                                      r"iov1\.iov_len\s*=\s*conn->bufsz - conn->rd_put;\s*conn->buffered\s*=\s*true;\s*"
                                                      r"if \(iov1\.iov_len == 0\) \{\s*return \(NNG_EMSGSIZE\);", res, re.S)),
        "http_conn.c http_rd_buf HTTP_RD_RES: pull-up, then EMSGSIZE when no room is left (flag)")

    msg = X.src("src/supplemental/http/http_msg.c")
    sl = X.func_body(msg, "http_scan_line")
    X.one(r"if \(c == '\\n'\)", sl, "http_scan_line LF test")
    X.one(r"if \(\(\(c < ' '\) && \(c != '\\r'\)\) \|\| \(lc == '\\r'\)\)", sl, "http_scan_line control-character test")
    rq = X.func_body(msg, "nni_http_req_parse")
    # the request loop does not test the result of http_parse_header (a malformed header line is skipped)
    put("httpReqIgnoresHeaderError", not bool(re.search(r"if \(rv != 0\) \{\s*break;", rq)),
        "http_msg.c nni_http_req_parse: loop does not stop on a header error (flag)")
    rs = X.func_body(msg, "nni_http_res_parse")
    X.one(r"if \(rv != 0\) \{\s*break;", rs, "nni_http_res_parse stops on a header/status-line error")
    put("httpResRejectsEmptyHead", bool(re.search(r"if \(\*line == '\\0'\) \{\s*if \(!res->data\.parsed\) \{\s*rv = NNG_EPROTO;", rs)),
        "http_msg.c nni_http_res_parse: an empty line in place of the status line is a protocol error (flag)")
    pr = X.func_body(conn_src, "http_prepare")
    put("httpPrepareSparesUnread", bool(re.search(r"\(len < conn->bufsz\) && \(conn->rd_get == conn->rd_put\)", pr)),
        "http_conn.c http_prepare: the connection buffer is used for writing only when it holds no unread received data (flag)")
    rl = X.func_body(msg, "http_res_parse_line")
    m = X.one(r"if \(\(status < (\d+)\) \|\| \(status > (\d+)\)\)", rl, "http_res_parse_line status range")
    put("httpStatusRange", [int(m.group(1)), int(m.group(2))], "http_msg.c http_res_parse_line accepted status range")
