"""constants for the BUS model (C09)"""
import os, re
from . import extract as X

# Canonical pipe ids used by the model / judge: pipe number k has id CANON_PID_BASE + k.
# Real ids (nni_pipe_id) lie in [1, 0x7fffffff]; the canonical range is disjoint from it.
CANON_PID_BASE = 0xC0900000


def hook(put):
    bus = X.src("src/sp/protocol/bus0/bus.c")
    m = X.one(r"#define\s+NNI_PROTO_BUS_V0\s+NNI_PROTO\((\d+), (\d+)\)", bus, "BUS proto id")
    put("protoBus", int(m.group(1)) * 16 + int(m.group(2)), "bus0/bus.c NNI_PROTO_BUS_V0")
    X.one(r"\.proto_peer\s*=\s*\{ NNI_PROTO_BUS_V0,", bus, "BUS peer is BUS")
    rng = None
    for fn in ("bus0_sock_set_recv_buf_len", "bus0_sock_set_send_buf_len"):
        body = X.func_body(bus, fn)
        m = X.one(r"nni_copyin_int\(&val, buf, sz, (\d+), (\d+), t\)", body, f"{fn} range")
        r = (int(m.group(1)), int(m.group(2)))
        if rng is not None and r != rng:
            raise X.ExtractError("bus send-buffer and recv-buffer ranges differ")
        rng = r
    put("busBufMin", rng[0], "bus0/bus.c bus0_sock_set_{send,recv}_buf_len nni_copyin_int range")
    put("busBufMax", rng[1], "bus0/bus.c bus0_sock_set_{send,recv}_buf_len nni_copyin_int range")
    init = X.func_body(bus, "bus0_sock_init")
    m = X.one(r"nni_lmq_init\(&s->recv_msgs, (\d+)\)", init, "bus initial recv buffer")
    put("busRecvBufInit", int(m.group(1)), "bus0/bus.c bus0_sock_init")
    m = X.one(r"s->send_buf\s*=\s*(\d+);", init, "bus initial send buffer")
    put("busSendBufInit", int(m.group(1)), "bus0/bus.c bus0_sock_init")
    pinit = X.func_body(bus, "bus0_pipe_init")
    X.one(r"nni_lmq_init\(&p->send_queue, p->bus->send_buf\)", pinit, "pipe queue depth = send_buf")
    # the id range of real pipes must stay disjoint from the canonical ids
    pipe = X.src("src/core/pipe.c")
    m = X.one(r"pipes\s*=\s*NNI_ID_MAP_INITIALIZER\((\d+), (0x[0-9a-fA-F]+|\d+), true\)", pipe, "pipe id range")
    if int(m.group(1), 0) < 1 or int(m.group(2), 0) >= CANON_PID_BASE:
        raise X.ExtractError("pipe id range overlaps the canonical ids / includes 0")
    put("busCanonPidBase", CANON_PID_BASE, "vlib/extract_c09.py (canonical pipe ids; real ids are <= core/pipe.c id map max)")
    with open(os.path.join(X.HERE, "harness", "mocktran.c")) as f:
        mt = f.read()
    m = X.one(r"#define\s+MAXP\s+(\d+)", mt, "mock transport pipe slots")
    put("simMaxPipes", int(m.group(1)), "harness/mocktran.c MAXP")
