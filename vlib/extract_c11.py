"""constants for the C11 hostile-peer models (Model/Hostile.lean).
Stream transports reuse the c01* constants (handshake bytes, header widths, NNI_MAX_STREAM_MSGSZ, ipc type byte);
this file adds the error codes of the decision points, the place of the peer-protocol test (protocol pipe_start,
not the transport), the default RECVMAXSZ, the SP protocol numbers, and the SP/UDP header layout and limits."""
import re
from . import extract as X


def _proto(text, name, what):
    m = X.one(r"#define\s+" + name + r"\s+NNI_PROTO\((\d+), (\d+)\)", text, what)
    return int(m.group(1)) * 16 + int(m.group(2))


def hook(put):
    defs = X.src("src/core/defs.h")
    m = X.one(r"#define\s+NNG_RECVMAXSZ_DEFAULT\s+\(1U << (\d+)\)", defs, "NNG_RECVMAXSZ_DEFAULT")
    put("c11RecvMaxDefault", 1 << int(m.group(1)), "core/defs.h NNG_RECVMAXSZ_DEFAULT")
    X.one(r"s->s_rcvmaxsz\s*=\s*NNI_RECVMAXSZ_DEFAULT;", X.src("src/core/socket.c"), "socket default rcvmaxsz")

    # negotiation failure code and "the transport does not look at the peer protocol number"
    for rel, fn, buf in [("src/sp/transport/tcp/tcp.c", "tcptran_pipe_nego_cb", "rxlen"),
                         ("src/sp/transport/ipc/ipc.c", "ipc_pipe_nego_cb", "rx_head"),
                         ("src/sp/transport/socket/sockfd.c", "sfd_tran_pipe_nego_cb", "rxlen")]:
        body = X.func_body(X.src(rel), fn)
        X.one(r"\(p->" + buf + r"\[7\] != 0\)\) \{\s*rv = NNG_EPROTO;\s*goto error;", body, f"{fn}: bad header => NNG_EPROTO")
        if re.search(r"p->peer\s*[!=]=", body) or re.search(r"[!=]=\s*p->peer", body):
            raise X.ExtractError(f"{fn}: the transport compares the peer protocol (model says the protocol does)")
    # the peer-protocol test lives in every protocol's pipe_start and answers NNG_EPROTO
    checks = [("src/sp/protocol/pair0/pair.c", "pair0_pipe_start"), ("src/sp/protocol/pair1/pair.c", "pair1_pipe_start"),
              ("src/sp/protocol/reqrep0/rep.c", "rep0_pipe_start"), ("src/sp/protocol/reqrep0/req.c", "req0_pipe_start"),
              ("src/sp/protocol/reqrep0/xrep.c", "xrep0_pipe_start"), ("src/sp/protocol/reqrep0/xreq.c", "xreq0_pipe_start"),
              ("src/sp/protocol/pubsub0/sub.c", "sub0_pipe_start"), ("src/sp/protocol/pipeline0/pull.c", "pull0_pipe_start"),
              ("src/sp/protocol/bus0/bus.c", "bus0_pipe_start"), ("src/sp/protocol/survey0/survey.c", "surv0_pipe_start"),
              ("src/sp/protocol/survey0/respond.c", "resp0_pipe_start")]
    for rel, fn in checks:
        body = X.func_body(X.src(rel), fn)
        X.one(r"if \(nni_pipe_peer\(p->n?p(?:ipe)?\) != \w+\) \{.*?return \(NNG_EPROTO\);", body, f"{fn}: peer protocol test => NNG_EPROTO")

    # protocol numbers: self / peer of every protocol the REAL executor opens
    def hexdef(rel, name):
        return int(X.one(r"#define\s+" + name + r"\s+(0x[0-9a-fA-F]+)", X.src(rel), name).group(1), 16)
    put("c11ProtoPair0", _proto(X.src("src/sp/protocol/pair0/pair.c"), "NNI_PROTO_PAIR_V0", "NNI_PROTO_PAIR_V0"), "pair0/pair.c NNI_PROTO_PAIR_V0")
    put("c11ProtoPair1", hexdef("src/sp/protocol/pair1/pair.c", "PAIR1_SELF"), "pair1/pair.c PAIR1_SELF")
    if hexdef("src/sp/protocol/pair1/pair.c", "PAIR1_PEER") != hexdef("src/sp/protocol/pair1/pair.c", "PAIR1_SELF"):
        raise X.ExtractError("PAIR1 self/peer differ")
    put("c11ProtoReq", hexdef("src/sp/protocol/reqrep0/req.c", "REQ0_SELF"), "reqrep0/req.c REQ0_SELF")
    put("c11ProtoRep", hexdef("src/sp/protocol/reqrep0/rep.c", "REP0_SELF"), "reqrep0/rep.c REP0_SELF")
    if hexdef("src/sp/protocol/reqrep0/req.c", "REQ0_PEER") != hexdef("src/sp/protocol/reqrep0/rep.c", "REP0_SELF") or \
       hexdef("src/sp/protocol/reqrep0/rep.c", "REP0_PEER") != hexdef("src/sp/protocol/reqrep0/req.c", "REQ0_SELF"):
        raise X.ExtractError("REQ/REP self/peer numbers inconsistent")
    tab = {
        "Pub": ("src/sp/protocol/pubsub0/pub.c", "NNI_PROTO_PUB_V0"), "Sub": ("src/sp/protocol/pubsub0/sub.c", "NNI_PROTO_SUB_V0"),
        "Push": ("src/sp/protocol/pipeline0/push.c", "NNI_PROTO_PUSH_V0"), "Pull": ("src/sp/protocol/pipeline0/pull.c", "NNI_PROTO_PULL_V0"),
        "Bus": ("src/sp/protocol/bus0/bus.c", "NNI_PROTO_BUS_V0"),
        "Surveyor": ("src/sp/protocol/survey0/respond.c", "NNI_PROTO_SURVEYOR_V0"),
        "Respondent": ("src/sp/protocol/survey0/respond.c", "NNI_PROTO_RESPONDENT_V0"),
    }
    for k, (rel, name) in tab.items():
        put("c11Proto" + k, _proto(X.src(rel), name, name), f"{rel} {name}")
    # pair: a second connection is refused while one is up (pair0_pipe_start / pair1_pipe_start)
    for rel, fn in [("src/sp/protocol/pair0/pair.c", "pair0_pipe_start"), ("src/sp/protocol/pair1/pair.c", "pair1_pipe_start")]:
        X.one(r"if \(s->p != NULL\) \{.*?return \(NNG_EBUSY\);", X.func_body(X.src(rel), fn), f"{fn}: busy => NNG_EBUSY")

    # ---- SP over UDP
    udps = X.src("src/sp/transport/udp/udp.c")
    udp = X.strip_comments(udps)
    X.one(r"typedef struct udp_sp_msg \{\s*uint8_t\s+us_ver;\s*uint8_t\s+us_op_code;\s*uint16_t\s+us_type;\s*uint16_t\s+us_params\[2\];\s*\} udp_sp_msg;",
          udp, "udp_sp_msg layout (ver8 op8 type16 params16x2)")
    put("c11UdpHdrLen", 8, "sp/transport/udp/udp.c sizeof(udp_sp_msg): 1+1+2+2*2")
    m = X.one(r"enum udp_opcode \{\s*OPCODE_DATA = (\d+),\s*OPCODE_CREQ = (\d+),\s*OPCODE_CACK = (\d+),\s*OPCODE_DISC = (\d+),\s*OPCODE_MESH = (\d+),\s*\};", udp, "udp opcodes")
    put("c11UdpOpcodes", [int(g) for g in m.groups()], "udp.c enum udp_opcode DATA CREQ CACK DISC MESH")
    put("c11UdpRecvMax", X.define(udp, "NNG_UDP_RECVMAX"), "udp.c NNG_UDP_RECVMAX")
    put("c11UdpCopyMax", X.define(udp, "NNG_UDP_COPYMAX"), "udp.c NNG_UDP_COPYMAX")
    m = X.one(r"DISC_MSGSIZE\s*=\s*(\d+),", udp, "DISC_MSGSIZE")
    put("c11UdpDiscMsgsize", int(m.group(1)), "udp.c DISC_MSGSIZE")
    m = X.one(r"DISC_PROTO\s*=\s*(\d+),", udp, "DISC_PROTO")
    put("c11UdpDiscProto", int(m.group(1)), "udp.c DISC_PROTO")
    rx = X.func_body(udps, "udp_rx_cb")
    m = X.one(r"if \(\(n >= sizeof\(\*hdr\)\) && \(hdr->us_ver == (\d+)\)\) \{\s*n -= sizeof\(\*hdr\);", rx, "udp_rx_cb size/version gate")
    put("c11UdpVersion", int(m.group(1)), "udp.c udp_rx_cb us_ver test")
    X.one(r"case OPCODE_DATA:\s*udp_recv_data\(ep, hdr, n, sa\);.*?case OPCODE_MESH:\s*default:\s*udp_send_disc_full\(ep, sa, DISC_PROTO\);", rx, "udp_rx_cb dispatch")
    rd = X.func_body(udps, "udp_recv_data")
    X.one(r"if \(\(p = udp_find_pipe\(ep, sa\)\) == NULL\) \{.*?return;", rd, "udp_recv_data: unknown sender ignored")
    X.one(r"if \(\(dreq->us_length > len\) \|\| \(dreq->us_length > p->rcvmax\)\) \{.*?udp_send_disc\(ep, p, DISC_MSGSIZE\);\s*return;", rd, "udp_recv_data length rule")
    X.one(r"len = dreq->us_length;", rd, "udp_recv_data trims to the declared length")
    so = X.func_body(udps, "udp_ep_set_recvmaxsz")
    m = X.one(r"if \(\(val == 0\) \|\| \(val > (\d+)\)\) \{\s*val = (\d+);", so, "udp recvmaxsz clamp")
    if int(m.group(1)) != int(m.group(2)) or int(m.group(1)) != X.define(udp, "NNG_UDP_RECVMAX"):
        raise X.ExtractError("udp recvmaxsz clamp differs from NNG_UDP_RECVMAX")
