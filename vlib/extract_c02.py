"""constants and structural anchors for the aio model (C02)"""
import re
from . import extract as X


def hook(put):
    nngh = X.src("include/nng/nng.h")
    for name in ("ETIMEDOUT", "ECANCELED", "ESTOPPED"):
        m = X.one(r"\bNNG_" + name + r"\s*=\s*(\d+)", nngh, "NNG_" + name)
        put("aio" + name.capitalize(), int(m.group(1)), "include/nng/nng.h NNG_" + name)
    aio = X.src("src/core/aio.c")
    loop = X.func_body(aio, "nni_aio_expire_loop")
    # strictness of the expiry test and the hold/release structure the model mirrors
    X.one(r"\(q->eq_stop \|\| aio->a_expire < now\)", loop, "expire loop: a_expire < now (strict)")
    X.one(r"aio->a_expiring = true;", loop, "expire loop: a_expiring hold")
    X.one(r"nni_mtx_unlock\(mtx\);\s*cancel_fn\(aio, cancel_arg, rv\);\s*nni_mtx_lock\(mtx\);", loop, "expire loop: cancel fn called outside eq_mtx")
    X.one(r"if \(aio->a_sleep\) \{\s*aio->a_result = rv;\s*aio->a_sleep\s*=\s*false;\s*nni_task_dispatch", loop, "expire loop: sleep completes under the lock")
    start = X.func_body(aio, "nni_aio_start")
    X.one(r"aio->a_use_expire && aio->a_expire <= nni_clock\(\)", start, "nni_aio_start: absolute expiry test")
    X.one(r"if \(aio->a_stop \|\| eq->eq_stop\)", start, "nni_aio_start: stopped outcome first")
    X.one(r"if \(aio->a_abort\)", start, "nni_aio_start: aborted outcome")
    X.one(r"aio->a_expire_ok \? NNG_OK : NNG_ETIMEDOUT", start, "nni_aio_start: immediate timeout outcome")
    stop = X.func_body(aio, "nni_aio_stop")
    X.one(r"aio->a_stop = true;\s*while \(aio->a_expiring\) \{\s*nni_cv_wait", stop, "nni_aio_stop: mark then wait for a_expiring")
    fini = X.func_body(aio, "nni_aio_fini")
    X.one(r"aio->a_stop = true;\s*while \(aio->a_expiring\) \{\s*nni_cv_wait", fini, "nni_aio_fini: mark then wait for a_expiring")
    fin = X.func_body(aio, "nni_aio_finish_impl")
    fix_expire = bool(re.search(r"if \(aio->a_expiring\) \{[^}]*a_expire_dispatch\s*=\s*true;[^}]*return;", fin)) and \
        bool(re.search(r"aio->a_expiring = false;\s*if \(aio->a_expire_dispatch\) \{\s*aio->a_expire_dispatch = false;\s*nni_task_dispatch", loop))
    put("aioFixExpire", fix_expire, "core/aio.c: nni_aio_finish_impl defers the dispatch to the expire thread while a_expiring (F14 repair present)")
    ab = X.func_body(aio, "nni_aio_abort")
    clobbers = bool(re.search(r"aio->a_abort\s*=\s*true;\s*aio->a_result\s*=\s*rv;", ab))
    separate = bool(re.search(r"aio->a_abort\s*=\s*true;\s*aio->a_abort_result\s*=\s*rv;", ab)) and \
        bool(re.search(r"aio->a_result\s*=\s*aio->a_abort_result;", start))
    if clobbers == separate:
        raise X.ExtractError("nni_aio_abort: neither the pinned nor the repaired shape of the unscheduled branch")
    put("aioFixAbort", separate, "core/aio.c: nni_aio_abort records a_abort_result for an unscheduled aio (F15 repair present)")
    tq = X.src("src/core/taskq.c")
    disp = X.func_body(tq, "nni_task_dispatch")
    X.one(r"if \(task->task_prep\) \{\s*task->task_prep = false;\s*\} else \{\s*task->task_busy\+\+;", disp, "nni_task_dispatch: prep or busy++")
    X.one(r"task->task_busy\+\+;\s*task->task_prep = true;", X.func_body(tq, "nni_task_prep"), "nni_task_prep")
    dl = X.func_body(X.src("src/core/dialer.c"), "nni_dialer_start_aio")
    put("aioDialerHonoursStart", bool(re.search(r"!nni_aio_start\(aiop, NULL, NULL\)", dl)),
        "core/dialer.c nni_dialer_start_aio tests nni_aio_start's result (F6 repair present)")
