"""constants for the lifecycle model and judges (C14, C10): default reconnect times, the accept
cool-down, which accept / connect results re-arm, the pipe event enum, protocol numbers"""
import re
from . import extract as X


def _case_groups(body):
    """switch body -> list of (set of case labels incl. 'default', text up to and incl. break)"""
    groups, labels, cur = [], [], ""
    pos = 0
    for m in re.finditer(r"(case\s+(\w+)\s*:|default\s*:)|\bbreak\s*;", body):
        if m.group(1):
            labels.append(m.group(2) or "default")
            pos = m.end()
        else:
            groups.append((set(labels), body[pos:m.start()]))
            labels = []
    return groups


def hook(put):
    defs = X.src("src/core/defs.h")
    m = X.one(r"#define\s+NNI_SECOND\s+\((\d+)\)", defs, "NNI_SECOND")
    second = int(m.group(1))
    sock = X.src("src/core/socket.c")
    create = X.func_body(sock, "nni_sock_create")
    X.one(r"s->s_reconn\s*=\s*NNI_SECOND;", create, "socket default reconnect-time-min")
    m = X.one(r"s->s_reconnmax\s*=\s*(\d+);", create, "socket default reconnect-time-max")
    put("lifeReconnMinDefault", second, "core/socket.c nni_sock_create s_reconn = NNI_SECOND")
    put("lifeReconnMaxDefault", int(m.group(1)), "core/socket.c nni_sock_create s_reconnmax")
    # the endpoint options a new dialer copies from its socket
    X.one(r"ep_options\[\]\s*=\s*\{\s*\{\s*\.eo_name\s*=\s*NNG_OPT_RECONNMINT,.*?\{\s*\.eo_name\s*=\s*NNG_OPT_RECONNMAXT,",
          X.strip_comments(sock), "ep_options copies the reconnect times")
    # back-off arithmetic of dialer_timer_start_locked: the model mirrors this shape
    ts = X.func_body(sock, "dialer_timer_start_locked")
    X.one(r"back_off\s*=\s*d->d_currtime;\s*if \(d->d_maxrtime > 0\) \{", ts, "back-off: doubling only when max > 0")
    X.one(r"nni_sleep_aio\(back_off \? \(nng_duration\) \(nni_random\(\) % back_off\) : 0,\s*&d->d_tmo_aio\);", ts,
          "back-off: delay = random % back_off")
    sp = X.func_body(sock, "dialer_start_pipe")
    X.one(r"d->d_pipe\s*=\s*p;\s*d->d_currtime\s*=\s*d->d_inirtime;", sp, "back-off reset on connect")
    rm = X.func_body(sock, "nni_pipe_remove")
    X.one(r"if \(\(d != NULL\) && \(d->d_pipe == p\)\) \{\s*d->d_pipe = NULL;\s*dialer_timer_start_locked\(d\);", rm,
          "redial when the dialer's pipe is removed")
    # listener accept outcomes
    lst = X.src("src/core/listener.c")
    acc = X.func_body(lst, "listener_accept_cb")
    m = X.one(r"nni_sleep_aio\((\d+), &l->l_tmo_aio\);", acc, "accept cool-down")
    put("lifeAcceptCooldownMs", int(m.group(1)), "core/listener.c listener_accept_cb cool-down sleep")
    nngh = X.src("include/nng/nng.h")

    def err(name):
        return int(X.one(r"\bNNG_" + name + r"\s*=\s*(\d+)", nngh, "NNG_" + name).group(1))

    rearm, stop, cool = [], [], None
    for labels, text in _case_groups(acc):
        codes = sorted(err(l[4:]) for l in labels if l.startswith("NNG_"))
        if "default" in labels:
            if "nni_sleep_aio" not in text:
                raise X.ExtractError("listener_accept_cb default branch does not cool down")
            continue
        if "0" in labels or not codes and labels:
            if "listener_accept_start(l)" not in text or "nni_pipe_start" not in text:
                raise X.ExtractError("listener_accept_cb success branch shape")
            continue
        if "listener_accept_start(l)" in text:
            rearm += codes
        else:
            stop += codes
    put("lifeAcceptRearmErrs", sorted(rearm), "core/listener.c listener_accept_cb: errors after which accept is re-armed at once")
    put("lifeAcceptStopErrs", sorted(stop), "core/listener.c listener_accept_cb: errors after which the listener stops accepting")
    dial = X.src("src/core/dialer.c")
    con = X.func_body(dial, "dialer_connect_cb")
    dstop = []
    for labels, text in _case_groups(con):
        if "default" in labels:
            X.one(r"if \(user_aio == NULL\) \{\s*nni_dialer_timer_start\(d\);\s*\} else \{\s*nni_atomic_flag_reset\(&d->d_started\);", text,
                  "dialer_connect_cb failure branch")
            continue
        if "0" in labels:
            continue
        dstop += sorted(err(l[4:]) for l in labels if l.startswith("NNG_"))
    put("lifeDialStopErrs", sorted(dstop), "core/dialer.c dialer_connect_cb: results after which the dialer does not redial")
    ev = X.one(r"NNG_PIPE_EV_NONE,[^\n]*\n\s*NNG_PIPE_EV_ADD_PRE,[^\n]*\n\s*NNG_PIPE_EV_ADD_POST,[^\n]*\n\s*NNG_PIPE_EV_REM_POST,[^\n]*\n\s*NNG_PIPE_EV_NUM,",
               nngh, "nng_pipe_ev order NONE < ADD_PRE < ADD_POST < REM_POST")
    put("lifePipeEvOrder", [0, 1, 2, 3], "include/nng/nng.h enum nng_pipe_ev: NONE, ADD_PRE, ADD_POST, REM_POST")
    cb = X.func_body(sock, "nni_pipe_run_cb")
    X.one(r"if \(p->p_last_event == NNG_PIPE_EV_NONE &&\s*ev != NNG_PIPE_EV_ADD_PRE\) \{", cb, "run_cb: nothing without ADD_PRE")
    X.one(r"if \(p->p_last_event >= ev\) \{", cb, "run_cb: never backwards")
    put("lifeEclosed", err("ECLOSED"), "include/nng/nng.h NNG_ECLOSED")
    put("lifeEnoent", err("ENOENT"), "include/nng/nng.h NNG_ENOENT")
    put("lifeEnotsup", err("ENOTSUP"), "include/nng/nng.h NNG_ENOTSUP")
    put("lifeEstate", err("ESTATE"), "include/nng/nng.h NNG_ESTATE")
    put("lifeEinval", err("EINVAL"), "include/nng/nng.h NNG_EINVAL")
    pair = X.src("src/sp/protocol/pair0/pair.c")
    m = X.one(r"#define\s+NNI_PROTO_PAIR_V0\s+NNI_PROTO\((\d+), (\d+)\)", pair, "PAIR0 proto id")
    put("lifeProtoPair0", int(m.group(1)) * 16 + int(m.group(2)), "pair0/pair.c NNI_PROTO_PAIR_V0")
    rep = X.src("src/sp/protocol/reqrep0/rep.c")
    m = X.one(r"#define\s+REP0_PEER\s+(0x[0-9a-fA-F]+|\d+)", rep, "REP0 peer id")
    put("lifeProtoReq0", int(m.group(1), 0), "reqrep0/rep.c REP0_PEER")
    pull = X.src("src/sp/protocol/pipeline0/pull.c")
    m = X.one(r"#define\s+NNI_PROTO_PUSH_V0\s+NNI_PROTO\((\d+), (\d+)\)", pull, "PUSH0 proto id")
    put("lifeProtoPush0", int(m.group(1)) * 16 + int(m.group(2)), "pipeline0/pull.c NNI_PROTO_PUSH_V0")
