"""constants for the PUSH/PULL models"""
import re
from . import extract as X


def hook(put):
    push = X.src("src/sp/protocol/pipeline0/push.c")
    body = X.func_body(push, "push0_set_send_buf_len")
    m = X.one(r"nni_copyin_int\(&val, buf, sz, (\d+), (\d+), t\)", body, "push send-buffer range")
    if int(m.group(1)) != 0:
        raise X.ExtractError("push send-buffer lower bound is not 0")
    put("pushSendBufMax", int(m.group(2)), "pipeline0/push.c push0_set_send_buf_len nni_copyin_int range")
    init = X.func_body(push, "push0_sock_init")
    m = X.one(r"nni_lmq_init\(&s->wq, (\d+)\)", init, "push initial send buffer")
    put("pushSendBufInit", int(m.group(1)), "pipeline0/push.c push0_sock_init")
    m = X.one(r"#define\s+NNI_PROTO_PULL_V0\s+NNI_PROTO\((\d+), (\d+)\)", push, "PULL proto id")
    put("protoPull", int(m.group(1)) * 16 + int(m.group(2)), "pipeline0/push.c NNI_PROTO_PULL_V0")
    m = X.one(r"#define\s+NNI_PROTO_PUSH_V0\s+NNI_PROTO\((\d+), (\d+)\)", push, "PUSH proto id")
    put("protoPush", int(m.group(1)) * 16 + int(m.group(2)), "pipeline0/push.c NNI_PROTO_PUSH_V0")
    one = X.one(r"#define\s+NNI_PROTO\(major, minor\)\s+\(\(\(major\) \* 16\) \+ \(minor\)\)", X.src("src/core/defs.h") + X.src("src/core/protocol.h"), "NNI_PROTO macro")
