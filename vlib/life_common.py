"""Shared machinery of the C14 / C10 checks: scenario generator for harness/s_life.c, runner
(implementation under several schedules; Lean judges on every implementation trace; Lean model
fed with the observed redial instants and compared line by line), verdicts and evidence."""
import os, time, json
from . import core, build, lean, sim

HARNESS = "s_life"
MODULES_C14 = ["NngModel.Props.C14"]
MODULES_C10 = ["NngModel.Props.C10"]
PEER = {"pair0": "0010", "pull": "0050", "push": "0051", "rep": "0030", "req": "0031"}
MODEL_PROTOS = ["pair0", "pull", "rep"]
ALL_PROTOS = ["pair0", "pull", "rep", "push", "req"]
RECONN = [0, 0, 1, 2, 10, 50, 100, 100, 250, 1000, 1000, 3000]
ADV = [1, 2, 5, 10, 49, 50, 99, 100, 101, 250, 500, 999, 1000, 1001, 2500, 6000]
ACCEPT_ERRS = [6, 5, 19, 18, 13, 31, 2, 27, 21]
DIAL_ERRS = [6, 5, 19, 18, 13, 14, 2, 31]


def build_exe():
    return build.harness(HARNESS, sim.SIM_SOURCES + ["s_life.c"], extra=["-Wl,--wrap=nni_clock"])


class Gen:
    """one scenario; keeps a shadow of what exists so that most ops are meaningful, and
    deliberately also emits ops on closed / missing objects"""

    def __init__(self, r, modelled, racing, big):
        self.r, self.modelled, self.racing, self.big = r, modelled, racing, big
        self.ops = []
        self.socks = {}      # s -> proto (open)
        self.closed = set()
        self.eps = []        # dict(kind, s, closed)
        self.npipes = 0
        self.nctx = 0
        self.busy = set()
        self.ctx_recv = set()

    def rec(self):
        vals = RECONN + ([1500000000, 2000000000, 1073741824] if self.big else [])
        return self.r.choice(vals)

    def open(self, s):
        p = self.r.choice(MODEL_PROTOS if self.modelled else ALL_PROTOS)
        self.socks[s] = p
        self.ops.append(f"open {s} {p}")
        # every subset of the three notifications: all three (with / without close-in-ADD_PRE) half of the
        # time, a proper non-empty subset (1..6: a socket whose only callback is REM_POST, ADD_POST, ...)
        # 36 %, none at all 8 %
        k = self.r.below(100)
        if k < 42:
            self.ops.append(f"notify {s} 7")
        elif k < 56:
            self.ops.append(f"notify {s} 7 close_in_pre")
        elif k < 92:
            self.ops.append(f"notify {s} {self.r.choice([1, 2, 3, 4, 5, 6])}" + (" close_in_pre" if self.r.chance(1, 4) else ""))
        if self.r.chance(1, 2):
            self.ops.append(f"setopt_sock {s} reconnect-time-min {self.rec()}")
        if self.r.chance(1, 2):
            self.ops.append(f"setopt_sock {s} reconnect-time-max {self.rec()}")

    def anysock(self):
        ss = list(self.socks)
        if self.closed and self.r.chance(1, 6):
            ss += list(self.closed)
        return self.r.choice(ss) if ss else 0

    def aio(self):
        free = [a for a in range(16) if a not in self.busy]
        return self.r.choice(free) if free else None

    def simple(self, kinds=None):
        """one non-racing op line (or None)"""
        r = self.r
        k = r.below(100) if kinds is None else r.choice(kinds)
        live_eps = [i for i, e in enumerate(self.eps) if not e["closed"]]
        if k < 8 and len(self.eps) < 10:
            s = self.anysock()
            self.eps.append({"kind": "d", "s": s, "closed": s in self.closed})
            return f"dial {s} {0 if r.chance(1, 5) else 1}"
        if k < 14 and len(self.eps) < 10:
            s = self.anysock()
            self.eps.append({"kind": "l", "s": s, "closed": s in self.closed})
            return f"listen {s}"
        if k < 40 and self.eps and self.npipes < 40:
            e = r.choice(live_eps) if live_eps and r.chance(9, 10) else r.below(len(self.eps))
            ep = self.eps[e]
            j = r.below(100)
            proto = self.socks.get(ep["s"]) or "pair0"
            if j < 78:
                self.npipes += 1
                return f"conn_done {e} {PEER[proto]}"
            if j < 86:
                self.npipes += 1
                return f"conn_done {e} {r.choice(['0010', '0050', '0051', '0030', '0031', '0070'])}"
            return f"conn_done {e} !{r.choice(DIAL_ERRS if ep['kind'] == 'd' else ACCEPT_ERRS)}"
        if k < 46 and self.npipes:
            return f"pipe_close {r.below(self.npipes)}"
        if k < 52 and self.npipes:
            return f"pipe_drop {r.below(self.npipes)}"
        if k < 56 and self.eps:
            e = r.choice(live_eps) if live_eps and r.chance(4, 5) else r.below(len(self.eps))
            self.eps[e]["closed"] = True
            return ("dialer_close" if self.eps[e]["kind"] == "d" else "listener_close") + f" {e}"
        if k < 60 and self.nctx < 8:
            s = self.anysock()
            self.nctx += 1
            return f"ctx_open {s} {self.nctx - 1}"
        if k < 63 and self.nctx:
            return f"ctx_close {r.below(self.nctx)}"
        if k < 72:
            a = self.aio()
            if a is None:
                return None
            tgt = f"c{r.below(self.nctx)}" if self.nctx and r.chance(1, 2) else str(self.anysock())
            snd = r.chance(1, 3) if not self.modelled else r.chance(1, 6)
            if not snd and tgt in self.ctx_recv and r.chance(3, 4):
                return None
            if not snd:
                self.ctx_recv.add(tgt)
            self.busy.add(a)
            return f"{'send' if snd else 'recv'} {tgt} {a}"
        if k < 78 and self.eps:
            e = r.below(len(self.eps))
            return f"setopt_ep {e} reconnect-time-{r.choice(['min', 'max'])} {self.rec() if r.chance(19, 20) else -2}"
        if k < 90:
            return f"advance {r.choice(ADV)}"
        if k < 95:
            # the registration changes while pipes live: any subset of the three notifications
            s = self.anysock()
            return f"notify {s} {r.choice([0, 1, 2, 3, 4, 5, 6, 7, 7, 7])}" + (" close_in_pre" if r.chance(1, 3) else "")
        if k < 97:
            return "probe"
        return None

    def close_op(self, s):
        self.socks.pop(s, None)
        self.closed.add(s)
        for e in self.eps:
            if e["s"] == s:
                e["closed"] = True
        self.busy.clear()
        self.ctx_recv.clear()

    def gen(self, n):
        r = self.r
        self.open(0)
        if r.chance(1, 4):
            self.open(1)
        while len(self.ops) < n:
            if self.racing and r.chance(1, 6) and (self.socks or self.eps):
                a = self.closer()
                b = self.simple([3, 10, 20, 25, 30, 35, 42, 48, 54, 58, 61, 65, 70, 75, 94]) if r.chance(4, 5) else self.closer()
                if b and b.startswith("dial") and b.endswith(" 0"):
                    b = b[:-1] + "1"   # a blocking dial would block the main harness thread
                if a and b:
                    self.ops.append(f"race {r.below(40)} {r.choice([0, 5, 20, 60, 200])} {a} | {b}")
                    self.busy.clear()
                continue
            if r.chance(1, 40) and self.socks:
                s = r.choice(list(self.socks))
                self.ops.append(f"close{'2' if r.chance(1, 4) and not self.modelled else ''} {s}")
                self.close_op(s)
                if r.chance(1, 2):
                    self.ops.append("probe")
                if not self.socks and r.chance(1, 2):
                    break
                continue
            o = self.simple()
            if o:
                self.ops.append(o)
        if r.chance(9, 10):
            for s in sorted(self.socks, reverse=r.chance(1, 2)):
                self.ops.append(f"close{'2' if r.chance(1, 5) and not self.modelled else ''} {s}")
                self.close_op(s)
            self.ops.append("probe")
        return self.ops

    def closer(self):
        r = self.r
        k = r.below(100)
        if k < 55 and self.socks:
            s = r.choice(list(self.socks))
            self.close_op(s)
            return f"close {s}"
        if k < 75 and self.eps:
            e = r.below(len(self.eps))
            self.eps[e]["closed"] = True
            return ("dialer_close" if self.eps[e]["kind"] == "d" else "listener_close") + f" {e}"
        if k < 88 and self.npipes:
            return f"pipe_close {r.below(self.npipes)}"
        if self.nctx:
            return f"ctx_close {r.below(self.nctx)}"
        if self.socks:
            s = r.choice(list(self.socks))
            self.close_op(s)
            return f"close {s}"
        return None


def gen_case(seed, prop, tier, i):
    r = core.Rng(seed, "LIFE", tier, i)   # C14 and C10 share the scenario family
    racing = i % 3 == 2
    modelled = (not racing) and i % 4 != 3
    big = i % 50 == 7
    return modelled, Gen(r, modelled, racing, big).gen(r.range(10, 60))


def corpus_cases(prop):
    """(modelled, ops, own schedule seed or None) for every corpus file of both properties"""
    out = []
    for pp in ("C14", "C10"):
        d = os.path.join(core.HERE, "corpus", pp)
        if os.path.isdir(d):
            for f in sorted(os.listdir(d)):
                ops = [l.strip() for l in open(os.path.join(d, f)) if l.strip() and not l.startswith("#")]
                sk = [int(o.split()[1]) for o in ops if o.startswith("sched")]
                out.append((False, [o for o in ops if not o.startswith("sched")], sk[0] if sk else None))
    return out


class Result:
    def __init__(self):
        self.cases = self.runs = self.ops = 0
        self.judge = {"C14": [], "C10": []}
        self.mismatch = []
        self.crashes = []
        self.op_hist, self.ev_hist = {}, {}
        self.modelled_runs = 0
        self.model_lines = 0


def _run_part(exe, part, env, timeout):
    """runs the jobs of one part, restarting after a crash / hang so that one bad case does not
    hide the others; returns list of (job, lines or None, crashinfo or None)"""
    out = []
    rest = list(part)
    while rest:
        text = core.cases_to_text([j[2] for j in rest])
        impl = core.run_stream([exe], text, env=env, timeout=timeout)
        icases, partial = core.split_cases(impl.lines)
        for j, il in zip(rest, icases):
            out.append((j, il, None))
        if len(icases) >= len(rest) and impl.rc == 0:
            break
        k = len(icases)
        if k < len(rest):
            kind = "deadlock" if impl.rc == 3 else "time-limit" if impl.rc == -999 else "crash"
            out.append((rest[k], None, {"rc": impl.rc, "kind": kind, "done_ops": len(partial), "last": partial[-3:],
                                        "stderr": impl.err[:6000]}))
            rest = rest[k + 1:]
        else:
            out.append((rest[-1], None, {"rc": impl.rc, "kind": "crash at exit", "done_ops": 0, "last": [], "stderr": impl.err[:6000]}))
            break
    return out


def judge_lines(ops, il):
    return [f"{op} => {o}" for op, o in zip(ops, il)] + ["reset"]


def run_all(cases, exe, scheds, use_model, timeout=300):
    """cases: list of (modelled, ops)"""
    res = Result()
    res.cases = len(cases)
    jobs = []
    for ci, c in enumerate(cases):
        ops = c[1]
        own = c[2] if len(c) > 2 else None
        for k in (tuple(scheds) + ((own,) if own is not None and own not in scheds else ())):
            jobs.append((ci, k, [f"sched {k}"] + ops))
        for l in ops:
            w = l.split()[0]
            res.op_hist[w] = res.op_hist.get(w, 0) + 1
    res.runs = len(jobs)
    res.ops = sum(len(j[2]) for j in jobs)
    env = build.env()
    # at most 80 cases per process: simplat's mutex side table (8192 slots, no deletion) fills up
    # after roughly 190 of these object-rich cases and then probes forever
    parts = core.chunked(jobs, max(core.NCPU * 2, (len(jobs) + 79) // 80))

    def work(part):
        runs = _run_part(exe, part, env, timeout)
        good = [(j, il) for j, il, c in runs if il is not None]
        text = "\n".join(l for j, il in good for l in judge_lines(j[2], il)) + "\n"
        out = {"runs": runs}
        for prop, comp in (("C14", "life-c14-judge"), ("C10", "life-c10-judge")):
            out[prop] = core.split_cases(core.run_stream(lean.driver_cmd(comp), text).lines)[0]
        if use_model:
            out["model"] = core.split_cases(core.run_stream(lean.driver_cmd("life-model"), text).lines)[0]
        out["good"] = good
        return out

    for out in core.parallel_map(work, parts):
        for j, il, c in out["runs"]:
            if c is not None:
                res.crashes.append(dict(c, case=j[0], sched=j[1], ops=j[2]))
        for gi, (j, il) in enumerate(out["good"]):
            ci, sk, ops = j
            for l in il:
                for e in l.split(" ; "):
                    w = e.split()[0] if e.split() else "-"
                    res.ev_hist[w] = res.ev_hist.get(w, 0) + 1
            for prop in ("C14", "C10"):
                if gi < len(out[prop]):
                    for t, v in enumerate(out[prop][gi]):
                        if v.startswith("VIOLATION"):
                            res.judge[prop].append({"case": ci, "sched": sk, "ops": ops, "clause": v[10:], "op_index": t,
                                                    "impl": il[t] if t < len(il) else None})
                            break
            if use_model and cases[ci][0] and gi < len(out["model"]):
                res.modelled_runs += 1
                for t, (a, b) in enumerate(zip(il, out["model"][gi])):
                    if "UNMODELLED" in b:
                        break
                    res.model_lines += 1
                    if sim.canon(a) != sim.canon(b):
                        res.mismatch.append({"case": ci, "sched": sk, "ops": ops, "op_index": t, "impl": a, "model": b})
                        break
    return res


def run_one(exe, ops):
    env = build.env()
    impl = core.run_stream([exe], core.cases_to_text([ops]), env=env, timeout=60)
    ic = core.split_cases(impl.lines)
    il = ic[0][0] if ic[0] else ic[1]
    return impl, il


def ask(comp, ops, il):
    r = core.split_cases(core.run_stream(lean.driver_cmd(comp), "\n".join(judge_lines(ops, il)) + "\n").lines)[0]
    return r[0] if r else []


def minimise(exe, ops, fails, budget_s=40):
    if not fails(ops):
        return ops
    return core.ddmin(ops, fails, budget_s, keep_prefix=2)


def fails_crash(exe):
    def f(o):
        impl, il = run_one(exe, o)
        return impl.rc != 0
    return f


def fails_judge(exe, comp, clause_word=None):
    def f(o):
        impl, il = run_one(exe, o)
        if impl.rc != 0:
            return False
        v = [x for x in ask(comp, o, il) if x.startswith("VIOLATION")]
        return bool(v) and (clause_word is None or clause_word in v[0])
    return f


def fails_model(exe):
    def f(o):
        impl, il = run_one(exe, o)
        if impl.rc != 0:
            return False
        for a, b in zip(il, ask("life-model", o, il)):
            if "UNMODELLED" in b:
                return False
            if sim.canon(a) != sim.canon(b):
                return True
        return False
    return f


def check(PROP, tier, seed, replay, parts=None, extra_modules=()):
    """the whole check for one of the two properties"""
    t0 = time.time()
    v = core.Verdict(PROP, seed)
    core.clear_replays(PROP)
    st = lean.prepare(list(MODULES_C14 if PROP == "C14" else MODULES_C10) + list(extra_modules))
    core.log(PROP, f"lean: {len(st.discharged)}/{len(st.theorems)} theorems re-checked; extract {st.extract_count} constants "
                   f"(changed: {st.extract_changed}); {st.build_s:.1f}s")
    try:
        exe = build_exe()
    except build.BuildError as e:
        v.violation("build", {"kind": "build", "error": str(e), "log": e.log[-4000:]}, no_input=True)
        core.write_evidence(PROP, tier, seed, "proof", {"obligations": max(1, len(st.theorems)), "discharged": 0, "checker_cmd": "lake build",
                            "trusted_base": [], "explanation": "implementation or harness does not build"}, [], time.time() - t0, 1)
        return v.finish()
    n = 3000 if tier == "quick" else 20000
    scheds = (1, 2, 3, 4) if tier == "quick" else tuple(range(1, 9))
    if replay:
        rp = json.load(open(replay))
        ops = rp["ops"]
        if ops and ops[0].startswith("sched"):
            scheds = (int(ops[0].split()[1]),)
            ops = ops[1:]
        cases = [(bool(rp.get("modelled", False)), ops)]
    else:
        cases = corpus_cases(PROP) + [gen_case(seed, PROP, tier, i) for i in range(n)]
    res = run_all(cases, exe, scheds, st.driver_ok)
    comp = "life-c14-judge" if PROP == "C14" else "life-c10-judge"
    jv = res.judge[PROP]
    # crashes / deadlocks / hangs are C10 material (close must return, nothing may act on released
    # state); a sanitizer report in the redial arithmetic is C14's.  Both checks report a crash.
    found_input = False
    seen = set()
    for c in res.crashes:
        sig = c["kind"] + ":" + crash_sig(c["stderr"])
        if sig in seen or len(seen) >= 3:
            continue
        seen.add(sig)
        ops = minimise(exe, c["ops"], fails_crash(exe))
        impl, il = run_one(exe, ops)
        v.violation(f"crash-{c['case']}", {"kind": f"{c['kind']} of the implementation under the simulated platform (sanitizer report / DEADLOCK / time-limit)",
                    "signature": sig, "ops": ops, "rc": impl.rc, "last_output": il[-3:], "stderr": (impl.err or c["stderr"])[:6000]})
        found_input = True
    seen = set()
    for x in jv:
        key = " ".join(w for w in x["clause"].split() if not w.isdigit())[:60]
        if key in seen or len(seen) >= 3:
            continue
        seen.add(key)
        ops = minimise(exe, x["ops"], fails_judge(exe, comp, x["clause"].split()[0]))
        impl, il = run_one(exe, ops)
        v.violation(f"judge-{x['case']}", {"kind": f"implementation trace violates the {PROP} trace predicate (Spec/Life.lean)",
                    "clause": x["clause"], "ops": ops, "impl": il, "judge": ask(comp, ops, il)})
        found_input = True
    core.log(PROP, f"cases {res.cases} runs {res.runs} ops {res.ops}; judge violations {len(jv)}, model mismatches {len(res.mismatch)} "
                   f"(over {res.modelled_runs} modelled runs, {res.model_lines} lines), crashes/deadlocks {len(res.crashes)}")
    # further parts of the property with their own executor (C10: the posix poller under thread schedules, vlib/props/c10_pfd.py):
    # run BEFORE the verdict on broken proofs / correspondences, so that those are reported as `no-failing-input-found`
    # only when no part found a failing input either
    part_cov, part_evals, part_noinput = {}, 0, []
    for name, fn in (parts or []):
        pc, pv = fn(tier, seed, st, replay)
        part_cov[name + "_part"] = {k: x for k, x in pc.items() if k != "samples"}
        part_evals += pc.get("cases", 0)
        for tag, payload, no_input in pv:
            if no_input:
                part_noinput.append((tag, payload))
            else:
                v.violation(tag, payload, no_input=False)
                found_input = True
    if not found_input:
        for tag, payload in part_noinput:
            v.violation(tag, payload, no_input=True)
    if not found_input:
        if res.mismatch:
            mm = res.mismatch[0]
            ops = minimise(exe, mm["ops"], fails_model(exe))
            impl, il = run_one(exe, ops)
            v.violation("corr", {"kind": f"correspondence broken: implementation differs from the Lean model the {PROP} theorems are about "
                        "(no trace violating the property predicate was found)", "correspondence": "life-model vs s_life",
                        "ops": ops, "impl": il, "model": ask("life-model", ops, il), "mismatching_runs": len(res.mismatch)}, no_input=True)
        if not st.ok:
            v.violation("proof", {"kind": "proof obligation no longer checks", "broken": st.broken, "log": st.log[-3000:]}, no_input=True)
    allops = [c[1] for c in cases]
    cov = {"obligations": len(st.theorems), "discharged": len(st.discharged),
           "checker_cmd": f"lake build NngModel.Props.{PROP} && lake env lean <#print axioms for each theorem>",
           "trusted_base": ["Lean 4.33.0 kernel", "axioms: " + ", ".join(sorted({a for x in st.axioms.values() if x for a in x})),
                            "vlib/extract.py + extract_c14.py (constants, shape anchors of the back-off / accept code)",
                            "harness/simplat.c (scheduler, virtual clock, exact deadlock detection), mocktran.c (transport contract), s_life.c "
                            "(incl. the clock spin-breaker: a timer armed at T with delay d fires at the first quiescent point with now >= T+d)",
                            "vlib/life_common.py (runner, canonicalisation of event order within a quiescent batch)", "gcc ASan/UBSan"],
           "theorems": st.discharged, "axioms": st.axioms, "broken": st.broken,
           "evaluations": res.runs, "distinct_nontrivial": len({tuple(o) for o in allops if len(o) > 6}),
           "rule": "lifecycle scenarios on one or two sockets (pair0/pull/rep; judge-only cases also push/req): dial (blocking / non-blocking), listen, "
                   "connect results ok / wrong peer / error, every subset of the three notifications registered (with and without close-in-ADD_PRE) "
                   "and changed while pipes live (also by a notify racing with a close), pipe close / transport loss, "
                   "endpoint / context / socket close in all orders (also two concurrent closes; thorough: a close racing with another op on a "
                   "second thread at scheduler-chosen points), reconnect min/max 0..3000 (some huge), virtual-time advances, probes of old handles; "
                   f"from splitmix64(seed,LIFE,tier,i), each under {len(scheds)} schedule seeds; distinct = distinct op lists longer than 6",
           "schedules_per_case": len(scheds), "ops": res.ops, "op_histogram": res.op_hist, "event_histogram": res.ev_hist,
           "samples": [allops[0], allops[-1]], "judge_violations": len(jv), "model_mismatches": len(res.mismatch),
           "modelled_runs": res.modelled_runs, "model_lines_compared": res.model_lines, "crashes": len(res.crashes),
           "extract_changed": st.extract_changed}
    if PROP == "C10" and not replay:
        cov["device_teardown"] = device_teardown_probe(v)
        cov["device_close"] = device_close_probe(v)
        cov["parked_dialers"] = parked_dialers_probe(v)
    cov.update(part_cov)
    cov["evaluations"] += part_evals
    core.write_evidence(PROP, tier, seed, "proof", cov,
                        ["the mock transport honours the transport contract of the real transports (teardown of real descriptors is not exercised)",
                         "termination of close is proved for the model and observed (exact deadlock detection) for the explored schedules of the code",
                         "the redial delay value is read back from the trace and constrained, not predicted"],
                        time.time() - t0, len(v.violations))
    return v.finish()


def crash_sig(err):
    import re
    m = re.search(r"(ERROR: AddressSanitizer: [\w-]+|runtime error: [^\n]*|LeakSanitizer[^\n]*|SIM: [^\n]*)", err or "")
    if not m:
        return "none"
    s = m.group(1)
    f = re.search(r"#0 [^\n]* in (\w+)", err)
    return s[:80] + ("@" + f.group(1) if f else "")


def device_teardown_probe(v):
    """C10 names devices among the things whose teardown must terminate.  REAL run (harness/r_device.c,
    real threads, inproc): k idle nng_device instances are cancelled at once and must all stop.
    k below the number of task threads must always work; k above it is a recorded open finding
    (the last device_cb closes both sockets synchronously on a task-queue thread)."""
    import subprocess
    out = {}
    try:
        exe = build.harness("r_device", ["r_device.c"])
    except build.BuildError as e:
        v.violation("build-rdevice", {"kind": "build", "error": str(e), "log": e.log[-2000:]}, no_input=True)
        return {"built": False}
    env = build.env()
    for k, must in ((4, True), (40, False)):
        try:
            p = subprocess.run([exe], input=f"stopall 1 {k}\n", capture_output=True, text=True, env=env, timeout=25)
            ok = p.returncode == 0 and f"stopped={k}" in p.stdout
            detail = (p.stdout + p.stderr)[-600:]
        except subprocess.TimeoutExpired:
            ok, detail = False, "timeout after 25 s: the process hangs"
        out[f"stopall_{k}"] = "stopped" if ok else "HANG/FAIL"
        if ok:
            continue
        kf = next((f for f in core.known_findings("C10") if f.get("status") == "open" and f.get("key") == "device-teardown-hang"), None)
        if not must and kf:
            v.known_finding(kf["text"])
        else:
            v.violation(f"device-stop-{k}", {"kind": "cancelling nng_device instances does not terminate (REAL, inproc)",
                                            "ops": [f"stopall 1 {k}"], "harness": "harness/r_device.c", "detail": detail})
    return out


def device_close_probe(v):
    """C10 for devices (REAL, inproc): a device owns its sockets while it runs and closes them when it is
    cancelled; afterwards the socket handles and the listeners derived from them are invalid.  All device
    shapes, including the one-way forwarders that the repository's tests do not run."""
    import subprocess, re
    kinds = ["pipeline", "pubsub", "pair1", "reqrep", "reflector"]
    try:
        exe = build.harness("r_devclose", ["r_devclose.c"])
    except build.BuildError as e:
        v.violation("build-rdevclose", {"kind": "build", "error": str(e), "log": e.log[-2000:]}, no_input=True)
        return {"built": False}
    out = {}
    try:
        p = subprocess.run([exe], input="\n".join(kinds) + "\n", capture_output=True, text=True, env=build.env(), timeout=120)
        lines, rc, err = p.stdout.splitlines(), p.returncode, p.stderr
    except subprocess.TimeoutExpired as e:
        lines, rc, err = ((e.stdout or b"").decode() if isinstance(e.stdout, bytes) else (e.stdout or "")).splitlines(), -999, "timeout: a device did not stop / a close did not return"
    want = {"busy_front": 4, "busy_back": 4, "result": 20, "front": 7, "back": 7, "get": 7, "lclose": 12}
    seen = set()
    for l in lines:
        m = re.match(r"devclose (\w+) fwd=(\w+) (.*)", l)
        if not m:
            continue
        kind = m.group(1)
        seen.add(kind)
        vals = dict(kv.split("=") for kv in m.group(3).split())
        bad = {k: int(vals.get(k, -1)) for k, w in want.items() if int(vals.get(k, -1)) != w}
        out[kind] = "ok" if not bad and m.group(2) == "ok" else f"fwd={m.group(2)} {bad}"
        if bad:
            v.violation(f"devclose-{kind}", {"kind": "after a device was cancelled its sockets (or the handles derived from them) are not invalid / "
                        "were not owned while it ran (REAL, inproc)", "ops": [kind], "harness": "harness/r_devclose.c", "observed": l,
                        "expected": "busy_front=4 busy_back=4 result=20 front=7 back=7 get=7 lclose=12"})
    if rc != 0 or seen != set(kinds):
        v.violation("devclose-crash", {"kind": "device close scenario crashed, hung or did not complete (REAL, inproc)",
                    "ops": [k for k in kinds if k not in seen][:1] or kinds, "rc": rc, "stderr": err[-2000:], "output": lines[-5:]})
    return out


def parked_dialers_probe(v):
    """C10 (REAL, inproc): synchronous dials PARKED on a listener whose accept loop is held inside an ADD_PRE
    callback; the listener or its socket is closed.  The close must return and every parked dial must return."""
    import subprocess, re
    try:
        exe = build.harness("r_park", ["r_park.c"])
    except build.BuildError as e:
        v.violation("build-rpark", {"kind": "build", "error": str(e), "log": e.log[-2000:]}, no_input=True)
        return {"built": False}
    out = {}
    for args in (["1", "listener"], ["2", "listener"], ["4", "listener"], ["3", "socket"]):
        try:
            p = subprocess.run([exe] + args, capture_output=True, text=True, env=build.env(), timeout=60)
            line, rc, err = (p.stdout.strip().splitlines() or [""])[-1], p.returncode, p.stderr
        except subprocess.TimeoutExpired:
            line, rc, err = "", -999, "timeout"
        m = re.match(r"park n=(\d+) how=(\w+) parked=(\d+) close_done=(\d) done=(\d+) results=(\S+)$", line)
        key = " ".join(args)
        if rc != 0 or not m:
            out[key] = f"rc={rc} {line[:80]}"
            v.violation(f"park-crash-{args[0]}{args[1][0]}", {"kind": "parked-dialers scenario crashed or did not report (REAL, inproc)", "ops": ["r_park " + key],
                        "rc": rc, "stderr": err[-2000:], "output": line})
            continue
        n, parked, cdone, done = int(m.group(1)), int(m.group(3)), int(m.group(4)), int(m.group(5))
        out[key] = f"parked={parked} close_done={cdone} done={done}/{n} results={m.group(6)}"
        if cdone != 1 or done != n:
            v.violation(f"park-{args[0]}{args[1][0]}", {"kind": "close of an inproc listener (or its socket) with dialers parked on it: " +
                        ("the close did not return" if cdone != 1 else f"{n - done} of {n} parked synchronous dials never returned"),
                        "ops": ["r_park " + key], "harness": "harness/r_park.c", "observed": line,
                        "expected": f"close_done=1 done={n} (every parked dial returns, e.g. with NNG_ECONNREFUSED)"})
    return out
