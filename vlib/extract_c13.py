"""constants and source-shape anchors for the C13 backtrace model (Model/Backtrace.lean)"""
import re
from . import extract as X

P = "src/sp/protocol/"
# the TTL loop as written in xrep0_pipe_recv_cb / rep0_pipe_recv_cb / xresp0_recv_cb / resp0_pipe_recv_cb
TTL_LOOP = [
    (r"hops\s*=\s*1;\s*for\s*\(;;\)\s*\{", "hops = 1; for (;;)"),
    (r"if\s*\(hops > ttl\)\s*\{\s*goto drop;\s*\}\s*hops\+\+;\s*if\s*\(nni_msg_len\(msg\) < 4\)\s*\{", "hops > ttl test placed before the length test"),
    (r"end\s*=\s*\(\(body\[0\] & 0x80u\) != 0\);\s*if\s*\(nni_msg_header_append\(msg, body, 4\) != 0\)\s*\{\s*goto drop;\s*\}\s*nni_msg_trim\(msg, 4\);\s*if\s*\(end\)\s*\{\s*break;\s*\}", "end test / header append / trim"),
]
END_LOOP = [
    (r"end\s*=\s*false;\s*while\s*\(!end\)\s*\{\s*uint8_t \*body;\s*if\s*\(nni_msg_len\(msg\) < 4\)\s*\{", "while (!end) with length test"),
    (r"end\s*=\s*\(\(body\[0\] & 0x80u\) != 0\);\s*if\s*\(nn[gi]_msg_header_append\(msg, body, sizeof\(uint32_t\)\) != 0\)\s*\{", "end test / header append"),
    (r"nni_msg_trim\(msg, sizeof\(uint32_t\)\);\s*\}", "trim"),
]
GETQ = [
    (r"if\s*\(nni_msg_header_len\(msg\) < 4\)\s*\{\s*nni_msg_free\(msg\);", "short header is freed"),
    (r"id\s*=\s*nni_msg_header_trim_u32\(msg\);", "destination = first header word"),
]


def hook(put):
    def anchors(rel, fn, pats):
        body = X.func_body(X.src(P + rel), fn)
        for pat, what in pats:
            X.one(pat, body, f"{rel} {fn}: {what}")
        return body

    for rel, fn, pipe_first in [("reqrep0/xrep.c", "xrep0_pipe_recv_cb", True), ("reqrep0/rep.c", "rep0_pipe_recv_cb", False),
                                ("survey0/xrespond.c", "xresp0_recv_cb", True), ("survey0/respond.c", "resp0_pipe_recv_cb", False)]:
        b = anchors(rel, fn, TTL_LOOP)
        has = re.search(r"nni_msg_header_append_u32\(msg,\s*(nni_pipe_id\(p->pipe\)|p->id)\);", b) is not None
        if has != pipe_first:
            raise X.ExtractError(f"{rel} {fn}: pipe id prepend {'missing' if pipe_first else 'unexpected'}")
    for rel, fn in [("reqrep0/xreq.c", "xreq0_recv_cb"), ("survey0/xsurvey.c", "xsurv0_recv_cb")]:
        anchors(rel, fn, END_LOOP)
    for rel, fn in [("reqrep0/xrep.c", "xrep0_sock_getq_cb"), ("survey0/xrespond.c", "xresp0_sock_getq_cb")]:
        anchors(rel, fn, GETQ)
    for rel, fn in [("reqrep0/rep.c", "rep0_ctx_send"), ("survey0/respond.c", "resp0_ctx_send")]:
        anchors(rel, fn, [(r"nni_msg_header_clear\(msg\);", "user header cleared"),
                          (r"nni_msg_header_append\(msg, ctx->btrace, len\)", "saved backtrace becomes the header"),
                          (r"NNG_ESTATE", "no saved backtrace => ESTATE")])
    # defaults and option ranges
    defaults = set()
    for rel, init, setter in [("reqrep0/xrep.c", "xrep0_sock_init", "xrep0_sock_set_maxttl"), ("reqrep0/rep.c", "rep0_sock_init", "rep0_sock_set_max_ttl"),
                              ("reqrep0/xreq.c", "xreq0_sock_init", "xreq0_sock_set_max_ttl"),
                              ("survey0/xrespond.c", "xresp0_sock_init", "xresp0_sock_set_maxttl"), ("survey0/respond.c", "resp0_sock_init", "resp0_sock_set_max_ttl"),
                              ("survey0/xsurvey.c", "xsurv0_sock_init", "xsurv0_sock_set_max_ttl")]:
        text = X.src(P + rel)
        m = X.one(r"nni_atomic_set\(&s->ttl,\s*(\d+)\)", X.func_body(text, init), f"{rel} default ttl")
        defaults.add(int(m.group(1)))
        X.one(r"nni_copyin_int\(&ttl, buf, sz, 1, NNI_MAX_MAX_TTL, t\)", X.func_body(text, setter), f"{rel} ttl option range 1..NNI_MAX_MAX_TTL")
    if len(defaults) != 1:
        raise X.ExtractError(f"ttl defaults differ between protocols: {sorted(defaults)}")
    put("btTtlDefault", defaults.pop(), "reqrep0/{xrep,rep,xreq}.c survey0/{xrespond,respond,xsurvey}.c *_sock_init nni_atomic_set(&s->ttl, N)")
    put("btTtlMin", 1, "*_sock_set_max_ttl nni_copyin_int lower bound (upper = NNI_MAX_MAX_TTL)")
    m = X.one(r'#define\s+NNG_OPT_MAXTTL\s+"([^"]+)"', X.src("include/nng/nng.h"), "NNG_OPT_MAXTTL")
    put("btOptMaxTtl", m.group(1), "include/nng/nng.h NNG_OPT_MAXTTL")
    # saved backtrace buffers
    for rel in ("reqrep0/rep.c", "survey0/respond.c"):
        X.one(r"uint32_t\s+btrace\[NNI_MAX_MAX_TTL \+ 1\];", X.src(P + rel), f"{rel} ctx->btrace dimension")
    maxttl = X.define(X.src("src/core/defs.h"), "NNI_MAX_MAX_TTL")
    put("btSavedCap", (maxttl + 1) * 4, "rep.c/respond.c ctx->btrace[NNI_MAX_MAX_TTL + 1] of uint32_t")
    # id ranges: pipe ids have the high bit clear, request/survey ids have it set
    m = X.one(r"static nni_id_map pipes\s*=\s*NNI_ID_MAP_INITIALIZER\((\w+),\s*(\w+),\s*true\);", X.src("src/core/pipe.c"), "pipe id range")
    put("btPipeIdMax", X.cint(m.group(2)), "core/pipe.c pipes NNI_ID_MAP_INITIALIZER upper bound")
    for rel, name in (("reqrep0/req.c", "requests"), ("survey0/survey.c", "surveys")):
        m = X.one(r"nni_id_map_init\(&\w+->" + name + r",\s*(\w+),\s*(\w+),\s*true\);", X.src(P + rel), f"{rel} id range")
        if X.cint(m.group(1)) != 0x80000000 or X.cint(m.group(2)) != 0xffffffff:
            raise X.ExtractError(f"{rel}: request id range is not [0x80000000, 0xffffffff]")
    put("btReqIdMin", 0x80000000, "req.c/survey.c nni_id_map_init lower bound")
    put("btReqIdMax", 0xffffffff, "req.c/survey.c nni_id_map_init upper bound")
    # message.c guards the model's ghost outcomes refer to
    msg = X.src("src/core/message.c")
    X.one(r"if\s*\(\(len \+ m->m_header_len\) > sizeof\(m->m_header_buf\)\)\s*\{\s*return \(NNG_EINVAL\);", X.func_body(msg, "nni_msg_header_append"), "nni_msg_header_append capacity test")
    X.one(r"if\s*\(\(m->m_header_len \+ sizeof\(val\)\) >=\s*\(sizeof\(m->m_header_buf\)\)\)\s*\{\s*nni_panic", X.func_body(msg, "nni_msg_header_append_u32"), "nni_msg_header_append_u32 over-run test (>=)")
    # device: the message is not touched between receive and send
    cb = X.func_body(X.src("src/core/device.c"), "device_cb")
    X.one(r"case NNI_DEVICE_STATE_RECV:\s*p->state = NNI_DEVICE_STATE_SEND;", cb, "device_cb leaves the message in the aio")
    X.one(r"case NNI_DEVICE_STATE_RECV:\s*nni_sock_send\(p->dst, &p->aio\);", cb, "device_cb forwards the same aio")
    if re.search(r"nni_msg_(header_)?(append|insert|trim|chop|clear)", cb):
        raise X.ExtractError("device_cb edits the message")
