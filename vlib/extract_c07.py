"""constants for the SURVEYOR/RESPONDENT models (C07)"""
import re
from . import extract as X


def hook(put):
    sv = X.src("src/sp/protocol/survey0/survey.c")
    rs = X.src("src/sp/protocol/survey0/respond.c")
    defs = X.src("src/core/defs.h")
    put("survProtoSelf", X.define(sv, "SURVEYOR0_SELF"), "survey0/survey.c SURVEYOR0_SELF")
    put("survProtoPeer", X.define(sv, "SURVEYOR0_PEER"), "survey0/survey.c SURVEYOR0_PEER")
    m = X.one(r"#define\s+NNI_PROTO_SURVEYOR_V0\s+NNI_PROTO\((\d+), (\d+)\)", rs, "SURVEYOR proto id (respond.c)")
    put("respProtoPeer", int(m.group(1)) * 16 + int(m.group(2)), "survey0/respond.c NNI_PROTO_SURVEYOR_V0")
    m = X.one(r"#define\s+NNI_PROTO_RESPONDENT_V0\s+NNI_PROTO\((\d+), (\d+)\)", rs, "RESPONDENT proto id (respond.c)")
    put("respProtoSelf", int(m.group(1)) * 16 + int(m.group(2)), "survey0/respond.c NNI_PROTO_RESPONDENT_V0")
    # surv0_ctx_init: socket context defaults
    ci = X.func_body(sv, "surv0_ctx_init")
    m = X.one(r"if \(ctx == &sock->ctx\) \{\s*len = (\d+);\s*tmo = (\w+);", ci, "surveyor socket-context defaults")
    put("survRecvBufInit", int(m.group(1)), "survey0/survey.c surv0_ctx_init recv queue depth of the socket context")
    if m.group(2) != "NNI_SECOND":
        raise X.ExtractError("default survey time is not NNI_SECOND")
    m2 = X.one(r"#define\s+NNI_SECOND\s+\((\d+)\)", defs, "NNI_SECOND")
    put("survTimeInit", int(m2.group(1)), "survey0/survey.c surv0_ctx_init default survey time (NNI_SECOND, core/defs.h)")
    X.one(r"len = nni_atomic_get\(&sock->ctx\.recv_buf\);\s*tmo = nni_atomic_get\(&sock->ctx\.survey_time\);", ci, "context inherits socket values")
    si = X.func_body(sv, "surv0_sock_init")
    m = X.one(r"nni_atomic_set\(&sock->send_buf, (\d+)\)", si, "surveyor per-pipe send queue depth")
    put("survSendBufInit", int(m.group(1)), "survey0/survey.c surv0_sock_init per-pipe send queue depth")
    m = X.one(r"nni_id_map_init\(&sock->surveys, (0x[0-9a-fA-F]+)u?, (0x[0-9a-fA-F]+)u?, true\)", si, "survey id range")
    put("survIdMin", int(m.group(1), 16), "survey0/survey.c surv0_sock_init survey id range (low; the high bit)")
    put("survIdMax", int(m.group(2), 16), "survey0/survey.c surv0_sock_init survey id range (high)")
    m = X.one(r"sock->ttl = (\d+);", si, "surveyor ttl")
    # the receive test is `timeout < 0` in the repaired tree (`< 1` also matched a zero timeout: F9)
    rc = X.func_body(sv, "surv0_ctx_recv")
    m = X.one(r"if \(\(timeout < (\d+)\) \|\| \(\(now \+ timeout\) > ctx->expire\)\)", rc, "surveyor receive deadline clamp")
    put("survRecvClampBelow", int(m.group(1)), "survey0/survey.c surv0_ctx_recv: timeouts below this are clamped to the survey deadline")
    X.one(r"\(ctx->survey_id == 0\) \|\| \(now >= ctx->expire\)", rc, "surveyor receive ESTATE test")
    # survey time option: nni_copyin_ms accepts dur >= -1
    opt = X.func_body(X.src("src/core/options.c"), "nni_copyin_ms")
    m = X.one(r"if \(dur < (-?\d+)\)", opt, "nni_copyin_ms lower bound")
    if int(m.group(1)) > 0:
        raise X.ExtractError("nni_copyin_ms lower bound is positive")
    put("msOptMinNeg", -int(m.group(1)), "core/options.c nni_copyin_ms: durations below minus this value are NNG_EINVAL")
    # respondent
    ri = X.func_body(rs, "resp0_sock_init")
    m = X.one(r"nni_atomic_set\(&s->ttl, (\d+)\)", ri, "respondent default ttl")
    put("respTtlInit", int(m.group(1)), "survey0/respond.c resp0_sock_init default ttl")
    st = X.func_body(rs, "resp0_sock_set_max_ttl")
    m = X.one(r"nni_copyin_int\(&ttl, buf, sz, (\d+), NNI_MAX_MAX_TTL, t\)", st, "respondent ttl range")
    put("respTtlMin", int(m.group(1)), "survey0/respond.c resp0_sock_set_max_ttl lower bound (upper: NNI_MAX_MAX_TTL)")
    # the send path must test its state before nni_aio_start (F8 repaired)
    sd = X.func_body(rs, "resp0_ctx_send")
    i_state = sd.find("ctx->btrace_len) == 0")
    i_start = sd.find("nni_aio_start(")
    if i_state < 0 or i_start < 0:
        raise X.ExtractError("resp0_ctx_send anchors missing")
    put("respSendStartsFirst", 1 if i_start < i_state else 0,
        "survey0/respond.c resp0_ctx_send: 1 if nni_aio_start precedes the state test (the F8 order), 0 if it is only used to park")
    # repaired shapes the model mirrors (R1, R2, R3)
    i_saio = sd.find("ctx->saio != NULL")
    put("respSendRefusesSecond", 1 if re.search(r"if \(ctx->saio != NULL\) \{[^}]*NNG_ESTATE", sd) and i_start < i_saio < i_state else 0,
        "survey0/respond.c resp0_ctx_send: 1 if, after nni_aio_start and before the pending-survey test, a send is refused with "
        "NNG_ESTATE while the context's previous response is parked")
    i_clear = sd.find("nni_pollable_clear(&s->writable)")
    put("respSendClearsFirst", 1 if 0 <= i_clear < i_start else 0,
        "survey0/respond.c resp0_ctx_send: 1 if the socket context's send pollable is cleared before nni_aio_start")
    pc = X.func_body(rs, "resp0_pipe_close")
    put("respCloseClearsReadable", 1 if re.search(r"nni_list_remove\(&s->recvpipes, p\);\s*if \(nni_list_empty\(&s->recvpipes\)\) \{\s*nni_pollable_clear\(&s->readable\);", pc) else 0,
        "survey0/respond.c resp0_pipe_close: 1 if losing the last receivable pipe clears the receive pollable")
    cr = X.func_body(rs, "resp0_ctx_recv")
    cb = X.func_body(rs, "resp0_pipe_recv_cb")
    pat = r"if \(ctx == &s->ctx\) \{\s*if \(p->busy\) \{\s*nni_pollable_clear\(&s->writable\);\s*\} else \{\s*nni_pollable_raise\(&s->writable\);"
    shared = r"p->busy = true;\s*if \(p->id == s->ctx\.pipe_id\) \{\s*nni_pollable_clear\(&s->writable\);"
    put("respWritableTracksPipe", 1 if re.search(pat, cr) and re.search(pat, cb) and re.search(shared, sd) else 0,
        "survey0/respond.c: 1 if taking a survey sets the send pollable from p->busy (resp0_ctx_recv, resp0_pipe_recv_cb) and a response "
        "going out on the pipe of the socket's pending survey clears it (resp0_ctx_send)")
