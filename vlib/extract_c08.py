"""constants for the PAIR0 / PAIR1 models (C08)"""
import re
from . import extract as X


def _bufrange(body, what):
    m = X.one(r"nni_copyin_int\(&val, buf, sz, (\d+), (\d+), t\)", body, what)
    if int(m.group(1)) != 0:
        raise X.ExtractError(f"{what}: lower bound is not 0")
    return int(m.group(2))


def hook(put):
    p0 = X.src("src/sp/protocol/pair0/pair.c")
    p1 = X.src("src/sp/protocol/pair1/pair.c")
    X.one(r"#define\s+NNI_PROTO\(major, minor\)\s+\(\(\(major\) \* 16\) \+ \(minor\)\)", X.src("src/core/defs.h") + X.src("src/core/protocol.h"), "NNI_PROTO macro")
    m = X.one(r"#define\s+NNI_PROTO_PAIR_V0\s+NNI_PROTO\((\d+), (\d+)\)", p0, "PAIR0 proto id")
    put("pair0Proto", int(m.group(1)) * 16 + int(m.group(2)), "pair0/pair.c NNI_PROTO_PAIR_V0")
    X.one(r"\.proto_peer\s*=\s*\{ NNI_PROTO_PAIR_V0,", X.strip_comments(p0), "pair0 peer is PAIR_V0")
    put("pair1Self", X.define(p1, "PAIR1_SELF"), "pair1/pair.c PAIR1_SELF")
    put("pair1Peer", X.define(p1, "PAIR1_PEER"), "pair1/pair.c PAIR1_PEER")
    # buffers: option ranges and initial depths
    put("pair0SendBufMax", _bufrange(X.func_body(p0, "pair0_set_send_buf_len"), "pair0 send-buffer range"), "pair0/pair.c pair0_set_send_buf_len")
    put("pair0RecvBufMax", _bufrange(X.func_body(p0, "pair0_set_recv_buf_len"), "pair0 recv-buffer range"), "pair0/pair.c pair0_set_recv_buf_len")
    put("pair1SendBufMax", _bufrange(X.func_body(p1, "pair1_set_send_buf_len"), "pair1 send-buffer range"), "pair1/pair.c pair1_set_send_buf_len")
    put("pair1RecvBufMax", _bufrange(X.func_body(p1, "pair1_set_recv_buf_len"), "pair1 recv-buffer range"), "pair1/pair.c pair1_set_recv_buf_len")
    init0 = X.func_body(p0, "pair0_sock_init")
    init1 = X.func_body(p1, "pair1_sock_init_impl")
    put("pair0RecvBufInit", int(X.one(r"nni_lmq_init\(&s->rmq, (\d+)\)", init0, "pair0 initial recv buffer").group(1)), "pair0/pair.c pair0_sock_init")
    put("pair0SendBufInit", int(X.one(r"nni_lmq_init\(&s->wmq, (\d+)\)", init0, "pair0 initial send buffer").group(1)), "pair0/pair.c pair0_sock_init")
    put("pair1RecvBufInit", int(X.one(r"nni_lmq_init\(&s->rmq, (\d+)\)", init1, "pair1 initial recv buffer").group(1)), "pair1/pair.c pair1_sock_init_impl")
    put("pair1SendBufInit", int(X.one(r"nni_lmq_init\(&s->wmq, (\d+)\)", init1, "pair1 initial send buffer").group(1)), "pair1/pair.c pair1_sock_init_impl")
    # hop count: default, option range, limits used by the receive / raw-send checks
    put("pair1TtlInit", int(X.one(r"nni_atomic_set\(&s->ttl, (\d+)\)", init1, "pair1 default ttl").group(1)), "pair1/pair.c pair1_sock_init_impl")
    m = X.one(r"nni_copyin_int\(&ttl, buf, sz, (\d+), NNI_MAX_MAX_TTL, t\)", X.func_body(p1, "pair1_sock_set_max_ttl"), "pair1 ttl range")
    put("pair1TtlMin", int(m.group(1)), "pair1/pair.c pair1_sock_set_max_ttl")
    put("pair1TtlMax", X.define(X.src("src/core/defs.h"), "NNI_MAX_MAX_TTL"), "core/defs.h NNI_MAX_MAX_TTL (upper bound in pair1_sock_set_max_ttl)")
    rcb = X.func_body(p1, "pair1_pipe_recv_cb")
    m = X.one(r"if \(\(len < sizeof\(uint32_t\)\) \|\|\s*\(\(hdr = nni_msg_trim_u32\(msg\)\) > (0x[0-9a-fA-F]+)\)\)", rcb, "pair1 receive malformed test")
    put("pair1RxHopLimit", int(m.group(1), 16), "pair1/pair.c pair1_pipe_recv_cb: hdr > limit is malformed")
    X.one(r"if \(\(int\) hdr > nni_atomic_get\(&s->ttl\)\)", rcb, "pair1 ttl comparison is '>'")
    snd = X.func_body(p1, "pair1_sock_send")
    m = X.one(r"if \(\(nni_msg_header_len\(m\) != sizeof\(uint32_t\)\) \|\|\s*\(nni_msg_header_peek_u32\(m\) >= (0x[0-9a-fA-F]+)\)\)", snd, "pair1 raw send header test")
    put("pair1TxHopLimit", int(m.group(1), 16), "pair1/pair.c pair1_sock_send: raw header value >= limit is refused")
    X.one(r"nni_msg_header_clear\(m\);\s*nni_msg_header_append_u32\(m, 0\);", snd, "pair1 cooked send writes hop count 0")
    X.one(r"nni_msg_header_poke_u32\(m, nni_msg_header_peek_u32\(m\) \+ 1\);", X.func_body(p1, "pair1_pipe_send"), "pair1 pipe send adds one hop")
    nng = X.src("include/nng/nng.h")
    for name, val in (("NNG_OPT_MAXTTL", "ttl-max"), ("NNG_OPT_SENDBUF", "send-buffer"), ("NNG_OPT_RECVBUF", "recv-buffer")):
        X.one(r"#define\s+" + name + r'\s+"' + re.escape(val) + '"', nng, f"{name} option name")
