"""C09 — BUS: fan-out at most once per peer, never back to the origin, send never blocks,
per-peer order, whole drops only (cooked and raw)."""
import os, re, time, json
from .. import core, build, lean, sim
from ..extract_c09 import CANON_PID_BASE

PROP = "C09"
MODULES = ["NngModel.Props.C09"]
TIMEOUTS = [20, 50, 100]
ADV = [7, 13, 31, 61, 127]
BUS = "0070"
MODEL, JUDGE = "bus-model", "bus-judge"
CHUNK = 100


class Gen:
    """one op list for a BUS socket (cooked or raw).  Shadow state only to pick meaningful
    operations: which pipes exist, which aios may be parked, distinct bodies, deadlines."""

    def __init__(self, r, raw):
        self.r, self.raw = r, raw
        self.ops = []
        self.npipes = 0
        self.nbody = 0
        self.busy_aio = set()
        self.now = 0
        self.deadlines = set()

    def body(self):
        self.nbody += 1
        extra = self.r.bytes(self.r.choice([0, 0, 1, 3, 8]))
        return (self.nbody.to_bytes(2, "big") + extra).hex()

    def aio(self):
        free = [a for a in range(16) if a not in self.busy_aio]
        return self.r.choice(free) if free else None

    def mode(self, timed_deadline):
        k = self.r.below(20)
        if k < 8:
            return "nb"
        if k < 12:
            return "inf"
        if k < 14:
            return "def"
        if k < 15:
            return "0"
        t = self.r.choice(TIMEOUTS)
        if timed_deadline:
            self.deadlines.add(self.now + t)
        return str(t)

    def header(self):
        r = self.r
        k = r.below(10)
        if k < 3 or (self.npipes == 0 and k < 7):
            return "-"
        if k < 7:
            h = f"@{r.below(self.npipes)}"       # names a pipe (origin header of a forwarded message)
            if r.chance(1, 4):
                h += "+" + r.bytes(r.choice([1, 4, 8])).hex()
            return h
        if k < 8:
            return r.bytes(r.choice([1, 2, 3])).hex()   # too short to be an origin
        # four or more bytes that are nobody's id (real ids are < 2^31, canonical ones start with c090)
        return "f" + r.bytes(r.choice([4, 5, 8])).hex()[1:]

    def advance(self):
        d = self.r.choice(ADV)
        while self.now + d in self.deadlines:
            d += 1
        self.now += d
        self.ops.append(f"advance {d}")
        self.busy_aio.clear()

    def add_pipe(self):
        r = self.r
        self.ops.append(f"pipe_add {BUS if r.chance(9, 10) else r.choice(['0050', '0051', '0010', '0071'])}")
        self.ops.append(f"pipe_id {self.npipes}")
        self.npipes += 1

    def gen(self, n):
        r = self.r
        self.ops.append("open bus" + (" raw" if self.raw else ""))
        if r.chance(4, 5):
            self.ops.append(f"setopt - send-buffer int {r.choice([1, 1, 2, 3])}")
        if r.chance(4, 5):
            self.ops.append(f"setopt - recv-buffer int {r.choice([1, 1, 2, 3])}")
        for _ in range(r.choice([0, 1, 2, 2, 3])):
            self.add_pipe()
        while len(self.ops) < n:
            k = r.below(200)
            if k < 12 and self.npipes < 4:
                self.add_pipe()
            elif k < 18 and self.npipes:
                self.ops.append(f"pipe_drop {r.below(self.npipes)}")
            elif k < 70:
                a = self.aio()
                if a is None:
                    self.advance(); continue
                self.ops.append(f"send - {a} {self.header()} {self.body()} {self.mode(False)}")
            elif k < 100 and self.npipes:
                self.ops.append(f"send_done {r.below(self.npipes)} {0 if r.chance(9, 10) else r.choice([7, 19, 31])}")
            elif k < 130 and self.npipes:
                p = r.below(self.npipes)
                if r.chance(19, 20):
                    self.ops.append(f"recv_done {p} {self.body()}")
                else:
                    self.ops.append(f"recv_done {p} !{r.choice([7, 19, 31])}")
                self.busy_aio.clear()
            elif k < 152:
                a = self.aio()
                if a is None:
                    self.advance(); continue
                m = self.mode(True)
                self.ops.append(f"recv - {a} {m}")
                if m not in ("nb", "0"):
                    self.busy_aio.add(a)
            elif k < 158:
                self.ops.append(f"cancel {r.below(16)}")
                self.busy_aio.clear()
            elif k < 160:
                self.ops.append(f"abort {r.below(16)} {r.choice([5, 20, 7])}")
                self.busy_aio.clear()
            elif k < 170:
                self.advance()
            elif k < 180:
                self.ops.append(f"setopt - {r.choice(['send-buffer', 'recv-buffer'])} int {r.choice([1, 1, 2, 2, 3, 3, 4, 0, -1, 8193])}")
            elif k < 184:
                self.ops.append(f"getopt - {r.choice(['send-buffer', 'recv-buffer'])} int")
            elif k < 195:
                self.ops.append("poll")
            elif k < 197 and self.npipes:
                self.ops.append(f"pipe_id {r.below(self.npipes)}")
            elif k < 198:
                self.ops.append("ctx_open 0")
            elif k < 199:
                self.ops.append("close")
                break
        return self.ops


def gen_case(seed, tier, i):
    r = core.Rng(seed, PROP, tier, i)
    return Gen(r, i % 2 == 1).gen(r.range(8, 60))


def corpus_cases():
    out = []
    for prop in (PROP, "C15"):
        d = os.path.join(core.HERE, "corpus", prop)
        if os.path.isdir(d):
            for f in sorted(os.listdir(d)):
                ops = [l.strip() for l in open(os.path.join(d, f)) if l.strip() and not l.startswith("#")]
                if any(o.startswith("open bus") for o in ops[:2]):
                    out.append([o for o in ops if not o.startswith("sched")])
    return out


# ---- pipe-id canonicalisation ------------------------------------------------------------
# The library numbers pipes from a random start; raw headers carry those ids.  The harness
# resolves `@k` in a send header to the real id of pipe k and answers `pipe_id k` with it.
# For the model the same ops are written with the canonical id CANON_PID_BASE + k, and the
# ids in the implementation's output are mapped to canonical ones.  The judge gets the real
# trace (real ids in headers, `@k` resolved with the id learnt from the earlier probe).

def hdr_with(h, idof):
    if not h.startswith("@"):
        return h
    k, _, extra = h[1:].partition("+")
    return "%08x" % idof(int(k)) + extra


def translate(ops, impl_lines):
    """-> (canonical impl lines, model ops, judge lines)"""
    real = {}      # pipe -> real id (learnt from the probes)
    canon = {}     # real id -> canonical id
    cil, mops, jl = [], [], []
    for t, op in enumerate(ops):
        out = impl_lines[t] if t < len(impl_lines) else None
        w = op.split()
        mop = jop = op
        if w[0] == "send" and len(w) == 6 and w[3].startswith("@"):
            mop = " ".join(w[:3] + [hdr_with(w[3], lambda k: CANON_PID_BASE + k)] + w[4:])
            jop = " ".join(w[:3] + [hdr_with(w[3], lambda k: real.get(k, 0))] + w[4:])
        mops.append(mop)
        if out is None:
            continue
        cout = out
        if w[0] == "pipe_id" and len(w) == 2:
            m = re.fullmatch(r"rv 0 (\d+)", out)
            if m and int(m.group(1)) != 0:
                k, rid = int(w[1]), int(m.group(1))
                real[k] = rid
                canon[rid] = CANON_PID_BASE + k
                cout = f"rv 0 {CANON_PID_BASE + k}"
        elif "done " in out:
            evs = []
            for e in out.split(" ; "):
                x = e.split()
                if len(x) == 5 and x[0] == "done" and x[2] == "0" and len(x[3]) == 8:
                    try:
                        v = int(x[3], 16)
                    except ValueError:
                        v = None
                    if v in canon:
                        x[3] = "%08x" % canon[v]
                        e = " ".join(x)
                evs.append(e)
            cout = " ; ".join(evs)
        cil.append(cout)
        jl.append(f"{jop} => {out}")
    return cil, mops, jl


def leak_env(detect):
    e = build.env()
    if not detect:
        e["ASAN_OPTIONS"] = e.get("ASAN_OPTIONS", "").replace("detect_leaks=1", "detect_leaks=0")
    return e


def run_impl(exe, oplists, timeout=900):
    """run the cases; when only LeakSanitizer complains at exit (stdout is lost then), run again
    without leak detection to get the trace.  -> (ProcResult, leaked?)"""
    text = core.cases_to_text(oplists)
    impl = core.run_stream([exe], text, env=leak_env(True), timeout=timeout)
    if impl.rc == 79 and "LeakSanitizer" in impl.err:
        again = core.run_stream([exe], text, env=leak_env(False), timeout=timeout)
        again.err = impl.err
        return again, True
    return impl, False


def run_bus(cases, exe, use_model, use_judge, scheds):
    res = sim.SimResult()
    res.cases = len(cases)
    res.leaks = []
    res.judge_model = []
    jobs = []
    for ci, ops in enumerate(cases):
        for k in scheds:
            jobs.append((ci, k, [f"sched {k}"] + ops))
        for l in ops:
            w = l.split()[0]
            res.op_hist[w] = res.op_hist.get(w, 0) + 1
    res.runs = len(jobs)
    res.ops = sum(len(j[2]) for j in jobs)

    def work(part):
        impl, leaked = run_impl(exe, [j[2] for j in part])
        icases, partial = core.split_cases(impl.lines)
        tr = [translate(part[j][2], icases[j]) for j in range(min(len(icases), len(part)))]
        out = {"impl": impl, "icases": icases, "partial": partial, "leaked": leaked, "tr": tr}
        if use_model:
            out["model"] = core.split_cases(core.run_stream(lean.driver_cmd(MODEL), core.cases_to_text([t[1] for t in tr])).lines)[0]
        if use_judge:
            jl = []
            for t in tr:
                jl.extend(t[2])
                jl.append("reset")
            out["judge"] = core.split_cases(core.run_stream(lean.driver_cmd(JUDGE), "\n".join(jl) + "\n").lines)[0]
        if use_judge and use_model:
            # tested link judge <-> model: the judge must accept the model's own traces
            jl = []
            for t, ml in zip(tr, out["model"]):
                jl.extend(f"{op} => {o}" for op, o in zip(t[1], ml))
                jl.append("reset")
            out["judge_model"] = core.split_cases(core.run_stream(lean.driver_cmd(JUDGE), "\n".join(jl) + "\n").lines)[0]
        return part, out

    # at most CHUNK cases per harness process: simplat.c keeps every mutex address it has ever seen in a
    # fixed table (8192 slots, never freed); a longer batch fills it and the process spins in mowner()
    parts = [jobs[i:i + CHUNK] for i in range(0, len(jobs), CHUNK)]
    for part, out in core.parallel_map(work, parts):
        icases = out["icases"]
        if out["impl"].rc != 0 or len(icases) != len(part):
            k = len(icases)
            ci, sk, ops = part[k] if k < len(part) else part[-1]
            res.crashes.append({"case": ci, "sched": sk, "ops": ops, "done_ops": len(out["partial"]), "rc": out["impl"].rc,
                                "last": out["partial"][-3:], "stderr": out["impl"].err[-3000:]})
        nviol = len(res.judge_viol)
        for j, (ci, sk, ops) in enumerate(part):
            if j >= len(icases):
                break
            il = icases[j]
            cil = out["tr"][j][0]
            for l in il:
                for e in l.split(" ; "):
                    w = " ".join(e.split()[:1])
                    res.ev_hist[w] = res.ev_hist.get(w, 0) + 1
            if use_judge and j < len(out["judge"]):
                for t, v in enumerate(out["judge"][j]):
                    if v.startswith("VIOLATION"):
                        res.judge_viol.append({"case": ci, "sched": sk, "ops": ops, "clause": v[10:], "op_index": t,
                                               "impl": il[t] if t < len(il) else None})
                        break
            if use_model and j < len(out["model"]):
                for t, (a, b) in enumerate(zip(cil, out["model"][j])):
                    if sim.canon(a) != sim.canon(b):
                        res.model_mismatch.append({"case": ci, "sched": sk, "ops": ops, "op_index": t, "impl": a, "model": b})
                        break
        for j, verdicts in enumerate(out.get("judge_model", [])):
            for t, vd in enumerate(verdicts):
                if vd.startswith("VIOLATION"):
                    res.judge_model.append({"case": part[j][0], "ops": out["tr"][j][1], "clause": vd[10:], "op_index": t,
                                            "model": out["model"][j][t] if t < len(out["model"][j]) else None})
                    break
        if out["leaked"] and len(res.judge_viol) == nviol:
            # a leak the judge did not explain: find the case
            for ci, sk, ops in part:
                r1, lk = run_impl(exe, [ops], timeout=120)
                if lk:
                    res.leaks.append({"case": ci, "sched": sk, "ops": ops, "stderr": r1.err[-3000:]})
                    break
    return res


def run_one(exe, comp, ops, judge=False):
    impl, leaked = run_impl(exe, [ops], timeout=120)
    ic = core.split_cases(impl.lines)
    il = ic[0][0] if ic[0] else ic[1]
    cil, mops, jl = translate(ops, il)
    if comp is None:
        return impl, il, None, leaked
    if judge:
        other = core.split_cases(core.run_stream(lean.driver_cmd(comp), "\n".join(jl + ["reset"]) + "\n").lines)[0]
    else:
        other = core.split_cases(core.run_stream(lean.driver_cmd(comp), core.cases_to_text([mops])).lines)[0]
    return impl, cil if not judge else il, (other[0] if other else []), leaked


def minimise(exe, comp, ops, judge, leak=False, budget_s=45, same_clause=None):
    def fails(o):
        impl, il, other, leaked = run_one(exe, comp, o, judge)
        if leak:
            return leaked
        if impl.rc != 0 and not leaked:
            return True
        if other is None:
            return False
        if judge:
            vs = [v[10:] for v in other if v.startswith("VIOLATION")]
            if same_clause is not None:
                return any(re.sub(r"\d+", "N", x) == same_clause for x in vs[:1])
            return bool(vs)
        return any(sim.canon(a) != sim.canon(b) for a, b in zip(il, other))

    if not fails(ops):
        return ops
    return core.ddmin(ops, fails, budget_s, keep_prefix=2)


# ---- REAL end-to-end scenario: cooked peers through nng_device over inproc ---------------------

def real_configs(tier, seed):
    r = core.Rng(seed, PROP, tier, "real")
    n = 6 if tier == "quick" else 24
    out = []
    for i in range(n):
        if i % 2 == 0:
            out.append(["bridge", str(r.range(1, 3)), str(r.range(1, 3)), str(r.range(10, 30)), str(r.below(1 << 30))])
        else:
            # every other reflector scenario is long (bursts of one peer through the single forwarder of a reflector)
            out.append(["reflect", str(r.range(2, 5)), "0", str(r.range(10, 30) if i % 4 == 1 else r.range(300, 500)), str(r.below(1 << 30))])
    out.append(["rawfan", str(r.range(3, 5)), "0", str(r.range(8, 20)), str(r.below(1 << 30))])
    return out


def real_judge(args, lines):
    """-> (clause or None, number of deliveries)"""
    mode, na = args[0], int(args[1])
    side = lambda p: 0 if (mode == "reflect" or p < na) else 1
    sent, seen, last, got = set(), set(), {}, 0
    if not lines or lines[-1] != "end":
        return "scenario did not run to its end: " + " / ".join(lines[-2:]), 0
    for l in lines:
        w = l.split()
        if w[0] == "fatal":
            return "setup failed: " + l, got
        if w[0] == "sent":
            p, q, rv = int(w[1]), int(w[2]), int(w[3])
            if rv != 0:
                return f"send {q} of peer {p} failed with {rv}: BUS send never blocks", got
            sent.add((p, q))
        elif w[0] == "got":
            if w[2] == "bad":
                return f"peer {w[1]} received a malformed message (body {w[3]} bytes, header {w[4]} bytes)", got
            p, o, q = int(w[1]), int(w[2]), int(w[3])
            got += 1
            if o == p:
                return f"message {q} was delivered back to peer {p}, which sent it", got
            if mode == "bridge" and side(o) == side(p):
                return f"message {q} of peer {o} reached peer {p} on the same side of the device", got
            if (o, q) not in sent:
                return f"peer {p} received message {q} of peer {o}, which was never sent", got
            if (p, o, q) in seen:
                return f"peer {p} received message {q} of peer {o} twice", got
            if last.get((p, o), -1) > q:
                return f"peer {p} received the messages of peer {o} out of order", got
            seen.add((p, o, q)); last[(p, o)] = q
    return None, got


def run_real(tier, seed, only=None):
    exe = build.harness("r_busdev", ["r_busdev.c"])
    cfgs = [only] if only else real_configs(tier, seed)

    def work(args):
        r = core.run_stream([exe] + args, "", env=build.env(), timeout=120)
        if r.rc != 0:
            return args, f"exit code {r.rc}: " + r.err[-1500:], 0, r.lines
        clause, got = real_judge(args, r.lines)
        return args, clause, got, r.lines
    return core.parallel_map(work, cfgs)


def run(tier, seed, replay=None):
    t0 = time.time()
    v = core.Verdict(PROP, seed)
    core.clear_replays(PROP)
    st = lean.prepare(MODULES)
    core.log(PROP, f"lean: {len(st.discharged)}/{len(st.theorems)} theorems re-checked; extract {st.extract_count} constants "
                   f"(changed: {st.extract_changed}); {st.build_s:.1f}s")
    try:
        exe = sim.build_sim("s_proto", ["s_proto.c"])
    except build.BuildError as e:
        v.violation("build", {"kind": "build", "error": str(e), "log": e.log[-4000:]}, no_input=True)
        core.write_evidence(PROP, tier, seed, "proof", {"obligations": max(1, len(st.theorems)), "discharged": 0, "checker_cmd": "lake build",
                            "trusted_base": [], "explanation": "implementation or harness does not build"}, [], time.time() - t0, 1)
        return v.finish()
    n = 2000 if tier == "quick" else 20000
    scheds = (1, 2, 3) if tier == "quick" else tuple(range(1, 11))
    if replay and "real_args" in json.load(open(replay)):
        real = run_real(tier, seed, json.load(open(replay))["real_args"])
        for args, clause, got, lines in real:
            core.log(PROP, f"real {' '.join(args)}: {clause or 'ok'} ({got} deliveries)")
            if clause:
                v.violation("real-replay", {"kind": "REAL device scenario", "real_args": args, "clause": clause, "trace": lines[-40:]})
        return v.finish()
    if replay:
        rp = json.load(open(replay))
        ops = rp["ops"]
        if ops and ops[0].startswith("sched"):
            scheds = (int(ops[0].split()[1]),)
            ops = ops[1:]
        allc = [ops]
    else:
        allc = corpus_cases() + [gen_case(seed, tier, i) for i in range(n)]
    res = run_bus(allc, exe, st.driver_ok, st.driver_ok, scheds)
    found_input = False
    for c in res.crashes[:2]:
        if c["rc"] == 0:
            continue
        ops = minimise(exe, None, c["ops"], False)
        v.violation(f"crash-{c['case']}", {"kind": "crash / sanitizer report / deadlock of the implementation under the simulated platform",
                    "ops": ops, "rc": c["rc"], "last_output": c["last"], "stderr": c["stderr"]})
        found_input = True
    # one replay per distinct clause (numbers abstracted), at most three
    by_clause = {}
    for jv in res.judge_viol:
        by_clause.setdefault(re.sub(r"\d+", "N", jv["clause"]), jv)
    for jv in list(by_clause.values())[:3]:
        ops = minimise(exe, JUDGE, jv["ops"], True, same_clause=re.sub(r"\d+", "N", jv["clause"]))
        impl, il, verdicts, leaked = run_one(exe, JUDGE, ops, True)
        v.violation(f"judge-{jv['case']}-s{jv['sched']}", {"kind": "implementation trace violates the C09 trace predicate (Spec/Bus.lean)",
                    "clause": next((x[10:] for x in verdicts if x.startswith("VIOLATION")), jv["clause"]),
                    "ops": ops, "impl": il, "judge": verdicts, "leak_reported": leaked})
        found_input = True
    for lk in res.leaks[:1]:
        ops = minimise(exe, None, lk["ops"], False, leak=True)
        v.violation(f"leak-{lk['case']}", {"kind": "message ownership: LeakSanitizer reports memory lost by the implementation (C03 clause of C09)",
                    "ops": ops, "stderr": lk["stderr"]})
        found_input = True
    real = [] if replay else run_real(tier, seed)
    real_bad = [x for x in real if x[1]]
    real_got = sum(x[2] for x in real)
    for args, clause, got, lines in real_bad[:1]:
        v.violation("real-" + args[0], {"kind": "REAL end-to-end scenario (cooked BUS peers through nng_device over inproc) violates C09",
                    "real_args": args, "clause": clause, "trace": lines[-40:]})
        found_input = True
    if real and not real_bad and real_got == 0:
        v.violation("real-vacuous", {"kind": "REAL device scenario delivered nothing (vacuous)", "configs": [x[0] for x in real]}, no_input=True)
    core.log(PROP, f"real device scenarios {len(real)}: violations {len(real_bad)}, deliveries {real_got}")
    core.log(PROP, f"cases {res.cases} runs {res.runs} ops {res.ops}; judge violations {len(res.judge_viol)}, "
                   f"model mismatches {len(res.model_mismatch)}, crashes {len(res.crashes)}, leaks {len(res.leaks)}, "
                   f"model traces rejected by the judge {len(res.judge_model)}")
    if not found_input:
        if res.model_mismatch:
            mm = res.model_mismatch[0]
            ops = minimise(exe, MODEL, mm["ops"], False)
            impl, il, ml, _ = run_one(exe, MODEL, ops)
            v.violation("corr-bus", {"kind": "correspondence broken: implementation differs from the Lean model the C09 theorems are about "
                        "(no trace violating the property predicate was found)", "correspondence": "bus-model vs s_proto",
                        "ops": ops, "impl": il, "model": ml, "mismatching_runs": len(res.model_mismatch)}, no_input=True)
        if res.judge_model:
            jm = res.judge_model[0]
            v.violation("judge-vs-model", {"kind": "the C09 trace predicate rejects a trace of the Lean model (specification and model disagree; "
                        "no implementation trace violating the predicate was found)", "correspondence": "bus-judge vs bus-model",
                        "clause": jm["clause"], "ops": jm["ops"], "op_index": jm["op_index"], "model": jm["model"]}, no_input=True)
        if not st.ok:
            v.violation("proof", {"kind": "proof obligation no longer checks", "broken": st.broken, "log": st.log[-3000:]}, no_input=True)
    cov = {"obligations": len(st.theorems), "discharged": len(st.discharged),
           "checker_cmd": "lake build NngModel.Props.C09 && lake env lean <#print axioms for each theorem>",
           "trusted_base": ["Lean 4.33.0 kernel", "axioms: " + ", ".join(sorted({a for x in st.axioms.values() if x for a in x})),
                            "vlib/extract.py + extract_c09.py (constants)", "harness/simplat.c (scheduler, virtual clock), mocktran.c (transport contract), s_proto.c",
                            "vlib/props/c09.py (diff, pipe-id canonicalisation, order of events within a quiescent batch)", "gcc ASan/UBSan/LSan"],
           "theorems": st.discharged, "axioms": st.axioms, "broken": st.broken,
           "evaluations": res.runs, "distinct_nontrivial": len({tuple(o) for o in allc if len(o) > 4}),
           "rule": "event histories for one BUS socket, cooked (even i) or raw (odd i), 8-60 events: 0-4 peers added/dropped at any time, sends in "
                   "all modes (nb/inf/def/0/ms) without header, with a header naming a pipe (@k), with short or foreign headers; arrivals and "
                   "receive errors per pipe, transport send completions ok/err, receives in all modes, cancel/abort, virtual-time advance, "
                   "send-buffer/recv-buffer 1-4 (and out-of-range) resizes, getopt, poll, pipe_id probes, close; from splitmix64(seed,C09,tier,i), "
                   f"each run under {len(scheds)} schedule seeds; distinct = distinct op lists longer than 4",
           "schedules_per_case": len(scheds), "ops": res.ops, "op_histogram": res.op_hist, "event_histogram": res.ev_hist,
           "samples": [allc[0], allc[-1]], "judge_violations": len(res.judge_viol), "model_mismatches": len(res.model_mismatch),
           "crashes": len(res.crashes), "leaks": len(res.leaks), "judge_rejects_model": len(res.judge_model),
           "real_scenarios": len(real), "real_deliveries": real_got, "real_violations": len(real_bad), "extract_changed": st.extract_changed}
    core.write_evidence(PROP, tier, seed, "proof", cov,
                        ["protocol callbacks are atomic under the protocol mutex (SIM still interleaves their unlocked tails)",
                         "the mock transport honours the transport contract of the real transports",
                         "bodies are pairwise distinct within a case, so the judge can identify messages by content",
                         "live pipes have pairwise distinct non-zero ids (core/pipe.c id map); real ids are mapped to canonical ones for the model diff",
                         "allocation failure inside nni_lmq_resize / nni_msg_unique is not modelled",
                         "REAL device scenarios (bridge and reflector over inproc) are judged by a Python predicate, not by the Lean judge"],
                        time.time() - t0, len(v.violations))
    return v.finish()
