"""C17 — nng_msg behaves as two byte strings.  UNIT executor over the public message API."""
import re, time, os, json
from .. import core, build, lean, unit

PROP = "C17"
MODULES = ["NngModel.Props.C17"]
SIZES = [0, 1, 2, 3, 4, 7, 8, 9, 15, 16, 24, 31, 32, 33, 40, 63, 64, 65, 100, 125, 126, 127, 128, 255, 256,
         511, 512, 1000, 1023, 1024, 1025, 2047, 2048, 2049, 4095, 4096, 4097, 8192, 65535, 65536, 65537]
SMALL = [0, 1, 2, 3, 4, 5, 7, 8, 9, 12, 16, 20, 31, 32, 33, 34, 40, 48, 63, 64, 65]


def size(r, big_ok=True):
    k = r.below(10)
    if k < 4:
        return r.choice(SMALL)
    if k < 7 and big_ok:
        return r.choice(SIZES)
    if k < 9:
        return r.range(0, 80)
    return r.range(0, 3000) if big_ok else r.range(0, 200)


def gen_case(r, maxops, allow_fail):
    ops = []
    live = set()
    lens = {}  # approximate body length tracker for poke targeting (exact when ops succeed)

    def alloc(i):
        sz = size(r)
        ops.append(f"alloc {i} {sz} {r.range(1, 255)}")
        live.add(i)
        lens[i] = sz

    alloc(0)
    n = r.range(5, maxops)
    while len(ops) < n:
        if allow_fail and r.chance(1, 25):
            ops.append("fail")
        k = r.below(100)
        if not live or k < 4:
            alloc(r.below(4))
            continue
        i = r.choice(sorted(live))
        if k < 8:
            d = r.below(4)
            ops.append(f"dup {d} {i}")
            live.add(d); lens[d] = lens.get(i, 0)
        elif k < 10 and len(live) > 1:
            ops.append(f"free {i}"); live.discard(i)
        elif k < 24:
            b = r.bytes(size(r, big_ok=r.chance(1, 4)))
            ops.append(f"{i} append {core.hexs(b)}"); lens[i] = lens.get(i, 0) + len(b)
        elif k < 42:
            b = r.bytes(size(r, big_ok=r.chance(1, 4)))
            ops.append(f"{i} insert {core.hexs(b)}"); lens[i] = lens.get(i, 0) + len(b)
        elif k < 50:
            L = lens.get(i, 0)
            nn = r.choice([0, 1, L, L + 1, max(0, L - 1), r.range(0, L + 3), r.range(0, max(1, L))])
            ops.append(f"{i} trim {nn}"); lens[i] = L - nn if nn <= L else L
        elif k < 58:
            L = lens.get(i, 0)
            nn = r.choice([0, 1, L, L + 1, max(0, L - 1), r.range(0, L + 3), r.range(0, max(1, L))])
            ops.append(f"{i} chop {nn}"); lens[i] = L - nn if nn <= L else L
        elif k < 62:
            w = r.choice([2, 4, 8]); v = r.next() % (256 ** w)
            ops.append(f"{i} append_u {w} {v}"); lens[i] = lens.get(i, 0) + w
        elif k < 66:
            w = r.choice([2, 4, 8]); v = r.next() % (256 ** w)
            ops.append(f"{i} insert_u {w} {v}"); lens[i] = lens.get(i, 0) + w
        elif k < 69:
            w = r.choice([2, 4, 8])
            ops.append(f"{i} trim_u {w}")
            if lens.get(i, 0) >= w: lens[i] -= w
        elif k < 72:
            w = r.choice([2, 4, 8])
            ops.append(f"{i} chop_u {w}")
            if lens.get(i, 0) >= w: lens[i] -= w
        elif k < 77:
            nn = size(r); ops.append(f"{i} realloc {nn} {r.range(1, 255)}"); lens[i] = nn
        elif k < 80:
            ops.append(f"{i} reserve {size(r)}")
        elif k < 82:
            ops.append(f"{i} clear"); lens[i] = 0
        elif k < 85:
            L = lens.get(i, 0)
            if L > 0:
                off = r.range(0, L - 1); ln = r.range(0, min(16, L - off))
                ops.append(f"{i} poke {off} {core.hexs(r.bytes(ln))}")
        elif k < 88:
            ops.append(f"{i} hdr_append {core.hexs(r.bytes(r.choice([0, 1, 4, 8, 12, 60, 63, 64, 65, r.range(0, 70)])))}")
        elif k < 91:
            ops.append(f"{i} hdr_insert {core.hexs(r.bytes(r.choice([0, 1, 4, 8, 12, 60, 63, 64, 65, r.range(0, 70)])))}")
        elif k < 93:
            ops.append(f"{i} hdr_trim {r.choice([0, 1, 4, 8, 64, 65, r.range(0, 70)])}")
        elif k < 95:
            ops.append(f"{i} hdr_chop {r.choice([0, 1, 4, 8, 64, 65, r.range(0, 70)])}")
        elif k < 96:
            w = r.choice([2, 4, 8]); ops.append(f"{i} hdr_append_u {w} {r.next() % (256 ** w)}")
        elif k < 97:
            w = r.choice([2, 4, 8]); ops.append(f"{i} hdr_insert_u {w} {r.next() % (256 ** w)}")
        elif k < 98:
            ops.append(f"{i} hdr_trim_u {r.choice([2, 4, 8])}")
        elif k < 99:
            ops.append(f"{i} hdr_chop_u {r.choice([2, 4, 8])}")
        else:
            ops.append(f"{i} hdr_clear")
    return ops


def directed_cases():
    """hand-picked boundary cases: every insert path with data present at a non-zero offset."""
    cs = []
    for sz in [0, 1, 10, 31, 32, 33, 100, 1024, 2048]:
        for ins in [1, 8, 31, 32, 33, 40, 64, 100]:
            cs.append([f"alloc 0 {sz} 170", f"0 insert {'5a' * ins}", "0 trim_u 4", f"0 insert {'3c' * ins}",
                       f"0 append {'77' * ins}", f"0 insert {'11' * (ins + 7)}", "dup 1 0", "1 clear",
                       "1 append 0102", f"0 chop {ins}"])
    # trim to non-zero offset, then regrow
    for sz in [64, 100, 1024]:
        cs.append([f"alloc 0 {sz} 9", "0 trim 50", f"0 append {'ab' * 200}", f"0 insert {'cd' * 90}",
                   "0 reserve 5000", f"0 insert {'ef' * 10}", "0 realloc 7000 3", "0 realloc 3 1"])
    return cs


def strip_model_fields(l):
    # drop cap= and al= and UNSAFE for the spec projection
    return " ".join(w for w in l.split() if not (w.startswith("cap=") or w.startswith("al=") or w == "UNSAFE"))


def spec_rewrite(ops, impl_lines):
    """ops on which the implementation returned NNG_ENOMEM (2) are no-ops for the specification"""
    out = []
    for op, l in zip(ops, impl_lines):
        if l.split()[0:1] == ["2"]:
            w = op.split()
            out.append("enomem" if w[0] in ("alloc", "dup") else f"enomem {w[0]}")
        else:
            out.append(op)
    out.extend(ops[len(impl_lines):])
    return out


def judge(ops, impl_lines):
    # NNG_ENOMEM only when an allocation failure was injected just before
    for k, (op, l) in enumerate(zip(ops, impl_lines)):
        if l.split()[0:1] == ["2"] and (k == 0 or ops[k - 1] != "fail"):
            return f"NNG_ENOMEM without an allocation failure on `{op}`"
    # capacity never below length (judged directly on the implementation's outputs)
    for op, l in zip(ops, impl_lines):
        m = re.search(r" b=(\d+):\S+ cap=(\d+)", l)
        if m and int(m.group(2)) < int(m.group(1)):
            return f"capacity {m.group(2)} < length {m.group(1)} after `{op}`"
        if op.split()[1:2] == ["reserve"] and l.startswith("0 ") and m and int(m.group(2)) < int(op.split()[2]):
            return f"capacity {m.group(2)} < reserved {op.split()[2]} after `{op}`"
    return None


def run(tier, seed, replay=None):
    t0 = time.time()
    v = core.Verdict(PROP, seed)
    core.clear_replays(PROP)
    st = lean.prepare(MODULES)
    core.log(PROP, f"lean: {len(st.discharged)}/{len(st.theorems)} theorems re-checked; extract {st.extract_count} constants "
                   f"(changed: {st.extract_changed}); {st.build_s:.1f}s")
    try:
        exe = build.harness("u_msg", ["u_msg.c"])
    except build.BuildError as e:
        path = v.violation("build", {"kind": "build", "error": str(e), "log": e.log[-4000:]}, no_input=True)
        core.write_evidence(PROP, tier, seed, "proof", {"obligations": len(st.theorems), "discharged": 0,
                            "checker_cmd": "lake build", "trusted_base": [], "explanation": "implementation or harness does not build"},
                            [], time.time() - t0, 1)
        return v.finish()
    ncases = 3000 if tier == "quick" else 60000
    if replay:
        rp = json.load(open(replay))
        cases = [rp["ops"]] if "ops" in rp else []
        ncases = 0
    else:
        cases = directed_cases()
        corpus = os.path.join(core.HERE, "corpus", PROP)
        if os.path.isdir(corpus):
            for f in sorted(os.listdir(corpus)):
                cases.append([l.strip() for l in open(os.path.join(corpus, f)) if l.strip() and not l.startswith("#")])
        for i in range(ncases):
            r = core.Rng(seed, PROP, tier, i)
            cases.append(gen_case(r, 60, allow_fail=(i % 3 == 0)))
    res = None
    if st.driver_ok:
        res = unit.run_unit(PROP, cases, exe, "msg-spec", "msg-model", strip_model_fields, judge=judge,
                            spec_rewrite=spec_rewrite)
    else:
        res = unit.run_unit(PROP, cases, exe, None, None, strip_model_fields, judge=judge)
    core.log(PROP, f"cases {res.cases} ops {res.ops}; spec mismatches {len(res.spec_mismatch)}, model mismatches "
                   f"{len(res.model_mismatch)}, crashes {len(res.crashes)}")
    # ---- verdict
    found_input = False
    for c in res.crashes[:3]:
        ops = unit.minimise(exe, "msg-spec", c["ops"], strip_model_fields)
        v.violation(f"crash-{c['case']}", {"kind": "sanitizer/crash on the implementation", "ops": ops, "rc": c["rc"],
                                           "stderr": c["stderr"]})
        found_input = True
    for mm in res.spec_mismatch[:3]:
        ops = unit.minimise(exe, "msg-spec", mm["ops"], strip_model_fields, spec_rewrite=spec_rewrite) if mm["spec"] != "judge" else mm["ops"]
        s = unit.single(exe, "msg-spec", None, ops, spec_rewrite=spec_rewrite)
        v.violation(f"spec-{mm['case']}", {"kind": "implementation output differs from the two-byte-strings specification",
                                           "ops": ops, "impl": s["impl"].lines, "spec": s["spec"].lines,
                                           "first": {k: mm[k] for k in ("impl", "spec", "op_index")}})
        found_input = True
    if not found_input:
        if res.model_mismatch:
            mm = res.model_mismatch[0]
            ops = unit.minimise(exe, "msg-model", mm["ops"], lambda l: l)
            s = unit.single(exe, None, "msg-model", ops)
            v.violation("corr", {"kind": "correspondence broken: implementation differs from the Lean model the C17 theorems are about "
                                         "(no input violating the specification was found)",
                                 "correspondence": "msg-model vs u_msg", "ops": ops, "impl": s["impl"].lines,
                                 "model": s["model"].lines, "mismatching_cases": len(res.model_mismatch)}, no_input=True)
        if not st.ok:
            v.violation("proof", {"kind": "proof obligation no longer checks", "broken": st.broken,
                                  "log": st.log[-3000:]}, no_input=True)
    distinct = len({tuple(c) for c in cases if len(c) > 3})
    cov = {
        "obligations": len(st.theorems), "discharged": len(st.discharged),
        "checker_cmd": "lake build NngModel.Props.C17 && lake env lean <#print axioms for each theorem>",
        "trusted_base": ["Lean 4.33.0 kernel", "axioms: " + ", ".join(sorted({a for x in st.axioms.values() if x for a in x})),
                         "vlib/extract.py (constants)", "harness/u_msg.c + vlib/unit.py (correspondence)",
                         "gcc ASan/UBSan as the out-of-bounds detector on the implementation"],
        "theorems": st.discharged, "axioms": st.axioms, "broken": st.broken,
        "evaluations": res.cases, "distinct_nontrivial": distinct,
        "rule": "operation sequences (5-60 ops over 4 message slots, sizes from a boundary palette) from splitmix64(seed,C17,tier,i) "
                "plus directed insert-path cases and corpus; distinct = distinct op lists with more than 3 ops",
        "ops": res.ops, "op_histogram": res.op_hist, "rv_histogram": res.rv_hist,
        "samples": [cases[0], cases[len(cases) // 2], cases[-1]],
        "spec_mismatches": len(res.spec_mismatch), "model_mismatches": len(res.model_mismatch), "crashes": len(res.crashes),
        "extract_changed": st.extract_changed,
    }
    core.write_evidence(PROP, tier, seed, "proof", cov,
                        ["the Lean model Model/Msg.lean mirrors message.c; tie = differential execution on the cases above",
                         "allocation failure is injected through nni_alloc_set"], time.time() - t0, len(v.violations))
    return v.finish()
