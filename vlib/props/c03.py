"""C03 — message ownership, memory safety and no leaks (API-visible clauses, all protocols)."""
import json
from .. import generic
from . import c03_options

PROP = "C03"
MODULES = ["NngModel.Props.C03", "NngModel.Props.C03Options"]


def augment(r, ops):
    out = [o for o in ops]
    out.append("fini")
    return out


# per-protocol ghost-ownership theorems (every offered message is accepted, returned with the error, parked,
# on the wire, queued or released - exactly one of them) proved over all histories in the protocol files
EXTRA = {
    "NngModel.Props.C06": ["Nng.C06.push_conservation", "Nng.C06.push_offered_partition", "Nng.C06.push_offered_exactly_once",
                           "Nng.C06.push_completion_msgback", "Nng.C06.pull_conservation", "Nng.C06.pull_exactly_once"],
    "NngModel.Props.C09": ["Nng.C09.B7_send_accounted", "Nng.C09.B7_closed_pipe_empty"],
    "NngModel.Props.C12": ["Nng.C12.ownership", "Nng.C12.ownership_while_outstanding", "Nng.C12.ownership_after_release"],
    "NngModel.Props.C08": ["Nng.C08.a5_every_send_accounted"],
    "NngModel.Props.C05": ["Nng.C05.X1_arrivals_accounted"],
    "NngModel.Props.C02": ["Nng.Props.C02.freed_nothing_references"],
    "NngModel.Props.C17": ["Nng.C17.every_run_is_two_strings", "Nng.C17.dup_equal"],
}


def run(tier, seed, replay=None):
    if replay and json.load(open(replay)).get("sub") == c03_options.SUB:
        return c03_options.run(tier, seed, replay)
    return generic.run_generic(PROP, MODULES, "own-judge", tier, seed, replay, augment, 1500, 30000,
                               "event histories of every modelled protocol (providers in vlib/protos.py) ending with `fini` (close everything, nng_fini, "
                               "accounting-allocator balance); ASan/UBSan/LSan build; judged by Spec/Generic.lean ownStep; " + c03_options.RULE, extra=EXTRA,
                               parts=[("options_part", c03_options.run_part)])
