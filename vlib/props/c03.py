"""C03 — message ownership, memory safety and no leaks (API-visible clauses, all protocols)."""
from .. import generic

PROP = "C03"
MODULES = ["NngModel.Props.C03"]


def augment(r, ops):
    out = [o for o in ops]
    out.append("fini")
    return out


def run(tier, seed, replay=None):
    return generic.run_generic(PROP, MODULES, "own-judge", tier, seed, replay, augment, 1500, 30000,
                               "event histories of every modelled protocol (providers in vlib/protos.py) ending with `fini` (close everything, nng_fini, "
                               "accounting-allocator balance); ASan/UBSan/LSan build; judged by Spec/Generic.lean ownStep")
