"""C02 — asynchronous operations complete exactly once.

SIM executor (harness/s_aio.c): ONE user-visible nng_aio; scenario programs (concurrent actors:
submit / provider completion / cancel / abort / close / stop / wait / free / time) against a generic
provider written with the public API, and against real providers (nng_sleep_aio, PULL/PUSH socket
receive/send over the mock transport, nng_dialer_start_aio), each under many schedules (seeded
random walk, round-robin, delay-bounded).  Every trace is (a) judged by the Lean monitor
(Spec/Aio.lean, `aio-judge`) => VIOLATION with replay, and (b) for the generic provider, replayed
against the Lean model as an acceptor (`aio-accept`, trace inclusion) => correspondence."""
import os, time, json
from .. import core, build, lean, sim, extract

PROP = "C02"
MODULES = ["NngModel.Props.C02", "NngModel.Props.C02Expire", "NngModel.Props.C02Completions", "NngModel.Props.C02Taskq"]
TMO = ["5", "11", "21", "inf", "inf", "def", "0"]
ODD = [5, 11, 21, 31]
EVEN = [2, 6, 12, 22, 40]
ABRV = [7, 3, 20, 31]
CMPRV = [0, 0, 0, 7, 19]

SIGNATURES = [
    # (key, kinds, clause prefix)
    ("F14-stale-expiry-times-out-next-operation", None, "timeout: NNG_ETIMEDOUT before the configured duration"),
    ("C02-abort-overwrites-result-of-completed-operation", None, "result:"),
    ("F6-dialer-start-aio-completes-refused-aio-twice", ("dial",), "exactly-once: callback without a pending operation"),
]


F18 = "F18-operation-parked-on-closing-socket"


class Case:
    def __init__(self, kind="g", cb=None, actors=None, tag="", karg=0):
        self.kind, self.cb, self.actors, self.tag, self.karg = kind, cb, actors or [], tag, karg

    def lines(self, sched):
        out = [sched, f"setup {self.kind}" + (f" {self.karg}" if self.karg else "")]
        if self.cb:
            out.append(f"cb {self.cb[0]} {self.cb[1]}")
        for name, ops in self.actors:
            if ops:
                out.append("A " + name + " " + " ".join(ops[:13]))  # (the line reader takes 16 words)
        out.append("run")
        return out

    def key(self):
        return (self.kind, self.karg, self.cb, tuple((n, tuple(o)) for n, o in self.actors))

    def nops(self):
        return sum(len(o) for _, o in self.actors)


def racers(r, c, allow_user_side=True, n=None):
    """actors racing with the submitting actor U; returns names of user-side ones (must be joined before free)"""
    user_side = []
    n = r.range(1, 3) if n is None else n
    names = []
    for _ in range(n):
        k = r.weighted([("C", 5), ("B", 4), ("V", 4), ("S", 2 if allow_user_side else 0), ("K", 1 if allow_user_side else 0)])
        if k in names:
            continue
        names.append(k)
        pre = ["y"] * r.below(4)
        if k == "C":
            ops = pre + [f"cmp:{r.choice(CMPRV)}"]
            if r.chance(1, 3):
                ops += ["y"] * r.below(3) + [f"cmp:{r.choice(CMPRV)}"]
        elif k == "B":
            ops = pre + [r.choice([f"abt:{r.choice(ABRV)}", "can"])]
            if r.chance(1, 4):
                ops += ["y", f"abt:{r.choice(ABRV)}"]
            user_side.append(k)
        elif k == "V":
            ops = pre + [f"adv:{r.choice(EVEN)}"]
            if r.chance(1, 2):
                ops += ["y"] * r.below(3) + [f"adv:{r.choice(EVEN)}"]
        elif k == "S":
            ops = pre + ["stp"]
            user_side.append(k)
        else:
            ops = pre + ["cls"]
            user_side.append(k)
        c.actors.append((k, ops))
    return user_side


def gen_generic(r, i):
    c = Case("g")
    fam = r.weighted([("basic", 8), ("sleep", 3), ("direct", 2), ("abs", 2), ("free", 4)])
    c.tag = fam
    u = []
    if fam in ("basic", "free", "abs"):
        if r.chance(1, 2):
            c.cb = (r.range(1, 2), "sub")
        rounds = 1 if fam == "free" else r.range(1, 2)
        for k in range(rounds):
            if fam == "abs" and k == 0:
                u.append(f"ex:{r.choice(ODD)}")
            else:
                u.append(f"to:{r.choice(TMO)}")
            u.append("sub")
            if k + 1 < rounds or fam != "free":
                u.append("wt")
    elif fam == "sleep":
        if r.chance(1, 3):
            c.cb = (1, f"slp:{r.choice(ODD)}")
        # (never a zero timeout with a sleep: nni_sleep_aio then parks with a_expire == now and the
        #  expire thread spins until the clock moves, which virtual time never does by itself)
        u += [f"to:{r.choice([t for t in TMO if t != '0'])}", f"slp:{r.choice(ODD)}", "wt"]
    else:
        if r.chance(1, 2):
            u.append("skip")
        u += [f"subi:{r.choice(CMPRV)}", "wt"]
        if r.chance(1, 2):
            u += [f"to:{r.choice(TMO)}", "sub", "wt"]
    us = racers(r, c, allow_user_side=True)
    if fam == "free":
        u += [f"jn:{x}" for x in us] + ["y"] * r.below(3) + ["fre"]
    elif r.chance(1, 4):
        u += ["stp"] if "S" not in [n for n, _ in c.actors] else []
    c.actors.insert(0, ("U", u[:13]))
    return c


def gen_ext(r, i):
    fam = r.weighted([("pull", 5), ("push", 3), ("dial", 3)])
    c = Case(fam, tag=fam)
    if fam == "pull":
        if r.chance(2, 3):
            c.cb = (r.range(1, 2), "rcv")
        u = [f"to:{r.choice(['5', '11', '21', 'inf', 'def'])}", "rcv", "wt"]
        d = ["y"] * r.below(4) + [r.choice(["mrecv", "mrecv", "mrecverr:7"])]
        if r.chance(1, 2):
            d += ["y"] * r.below(3) + ["mrecv"]
        c.actors = [("U", u), ("D", d)]
    elif fam == "push":
        if r.chance(1, 2):
            c.cb = (1, "snd")
        u = [f"to:{r.choice(['5', '11', 'inf', 'def'])}", "snd", "wt"]
        d = ["y"] * r.below(4) + [f"msend:{r.choice([0, 0, 7])}"]
        if r.chance(1, 2):
            d += ["y"] * r.below(3) + ["msend:0"]
        c.actors = [("U", u), ("D", d)]
    else:
        pre = r.choice([["stp"], ["to:0"], [], ["to:11"], ["cls"]])
        u = pre + ["dial", "wt"]
        d = ["y"] * r.below(4) + [f"mconn:{r.choice([6, 6, 19, 7])}"]
        c.actors = [("U", u), ("D", d)]
    for _ in range(r.range(0, 2)):
        k = r.weighted([("B", 3), ("V", 4), ("S", 2), ("K", 1 if fam != "dial" else 0)])
        if k in [n for n, _ in c.actors]:
            continue
        pre = ["y"] * r.below(4)
        if k == "B":
            c.actors.append(("B", pre + [r.choice(["can", f"abt:{r.choice(ABRV)}"])]))
        elif k == "V":
            c.actors.append(("V", pre + [f"adv:{r.choice(EVEN)}"] + (["y", f"adv:{r.choice(EVEN)}"] if r.chance(1, 2) else [])))
        elif k == "S":
            c.actors.append(("S", pre + ["stp"]))
        else:
            c.actors.append(("K", pre + ["sclose"]))
    return c


def gen_idle(r, i):
    """cancel/abort of an IDLE aio between operations (a documented no-op): the next operation that has to
    wait must not inherit it; operations that complete at once in between must not matter"""
    fam = r.weighted([("g", 4), ("sleep", 2), ("pull", 2), ("push", 1)])
    idle = lambda: [r.choice(["can", "abt:7", "abt:3"])] + (["can"] if r.chance(1, 4) else [])
    if fam == "g":
        c = Case("g", tag="idle-g")
        first = r.choice([["to:0", "sub", "wt"], ["subi:0", "wt"], ["to:5", "sub", "wt"], ["to:inf", "sub", "wt"]])
        mid = r.choice([[], [], ["subi:0", "wt"], ["to:0", "sub", "wt"], ["skip", "subi:0"]])
        u = first + idle() + mid + [f"to:{r.choice(['5', '11', 'inf'])}", "sub", "wt"]
        c.actors = [("U", u[:13])]
        if r.chance(2, 3):
            c.actors.append(("C", ["y"] * r.below(3) + ["cmp:0"] + (["y"] * r.below(4) + ["cmp:0"] if r.chance(1, 2) else [])))
        if r.chance(1, 2):
            c.actors.append(("V", ["y"] * r.below(3) + [f"adv:{r.choice(EVEN)}"]))
    elif fam == "sleep":
        c = Case("g", tag="idle-sleep")
        u = [f"to:{r.choice(['inf', 'def', '21'])}", f"slp:{r.choice(ODD)}", "wt"] + idle() + \
            (["subi:0", "wt"] if r.chance(1, 3) else []) + [f"slp:{r.choice(ODD)}", "wt"]
        c.actors = [("U", u)]
        if r.chance(1, 2):
            c.actors.append(("V", ["y"] * r.below(3) + [f"adv:{r.choice(EVEN)}"]))
    elif fam == "pull":
        c = Case("pull", tag="idle-pull")
        u = [f"to:{r.choice(['5', '11'])}", "rcv", "wt"] + idle() + [f"to:{r.choice(['5', '11', '21'])}", "rcv", "wt"]
        c.actors = [("U", u), ("D", ["y"] * r.below(3) + ["mrecv"] + (["y"] * r.below(6) + ["mrecv"] if r.chance(1, 2) else []))]
    else:
        c = Case("push", tag="idle-push")
        u = ["nbsnd", f"to:{r.choice(['5', '11'])}", "snd", "wt"] + idle() + [f"to:{r.choice(['5', '11'])}", "snd", "wt"]
        c.actors = [("U", u), ("D", ["y"] * r.below(3) + ["msend:0"] + (["y"] * r.below(6) + ["msend:0"] if r.chance(1, 2) else []))]
    return c


def gen_lists(r, i):
    """providers that keep wait lists of aios: several waiters, several completions in a row, no resubmission
    in between (every waiter must complete exactly once and leave the list)"""
    fam = r.weighted([("pushbuf", 3), ("pushmany", 2), ("pullmany", 3)])
    if fam == "pushbuf":
        n = r.range(1, 2)
        c = Case("push", tag="pushbuf", karg=n)
        u = ["nbsnd"] * (n + 1) + (["xsnd:0"] if r.chance(1, 3) else []) + ["to:inf", "snd"] + (["xsnd:1"] if r.chance(1, 3) else []) + ["jn:D", "wt"]
        d = []
        for _ in range(r.range(2, 4)):
            d += ["y"] * r.below(3) + ["msend:0"]
        c.actors = [("U", u), ("D", d)]
    elif fam == "pushmany":
        c = Case("push", tag="pushmany", karg=r.choice([0, 0, 1]))
        u = ["nbsnd"] * (c.karg + 1) + ["xsnd:0", "xsnd:1", "to:inf", "snd", "jn:D", "wt"]
        d = []
        for _ in range(r.range(3, 5)):
            d += ["y"] * r.below(3) + ["msend:0"]
        c.actors = [("U", u), ("D", d)]
    else:
        c = Case("pull", tag="pullmany")
        u = r.choice([["xrcv:0", "xrcv:1", "to:inf", "rcv"], ["xrcv:0", "to:inf", "rcv", "xrcv:1"], ["to:inf", "rcv", "xrcv:0", "xrcv:1"]]) + ["jn:D", "wt"]
        d = []
        for _ in range(r.range(3, 5)):
            d += ["y"] * r.below(3) + ["mrecv"]
        c.actors = [("U", u), ("D", d)]
    if r.chance(1, 3):
        c.actors.append(("B", ["y"] * r.below(5) + ["can"]))
    return c


def gen_batch(r, i):
    """the aio under test SLEEPS and expires in the same pass of the expire thread as other operations that are not
    sleeps (auxiliary receives with the same deadline, started first: their cancel functions run with the queue lock
    dropped), while another thread cancels / aborts / closes it: the sleep must complete exactly once"""
    t = r.choice([5, 11, 21])
    c = Case("pull", tag="batch")
    # S submits everything (the auxiliary receives first: they stand in front of the sleep on the expire list) and ends;
    # B lets the deadline pass, yields a few times (the expire thread takes its batch and drops the lock for the first
    # cancel function) and then cancels the sleep; U waits for the outcome
    s_ = [f"xrcvt:0:{t}"] + ([f"xrcvt:1:{t}"] if r.chance(2, 3) else []) + [f"slp:{t}"]
    b = ["jn:S", f"adv:{t + r.choice([1, 1, 2])}"] + ["y"] * r.range(2, 8) + [r.choice(["can", "can", "abt:3", "cls"])]
    c.actors = [("S", s_), ("B", b), ("U", ["jn:B", "wt"])]
    return c


def gen_oneshot(r, i):
    """nng_aio_set_expire is one-shot (nni_aio_finish_impl clears a_use_expire): an operation that used an absolute
    expiry completes through the provider (or synchronously, or by its expiry), and the NEXT operation on the same aio is
    started WITHOUT configuring the timeout again - the relative timeout configured earlier must apply (this is what a
    user of surv0_ctx_recv does, which clamps the user's aio to the survey deadline with nni_aio_set_expire); virtual
    time then runs past that timeout.  A start that nni_aio_start refuses (expiry already passed, abort pending) does
    not consume the absolute expiry: the next start is governed by it again."""
    c = Case("g", tag="oneshot")
    t = r.choice(["5", "11", "21"])
    far = r.choice([31, 41, 51])
    fam = r.weighted([("cmp", 4), ("direct", 2), ("cb", 2), ("refused", 2), ("expired", 2)])
    c.tag = "oneshot-" + fam
    if fam == "cmp":
        own = r.chance(1, 2)
        u = [f"to:{t}", f"ex:{far}", "sub"] + (["cmp:0"] if own else []) + ["wt", "sub"] + (["jn:V"] if r.chance(1, 2) else []) + ["wt"]
        c.actors = [("U", u)]
        if not own:
            c.actors.append(("C", ["y"] * r.below(4) + [f"cmp:{r.choice(CMPRV)}"] + (["y"] * r.below(3) + ["cmp:0"] if r.chance(1, 3) else [])))
    elif fam == "direct":
        u = [f"to:{t}", f"ex:{far}"] + (["skip"] if r.chance(1, 3) else []) + [f"subi:{r.choice(CMPRV)}", "wt", "sub", "wt"]
        c.actors = [("U", u)]
    elif fam == "cb":
        # the callback of the operation that used the absolute expiry starts the next one
        c.cb = (r.range(1, 2), "sub")
        c.actors = [("U", [f"to:{t}", f"ex:{far}", "sub", "wt"]),
                    ("C", ["y"] * r.below(4) + ["cmp:0"] + (["y"] * r.below(4) + ["cmp:0"] if r.chance(1, 2) else []))]
    elif fam == "refused":
        # the expiry has passed when the operation starts: refused with NNG_ETIMEDOUT, twice (the flag is not consumed);
        # then a relative timeout again
        u = [f"to:{r.choice(['inf', t])}", "ex:5", "adv:6", "sub", "wt", "sub", "wt"] + ([f"to:{t}", "sub", "wt"] if r.chance(1, 2) else [])
        c.actors = [("U", u)]
    else:
        # the absolute expiry itself ends the first operation (cancel function -> nni_aio_finish)
        c.actors = [("U", [f"to:{t}", f"ex:{r.choice([5, 11])}", "sub", "wt", "sub", "wt"])]
    adv = []
    for _ in range(r.range(1, 3)):
        adv += ["y"] * r.below(3) + [f"adv:{r.choice(EVEN)}"]
    c.actors.append(("V", adv))
    if fam != "refused" and r.chance(1, 3):
        c.actors.append(("B", ["y"] * r.below(5) + [r.choice(["can", f"abt:{r.choice(ABRV)}"])]))
    return c


def gen_any(r, i):
    if i % 16 == 14:
        return gen_oneshot(r, i)
    if i % 16 == 6:
        return gen_batch(r, i)
    k = i % 8
    if k in (3, 7):
        return gen_ext(r, i)
    if k == 5:
        return gen_idle(r, i)
    if k == 1:
        return gen_lists(r, i)
    return gen_generic(r, i)


def corpus_cases():
    out = []
    d = os.path.join(core.HERE, "corpus", PROP)
    if os.path.isdir(d):
        for f in sorted(os.listdir(d)):
            if f.endswith(".json"):
                j = json.load(open(os.path.join(d, f)))
                c = Case(j.get("kind", "g"), tuple(j["cb"]) if j.get("cb") else None,
                         [(a[0], a[1]) for a in j["actors"]], tag="corpus:" + f, karg=j.get("karg", 0))
                out.append((c, j.get("scheds", [])))
    return out


def schedules(r, tier):
    """20 schedules per case: seeded random walks, round-robin, delay-bounded"""
    s = [f"sched {k} rw" for k in range(1, 11)] + ["sched 1 rr"]
    for _ in range(9):
        s.append(f"sched {r.range(1, 5)} rw {r.below(70)} {r.choice([10, 20, 40, 200])}")
    return s


def sweep_schedules():
    return [f"sched 1 rw {off} {ln}" for off in range(0, 120) for ln in (5, 20, 80, 300)]


def run_jobs(exe, jobs, accept_comp, timeout=150):
    """jobs: list of (case, sched).  Returns list of dict(trace, judge, accept, rc, err) aligned with jobs."""
    env = build.env()
    parts = core.chunked(list(enumerate(jobs)), max(core.NCPU * 2, (len(jobs) + 399) // 400))
    results = [None] * len(jobs)

    def work(part):
        # one process per run: the scheduler's choices depend on the thread table, so a run is
        # only reproducible (replay!) if it does not inherit the history of earlier cases
        traces, fails = {}, {}
        for k, (idx, (c, s)) in enumerate(part):
            impl = core.run_stream([exe], "\n".join(c.lines(s)) + "\nreset\n", env=env, timeout=60)
            cases, partial = core.split_cases(impl.lines)
            tl = [l for l in (cases[0] if cases else partial) if l not in ("ok", "bad-op")]
            if impl.rc != 0 or not cases:
                err = impl.err
                fails[k] = {"trace": " ".join(tl[-1:]), "judge": None, "accept": None, "rc": impl.rc if impl.rc != 0 else -1,
                            "err": (err[err.find("ERROR: AddressSanitizer"):] if "ERROR: AddressSanitizer" in err else err[-3000:])[:3000]}
            else:
                traces[k] = tl[-1] if tl else ""
        ks = sorted(traces)
        jl = core.run_stream(lean.driver_cmd("aio-judge"), "\n".join(traces[k] or "M end" for k in ks) + "\n").lines if ks else []
        jmap = dict(zip(ks, jl))
        gi = [k for k in ks if part[k][1][0].kind == "g"]
        al = core.run_stream(lean.driver_cmd(accept_comp), "\n".join(traces[k] or "M end" for k in gi) + "\n").lines if gi and accept_comp else []
        amap = dict(zip(gi, al))
        out = []
        for k, (idx, (c, s)) in enumerate(part):
            if k in fails:
                out.append((idx, fails[k]))
            else:
                out.append((idx, {"trace": traces[k], "judge": jmap.get(k, "?"), "accept": amap.get(k), "rc": 0}))
        return out

    pending = parts
    for _round in range(6):
        redo = []
        for out in core.parallel_map(work, pending):
            for idx, res in out:
                if res is None:
                    redo.append((idx, jobs[idx]))
                else:
                    results[idx] = res
        if not redo:
            break
        pending = core.chunked(redo, max(core.NCPU * 2, (len(redo) + 399) // 400))
    return results


def c_has_prefix(items, prefix):
    return any(r["judge"].startswith("VIOLATION " + prefix) for _, _, r in items)


def classify(case, clause, fix_abort=True):
    if not fix_abort and clause.startswith("quiescence: callback with a result other than NNG_ESTOPPED") and case.kind == "g":
        # the same defect seen after a stop: the refused start's NNG_ESTOPPED is overwritten by a late abort
        return SIGNATURES[1][0]
    if clause.startswith("cancel: code"):
        return "cancel-code-without-cancel-during-the-operation"
    for key, kinds, prefix in SIGNATURES:
        if clause.startswith(prefix) and (kinds is None or case.kind in kinds):
            return key
    return None


def minimise(exe, case, scheds, want_prefix, budget_s=40):
    """greedy removal of ops/actors; a candidate is kept if some schedule still shows the same clause"""
    t0 = time.time()

    def shows(c):
        res = run_jobs(exe, [(c, s) for s in scheds], None)
        for (cc, s), r in zip([(c, s) for s in scheds], res):
            if r and r["rc"] == 0 and r["judge"] and r["judge"].startswith("VIOLATION " + want_prefix):
                return s, r
        return None

    best = shows(case)
    if not best:
        return case, None, None
    changed = True
    while changed and time.time() - t0 < budget_s:
        changed = False
        for ai in range(len(case.actors)):
            name, ops = case.actors[ai]
            for oi in range(len(ops)):
                if name == "U" and ops[oi] != "y":
                    continue  # (removing waits/joins of the submitting actor would break the user contract)
                cand = Case(case.kind, case.cb, [(n, list(o)) for n, o in case.actors], case.tag, case.karg)
                del cand.actors[ai][1][oi]
                got = shows(cand)
                if got:
                    case, best, changed = cand, got, True
                    break
            if changed or time.time() - t0 > budget_s:
                break
    return case, best[0], best[1]


def run(tier, seed, replay=None):
    t0 = time.time()
    v = core.Verdict(PROP, seed)
    core.clear_replays(PROP)
    st = lean.prepare(MODULES)
    core.log(PROP, f"lean: {len(st.discharged)}/{len(st.theorems)} theorems re-checked; extract {st.extract_count} constants "
                   f"(changed: {st.extract_changed}); {st.build_s:.1f}s")
    if replay and json.load(open(replay)).get("sub") == "expire":
        from . import c02_expire
        ecov, eviol = c02_expire.run_part(tier, seed, st, json.load(open(replay)), batch=extract.generate()[0]["expireBatch"][0])
        for tag, payload, no_input in eviol:
            v.violation(tag, payload, no_input=no_input)
        return v.finish()
    if replay and json.load(open(replay)).get("sub") == "taskq":
        from . import c02_taskq
        tcov, tviol = c02_taskq.run_part(tier, seed, st, replay)
        for tag, payload, no_input in tviol:
            v.violation(tag, payload, no_input=no_input)
        return v.finish()
    try:
        exe = sim.build_sim("s_aio", ["s_aio.c"])
    except build.BuildError as e:
        v.violation("build", {"kind": "build", "error": str(e), "log": e.log[-4000:]}, no_input=True)
        core.write_evidence(PROP, tier, seed, "proof", {"obligations": max(1, len(st.theorems)), "discharged": 0, "checker_cmd": "lake build",
                            "trusted_base": [], "explanation": "implementation or harness does not build"}, [], time.time() - t0, 1)
        return v.finish()
    consts = extract.consts()
    fix_expire, fix_abort, fix_dial = (consts[k][0] for k in ("aioFixExpire", "aioFixAbort", "aioDialerHonoursStart"))
    core.log(PROP, f"tree: F14 repair {'present' if fix_expire else 'absent'}, abort-result repair {'present' if fix_abort else 'absent'}, "
                   f"F6 repair {'present' if fix_dial else 'absent'} (the acceptor runs the model in the matching configuration)")
    jobs = []
    if replay:
        rp = json.load(open(replay))
        c = Case(rp.get("kind") or rp.get("case_kind", "g"), tuple(rp["cb"]) if rp.get("cb") else None, [(a[0], a[1]) for a in rp["actors"]], "replay", karg=rp.get("karg", 0))
        jobs = [(c, s) for s in (rp.get("scheds") or [rp.get("sched", "sched 1 rw")])]
        cases = [c]
    else:
        cases = []
        for c, scheds in corpus_cases():
            cases.append(c)
            jobs += [(c, s) for s in scheds]
        ngen = 300 if tier == "quick" else 2000
        for i in range(ngen):
            r = core.Rng(seed, PROP, tier, i)
            c = gen_any(r, i)
            cases.append(c)
            ss = schedules(r, tier)
            if tier == "thorough":
                ss = ss[:10]
            jobs += [(c, s) for s in ss]
        if tier == "thorough":
            sw = sweep_schedules()
            for c, _ in corpus_cases():
                jobs += [(c, s) for s in sw]
            for i in range(40):
                r = core.Rng(seed, PROP, "sweep", i)
                c = gen_any(r, i)
                cases.append(c)
                jobs += [(c, s) for s in sw]
    accept = "aio-accept" if st.driver_ok else None
    results = run_jobs(exe, jobs, accept)
    viol, rejects, crashes = {}, [], []
    ev_hist, op_hist, clause_hist = {}, {}, {}
    peak = 0
    for (c, s), r in zip(jobs, results):
        if r is None:
            continue
        if r["rc"] != 0:
            crashes.append((c, s, r))
            continue
        for e in r["trace"].split(" ; "):
            w = e.split()
            if len(w) >= 2:
                k = " ".join(w[1:3]) if w[1] in ("c", "r") else w[1]
                ev_hist[k] = ev_hist.get(k, 0) + 1
        if r["judge"] and r["judge"].startswith("VIOLATION"):
            clause = r["judge"][10:]
            sig = classify(c, clause, fix_abort) or clause
            clause_hist[sig] = clause_hist.get(sig, 0) + 1
            viol.setdefault(sig, []).append((c, s, r))
        if r["accept"] is not None and not r["accept"].startswith("ok"):
            rejects.append((c, s, r))
        elif r["accept"]:
            peak = max(peak, int(r["accept"].split()[1]))
    for c in cases:
        for _, ops in c.actors:
            for o in ops:
                k = o.split(":")[0]
                op_hist[k] = op_hist.get(k, 0) + 1
    if os.environ.get("C02_DEBUG"):
        for c, s, r in rejects[:int(os.environ["C02_DEBUG"])]:
            print("REJECT", c.kind, c.cb, c.actors, s, r["accept"], "\n   ", r["trace"][:900])
    core.log(PROP, f"cases {len(cases)} runs {len(jobs)}; judge violations {sum(len(x) for x in viol.values())} "
                   f"({ {k: len(x) for k, x in viol.items()} }), acceptor rejections {len(rejects)}, crashes {len(crashes)}; "
                   f"peak acceptor state set {peak}")
    known = {e.get("key"): e for e in core.known_findings(PROP) if e.get("status") != "fixed"}
    found_input = False
    f6key = SIGNATURES[2][0]
    f6crash = [x for x in crashes if x[0].kind == "dial" and "dialer_connect_cb" in x[2].get("err", "") and "heap-use-after-free" in x[2].get("err", "")]
    if f6crash:
        clause_hist[f6key + " (use after free)"] = len(f6crash)
        c, s, r = min(f6crash, key=lambda x: x[0].nops())
        payload = {"kind": "sanitizer report: the dialer completes a user aio a second time after nni_aio_start had refused (and completed) it; the user had already freed it",
                   "signature": f6key, "case_kind": c.kind, "karg": c.karg, "cb": c.cb, "actors": c.actors, "sched": s, "scheds": [s], "stderr": r.get("err", "")[:2500]}
        if f6key in known:
            v.known_finding(f"{f6key}: {known[f6key].get('text', '')} ({len(f6crash)} runs, use after free)")
            core.write_replay(PROP, seed, "known-F6-uaf", payload)
        else:
            v.violation("crash-F6", payload)
            found_input = True
    f18crash = [x for x in crashes if x[0].kind in ("pull", "push") and "heap-use-after-free" in x[2].get("err", "")
                and "0_cancel" in x[2].get("err", "") and "sock_destroy" in x[2].get("err", "")]
    if f18crash:
        clause_hist[F18] = len(f18crash)
        c, s, r = min(f18crash, key=lambda x: x[0].nops())
        payload = {"kind": "sanitizer report: a receive/send submitted while the socket is closing is parked after the protocol flushed its queue; "
                           "it never completes, and a later cancel/stop/free of the aio runs the protocol's cancel function on the destroyed socket",
                   "signature": F18, "case_kind": c.kind, "karg": c.karg, "cb": c.cb, "actors": c.actors, "sched": s, "scheds": [s], "stderr": r.get("err", "")[:2500]}
        if F18 in known:
            core.write_replay(PROP, seed, "known-F18", payload)
            v.known_finding(f"{F18}: {known[F18].get('text', '')} ({len(f18crash)} runs)")
        else:
            v.violation("crash-F18", payload)
            found_input = True
    for c, s, r in [x for x in crashes if x not in f6crash and x not in f18crash][:2]:
        v.violation(f"crash-{len(v.violations)}", {"kind": "crash / sanitizer report / deadlock / stuck case of the implementation under the simulated platform",
                    "ops": c.lines(s),
                    "case_kind": c.kind, "karg": c.karg, "cb": c.cb, "actors": c.actors, "sched": s, "rc": r["rc"], "last_output": r["trace"][-600:], "stderr": r.get("err", "")})
        found_input = True
    for sig, items in viol.items():
        prim = next((p for k, _, p in SIGNATURES if k == sig), None)
        pool = [x for x in items if prim and x[2]["judge"].startswith("VIOLATION " + prim)] or items
        c, s, r = min(pool, key=lambda x: x[0].nops())
        scheds = [x[1] for x in pool if x[0] is c][:6]
        prefix = next((p for k, _, p in SIGNATURES if k == sig), "cancel: code" if sig.startswith("cancel-code") else sig[:40])
        if sig == SIGNATURES[1][0] and not c_has_prefix(items, prefix):
            prefix = "quiescence: callback with a result other than NNG_ESTOPPED"
        mc, ms, mr = minimise(exe, c, scheds, prefix) if not replay else (c, s, r)
        if ms is None:
            mc, ms, mr = c, s, r
        payload = {"kind": "implementation trace violates the C02 monitor (Spec/Aio.lean)", "signature": sig, "clause": mr["judge"][10:],
                   "case_kind": mc.kind, "karg": mc.karg, "cb": mc.cb, "actors": mc.actors, "sched": ms, "scheds": [ms], "trace": mr["trace"].split(" ; "),
                   "runs_with_this_signature": len(items)}
        if sig in known:
            v.known_finding(f"{sig}: {known[sig].get('text', '')} ({len(items)} runs)")
            core.write_replay(PROP, seed, "known-" + sig.split("-")[0], payload)
        else:
            import re as _re
            payload["ops"] = mc.lines(ms)
            v.violation("judge-" + _re.sub(r"[^A-Za-z0-9]+", "_", sig)[:28].strip("_"), payload)
            found_input = True
    # timer clause for many aios (more than one NNI_EXPIRE_BATCH due at once): Props/C02Expire.lean + harness/r_expire.c
    from . import c02_expire
    rp_ = json.load(open(replay)) if replay else None
    if rp_ is None or rp_.get("sub") == c02_expire.SUB:
        ecov, eviol = c02_expire.run_part(tier, seed, st, rp_ if rp_ and rp_.get("sub") == c02_expire.SUB else None,
                                          batch=extract.generate()[0]["expireBatch"][0])
        core.log(PROP, f"expire part: {ecov['cases']} configurations, {ecov['aios']} aios, bad {ecov['bad']}, max lateness {ecov['max_late_ms']} ms")
        for tag, payload, no_input in eviol:
            v.violation(tag, payload, no_input=no_input)
            found_input = found_input or not no_input
    else:
        ecov = {}
    # the task layer under the aio (src/core/taskq.c) under thread schedules: Props/C02Taskq.lean + harness/u_taskq.c
    from . import c02_taskq
    tcov = {}
    if rp_ is None:
        tcov, tviol = c02_taskq.run_part(tier, seed, st, None)
        for tag, payload, no_input in tviol:
            if not no_input or not found_input:
                v.violation(tag, payload, no_input=no_input)
            found_input = found_input or not no_input
        tcov = {k: x for k, x in tcov.items() if k != "samples"}
    if not found_input:
        if rejects:
            c, s, r = min(rejects, key=lambda x: x[0].nops())
            v.violation("corr", {"kind": "correspondence broken: an implementation trace is not a trace of the Lean model the C02 theorems are about "
                        "(the monitor found no property violation)", "correspondence": "aio-accept vs s_aio", "case_kind": c.kind, "karg": c.karg, "cb": c.cb,
                        "actors": c.actors, "sched": s, "scheds": [s], "acceptor": r["accept"], "trace": r["trace"].split(" ; "),
                        "rejected_runs": len(rejects)}, no_input=True)
        elif not (fix_expire and fix_abort):
            v.violation("corr-cfg", {"kind": "correspondence broken: the theorems of Props/C02.lean are about the model configuration with the F14/abort-result repairs, "
                        "the tree does not contain them (and no failing schedule was found in this run)", "aioFixExpire": fix_expire, "aioFixAbort": fix_abort},
                        no_input=True)
        if not st.ok:
            v.violation("proof", {"kind": "proof obligation no longer checks", "broken": st.broken, "log": st.log[-3000:]}, no_input=True)
    distinct = len({c.key() for c in cases if c.nops() >= 4})
    traces = len({r["trace"] for r in results if r and r["rc"] == 0})
    samples = [{"kind": c.kind, "cb": c.cb, "actors": c.actors} for c in (cases[0], cases[-1])]
    if results and results[0]:
        samples.append({"sched": jobs[0][1], "trace": results[0]["trace"].split(" ; ")[:40]})
    cov = {"obligations": len(st.theorems), "discharged": len(st.discharged),
           "checker_cmd": "lake build NngModel.Props.C02 && lake env lean <#print axioms for each theorem>",
           "trusted_base": ["Lean 4.33.0 kernel", "axioms: " + ", ".join(sorted({a for x in st.axioms.values() if x for a in x})),
                            "vlib/extract.py + extract_c02.py (error codes, structural anchors in aio.c/taskq.c, which repairs are present)",
                            "harness/simplat.c (baton scheduler: interleaving at lock granularity, virtual clock), harness/s_aio.c (generic provider, event recording), mocktran.c",
                            "Driver/Aio.lean (event parser, subset-construction acceptor)", "gcc ASan/UBSan"],
           "theorems": st.discharged, "axioms": st.axioms, "broken": st.broken,
           "evaluations": len(jobs), "distinct_nontrivial": distinct, "distinct_traces": traces,
           "rule": "scenario programs for one aio (2-5 concurrent actors: submit on the generic provider / sleep / synchronous completion / absolute expiry "
                   "(every 16th: absolute expiry, completion, next start without reconfiguring the timeout, time past the relative timeout), "
                   "provider completion, abort/cancel, close, stop, wait, free, virtual-time advance, 0-2 resubmissions from the callback; every 4th on a real provider: "
                   "PULL receive, PUSH send, dialer start) from splitmix64(seed,C02,tier,i) plus corpus/C02; each under 20 schedules (10 random-walk seeds, round-robin, "
                   "9 delay-bounded (offset,len)); thorough adds (offset 0..119) x (len 5,20,80,300) sweeps on the corpus and 40 scenarios; distinct = distinct scenario "
                   "programs with >= 4 ops; distinct_traces = distinct observed event traces",
           "schedules_per_case": 20, "op_histogram": op_hist, "event_histogram": ev_hist, "violation_histogram": clause_hist,
           "samples": samples, "judge_violations": sum(len(x) for x in viol.values()), "acceptor_rejections": len(rejects), "crashes": len(crashes),
           "acceptor_peak_states": peak, "tree_config": {"aioFixExpire": fix_expire, "aioFixAbort": fix_abort, "aioDialerHonoursStart": fix_dial},
           "extract_changed": st.extract_changed, "expire_part": ecov, "expire_rule": c02_expire.RULE,
           "taskq_part": tcov, "taskq_rule": c02_taskq.RULE}
    core.write_evidence(PROP, tier, seed, "proof", cov,
                        ["SIM interleaves at lock granularity: unlocked reads of a_result/a_count and true data races are invisible",
                         "only the user-visible aio is monitored; library-internal aios are exercised but not judged",
                         "the user obeys the aio contract (one operation at a time, no abort/stop/submit from another thread racing nng_aio_free); "
                         "the provider obeys the provider contract (test-and-remove under its lock, finish exactly once)",
                         "the expire-queue shutdown path (eq_stop at nng_fini) and nni_aio_finish_sync are not modelled"],
                        time.time() - t0, len(v.violations))
    return v.finish()
