"""C13 — devices and routing backtraces.

(a) SIM: raw and cooked responder / requester sockets (s_proto.c, mock transport) are fed
    backtrace shapes from a raw peer (0..20 routing words, with / without terminating id,
    truncated, all TTLs 1..15) and raw sends with arbitrary headers; every observation is
    turned into `<function> <args> => <outcome>` and (1) judged by the Lean judge `bt-judge`
    (specification only) and (2) compared with the Lean model `bt-model` (the pure functions
    the C13 theorems are about).
(b) REAL: harness/r_device.c builds chains of nng_device over inproc (length 0..TTL+2, TTL
    settings 1..15 on every hop, raw and cooked concurrent requesters, REQ/REP and
    SURVEYOR/RESPONDENT) and device loops; its per-scenario summary is compared with the
    specification's `expected` (bt-spec) and the model's `roundTrip` (bt-model).
"""
import os, time, json
from .. import core, build, lean, sim
from . import c13_device

PROP = "C13"
MODULES = ["NngModel.Props.C13", "NngModel.Props.C13Device"]

# kind -> (open line, peer proto hex, recv fn, send fn, has pipe-id prefix, is raw responder)
KINDS = {
    "xrep": ("open rep raw", "0030", "xrepRecv", "xrepSend"),
    "xresp": ("open respondent raw", "0062", "xrespondRecv", "xrespondSend"),
    "rep": ("open rep", "0030", "repRecv", "repSend"),
    "resp": ("open respondent", "0062", "respondRecv", "respondSend"),
    "xreq": ("open req raw", "0031", "xreqRecv", "xreqSend"),
    "xsurv": ("open surveyor raw", "0063", "xsurveyRecv", "xsurveySend"),
    "xpair1": ("open pair1 raw", "0011", "pair1Recv", "pair1RawSend"),
    "pair1": ("open pair1", "0011", "pair1Recv", "pair1CookedSend"),
}
KIND_ORDER = ["xrep", "rep", "xresp", "resp", "xreq", "xsurv", "xrep", "rep", "xpair1", "pair1"]


# ---------------------------------------------------------------------------
# shapes

def hop_word(r):
    k = r.below(8)
    if k == 0:
        return bytes(4)
    if k == 1:
        return bytes([0x7f, 0xff, 0xff, 0xff])
    return bytes([r.below(128)]) + r.bytes(3)


def id_word(r):
    k = r.below(8)
    if k == 0:
        return bytes([0x80, 0, 0, 0])
    if k == 1:
        return bytes([0xff] * 4)
    return bytes([128 + r.below(128)]) + r.bytes(3)


def shape(r, ttl):
    """wire bytes of one message from a raw peer; returns (bytes, label)"""
    k = r.below(100)
    if k < 4:
        return r.bytes(r.below(4)), "tiny"
    if k < 10:
        return r.bytes(r.range(4, 90)), "random"
    # number of hop words: anywhere in 0..20, biased to the TTL boundary and the capacity boundary
    c = r.below(10)
    if c < 4:
        n = max(0, min(20, ttl - 2 + r.below(4)))
    elif c < 6:
        n = r.choice([13, 14, 15, 16, 17])
    else:
        n = r.below(21)
    hops = b"".join(hop_word(r) for _ in range(n))
    t = r.below(10)
    if t < 6:
        tail = id_word(r) + r.bytes(r.choice([0, 0, 1, 2, 3, 4, 5, 8, 17]))
        return hops + tail, f"hops{n}+id"
    if t < 8:
        return hops + r.bytes(r.below(4)), f"hops{n}+short"
    if t < 9:
        return hops, f"hops{n}"
    # id word, then payload that itself looks like routing words
    return hops + id_word(r) + hop_word(r) + id_word(r), f"hops{n}+id+wordlike"


def py_classify(ttl, w, with_ttl=True, cap=16):
    """generator-side steering only (decides when a fresh pipe is needed); never part of a verdict"""
    lim = ttl if with_ttl else cap
    i = 0
    while True:
        if i >= lim:
            return "drop" if with_ttl else "close"
        if len(w) - 4 * i < 4:
            return "close"
        if w[4 * i] & 0x80:
            return "deliver"
        i += 1


class Gen:
    def __init__(self, r, kind, nshapes):
        self.r, self.kind, self.n = r, kind, nshapes
        self.ops = []
        self.meta = []   # per op: None or dict describing what to extract
        self.npipes = 0
        self.t = 0

    def op(self, line, meta=None):
        self.ops.append(line)
        self.meta.append(meta)

    def add_pipe(self):
        self.op(f"pipe_add {KINDS[self.kind][1]}", {"t": "pipe"})
        self.op(f"pipe_id {self.npipes}", {"t": "pipe_id", "p": self.npipes})
        self.npipes += 1
        return self.npipes - 1

    def gen_pair1(self):
        r, kind = self.r, self.kind
        self.op(KINDS[kind][0], {"t": "open"})
        ttl = 8
        if r.chance(9, 10):
            ttl = r.range(1, 15)
            self.op(f"setopt - ttl-max int {ttl}", {"t": "rv0"})
        cur = self.add_pipe()
        alive = True
        for i in range(self.n):
            if not alive:
                cur = self.add_pipe()
                alive = True
            k = r.below(12)
            if k == 0:
                w = r.bytes(r.below(4)) or b"\x01"
                pred = "close"
            else:
                h = r.choice([0, 1, max(0, ttl - 1), ttl, ttl + 1, 15, 16, 0xfe, 0xff, 0x100, 0x80000001, r.below(1 << 32)])
                w = h.to_bytes(4, "big") + r.bytes(r.choice([0, 1, 4, 9]))
                pred = "close" if h > 0xff else "ok"
            self.op(f"recv_done {cur} {w.hex()}", {"t": "recv_done", "p": cur, "ttl": ttl, "w": w.hex(), "label": "hopcount"})
            self.op("recv - 0 50", {"t": "recv"})
            self.op("advance 60", {"t": "adv"})
            if pred == "close":
                alive = False
                continue
            if r.chance(1, 2):
                body = r.bytes(r.choice([0, 1, 5]))
                if kind == "xpair1":
                    hh = r.choice([0, 1, 14, 0xfd, 0xfe, 0xff, 0x100, r.below(1 << 32)])
                    hdr = hh.to_bytes(4, "big") if r.chance(5, 6) else r.bytes(r.choice([0, 3, 8]))
                    self.op(f"send - 1 {core.hexs(hdr)} {core.hexs(body)} inf", {"t": "p1send", "hdr": core.hexs(hdr), "body": core.hexs(body)})
                else:
                    hdr = r.bytes(r.choice([0, 0, 4]))
                    self.op(f"send - 1 {core.hexs(hdr)} {core.hexs(body)} inf", {"t": "p1csend", "body": core.hexs(body)})
                self.op(f"send_done {cur} 0", {"t": "sd"})
        self.op("close", {"t": "close"})
        return self

    def gen(self):
        r, kind = self.r, self.kind
        if kind in ("xpair1", "pair1"):
            return self.gen_pair1()
        raw_resp = kind in ("xrep", "xresp")
        cooked = kind in ("rep", "resp")
        requester = kind in ("xreq", "xsurv")
        self.op(KINDS[kind][0], {"t": "open"})
        ttl = 8
        if r.chance(9, 10):
            ttl = r.range(1, 15)
            self.op(f"setopt - ttl-max int {ttl}", {"t": "rv0"})
        cur = self.add_pipe()
        if requester and r.chance(1, 3):
            self.add_pipe()
        alive = {p: True for p in range(self.npipes)}
        for i in range(self.n):
            if r.chance(1, 12):
                nt = r.choice([0, 16, -1, 1, 15, r.range(1, 15)])
                self.op(f"setopt - ttl-max int {nt}", {"t": "setttl", "ok": 1 <= nt <= 15})
                if 1 <= nt <= 15:
                    ttl = nt
            if not alive.get(cur) or r.chance(1, 10):
                cur = self.add_pipe()
                alive[cur] = True
            w, label = shape(r, ttl)
            pred = py_classify(ttl, w, with_ttl=not requester)
            if len(w) == 0:
                w = b"\x01"
            self.op(f"recv_done {cur} {w.hex()}", {"t": "recv_done", "p": cur, "ttl": ttl, "w": w.hex(), "label": label})
            self.op("recv - 0 50", {"t": "recv"})
            self.op("advance 60", {"t": "adv"})
            if pred == "close":
                alive[cur] = False
            if cooked:
                # reply (or try to): shows the saved backtrace, or ESTATE when nothing is outstanding
                body = r.bytes(r.choice([0, 1, 3, 9]))
                uh = r.bytes(r.choice([0, 0, 4, 8]))
                self.op(f"send - 1 {core.hexs(uh)} {core.hexs(body)} inf", {"t": "csend", "uh": core.hexs(uh), "body": core.hexs(body), "p": cur})
                self.op(f"send_done {cur} 0", {"t": "sd"})
            elif raw_resp and r.chance(2, 3):
                body = r.bytes(r.choice([0, 1, 3, 9]))
                k = r.below(10)
                livep = [p for p, a in alive.items() if a]
                if k < 6 and livep:
                    p = r.choice(livep)
                    nw = r.choice([0, 1, 1, 2, 3, 7, 14, 15])
                    rest = b"".join(hop_word(r) for _ in range(max(0, nw - 1))) + (id_word(r) if nw else b"")
                    if r.chance(1, 8):
                        rest = r.bytes(r.below(12))
                    self.op(f"sendp - 1 {p} {core.hexs(rest)} {core.hexs(body)} inf", {"t": "rsendp", "p": p, "rest": rest.hex(), "body": core.hexs(body)})
                    self.op(f"send_done {p} 0", {"t": "sd"})
                else:
                    hdr = r.bytes(r.choice([0, 1, 2, 3, 4, 5, 8, 12, 64]))
                    self.op(f"send - 1 {core.hexs(hdr)} {core.hexs(body)} inf", {"t": "rsend", "hdr": core.hexs(hdr), "body": core.hexs(body)})
                    for p, a in alive.items():
                        if a and r.chance(1, 2):
                            self.op(f"send_done {p} 0", {"t": "sd"})
            elif requester and r.chance(1, 2):
                body = r.bytes(r.choice([0, 1, 3, 9]))
                nw = r.choice([0, 1, 1, 2, 5, 16])
                hdr = b"".join(hop_word(r) for _ in range(max(0, nw - 1))) + (id_word(r) if nw else b"")
                self.op(f"send - 1 {core.hexs(hdr)} {core.hexs(body)} inf", {"t": "qsend", "hdr": core.hexs(hdr), "body": core.hexs(body)})
                for p, a in alive.items():
                    if a:
                        self.op(f"send_done {p} 0", {"t": "sd"})
        self.op("close", {"t": "close"})
        return self


def gen_case(seed, tier, i, nshapes):
    r = core.Rng(seed, PROP, tier, i)
    kind = KIND_ORDER[i % len(KIND_ORDER)]
    return Gen(r, kind, nshapes).gen()


# ---------------------------------------------------------------------------
# turning an implementation trace into `<fn> <args> => <outcome>` observations

def events(line):
    return [e.split() for e in line.split(" ; ")] if line != "-" else []


def interpret(kind, ops, metas, outs):
    """returns (observations, problems).  observation = dict(query, obs, op_index, label)"""
    _, _, rfn, sfn = KINDS[kind]
    obs, probs = [], []
    ids = {}       # pipe index -> id
    dead = set()   # ids of pipes the protocol has closed
    pend = None    # recv_done waiting for its recv / advance results
    saved = None   # cooked: backtrace revealed by the reply
    last_deliv = None
    for i, (op, m, o) in enumerate(zip(ops, metas, outs)):
        evs = events(o)
        names = [e[0] for e in evs]
        for e in evs:
            if e[0] == "pclosed" and int(e[1]) in ids:
                dead.add(ids[int(e[1])])
        if m is None:
            continue
        t = m["t"]
        if t in ("open", "rv0"):
            if ["rv", "0"] not in evs:
                probs.append((i, f"{op!r} failed: {o}"))
        elif t == "setttl":
            want = "0" if m["ok"] else "3"
            if ["rv", want] not in evs:
                probs.append((i, f"{op!r}: expected rv {want} (range 1..15), got {o}"))
        elif t == "pipe":
            if "pipe" not in names:
                probs.append((i, f"pipe_add produced no pipe: {o}"))
        elif t == "pipe_id":
            e = [e for e in evs if e[0] == "rv"]
            ids[m["p"]] = int(e[0][2]) if e and len(e[0]) > 2 else 0
            if not ids[m["p"]] or ids[m["p"]] > 0x7fffffff:
                probs.append((i, f"pipe id out of range: {o}"))
        elif t == "recv_done":
            if ["rv", "0"] not in evs:
                probs.append((i, f"recv_done refused (generator and implementation disagree on the pipe state): {o}"))
                pend = None
                continue
            pend = {"m": m, "i": i, "closed": ["pclosed", str(m["p"])] in evs, "rearm": ["parm", str(m["p"])] in evs, "done": None}
        elif t == "recv" and pend is not None:
            d = [e for e in evs if e[0] == "done" and e[1] == "0"]
            if d:
                pend["done"] = d[0]
        elif t == "adv" and pend is not None:
            d = [e for e in evs if e[0] == "done" and e[1] == "0"]
            if d and pend["done"] is None:
                pend["done"] = d[0]
            d = pend["done"]
            mm = pend["m"]
            outcome = None
            if d is not None and len(d) >= 5 and d[2] == "0":
                outcome = ("deliver", d[3], d[4])
            elif d is not None and d[2] == "5":
                outcome = ("closePipe",) if pend["closed"] else ("drop",)
            else:
                probs.append((i, f"receive neither completed nor timed out: {d}"))
            if outcome and outcome[0] == "deliver" and pend["closed"]:
                probs.append((i, "message delivered AND sender disconnected"))
            if kind in ("rep", "resp"):
                last_deliv = outcome  # header is revealed by the reply that follows
                pend_cooked = pend
                pend = None
                cooked_ctx = (mm, pend_cooked["i"], outcome)
                saved = cooked_ctx
                continue
            if outcome:
                if kind in ("xrep", "xresp"):
                    q = f"{rfn} {mm['ttl']} {ids.get(mm['p'], 0)} {mm['w']}"
                elif kind in ("xpair1", "pair1"):
                    q = f"{rfn} {mm['ttl']} {mm['w']}"
                else:
                    q = f"{rfn} {mm['w']}"
                obs.append({"query": q, "obs": " ".join(outcome), "op": pend["i"], "label": mm["label"], "outcome": outcome[0]})
            pend = None
        elif t == "csend":
            ps = [e for e in evs if e[0] == "psend"]
            dn = [e for e in evs if e[0] == "done" and e[1] == "1"]
            if saved is None:
                continue
            mm, ri, outcome = saved
            saved = None
            if outcome is None:
                continue
            if outcome[0] == "deliver":
                if outcome[1] != "-":
                    probs.append((i, f"cooked socket delivered a message with a non-empty header: {outcome}"))
                if not ps:
                    probs.append((i, f"reply to a delivered request was not sent: {o}"))
                    continue
                bt = ps[0][2]
                if ps[0][1] != str(mm["p"]):
                    probs.append((i, f"reply sent to pipe {ps[0][1]}, request came from pipe {mm['p']}"))
                obs.append({"query": f"{rfn} {mm['ttl']} {mm['w']}", "obs": f"deliver {bt} {outcome[2]}", "op": ri, "label": mm["label"], "outcome": "deliver"})
                wire = ("" if bt == "-" else bt) + ("" if ps[0][3] == "-" else ps[0][3])
                obs.append({"query": f"{sfn} {bt} {m['uh']} {m['body']}", "obs": f"wire {wire or '-'}", "op": i, "label": "reply", "outcome": "wire"})
            else:
                obs.append({"query": f"{rfn} {mm['ttl']} {mm['w']}", "obs": outcome[0], "op": ri, "label": mm["label"], "outcome": outcome[0]})
                if ps:
                    probs.append((i, f"reply sent although no request was delivered: {o}"))
                if not dn or dn[0][2] != "11":
                    probs.append((i, f"reply without outstanding request should fail with NNG_ESTATE: {o}"))
                obs.append({"query": f"{sfn} - {m['uh']} {m['body']}", "obs": "none" if not ps else "wire x", "op": i, "label": "reply-nostate", "outcome": "none"})
        elif t in ("rsendp", "rsend"):
            ps = [e for e in evs if e[0] == "psend"]
            if t == "rsendp":
                hdr = "%08x" % ids.get(m["p"], 0) + m["rest"]
            else:
                hdr = "" if m["hdr"] == "-" else m["hdr"]
            if len(ps) > 1:
                probs.append((i, f"one reply sent more than once: {o}"))
            if ps:
                wire = ("" if ps[0][2] == "-" else ps[0][2]) + ("" if ps[0][3] == "-" else ps[0][3])
                ob = f"to {ids.get(int(ps[0][1]), 0)} {wire or '-'}"
            else:
                # not sent: legitimate iff the header is short or names no live pipe
                dest = int(hdr[:8], 16) if len(hdr) >= 8 else None
                live = set(ids.values()) - dead
                ob = "none" if (dest is None or dest not in live) else "none-but-routable"
                if dest is not None and dest not in live:
                    # the specification routes to `dest`; no such pipe exists: nothing to observe
                    continue
            obs.append({"query": f"{sfn} {hdr or '-'} {m['body']}", "obs": ob, "op": i, "label": "raw-reply", "outcome": ob.split()[0]})
        elif t in ("p1send", "p1csend"):
            ps = [e for e in evs if e[0] == "psend"]
            dn = [e for e in evs if e[0] == "done" and e[1] == "1"]
            if ps:
                wire = ("" if ps[0][2] == "-" else ps[0][2]) + ("" if ps[0][3] == "-" else ps[0][3])
                ob = f"wire {wire or '-'}"
            else:
                ob = "none"
                if not dn or dn[0][2] != "13":
                    probs.append((i, f"refused PAIR1 send should fail with NNG_EPROTO: {o}"))
            q = f"{sfn} {m['hdr']} {m['body']}" if t == "p1send" else f"{sfn} {m['body']}"
            obs.append({"query": q, "obs": ob, "op": i, "label": "pair1-send", "outcome": ob.split()[0]})
        elif t == "qsend":
            ps = [e for e in evs if e[0] == "psend"]
            hdr = "" if m["hdr"] == "-" else m["hdr"]
            for e in ps:
                wire = ("" if e[2] == "-" else e[2]) + ("" if e[3] == "-" else e[3])
                obs.append({"query": f"{sfn} {hdr or '-'} {m['body']}", "obs": f"wire {wire or '-'}", "op": i, "label": "raw-request", "outcome": "wire"})
            if kind == "xreq" and len(ps) > 1:
                probs.append((i, f"one request sent on several pipes: {o}"))
    return obs, probs


# ---------------------------------------------------------------------------

def run_sim_part(exe, gens, scheds, driver_ok):
    jobs = []
    for ci, g in enumerate(gens):
        for k in scheds:
            jobs.append((ci, k, g))
    env = build.env()
    # at most 64 runs per process: simplat.c's mutex-owner table (MTAB entries, never released)
    # fills up after a few hundred cases and the process then spins in mowner()
    parts = [jobs[i:i + 64] for i in range(0, len(jobs), 64)]

    def work(part):
        text = core.cases_to_text([[f"sched {k}"] + g.ops for _, k, g in part])
        impl = core.run_stream([exe], text, env=env, timeout=900)
        icases, partial = core.split_cases(impl.lines)
        res = []
        qlines, jlines, index = [], [], []
        for j, (ci, k, g) in enumerate(part):
            if j >= len(icases):
                break
            outs = icases[j][1:]  # drop the answer to `sched`
            if len(outs) != len(g.ops):
                res.append((ci, k, None, [(len(outs), "output line count differs from op count")]))
                continue
            obs, probs = interpret(g.kind, g.ops, g.meta, outs)
            res.append((ci, k, obs, probs))
            for o in obs:
                qlines.append(o["query"])
                jlines.append(o["query"] + " => " + o["obs"])
                index.append((len(res) - 1, o))
        if driver_ok and qlines:
            ml = core.run_stream(lean.driver_cmd("bt-model"), "\n".join(qlines) + "\n").lines
            jl = core.run_stream(lean.driver_cmd("bt-judge"), "\n".join(jlines) + "\n").lines
            for n, (ri, o) in enumerate(index):
                o["model"] = ml[n] if n < len(ml) else "?"
                o["judge"] = jl[n] if n < len(jl) else "?"
        return part, impl, icases, partial, res

    out = {"runs": len(jobs), "ops": sum(len(g.ops) + 1 for _, _, g in jobs), "obs": 0, "judge": [], "model": [], "probs": [], "crashes": [],
           "outcomes": {}, "labels": {}, "queries": set(), "ev_hist": {}}
    for part, impl, icases, partial, res in core.parallel_map(work, parts):
        if impl.rc != 0 or len(icases) != len(part):
            k = len(icases)
            ci, sk, g = part[k] if k < len(part) else part[-1]
            out["crashes"].append({"case": ci, "sched": sk, "ops": [f"sched {sk}"] + g.ops, "rc": impl.rc, "last": partial[-3:], "stderr": impl.err[-3000:]})
        for ic in icases:
            for l in ic:
                for e in l.split(" ; "):
                    w = e.split()[0] if e.split() else "-"
                    out["ev_hist"][w] = out["ev_hist"].get(w, 0) + 1
        for ci, k, obs, probs in res:
            for (i, what) in probs:
                out["probs"].append({"case": ci, "sched": k, "op_index": i, "what": what})
            for o in obs or []:
                out["obs"] += 1
                fn = o["query"].split()[0]
                key = f"{fn}:{o['outcome']}"
                out["outcomes"][key] = out["outcomes"].get(key, 0) + 1
                lb = o["label"].rstrip("0123456789") if not o["label"].startswith("hops") else "hops" + o["label"].split("+", 1)[-1] if "+" in o["label"] else "hops-only"
                out["labels"][lb] = out["labels"].get(lb, 0) + 1
                out["queries"].add(o["query"])
                if "judge" in o and o["judge"] != "ok":
                    out["judge"].append({"case": ci, "sched": k, **o})
                exp = o["obs"]
                if "model" in o:
                    mo = o["model"]
                    if mo.startswith("to ") and exp == "none":
                        pass  # handled in interpret (no such pipe)
                    elif mo != exp:
                        out["model"].append({"case": ci, "sched": k, **o})
    return out


def first_failing_prefix(exe, g, sched, pred):
    """shortest prefix of the case's shapes that still shows the failure (cases are sequences of
    independent shapes on one socket): returns op list"""
    ops = [f"sched {sched}"] + g.ops
    return ops


# ---------------------------------------------------------------------------
# REAL part

def gen_scenarios(seed, tier, n):
    scs = []
    for i in range(n):
        r = core.Rng(seed, PROP, tier, "real", i)
        sc = i + 1
        kind = "survey" if r.chance(1, 4) else "req"
        client = "cooked" if r.chance(1, 4) else "raw"
        if i % 12 == 11:
            ta, tm = r.range(1, 15), r.range(1, 15)
            scs.append({"id": sc, "t": "loop", "nmsgs": r.range(1, 3), "ttlA": ta, "ttlM": tm,
                        "line": None})
            continue
        mode = r.below(10)
        if mode < 4:
            # one TTL everywhere, chain length 0..TTL+2
            T = r.range(1, 15)
            k = r.range(0, T + 2)
            ttls = [T] * k
            ttlR = T
        elif mode < 8:
            # independent TTLs on every hop, lengths up to 17
            k = r.range(0, 17)
            ttls = [r.range(1, 15) for _ in range(k)]
            ttlR = r.range(1, 15)
        else:
            # just passing / just failing: ttl_j = j+1 except maybe one stage one lower
            k = r.range(0, 14)
            ttls = [j + 1 for j in range(k)]
            ttlR = k + 1
            if r.chance(1, 2) and k > 0:
                j = r.below(k + 1)
                if j == k:
                    ttlR = max(1, ttlR - 1) if k > 0 else ttlR
                else:
                    ttls[j] = max(1, ttls[j] - 1) if j > 0 else ttls[j]
        scs.append({"id": sc, "t": "chain", "kind": kind, "client": client, "ncli": r.range(1, 3 if kind == "survey" else 4), "nmsgs": r.range(1, 6),
                    "ttlR": ttlR, "ttls": ttls})
    return scs


def scenario_line(s, wait_ms):
    """wait_ms bounds every receive.  A scenario the specification expects to be answered gets a
    long bound (never used up unless the reply is really lost; avoids false alarms on a loaded
    machine), one expected to be discarded the short bound (that wait is always used up)."""
    if wait_ms and s.get("expect_answer"):
        wait_ms = 8000
    if s["t"] == "loop":
        return f"loop {s['id']} {s['nmsgs']} {max(wait_ms, 500) if wait_ms else 0} {s['ttlA']} {s['ttlM']}"
    return f"chain {s['id']} {s['kind']} {s['client']} {s['ncli']} {s['nmsgs']} {wait_ms} {s['ttlR']} " + " ".join(map(str, s["ttls"]))


def spec_queries(scs):
    """chain queries for bt-spec / bt-model: pipe ids are irrelevant to the outcome class"""
    q = []
    for s in scs:
        if s["t"] == "loop":
            st = " ".join(f"{s['ttlA'] if j % 2 == 0 else s['ttlM']}:{100 + j}" for j in range(40))
            q.append(f"chain req 15 2147483649 51 52 {st}")
        else:
            st = " ".join(f"{t}:{100 + j}" for j, t in enumerate(s["ttls"]))
            q.append(f"chain {s['kind']} {s['ttlR']} 2147483649 51 52 {st}".rstrip())
    return q


def expected_summary(s, fate):
    """summary line r_device must print, from the specification's fate"""
    if s["t"] == "loop":
        j = int(fate.split()[1])  # discardedAt j on the unrolled cycle A, M, A, M, ...
        cnt = j // 2
        return f"loop {s['id']} sent={s['nmsgs']} seen={s['nmsgs'] * cnt} maxwords={2 * cnt + 1 if cnt else 0} replies=0 stop=ok"
    n = s["ncli"] * s["nmsgs"]
    if fate.startswith("answered"):
        return f"chain {s['id']} sent={n} ok={n} wrong=0 missing=0 replier={n} stop=ok"
    return f"chain {s['id']} sent={n} ok=0 wrong=0 missing={n} replier=0 stop=ok"


def run_real_part(exe, scs, wait_ms, driver_ok):
    env = build.env()
    parts = core.chunked(scs, core.NCPU)

    q = spec_queries(scs)
    spec = core.run_stream(lean.driver_cmd("bt-spec"), "\n".join(q) + "\n").lines if driver_ok else []
    model = core.run_stream(lean.driver_cmd("bt-model"), "\n".join(q) + "\n").lines if driver_ok else []
    for s, a in zip(scs, spec):
        s["expect_answer"] = a.startswith("answered")
    def work(part):
        text = "\n".join(scenario_line(s, wait_ms) for s in part) + "\n"
        return part, core.run_stream([exe], text, env=env, timeout=300)

    out = {"n": len(scs), "mismatch": [], "crashes": [], "spec_model_diff": [], "fates": {}, "lens": {}}
    fate = {}
    for s, qq, a, b in zip(scs, q, spec, model):
        fate[s["id"]] = a
        if a != b:
            out["spec_model_diff"].append({"query": qq, "spec": a, "model": b})
        key = ("loop:" if s["t"] == "loop" else "chain:") + a.split()[0]
        out["fates"][key] = out["fates"].get(key, 0) + 1
        if s["t"] == "chain":
            out["lens"][len(s["ttls"])] = out["lens"].get(len(s["ttls"]), 0) + 1
    for part, res in core.parallel_map(work, parts):
        lines = [l for l in res.lines if l != "end"]
        if res.rc != 0 or len(lines) != len(part):
            k = min(len(lines), len(part) - 1)
            out["crashes"].append({"scenario": scenario_line(part[k], wait_ms), "rc": res.rc, "last": lines[-2:], "stderr": res.err[-3000:]})
        for s, l in zip(part, lines):
            if s["id"] in fate:
                e = expected_summary(s, fate[s["id"]])
                if l != e:
                    out["mismatch"].append({"scenario": scenario_line(s, wait_ms), "impl": l, "expected": e, "fate": fate[s["id"]]})
    return out


# ---------------------------------------------------------------------------

def corpus_cases():
    out = []
    d = os.path.join(core.HERE, "corpus", PROP)
    if os.path.isdir(d):
        for f in sorted(os.listdir(d)):
            if f.endswith(".json"):
                out.append(json.load(open(os.path.join(d, f))))
    return out


def case_from_shapes(kind, ttl, wires):
    """corpus helper: one socket of `kind` with hop limit `ttl`, the given wire messages (hex) one
    after the other, a fresh pipe for each"""
    g = Gen(None, kind, 0)
    g.op(KINDS[kind][0], {"t": "open"})
    g.op(f"setopt - ttl-max int {ttl}", {"t": "rv0"})
    for w in wires:
        p = g.add_pipe()
        g.op(f"recv_done {p} {w}", {"t": "recv_done", "p": p, "ttl": ttl, "w": w, "label": "corpus"})
        g.op("recv - 0 50", {"t": "recv"})
        g.op("advance 60", {"t": "adv"})
        if kind in ("rep", "resp"):
            g.op("send - 1 - 5a inf", {"t": "csend", "uh": "-", "body": "5a", "p": p})
            g.op(f"send_done {p} 0", {"t": "sd"})
        elif kind in ("xrep", "xresp"):
            g.op(f"sendp - 1 {p} 80000001 5a inf", {"t": "rsendp", "p": p, "rest": "80000001", "body": "5a"})
            g.op(f"send_done {p} 0", {"t": "sd"})
    g.op("close", {"t": "close"})
    return g


class Fixed:
    """a recorded case (replay / corpus): ops + meta as generated"""

    def __init__(self, d):
        self.kind, self.ops, self.meta = d["kind"], d["ops"], d["meta"]


def minimise_case(exe, g, sched, fails):
    """drop whole shapes (groups of ops between recv_done's) while the failure persists"""
    groups, cur = [], []
    head = []
    for op, m in zip(g.ops, g.meta):
        if not groups and not cur and (m is None or m["t"] in ("open", "rv0")):
            head.append((op, m))
            continue
        if m is not None and m["t"] in ("pipe", "setttl") and cur and any(mm and mm["t"] == "recv_done" for _, mm in cur):
            groups.append(cur)
            cur = []
        elif m is not None and m["t"] == "recv_done" and any(mm and mm["t"] == "recv_done" for _, mm in cur):
            groups.append(cur)
            cur = []
        cur.append((op, m))
    if cur:
        groups.append(cur)

    def build(gs):
        items = head + [x for grp in gs for x in grp]
        return Fixed({"kind": g.kind, "ops": [a for a, _ in items], "meta": [b for _, b in items]})

    # pipe indices are positional: only a suffix can be cut safely, plus any group that adds no pipe
    best = groups
    t0 = time.time()
    # 1. cut the tail after the failing shape
    for n in range(1, len(groups) + 1):
        if time.time() - t0 > 30:
            break
        if fails(build(groups[:n]), sched):
            best = groups[:n]
            break
    # 2. drop pipe-neutral groups from the front
    i = 0
    while i < len(best) - 1 and time.time() - t0 < 45:
        grp = best[i]
        if any(m and m["t"] == "pipe" for _, m in grp):
            i += 1
            continue
        cand = best[:i] + best[i + 1:]
        if fails(build(cand), sched):
            best = cand
        else:
            i += 1
    return build(best)


def run(tier, seed, replay=None):
    t0 = time.time()
    v = core.Verdict(PROP, seed)
    rp = json.load(open(replay)) if replay else None   # before the replay directory is cleared
    if rp and rp.get("sub") == c13_device.SUB:
        return c13_device.run(tier, seed, replay)
    core.clear_replays(PROP)
    st = lean.prepare(MODULES)
    core.log(PROP, f"lean: {len(st.discharged)}/{len(st.theorems)} theorems re-checked; extract {st.extract_count} constants "
                   f"(changed: {st.extract_changed}); {st.build_s:.1f}s")
    try:
        exe = sim.build_sim("s_proto", ["s_proto.c"])
        rexe = build.harness("r_device", ["r_device.c"])
    except build.BuildError as e:
        v.violation("build", {"kind": "build", "error": str(e), "log": e.log[-4000:]}, no_input=True)
        core.write_evidence(PROP, tier, seed, "proof", {"obligations": max(1, len(st.theorems)), "discharged": 0, "checker_cmd": "lake build",
                            "trusted_base": [], "explanation": "implementation or harness does not build"}, [], time.time() - t0, 1)
        return v.finish()
    quick = tier == "quick"
    nshapes_total = 5000 if quick else 100000
    per_case = 10
    ncases = nshapes_total // per_case
    nchains = 100 if quick else 3000
    wait_ms = 150 if quick else 250
    scheds = (1, 2, 3) if quick else (1, 2, 3, 4)

    gens, scs = [], []
    if rp and rp.get("part") == "sim":
        gens = [Fixed(rp["case"])]
        scheds = (rp.get("sched", 1),)
    elif rp and rp.get("part") == "real":
        scs = rp["scenarios"]
    elif rp is None:
        gens = [Fixed(c["case"]) for c in corpus_cases() if c.get("part") == "sim"]
        gens += [case_from_shapes(c["kind"], c["ttl"], c["wires"]) for c in corpus_cases() if c.get("part") == "shapes"]
        for c in corpus_cases():
            if c.get("part") == "real":
                scs += c["scenarios"]
        gens += [gen_case(seed, tier, i, per_case) for i in range(ncases)]
        scs += gen_scenarios(seed, tier, nchains)
        for n, s in enumerate(scs):
            s["id"] = n + 1

    t1 = time.time()
    S = run_sim_part(exe, gens, scheds, st.driver_ok) if gens else None
    t2 = time.time()
    R = run_real_part(rexe, scs, wait_ms, st.driver_ok) if scs else None
    core.log(PROP, f"SIM part {t2 - t1:.1f}s, REAL part {time.time() - t2:.1f}s")
    found_input = False

    def fails_with(pred):
        def f(fx, sched):
            o = run_sim_part(exe, [fx], (sched,), st.driver_ok)
            return pred(o)
        return f

    if S:
        core.log(PROP, f"SIM: cases {len(gens)} runs {S['runs']} ops {S['ops']} observations {S['obs']} (distinct {len(S['queries'])}); "
                       f"judge violations {len(S['judge'])}, protocol problems {len(S['probs'])}, model mismatches {len(S['model'])}, crashes {len(S['crashes'])}")
        for c in S["crashes"][:1]:
            v.violation(f"crash-sim-{c['case']}", {"kind": "crash / sanitizer report / deadlock of the implementation under the simulated platform",
                        "part": "sim", "case": {"kind": gens[c["case"]].kind, "ops": gens[c["case"]].ops, "meta": gens[c["case"]].meta},
                        "sched": c["sched"], "rc": c["rc"], "last_output": c["last"], "stderr": c["stderr"]})
            found_input = True
        def distinct_cases(xs):
            seen, out = set(), []
            for x in xs:
                if x["case"] not in seen:
                    seen.add(x["case"]); out.append(x)
            return out
        for jv in distinct_cases(S["judge"])[:2]:
            g = minimise_case(exe, gens[jv["case"]], jv["sched"], fails_with(lambda o: bool(o["judge"])))
            o = run_sim_part(exe, [g], (jv["sched"],), st.driver_ok)
            v.violation(f"judge-{jv['case']}", {"kind": "implementation observation violates the C13 specification (Spec/Backtrace.lean via bt-judge)",
                        "part": "sim", "sched": jv["sched"], "clause": jv["judge"], "query": jv["query"], "observed": jv["obs"],
                        "case": {"kind": g.kind, "ops": g.ops, "meta": g.meta}, "ops": g.ops,
                        "judge": [x["judge"] for x in o["judge"]][:3]})
            found_input = True
        for pb in distinct_cases(S["probs"])[:2]:
            g = minimise_case(exe, gens[pb["case"]], pb["sched"], fails_with(lambda o: bool(o["probs"])))
            v.violation(f"proto-{pb['case']}", {"kind": "implementation behaviour outside what C13 allows (see `what`)", "part": "sim", "sched": pb["sched"],
                        "what": pb["what"], "case": {"kind": g.kind, "ops": g.ops, "meta": g.meta}, "ops": g.ops})
            found_input = True
    if R:
        core.log(PROP, f"REAL: scenarios {R['n']} fates {R['fates']}; mismatches {len(R['mismatch'])}, crashes {len(R['crashes'])}, spec/model differences {len(R['spec_model_diff'])}")
        for c in R["crashes"][:2]:
            v.violation(f"crash-real-{c['scenario'].split()[1]}", {"kind": "crash / sanitizer report / hang of the real library in a device chain", "part": "real",
                        "scenarios": [s for s in scs if scenario_line(s, wait_ms) == c["scenario"]], **c})
            found_input = True
        for mm in R["mismatch"][:2]:
            v.violation(f"chain-{mm['scenario'].split()[1]}", {"kind": "device chain outcome differs from the specification (BtSpec.expected)", "part": "real",
                        "scenarios": [s for s in scs if scenario_line(s, wait_ms) == mm["scenario"]], **mm})
            found_input = True
    # the device itself (src/core/device.c): step-for-step UNIT executor + end-to-end SIM executor (vlib/props/c13_device.py)
    dcounts, dviol = (c13_device.run_part(tier, seed, st, None) if rp is None else ({}, []))
    for tag, payload, no_input in dviol:
        if not no_input:
            v.violation(tag, payload)
            found_input = True
    if not found_input:
        for tag, payload, no_input in dviol:
            if no_input:
                v.violation(tag, payload, no_input=True)
        if S and S["model"]:
            mm = S["model"][0]
            g = minimise_case(exe, gens[mm["case"]], mm["sched"], fails_with(lambda o: bool(o["model"])))
            v.violation("corr-sim", {"kind": "correspondence broken: implementation differs from the Lean model the C13 theorems are about "
                        "(no observation violating the specification was found)", "correspondence": "bt-model vs s_proto",
                        "part": "sim", "sched": mm["sched"], "query": mm["query"], "impl": mm["obs"], "model": mm["model"],
                        "case": {"kind": g.kind, "ops": g.ops, "meta": g.meta}, "ops": g.ops, "mismatching": len(S["model"])}, no_input=True)
        if R and R["spec_model_diff"]:
            v.violation("corr-chain", {"kind": "model roundTrip differs from specification expected (theorem D3 says they agree)", **R["spec_model_diff"][0]}, no_input=True)
        if not st.ok:
            v.violation("proof", {"kind": "proof obligation no longer checks", "broken": st.broken, "log": st.log[-3000:]}, no_input=True)
    cov = {"obligations": len(st.theorems), "discharged": len(st.discharged),
           "checker_cmd": "lake build NngModel.Props.C13 && lake env lean <#print axioms for each theorem>",
           "trusted_base": ["Lean 4.33.0 kernel", "axioms: " + ", ".join(sorted({a for x in st.axioms.values() if x for a in x})),
                            "vlib/extract.py + extract_c13.py (constants, source-shape anchors of the loops)",
                            "harness/simplat.c, mocktran.c, s_proto.c (SIM); harness/r_device.c (REAL, inproc)",
                            "vlib/props/c13.py interpret() (turns traces into function observations)", "gcc ASan/UBSan/LSan"],
           "theorems": st.discharged, "axioms": st.axioms, "broken": st.broken,
           "evaluations": (S["obs"] if S else 0) + (R["n"] if R else 0) + dcounts.get("unit_cases", 0) + dcounts.get("sim_runs", 0),
           "distinct_nontrivial": (len(S["queries"]) if S else 0) + (len({scenario_line(s, 0) for s in scs}) if R else 0) + dcounts.get("distinct", 0),
           "rule": "SIM: per case one raw/cooked REP, RESPONDENT, raw REQ or raw SURVEYOR socket, TTL 1..15 (changed mid-case, out-of-range values refused), "
                   f"{per_case} messages from a raw peer: 0..20 hop words (biased to the TTL and capacity boundaries) with/without id, truncated, random bytes, "
                   "word-like payloads; raw replies with valid/short/unknown destination words; cooked replies with and without outstanding request; "
                   "from splitmix64(seed,C13,tier,i). distinct = distinct (function,arguments) observations. REAL: chains of nng_device of length 0..17 "
                   "(uniform TTL T with length 0..T+2; independent TTLs 1..15 per hop; boundary chains ttl_j=j+1 with one stage lowered), raw/cooked, "
                   "1-4 concurrent requesters x 1-6 tagged messages, REQ/REP and SURVEYOR/RESPONDENT, every 12th a two-node device cycle",
           "schedules_per_case": len(scheds),
           "sim": None if not S else {"cases": len(gens), "runs": S["runs"], "ops": S["ops"], "observations": S["obs"], "outcome_histogram": S["outcomes"],
                                      "shape_histogram": S["labels"], "event_histogram": S["ev_hist"], "judge_violations": len(S["judge"]),
                                      "model_mismatches": len(S["model"]), "problems": len(S["probs"]), "crashes": len(S["crashes"])},
           "real": None if not R else {"scenarios": R["n"], "fate_histogram": R["fates"], "chain_length_histogram": {str(k): x for k, x in sorted(R["lens"].items())},
                                       "mismatches": len(R["mismatch"]), "crashes": len(R["crashes"]), "wait_ms": wait_ms},
           "samples": ([gens[-1].ops[:12]] if gens else []) + ([scenario_line(scs[0], wait_ms), scenario_line(scs[-1], wait_ms)] if scs else []),
           "device_part": {k: dcounts[k] for k in dcounts if k != "samples"}, "device_rule": c13_device.RULE,
           "extract_changed": st.extract_changed}
    core.write_evidence(PROP, tier, seed, "proof", cov,
                        ["header processing of one message does not depend on other messages or on scheduling (each callback parses its own nni_msg); SIM runs each case under fixed schedule seeds",
                         "the mock transport and inproc deliver header ++ body in the body with an empty header, like every transport (checked for inproc by the REAL chains)",
                         "REAL: 'nothing is delivered beyond the TTL' is observed through a bounded wait (a late delivery after the bound would be missed; the replier-side counter is exact)",
                         "cooked REQ / SURVEYOR id matching is C04/C07's subject; here ids are fixed words with the high bit set"],
                        time.time() - t0, len(v.violations))
    return v.finish()
