"""C11 — hostile or broken peers cannot crash, wedge or bypass size limits (PARTIAL).

Proof part: Props/C11.lean (decision functions of the connection level, all byte strings).
Search part (supports the unprovable remainder): REAL executor harness/r_hostile.c — an nng listener per
(transport, protocol, rcvmax), a well-behaved control connection, and hostile sessions (valid sessions from the
Lean encoder, mutations, truncation at every byte offset, idle / half handshakes, floods).  Per session the Lean
model predicts what is delivered; the Lean judge (specification only) decides whether what the implementation
delivered is allowed.

Verdicts: delivery the judge forbids / control connection broken / connection never released / crash / hang
=> VIOLATION with replay; model differences without a property violation => correspondence (no-failing-input-found).
"""
import os, re, json, time, shutil, tempfile
from .. import core, lean, build, extract

PROP = "C11"
MODULES = ["NngModel.Props.C11"]

STREAM = ["tcp", "ipc", "sfd"]
PROTOS = [("pair0", 0), ("pair1", 0), ("rep", 0), ("req", 0), ("sub", 0), ("pull", 0), ("bus", 0), ("surveyor", 0),
          ("respondent", 0), ("rep", 1), ("req", 1), ("pair1", 1)]
PEER = {"pair0": 0x10, "pair1": 0x11, "rep": 0x30, "req": 0x31, "sub": 0x20, "pull": 0x50, "bus": 0x70,
        "surveyor": 0x63, "respondent": 0x62}
SELF = {"pair0": 0x10, "pair1": 0x11, "rep": 0x31, "req": 0x30, "sub": 0x21, "pull": 0x51, "bus": 0x70,
        "surveyor": 0x62, "respondent": 0x63}
RCVMAX = ["0", "64", "def"]
TTL = 8
SIZES = [0, 1, 2, 3, 4, 5, 7, 8, 9, 15, 16, 17, 31, 32, 33, 48, 60, 63, 64]


def hx(b):
    return b.hex() if b else "-"


def be64(n):
    return (n & (2 ** 64 - 1)).to_bytes(8, "big")


class Cfg:
    def __init__(self, tran, proto, raw, rcvmax, default):
        self.tran, self.proto, self.raw, self.rcvmax = tran, proto, raw, rcvmax
        self.rcvnum = default if rcvmax == "def" else int(rcvmax)
        self.sub = b"AB" if proto == "sub" else b""
        self.key = f"{tran}:{proto}{'-raw' if raw else ''}:{rcvmax}"

    def kind(self):
        return "ipc" if self.tran == "ipc" else "tcp"

    def open_line(self):
        return f"open {self.tran} {self.proto} {self.raw} {self.rcvmax} {TTL} {hx(self.sub)}"

    def model_prefix(self, busy):
        return f"sess {self.kind()} {self.rcvnum} {self.proto} {self.raw} {TTL} {hx(self.sub)} {1 if busy else 0}"

    def limit(self):
        return self.rcvnum if self.rcvnum else 2 ** 60 - 1


# ------------------------------------------------------------------ session generation
def payload(r, cfg, maxlen):
    """a protocol-shaped payload for the socket under test (what a well-behaved peer would put in a frame)"""
    p = cfg.proto
    if p in ("rep", "respondent"):
        hops = r.weighted([(0, 5), (1, 2), (2, 1), (3, 1)])
        h = b"".join(bytes([r.below(128), r.below(256), r.below(256), r.below(256)]) for _ in range(hops))
        h += bytes([0x80 | r.below(128), r.below(256), r.below(256), r.below(256)])
    elif p in ("req", "surveyor"):
        h = bytes([0x80 | r.below(128), r.below(256), r.below(256), r.below(256)])
    elif p == "pair1":
        h = bytes([0, 0, 0, r.range(1, 3)])
    elif p == "sub":
        h = cfg.sub if r.chance(3, 4) else b"Ax"
    else:
        h = b""
    room = max(0, maxlen - len(h))
    n = r.choice([s for s in SIZES if s <= room] or [0])
    return h + r.bytes(n)


def frame(cfg, pl, declared=None, typebyte=1):
    f = be64(len(pl) if declared is None else declared) + pl
    return (bytes([typebyte]) + f) if cfg.tran == "ipc" else f


def handshake(proto):
    return bytes([0, 0x53, 0x50, 0, proto >> 8, proto & 255, 0, 0])


def cut(r, data, ncuts=None):
    if not data:
        return []
    k = r.weighted([(0, 3), (1, 3), (2, 2), (3, 1)]) if ncuts is None else ncuts
    pts = sorted({r.range(1, max(1, len(data) - 1)) for _ in range(k)}) if len(data) > 1 else []
    out, last = [], 0
    for p in pts:
        out.append(data[last:p]); last = p
    out.append(data[last:])
    return [c for c in out if c]


def valid_payloads(r, cfg, n=None):
    lim = min(cfg.limit(), 64)
    return [payload(r, cfg, lim) for _ in range(n if n is not None else r.range(1, 4))]


MUTATIONS = ["valid", "bitflip", "len-edit", "hs-edit", "wrong-proto", "hdr-noterm", "hdr-hops", "hdr-short", "ipc-type",
             "garbage", "http-text", "half-handshake", "oversize-body", "zero-frames"]


def gen_session(r, cfg, sid):
    """-> dict(id, kind, mode, chunks)"""
    kinds = [m for m in MUTATIONS if not (m == "ipc-type" and cfg.tran != "ipc")]
    if cfg.proto not in ("rep", "respondent", "req", "surveyor", "pair1"):
        kinds = [m for m in kinds if not m.startswith("hdr-")]
    kind = r.choice(kinds)
    pls = valid_payloads(r, cfg)
    hs = handshake(PEER[cfg.proto])
    frames = [frame(cfg, p) for p in pls]
    mode = r.weighted([("h", 6), ("x", 2), ("i", 2)])
    if kind == "bitflip":
        data = bytearray(hs + b"".join(frames))
        for _ in range(r.range(1, 3)):
            i = r.below(len(data)); data[i] ^= 1 << r.below(8)
        data = bytes(data)
    elif kind == "len-edit":
        i = r.below(len(frames))
        lim = cfg.rcvnum
        vals = [0, 1, 2 ** 31, 2 ** 32 - 1, 2 ** 63, 2 ** 64 - 1, 2 ** 60 - 1, 2 ** 60, len(pls[i]) + 1, max(0, len(pls[i]) - 1),
                2 ** 20, 65536]
        if 0 < lim < 2 ** 20:
            vals += [lim - 1, lim, lim + 1, lim + 1, lim + 1]
        else:
            vals += [2 ** 30 + 1]
        frames[i] = frame(cfg, pls[i], declared=r.choice(vals))
        data = hs + b"".join(frames)
    elif kind == "hs-edit":
        h = bytearray(hs); i = r.below(8)
        h[i] = r.choice([x for x in (0, 1, 0x53, 0x50, 0x73, 0xff, h[i] ^ 0x80) if x != h[i]])
        data = bytes(h) + b"".join(frames)
    elif kind == "wrong-proto":
        other = r.choice([x for x in (0, 0xffff, SELF[cfg.proto], 0x10, 0x11, 0x30, 0x31, 0x20, 0x21, 0x50, 0x51, 0x70, 0x62, 0x63,
                                      PEER[cfg.proto] ^ 0x100) if x != PEER[cfg.proto]])
        data = handshake(other) + b"".join(frames)
    elif kind == "hdr-noterm":
        words = r.range(1, 20)
        bad = b"".join(bytes([r.below(128), r.below(256), r.below(256), r.below(256)]) for _ in range(words)) + r.bytes(r.below(4))
        if cfg.proto == "pair1":
            bad = bytes([r.choice([0, 0, 1, 0x80]), r.below(256), r.below(2), r.below(256)]) + r.bytes(r.below(8))
        frames.insert(r.below(len(frames) + 1), frame(cfg, bad))
        data = hs + b"".join(frames)
    elif kind == "hdr-hops":
        words = r.range(TTL - 1, 20)
        bad = b"".join(bytes([r.below(128), r.below(256), r.below(256), r.below(256)]) for _ in range(words))
        bad += bytes([0x80, 0, 0, 1]) + r.bytes(r.below(9))
        if cfg.proto == "pair1":
            bad = bytes([0, 0, 0, r.choice([TTL - 1, TTL, TTL + 1, 200, 255])]) + r.bytes(r.below(9))
        frames.insert(r.below(len(frames) + 1), frame(cfg, bad))
        data = hs + b"".join(frames)
    elif kind == "hdr-short":
        bad = r.bytes(r.below(4)) if r.chance(1, 2) else bytes([0, 0, 0, 1, 0, 0])[:r.range(0, 6)]
        frames.insert(r.below(len(frames) + 1), frame(cfg, bad))
        data = hs + b"".join(frames)
    elif kind == "ipc-type":
        i = r.below(len(frames))
        frames[i] = frame(cfg, pls[i], typebyte=r.choice([0, 2, 0x80, 0xff]))
        data = hs + b"".join(frames)
    elif kind == "garbage":
        data = hs + r.bytes(r.range(1, 40))
    elif kind == "http-text":
        data = b"GET / HTTP/1.1\r\nHost: x\r\nUpgrade: websocket\r\n\r\n" if r.chance(1, 2) else hs[:4] + b"GET / HTTP/1.1\r\n\r\n"
    elif kind == "half-handshake":
        data = hs[:r.below(8)]
        mode = r.choice(["i", "h", "x"])
    elif kind == "oversize-body":
        lim = cfg.rcvnum if 0 < cfg.rcvnum < 2 ** 20 else 100000
        n = lim + r.choice([1, 2, 100])
        frames.insert(r.below(len(frames) + 1), frame(cfg, r.bytes(n)))
        data = hs + b"".join(frames)
    elif kind == "zero-frames":
        frames = [frame(cfg, b"") for _ in range(r.range(1, 12))] + frames
        data = hs + b"".join(frames)
    else:
        data = hs + b"".join(frames)
    return {"id": sid, "kind": kind, "mode": mode, "chunks": cut(r, data), "busy": False}


def truncation_sessions(r, cfg, base_id):
    """one valid session truncated at EVERY byte offset, followed by disconnect"""
    pls = valid_payloads(r, cfg, r.range(1, 2))
    data = handshake(PEER[cfg.proto]) + b"".join(frame(cfg, p) for p in pls)
    out = []
    for k in range(len(data) + 1):
        out.append({"id": f"{base_id}.{k}", "kind": "truncate", "mode": "x" if k % 5 == 4 else "h",
                    "chunks": cut(r, data[:k], 1 if k % 3 == 0 else 0), "busy": False, "offset": k, "of": len(data)})
    return out


# ------------------------------------------------------------------ groups (one nng socket each)
def build_group(cfg, sessions, flood=None):
    """-> harness lines + index of the line that belongs to each session"""
    lines = [cfg.open_line()]
    pair = cfg.proto in ("pair0", "pair1")
    for n, s in enumerate(sessions):
        if pair:
            # PAIR takes one pipe: either the control peer holds it (the hostile connection must be refused)
            # or it steps aside for the session
            s["busy"] = (n % 3 == 0)
            if not s["busy"]:
                lines.append("ctl_drop")
        exp = "1" if s.get("acc") and s.get("model", {}).get("phase") == "up" and not s["model"]["pclose"] else "0"
        lines.append(f"sess {s['id']} {s['mode']} {exp} " + " ".join(hx(c) for c in s["chunks"]))
        if pair and not s["busy"]:
            lines.append("ctl_connect")
    if flood:
        lines.append(f"flood fl {flood[0]} {hx(flood[1])}")
    lines.append("close")
    return lines


def model_lines(cfg, sessions):
    return [cfg.model_prefix(s["busy"]) + " " + " ".join(hx(c) for c in s["chunks"]) for s in sessions]


def parse_model(line):
    m = re.match(r"phase=(\w+) acc=(\d) err=(\d+) tp=(\d+) pclose=(\d) n=(\d+)(.*)$", line)
    if not m:
        return None
    toks = m.group(7).split()
    ds = [(toks[i + 1], toks[i + 2]) for i in range(0, len(toks), 3)]
    return {"phase": m.group(1), "acc": m.group(2) == "1", "err": int(m.group(3)), "tp": int(m.group(4)),
            "pclose": m.group(5) == "1", "deliv": ds}


def parse_sess(line):
    m = re.match(r"sess (\S+) wr=(\d+)/(\d+) rx=(\S+) eof=(\d) add=(\d+) rem=(\d+) ctl=(\S+) pipes=(\S+) n=(\d+)(.*)$", line)
    if not m:
        return None
    toks = m.group(11).split()
    ds = [(int(toks[i + 1]), toks[i + 2], toks[i + 3]) for i in range(0, len(toks), 4)]
    return {"id": m.group(1), "wr": int(m.group(2)), "total": int(m.group(3)), "rx": m.group(4), "eof": m.group(5) == "1",
            "add": int(m.group(6)), "rem": int(m.group(7)), "ctl": m.group(8),
            "pipes": [] if m.group(9) == "-" else [int(x) for x in m.group(9).split(",")], "deliv": ds}


def short_body(hexbody):
    """the harness prints long bodies as L<len>:<fnv64>"""
    if hexbody == "-" or len(hexbody) <= 256:
        return hexbody
    b = bytes.fromhex(hexbody)
    h = 0xcbf29ce484222325
    for x in b:
        h = ((h ^ x) * 0x100000001b3) & (2 ** 64 - 1)
    return f"L{len(b)}:{h:016x}"


def errtext(s):
    keep = [l for l in s.splitlines() if "ERROR" in l or "runtime error" in l or "SUMMARY" in l or l.strip().startswith("#")]
    return "\n".join(keep[:30]) or s[-1500:]


def run_groups(exe, groups, seed, workers=None, timeout=600):
    """groups: list of (cfg, sessions, lines).  -> list of (group, ProcResult)"""
    scratch = tempfile.mkdtemp(prefix="c11-")
    env = build.env()
    env["TMPDIR"] = scratch

    def work(item):
        n, g = item
        e = dict(env)
        if n % 2 == 0:
            e["C11_CLAMP_SEED"] = str(seed * 1000003 + n)
        return g, core.run_stream([exe], "\n".join(g[2]) + "\n", env=e, timeout=timeout)

    try:
        return core.parallel_map(work, list(enumerate(groups)), workers or core.NCPU)
    finally:
        shutil.rmtree(scratch, ignore_errors=True)


def ask_lean(component, lines):
    if not lines:
        return []
    parts = core.chunked(lines, core.NCPU)

    def work(p):
        r = core.run_stream(lean.driver_cmd(component), "\n".join(p) + "\n", timeout=900)
        return r.lines

    out = []
    for ls in core.parallel_map(work, parts):
        out += ls
    return out


def predict(groups):
    """fills s['model'] and s['acc'] for every session, rebuilds the harness lines"""
    q, owners = [], []
    for cfg, sessions, *_ in groups:
        # busy flags are assigned by build_group; do it before asking the model
        build_group(cfg, sessions)
        ml = model_lines(cfg, sessions)
        q += ml
        owners += sessions
    ans = ask_lean("hostile-model", q)
    if len(ans) != len(q):
        raise RuntimeError(f"hostile-model answered {len(ans)} of {len(q)} lines")
    for s, a, line in zip(owners, ans, q):
        s["model"] = parse_model(a)
        s["model_query"] = line
        if s["model"] is None:
            raise RuntimeError(f"hostile-model: {a[:200]} for {line[:200]}")
        s["acc"] = s["model"]["acc"]
    return [(g[0], g[1], build_group(g[0], g[1], g[3] if len(g) > 3 else None)) for g in groups]


def evaluate(groups_results, stats):
    """-> violations (list of dict), correspondence differences (list of dict)"""
    viol, corr, judge_q, judge_owner = [], [], [], []
    for (cfg, sessions, lines), r in groups_results:
        out = [l for l in r.lines]
        got = {}
        for l in out:
            p = parse_sess(l)
            if p:
                got[p["id"]] = p
        if os.environ.get("C11_DUMP") == cfg.key:
            with open("/tmp/work-C11/dump.txt", "a") as f_:
                f_.write("\n".join(a_[:150] + "\n    " + b_[:300] for a_, b_ in zip(lines, out)) + "\n=====\n")
        crashed = r.rc != 0 or not out or out[-1] != "bye"
        if crashed:
            done = len(out)
            bad_line = lines[done] if done < len(lines) else lines[-1]
            kind = "hang (watchdog / timeout)" if (r.rc in (86, -999) or any(l.startswith("WATCHDOG") for l in out)) else \
                   "sanitizer report / crash / unclean exit"
            viol.append({"kind": kind, "cfg": cfg.key, "rc": r.rc, "stderr": errtext(r.err), "lines": lines[:done + 1],
                         "at": bad_line[:300], "all_lines": lines})
            stats["crashes"] += 1
        for l in out:
            if l.startswith("open FAIL") or l.startswith("ctl_connect FAIL") or (l.startswith("flood") and "ctl=ok" not in l) or \
               (l.startswith("close") and not l.startswith("close ok")):
                viol.append({"kind": "control connection / listener stopped working", "cfg": cfg.key, "line": l[:300], "lines": lines})
            if l.startswith("close ok"):
                m = re.match(r"close ok add=(\d+) rem=(\d+) ctl_eof=(\d)", l)
                if m and (m.group(1) != m.group(2) or m.group(3) != "1"):
                    viol.append({"kind": "socket close left pipes or the control connection behind", "cfg": cfg.key, "line": l[:200],
                                 "lines": lines})
        # attribution of deliveries: nng numbers pipes consecutively per accepted connection, and the harness connects
        # strictly one after the other, so (pipe id - id of the first control pipe) is the index of the connection
        ctl0 = None
        for l in out:
            m0 = re.match(r"open ok ctlpipe=(\d+) tries=(\d+)", l)
            if m0:
                ctl0 = int(m0.group(1)) - (int(m0.group(2)) - 1)
        conn_owner, k = {}, 0
        tries = [int(x) for x in re.findall(r"^ctl_connect \S+ tries=(\d+)", "\n".join(out), re.M)]
        for l in lines:
            w = l.split(" ")
            if w[0] == "sess":
                k += 1; conn_owner[k] = w[1]
            elif w[0] == "ctl_connect":
                for _ in range(tries.pop(0) if tries else 1):
                    k += 1; conn_owner[k] = "ctl"
            elif w[0] == "flood":
                mo = re.search(r"^flood \S+ opened=(\d+)", "\n".join(out), re.M)
                for _ in range(int(mo.group(1)) if mo else int(w[2])):
                    k += 1; conn_owner[k] = "flood"
        sid_pipe = {v_: (ctl0 + k_) for k_, v_ in conn_owner.items()} if ctl0 is not None else {}
        all_added = set()
        for g_ in got.values():
            all_added.update(g_["pipes"])
        extra = {}
        for l in out:
            toks = l.split(" ")
            if " D " not in l:
                continue
            i = toks.index("D")
            while i + 3 < len(toks) + 1 and i < len(toks) and toks[i] == "D":
                p_, h_, b_ = int(toks[i + 1]), toks[i + 2], toks[i + 3]
                owner = conn_owner.get((p_ - ctl0) % (2 ** 31 - 1) if ctl0 is not None else -1)
                extra.setdefault(owner if owner not in ("ctl", "flood") else None, []).append((h_, b_))
                i += 4
        for s in sessions:
            g = got.get(s["id"])
            if not g:
                continue
            stats["executed"] += 1
            m = s["model"]
            mine = extra.get(s["id"], [])
            s["impl"] = mine
            hist = stats["by"].setdefault(f"{cfg.tran}|{cfg.proto}{'-raw' if cfg.raw else ''}|{s['kind']}", [0, 0, 0, 0])
            hist[0] += 1
            mo = "deliver" if m["deliv"] else ("disconnect" if (m["phase"] == "dead" or m["pclose"]) else "drop")
            io = "deliver" if mine else ("disconnect" if g["eof"] and s["mode"] != "x" and (m["phase"] == "dead" or m["pclose"]) else "drop")
            stats["model_outcome"][mo] = stats["model_outcome"].get(mo, 0) + 1
            stats["impl_outcome"][io] = stats["impl_outcome"].get(io, 0) + 1
            hist[1 + ["deliver", "drop", "disconnect"].index(mo)] += 1
            stats["modes"][s["mode"]] = stats["modes"].get(s["mode"], 0) + 1
            stats["rcvmax"][cfg.rcvmax] = stats["rcvmax"].get(cfg.rcvmax, 0) + 1
            # --- property-level observations
            pair = cfg.proto in ("pair0", "pair1")
            if pair and s["busy"] and (mine or g["ctl"] != "ok"):
                # a PAIR socket that lets a second connection in (or drops its peer for it) is PAIR's own exclusivity
                # rule (property C08), timing dependent; recorded, judged below as an ordinary connection
                stats["pair_second_connection_anomalies"] = stats.get("pair_second_connection_anomalies", 0) + 1
            elif g["ctl"] != "ok":
                viol.append({"kind": "control connection broken by a hostile session", "cfg": cfg.key, "session": s, "ctl": g["ctl"],
                             "lines": [lines[0], sess_line(s), "close"]})
            if s["mode"] != "x" and not g["eof"]:
                viol.append({"kind": "connection not released: nng did not close its side within 5 s after the peer's FIN",
                             "cfg": cfg.key, "session": s, "lines": [lines[0], sess_line(s), "close"]})
            if mine:
                jq = s["model_query"].split(" ")
                jq[7] = "0"   # the busy flag: see pair_second_connection_anomalies
                judge_q.append(" ".join(jq) + " => 0 " + " ".join(f"D {h} {b}" for h, b in mine))
                judge_owner.append((cfg, s, lines))
            # --- model differences
            exp = [(h, short_body(b)) for h, b in m["deliv"]]
            obs = list(mine)
            if cfg.raw and cfg.proto in ("rep", "respondent", "bus"):
                # first header word = id of the delivering pipe
                ok_pipe = all(len(h) >= 8 and int(h[:8], 16) == sid_pipe.get(s["id"]) for h, _ in obs)
                obs = [("00000000" + h[8:], b) for h, b in obs]
                if obs and not ok_pipe:
                    corr.append({"what": "raw header does not start with the id of the delivering pipe", "cfg": cfg.key, "session": s})
            if not cfg.raw:
                exp = [("-", b) for _, b in exp]
                obs = [("-", b) for _, b in obs]
            # PAIR discards what it has queued for the application when its only pipe goes away (C08's business):
            # a session ending in a disconnect may lose a tail there, on every other socket the FIN is seen after the data
            exact = s["mode"] in ("h", "i") and cfg.proto not in ("pair0", "pair1")
            if s["mode"] in ("h", "i") and not exact and obs != exp and is_subseq(obs, exp):
                stats["lost_on_disconnect"] = stats.get("lost_on_disconnect", 0) + 1
            if exact and obs != exp:
                corr.append({"what": "deliveries differ from the model", "cfg": cfg.key, "session": s, "model": exp[:8], "impl": obs[:8]})
            elif not exact and not is_subseq(obs, exp) and not (pair and s["busy"]):
                corr.append({"what": "deliveries (reset session) are not a subsequence of the model's", "cfg": cfg.key, "session": s,
                             "model": exp[:8], "impl": obs[:8]})
            if sid_pipe.get(s["id"]) in all_added and not m["acc"] and not pair:
                corr.append({"what": "pipe added/not added against the model's negotiation+pipe_start decision", "cfg": cfg.key,
                             "session": s, "add": g["add"], "model_acc": m["acc"]})
            if exact and g["wr"] >= 0 and g["rx"] != "-" and g["rx"][:16] != handshake(SELF[cfg.proto]).hex():
                corr.append({"what": "nng's negotiation bytes differ", "cfg": cfg.key, "session": s, "rx": g["rx"]})
        for owner, ds in extra.items():
            if owner is None:
                viol.append({"kind": "delivery from a pipe no session owns", "cfg": cfg.key, "deliveries": ds[:4], "lines": lines})
    # ---- the Lean judge on everything that was delivered
    ans = ask_lean("hostile-judge", judge_q)
    stats["judged"] += len(judge_q)
    for a, (cfg, s, lines), q in zip(ans, judge_owner, judge_q):
        if a != "ok":
            viol.append({"kind": "the application received something the specification forbids", "judge": a, "cfg": cfg.key,
                         "session": s, "delivered": s.get("impl", [])[:8], "lines": [lines[0], sess_line(s), "close"],
                         "judge_query": q[:2000]})
    return viol, corr


def is_subseq(a, b):
    it = iter(b)
    return all(any(x == y for y in it) for x in a)


def sess_line(s):
    return f"sess {s['id']} {s['mode']} {'1' if s.get('acc') else '0'} " + " ".join(hx(c) for c in s["chunks"])


def strip_session(s):
    return {k: (v if k != "chunks" else [c.hex() for c in v]) for k, v in s.items() if k not in ("model_query",)}


# ------------------------------------------------------------------ SP over UDP and ws:// (separate, smaller searches)
def udp_hdr(op, typ, p0, p1, ver=1):
    return bytes([ver, op, typ & 255, typ >> 8, p0 & 255, (p0 >> 8) & 255, p1 & 255, (p1 >> 8) & 255])


UDP_KINDS = ["valid", "len-beyond-datagram", "len-below-payload", "len-over-limit", "bad-version", "bad-opcode", "short", "zero",
             "wrong-type", "random", "cack-to-listener", "creq-refresh0"]


def gen_udp_session(r, proto, limit):
    """-> (kinds, datagrams): a CREQ then 1-5 DATA-ish datagrams from the same address"""
    peer = PEER[proto]
    dgs, kinds = [udp_hdr(1, peer, 65000, 5)], ["creq"]
    for _ in range(r.range(1, 5)):
        k = r.choice(UDP_KINDS)
        n = r.choice([s_ for s_ in SIZES if s_ <= min(limit, 64)])
        pl = r.bytes(n)
        if k == "valid":
            d = udp_hdr(0, peer, n, 0) + pl
        elif k == "len-beyond-datagram":
            d = udp_hdr(0, peer, n + r.choice([1, 2, 1000, 65535 - n]), 0) + pl
        elif k == "len-below-payload":
            d = udp_hdr(0, peer, r.below(n + 1), 0) + pl + r.bytes(r.below(40))
        elif k == "len-over-limit":
            m = min(limit, 65000) + r.choice([1, 2, 100])
            d = udp_hdr(0, peer, min(m, 65535), 0) + r.bytes(min(m, 65535))
        elif k == "bad-version":
            d = udp_hdr(0, peer, n, 0, ver=r.choice([0, 2, 255])) + pl
        elif k == "bad-opcode":
            d = udp_hdr(r.choice([4, 5, 0x80, 255]), peer, n, 0) + pl
        elif k == "short":
            d = (udp_hdr(0, peer, n, 0) + pl)[:r.below(8)]
        elif k == "zero":
            d = udp_hdr(0, peer, 0, 0) + (pl if r.chance(1, 2) else b"")
        elif k == "wrong-type":
            d = udp_hdr(0, peer ^ 1, n, 0) + pl
        elif k == "cack-to-listener":
            d = udp_hdr(2, peer, 65000, 5)
        elif k == "creq-refresh0":
            d = udp_hdr(1, peer, 65000, 0)
        else:
            d = r.bytes(r.range(0, 40))
        dgs.append(d); kinds.append(k)
    return kinds, dgs


def run_udp(exe, seed, tier, n_sessions, stats, viol, corr):
    protos = ["pull", "pair0", "sub"]
    groups = []
    for pi, proto in enumerate(protos):
        for rm in RCVMAX:
            limit = 65000 if rm in ("0", "def") else int(rm)
            sessions = []
            for i in range(max(1, n_sessions // (len(protos) * len(RCVMAX)))):
                r = core.Rng(seed, PROP, tier, "udp", proto, rm, i)
                kinds, dgs = gen_udp_session(r, proto, limit)
                sessions.append({"id": f"u{pi}{rm}.{i}", "kinds": kinds, "dgs": dgs, "fresh": 0})
                if i % 7 == 3:   # DATA from an address that never sent a CREQ
                    sessions.append({"id": f"u{pi}{rm}.{i}f", "kinds": ["unknown-peer"], "dgs": [udp_hdr(0, PEER[proto], 3, 0) + b"abc"], "fresh": 1})
            cfg = Cfg("udp", proto, 0, rm, 1 << 30)
            if proto == "pair0":
                lines = [cfg.open_line()]
                for s_ in sessions:
                    # PAIR: one association at a time; the control peer steps aside
                    lines += ["ctl_drop", f"dgram {s_['id']} {s_['fresh']} 1 " + " ".join(hx(d) for d in s_["dgs"]), "ctl_connect"]
                continue  # the udp control barrier needs the control association: PAIR is left to the stream transports
            lines = [cfg.open_line()] + [f"dgram {s_['id']} {s_['fresh']} 1 " + " ".join(hx(d) for d in s_["dgs"]) for s_ in sessions] + ["close"]
            groups.append((cfg, sessions, lines, limit))
    # model: datagram decisions
    q, owner = [], []
    for cfg, sessions, lines, limit in groups:
        for s_ in sessions:
            known = bool(s_["fresh"] == 0)
            for d in s_["dgs"]:
                q.append(f"udp {1 if known else 0} {0 if cfg.rcvmax in ('0', 'def') else cfg.rcvmax} {hx(d)}")
                owner.append(s_)
    ans = ask_lean("hostile-model", q)
    for s_ in {id(o): o for o in owner}.values():
        s_["acts"] = []
    for o, a in zip(owner, ans):
        o["acts"].append(a)
    res = run_groups(exe, [(g[0], g[1], g[2]) for g in groups], seed)
    jq, jo = [], []
    for ((cfg, sessions, lines), r), (_, _, _, limit) in zip(res, groups):
        out = r.lines
        if r.rc != 0 or not out or out[-1] != "bye":
            done = len(out)
            viol.append({"kind": "sanitizer report / crash / hang on SP/UDP datagrams", "cfg": cfg.key, "rc": r.rc, "stderr": errtext(r.err),
                         "lines": lines[:done + 1], "at": (lines[done] if done < len(lines) else lines[-1])[:300]})
            stats["crashes"] += 1
        got = {}
        for l in out:
            m = re.match(r"dgram (\S+) rx=(\S+) ctl=(\S+) pipes=(\S+) n=(\d+)(.*)$", l)
            if m:
                toks = m.group(6).split()
                got[m.group(1)] = {"rx": m.group(2), "ctl": m.group(3), "deliv": [toks[i + 3] for i in range(0, len(toks), 4)]}
            if l.startswith("open FAIL") or (l.startswith("close") and not l.startswith("close ok")):
                viol.append({"kind": "control connection / listener stopped working", "cfg": cfg.key, "line": l[:300], "lines": lines})
        for s_ in sessions:
            g = got.get(s_["id"])
            if not g:
                continue
            stats["executed"] += 1
            stats["udp_sessions"] = stats.get("udp_sessions", 0) + 1
            for k in s_["kinds"]:
                stats["udp_kinds"][k] = stats["udp_kinds"].get(k, 0) + 1
            if g["ctl"] != "ok":
                viol.append({"kind": "control connection broken by hostile datagrams", "cfg": cfg.key, "session": strip_udp(s_), "ctl": g["ctl"],
                             "lines": [lines[0], f"dgram {s_['id']} {s_['fresh']} 1 " + " ".join(hx(d) for d in s_["dgs"]), "close"]})
            # expected: the model's `data` payloads while the association is alive (a DISC(MSGSIZE) ends it)
            exp, alive = [], True
            for a, d, k in zip(s_["acts"], s_["dgs"], s_["kinds"]):
                if not alive:
                    break
                if a.startswith("data "):
                    p = a.split(" ")[1]
                    if cfg.proto != "sub" or bytes.fromhex("" if p == "-" else p).startswith(cfg.sub):
                        exp.append((p, d))
                elif a == "disc-msgsize" or a.startswith("disc ") or (a.startswith("creq") and a.endswith(" 0")):
                    alive = False
            obs = g["deliv"]
            stats["udp_delivered"] = stats.get("udp_delivered", 0) + len(obs)
            if not is_subseq(obs, [p for p, _ in exp]):
                # find the datagram for the judge's record: none allows it
                bad = next(o for o in obs if o not in [p for p, _ in exp])
                viol.append({"kind": "a datagram payload was delivered that the SP/UDP rules forbid", "cfg": cfg.key, "session": strip_udp(s_),
                             "delivered": obs[:8], "model": [p for p, _ in exp][:8], "bad": bad,
                             "lines": [lines[0], f"dgram {s_['id']} {s_['fresh']} 1 " + " ".join(hx(d) for d in s_["dgs"]), "close"]})
            elif obs != [p for p, _ in exp]:
                corr.append({"what": "udp deliveries differ from the model", "cfg": cfg.key, "session": strip_udp(s_), "model": [p for p, _ in exp][:8],
                             "impl": obs[:8]})
            for o in obs:
                dd = next((d for p, d in exp if p == o), None)
                if dd is not None:
                    jq.append(f"udp 1 {0 if cfg.rcvmax in ('0', 'def') else cfg.rcvmax} {hx(dd)} => D {o}")
                    jo.append((cfg, s_))
    for a, (cfg, s_) in zip(ask_lean("hostile-judge", jq), jo):
        stats["judged"] += 1
        if a != "ok":
            viol.append({"kind": "the application received something the specification forbids (udp)", "judge": a, "cfg": cfg.key,
                         "session": strip_udp(s_), "lines": []})
    return len(groups)


def strip_udp(s_):
    return {"id": s_["id"], "kinds": s_["kinds"], "datagrams": [d.hex() for d in s_["dgs"]], "fresh": s_["fresh"], "model": s_.get("acts")}


WS_KEY = b"dGhlIHNhbXBsZSBub25jZQ=="


def ws_upgrade(proto, **kw):
    name = {"pull": "pull", "rep": "rep", "sub": "sub", "bus": "bus"}[proto]
    h = [b"GET / HTTP/1.1", b"Host: 127.0.0.1", b"Upgrade: websocket", b"Connection: Upgrade", b"Sec-WebSocket-Key: " + WS_KEY,
         b"Sec-WebSocket-Version: 13", b"Sec-WebSocket-Protocol: " + kw.get("sub", name + ".sp.nanomsg.org").encode()]
    return b"\r\n".join(h) + b"\r\n\r\n"


def ws_frame(pl, op=2, fin=1, masked=True, declared=None, form=None):
    n = len(pl) if declared is None else declared
    b0 = (0x80 if fin else 0) | op
    m = 0x80 if masked else 0
    if form == 16 or (form is None and 126 <= n < 65536):
        h = bytes([b0, m | 126]) + n.to_bytes(2, "big")
    elif form == 64 or (form is None and n >= 65536):
        h = bytes([b0, m | 127]) + n.to_bytes(8, "big")
    else:
        h = bytes([b0, m | n])
    if masked:
        key = b"\x12\x34\x56\x78"
        return h + key + bytes(x ^ key[i % 4] for i, x in enumerate(pl))
    return h + pl


def run_ws(exe, seed, tier, n_sessions, stats, viol, corr):
    """ws://: raw HTTP upgrade + frames.  Expectations are by construction of each session (the frame rules are C16's
    theorems); observables as for the stream transports."""
    groups = []
    for proto in ("pull", "bus"):
        for rm in RCVMAX:
            cfg = Cfg("ws", proto, 0, rm, 1 << 30)
            lim = cfg.rcvnum
            sessions = []
            up = ws_upgrade(proto)
            per = max(4, n_sessions // 6)
            for i in range(per):
                r = core.Rng(seed, PROP, tier, "ws", proto, rm, i)
                kind = r.choice(["valid", "unmasked", "oversize", "huge-len", "reserved-op", "rsv-bit", "nonminimal", "cont-without-start",
                                 "http-garbage", "bad-subprotocol", "truncated-upgrade", "truncated-frame", "fragments", "ping", "sp-on-ws"])
                a, b = r.bytes(r.choice([0, 1, 5, 31, 64 if lim == 64 else 63])), r.bytes(r.choice([1, 2, 17]))
                exp = None          # None: nothing may be delivered
                if kind == "valid":
                    data, exp = up + ws_frame(a) + ws_frame(b), [a, b]
                elif kind == "unmasked":
                    data, exp = up + ws_frame(a) + ws_frame(b, masked=False) + ws_frame(a), [a]
                elif kind == "oversize":
                    big = r.bytes((lim if 0 < lim < 2 ** 20 else 2 ** 20) + 1) if lim else r.bytes(70000)
                    data, exp = up + ws_frame(a) + ws_frame(big) + ws_frame(b), ([a] if 0 < lim < 2 ** 20 else [a, big, b] if lim == 0 else [a])
                    if lim >= 2 ** 20:
                        data, exp = up + ws_frame(a) + ws_frame(b), [a, b]
                elif kind == "huge-len":
                    data, exp = up + ws_frame(a) + ws_frame(b"", declared=r.choice([2 ** 63, 2 ** 64 - 1, 2 ** 62, 2 ** 40]), form=64), [a]
                elif kind == "reserved-op":
                    data, exp = up + ws_frame(a) + ws_frame(b, op=r.choice([3, 4, 5, 6, 7, 11, 15])) + ws_frame(a), [a]
                elif kind == "rsv-bit":
                    f = bytearray(ws_frame(b)); f[0] |= r.choice([0x40, 0x20, 0x10])
                    data, exp = up + bytes(f) + ws_frame(a), []
                elif kind == "nonminimal":
                    data, exp = up + ws_frame(b, form=r.choice([16, 64])) + ws_frame(a), []
                elif kind == "cont-without-start":
                    data, exp = up + ws_frame(b, op=0) + ws_frame(a), []
                elif kind == "http-garbage":
                    data, exp = r.choice([b"GET / HTTP/1.1\r\n\r\n", b"POST /x HTTP/9.9\r\nContent-Length: 99999999999999999999\r\n\r\n",
                                          b"\x00SP\x00\x00\x50\x00\x00", r.bytes(64), b"GET / HTTP/1.1\r\n" + b"X: " + b"a" * 9000 + b"\r\n\r\n"]), []
                elif kind == "bad-subprotocol":
                    data, exp = ws_upgrade(proto, sub=r.choice(["rep.sp.nanomsg.org", "x", "", "pull.sp.nanomsg.org ,x"])) + ws_frame(a), None
                    if proto != "pull":
                        exp = None
                elif kind == "truncated-upgrade":
                    data, exp = up[:r.below(len(up))], []
                elif kind == "truncated-frame":
                    f = ws_frame(b)
                    data, exp = up + ws_frame(a) + f[:r.below(len(f))], [a]
                elif kind == "fragments":
                    data, exp = up + ws_frame(a, fin=0) + ws_frame(b"", op=9) + ws_frame(b, op=0, fin=1), [a + b]
                    if 0 < lim < len(a + b):
                        exp = []
                elif kind == "ping":
                    data, exp = up + ws_frame(b, op=9) + ws_frame(a), [a]
                else:
                    data, exp = up + handshake(PEER[proto]) + frame(Cfg("tcp", proto, 0, rm, 1 << 30), a), None
                sessions.append({"id": f"w{proto}{rm}.{i}", "kind": kind, "mode": r.choice(["h", "h", "i"]), "chunks": cut(r, data),
                                 "exp": exp, "busy": False})
            lines = [cfg.open_line()] + [f"sess {s_['id']} {s_['mode']} 0 " + " ".join(hx(c) for c in s_["chunks"]) for s_ in sessions] + \
                    [f"flood fl 12 {hx(up[:40])}", "close"]
            groups.append((cfg, sessions, lines))
    res = run_groups(exe, groups, seed)
    for (cfg, sessions, lines), r in res:
        out = r.lines
        if r.rc != 0 or not out or out[-1] != "bye":
            done = len(out)
            viol.append({"kind": "sanitizer report / crash / hang on ws://", "cfg": cfg.key, "rc": r.rc, "stderr": errtext(r.err),
                         "lines": lines[:done + 1], "at": (lines[done] if done < len(lines) else lines[-1])[:300]})
            stats["crashes"] += 1
        got = {p["id"]: p for p in (parse_sess(l) for l in out) if p}
        for l in out:
            if l.startswith("open FAIL") or (l.startswith("flood") and "ctl=ok" not in l) or (l.startswith("close") and not l.startswith("close ok")):
                viol.append({"kind": "control connection / listener stopped working", "cfg": cfg.key, "line": l[:300], "lines": lines})
        for s_ in sessions:
            g = got.get(s_["id"])
            if not g:
                continue
            stats["executed"] += 1
            stats["ws_kinds"][s_["kind"]] = stats["ws_kinds"].get(s_["kind"], 0) + 1
            mini = [lines[0], sess_line(s_), "close"]
            if g["ctl"] != "ok":
                viol.append({"kind": "control connection broken by a hostile session", "cfg": cfg.key, "session": s_, "ctl": g["ctl"], "lines": mini})
            if not g["eof"]:
                viol.append({"kind": "connection not released: nng did not close its side within 5 s after the peer's FIN", "cfg": cfg.key,
                             "session": s_, "lines": mini})
            obs = [b for (_, _, b) in g["deliv"]]
            exp = [short_body(x.hex() if x else "-") for x in (s_["exp"] or [])]
            if cfg.rcvnum and any((int(o[1:].split(":")[0]) if o.startswith("L") else (0 if o == "-" else len(o) // 2)) > cfg.rcvnum for o in obs):
                viol.append({"kind": "delivered a message larger than NNG_OPT_RECVMAXSZ (ws)", "cfg": cfg.key, "session": s_, "lines": mini})
            elif not is_subseq(obs, exp):
                viol.append({"kind": "the application received something the session cannot justify (ws)", "cfg": cfg.key, "session": s_,
                             "delivered": obs[:6], "allowed": exp[:6], "lines": mini})
            elif obs != exp:
                corr.append({"what": "ws deliveries differ from the expectation by construction", "cfg": cfg.key, "session": s_, "impl": obs[:6],
                             "model": exp[:6]})
    return len(groups)


# ------------------------------------------------------------------ run
def make_groups(seed, tier, default_rcvmax, n_mut, n_trunc):
    cfgs = [Cfg(t, p, raw, rm, default_rcvmax) for t in STREAM for (p, raw) in PROTOS for rm in RCVMAX]
    per = max(1, n_mut // len(cfgs))
    groups = []
    for ci, cfg in enumerate(cfgs):
        r = core.Rng(seed, PROP, tier, "mut", cfg.key)
        sessions = [gen_session(core.Rng(seed, PROP, tier, "mut", cfg.key, i), cfg, f"m{ci}.{i}") for i in range(per)]
        flood = (r.range(3, 40), r.choice([b"", b"\x00SP", handshake(PEER[cfg.proto])[:7], b"\xff" * 9]))
        groups.append((cfg, sessions, None, flood))
    # truncation at every offset: spread the valid sessions over the configurations
    r = core.Rng(seed, PROP, tier, "trunc")
    order = list(range(len(cfgs)))
    for k in range(n_trunc):
        cfg = cfgs[order[(k * 37 + r.below(3)) % len(cfgs)]]
        groups.append((cfg, truncation_sessions(core.Rng(seed, PROP, tier, "trunc", k), cfg, f"t{k}"), None, None))
    return groups


def run(tier, seed, replay=None):
    t0 = time.time()
    v = core.Verdict(PROP, seed)
    core.clear_replays(PROP)
    st = lean.prepare(MODULES)
    core.log(PROP, f"lean: {len(st.discharged)}/{len(st.theorems)} theorems re-checked; extract {st.extract_count} constants "
                   f"(changed: {st.extract_changed}); {st.build_s:.1f}s")
    try:
        exe = build.harness("r_hostile", ["r_hostile.c", "rawpeer.c"])
    except build.BuildError as e:
        v.violation("build", {"kind": "build", "error": str(e), "log": e.log[-4000:]}, no_input=True)
        core.write_evidence(PROP, tier, seed, "proof", {"obligations": len(st.theorems), "discharged": 0, "checker_cmd": "lake build",
                            "trusted_base": [], "explanation": "implementation or harness does not build"}, [], time.time() - t0, 1)
        return v.finish()
    m = re.search(r"def c11RecvMaxDefault : Nat := (\d+)", open(os.path.join(core.HERE, "lean", "NngModel", "Generated", "Consts.lean")).read())
    default_rcvmax = int(m.group(1)) if m else 1 << 30
    quick = tier == "quick"
    stats = {"executed": 0, "crashes": 0, "judged": 0, "by": {}, "model_outcome": {}, "impl_outcome": {}, "modes": {}, "rcvmax": {},
             "udp_kinds": {}, "ws_kinds": {}}
    viol, corr = [], []
    if not st.driver_ok:
        v.violation("driver", {"kind": "the Lean model/driver does not build", "broken": st.broken}, no_input=True)
        return v.finish()

    if replay:
        rp = json.load(open(replay))
        c = rp["config"]
        cfg = Cfg(c["transport"], c["protocol"], c["raw"], c["rcvmax"], default_rcvmax)
        sessions = []
        for s in rp.get("sessions", []):
            s = dict(s); s["chunks"] = [bytes.fromhex(x) for x in s["chunks"]]
            sessions.append(s)
        groups = [(cfg, sessions, None, tuple(rp["flood"]) if rp.get("flood") else None)]
        if rp.get("flood"):
            groups = [(cfg, sessions, None, (rp["flood"][0], bytes.fromhex(rp["flood"][1])))]
    else:
        groups = make_groups(seed, tier, default_rcvmax, 3000 if quick else 100000, 40 if quick else 600)
    # corpus: kept reproducers (raw harness lines); only crash / hang / control observables apply
    cdir = os.path.join(core.HERE, "corpus", PROP)
    cfiles = sorted(os.listdir(cdir)) if os.path.isdir(cdir) and not replay else []
    if replay and not rp.get("sessions") and rp.get("harness_lines") and not rp.get("flood"):
        cfiles = [replay]
    for cf_ in cfiles:
        path = cf_ if os.path.isabs(cf_) else os.path.join(cdir, cf_)
        ls = json.load(open(path))["harness_lines"] if path.endswith(".json") else \
            [l.strip() for l in open(path) if l.strip() and not l.startswith("#")]
        bad = None
        for attempt in range(3 if not path.endswith(".json") else 1):
            r = core.run_stream([exe], "\n".join(ls) + "\n", env=build.env(), timeout=300)
            if r.rc != 0 or not r.lines or r.lines[-1] != "bye" or any("FAIL" in l for l in r.lines):
                bad = r
                break
        if bad is not None:
            viol.append({"kind": "sanitizer report / crash / unclean exit", "cfg": ls[0].split(" ")[1] + ":" + ls[0].split(" ")[2] + ":" + ls[0].split(" ")[4],
                         "rc": bad.rc, "stderr": errtext(bad.err), "lines": ls, "all_lines": ls, "at": os.path.basename(path),
                         "failing_output": [l[:200] for l in bad.lines if "FAIL" in l][:3]})
            stats["crashes"] += 1
    if replay and cfiles:
        groups = []
    groups = predict(groups)
    nsess = sum(len(g[1]) for g in groups)
    res = run_groups(exe, groups, seed)
    vi, co = evaluate(res, stats)
    viol += vi
    corr += co
    extra_on = os.environ.get("C11_EXTRA", "")
    if extra_on:
        # EXPERIMENTAL (not part of the default run, see integration/C11.md (g)): SP/UDP datagram sessions and ws:// sessions
        t1 = time.time()
        nu = run_udp(exe, seed, tier, 360 if quick else 12000, stats, viol, corr) if "udp" in extra_on else 0
        nw = run_ws(exe, seed, tier, 240 if quick else 8000, stats, viol, corr) if "ws" in extra_on else 0
        core.log(PROP, f"udp: {nu} sockets, {stats.get('udp_sessions', 0)} datagram sessions, {stats.get('udp_delivered', 0)} payloads delivered; "
                       f"ws: {nw} sockets, {sum(stats['ws_kinds'].values())} sessions; {time.time() - t1:.1f}s")
    core.log(PROP, f"REAL: {len(groups)} sockets, {nsess} hostile sessions ({stats['executed']} executed, {stats['judged']} with deliveries "
                   f"judged); violations {len(viol)}, model differences {len(corr)}, crashes/hangs {stats['crashes']}; "
                   f"model outcomes {stats['model_outcome']}")
    from collections import Counter
    core.log(PROP, "violation kinds: " + json.dumps(Counter((x["kind"][:50] + "|" + x.get("cfg", "").split(":")[0]) for x in viol).most_common(12)))
    for c_ in [c for c in corr if "differ" in c["what"]][:int(os.environ.get("C11_DEBUG", "0"))]:
        core.log(PROP, "DIFF " + json.dumps({k: (strip_session(w) if k == "session" else w) for k, w in c_.items()})[:900])
    core.log(PROP, "difference kinds: " + json.dumps(Counter((x["what"][:50] + "|" + x.get("cfg", "").split(":")[0]) for x in corr).most_common(12)))
    found_input = False
    seen = set()
    for x in viol:
        key = (x["kind"], x.get("cfg", "").split(":")[0])
        if key in seen or len(seen) >= 4:
            continue
        seen.add(key)
        cfgkey = x.get("cfg", "::")
        t, p, rm = cfgkey.split(":")
        payload = {"kind": x["kind"],
                   "config": {"transport": t, "protocol": p.replace("-raw", ""), "raw": 1 if p.endswith("-raw") else 0, "rcvmax": rm},
                   "sessions": [strip_session(x["session"])] if "session" in x else [],
                   "harness_lines": x.get("lines", [])[:400], "detail": {k: x[k] for k in x if k not in ("session", "lines", "all_lines")},
                   "how": "./check C11 --replay <this file>   (or: feed harness_lines to .cache/h-r_hostile-asan-*/r_hostile)"}
        if "session" not in x and "all_lines" in x:
            payload["harness_lines"] = x["lines"]
        m = re.search(r"^flood \S+ (\d+) (\S+)", "\n".join(x.get("lines", [])), re.M)
        if m and "session" not in x:
            payload["flood"] = [int(m.group(1)), "" if m.group(2) == "-" else m.group(2)]
        v.violation(re.sub(r"[^a-z0-9]+", "-", x["kind"].lower())[:40] + f"-{len(v.violations)}", payload)
        found_input = True
    if stats.get("pair_second_connection_anomalies"):
        v.known_finding(f"observation outside C11: in {stats['pair_second_connection_anomalies']} session(s) a PAIR socket served a second "
                        "connection while its peer was connected (exclusivity is property C08; what it delivered was still judged here)")
    if not found_input:
        if corr:
            v.violation("corr-real", {"kind": "correspondence broken: the implementation differs from the Lean model of the connection-level "
                                              "decisions (no delivery the specification forbids was seen)",
                                      "first": {k: (strip_session(w) if k == "session" else w) for k, w in corr[0].items()},
                                      "count": len(corr), "kinds": sorted({c["what"] for c in corr})}, no_input=True)
        if not st.ok:
            v.violation("proof", {"kind": "proof obligation no longer checks", "broken": st.broken, "log": st.log[-3000:]}, no_input=True)
    distinct = len({(g[0].key, tuple(s["chunks"])) for g in groups for s in g[1]})
    cov = {
        "obligations": len(st.theorems), "discharged": len(st.discharged),
        "checker_cmd": "lake build NngModel.Props.C11 && lake env lean <#print axioms for each theorem>",
        "trusted_base": ["Lean 4.33.0 kernel", "axioms: " + ", ".join(sorted({a for x in st.axioms.values() if x for a in x})),
                         "vlib/extract_c01.py + extract_c11.py (handshake bytes, header widths, NNI_MAX_STREAM_MSGSZ, ipc type byte, default "
                         "RECVMAXSZ, protocol numbers, place of the peer-protocol test, SP/UDP header layout and limits)",
                         "harness/rawpeer.c + harness/r_hostile.c (the raw peers and the observing application)",
                         "Linux sockets/epoll, gcc ASan/UBSan/LSan (crash and memory-safety oracle), SIGALRM watchdog (hang oracle)"],
        "theorems": st.discharged, "axioms": st.axioms, "broken": st.broken,
        "partial": "C11 is PARTIAL: the theorems carry the decision functions (handshake, size rule before allocation, nothing after a "
                   "rejected frame, truncation prefix, per-connection state, protocol headers, SP/UDP header rule, WS rules by C16); "
                   "'never crashes / hangs / corrupts memory on any byte string' is supported by the stream search below, not proved",
        "evaluations": stats["executed"], "distinct_nontrivial": distinct,
        "rule": "sessions from splitmix64(seed,C11,tier,kind,config,i): valid sessions (Lean-shaped frames for the protocol under test), "
                "mutations " + ",".join(MUTATIONS) + "; truncation of valid sessions at every byte offset; random write cuts; "
                "end modes h (FIN, wait for nng's close) / x (RST) / i (idle during a control exchange); flood of 3-40 connections per "
                "socket; nng-side short reads by the NNG_VERIF clamp in every second process; rcvmax 0 / 64 / default",
        "real": {"sockets": len(groups), "sessions": nsess, "executed": stats["executed"], "judged_with_deliveries": stats["judged"],
                 "violations": len(viol), "model_differences": len(corr), "crashes_or_hangs": stats["crashes"],
                 "model_outcome": stats["model_outcome"], "impl_outcome": stats["impl_outcome"], "end_modes": stats["modes"],
                 "rcvmax": stats["rcvmax"], "pair_lost_on_disconnect": stats.get("lost_on_disconnect", 0),
                 "pair_second_connection_anomalies": stats.get("pair_second_connection_anomalies", 0),
                 "udp": {"sessions": stats.get("udp_sessions", 0), "payloads_delivered": stats.get("udp_delivered", 0), "datagram_kinds": stats["udp_kinds"]},
                 "ws": {"session_kinds": stats["ws_kinds"]},
                 "histogram_transport|protocol|mutation -> [sessions, deliver, drop, disconnect]": stats["by"]},
        "samples": [sess_line(groups[0][1][0])[:300], groups[0][2][0]] if groups and groups[0][1] else [],
        "extract_changed": st.extract_changed,
    }
    core.write_evidence(PROP, tier, seed, "proof", cov,
                        ["Model/Hostile.lean + Model/SpStream.lean mirror the negotiation test, the receive state machine with the size rule, "
                         "the protocols' pipe_start / receive callbacks and udp.c's header decisions; tie = REAL differential runs above",
                         "the application keeps receiving (always-armed receiver); replies go to the control peer only",
                         "crash / hang / memory-corruption freedom is searched (sanitizers, watchdog, control connection), not proved"],
                        time.time() - t0, len(v.violations))
    return v.finish()
