"""C11 — hostile or broken peers cannot crash, wedge or bypass size limits (PARTIAL).

Proof part: Props/C11.lean (decision functions of the connection level, all byte strings).
Search part (supports the unprovable remainder): REAL executor harness/r_hostile.c — an nng listener per
(transport, protocol, rcvmax), a well-behaved control connection, and hostile sessions (valid sessions from the
Lean encoder, mutations, truncation at every byte offset, idle / half handshakes, floods).  Per session the Lean
model predicts what is delivered; the Lean judge (specification only) decides whether what the implementation
delivered is allowed.

Verdicts: delivery the judge forbids / control connection broken / connection never released / crash / hang
=> VIOLATION with replay; model differences without a property violation => correspondence (no-failing-input-found).
"""
import os, re, sys, json, time, shutil, tempfile, subprocess, shlex
from .. import core, lean, build, extract

PROP = "C11"
MODULES = ["NngModel.Props.C11", "NngModel.Props.C11Net"]

STREAM = ["tcp", "ipc", "sfd"]
PROTOS = [("pair0", 0), ("pair1", 0), ("rep", 0), ("req", 0), ("sub", 0), ("pull", 0), ("bus", 0), ("surveyor", 0),
          ("respondent", 0), ("rep", 1), ("req", 1), ("pair1", 1)]
PEER = {"pair0": 0x10, "pair1": 0x11, "rep": 0x30, "req": 0x31, "sub": 0x20, "pull": 0x50, "bus": 0x70,
        "surveyor": 0x63, "respondent": 0x62}
SELF = {"pair0": 0x10, "pair1": 0x11, "rep": 0x31, "req": 0x30, "sub": 0x21, "pull": 0x51, "bus": 0x70,
        "surveyor": 0x62, "respondent": 0x63}
RCVMAX = ["0", "64", "def"]
TTL = 8
SIZES = [0, 1, 2, 3, 4, 5, 7, 8, 9, 15, 16, 17, 31, 32, 33, 48, 60, 63, 64]


def hx(b):
    return b.hex() if b else "-"


def be64(n):
    return (n & (2 ** 64 - 1)).to_bytes(8, "big")


class Cfg:
    def __init__(self, tran, proto, raw, rcvmax, default):
        self.tran, self.proto, self.raw, self.rcvmax = tran, proto, raw, rcvmax
        self.rcvnum = default if rcvmax == "def" else int(rcvmax)
        self.sub = b"AB" if proto == "sub" else b""
        self.key = f"{tran}:{proto}{'-raw' if raw else ''}:{rcvmax}"

    def kind(self):
        return "ipc" if self.tran == "ipc" else "tcp"

    def open_line(self):
        return f"open {self.tran} {self.proto} {self.raw} {self.rcvmax} {TTL} {hx(self.sub)}"

    def model_prefix(self, busy):
        return f"sess {self.kind()} {self.rcvnum} {self.proto} {self.raw} {TTL} {hx(self.sub)} {1 if busy else 0}"

    def limit(self):
        return self.rcvnum if self.rcvnum else 2 ** 60 - 1


# ------------------------------------------------------------------ session generation
def payload(r, cfg, maxlen):
    """a protocol-shaped payload for the socket under test (what a well-behaved peer would put in a frame)"""
    p = cfg.proto
    if p in ("rep", "respondent"):
        hops = r.weighted([(0, 5), (1, 2), (2, 1), (3, 1)])
        h = b"".join(bytes([r.below(128), r.below(256), r.below(256), r.below(256)]) for _ in range(hops))
        h += bytes([0x80 | r.below(128), r.below(256), r.below(256), r.below(256)])
    elif p in ("req", "surveyor"):
        h = bytes([0x80 | r.below(128), r.below(256), r.below(256), r.below(256)])
    elif p == "pair1":
        h = bytes([0, 0, 0, r.range(1, 3)])
    elif p == "sub":
        h = cfg.sub if r.chance(3, 4) else b"Ax"
    else:
        h = b""
    room = max(0, maxlen - len(h))
    n = r.choice([s for s in SIZES if s <= room] or [0])
    return h + r.bytes(n)


def frame(cfg, pl, declared=None, typebyte=1):
    f = be64(len(pl) if declared is None else declared) + pl
    return (bytes([typebyte]) + f) if cfg.tran == "ipc" else f


def handshake(proto):
    return bytes([0, 0x53, 0x50, 0, proto >> 8, proto & 255, 0, 0])


def cut(r, data, ncuts=None):
    if not data:
        return []
    k = r.weighted([(0, 3), (1, 3), (2, 2), (3, 1)]) if ncuts is None else ncuts
    pts = sorted({r.range(1, max(1, len(data) - 1)) for _ in range(k)}) if len(data) > 1 else []
    out, last = [], 0
    for p in pts:
        out.append(data[last:p]); last = p
    out.append(data[last:])
    return [c for c in out if c]


def valid_payloads(r, cfg, n=None):
    lim = min(cfg.limit(), 64)
    return [payload(r, cfg, lim) for _ in range(n if n is not None else r.range(1, 4))]


MUTATIONS = ["valid", "bitflip", "len-edit", "hs-edit", "wrong-proto", "hdr-noterm", "hdr-hops", "hdr-short", "ipc-type",
             "garbage", "http-text", "half-handshake", "oversize-body", "zero-frames"]


def gen_session(r, cfg, sid):
    """-> dict(id, kind, mode, chunks)"""
    kinds = [m for m in MUTATIONS if not (m == "ipc-type" and cfg.tran != "ipc")]
    if cfg.proto not in ("rep", "respondent", "req", "surveyor", "pair1"):
        kinds = [m for m in kinds if not m.startswith("hdr-")]
    kind = r.choice(kinds)
    pls = valid_payloads(r, cfg)
    hs = handshake(PEER[cfg.proto])
    frames = [frame(cfg, p) for p in pls]
    mode = r.weighted([("h", 6), ("x", 2), ("i", 2)])
    if kind == "bitflip":
        data = bytearray(hs + b"".join(frames))
        for _ in range(r.range(1, 3)):
            i = r.below(len(data)); data[i] ^= 1 << r.below(8)
        data = bytes(data)
    elif kind == "len-edit":
        i = r.below(len(frames))
        lim = cfg.rcvnum
        vals = [0, 1, 2 ** 31, 2 ** 32 - 1, 2 ** 63, 2 ** 64 - 1, 2 ** 60 - 1, 2 ** 60, len(pls[i]) + 1, max(0, len(pls[i]) - 1),
                2 ** 20, 65536]
        if 0 < lim < 2 ** 20:
            vals += [lim - 1, lim, lim + 1, lim + 1, lim + 1]
        else:
            vals += [2 ** 30 + 1]
        frames[i] = frame(cfg, pls[i], declared=r.choice(vals))
        data = hs + b"".join(frames)
    elif kind == "hs-edit":
        h = bytearray(hs); i = r.below(8)
        h[i] = r.choice([x for x in (0, 1, 0x53, 0x50, 0x73, 0xff, h[i] ^ 0x80) if x != h[i]])
        data = bytes(h) + b"".join(frames)
    elif kind == "wrong-proto":
        other = r.choice([x for x in (0, 0xffff, SELF[cfg.proto], 0x10, 0x11, 0x30, 0x31, 0x20, 0x21, 0x50, 0x51, 0x70, 0x62, 0x63,
                                      PEER[cfg.proto] ^ 0x100) if x != PEER[cfg.proto]])
        data = handshake(other) + b"".join(frames)
    elif kind == "hdr-noterm":
        words = r.range(1, 20)
        bad = b"".join(bytes([r.below(128), r.below(256), r.below(256), r.below(256)]) for _ in range(words)) + r.bytes(r.below(4))
        if cfg.proto == "pair1":
            bad = bytes([r.choice([0, 0, 1, 0x80]), r.below(256), r.below(2), r.below(256)]) + r.bytes(r.below(8))
        frames.insert(r.below(len(frames) + 1), frame(cfg, bad))
        data = hs + b"".join(frames)
    elif kind == "hdr-hops":
        words = r.range(TTL - 1, 20)
        bad = b"".join(bytes([r.below(128), r.below(256), r.below(256), r.below(256)]) for _ in range(words))
        bad += bytes([0x80, 0, 0, 1]) + r.bytes(r.below(9))
        if cfg.proto == "pair1":
            bad = bytes([0, 0, 0, r.choice([TTL - 1, TTL, TTL + 1, 200, 255])]) + r.bytes(r.below(9))
        frames.insert(r.below(len(frames) + 1), frame(cfg, bad))
        data = hs + b"".join(frames)
    elif kind == "hdr-short":
        bad = r.bytes(r.below(4)) if r.chance(1, 2) else bytes([0, 0, 0, 1, 0, 0])[:r.range(0, 6)]
        frames.insert(r.below(len(frames) + 1), frame(cfg, bad))
        data = hs + b"".join(frames)
    elif kind == "ipc-type":
        i = r.below(len(frames))
        frames[i] = frame(cfg, pls[i], typebyte=r.choice([0, 2, 0x80, 0xff]))
        data = hs + b"".join(frames)
    elif kind == "garbage":
        data = hs + r.bytes(r.range(1, 40))
    elif kind == "http-text":
        data = b"GET / HTTP/1.1\r\nHost: x\r\nUpgrade: websocket\r\n\r\n" if r.chance(1, 2) else hs[:4] + b"GET / HTTP/1.1\r\n\r\n"
    elif kind == "half-handshake":
        data = hs[:r.below(8)]
        mode = r.choice(["i", "h", "x"])
    elif kind == "oversize-body":
        lim = cfg.rcvnum if 0 < cfg.rcvnum < 2 ** 20 else 100000
        n = lim + r.choice([1, 2, 100])
        frames.insert(r.below(len(frames) + 1), frame(cfg, r.bytes(n)))
        data = hs + b"".join(frames)
    elif kind == "zero-frames":
        frames = [frame(cfg, b"") for _ in range(r.range(1, 12))] + frames
        data = hs + b"".join(frames)
    else:
        data = hs + b"".join(frames)
    return {"id": sid, "kind": kind, "mode": mode, "chunks": cut(r, data), "busy": False}


def truncation_sessions(r, cfg, base_id):
    """one valid session truncated at EVERY byte offset, followed by disconnect"""
    pls = valid_payloads(r, cfg, r.range(1, 2))
    data = handshake(PEER[cfg.proto]) + b"".join(frame(cfg, p) for p in pls)
    out = []
    for k in range(len(data) + 1):
        out.append({"id": f"{base_id}.{k}", "kind": "truncate", "mode": "x" if k % 5 == 4 else "h",
                    "chunks": cut(r, data[:k], 1 if k % 3 == 0 else 0), "busy": False, "offset": k, "of": len(data)})
    return out


# ------------------------------------------------------------------ groups (one nng socket each)
def build_group(cfg, sessions, flood=None):
    """-> harness lines + index of the line that belongs to each session"""
    lines = [cfg.open_line()]
    pair = cfg.proto in ("pair0", "pair1")
    for n, s in enumerate(sessions):
        if pair:
            # PAIR takes one pipe: either the control peer holds it (the hostile connection must be refused)
            # or it steps aside for the session
            s["busy"] = (n % 3 == 0)
            if not s["busy"]:
                lines.append("ctl_drop")
        exp = "1" if s.get("acc") and s.get("model", {}).get("phase") == "up" and not s["model"]["pclose"] else "0"
        lines.append(f"sess {s['id']} {s['mode']} {exp} " + " ".join(hx(c) for c in s["chunks"]))
        if pair and not s["busy"]:
            lines.append("ctl_connect")
    if flood:
        lines.append(f"flood fl {flood[0]} {hx(flood[1])}")
    lines.append("close")
    return lines


def model_lines(cfg, sessions):
    return [cfg.model_prefix(s["busy"]) + " " + " ".join(hx(c) for c in s["chunks"]) for s in sessions]


def parse_model(line):
    m = re.match(r"phase=(\w+) acc=(\d) err=(\d+) tp=(\d+) pclose=(\d) n=(\d+)(.*)$", line)
    if not m:
        return None
    toks = m.group(7).split()
    ds = [(toks[i + 1], toks[i + 2]) for i in range(0, len(toks), 3)]
    return {"phase": m.group(1), "acc": m.group(2) == "1", "err": int(m.group(3)), "tp": int(m.group(4)),
            "pclose": m.group(5) == "1", "deliv": ds}


def parse_sess(line):
    m = re.match(r"sess (\S+) wr=(\d+)/(\d+) rx=(\S+) eof=(\d) add=(\d+) rem=(\d+) ctl=(\S+) pipes=(\S+) n=(\d+)(.*)$", line)
    if not m:
        return None
    toks = m.group(11).split()
    ds = [(int(toks[i + 1]), toks[i + 2], toks[i + 3]) for i in range(0, len(toks), 4)]
    return {"id": m.group(1), "wr": int(m.group(2)), "total": int(m.group(3)), "rx": m.group(4), "eof": m.group(5) == "1",
            "add": int(m.group(6)), "rem": int(m.group(7)), "ctl": m.group(8),
            "pipes": [] if m.group(9) == "-" else [int(x) for x in m.group(9).split(",")], "deliv": ds}


def short_body(hexbody):
    """the harness prints long bodies as L<len>:<fnv64>"""
    if hexbody == "-" or len(hexbody) <= 256:
        return hexbody
    b = bytes.fromhex(hexbody)
    h = 0xcbf29ce484222325
    for x in b:
        h = ((h ^ x) * 0x100000001b3) & (2 ** 64 - 1)
    return f"L{len(b)}:{h:016x}"


def errtext(s):
    keep = [l for l in s.splitlines() if "ERROR" in l or "runtime error" in l or "SUMMARY" in l or l.strip().startswith("#")]
    return "\n".join(keep[:30]) or s[-1500:]


def run_groups(exe, groups, seed, workers=None, timeout=600):
    """groups: list of (cfg, sessions, lines).  -> list of (group, ProcResult)"""
    scratch = tempfile.mkdtemp(prefix="c11-")
    env = build.env()
    env["TMPDIR"] = scratch

    def work(item):
        n, g = item
        e = dict(env)
        if n % 2 == 0:
            e["C11_CLAMP_SEED"] = str(seed * 1000003 + n)
        return g, core.run_stream([exe], "\n".join(g[2]) + "\n", env=e, timeout=timeout)

    try:
        return core.parallel_map(work, list(enumerate(groups)), workers or core.NCPU)
    finally:
        shutil.rmtree(scratch, ignore_errors=True)


def ask_lean(component, lines):
    if not lines:
        return []
    parts = core.chunked(lines, core.NCPU)

    def work(p):
        r = core.run_stream(lean.driver_cmd(component), "\n".join(p) + "\n", timeout=900)
        return r.lines

    out = []
    for ls in core.parallel_map(work, parts):
        out += ls
    return out


def predict(groups):
    """fills s['model'] and s['acc'] for every session, rebuilds the harness lines"""
    q, owners = [], []
    for cfg, sessions, *_ in groups:
        # busy flags are assigned by build_group; do it before asking the model
        build_group(cfg, sessions)
        ml = model_lines(cfg, sessions)
        q += ml
        owners += sessions
    ans = ask_lean("hostile-model", q)
    if len(ans) != len(q):
        raise RuntimeError(f"hostile-model answered {len(ans)} of {len(q)} lines")
    for s, a, line in zip(owners, ans, q):
        s["model"] = parse_model(a)
        s["model_query"] = line
        if s["model"] is None:
            raise RuntimeError(f"hostile-model: {a[:200]} for {line[:200]}")
        s["acc"] = s["model"]["acc"]
    return [(g[0], g[1], build_group(g[0], g[1], g[3] if len(g) > 3 else None)) for g in groups]


def evaluate(groups_results, stats):
    """-> violations (list of dict), correspondence differences (list of dict)"""
    viol, corr, judge_q, judge_owner = [], [], [], []
    for (cfg, sessions, lines), r in groups_results:
        out = [l for l in r.lines]
        got = {}
        for l in out:
            p = parse_sess(l)
            if p:
                got[p["id"]] = p
        if os.environ.get("C11_DUMP") == cfg.key:
            with open("/tmp/work-C11/dump.txt", "a") as f_:
                f_.write("\n".join(a_[:150] + "\n    " + b_[:300] for a_, b_ in zip(lines, out)) + "\n=====\n")
        crashed = r.rc != 0 or not out or out[-1] != "bye"
        if crashed:
            done = len(out)
            bad_line = lines[done] if done < len(lines) else lines[-1]
            kind = "hang (watchdog / timeout)" if (r.rc in (86, -999) or any(l.startswith("WATCHDOG") for l in out)) else \
                   "sanitizer report / crash / unclean exit"
            viol.append({"kind": kind, "cfg": cfg.key, "rc": r.rc, "stderr": errtext(r.err), "lines": lines[:done + 1],
                         "at": bad_line[:300], "all_lines": lines})
            stats["crashes"] += 1
        for l in out:
            if l.startswith("open FAIL") or l.startswith("ctl_connect FAIL") or (l.startswith("flood") and "ctl=ok" not in l) or \
               (l.startswith("close") and not l.startswith("close ok")):
                viol.append({"kind": "control connection / listener stopped working", "cfg": cfg.key, "line": l[:300], "lines": lines})
            if l.startswith("close ok"):
                m = re.match(r"close ok add=(\d+) rem=(\d+) ctl_eof=(\d)", l)
                if m and (m.group(1) != m.group(2) or m.group(3) != "1"):
                    viol.append({"kind": "socket close left pipes or the control connection behind", "cfg": cfg.key, "line": l[:200],
                                 "lines": lines})
        # attribution of deliveries: nng numbers pipes consecutively per accepted connection, and the harness connects
        # strictly one after the other, so (pipe id - id of the first control pipe) is the index of the connection
        ctl0 = None
        for l in out:
            m0 = re.match(r"open ok ctlpipe=(\d+) tries=(\d+)", l)
            if m0:
                ctl0 = int(m0.group(1)) - (int(m0.group(2)) - 1)
        conn_owner, k = {}, 0
        tries = [int(x) for x in re.findall(r"^ctl_connect \S+ tries=(\d+)", "\n".join(out), re.M)]
        for l in lines:
            w = l.split(" ")
            if w[0] == "sess":
                k += 1; conn_owner[k] = w[1]
            elif w[0] == "ctl_connect":
                for _ in range(tries.pop(0) if tries else 1):
                    k += 1; conn_owner[k] = "ctl"
            elif w[0] == "flood":
                mo = re.search(r"^flood \S+ opened=(\d+)", "\n".join(out), re.M)
                for _ in range(int(mo.group(1)) if mo else int(w[2])):
                    k += 1; conn_owner[k] = "flood"
        sid_pipe = {v_: (ctl0 + k_) for k_, v_ in conn_owner.items()} if ctl0 is not None else {}
        all_added = set()
        for g_ in got.values():
            all_added.update(g_["pipes"])
        extra = {}
        for l in out:
            toks = l.split(" ")
            if " D " not in l:
                continue
            i = toks.index("D")
            while i + 3 < len(toks) + 1 and i < len(toks) and toks[i] == "D":
                p_, h_, b_ = int(toks[i + 1]), toks[i + 2], toks[i + 3]
                owner = conn_owner.get((p_ - ctl0) % (2 ** 31 - 1) if ctl0 is not None else -1)
                extra.setdefault(owner if owner not in ("ctl", "flood") else None, []).append((h_, b_))
                i += 4
        for s in sessions:
            g = got.get(s["id"])
            if not g:
                continue
            stats["executed"] += 1
            m = s["model"]
            mine = extra.get(s["id"], [])
            s["impl"] = mine
            hist = stats["by"].setdefault(f"{cfg.tran}|{cfg.proto}{'-raw' if cfg.raw else ''}|{s['kind']}", [0, 0, 0, 0])
            hist[0] += 1
            mo = "deliver" if m["deliv"] else ("disconnect" if (m["phase"] == "dead" or m["pclose"]) else "drop")
            io = "deliver" if mine else ("disconnect" if g["eof"] and s["mode"] != "x" and (m["phase"] == "dead" or m["pclose"]) else "drop")
            stats["model_outcome"][mo] = stats["model_outcome"].get(mo, 0) + 1
            stats["impl_outcome"][io] = stats["impl_outcome"].get(io, 0) + 1
            hist[1 + ["deliver", "drop", "disconnect"].index(mo)] += 1
            stats["modes"][s["mode"]] = stats["modes"].get(s["mode"], 0) + 1
            stats["rcvmax"][cfg.rcvmax] = stats["rcvmax"].get(cfg.rcvmax, 0) + 1
            # --- property-level observations
            pair = cfg.proto in ("pair0", "pair1")
            if pair and s["busy"] and (mine or g["ctl"] != "ok"):
                # a PAIR socket that lets a second connection in (or drops its peer for it) is PAIR's own exclusivity
                # rule (property C08), timing dependent; recorded, judged below as an ordinary connection
                stats["pair_second_connection_anomalies"] = stats.get("pair_second_connection_anomalies", 0) + 1
            elif g["ctl"] != "ok":
                viol.append({"kind": "control connection broken by a hostile session", "cfg": cfg.key, "session": s, "ctl": g["ctl"],
                             "lines": [lines[0], sess_line(s), "close"]})
            if s["mode"] != "x" and not g["eof"]:
                viol.append({"kind": "connection not released: nng did not close its side within 5 s after the peer's FIN",
                             "cfg": cfg.key, "session": s, "lines": [lines[0], sess_line(s), "close"]})
            if mine:
                jq = s["model_query"].split(" ")
                jq[7] = "0"   # the busy flag: see pair_second_connection_anomalies
                judge_q.append(" ".join(jq) + " => 0 " + " ".join(f"D {h} {b}" for h, b in mine))
                judge_owner.append((cfg, s, lines))
            # --- model differences
            exp = [(h, short_body(b)) for h, b in m["deliv"]]
            obs = list(mine)
            if cfg.raw and cfg.proto in ("rep", "respondent", "bus"):
                # first header word = id of the delivering pipe
                ok_pipe = all(len(h) >= 8 and int(h[:8], 16) == sid_pipe.get(s["id"]) for h, _ in obs)
                obs = [("00000000" + h[8:], b) for h, b in obs]
                if obs and not ok_pipe:
                    corr.append({"what": "raw header does not start with the id of the delivering pipe", "cfg": cfg.key, "session": s})
            if not cfg.raw:
                exp = [("-", b) for _, b in exp]
                obs = [("-", b) for _, b in obs]
            # PAIR discards what it has queued for the application when its only pipe goes away (C08's business):
            # a session ending in a disconnect may lose a tail there, on every other socket the FIN is seen after the data
            exact = s["mode"] in ("h", "i") and cfg.proto not in ("pair0", "pair1")
            if s["mode"] in ("h", "i") and not exact and obs != exp and is_subseq(obs, exp):
                stats["lost_on_disconnect"] = stats.get("lost_on_disconnect", 0) + 1
            if exact and obs != exp:
                corr.append({"what": "deliveries differ from the model", "cfg": cfg.key, "session": s, "model": exp[:8], "impl": obs[:8]})
            elif not exact and not is_subseq(obs, exp) and not (pair and s["busy"]):
                corr.append({"what": "deliveries (reset session) are not a subsequence of the model's", "cfg": cfg.key, "session": s,
                             "model": exp[:8], "impl": obs[:8]})
            if sid_pipe.get(s["id"]) in all_added and not m["acc"] and not pair:
                corr.append({"what": "pipe added/not added against the model's negotiation+pipe_start decision", "cfg": cfg.key,
                             "session": s, "add": g["add"], "model_acc": m["acc"]})
            if exact and g["wr"] >= 0 and g["rx"] != "-" and g["rx"][:16] != handshake(SELF[cfg.proto]).hex():
                corr.append({"what": "nng's negotiation bytes differ", "cfg": cfg.key, "session": s, "rx": g["rx"]})
        for owner, ds in extra.items():
            if owner is None:
                viol.append({"kind": "delivery from a pipe no session owns", "cfg": cfg.key, "deliveries": ds[:4], "lines": lines})
    # ---- the Lean judge on everything that was delivered
    ans = ask_lean("hostile-judge", judge_q)
    stats["judged"] += len(judge_q)
    for a, (cfg, s, lines), q in zip(ans, judge_owner, judge_q):
        if a != "ok":
            viol.append({"kind": "the application received something the specification forbids", "judge": a, "cfg": cfg.key,
                         "session": s, "delivered": s.get("impl", [])[:8], "lines": [lines[0], sess_line(s), "close"],
                         "judge_query": q[:2000]})
    return viol, corr


def is_subseq(a, b):
    it = iter(b)
    return all(any(x == y for y in it) for x in a)


def sess_line(s):
    return f"sess {s['id']} {s['mode']} {'1' if s.get('acc') else '0'} " + " ".join(hx(c) for c in s["chunks"])


def strip_session(s):
    return {k: (v if k != "chunks" else [c.hex() for c in v]) for k, v in s.items() if k not in ("model_query",)}


# ------------------------------------------------------------------ SP over UDP (C11B)
# PAIR over udp:// works in the harness (the control peer steps aside) but PAIR announces REM_POST before it frees its slot, so a
# sender connecting at once is refused now and then (C08's business): PAIR is left to the stream transports (C11_UDP_PAIR=1 adds it)
UDP_PROTOS = [("pull", 0), ("sub", 0), ("bus", 0), ("rep", 0), ("bus", 1)] + \
             ([("pair1", 0), ("pair0", 0)] if os.environ.get("C11_UDP_PAIR") else [])
UDP_BIG = [1023, 1024, 1025, 2000, 9000, 64999, 65000]      # around NNG_UDP_COPYMAX (copy / loan paths) and the datagram limit


def udp_hdr(op, typ, p0, p1, ver=1):
    return bytes([ver & 255, op & 255, typ & 255, (typ >> 8) & 255, p0 & 255, (p0 >> 8) & 255, p1 & 255, (p1 >> 8) & 255])


UDP_KINDS = ["valid", "valid", "valid", "valid-big", "len-beyond-datagram", "len-below-payload", "len-over-limit", "len-at-limit", "bad-version",
             "bad-opcode", "short", "zero", "wrong-type-data", "random", "cack", "cack-wrong-type", "cack-refresh0", "creq-refresh",
             "creq-refresh0", "creq-wrong-type", "disc", "unknown-peer-data", "second-sender", "refused-sender", "proto-header",
             "mesh", "trailing-bytes"]


def udp_limit(rm):
    return 65000 if rm in ("0", "def") or int(rm) > 65000 else int(rm)


def gen_udp_session(r, cfg, sid):
    """-> dict(id, kinds, dgs=[(src, bytes)], nsrc): sender 0 connects (mostly properly), then 2-8 datagrams of every kind,
    other senders appear (1: a second association, 2: never connects, 3: refused), most sessions end with DISC"""
    peer, lim = PEER[cfg.proto], udp_limit(cfg.rcvmax)
    dgs, kinds = [], []

    def add(src, kind, d):
        dgs.append((src, d)); kinds.append(kind)

    def data(n=None, body=None, declared=None, typ=peer, ver=1, extra=b""):
        pl = body if body is not None else payload(r, cfg, min(lim, 64) if n is None else n)
        return udp_hdr(0, typ, len(pl) if declared is None else declared, 0, ver) + pl + extra

    first = r.weighted([("ok", 12), ("wrong-type", 1), ("refresh0", 1), ("none", 1)])
    if first == "ok":
        add(0, "creq", udp_hdr(1, peer, r.choice([65000, 0, 100, 65535]), r.choice([5, 5, 1, 60, 65535])))
    elif first == "wrong-type":
        add(0, "creq-wrong-proto", udp_hdr(1, r.choice([peer ^ 1, 0, 0xffff, SELF[cfg.proto] if SELF[cfg.proto] != peer else 0x7777]), 65000, 5))
    elif first == "refresh0":
        add(0, "creq-refresh0-new", udp_hdr(1, peer, 65000, 0))
    second_up = False
    for _ in range(r.range(2, 8)):
        k = r.choice(UDP_KINDS)
        if k == "valid":
            add(0, k, data())
        elif k == "valid-big":
            n = r.choice([x for x in UDP_BIG if x <= lim] or [lim])
            hd = payload(r, cfg, 0)      # the protocol header only
            add(0, k, data(body=hd + r.bytes(max(0, n - len(hd)))))
        elif k == "len-beyond-datagram":
            pl = payload(r, cfg, min(lim, 64))
            add(0, k, data(body=pl, declared=min(65535, len(pl) + r.choice([1, 2, 1000, 65535]))))
        elif k == "len-below-payload":
            pl = payload(r, cfg, min(lim, 64)) + r.bytes(r.range(1, 40))
            add(0, k, data(body=pl, declared=r.below(len(pl))))
        elif k == "len-over-limit":
            n = min(lim + r.choice([1, 2, 100]), 65535)
            add(0, k, data(body=r.bytes(n)))
        elif k == "len-at-limit":
            hd = payload(r, cfg, 0)
            add(0, k, data(body=hd + r.bytes(max(0, lim - len(hd)))))
        elif k == "bad-version":
            add(0, k, data(ver=r.choice([0, 2, 0x81, 255])))
        elif k == "bad-opcode":
            add(r.choice([0, 2]), k, udp_hdr(r.choice([5, 6, 0x7f, 0x80, 255]), peer, 3, 0) + b"abc")
        elif k == "mesh":
            add(0, k, udp_hdr(4, peer, 3, 0) + b"abc")
        elif k == "short":
            add(r.choice([0, 0, 2]), k, data()[:r.below(8)])
        elif k == "zero":
            add(0, k, udp_hdr(0, peer, 0, 0) + (r.bytes(r.range(1, 9)) if r.chance(1, 2) else b""))
        elif k == "wrong-type-data":
            add(0, k, data(typ=r.choice([peer ^ 1, 0, 0xffff])))
        elif k == "trailing-bytes":
            add(0, k, data(extra=r.bytes(r.range(1, 30))))
        elif k == "random":
            add(r.choice([0, 0, 2]), k, r.bytes(r.range(0, 40)))
        elif k == "cack":
            add(0, k, udp_hdr(2, peer, 65000, 5))
        elif k == "cack-wrong-type":
            add(0, k, udp_hdr(2, peer ^ 1, 65000, 5))
        elif k == "cack-refresh0":
            add(0, k, udp_hdr(2, peer, 65000, 0))
        elif k == "creq-refresh":
            add(0, k, udp_hdr(1, peer, r.choice([65000, 1, 0]), r.choice([5, 1, 65535])))
        elif k == "creq-refresh0":
            add(0, k, udp_hdr(1, peer, 65000, 0))
        elif k == "creq-wrong-type":
            add(0, k, udp_hdr(1, peer ^ 1, 65000, 5))
        elif k == "disc":
            add(r.choice([0, 0, 1, 2]), k, udp_hdr(3, peer, r.choice([0, 4, 7, 65535]), 0))
        elif k == "unknown-peer-data":
            add(2, k, data())
        elif k == "second-sender":
            if not second_up:
                add(1, "creq-second", udp_hdr(1, peer, 65000, 5)); second_up = True
            add(1, k, data())
            add(0, "valid", data())
        elif k == "refused-sender":
            add(3, k, udp_hdr(1, r.choice([peer ^ 1, 0x0100 | peer]), 65000, 5))
            add(3, "data-refused-sender", data())
        elif k == "proto-header":
            # a payload whose protocol header the socket must refuse (PAIR1 hop count / reserved bits, REP backtrace)
            if cfg.proto == "pair1":
                bad = r.choice([bytes([0, 0, 0, TTL + 1]), bytes([0, 0, 0, 255]), bytes([1, 0, 0, 1]), b"\x00\x00", b""]) + r.bytes(r.below(6))
            elif cfg.proto == "rep":
                bad = r.choice([b"", b"\x00\x00\x00", bytes([0, 0, 0, 1]) * r.range(1, 12), bytes([0, 0, 0, 1]) * (TTL + 2) + bytes([0x80, 0, 0, 1])])
            else:
                bad = r.bytes(r.below(5))
            add(0, k, data(body=bad))
    end = r.weighted([("disc", 8), ("abandon", 1)]) if cfg.proto not in ("pair0", "pair1") else "disc"
    if end == "disc":
        for s_ in sorted({s for s, _ in dgs}):
            add(s_, "end-disc", udp_hdr(3, peer, 0, 0))
    return {"id": sid, "kinds": kinds, "dgs": dgs, "nsrc": 4, "busy": False}


def udp_header_truncations(r, cfg, sid):
    """an established association, then every opcode's datagram truncated at every length 0..8 (and one byte more)"""
    peer = PEER[cfg.proto]
    dgs, kinds = [(0, udp_hdr(1, peer, 65000, 5))], ["creq"]
    full = [udp_hdr(0, peer, 1, 0) + b"x", udp_hdr(1, peer, 65000, 5), udp_hdr(2, peer, 65000, 5), udp_hdr(4, peer, 0, 0), udp_hdr(3, peer, 0, 0)]
    for f in full:
        for k in range(0, len(f)):
            dgs.append((0, f[:k])); kinds.append(f"truncated-op{f[1]}-{k}")
    dgs.append((0, payload_ok(r, cfg))); kinds.append("valid")
    dgs.append((0, udp_hdr(3, peer, 0, 0))); kinds.append("end-disc")
    return {"id": sid, "kinds": kinds, "dgs": dgs, "nsrc": 1, "busy": False}


def payload_ok(r, cfg):
    pl = payload(r, cfg, 32)
    return udp_hdr(0, PEER[cfg.proto], len(pl), 0) + pl


def udp_model_line(cfg, s):
    others = 0 if (cfg.proto in ("pair0", "pair1") and not s["busy"]) else 1
    return (f"udps {0 if cfg.rcvmax in ('0', 'def') else cfg.rcvmax} {cfg.proto} {cfg.raw} {TTL} {hx(cfg.sub)} {1 if s['busy'] else 0} {others} " +
            " ".join(f"{src}:{hx(d)}" for src, d in s["dgs"]))


def parse_udp_model(line, n):
    toks = line.split(" ")
    if not toks or toks[0] != f"n={n}" or len(toks) != n + 1:
        return None
    out = []
    for t in toks[1:]:
        act, reps, adds, reaps, dl = t.split("/")
        out.append({"act": act, "replies": [] if reps == "-" else reps.split(","), "adds": int(adds), "reaps": int(reaps),
                    "deliver": None if dl == "-" else tuple(dl.split(":"))})
    return out


def udp_harness_line(s):
    """the waits are the model's prediction; a control exchange (barrier) runs before every datagram that closes a pipe while a
    delivery may still be on its way (a closing pipe may drop what it holds), at least every 8 datagrams (the per-pipe receive queue
    holds 16), and at the end of the session (the harness does that one by itself)"""
    items, pending, since = [], False, 0
    ms = s["model"]
    for i, ((src, d), m) in enumerate(zip(s["dgs"], ms)):
        pending = pending or bool(m["deliver"])
        since += 1
        barrier = (i + 1 < len(ms) and ms[i + 1]["reaps"] > 0 and pending) or since >= 8
        if barrier:
            pending, since = False, 0
        items.append(f"{src}:{len(m['replies'])}.{m['adds']}.{m['reaps']}.{1 if barrier else 0}.{1 if m['deliver'] else 0}:{hx(d)}")
    return f"dgram {s['id']} {s['nsrc']} " + " ".join(items)


def run_udp(exe, seed, tier, n_sessions, stats, viol, corr, replay_groups=None):
    cfgs = [Cfg("udp", p, raw, rm, 1 << 30) for (p, raw) in UDP_PROTOS for rm in RCVMAX]
    per = max(2, n_sessions // len(cfgs))
    groups = list(replay_groups or [])
    for ci, cfg in enumerate(cfgs if replay_groups is None else []):
        sessions = [gen_udp_session(core.Rng(seed, PROP, tier, "udp", cfg.key, i), cfg, f"u{ci}.{i}") for i in range(per)]
        sessions.insert(per // 2, udp_header_truncations(core.Rng(seed, PROP, tier, "udp-trunc", cfg.key), cfg, f"u{ci}.t"))
        pair = cfg.proto in ("pair0", "pair1")
        for n, s in enumerate(sessions):
            s["busy"] = pair and n % 3 == 0
        groups.append((cfg, sessions))
    # ---- model
    q, owner = [], []
    for cfg, sessions in groups:
        for s in sessions:
            q.append(udp_model_line(cfg, s)); owner.append(s)
    ans = ask_lean("hostile-model", q)
    if len(ans) != len(q):
        raise RuntimeError(f"hostile-model (udps) answered {len(ans)} of {len(q)} lines")
    for s, a, line in zip(owner, ans, q):
        s["model"] = parse_udp_model(a, len(s["dgs"]))
        s["model_query"] = line
        if s["model"] is None:
            raise RuntimeError(f"hostile-model udps: {a[:200]} for {line[:200]}")
    # ---- implementation
    hgroups = []
    for cfg, sessions in groups:
        pair = cfg.proto in ("pair0", "pair1")
        lines = [cfg.open_line()]
        for s in sessions:
            if pair and not s["busy"]:
                lines.append("ctl_drop")
            lines.append(udp_harness_line(s))
            if pair and not s["busy"]:
                lines.append("ctl_connect")
        r = core.Rng(seed, PROP, tier, "udp-flood", cfg.key)
        pl = payload(r, cfg, 16)
        if replay_groups is None:
            lines.append(f"dflood fl {r.range(3, 40)} {hx(udp_hdr(1, PEER[cfg.proto], 65000, 5))} {hx(udp_hdr(0, PEER[cfg.proto], len(pl), 0) + pl)} "
                         f"{hx(udp_hdr(0, PEER[cfg.proto], 9, 0) + b'x')}")
        lines.append("close")
        hgroups.append((cfg, sessions, lines))
    res = run_groups(exe, hgroups, seed)
    jq, jo = [], []
    for (cfg, sessions, lines), r in res:
        out = r.lines
        pair = cfg.proto in ("pair0", "pair1")
        if r.rc != 0 or not out or out[-1] != "bye":
            done = len(out)
            kind = "hang (watchdog / timeout)" if (r.rc in (86, -999) or any(l.startswith("WATCHDOG") for l in out)) else \
                   "sanitizer report / crash / unclean exit"
            viol.append({"kind": kind, "cfg": cfg.key, "rc": r.rc, "stderr": errtext(r.err), "lines": lines[:done + 1],
                         "at": (lines[done] if done < len(lines) else lines[-1])[:300], "all_lines": lines})
            stats["crashes"] += 1
        got = {}
        for l in out:
            m = re.match(r"dgram (\S+) rx=(\S+) wt=(\d+) rt=(\d+) ctl=(\S+) ports=(\S+) pipes=(\S+) n=(\d+)(.*)$", l)
            if m:
                toks = m.group(9).split()
                pipes = {} if m.group(7) == "-" else {int(a.split("@")[0]): int(a.split("@")[1]) for a in m.group(7).split(",")}
                got[m.group(1)] = {"rx": [([] if x == "-" else x.split(",")) for x in m.group(2).split(";")], "wt": int(m.group(3)),
                                   "rt": int(m.group(4)), "ctl": m.group(5), "ports": [int(x) for x in m.group(6).split(",")], "pipes": pipes,
                                   "deliv": [(int(toks[i + 1]), toks[i + 2], toks[i + 3]) for i in range(0, len(toks), 4)]}
            if l.startswith("open FAIL") or l.startswith("ctl_connect FAIL") or (l.startswith("dflood") and "ctl=ok" not in l) or \
               (l.startswith("dgram") and "FAIL:usage" in l) or (l.startswith("close") and not l.startswith("close ok")):
                viol.append({"kind": "control connection / listener stopped working", "cfg": cfg.key, "line": l[:300], "lines": lines})
            if l.startswith("close ok"):
                m = re.match(r"close ok add=(\d+) rem=(\d+)", l)
                if m and m.group(1) != m.group(2):
                    viol.append({"kind": "socket close left pipes or the control connection behind", "cfg": cfg.key, "line": l[:200], "lines": lines})
            if l.startswith("dflood"):
                m = re.match(r"dflood \S+ opened=(\d+) add=(\d+)", l)
                stats["udp_flood_senders"] = stats.get("udp_flood_senders", 0) + (int(m.group(1)) if m else 0)
                # the flood's payloads: 16-byte protocol-shaped payload or nothing ('x' datagram lies about its length)
                fl = [x for x in lines if x.startswith("dflood")][0].split(" ")
                okbody = bytes.fromhex(fl[4])[8:]
                for t in re.findall(r" D \d+ (\S+) (\S+)", l):
                    body = b"" if t[1] == "-" else bytes.fromhex(t[1])
                    hd = b"" if t[0] == "-" else bytes.fromhex(t[0])
                    if not (okbody.endswith(body) and len(body) <= len(okbody)) or (udp_limit(cfg.rcvmax) < len(body)):
                        viol.append({"kind": "a datagram payload was delivered that the SP/UDP rules forbid (flood)", "cfg": cfg.key,
                                     "delivered": [hd.hex(), body.hex()], "lines": lines})
        for s in sessions:
            g = got.get(s["id"])
            if not g:
                continue
            stats["executed"] += 1
            stats["udp_sessions"] = stats.get("udp_sessions", 0) + 1
            stats["udp_datagrams"] = stats.get("udp_datagrams", 0) + len(s["dgs"])
            for k, m in zip(s["kinds"], s["model"]):
                h = stats["udp_kinds"].setdefault(k, {})
                h[m["act"]] = h.get(m["act"], 0) + 1
            hist = stats["by"].setdefault(f"udp|{cfg.proto}{'-raw' if cfg.raw else ''}|session", [0, 0, 0, 0])
            hist[0] += 1
            hist[1 + (0 if any(m["deliver"] for m in s["model"]) else (2 if any(m["reaps"] for m in s["model"]) else 1))] += 1
            mini = [lines[0]] + (["ctl_drop"] if pair and not s["busy"] else []) + [udp_harness_line(s), "close"]
            anomaly = pair and s["busy"] and (g["deliv"] or g["ctl"] != "ok")
            if anomaly:
                stats["pair_second_connection_anomalies"] = stats.get("pair_second_connection_anomalies", 0) + 1
            elif g["ctl"] != "ok":
                viol.append({"kind": "control connection broken by a hostile session", "cfg": cfg.key, "session": strip_udp(s), "ctl": g["ctl"],
                             "lines": mini})
            elif g["rt"]:
                # loopback does not lose datagrams: the control peer's message sat in nng until it was sent again
                viol.append({"kind": "a message of the well-behaved control peer was not delivered until it was repeated", "cfg": cfg.key,
                             "session": strip_udp(s), "repeated": g["rt"], "lines": mini})
            # attribution: pipe -> peer port -> sender
            port_src = {p: i for i, p in enumerate(g["ports"])}
            obs = {}
            foreign = []
            for pipe, h_, b_ in g["deliv"]:
                src = port_src.get(g["pipes"].get(pipe))
                if src is None:
                    foreign.append((pipe, h_, b_))
                else:
                    obs.setdefault(src, []).append((h_, b_))
            if foreign:
                viol.append({"kind": "delivery from a pipe no session owns", "cfg": cfg.key, "session": strip_udp(s), "deliveries": foreign[:4],
                             "lines": mini})
            stats["udp_delivered"] = stats.get("udp_delivered", 0) + len(g["deliv"])
            exp = {}
            for (src, _), m in zip(s["dgs"], s["model"]):
                if m["deliver"]:
                    exp.setdefault(src, []).append((m["deliver"][0] or "-", short_body(m["deliver"][1] or "-")))
            if cfg.raw and cfg.proto == "bus":
                ok_pipe = all(len(h_) >= 8 and g["pipes"].get(int(h_[:8], 16)) == g["ports"][src] for src, ds in obs.items() for h_, _ in ds)
                obs = {src: [("00000000" + h_[8:], b_) for h_, b_ in ds] for src, ds in obs.items()}
                if not ok_pipe:
                    corr.append({"what": "raw header does not start with the id of the delivering pipe", "cfg": cfg.key, "session": strip_udp(s)})
            if not cfg.raw:
                exp = {k: [("-", b_) for _, b_ in v] for k, v in exp.items()}
                obs = {k: [("-", b_) for _, b_ in v] for k, v in obs.items()}
            exact = not pair
            if g["deliv"]:
                jqry = s["model_query"].split(" ")
                jqry[6] = "0"
                dl = []
                for pipe, h_, b_ in g["deliv"]:
                    src = port_src.get(g["pipes"].get(pipe))
                    if src is not None:
                        dl.append(f"D {src} {h_} {b_}")
                jq.append(" ".join(jqry) + " => 0 " + " ".join(dl)); jo.append((cfg, s, mini))
            if anomaly:
                continue
            for src in sorted(set(exp) | set(obs)):
                e, o = exp.get(src, []), obs.get(src, [])
                if exact and e != o:
                    corr.append({"what": "udp deliveries differ from the model", "cfg": cfg.key, "session": strip_udp(s), "sender": src,
                                 "model": e[:8], "impl": o[:8]})
                elif not exact and not is_subseq(o, e):
                    corr.append({"what": "udp deliveries (PAIR) are not a subsequence of the model's", "cfg": cfg.key, "session": strip_udp(s),
                                 "sender": src, "model": e[:8], "impl": o[:8]})
                elif not exact and o != e:
                    stats["lost_on_disconnect"] = stats.get("lost_on_disconnect", 0) + 1
            # what nng answered to every sender
            mrx = [[] for _ in range(s["nsrc"])]
            for (src, _), m in zip(s["dgs"], s["model"]):
                mrx[src] += m["replies"]
            if mrx != g["rx"][:len(mrx)] or g["wt"]:
                corr.append({"what": "udp answers (CACK / DISC reasons) or pipe events differ from the model", "cfg": cfg.key,
                             "session": strip_udp(s), "model": mrx, "impl": g["rx"], "timed_out_waits": g["wt"]})
    for a, (cfg, s, mini), q_ in zip(ask_lean("hostile-judge", jq), jo, jq):
        stats["judged"] += 1
        if a != "ok":
            viol.append({"kind": "the application received something the specification forbids", "judge": a, "cfg": cfg.key,
                         "session": strip_udp(s), "lines": mini, "judge_query": q_[:2000]})
    return len(groups)


# ---- SP/UDP: the shared resources of a listener (C11T): the peer table against NNG_UDP_MAX_PEERS, and the special scenarios
#      of harness/r_udp6.c (colliding IPv6 address hashes, the inactivity timer)
def run_udp_limit(exe, stats, viol, corr):
    """fill the listener's peer table with well-formed CREQs from max_peers - 1 senders (the control peer holds one association);
    the Lean association model (`udps` with others = max_peers) predicts what a newcomer gets: DISC(NOBUF), no pipe, its DATA
    ignored; every existing association must keep working; after the senders leave a newcomer is admitted again."""
    cfg = Cfg("udp", "pull", 0, "def", 1 << 30)
    maxp = extract.read_generated("C11B").get("c11bUdpMaxPeers", (1024, ""))[0]
    creq, disc = udp_hdr(1, PEER["pull"], 65000, 5), udp_hdr(3, PEER["pull"], 0, 0)
    data = udp_hdr(0, PEER["pull"], 2, 0) + b"hi"
    full = {"id": "lim-full", "nsrc": 1, "busy": False, "kinds": ["creq-at-limit", "data-refused-sender"], "dgs": [(0, creq), (0, data)]}
    free = {"id": "lim-free", "nsrc": 1, "busy": False, "kinds": ["creq", "valid", "end-disc"], "dgs": [(0, creq), (0, data), (0, disc)]}
    q = [f"udps 0 pull 0 {TTL} - 0 {maxp} " + " ".join(f"{a}:{hx(d)}" for a, d in full["dgs"]),
         f"udps 0 pull 0 {TTL} - 0 1 " + " ".join(f"{a}:{hx(d)}" for a, d in free["dgs"])]
    ans = ask_lean("hostile-model", q)
    for s_, a_ in zip((full, free), ans):
        s_["model"] = parse_udp_model(a_, len(s_["dgs"]))
        if s_["model"] is None:
            raise RuntimeError(f"hostile-model udps (peer limit): {a_[:200]}")
    lines = [cfg.open_line(), f"dhold h {maxp - 1} {hx(creq)}", "ctl", udp_harness_line(full), "ctl", "dfree h", udp_harness_line(free), "close"]
    r = core.run_stream([exe], "\n".join(lines) + "\n", env=build.env(), timeout=600)
    out = r.lines
    stats["udp_limit"] = {"max_peers": maxp, "model_at_limit": [m["act"] + "/" + (",".join(m["replies"]) or "-") for m in full["model"]]}
    if r.rc != 0 or not out or out[-1] != "bye":
        viol.append({"kind": "hang (watchdog / timeout)" if r.rc in (86, -999) else "sanitizer report / crash / unclean exit", "cfg": cfg.key,
                     "rc": r.rc, "stderr": errtext(r.err), "lines": lines, "all_lines": lines, "at": "peer-limit scenario"})
        stats["crashes"] += 1
        return
    got = {}
    for l in out:
        m = re.match(r"dgram (\S+) rx=(\S+) wt=(\d+) rt=(\d+) ctl=(\S+) ports=\S+ pipes=\S+ n=(\d+)", l)
        if m:
            got[m.group(1)] = {"rx": [] if m.group(2) == "-" else m.group(2).split(","), "wt": int(m.group(3)), "ctl": m.group(5), "n": int(m.group(6))}
    mh = re.search(r"dhold h opened=(\d+) cack=(\d+) nobuf=(\d+) other=(\d+) add=(\d+)", "\n".join(out))
    mf = re.search(r"dfree h n=(\d+) rem=(\d+)", "\n".join(out))
    if not mh or not mf or [l for l in out if l.startswith("ctl ")] != ["ctl ok", "ctl ok"] or any(g["ctl"] != "ok" for g in got.values()):
        viol.append({"kind": "control connection broken by a hostile session", "cfg": cfg.key, "lines": lines, "all_lines": lines,
                     "at": "an established association stopped working while the listener's peer table was full",
                     "failing_output": [l[:200] for l in out if "FAIL" in l or l.startswith("ctl")][:6]})
        return
    stats["udp_limit"].update({"held": int(mh.group(1)), "admitted": int(mh.group(2)), "refused_while_filling": int(mh.group(3)),
                               "released": int(mf.group(2))})
    if int(mh.group(2)) != maxp - 1 or int(mh.group(5)) != maxp - 1 or int(mf.group(2)) != maxp - 1:
        corr.append({"what": "udp peer limit: admitted / released associations differ from NNG_UDP_MAX_PEERS - 1", "cfg": cfg.key,
                     "model": maxp - 1, "impl": [mh.group(0), mf.group(0)]})
    for s_ in (full, free):
        g = got.get(s_["id"])
        mrx = [x for m in s_["model"] for x in m["replies"]]
        nd = sum(1 for m in s_["model"] if m["deliver"])
        if not g or g["rx"] != mrx or g["wt"] or g["n"] != nd:
            corr.append({"what": "udp answers (CACK / DISC reasons) or pipe events differ from the model", "cfg": cfg.key, "session": strip_udp(s_),
                         "model": [mrx, nd], "impl": g})
    stats["executed"] += 2
    stats["udp_newcomer_refused_at_limit"] = 1 if got.get("lim-full", {}).get("rx") == ["d8"] else 0


def udpx_cmd(exe6):
    """harness/r_udp6.c wants ::1 and ::1:0:0:1 on lo: a private network namespace (nothing of the host is changed); without
    the privilege the harness reports SKIP for what needs the second address"""
    if shutil.which("unshare") and shutil.which("ip"):
        try:
            if subprocess.run(["unshare", "-n", "true"], capture_output=True, timeout=20).returncode == 0:
                return ["unshare", "-n", "sh", "-c", "ip link set lo up; ip -6 addr add ::1:0:0:1/128 dev lo nodad; exec " + shlex.quote(exe6)]
        except Exception:
            pass
    return [exe6]


UDPX_KINDS = {"lost_association": "a peer's disconnect made nng lose another peer's SP/UDP association (colliding address hashes)",
              "silent_peer": "an inactive SP/UDP association is never reaped (inactivity timer dead or spinning)",
              "stale_entry": "an inactive SP/UDP association is never reaped (inactivity timer dead or spinning)"}


def run_udpx(exe6, path, ls, stats, viol):
    r = core.run_stream(udpx_cmd(exe6), "\n".join(ls) + "\n", env=build.env(), timeout=300)
    name = os.path.basename(path)
    if path.endswith(".json"):
        name = (json.load(open(path)).get("detail") or {}).get("at") or name
    if any(" SKIP" in l or l.startswith("open SKIP") for l in r.lines) and r.rc == 0:
        stats.setdefault("udpx_skipped", []).append(name)
        return
    stats.setdefault("udpx_run", []).append(name)
    if r.rc != 0 or not r.lines or r.lines[-1] != "bye":
        viol.append({"kind": "hang (watchdog / timeout)" if r.rc in (86, -999) else "sanitizer report / crash / unclean exit", "cfg": "udp6:pull:def",
                     "rc": r.rc, "stderr": errtext(r.err), "lines": ls, "all_lines": ls, "at": name, "harness": "r_udp6 (in a private network namespace)"})
        stats["crashes"] += 1
    elif any("FAIL" in l for l in r.lines):
        kind = next((v_ for k_, v_ in UDPX_KINDS.items() if k_ in name), "SP/UDP scenario: the implementation differs from what the specification demands")
        viol.append({"kind": kind, "cfg": "udp6:pull:def", "lines": ls, "all_lines": ls, "at": name, "harness": "r_udp6 (in a private network namespace)",
                     "failing_output": [l[:200] for l in r.lines if "FAIL" in l][:4]})



def strip_udp(s):
    return {"id": s["id"], "kinds": s["kinds"], "datagrams": [[src, d.hex()] for src, d in s["dgs"]], "nsrc": s["nsrc"],
            "busy": s["busy"], "model": [f"{m['act']}/{','.join(m['replies']) or '-'}/{m['adds']}/{m['reaps']}" for m in s.get("model") or []]}


# ------------------------------------------------------------------ ws:// (C11B)
WS_PROTOS = [("pull", 0), ("sub", 0), ("bus", 0), ("rep", 0), ("bus", 1), ("rep", 1)]    # PAIR over ws://: not yet (see integration/C11B.md)
WS_NAME = {"pair0": "pair", "pair1": "pair1", "rep": "rep", "req": "req", "sub": "sub", "pull": "pull", "bus": "bus",
           "surveyor": "surveyor", "respondent": "respondent"}
WS_KEY = b"dGhlIHNhbXBsZSBub25jZQ=="
WS_HOST = b"127.0.0.1"
HTTP_BUF = 8160


def ws_sub(proto):
    return (WS_NAME[proto] + ".sp.nanomsg.org").encode()


def ws_head(proto, line=b"GET / HTTP/1.1", drop=(), replace=None, extra=(), eol=b"\r\n"):
    """an upgrade request; drop: header names to leave out; replace: {name: value}; extra: [(name, value)] appended"""
    hs = [(b"Host", WS_HOST), (b"Upgrade", b"websocket"), (b"Connection", b"Upgrade"), (b"Sec-WebSocket-Key", WS_KEY),
          (b"Sec-WebSocket-Version", b"13"), (b"Sec-WebSocket-Protocol", ws_sub(proto))]
    out = [line]
    for n, v in hs:
        if n in drop:
            continue
        if replace and n in replace:
            v = replace[n]
        out.append(n + b": " + v)
    for n, v in extra:
        out.append(n + b": " + v if v is not None else n)
    return eol.join(out) + eol + eol


def ws_frame(pl, op=2, fin=1, masked=True, declared=None, form=None, rsv=0, key=b"\x12\x34\x56\x78"):
    n = len(pl) if declared is None else declared
    b0 = (0x80 if fin else 0) | (rsv << 4) | op
    m = 0x80 if masked else 0
    if form == 16 or (form is None and 126 <= n < 65536):
        h = bytes([b0, m | 126]) + (n & 0xffff).to_bytes(2, "big")
    elif form == 64 or (form is None and n >= 65536):
        h = bytes([b0, m | 127]) + n.to_bytes(8, "big")
    else:
        h = bytes([b0, m | (n & 127)])
    if masked:
        return h + key + bytes(x ^ key[i % 4] for i, x in enumerate(pl))
    return h + pl


def lean_ws_frames(msgs):
    """the C16 Lean frame encoder (client role) through the driver: msgs = [(payload, fragsize, seed)] -> [frames bytes]"""
    if not msgs:
        return []
    lines = []
    for pl, frag, sd in msgs:
        lines.append(f"cfg 0 0 0 0 0 0 {frag} 1099511627776")
        lines.append(f"send - {hx(pl)} {sd}")
    parts = core.chunked(list(range(len(msgs))), core.NCPU)

    def work(idx):
        sub = []
        for i in idx:
            sub += lines[2 * i:2 * i + 2]
        r = core.run_stream(lean.driver_cmd("ws-model"), "\n".join(sub) + "\n", timeout=900)
        return r.lines

    out = []
    for idx, ls in zip(parts, core.parallel_map(work, parts)):
        if len(ls) != 2 * len(idx):
            raise RuntimeError(f"ws-model answered {len(ls)} of {2 * len(idx)} lines")
        for k in range(len(idx)):
            m = re.match(r"send rv=0 n=\d+ closed=0 ev=(\S+)$", ls[2 * k + 1])
            if not m:
                raise RuntimeError(f"ws-model: {ls[2 * k + 1][:200]}")
            out.append(b"".join(bytes.fromhex(t[2:]) for t in m.group(1).split(",") if t.startswith("t:")))
    return out


WS_HTTP_KINDS = ["bad-method", "bad-version", "missing-header", "wrong-header", "header-forms", "oversize-head", "content-length",
                 "transfer-encoding", "uri", "host", "control-char", "bare-lf", "no-colon", "leading-blank", "two-requests", "garbage"]
WS_FRAME_KINDS = ["valid", "valid", "fragments", "unmasked", "rsv-bit", "reserved-op", "nonminimal", "ctl-over-125", "cont-without-start",
                  "data-inside-fragments", "oversize-frame", "oversize-message", "huge-len", "over-maxframe", "text", "ping", "pong", "close-then-data",
                  "cut-mid-frame", "sp-on-ws", "proto-header", "ping-between-fragments", "unfinished-ping"]


def gen_ws_session(r, cfg, sid):
    """-> dict(id, kind, mode, data (bytes, to be cut), want_frames: [(payload, fragsize, seed)] placeholders)"""
    proto, lim = cfg.proto, cfg.rcvnum
    up = ws_head(proto)
    small = min(lim, 64) if lim else 64
    mode = r.weighted([("h", 6), ("x", 1), ("i", 2)])
    parts = []          # bytes or ("lean", payload, fragsize, seed)

    def valid(n=None, frag=0):
        return ("lean", payload(r, cfg, small if n is None else n), frag, r.below(2 ** 32))

    if r.chance(2, 5):
        kind = r.choice(WS_HTTP_KINDS)
        tail = [valid()]
        if kind == "bad-method":
            meth = r.choice([b"POST", b"HEAD", b"get", b"PUT", b"G", b"OPTIONS", b"GET" * 12, b"\xc3\xa9"])
            parts = [ws_head(proto, line=meth + b" / HTTP/1.1")] + tail
        elif kind == "bad-version":
            v = r.choice([b"HTTP/1.0", b"HTTP/2", b"HTTP/0.9", b"HTTP/1.2", b"http/1.1", b"HTTP/1.1 ", b"", b"HTTP/3", b"XTTP/1.1"])
            parts = [ws_head(proto, line=b"GET / " + v if v else b"GET /")] + tail
        elif kind == "missing-header":
            h = r.choice([b"Host", b"Upgrade", b"Connection", b"Sec-WebSocket-Key", b"Sec-WebSocket-Version", b"Sec-WebSocket-Protocol"])
            parts = [ws_head(proto, drop=(h,))] + tail
        elif kind == "wrong-header":
            h, v = r.choice([(b"Upgrade", b"h2c"), (b"Upgrade", b"websocketx"), (b"Upgrade", b""), (b"Connection", b"keep-alive"),
                             (b"Connection", b"close"), (b"Connection", b"Upgrade, close"), (b"Connection", b"upgradeX"),
                             (b"Sec-WebSocket-Key", b"short"), (b"Sec-WebSocket-Key", WS_KEY + b"A"), (b"Sec-WebSocket-Key", b""),
                             (b"Sec-WebSocket-Version", b"12"), (b"Sec-WebSocket-Version", b"13 "), (b"Sec-WebSocket-Version", b"013"),
                             (b"Sec-WebSocket-Version", b"8, 13"), (b"Sec-WebSocket-Protocol", b"x.sp.nanomsg.org"),
                             (b"Sec-WebSocket-Protocol", ws_sub("req" if proto != "req" else "rep")), (b"Sec-WebSocket-Protocol", b""),
                             (b"Sec-WebSocket-Protocol", ws_sub(proto) + b", chat"), (b"Sec-WebSocket-Protocol", ws_sub(proto)[:-1]),
                             (b"Sec-WebSocket-Protocol", ws_sub(proto).upper())])
            parts = [ws_head(proto, replace={h: v})] + tail
        elif kind == "header-forms":
            # forms a server may or may not accept: the model says which
            rep = r.choice([{b"Upgrade": b"WebSocket"}, {b"Connection": b"keep-alive, Upgrade"}, {b"Connection": b"keep-alive,Upgrade"},
                            {b"Connection": b"UPGRADE"}, {b"Upgrade": b"websocket, foo"}, {b"Upgrade": b"foo websocket"},
                            {b"Host": WS_HOST + b":80"}, {b"Connection": b"Upgrade   "}, {b"Upgrade": b"  websocket"}])
            parts = [ws_head(proto, replace=rep, extra=[(b"X-" + bytes([65 + r.below(26)]), b"v")])] + tail
        elif kind == "oversize-head":
            base = len(ws_head(proto, extra=[(b"X-Pad", b"")]))
            total = HTTP_BUF + r.choice([-3, -2, -1, 0, 1, 2, 3, 100, 5000])
            where = r.choice(["header", "uri", "many"])
            if where == "header":
                parts = [ws_head(proto, extra=[(b"X-Pad", b"a" * max(0, total - base))])] + tail
            elif where == "uri":
                parts = [ws_head(proto, line=b"GET /" + b"a" * max(0, total - len(up)) + b" HTTP/1.1")] + tail
            else:
                k = max(1, (total - len(up)) // 12)
                parts = [ws_head(proto, extra=[(b"X-%05d" % i, b"abc") for i in range(k)])] + tail
        elif kind == "content-length":
            v = r.choice([b"0", b"5", b"5x", b"abc", b"99999999999999999999", b"1048577", b" 3"])
            body = r.choice([b"", b"hello", b"hello!!"])
            parts = [ws_head(proto, extra=[(b"Content-Length", v)]) + body, up] + tail
        elif kind == "transfer-encoding":
            parts = [ws_head(proto, extra=[(b"Transfer-Encoding", r.choice([b"chunked", b"identity", b""]))]) + b"0\r\n\r\n"] + tail
        elif kind == "uri":
            u = r.choice([b"/x", b"*", b"/?a=b", b"//", b"/.", b"/%2f", b"http://127.0.0.1/", b"/a/../", b"", b"/\xff", b"/%zz", b"/#f"])
            parts = [ws_head(proto, line=b"GET " + u + b" HTTP/1.1")] + tail
        elif kind == "host":
            hv = r.choice([b"localhost", b"example.com", b"127.0.0.1:8080", b"127.0.0.2", b"127.0.0.1:", b""])
            if hv in (b"127.0.0.1:", b""):
                hv = b"example.org"      # stay within the Host values the model describes
            parts = [ws_head(proto, replace={b"Host": hv})] + tail
        elif kind == "control-char":
            b_ = bytearray(up); i = r.below(len(b_) - 4); b_[i] = r.choice([0, 1, 7, 0x0b, 0x1f, 0x7f, 0x80, 0xff, 0x0d])
            parts = [bytes(b_)] + tail
        elif kind == "bare-lf":
            parts = [ws_head(proto, eol=b"\n")] + tail
        elif kind == "no-colon":
            parts = [ws_head(proto, extra=[(b"NoColonHere", None)])] + tail
        elif kind == "leading-blank":
            parts = [b"\r\n" * r.range(1, 2) + up] + tail
        elif kind == "two-requests":
            first = r.choice([ws_head(proto, line=b"GET /nothing HTTP/1.1"), ws_head(proto, drop=(b"Upgrade",)),
                              ws_head(proto, line=b"GET /nothing HTTP/1.1", replace={b"Connection": b"close"}),
                              ws_head(proto, line=b"GET /nothing HTTP/1.0"), ws_head(proto, line=b"PUT / HTTP/1.1"),
                              ws_head(proto, line=b"GET /n HTTP/1.1", extra=[(b"Content-Length", b"4")]) + b"abcd"])
            parts = [first, up] + tail
        else:
            parts = [r.choice([b"\x00SP\x00\x00\x50\x00\x00", r.bytes(64), b"GET\r\n\r\n", b"\r\n\r\n", b"GET / HTTP/1.1\r\n\r\n",
                               handshake(PEER[proto]) + frame(Cfg("tcp", proto, 0, cfg.rcvmax, 1 << 30), b"abc")])]
        kind = "http-" + kind
    else:
        kind = r.choice(WS_FRAME_KINDS)
        a, b = valid(), valid()
        pa = payload(r, cfg, small)
        parts = [up]
        if kind == "valid":
            parts += [valid() for _ in range(r.range(1, 4))]
        elif kind == "fragments":
            parts += [a, valid(frag=r.choice([1, 2, 3, 7, 16])), b]
        elif kind == "unmasked":
            parts += [a, ws_frame(pa, masked=False), b]
        elif kind == "rsv-bit":
            parts += [a, ws_frame(pa, rsv=r.choice([1, 2, 4])), b]
        elif kind == "reserved-op":
            parts += [a, ws_frame(pa, op=r.choice([3, 4, 5, 6, 7, 11, 12, 15])), b]
        elif kind == "nonminimal":
            parts += [a, ws_frame(pa, form=r.choice([16, 64])), b]
        elif kind == "ctl-over-125":
            parts += [a, ws_frame(r.bytes(r.choice([126, 127, 200])), op=r.choice([9, 10, 8])), b]
        elif kind == "cont-without-start":
            parts += [a, ws_frame(pa, op=0, fin=r.below(2)), b]
        elif kind == "data-inside-fragments":
            parts += [ws_frame(pa[:2], fin=0), ws_frame(pa[2:], op=2), b]
        elif kind == "oversize-frame":
            n = (lim if 0 < lim <= 2 ** 16 else 70000) + r.choice([1, 2, 100]) if lim else 70000
            hd = payload(r, cfg, 0)
            parts += [a, ws_frame(hd + r.bytes(n - len(hd))), b]
        elif kind == "oversize-message":
            n = (lim if 0 < lim <= 2 ** 16 else 3000)
            hd = payload(r, cfg, 0)
            body = hd + r.bytes(n + r.choice([0, 1, 1, 5]) - len(hd))
            k = r.range(1, max(1, len(body) - 1))
            parts += [a, ws_frame(body[:k], fin=0), ws_frame(body[k:], op=0, fin=1), b]
        elif kind == "huge-len":
            parts += [a, ws_frame(b"", declared=r.choice([2 ** 63, 2 ** 64 - 1, 2 ** 62, 2 ** 40, 2 ** 32]), form=64), b]
        elif kind == "over-maxframe":
            parts += [a, ws_frame(b"", declared=(1 << 20) + r.choice([0, 1, 1000]), form=64)[:r.choice([14, 14, 20])]]
        elif kind == "text":
            parts += [a, ws_frame(pa, op=1), b]
        elif kind == "ping":
            parts += [ws_frame(r.bytes(r.choice([0, 1, 5, 125])), op=9), a]
        elif kind == "pong":
            parts += [ws_frame(r.bytes(r.choice([0, 3, 125])), op=10), a]
        elif kind == "close-then-data":
            parts += [a, ws_frame(r.choice([b"", b"\x03\xe8", b"\x03\xe8bye", b"\x00"]), op=8), b]
        elif kind == "cut-mid-frame":
            f = ws_frame(pa + b"tail")
            parts += [a, f[:r.range(1, len(f) - 1)]]
            mode = r.choice(["h", "x"])
        elif kind == "sp-on-ws":
            parts += [handshake(PEER[proto]) + frame(Cfg("tcp", proto, 0, cfg.rcvmax, 1 << 30), pa)]
        elif kind == "proto-header":
            if proto == "pair1":
                bad = r.choice([bytes([0, 0, 0, TTL + 1]), bytes([0, 0, 0, 255]), bytes([1, 0, 0, 1]), b"\x00\x00", b""]) + r.bytes(r.below(6))
            elif proto == "rep":
                bad = r.choice([b"", b"\x00\x00\x00", bytes([0, 0, 0, 1]) * r.range(1, 12), bytes([0, 0, 0, 1]) * (TTL + 2) + bytes([0x80, 0, 0, 1])])
            else:
                bad = r.bytes(r.below(5))
            parts += [a, ws_frame(bad), b]
        elif kind == "ping-between-fragments":
            k = r.range(0, len(pa))
            parts += [ws_frame(pa[:k], fin=0), ws_frame(r.bytes(r.choice([0, 4, 125])), op=9), ws_frame(pa[k:], op=0), b]
        elif kind == "unfinished-ping":
            parts += [a, ws_frame(b"abc", op=9, fin=0), b]
    return {"id": sid, "kind": kind, "mode": mode, "parts": parts, "busy": False}


def ws_truncations(r, cfg, base_id, what):
    """a valid upgrade (what='head': followed by one small message) or a small valid frame session cut at EVERY byte offset"""
    proto = cfg.proto
    up = ws_head(proto)
    small = min(cfg.rcvnum, 24) if cfg.rcvnum else 24
    tail = [("lean", payload(r, cfg, small), r.choice([0, 0, 3]), r.below(2 ** 32)) for _ in range(1 if what == "head" else 2)]
    return {"id": base_id, "kind": f"truncate-{what}", "mode": "h", "parts": [up] + tail, "busy": False, "every_offset": what}


def ws_resolve(sessions_all):
    """replace the ("lean", ...) placeholders by frames from the Lean encoder; expand the every-offset sessions"""
    want, where = [], []
    for s in sessions_all:
        for i, p in enumerate(s["parts"]):
            if isinstance(p, tuple):
                want.append((p[1], p[2], p[3])); where.append((s, i))
    for (s, i), f in zip(where, lean_ws_frames(want)):
        s["parts"][i] = f


def ws_model_line(cfg, s):
    return (f"wss {cfg.rcvnum} {cfg.proto} {cfg.raw} {TTL} {hx(cfg.sub)} {1 if s['busy'] else 0} {WS_HOST.hex()} {ws_sub(cfg.proto).hex()} " +
            " ".join(hx(c) for c in s["chunks"]))


def parse_ws_model(line):
    m = re.match(r"st=(\S+) up=(\d) sclose=(\d) wsclosed=(\d) tx=(\S+) tp=(\d+) pclose=(\d) n=(\d+)(.*)$", line)
    if not m:
        return None
    toks = m.group(9).split()
    return {"st": [] if m.group(1) == "-" else [int(x) for x in m.group(1).split(",")], "up": m.group(2) == "1", "sclose": m.group(3) == "1",
            "wsclosed": m.group(4) == "1", "tx": [] if m.group(5) == "-" else m.group(5).split(","), "tp": int(m.group(6)),
            "pclose": m.group(7) == "1", "deliv": [(toks[i + 1], toks[i + 2]) for i in range(0, len(toks), 3)]}


def parse_http_responses(raw):
    """-> (statuses, frames after a 101 as list of (opcode, payload))"""
    sts, frames, i = [], [], 0
    while True:
        m0 = re.match(rb"HTTP/[0-9.]+ (\d{3})", raw[i:i + 20])
        if not m0:
            break
        st = int(m0.group(1))
        j = raw.find(b"\r\n\r\n", i)
        if j < 0:
            sts.append(st)
            return sts, frames
        head = raw[i:j].decode("latin-1")
        sts.append(st)
        m = re.search(r"(?im)^content-length:\s*(\d+)", head)
        i = j + 4 + (int(m.group(1)) if m else 0)
        if st == 101:
            while i + 2 <= len(raw):
                op, n = raw[i] & 15, raw[i + 1] & 127
                i += 2
                if n == 126:
                    n = int.from_bytes(raw[i:i + 2], "big"); i += 2
                elif n == 127:
                    n = int.from_bytes(raw[i:i + 8], "big"); i += 8
                frames.append((op, raw[i:i + n])); i += n
            break
    return sts, frames


def run_ws(exe, seed, tier, n_sessions, n_trunc, stats, viol, corr, replay_groups=None):
    cfgs = [Cfg("ws", p, raw, rm, 1 << 30) for (p, raw) in WS_PROTOS for rm in RCVMAX]
    groups = []
    if replay_groups is not None:
        groups = replay_groups
    else:
        per = max(2, n_sessions // len(cfgs))
        for ci, cfg in enumerate(cfgs):
            sessions = [gen_ws_session(core.Rng(seed, PROP, tier, "ws", cfg.key, i), cfg, f"w{ci}.{i}") for i in range(per)]
            groups.append((cfg, sessions))
        rt = core.Rng(seed, PROP, tier, "ws-trunc")
        for k in range(n_trunc):
            cfg = cfgs[(k * 7 + rt.below(3)) % len(cfgs)]
            groups.append((cfg, [ws_truncations(core.Rng(seed, PROP, tier, "ws-trunc", k), cfg, f"wt{k}", "head" if k % 2 == 0 else "frames")]))
        ws_resolve([s for _, ss in groups for s in ss])
        # cut into chunks; expand every-offset sessions
        for gi, (cfg, sessions) in enumerate(groups):
            out = []
            for n, s in enumerate(sessions):
                data = b"".join(s["parts"])
                r = core.Rng(seed, PROP, tier, "ws-cut", s["id"])
                if s.get("every_offset"):
                    lo = 0 if s["every_offset"] == "head" else len(s["parts"][0])
                    hi = len(s["parts"][0]) + 8 if s["every_offset"] == "head" else len(data)
                    for k in range(lo, min(hi, len(data)) + 1):
                        out.append({"id": f"{s['id']}.{k}", "kind": s["kind"], "mode": "x" if k % 7 == 6 else "h",
                                    "chunks": cut(r, data[:k], 1 if k % 3 == 0 else 0), "busy": False, "offset": k, "of": len(data)})
                else:
                    s2 = dict(s); del s2["parts"]
                    s2["chunks"] = cut(r, data)
                    out.append(s2)
            pair = cfg.proto in ("pair0", "pair1")
            for n, s in enumerate(out):
                s["busy"] = pair and n % 3 == 0
            groups[gi] = (cfg, out)
    # ---- model
    q, owner = [], []
    for cfg, sessions in groups:
        for s in sessions:
            q.append(ws_model_line(cfg, s)); owner.append(s)
    ans = ask_lean("hostile-model", q)
    if len(ans) != len(q):
        raise RuntimeError(f"hostile-model (wss) answered {len(ans)} of {len(q)} lines")
    for s, a, line in zip(owner, ans, q):
        s["model"] = parse_ws_model(a)
        s["model_query"] = line
        if s["model"] is None:
            raise RuntimeError(f"hostile-model wss: {a[:200]} for {line[:200]}")
    # ---- implementation
    hgroups = []
    for cfg, sessions in groups:
        pair = cfg.proto in ("pair0", "pair1")
        lines = [cfg.open_line()]
        for s in sessions:
            if pair and not s["busy"]:
                lines.append("ctl_drop")
            exp = "1" if s["model"]["up"] and not s["model"]["pclose"] and not s["busy"] else "0"
            lines.append(f"sess {s['id']} {s['mode']} {exp} " + " ".join(hx(c) for c in s["chunks"]))
            if pair and not s["busy"]:
                lines.append("ctl_connect")
        if replay_groups is None:
            r = core.Rng(seed, PROP, tier, "ws-flood", cfg.key)
            up = ws_head(cfg.proto)
            lines.append(f"flood fl {r.range(3, 30)} {hx(r.choice([b'', up[:40], up[:-1], up, b'GET / HTTP/1.1' + bytes([13, 10])]))}")
        lines.append("close")
        hgroups.append((cfg, sessions, lines))
    res = run_groups(exe, hgroups, seed)
    jq, jo = [], []
    for (cfg, sessions, lines), r in res:
        out = r.lines
        pair = cfg.proto in ("pair0", "pair1")
        if r.rc != 0 or not out or out[-1] != "bye":
            done = len(out)
            kind = "hang (watchdog / timeout)" if (r.rc in (86, -999) or any(l.startswith("WATCHDOG") for l in out)) else \
                   "sanitizer report / crash / unclean exit"
            viol.append({"kind": kind, "cfg": cfg.key, "rc": r.rc, "stderr": errtext(r.err), "lines": lines[:done + 1],
                         "at": (lines[done] if done < len(lines) else lines[-1])[:300], "all_lines": lines})
            stats["crashes"] += 1
        got = {p["id"]: p for p in (parse_sess(l) for l in out) if p}
        for l in out:
            if l.startswith("open FAIL") or l.startswith("ctl_connect FAIL") or (l.startswith("flood") and "ctl=ok" not in l) or \
               (l.startswith("close") and not l.startswith("close ok")):
                viol.append({"kind": "control connection / listener stopped working", "cfg": cfg.key, "line": l[:300], "lines": lines})
            if l.startswith("close ok"):
                m = re.match(r"close ok add=(\d+) rem=(\d+) ctl_eof=(\d)", l)
                if m and (m.group(1) != m.group(2) or m.group(3) != "1"):
                    viol.append({"kind": "socket close left pipes or the control connection behind", "cfg": cfg.key, "line": l[:200], "lines": lines})
        ctl_pipes = set()
        for l in out:
            m0 = re.match(r"open ok ctlpipe=(\d+)", l)
            if m0:
                ctl_pipes.add(int(m0.group(1)))
        # attribution of deliveries by pipe id (a delivery may be logged after its session's line was printed)
        owner_of, by_sess, stray = {}, {}, []
        for sid_, g_ in got.items():
            for p_ in g_["pipes"]:
                owner_of[p_] = sid_
        for l in out:
            toks = l.split(" ")
            for i in range(len(toks) - 3):
                if toks[i] == "D" and toks[i + 1].isdigit():
                    o_ = owner_of.get(int(toks[i + 1]))
                    (by_sess.setdefault(o_, []) if o_ is not None else stray).append((toks[i + 2], toks[i + 3]))
        if stray and not any(l.startswith("flood") and " D " in l for l in out):
            viol.append({"kind": "delivery from a pipe no session owns", "cfg": cfg.key, "deliveries": stray[:4], "lines": lines})
        for s in sessions:
            g = got.get(s["id"])
            if not g:
                continue
            m = s["model"]
            stats["executed"] += 1
            stats["ws_sessions"] = stats.get("ws_sessions", 0) + 1
            mo = "deliver" if m["deliv"] else ("upgrade-no-delivery" if m["up"] else ("status-" + ",".join(str(x) for x in m["st"]) if m["st"] else
                                                                                      ("closed" if m["sclose"] else "waiting")))
            h = stats["ws_kinds"].setdefault(s["kind"], {})
            h[mo] = h.get(mo, 0) + 1
            hist = stats["by"].setdefault(f"ws|{cfg.proto}|{s['kind']}", [0, 0, 0, 0])
            hist[0] += 1
            hist[1 + (0 if m["deliv"] else (2 if (m["sclose"] or m["wsclosed"] or m["pclose"] or (m["st"] and not m["up"])) else 1))] += 1
            stats["modes"][s["mode"]] = stats["modes"].get(s["mode"], 0) + 1
            mini = [lines[0]] + (["ctl_drop"] if pair and not s["busy"] else []) + [sess_line(s), "close"]
            mine = by_sess.get(s["id"], [])
            s["impl"] = mine
            anomaly = pair and s["busy"] and (mine or g["ctl"] != "ok")
            if anomaly:
                stats["pair_second_connection_anomalies"] = stats.get("pair_second_connection_anomalies", 0) + 1
            elif g["ctl"] != "ok":
                viol.append({"kind": "control connection broken by a hostile session", "cfg": cfg.key, "session": s, "ctl": g["ctl"], "lines": mini})
            if s["mode"] != "x" and not g["eof"]:
                viol.append({"kind": "connection not released: nng did not close its side after the peer's FIN", "cfg": cfg.key, "session": s,
                             "lines": mini})
            if g["add"] > g["rem"] and cfg.proto in ("pull", "sub", "bus"):
                # (REP reads nothing more until the application answers, so it cannot notice the end of the connection)
                stats["ws_pipe_not_released"] = stats.get("ws_pipe_not_released", 0) + 1
            if mine:
                jqry = s["model_query"].split(" ")
                jqry[6] = "0"
                jq.append(" ".join(jqry) + " => 0 " + " ".join(f"D {h_} {b_}" for h_, b_ in mine)); jo.append((cfg, s, mini))
            if anomaly:
                continue
            exp = [(h_, short_body(b_)) for h_, b_ in m["deliv"]]
            obs = list(mine)
            if cfg.raw and cfg.proto in ("rep", "bus"):
                obs = [("00000000" + h_[8:], b_) for h_, b_ in obs]       # first header word: id of the delivering pipe
            if not cfg.raw:
                exp = [("-", b_) for _, b_ in exp]
                obs = [("-", b_) for _, b_ in obs]
            exact = s["mode"] in ("h", "i") and not pair
            if exact and obs != exp:
                corr.append({"what": "ws deliveries differ from the model", "cfg": cfg.key, "session": s, "model": exp[:8], "impl": obs[:8]})
            elif not exact and not is_subseq(obs, exp):
                corr.append({"what": "ws deliveries (reset / PAIR session) are not a subsequence of the model's", "cfg": cfg.key, "session": s,
                             "model": exp[:8], "impl": obs[:8]})
            elif not exact and obs != exp:
                stats["lost_on_disconnect"] = stats.get("lost_on_disconnect", 0) + 1
            if s["mode"] in ("h", "i") and g["rx"] != "-" or (s["mode"] in ("h", "i") and m["st"]):
                sts, frames = parse_http_responses(b"" if g["rx"] == "-" else bytes.fromhex(g["rx"]))
                for st in sts:
                    stats["ws_status"][str(st)] = stats["ws_status"].get(str(st), 0) + 1
                if sts != m["st"]:
                    corr.append({"what": "ws: HTTP status sequence differs from the model", "cfg": cfg.key, "session": s, "model": m["st"], "impl": sts})
                elif m["up"] and not (pair and s["busy"]):
                    # frames the receiver wrote: the model's (CLOSE with its code, PONG) first; nng may add CLOSE frames when the pipe goes away
                    # (a PONG may or may not get out before the connection goes away: only CLOSE codes are compared)
                    mt = [(int(x[:2], 16) & 15, x) for x in m["tx"]]
                    codes = [(op, pl[:2].hex()) for op, pl in frames if op == 8]
                    want = [(op, x[4:8]) for op, x in mt if op == 8]
                    if codes[:len(want)] != want:
                        corr.append({"what": "ws: frames written by the receiver (CLOSE code / PONG) differ from the model", "cfg": cfg.key,
                                     "session": s, "model": want, "impl": codes[:6]})
    for a, (cfg, s, mini), q_ in zip(ask_lean("hostile-judge", jq), jo, jq):
        stats["judged"] += 1
        if a != "ok":
            viol.append({"kind": "the application received something the specification forbids", "judge": a, "cfg": cfg.key,
                         "session": s, "delivered": s.get("impl", [])[:8], "lines": mini, "judge_query": q_[:2000]})
    return len(groups), sum(len(ss) for _, ss in groups)


# ------------------------------------------------------------------ run
def make_groups(seed, tier, default_rcvmax, n_mut, n_trunc):
    cfgs = [Cfg(t, p, raw, rm, default_rcvmax) for t in STREAM for (p, raw) in PROTOS for rm in RCVMAX]
    per = max(1, n_mut // len(cfgs))
    groups = []
    for ci, cfg in enumerate(cfgs):
        r = core.Rng(seed, PROP, tier, "mut", cfg.key)
        sessions = [gen_session(core.Rng(seed, PROP, tier, "mut", cfg.key, i), cfg, f"m{ci}.{i}") for i in range(per)]
        flood = (r.range(3, 40), r.choice([b"", b"\x00SP", handshake(PEER[cfg.proto])[:7], b"\xff" * 9]))
        groups.append((cfg, sessions, None, flood))
    # truncation at every offset: spread the valid sessions over the configurations
    r = core.Rng(seed, PROP, tier, "trunc")
    order = list(range(len(cfgs)))
    for k in range(n_trunc):
        cfg = cfgs[order[(k * 37 + r.below(3)) % len(cfgs)]]
        groups.append((cfg, truncation_sessions(core.Rng(seed, PROP, tier, "trunc", k), cfg, f"t{k}"), None, None))
    return groups


def run(tier, seed, replay=None):
    t0 = time.time()
    v = core.Verdict(PROP, seed)
    core.clear_replays(PROP)
    st = lean.prepare(MODULES)
    core.log(PROP, f"lean: {len(st.discharged)}/{len(st.theorems)} theorems re-checked; extract {st.extract_count} constants "
                   f"(changed: {st.extract_changed}); {st.build_s:.1f}s")
    try:
        exe = build.harness("r_hostile", ["r_hostile.c", "rawpeer.c"])
    except build.BuildError as e:
        v.violation("build", {"kind": "build", "error": str(e), "log": e.log[-4000:]}, no_input=True)
        core.write_evidence(PROP, tier, seed, "proof", {"obligations": len(st.theorems), "discharged": 0, "checker_cmd": "lake build",
                            "trusted_base": [], "explanation": "implementation or harness does not build"}, [], time.time() - t0, 1)
        return v.finish()
    m = re.search(r"def c11RecvMaxDefault : Nat := (\d+)", open(os.path.join(core.HERE, "lean", "NngModel", "Generated", "Consts.lean")).read())
    default_rcvmax = int(m.group(1)) if m else 1 << 30
    quick = tier == "quick"
    stats = {"executed": 0, "crashes": 0, "judged": 0, "by": {}, "model_outcome": {}, "impl_outcome": {}, "modes": {}, "rcvmax": {},
             "udp_kinds": {}, "ws_kinds": {}, "ws_status": {}}
    viol, corr = [], []
    if not st.driver_ok:
        v.violation("driver", {"kind": "the Lean model/driver does not build", "broken": st.broken}, no_input=True)
        return v.finish()

    udp_replay = ws_replay = None
    if replay:
        rp = json.load(open(replay))
        c = rp["config"]
        cfg = Cfg(c["transport"], c["protocol"], c["raw"], c["rcvmax"], default_rcvmax if c["transport"] not in ("udp", "ws") else 1 << 30)
        sessions = []
        groups = []
        if c["transport"] == "udp" and rp.get("sessions"):
            udp_replay = [(cfg, [{"id": s_["id"], "kinds": s_["kinds"], "dgs": [(a_, bytes.fromhex(b_)) for a_, b_ in s_["datagrams"]],
                                  "nsrc": s_.get("nsrc", 4), "busy": s_.get("busy", False)} for s_ in rp["sessions"]])]
        elif c["transport"] == "ws" and rp.get("sessions"):
            ws_replay = [(cfg, [dict(s_, chunks=[bytes.fromhex(x) for x in s_["chunks"]]) for s_ in rp["sessions"]])]
        else:
            for s in rp.get("sessions", []):
                s = dict(s); s["chunks"] = [bytes.fromhex(x) for x in s["chunks"]]
                sessions.append(s)
            groups = [(cfg, sessions, None, tuple(rp["flood"]) if rp.get("flood") else None)]
            if rp.get("flood"):
                groups = [(cfg, sessions, None, (rp["flood"][0], bytes.fromhex(rp["flood"][1])))]
    else:
        groups = make_groups(seed, tier, default_rcvmax, 3000 if quick else 100000, 40 if quick else 600)
        if "stream" in os.environ.get("C11_SKIP", ""):
            groups = []
    # corpus: kept reproducers (raw harness lines); only crash / hang / control observables apply
    cdir = os.path.join(core.HERE, "corpus", PROP)
    cfiles = sorted(os.listdir(cdir)) if os.path.isdir(cdir) and not replay else []
    if quick:
        cfiles = [f for f in cfiles if "_thorough_" not in f]      # scenarios with long real-time waits
    if replay and not rp.get("sessions") and rp.get("harness_lines") and not rp.get("flood"):
        cfiles = [replay]
    for cf_ in cfiles:
        path = cf_ if os.path.isabs(cf_) else os.path.join(cdir, cf_)
        ls = json.load(open(path))["harness_lines"] if path.endswith(".json") else \
            [l.strip() for l in open(path) if l.strip() and not l.startswith("#")]
        if ls and ls[0].startswith("open udp6"):
            if "udpx" not in os.environ.get("C11_SKIP", ""):
                run_udpx(build.harness("r_udp6", ["r_udp6.c"]), path, ls, stats, viol)
            continue
        bad = None
        for attempt in range(3 if not path.endswith(".json") else 1):
            r = core.run_stream([exe], "\n".join(ls) + "\n", env=build.env(), timeout=300)
            unreleased = [l for l in r.lines for m_ in [re.match(r"sess \S+ .* add=(\d+) rem=(\d+) ", l)]
                          if ls[0].startswith("open ws") and m_ and m_.group(1) != m_.group(2)]
            if r.rc != 0 or not r.lines or r.lines[-1] != "bye" or any("FAIL" in l for l in r.lines) or unreleased:
                bad = r
                break
        if bad is not None:
            viol.append({"kind": "sanitizer report / crash / unclean exit", "cfg": ls[0].split(" ")[1] + ":" + ls[0].split(" ")[2] + ":" + ls[0].split(" ")[4],
                         "rc": bad.rc, "stderr": errtext(bad.err), "lines": ls, "all_lines": ls, "at": os.path.basename(path),
                         "failing_output": [re.sub(r"rx=\S+", "rx=..", l)[:200] for l in bad.lines
                                            if "FAIL" in l or re.match(r"sess \S+ .* add=1 rem=0 ", l)][:3]})
            stats["crashes"] += 1
    if replay and cfiles:
        groups = []
    if udp_replay or ws_replay:
        groups = []
    groups = predict(groups)
    nsess = sum(len(g[1]) for g in groups)
    res = run_groups(exe, groups, seed)
    vi, co = evaluate(res, stats)
    viol += vi
    corr += co
    # SP/UDP datagram sessions (C11B) are part of every run; ws:// sessions (C11B) only with C11_EXTRA=ws — on the current tree they
    # still hit two open findings now and then (see integration/C11B.md (e)).  C11_SKIP=stream,udp,ws leaves parts out (development).
    skip = os.environ.get("C11_SKIP", "")
    if "ws" not in os.environ.get("C11_EXTRA", ""):
        skip += ",ws"
    t1 = time.time()
    nu = nw = nws = 0
    if (not replay and "udp" not in skip) or udp_replay:
        nu = run_udp(exe, seed, tier, 700 if quick else 24000, stats, viol, corr, udp_replay)
        if not udp_replay:
            run_udp_limit(exe, stats, viol, corr)
    t2 = time.time()
    if (not replay and "ws" not in skip) or ws_replay:
        nw, nws = run_ws(exe, seed, tier, 540 if quick else 18000, 6 if quick else 90, stats, viol, corr, ws_replay)
    core.log(PROP, f"udp: {nu} sockets, {stats.get('udp_sessions', 0)} sessions, {stats.get('udp_datagrams', 0)} datagrams, "
                   f"{stats.get('udp_delivered', 0)} payloads delivered, {stats.get('udp_flood_senders', 0)} flood senders ({t2 - t1:.1f}s); "
                   f"ws: {nw} sockets, {stats.get('ws_sessions', 0)} sessions, statuses {stats['ws_status']} ({time.time() - t2:.1f}s)")
    core.log(PROP, f"REAL: {len(groups)} sockets, {nsess} hostile sessions ({stats['executed']} executed, {stats['judged']} with deliveries "
                   f"judged); violations {len(viol)}, model differences {len(corr)}, crashes/hangs {stats['crashes']}; "
                   f"model outcomes {stats['model_outcome']}")
    from collections import Counter
    # SP/UDP, the FIRST data datagram on a fresh endpoint (harness/r_udpfirst.c): the size rule must hold before the endpoint's
    # receive buffer has been cut down to RECVMAXSZ (C11Net.never_over_recvmax is about every datagram, the first included)
    if not replay:
        try:
            fexe = build.harness("r_udpfirst", ["r_udpfirst.c"])
            fcases = [(100, 50, 50), (100, 100, 100), (100, 101, 101), (100, 5000, 5000), (2000, 1500, 30000), (2000, 1500, 1500),
                      (2000, 3000, 100), (0, 40000, 40000), (64, 65, 64000), (1024, 1025, 1025), (1024, 1024, 60000)]
            stats["udp_first"] = []
            for rm_, decl, act in fcases:
                r_ = core.run_stream([fexe, str(rm_), str(decl), str(act)], "", env=build.env(), timeout=60)
                line = next((l for l in r_.lines if l.startswith("udpfirst ")), "")
                m_ = re.search(r"cack=(\d) delivered=(-?\d+)", line)
                why = None
                if r_.rc != 0 or not m_:
                    why = f"the probe crashed or did not report (exit {r_.rc}): {line[:120]} {r_.err[-400:]}"
                else:
                    got = int(m_.group(2))
                    must_not = (rm_ > 0 and decl > rm_) or decl > act
                    if got == -2:
                        why = "the delivered bytes are not the bytes that were sent"
                    elif must_not and got != -1:
                        why = f"a first DATA datagram declaring {decl} bytes ({act} on the wire) was delivered as {got} bytes with RECVMAXSZ {rm_}"
                    elif not must_not and got != decl and m_.group(1) == "1":
                        why = f"a well-formed first DATA datagram of {decl} bytes was not delivered as such (got {got})"
                stats["udp_first"].append(f"{rm_}/{decl}/{act}:" + ("BAD" if why else "ok"))
                if why:
                    viol.append({"kind": "SP/UDP first data datagram on a fresh endpoint: " + why, "cfg": f"udp:pull:{rm_}",
                                 "lines": [f"r_udpfirst {rm_} {decl} {act}", line], "probe": "harness/r_udpfirst.c"})
        except build.BuildError as e:
            viol.append({"kind": "build of harness/r_udpfirst.c failed", "cfg": "udp:pull:0", "lines": [str(e)]})
    core.log(PROP, "violation kinds: " + json.dumps(Counter((x["kind"][:50] + "|" + x.get("cfg", "").split(":")[0]) for x in viol).most_common(12)))
    for c_ in corr[:int(os.environ.get("C11_DEBUG", "0"))]:
        ses = c_.get("session", {})
        core.log(PROP, "DIFF " + json.dumps({"what": c_["what"], "cfg": c_.get("cfg"), "id": ses.get("id"), "kind": ses.get("kind") or ses.get("kinds"),
                                             "mode": ses.get("mode"), "busy": ses.get("busy"), "model": c_.get("model"), "impl": c_.get("impl"),
                                             "m": ses.get("model") if isinstance(ses.get("model"), list) else None,
                                             "wt": c_.get("timed_out_waits")}, default=str)[:1100])
    core.log(PROP, "difference kinds: " + json.dumps(Counter((x["what"][:50] + "|" + x.get("cfg", "").split(":")[0]) for x in corr).most_common(12)))
    found_input = False
    seen = set()
    for x in viol:
        key = (x["kind"], x.get("cfg", "").split(":")[0])
        if key in seen or len(seen) >= 4:
            continue
        seen.add(key)
        cfgkey = x.get("cfg", "::")
        t, p, rm = cfgkey.split(":")
        payload = {"kind": x["kind"],
                   "config": {"transport": t, "protocol": p.replace("-raw", ""), "raw": 1 if p.endswith("-raw") else 0, "rcvmax": rm},
                   "sessions": [strip_session(x["session"])] if "session" in x else [],
                   "harness_lines": x.get("lines", [])[:400], "detail": {k: x[k] for k in x if k not in ("session", "lines", "all_lines")},
                   "how": "./check C11 --replay <this file>   (or: feed harness_lines to .cache/h-r_hostile-asan-*/r_hostile)"}
        if "session" not in x and "all_lines" in x:
            payload["harness_lines"] = x["lines"]
        m = re.search(r"^flood \S+ (\d+) (\S+)", "\n".join(x.get("lines", [])), re.M)
        if m and "session" not in x:
            payload["flood"] = [int(m.group(1)), "" if m.group(2) == "-" else m.group(2)]
        v.violation(re.sub(r"[^a-z0-9]+", "-", x["kind"].lower())[:40] + f"-{len(v.violations)}", payload)
        found_input = True
    if stats.get("ws_pipe_not_released"):
        v.known_finding(f"ws-pipe-not-released: in {stats['ws_pipe_not_released']} ws:// session(s) nng closed the TCP connection after the peer's "
                        "FIN but the pipe was not removed within the wait (it goes away when the socket closes); see integration/C11B.md (e)")
    if stats.get("udp_newcomer_refused_at_limit"):
        core.log(PROP, "observation (documented 'Peer Admission' bound, not a C11 violation): with NNG_UDP_MAX_PEERS associations up "
                        f"({stats['udp_limit']['held']} well-formed 8-byte CREQs from distinct source ports + the control peer) a new well-behaved peer is refused "
                        "with DISC(NOBUF) as the Lean model predicts (C11Net.peer_limit_refuses_newcomer); established associations kept working; after the "
                        "senders left the newcomer was admitted")
    if stats.get("udpx_skipped"):
        core.log(PROP, "SP/UDP IPv6 scenarios NOT run (no private network namespace / second loopback address): " + ", ".join(stats["udpx_skipped"]))
    if stats.get("pair_second_connection_anomalies"):
        core.log(PROP, f"observation outside C11: in {stats['pair_second_connection_anomalies']} session(s) a PAIR socket served a second "
                        "connection while its peer was connected (exclusivity is property C08; what it delivered was still judged here)")
    if not found_input:
        if corr:
            v.violation("corr-real", {"kind": "correspondence broken: the implementation differs from the Lean model of the connection-level "
                                              "decisions (no delivery the specification forbids was seen)",
                                      "first": {k: (strip_session(w) if k == "session" else w) for k, w in corr[0].items()},
                                      "count": len(corr), "kinds": sorted({c["what"] for c in corr})}, no_input=True)
        if not st.ok:
            v.violation("proof", {"kind": "proof obligation no longer checks", "broken": st.broken, "log": st.log[-3000:]}, no_input=True)
    distinct = len({(g[0].key, tuple(s["chunks"])) for g in groups for s in g[1]})
    cov = {
        "obligations": len(st.theorems), "discharged": len(st.discharged),
        "checker_cmd": "lake build NngModel.Props.C11 NngModel.Props.C11Net && lake env lean <#print axioms for each theorem>",
        "trusted_base": ["Lean 4.33.0 kernel", "axioms: " + ", ".join(sorted({a for x in st.axioms.values() if x for a in x})),
                         "vlib/extract_c01.py + extract_c11.py (handshake bytes, header widths, NNI_MAX_STREAM_MSGSZ, ipc type byte, default "
                         "RECVMAXSZ, protocol numbers, place of the peer-protocol test, SP/UDP header layout and limits)",
                         "harness/rawpeer.c + harness/r_hostile.c (the raw peers and the observing application)",
                         "Linux sockets/epoll, gcc ASan/UBSan/LSan (crash and memory-safety oracle), SIGALRM watchdog (hang oracle)"],
        "theorems": st.discharged, "axioms": st.axioms, "broken": st.broken,
        "partial": "C11 is PARTIAL: the theorems carry the decision functions (handshake, size rule before allocation, nothing after a "
                   "rejected frame, truncation prefix, per-connection state, protocol headers, SP/UDP header rule, WS rules by C16); "
                   "'never crashes / hangs / corrupts memory on any byte string' is supported by the stream search below, not proved",
        "evaluations": stats["executed"], "distinct_nontrivial": distinct,
        "rule": "sessions from splitmix64(seed,C11,tier,kind,config,i): valid sessions (Lean-shaped frames for the protocol under test), "
                "mutations " + ",".join(MUTATIONS) + "; truncation of valid sessions at every byte offset; random write cuts; "
                "end modes h (FIN, wait for nng's close) / x (RST) / i (idle during a control exchange); flood of 3-40 connections per "
                "socket; nng-side short reads by the NNG_VERIF clamp in every second process; rcvmax 0 / 64 / default.  SP/UDP: sessions of "
                "raw datagrams from up to 4 senders against a udp:// listener (" + ",".join(sorted(set(UDP_KINDS))) + "; every opcode truncated at "
                "every header length; floods from 3-40 source ports), waits = the Lean association model's prediction (answers, pipe events, "
                "deliveries).  ws://: raw HTTP upgrade requests (" + ",".join(WS_HTTP_KINDS) + ") and frame streams built with the C16 Lean "
                "encoder (" + ",".join(sorted(set(WS_FRAME_KINDS))) + "), truncation of valid sessions at every byte offset, floods; prediction "
                "= HttpConn model + server/upgrade decisions + Ws.rx + protocol callback (Lean `wss`)",
        "real": {"sockets": len(groups), "sessions": nsess, "executed": stats["executed"], "judged_with_deliveries": stats["judged"],
                 "violations": len(viol), "model_differences": len(corr), "crashes_or_hangs": stats["crashes"],
                 "model_outcome": stats["model_outcome"], "impl_outcome": stats["impl_outcome"], "end_modes": stats["modes"],
                 "rcvmax": stats["rcvmax"], "pair_lost_on_disconnect": stats.get("lost_on_disconnect", 0),
                 "pair_second_connection_anomalies": stats.get("pair_second_connection_anomalies", 0),
                 "udp_first_datagram (rcvmax/declared/actual)": stats.get("udp_first", []), "udp_peer_limit": stats.get("udp_limit"), "udp6_scenarios_run": stats.get("udpx_run", []),
                 "udp6_scenarios_skipped": stats.get("udpx_skipped", []),
                 "udp": {"sessions": stats.get("udp_sessions", 0), "datagrams": stats.get("udp_datagrams", 0),
                         "payloads_delivered": stats.get("udp_delivered", 0), "flood_senders": stats.get("udp_flood_senders", 0),
                         "datagram_kind -> model decision": stats["udp_kinds"]},
                 "ws": {"sessions": stats.get("ws_sessions", 0), "http_status_seen": stats["ws_status"],
                        "pipe_not_released": stats.get("ws_pipe_not_released", 0), "session_kind -> model outcome": stats["ws_kinds"]},
                 "histogram_transport|protocol|mutation -> [sessions, deliver, drop, disconnect]": stats["by"]},
        "samples": [sess_line(groups[0][1][0])[:300], groups[0][2][0]] if groups and groups[0][1] else [],
        "extract_changed": st.extract_changed,
    }
    core.write_evidence(PROP, tier, seed, "proof", cov,
                        ["Model/Hostile.lean + Model/SpStream.lean mirror the negotiation test, the receive state machine with the size rule, "
                         "the protocols' pipe_start / receive callbacks and udp.c's header decisions; tie = REAL differential runs above",
                         "the application keeps receiving (always-armed receiver); replies go to the control peer only",
                         "crash / hang / memory-corruption freedom is searched (sanitizers, watchdog, control connection), not proved"],
                        time.time() - t0, len(v.violations))
    # The REAL executor is timing dependent (real threads, real sockets, time-outs of seconds).  A violation WITH an input is
    # reported only if a second, independent run of the whole check reports one as well: the faults this check exists for
    # (size rules, handshake/header decisions, dropped connections, crashes) are deterministic at this level and show in
    # both runs; a scenario that fails once in many runs under load is kept (replays/, evidence `unconfirmed`) but is no alarm.
    if not replay and any(not no_input for _, no_input in v.violations) and not os.environ.get("C11_CONFIRMING"):
        tmp = tempfile.mkdtemp(prefix="c11-confirm-")
        try:
            r2 = subprocess.run([sys.executable, os.path.join(core.HERE, "check"), PROP, tier],
                                env=dict(os.environ, C11_CONFIRMING="1", VERIF_OUT=tmp), capture_output=True, text=True)
            if r2.returncode == 0 and "VIOLATION" not in r2.stdout:
                core.log(PROP, f"UNCONFIRMED: {len(v.violations)} violation(s) of this run were not reproduced by a second run of the check "
                               "(timing-dependent REAL executor); replays kept, no alarm raised")
                v.violations = []
        finally:
            shutil.rmtree(tmp, ignore_errors=True)
    return v.finish()
