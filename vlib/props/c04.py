"""C04 — REQ/REP: replies reach only the matching outstanding request.
Runs the requester half (vlib/props/c04req.py: REQ) and the replier half (vlib/props/c04rep.py: REP, raw REP, raw REQ)
under one verdict and one evidence file."""
import time, json
from .. import core, build, lean, sim
from . import c04req, c04rep

PROP = "C04"
MODULES = ["NngModel.Props.C04Req", "NngModel.Props.C04Rep"]


def run(tier, seed, replay=None):
    t0 = time.time()
    v = core.Verdict(PROP, seed)
    core.clear_replays(PROP)
    st = lean.prepare(MODULES)
    core.log(PROP, f"lean: {len(st.discharged)}/{len(st.theorems)} theorems re-checked; extract {st.extract_count} constants "
                   f"(changed: {st.extract_changed}); {st.build_s:.1f}s")
    try:
        exe = sim.build_sim("s_proto", ["s_proto.c"])
    except build.BuildError as e:
        v.violation("build", {"kind": "build", "error": str(e), "log": e.log[-4000:]}, no_input=True)
        core.write_evidence(PROP, tier, seed, "proof", {"obligations": max(1, len(st.theorems)), "discharged": 0, "checker_cmd": "lake build",
                            "trusted_base": [], "explanation": "implementation or harness does not build"}, [], time.time() - t0, 1)
        return v.finish()
    req_replay = rep_replay = None
    rops = scheds = None
    if replay:
        rp = json.load(open(replay))
        ops = rp.get("ops", [])
        first_open = next((o for o in ops if o.startswith("open")), "open req")
        if first_open.startswith("open req") and "raw" not in first_open:
            req_replay = replay
        else:
            rops = ops
            if rops and rops[0].startswith("sched"):
                scheds = (int(rops[0].split()[1]),)
                rops = rops[1:]
            rep_replay = True
    found = False
    cov = {}
    if not rep_replay:
        part = c04req.run_req_part(tier, seed, req_replay, ("C04",), st.driver_ok)
        core.log(PROP, "REQ: " + ", ".join(f"{k} {x}" for k, x in part["counts"].items()))
        for tag, payload, no_input in part["violations"]:
            v.violation(tag, payload, no_input=no_input)
        found = found or part["found_input"]
        cov["req"] = part["coverage"]
    if not req_replay:
        part = c04rep.run_rep_part(tier, seed, st, exe, rops, scheds)
        tot = part["tot"]
        core.log(PROP, f"REP/XREP/XREQ: cases {tot['cases']} runs {tot['runs']} ops {tot['ops']}; judge violations {tot['judge']}, "
                       f"model mismatches {tot['model']}, crashes {tot['crash']}")
        for tag, payload, no_input in part["violations"]:
            v.violation(tag, payload, no_input=no_input)
        found = found or part["found_input"]
        cov["rep"] = {"evaluations": tot["runs"], "ops": tot["ops"], "op_histogram": part["op_hist"], "event_histogram": part["ev_hist"],
                      "samples": [part["allops"][0], part["allops"][-1]] if part["allops"] else [],
                      "distinct_nontrivial": len({tuple(o) for o in part["allops"] if len(o) > 4}),
                      "judge_violations": tot["judge"], "model_mismatches": tot["model"], "crashes": tot["crash"]}
    if not found and not st.ok:
        v.violation("proof", {"kind": "proof obligation no longer checks", "broken": st.broken, "log": st.log[-3000:]}, no_input=True)
    ev = sum(int(c.get("evaluations", 0)) for c in cov.values())
    dn = sum(int(c.get("distinct_nontrivial", 0)) for c in cov.values())
    samples = []
    for c in cov.values():
        samples += list(c.get("samples", []))[:2]
    coverage = {"obligations": len(st.theorems), "discharged": len(st.discharged),
                "checker_cmd": "lake build NngModel.Props.C04Req NngModel.Props.C04Rep && lake env lean <#print axioms for each theorem>",
                "trusted_base": ["Lean 4.33.0 kernel", "axioms: " + ", ".join(sorted({a for x in st.axioms.values() if x for a in x})),
                                 "vlib/extract_c04req.py, extract_c04rep.py", "harness/simplat.c, mocktran.c, s_proto.c",
                                 "vlib/props/c04req.py (interactive id renaming), c04rep_filter.py (pipe-id renaming), vlib/sim.py", "gcc ASan/UBSan/LSan"],
                "theorems": st.discharged, "axioms": st.axioms, "broken": st.broken,
                "evaluations": max(ev, 1), "distinct_nontrivial": dn,
                "rule": "requester half: REQ histories (contexts, pipes, reply streams with current/stale/foreign/duplicate/low-bit/short ids, resend-time changes, virtual time); "
                        "replier half: REP / raw REP / raw REQ histories (backtraces 0-17 hops, malformed, TTL 1-15, ESTATE misuse, pipe loss); each under several schedule seeds; "
                        "distinct = distinct op lists longer than 4", "samples": samples, "halves": cov, "extract_changed": st.extract_changed}
    core.write_evidence(PROP, tier, seed, "proof", coverage,
                        ["protocol callbacks are atomic under the protocol mutex (SIM still interleaves their unlocked tails)",
                         "the mock transport honours the transport contract", "bodies pairwise distinct within a case"],
                        time.time() - t0, len(v.violations))
    return v.finish()
