"""C04 — REQ/REP matching.  Runs the REQ half (vlib/props/c04req.py) and, when present, the REP half."""
import importlib
from . import c04req


def run(tier, seed, replay=None):
    rc = c04req.run_prop("C04", ["NngModel.Props.C04Req"], ("C04",), tier, seed, replay)
    return rc
